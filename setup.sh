#!/bin/sh
# One-time build after a fresh restore (offline): translator, regenerated Gen files, all Lean
# theorems + the oracle executable, and the Go harness.  Every check re-does the parts that
# depend on /repo (translate, lake build, go build) itself; this only warms the caches.
set -e
cd "$(dirname "$0")"
export GOFLAGS=-mod=mod GOPROXY=off GOSUMDB=off GOTOOLCHAIN=local
REPO="${VERIF_REPO:-/repo}"
mkdir -p bin .build evidence replays
(cd tools/translate && go1.26 build -o ../../bin/translate .)
rm -rf lean/JsonV/Gen
./bin/translate "$REPO" lean/JsonV/Gen
(cd lean && lake build)
sed "s#=> /repo#=> $REPO#" harness/go.mod > .build/go.harness.mod
(cd harness && go1.26 build -modfile ../.build/go.harness.mod -tags verif -o ../bin/verifh .)
echo "setup ok"
