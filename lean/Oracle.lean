/-
Tie B oracle: reads one operation per line on stdin, `<family> <op> <args…>`,
answers one canonical line on stdout.  Core Lean only (links as a lean_exe).
Each family lives in JsonV/Oracle/<Family>.lean and only calls Model/Spec definitions.
-/
import JsonV.Oracle.Util
import JsonV.Oracle.Flags
import JsonV.Oracle.Wire
import JsonV.Oracle.Quote
import JsonV.Oracle.Num
import JsonV.Oracle.Cmp
import JsonV.Oracle.Ptr
import JsonV.Oracle.Sm
import JsonV.Oracle.Enc
import JsonV.Oracle.Dec
import JsonV.Oracle.Fmt
import JsonV.Oracle.Time
import JsonV.Oracle.Fields
import JsonV.Oracle.Disp
import JsonV.Oracle.Arsh
import JsonV.Oracle.V1
import JsonV.Oracle.Tree
import JsonV.Oracle.Dup
import JsonV.Oracle.Iso
import JsonV.Oracle.Depth
import JsonV.Oracle.Flush

open JsonV.Oracle

def dispatch (line : String) : String :=
  match (line.splitOn " ").filter (· ≠ "") with
  | "flags" :: op :: args => Flags.handleFlags op args
  | "opts" :: op :: args => Flags.handleOpts op args
  | "wire" :: op :: args => Wire.handle op args
  | "quote" :: op :: args => Quote.handle op args
  | "num" :: op :: args => Num.handle op args
  | "cmp" :: op :: args => Cmp.handle op args
  | "ptr" :: op :: args => Ptr.handle op args
  | "sm" :: op :: args => Sm.handle op args
  | "enc" :: op :: args => Enc.handle op args
  | "dec" :: op :: args => Dec.handle op args
  | "fmt" :: op :: args => Fmt.handle op args
  | "time" :: op :: args => Time.handle op args
  | "fields" :: op :: args => Fields.handle op args
  | "disp" :: op :: args => Disp.handle op args
  | "arsh" :: op :: args => Arsh.handle op args
  | "v1" :: op :: args => V1.handle op args
  | "tree" :: op :: args => Tree.handle op args
  | "dup" :: op :: args => Dup.handle op args
  | "iso" :: op :: args => Iso.handle op args
  | "depth" :: op :: args => Depth.handle op args
  | "flush" :: op :: args => Flush.handle op args
  | "ping" :: _ => "pong"
  | _ => "ERR unknown-family"

partial def loop (hin hout : IO.FS.Stream) : IO Unit := do
  let line ← hin.getLine
  if line.isEmpty then
    hout.flush
    return ()
  let l := String.ofList (line.toList.filter (fun c => c != '\n' && c != '\r'))
  if l == "flush" then
    hout.flush
  else
    hout.putStrLn (dispatch l)
  loop hin hout

def main : IO Unit := do
  let hin ← IO.getStdin
  let hout ← IO.getStdout
  loop hin hout
