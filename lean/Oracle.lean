/-
Tie B oracle: reads one operation per line on stdin, `<family> <op> <args…>`,
answers one canonical line on stdout.  Core Lean only (links as a lean_exe).
Each family lives in JsonV/Oracle/<Family>.lean and only calls Model/Spec definitions.
-/
import JsonV.Oracle.Util
import JsonV.Oracle.Flags

open JsonV.Oracle

def dispatch (line : String) : String :=
  match (line.splitOn " ").filter (· ≠ "") with
  | "flags" :: op :: args => Flags.handleFlags op args
  | "opts" :: op :: args => Flags.handleOpts op args
  | "ping" :: _ => "pong"
  | _ => "ERR unknown-family"

partial def loop (hin hout : IO.FS.Stream) : IO Unit := do
  let line ← hin.getLine
  if line.isEmpty then
    hout.flush
    return ()
  let l := String.ofList (line.toList.filter (fun c => c != '\n' && c != '\r'))
  if l == "flush" then
    hout.flush
  else
    hout.putStrLn (dispatch l)
  loop hin hout

def main : IO Unit := do
  let hin ← IO.getStdin
  let hout ← IO.getStdout
  loop hin hout
