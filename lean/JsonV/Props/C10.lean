/-
C10 — Numbers are converted exactly in both directions.

Property theorems only; proofs live in Lemmas/NumParse, NumInt, NumFloat, NumGrammar.
The model (Model/Number.lean) mirrors jsonwire.ParseUint, the int/uint unmarshalers, Token.Int/Uint,
jsonwire.AppendFloat on strconv's shortest decomposition, ReformatNumber; it is tied to the code by the
regenerated constants below (Tie A) and by the `num` correspondence ops of harness/c10.go (Tie B).
strconv's shortest-digit generation and ParseFloat's correct rounding are parameters (validated by the harness).
-/
import JsonV.Lemmas.NumInt
import JsonV.Lemmas.NumGrammar
import JsonV.Lemmas.NumDenote
import JsonV.Lemmas.NumTok
import JsonV.Lemmas.NumTokFloat

namespace JsonV.Props.C10
open JsonV JsonV.Model.Number JsonV.Spec.Ecma
open JsonV.Lemmas.NumParse JsonV.Lemmas.NumInt JsonV.Lemmas.NumFloat JsonV.Lemmas.NumGrammar JsonV.Lemmas.NumTok

/-! ### Tie A: constants regenerated from the Go source -/

theorem tie_unsafeWidth : JsonV.Gen.jsonwire.c_ParseUint_unsafeWidth = 20 := rfl
theorem tie_maxExactIntegerDigits : JsonV.Gen.jsonwire.c_ReformatNumber_maxExactIntegerDigits = 16 := rfl
/-- 20 is the number of digits of MaxUint64 and 16 that of 2^53: what the two constants are documented to be. -/
theorem widths_meaning : (natDigits (2 ^ 64 - 1)).length = JsonV.Gen.jsonwire.c_ParseUint_unsafeWidth ∧
    (natDigits (2 ^ 53)).length = JsonV.Gen.jsonwire.c_ReformatNumber_maxExactIntegerDigits := by
  constructor <;> simp [natDigits, tie_unsafeWidth, tie_maxExactIntegerDigits]

/-! ### jsonwire.ParseUint -/

/-- For EVERY byte string: a canonical decimal (non-empty, digits only, no leading zero unless "0") yields its value
when that is below 2^64 and `(MaxUint64, false)` otherwise; anything else yields `(0, false)`.
The loop runs in wrapping 64-bit arithmetic; the 20-digit overflow test is exact. -/
theorem parseUint_exact (b : Bytes) :
    parseUint b =
      if canonicalDecimal b then
        (if bytesVal b < 2 ^ 64 then (UInt64.ofNat (bytesVal b), true) else (maxUint64, false))
      else (0, false) := JsonV.Lemmas.NumParse.parseUint_exact b

/-- Every uint64 printed in decimal (strconv.AppendUint) reads back as itself. -/
theorem uint_rt (n : Nat) (h : n < 2 ^ 64) : parseUint (formatUint n) = (UInt64.ofNat n, true) := by
  rw [parseUint_exact, formatUint_canonical, bytesVal_formatUint]; simp [h]

example : parseUint (formatUint 18446744073709551615) = (18446744073709551615, true) := uint_rt _ (by decide)

/-! ### integer unmarshalers (every Go width) -/

/-- Signed kinds: success with value `i` iff the text is an integer literal (`-0` included) denoting `i`
and `-2^(w-1) ≤ i < 2^(w-1)`. -/
theorem int_bounds (w : Nat) (hw : GoWidth w) (lit : Bytes) (i : Int) :
    unmarshalInt w lit = .ok i ↔
      isIntLit lit = true ∧ intVal lit = i ∧ -(2 ^ (w - 1) : Int) ≤ i ∧ i < 2 ^ (w - 1) := by
  rw [unmarshalInt_spec w hw lit]
  by_cases h1 : isIntLit lit = true
  · by_cases h2 : -(2 ^ (w - 1) : Int) ≤ intVal lit ∧ intVal lit < 2 ^ (w - 1)
    · simp only [h1, if_true, if_pos h2, Except.ok.injEq, true_and]
      constructor
      · intro h; subst h; exact ⟨rfl, h2⟩
      · intro h; exact h.1
    · simp only [h1, if_true, if_neg h2, true_and]
      constructor
      · intro h; cases h
      · intro h; exact absurd (h.1 ▸ h.2) h2
  · simp only [h1, Bool.false_eq_true, if_false, false_and]
    constructor
    · intro h; cases h
    · intro h; exact h.elim

/-- The error class: an integer literal out of range is a range error, everything else a syntax error. -/
theorem int_class (w : Nat) (hw : GoWidth w) (lit : Bytes) :
    unmarshalInt w lit =
      if isIntLit lit then
        (if -(2 ^ (w - 1) : Int) ≤ intVal lit ∧ intVal lit < 2 ^ (w - 1) then .ok (intVal lit) else .error .range)
      else .error .syntax := unmarshalInt_spec w hw lit

/-- Unsigned kinds: success with value `u` iff the text is a canonical decimal (no sign at all) denoting `u < 2^w`. -/
theorem uint_bounds (w : Nat) (hw : GoWidth w) (lit : Bytes) (u : Nat) :
    unmarshalUint w lit = .ok u ↔ canonicalDecimal lit = true ∧ bytesVal lit = u ∧ u < 2 ^ w := by
  rw [unmarshalUint_spec w hw lit]
  by_cases h1 : canonicalDecimal lit = true
  · by_cases h2 : bytesVal lit < 2 ^ w
    · simp only [h1, if_true, if_pos h2, Except.ok.injEq, true_and]
      constructor
      · intro h; subst h; exact ⟨rfl, h2⟩
      · intro h; exact h.1
    · simp only [h1, if_true, if_neg h2, true_and]
      constructor
      · intro h; cases h
      · intro h; exact absurd (h.1 ▸ h.2) h2
  · simp only [h1, Bool.false_eq_true, if_false, false_and]
    constructor
    · intro h; cases h
    · intro h; exact h.elim

theorem uint_class (w : Nat) (hw : GoWidth w) (lit : Bytes) :
    unmarshalUint w lit =
      if canonicalDecimal lit then (if bytesVal lit < 2 ^ w then .ok (bytesVal lit) else .error .range)
      else .error .syntax := unmarshalUint_spec w hw lit

-- the bounds are met exactly: "-128" fits int8 and "-129", "128" do not; "255" fits uint8, "256" does not; "-0" is 0
example : unmarshalInt 8 [45, 49, 50, 56] = .ok (-128) :=
  (int_bounds 8 (Or.inl rfl) _ _).2 ⟨by decide, by decide, by decide, by decide⟩
example : unmarshalInt 8 [45, 49, 50, 57] = .error .range := by
  rw [int_class 8 (Or.inl rfl), if_pos (by decide), if_neg (by decide)]
example : unmarshalInt 8 [49, 50, 56] = .error .range := by
  rw [int_class 8 (Or.inl rfl), if_pos (by decide), if_neg (by decide)]
example : unmarshalInt 64 [45, 48] = .ok 0 :=
  (int_bounds 64 (Or.inr (Or.inr (Or.inr rfl))) _ _).2 ⟨by decide, by decide, by decide, by decide⟩
example : unmarshalUint 8 [50, 53, 53] = .ok 255 :=
  (uint_bounds 8 (Or.inl rfl) _ _).2 ⟨by decide, by decide, by decide⟩
example : unmarshalUint 8 [50, 53, 54] = .error .range := by
  rw [uint_class 8 (Or.inl rfl), if_pos (by decide), if_neg (by decide)]

/-- A literal with a fraction or an exponent is refused (syntax error) by both families, at every width. -/
theorem frac_exp_refused (w : Nat) (hw : GoWidth w) (lit : Bytes) (h : hasFracOrExp lit = true) :
    unmarshalInt w lit = .error .syntax ∧ unmarshalUint w lit = .error .syntax := by
  have h1 : isIntLit lit = false := by
    cases hi : isIntLit lit with
    | false => rfl
    | true => rw [intLit_no_frac lit hi] at h; exact absurd h (by decide)
  have h2 : canonicalDecimal lit = false := by
    cases hc : canonicalDecimal lit with
    | false => rfl
    | true => rw [canonical_no_frac lit hc] at h; exact absurd h (by decide)
  rw [unmarshalInt_spec w hw, unmarshalUint_spec w hw, h1, h2]
  simp

example : hasFracOrExp [49, 46, 48] = true ∧ hasFracOrExp [49, 101, 48] = true := by decide

/-- Any minus sign — even `-0` — is refused for unsigned kinds. -/
theorem minus_refused_unsigned (w : Nat) (hw : GoWidth w) (lit : Bytes) (h : lit.head? = some 45) :
    unmarshalUint w lit = .error .syntax := by
  have h2 : canonicalDecimal lit = false := by
    cases hc : canonicalDecimal lit with
    | false => rfl
    | true => exact absurd h (canonical_not_minus lit hc)
  rw [unmarshalUint_spec w hw, h2]; simp

example : unmarshalUint 64 [45, 48] = .error .syntax := minus_refused_unsigned 64 (Or.inr (Or.inr (Or.inr rfl))) _ rfl

/-- The quoted form (`string` option, StringifyNumbers, map keys) is decided by the very same function on the
unquoted content; a bare number under the option, or a string without it, is a kind mismatch. -/
theorem quoted_same (w : Nat) (val : Bytes) :
    unmarshalIntValue w true .str val = unmarshalIntValue w false .num val ∧
    unmarshalUintValue w true .str val = unmarshalUintValue w false .num val ∧
    unmarshalIntValue w true .num val = .err .mismatch ∧ unmarshalIntValue w false .str val = .err .mismatch ∧
    unmarshalUintValue w true .num val = .err .mismatch ∧ unmarshalUintValue w false .str val = .err .mismatch := by
  simp [unmarshalIntValue, unmarshalUintValue]

/-- Every in-range integer printed in decimal (strconv.AppendInt) unmarshals to itself. -/
theorem int_rt (w : Nat) (hw : GoWidth w) (i : Int) (h1 : -(2 ^ (w - 1) : Int) ≤ i) (h2 : i < 2 ^ (w - 1)) :
    unmarshalInt w (formatInt i) = .ok i := by
  rw [int_bounds w hw]
  exact ⟨(formatInt_lit i).1, (formatInt_lit i).2, h1, h2⟩

example : unmarshalInt 64 (formatInt (-9223372036854775808)) = .ok (-9223372036854775808) :=
  int_rt 64 (Or.inr (Or.inr (Or.inr rfl))) _ (by decide) (by decide)

/-! ### Token.Int / Token.Uint on raw literals -/

/-- Token.Int: an integer literal in range is exact; out of range it saturates with a range error; anything
else is a syntax error carrying the (saturated, truncated) float value. -/
theorem tokenInt_class (pf : Bytes → Fl) (buf : Bytes) :
    tokenInt pf buf =
      if isIntLit buf then
        (if -(2 ^ 63 : Int) ≤ intVal buf ∧ intVal buf < 2 ^ 63 then (intVal buf, .none)
         else if intVal buf < 0 then (-(2 ^ 63), .range) else (2 ^ 63 - 1, .range))
      else (f64toi64 (pf buf), .syntax) := tokenInt_spec pf buf

theorem tokenUint_class (pf : Bytes → Fl) (buf : Bytes) :
    tokenUint pf buf =
      if canonicalDecimal buf then
        (if bytesVal buf < 2 ^ 64 then (bytesVal buf, .none) else (2 ^ 64 - 1, .range))
      else (f64tou64 (pf buf), .syntax) := tokenUint_spec pf buf

/-- Token.Int/Uint agree with the unmarshalers on every integer literal that fits. -/
theorem token_agrees_with_unmarshal (pf : Bytes → Fl) (buf : Bytes) (i : Int)
    (h : unmarshalInt 64 buf = .ok i) : tokenInt pf buf = (i, .none) := by
  have hw : GoWidth 64 := Or.inr (Or.inr (Or.inr rfl))
  obtain ⟨h1, h2, h3, h4⟩ := (int_bounds 64 hw buf i).1 h
  rw [tokenInt_class, h1, h2]
  simp only [if_true]
  rw [if_pos ⟨by simpa using h3, by simpa using h4⟩]

example : unmarshalInt 64 [45, 55] = .ok (-7) :=
  (int_bounds 64 (Or.inr (Or.inr (Or.inr rfl))) _ _).2 ⟨by decide, by decide, by decide, by decide⟩

/-! ### typed tokens: jsontext.Int / jsontext.Uint / jsontext.Float and the accessors on them -/

/-- On a raw token the general accessors are the raw ones (so `tokenInt_class`/`tokenUint_class` apply). -/
theorem tok_raw (pf : Bytes → Fl) (buf : Bytes) :
    tokInt pf (.raw buf) = tokenInt pf buf ∧ tokUint pf (.raw buf) = tokenUint pf buf := ⟨rfl, rfl⟩

/-- jsontext.Int(n): `.Int()` is exact for every int64 (0 included, which is the raw token `0`);
`.Uint()` is exact for n ≥ 0 and `(0, syntax)` for n < 0. -/
theorem typedInt_class (pf : Bytes → Fl) (n : Int) (h1 : -(2 ^ 63 : Int) ≤ n) (h2 : n < 2 ^ 63) :
    tokInt pf (mkInt n) = (n, .none) ∧
    tokUint pf (mkInt n) = if n < 0 then (0, .syntax) else (n.toNat, .none) :=
  ⟨mkInt_tokInt pf n h1 h2, mkInt_tokUint pf n h1 h2⟩

/-- jsontext.Uint(u): `.Uint()` is exact for every uint64; `.Int()` is exact up to and INCLUDING 2^63−1 and
saturates with a range error only above it. -/
theorem typedUint_class (pf : Bytes → Fl) (u : Nat) (h : u < 2 ^ 64) :
    tokUint pf (mkUint u) = (u, .none) ∧
    tokInt pf (mkUint u) = if u < 2 ^ 63 then ((u : Int), .none) else (2 ^ 63 - 1, .range) :=
  ⟨mkUint_tokUint pf u h, mkUint_tokInt pf u h⟩

example (pf : Bytes → Fl) : tokInt pf (mkUint 9223372036854775807) = (9223372036854775807, .none) := by
  have := (typedUint_class pf 9223372036854775807 (by decide)).2
  rw [if_pos (by decide)] at this; exact this

/-- A typed integer token behaves exactly like the raw token of its rendered literal (strconv.AppendInt/AppendUint). -/
theorem typed_eq_raw (pf : Bytes → Fl) :
    (∀ n : Int, -(2 ^ 63 : Int) ≤ n → n < 2 ^ 63 → tokInt pf (mkInt n) = tokenInt pf (formatInt n)) ∧
    (∀ u : Nat, u < 2 ^ 64 → tokInt pf (mkUint u) = tokenInt pf (formatUint u) ∧
                              tokUint pf (mkUint u) = tokenUint pf (formatUint u)) := by
  constructor
  · intro n h1 h2
    rw [mkInt_tokInt pf n h1 h2, tokenInt_class, (formatInt_lit n).1, (formatInt_lit n).2]
    simp only [if_true]
    rw [if_pos ⟨h1, h2⟩]
  · intro u h
    obtain ⟨hl, hv⟩ := isIntLit_of_canonical _ (formatUint_canonical u)
    constructor
    · rw [mkUint_tokInt pf u h, tokenInt_class, hl, hv, bytesVal_formatUint]
      simp only [if_true]
      by_cases hu : u < 2 ^ 63
      · rw [if_pos hu, if_pos ⟨by omega, by omega⟩]
      · rw [if_neg hu, if_neg (by omega), if_neg (by omega)]
    · rw [mkUint_tokUint pf u h, tokenUint_class, formatUint_canonical, bytesVal_formatUint]
      simp [h]

/-- jsontext.Float / Float32 token → Token.Int, for every finite value (`truncInt f` is the value truncated toward
zero): fractional ⇒ syntax error carrying the truncated, saturated value; integral and inside the int64 range ⇒
exact, no error; integral and outside — including exactly 2^63 — ⇒ saturated with a range error. -/
theorem typedFloat_int_class (pf : Bytes → Fl) (f : Fl) (b : Bool) (hf : f.inf = false) :
    tokInt pf (.float f b) =
      if f.isIntegral = false then (f64toi64 f, .syntax)
      else if -(2 ^ 63 : Int) ≤ truncInt f ∧ truncInt f < 2 ^ 63 then (truncInt f, .none)
      else if truncInt f < 0 then (-(2 ^ 63), .range) else (2 ^ 63 - 1, .range) := tokInt_float pf f b hf

/-- … → Token.Uint: fractional or carrying a minus sign (also −0) ⇒ syntax error; integral in [0, 2^64) ⇒ exact;
integral and ≥ 2^64 — including exactly 2^64 — ⇒ MaxUint64 with a range error. -/
theorem typedFloat_uint_class (pf : Bytes → Fl) (f : Fl) (b : Bool) (hf : f.inf = false) :
    tokUint pf (.float f b) =
      if f.isIntegral = false ∨ f.neg = true then (f64tou64 f, .syntax)
      else if f.truncAbs < 2 ^ 64 then (f.truncAbs, .none) else (2 ^ 64 - 1, .range) := tokUint_float pf f b hf

/-- The value reported with a syntax error (token.go f64toi64 / f64tou64) is the truncation toward zero, saturated. -/
theorem truncation_saturates (f : Fl) (hf : f.inf = false) :
    f64toi64 f = (if truncInt f < -(2 ^ 63) then -(2 ^ 63) else if truncInt f ≥ 2 ^ 63 then 2 ^ 63 - 1 else truncInt f) ∧
    f64tou64 f = (if f.neg then 0 else if f.truncAbs ≥ 2 ^ 64 then 2 ^ 64 - 1 else f.truncAbs) :=
  ⟨f64toi64_clamp f hf, f64tou64_clamp f hf⟩

-- 2^63 as a float token: integral, out of range ⇒ (MaxInt64, range); as Uint it is exact
example (pf : Bytes → Fl) : tokInt pf (.float ⟨false, false, 2 ^ 52, 11⟩ false) = (2 ^ 63 - 1, .range) ∧
    tokUint pf (.float ⟨false, false, 2 ^ 52, 11⟩ false) = (2 ^ 63, .none) := by
  constructor
  · rw [typedFloat_int_class pf _ _ rfl, if_neg (by decide), if_neg (by decide), if_neg (by decide)]
  · rw [typedFloat_uint_class pf _ _ rfl, if_neg (by decide), if_pos (by decide)]; rfl

/-! ### Token.Float -/

/-- Token.Float / Token.Float32 on a RAW token: exactly the float parser applied to the literal
(`strconv.ParseFloat(buf, 64)` resp. `(buf, 32)`), with ErrRange iff the parser overflowed to ±Inf. -/
theorem tokenFloat_class (pf64 pf32 : Bytes → Fl) (buf : Bytes) :
    tokFloat64 pf64 pf32 (.raw buf) = (pf64 buf, if (pf64 buf).inf then .range else .none) ∧
    tokFloat32 pf64 pf32 (.raw buf) = (roundFl fmt32 (pf32 buf), if (pf32 buf).inf then .range else .none) :=
  ⟨rfl, rfl⟩

/-- Token.Float on jsontext.Int(n) / jsontext.Uint(u): Go's integer→float64 conversion (one rounding to nearest
even), no error — the very value the raw token of the rendered literal reports under the correctly rounding
parser `parseFloatExact` (the specification of strconv.ParseFloat): typed ≡ raw for the Float accessor too.
(Token.Float32 on such tokens rounds twice — known finding N2 — and is deliberately not covered.) -/
theorem typedInt_float (pf32 : Bytes → Fl) (n : Int) (h1 : -(2 ^ 63 : Int) ≤ n) (h2 : n < 2 ^ 63) :
    (tokFloat64 (parseFloatExact fmt64) pf32 (mkInt n)).1 =
      (tokFloat64 (parseFloatExact fmt64) pf32 (.raw (formatInt n))).1 ∧
    (n ≠ 0 → tokFloat64 (parseFloatExact fmt64) pf32 (mkInt n) =
      (roundFl fmt64 ⟨decide (n < 0), false, n.natAbs, 0⟩, .none)) :=
  JsonV.Lemmas.NumTokFloat.mkInt_float pf32 n h1 h2

theorem typedUint_float (pf32 : Bytes → Fl) (u : Nat) (h : u < 2 ^ 64) :
    (tokFloat64 (parseFloatExact fmt64) pf32 (mkUint u)).1 =
      (tokFloat64 (parseFloatExact fmt64) pf32 (.raw (formatUint u))).1 ∧
    (u ≠ 0 → tokFloat64 (parseFloatExact fmt64) pf32 (mkUint u) = (roundFl fmt64 ⟨false, false, u, 0⟩, .none)) :=
  JsonV.Lemmas.NumTokFloat.mkUint_float pf32 u h

/-! ### floats: layout of the shortest decomposition -/

/-- jsonwire.AppendFloat (choice of %e/%f, strconv's layout, the `e-0X` clean-up) lays out the shortest
decomposition `(neg, d₁…d_k, n)` exactly as ECMA-262 Number::toString prescribes, with −0 kept. -/
theorem float_layout (neg : Bool) (ds : List Nat) (n : Int) (h : WFD ds n) :
    appendFloat neg ds n = numberToString neg ds n := appendFloat_eq_ecma neg ds n h

example : WFD [1, 2, 5] (-6) ∧ WFD [] 0 ∧ WFD [1] 22 ∧ WFD [4, 9] (-323) := by
  refine ⟨⟨?_, ?_, ?_, ?_, ?_⟩, ⟨?_, ?_, ?_, ?_, ?_⟩, ⟨?_, ?_, ?_, ?_, ?_⟩, ⟨?_, ?_, ?_, ?_, ?_⟩⟩ <;> simp <;> omega

/-- The output is always a JSON number (RFC 8259 §6). -/
theorem float_is_number (neg : Bool) (ds : List Nat) (n : Int) (h : WFD ds n) :
    isJsonNumber (appendFloat neg ds n) = true := by
  rw [float_layout neg ds n h]; exact numberToString_isJson neg ds n h

/-- Printed integers are JSON numbers that the integer unmarshalers accept: `formatInt` yields integer literals. -/
theorem int_is_literal (i : Int) : isIntLit (formatInt i) = true ∧ intVal (formatInt i) = i := formatInt_lit i

/-- The layout loses nothing: read back as a decimal, the text denotes exactly `(−1)^neg × d₁…d_k × 10^(n−k)`
(= ±0.d₁…d_k × 10^n); zero is `±0`. -/
theorem float_denotes (neg : Bool) (ds : List Nat) (n : Int) (h : WFD ds n) :
    (decimalValue (appendFloat neg ds n)).same ⟨neg, digitsVal ds, n - ds.length⟩ := by
  rw [float_layout neg ds n h]
  by_cases hne : ds = []
  · subst hne
    rw [h.2.2.1 rfl, JsonV.Lemmas.NumDenote.zero_denotes]
    exact JsonV.Lemmas.NumDenote.Dec.same_refl _
  · exact JsonV.Lemmas.NumDenote.numberToString_denotes neg ds n h hne

/- Not stated here because they are properties of strconv, which is a parameter of the model (see meta/C10.json):
that the shortest decomposition of every finite float is well formed (`WFD`), that ParseFloat maps the text back
to the same bits, and that no shorter digit string does.  harness/c10.go checks all three on the implementation
(thorough tier: every float32). -/

end JsonV.Props.C10
