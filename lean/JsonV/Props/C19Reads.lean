/-
C19, clause "options that the documentation lists as not affecting an operation never change its result" — the part a
proof can reach: a FRAME argument on regenerated read sets.

`Gen/Reads.lean` (tools/translate/reads.go) lists, per function group of the library, every jsonflags constant that is
mentioned other than as a Set/Clear argument (and every read of a value slot of jsonopts.Struct, counted as the flag
guarding it), and the scope flags.go documents for each flag.  Every Flags.Get/Has has a constant argument (checked by
the translator), so a function can only depend on a flag it mentions.  What is NOT covered: which group calls which
(a marshal-side function calling unmarshal-side code), so the theorems speak about function groups, and the behavioural
differential test (harness c19NonInterference / c19ExplicitDefault) validates the paths as a whole.
-/
import JsonV.Gen.Reads
import JsonV.Model.OptProj
import JsonV.Lemmas.ReadsL

namespace JsonV.Props.C19Reads
open JsonV.Model JsonV.Model.OptProj JsonV.Gen JsonV.Gen.Reads JsonV.Lemmas.ReadsL

/-- OR of the flags whose documented scope is one of `scopes`. -/
def docMask (scopes : List String) : Nat :=
  (doc.filter (fun e => scopes.contains e.2.2)).foldl (fun a e => a ||| e.2.1) 0

def marshalOnly : Nat := docMask ["marshal only", "marshal"]
def unmarshalOnly : Nat := docMask ["unmarshal only", "unmarshal"]
def encodeOnly : Nat := docMask ["encode only"]

/-- Every flag of flags.go carries one of the seven scope comments, and the table lists all 42 flags (+ the value bit). -/
theorem doc_complete :
    doc.all (fun e => ["reserved for the boolean value itself", "encode or decode", "encode only", "marshal or unmarshal",
      "marshal only", "unmarshal only", "marshal", "unmarshal"].contains e.2.2) = true ∧
    doc.foldl (fun a e => a ||| e.2.1) 0 = jsonflags.c_AllFlags + 1 ∧ doc.length = 43 := by decide

/-- The documented-irrelevant sets, spelled out. -/
theorem doc_sets :
    marshalOnly = jsonflags.c_Deterministic + jsonflags.c_FormatNilMapAsNull + jsonflags.c_FormatNilSliceAsNull +
      jsonflags.c_OmitZeroStructFields + jsonflags.c_Marshalers + jsonflags.c_OmitEmptyWithLegacySemantics ∧
    unmarshalOnly = jsonflags.c_RejectUnknownMembers + jsonflags.c_Unmarshalers + jsonflags.c_MergeWithLegacySemantics +
      jsonflags.c_ParseBytesWithLooseRFC4648 + jsonflags.c_ParseTimeWithLooseRFC3339 + jsonflags.c_UnmarshalAnyWithRawNumber +
      jsonflags.c_UnmarshalArrayFromAnyLength ∧
    encodeOnly = jsonflags.c_OmitTopLevelNewline + jsonflags.c_PreserveRawStrings + jsonflags.c_CanonicalizeRawInts +
      jsonflags.c_CanonicalizeRawFloats + jsonflags.c_ReorderRawObjects + jsonflags.c_EscapeForHTML + jsonflags.c_EscapeForJS +
      jsonflags.c_Multiline + jsonflags.c_SpaceAfterColon + jsonflags.c_SpaceAfterComma + jsonflags.c_Indent +
      jsonflags.c_IndentPrefix := by decide

/-! ### read sets of the four paths (function groups) -/

def encodePath : Nat := reads_jsontext_encode ||| reads_jsontext_shared ||| reads_jsonwire_encode ||| reads_jsonwire_shared
def decodePath : Nat := reads_jsontext_decode ||| reads_jsontext_shared ||| reads_jsonwire_decode ||| reads_jsonwire_shared
def marshalPath : Nat := reads_json_marshal ||| reads_json_shared ||| encodePath
def unmarshalPath : Nat := reads_json_unmarshal ||| reads_json_shared ||| decodePath

/-- No marshal-side function group (package json functions taking an Encoder, shared helpers, the encoder half of
jsontext, the encode half of jsonwire) mentions an unmarshal-only flag or reads the Unmarshalers slot. -/
theorem unmarshal_only_not_read_on_marshal_path : unmarshalOnly &&& marshalPath = 0 := by decide

/-- … and conversely. -/
theorem marshal_only_not_read_on_unmarshal_path : marshalOnly &&& unmarshalPath = 0 := by decide

/-- No decode-side or unmarshal-side group mentions an encode-only flag or reads Indent/IndentPrefix. -/
theorem encode_only_not_read_on_unmarshal_path : encodeOnly &&& unmarshalPath = 0 := by decide

/-- jsonwire mentions coder flags only; of the marshal/unmarshal flags jsontext mentions exactly
ReportErrorsWithLegacySemantics (error wrapping), jsonwire none. -/
theorem text_layer_reads :
    (reads_jsonwire_encode ||| reads_jsonwire_decode ||| reads_jsonwire_shared) &&& (jsonflags.c_AllArshalV2Flags ||| jsonflags.c_AllArshalV1Flags) = 0 ∧
    (reads_jsontext_encode ||| reads_jsontext_decode ||| reads_jsontext_shared) &&& (jsonflags.c_AllArshalV2Flags ||| jsonflags.c_AllArshalV1Flags)
      = jsonflags.c_ReportErrorsWithLegacySemantics := by decide

/-- What the (un)marshal and coder code WRITES into a flags word: the tag flags, WithinArshalCall, and (on pooled coders
of their own) OmitTopLevelNewline / AllowDuplicateNames / AllowInvalidUTF8 — never a public arshal option. -/
theorem flags_written :
    writes_json_marshal ||| writes_json_unmarshal ||| writes_json_shared ||| writes_jsontext_encode ||| writes_jsontext_decode |||
      writes_jsontext_shared ||| writes_jsonwire_encode ||| writes_jsonwire_decode ||| writes_jsonwire_shared =
    jsonflags.c_TagFlags + jsonflags.c_WithinArshalCall + jsonflags.c_OmitTopLevelNewline + jsonflags.c_AllowDuplicateNames +
      jsonflags.c_AllowInvalidUTF8 := by decide

/-! ### the models read no more than their group -/

theorem model_masks_within_reads :
    encoderMask.toNat &&& encodePath = encoderMask.toNat ∧ decoderMask.toNat &&& decodePath = decoderMask.toNat ∧
    quoteMask.toNat &&& reads_jsonwire_encode = quoteMask.toNat ∧ formatMask.toNat &&& encodePath = formatMask.toNat ∧
    marshalMask.toNat &&& reads_json_marshal = marshalMask.toNat ∧ unmarshalMask.toNat &&& reads_json_unmarshal = unmarshalMask.toNat ∧
    matchingMask.toNat &&& reads_json_shared = matchingMask.toNat := by decide

/-! ### model-level consequence: flags outside a model's read set do not change its result -/

/-- Agreement on the read set gives the same option record, hence the same result of ANY function of the model. -/
theorem noninterf_encoder {α β : Type} (run : Encoder.Opts → α → β) (s s' : Struct) (h : AgreeOn encoderMask s s') (x : α) :
    run (encoder s) x = run (encoder s') x := by rw [encoder_agree h]
theorem noninterf_decoder {α β : Type} (run : Validate.VOpts → α → β) (s s' : Struct) (h : AgreeOn decoderMask s s') (x : α) :
    run (decoder s) x = run (decoder s') x := by rw [decoder_agree h]
theorem noninterf_quote {α β : Type} (run : Quote.QFlags → α → β) (s s' : Struct) (h : AgreeOn quoteMask s s') (x : α) :
    run (quote s) x = run (quote s') x := by rw [quote_agree h]
theorem noninterf_format {α β : Type} (run : Fmt.FOpts → α → β) (s s' : Struct) (h : AgreeOn formatMask s s') (x : α) :
    run (format s) x = run (format s') x := by rw [format_agree h]
theorem noninterf_marshal {α β : Type} (run : MOpts → α → β) (s s' : Struct) (h : AgreeOn marshalMask s s') (x : α) :
    run (OptProj.marshal s) x = run (OptProj.marshal s') x := by rw [marshal_agree h]
theorem noninterf_unmarshal {α β : Type} (run : UOpts → α → β) (s s' : Struct) (h : AgreeOn unmarshalMask s s') (x : α) :
    run (OptProj.unmarshal s) x = run (OptProj.unmarshal s') x := by rw [unmarshal_agree h]
theorem noninterf_matching {α β : Type} (run : Fold.MatchFlags → α → β) (s s' : Struct) (h : AgreeOn matchingMask s s') (x : α) :
    run (matching s) x = run (matching s') x := by rw [matching_agree h]

/-- Setting (to true or false) any unmarshal-only option leaves the marshal-side models' options unchanged:
Marshal (nil slices/maps), the Encoder, string quoting, Value.Format. -/
theorem unmarshal_only_irrelevant_to_marshal_models (s : Struct) (w : BitVec 64)
    (hw : w &&& ~~~(bv unmarshalOnly ||| 1#64) = 0#64) :
    let s' : Struct := { s with flags := s.flags.set w }
    OptProj.marshal s' = OptProj.marshal s ∧ encoder s' = encoder s ∧ quote s' = quote s ∧ format s' = format s := by
  intro s'
  exact ⟨(marshal_agree (agree_set _ w s (disj_of_subset w _ _ hw (by decide)))).symm,
    (encoder_agree (agree_set _ w s (disj_of_subset w _ _ hw (by decide)))).symm,
    (quote_agree (agree_set _ w s (disj_of_subset w _ _ hw (by decide)))).symm,
    (format_agree (agree_set _ w s (disj_of_subset w _ _ hw (by decide)))).symm⟩

/-- Setting any marshal-only or encode-only option leaves the unmarshal-side models' options unchanged:
Unmarshal (array length, duplicate names), the Decoder/validator, field-name matching. -/
theorem marshal_only_irrelevant_to_unmarshal_models (s : Struct) (w : BitVec 64)
    (hw : w &&& ~~~(bv (marshalOnly ||| encodeOnly) ||| 1#64) = 0#64) :
    let s' : Struct := { s with flags := s.flags.set w }
    OptProj.unmarshal s' = OptProj.unmarshal s ∧ decoder s' = decoder s ∧ matching s' = matching s := by
  intro s'
  exact ⟨(unmarshal_agree (agree_set _ w s (disj_of_subset w _ _ hw (by decide)))).symm,
    (decoder_agree (agree_set _ w s (disj_of_subset w _ _ hw (by decide)))).symm,
    (matching_agree (agree_set _ w s (disj_of_subset w _ _ hw (by decide)))).symm⟩

-- the hypotheses are satisfiable by real options: RejectUnknownMembers(true), Deterministic(false)
example : bv (jsonflags.c_RejectUnknownMembers + 1) &&& ~~~(bv unmarshalOnly ||| 1#64) = 0#64 := by decide
example : bv jsonflags.c_Deterministic &&& ~~~(bv (marshalOnly ||| encodeOnly) ||| 1#64) = 0#64 := by decide
example : AgreeOn marshalMask {} { flags := (Flags.empty.set (bv (jsonflags.c_RejectUnknownMembers + 1))) } :=
  agree_set _ _ {} (by decide)

end JsonV.Props.C19Reads
