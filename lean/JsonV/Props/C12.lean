/-
C12 — Reformatting a value never changes what it means.

Property theorems about the token-level model of `Value.Compact` / `Value.Indent` / `Value.Format` with the
raw-preserving options (`JsonV.Fmt.format`, Model/Format.lean), for ALL byte strings, ALL token lists and
ALL layouts made of blanks.  The model is tied to the running code by the correspondence check of
harness/c12.go (oracle family `fmt`); string respelling, number canonicalisation and member reordering are
validated on the implementation by the harness predicates (reordering is proved in slice C13).
-/
import JsonV.Lemmas.FormatCompact
import JsonV.Lemmas.FormatDepth

namespace JsonV.Props.C12
open JsonV JsonV.Fmt

/-- Tie A: the model's nesting limit is the regenerated `maxNestingDepth`. -/
theorem maxDepth_tie : maxDepth = 10000 := rfl

/-! ### rendering loses nothing (the meaning-preservation core) -/

/-- For every well-nested token list and every layout made of blanks (any indent prefix, indent string,
Multiline / SpaceAfterColon / SpaceAfterComma), the tokenizer reads the rendered text back as exactly the
same tokens: rendering adds delimiters and whitespace and nothing else. -/
theorem tokenize_render (o : WsOpts) (ho : o.Blank) (ts : List Tok) (h : WellNested ts) :
    tokenize (render o ts) = some ts :=
  tokenize_render' o ho ts h

theorem tokenize_renderCompact (ts : List Tok) (h : WellNested ts) : tokenize (renderCompact ts) = some ts :=
  tokenize_render' compactOpts ⟨rfl, rfl⟩ ts h

theorem tokenize_renderIndent (pre ind : Bytes) (hp : allWs pre = true) (hi : allWs ind = true)
    (spColon spComma multi : Bool) (ts : List Tok) (h : WellNested ts) :
    tokenize (renderIndent pre ind spColon spComma multi ts) = some ts :=
  tokenize_render' _ ⟨hp, hi⟩ ts h

/-- hypotheses are satisfiable: `{"a":[1,null]}` -/
example : WellNested [.bo, .str [0x22, 0x61, 0x22], .ba, .num [0x31], .null, .ea, .eo] := by decide
example : (⟨[0x20], [0x09], true, true, false⟩ : WsOpts).Blank := ⟨by decide, by decide⟩
example : render ⟨[], [0x09], true, true, false⟩ [.bo, .str [0x22, 0x61, 0x22], .ba, .num [0x31], .null, .ea, .eo]
    = [0x7b, 0x0a, 0x09, 0x22, 0x61, 0x22, 0x3a, 0x20, 0x5b, 0x0a, 0x09, 0x09, 0x31, 0x2c, 0x0a, 0x09, 0x09,
       0x6e, 0x75, 0x6c, 0x6c, 0x0a, 0x09, 0x5d, 0x0a, 0x7d] := by decide

/-- Whatever the tokenizer accepts is one well-nested JSON value made of valid literals. -/
theorem tokenize_wellNested (b : Bytes) (ts : List Tok) (h : tokenize b = some ts) : WellNested ts :=
  tokenize_sound' b ts h

example : tokenize [0x20, 0x5b, 0x31, 0x20, 0x2c, 0x0a, 0x22, 0x5c, 0x6e, 0x22, 0x5d] =
    some [.ba, .num [0x31], .str [0x22, 0x5c, 0x6e, 0x22], .ea] := by decide

/-- The lexer never runs out of fuel: any fuel above the length of the text gives the same answer. -/
theorem lex_fuel (n : Nat) (b : Bytes) (h : b.length < n) : lexF n b = lex b :=
  lexF_fuel n (b.length + 1) b h (Nat.lt_succ_self _)

/-! ### ok ⇔ valid (partial), output valid, meaning, fixed point -/

/-- Formatting succeeds exactly when the tokenizer (lexical grammar + token grammar + depth limit) accepts. -/
theorem format_ok_iff_partial (o : WsOpts) (b : Bytes) : (format o b).isSome = (tokenize b).isSome := by
  unfold format; cases tokenize b <;> rfl

/-- and then the input is a well-nested value and the output is its rendering -/
theorem format_eq_some (o : WsOpts) (b b' : Bytes) :
    format o b = some b' ↔ ∃ ts, tokenize b = some ts ∧ WellNested ts ∧ b' = render o ts := by
  unfold format
  constructor
  · intro h
    cases ht : tokenize b with
    | none => simp [ht] at h
    | some ts =>
      simp only [ht, Option.some.injEq] at h
      exact ⟨ts, rfl, tokenize_sound' b ts ht, h.symm⟩
  · rintro ⟨ts, ht, _, rfl⟩
    simp [ht]

/-- The full statement against the declarative grammar: the accepted texts are exactly the blank layouts of
well-nested token lists.  Only validated (harness: ok ⇔ IsValid ⇔ independent validator); the grammar side
belongs to C01. -/
def format_ok_iff_full : Prop :=
  ∀ (o : WsOpts) (b : Bytes), (format o b).isSome = true ↔
    ∃ (ts : List Tok) (wls : List (Bytes × Lex)) (tr : Bytes), WellNested ts ∧
      wls.map Prod.snd = punct [.top0] ts ∧ (∀ p ∈ wls, allWs p.1 = true) ∧ allWs tr = true ∧
      (∀ i, ∀ raw, (wls[i]?).map Prod.snd = some (.tok (.num raw)) →
        ((wls[i+1]?).map (fun p => p.1 ≠ [] ∨ p.2.bytes.head?.all (fun c => !isNumChar c)) |>.getD True)) ∧
      b = flatWs wls ++ tr

/-- **Meaning preserved**: the output has exactly the tokens of the input — same structure, string and
number literals byte-identical (raw-preserving options), member order unchanged; only whitespace differs. -/
theorem format_meaning (o : WsOpts) (ho : o.Blank) (b b' : Bytes) (h : format o b = some b') :
    tokenize b' = tokenize b := by
  obtain ⟨ts, ht, hw, rfl⟩ := (format_eq_some o b _).mp h
  rw [ht]; exact tokenize_render' o ho ts hw

/-- **Output valid**: the result is accepted again (under any layout options). -/
theorem format_valid (o o' : WsOpts) (ho : o.Blank) (b b' : Bytes) (h : format o b = some b') :
    (format o' b').isSome = true := by
  rw [format_ok_iff_partial, format_meaning o ho b b' h, ← format_ok_iff_partial o, h]; rfl

/-- **Fixed point**: formatting the output again with the same options returns it unchanged. -/
theorem format_idem (o : WsOpts) (ho : o.Blank) (b b' : Bytes) (h : format o b = some b') :
    format o b' = some b' := by
  have hm := format_meaning o ho b b' h
  unfold format at h ⊢
  rw [hm]; exact h

theorem compact_idem (b b' : Bytes) (h : compact b = some b') : compact b' = some b' :=
  format_idem compactOpts ⟨rfl, rfl⟩ b b' h

/-- Re-formatting the output under other options is the same as formatting the input under those options
(Compact after Indent = Compact, Indent after Compact = Indent …). -/
theorem format_format (o o' : WsOpts) (ho : o.Blank) (b b' : Bytes) (h : format o b = some b') :
    format o' b' = format o' b := by
  have hm := format_meaning o ho b b' h
  unfold format; rw [hm]

/-- hypotheses are satisfiable: `[1 ,2]` compacts to `[1,2]` -/
example : compact [0x5b, 0x31, 0x20, 0x2c, 0x32, 0x5d] = some [0x5b, 0x31, 0x2c, 0x32, 0x5d] := by decide

/-- **Already formatted is a fixed point**: a text that is the rendering of a well-nested list formats to itself. -/
theorem format_fixed_when_formatted (o : WsOpts) (ho : o.Blank) (ts : List Tok) (h : WellNested ts) :
    format o (render o ts) = some (render o ts) := by
  unfold format; rw [tokenize_render' o ho ts h]

theorem compact_fixed_when_compact (b : Bytes) (ts : List Tok) (h : WellNested ts) (hb : b = renderCompact ts) :
    compact b = some b := by
  subst hb; exact format_fixed_when_formatted compactOpts ⟨rfl, rfl⟩ ts h

/-! ### the nesting limit applies to every container, empty or not -/

/-- At every opening bracket of a well-nested list fewer than `maxDepth` containers are open — regardless of
what the bracket encloses. -/
theorem depth_le_max (pre rest : List Tok) (t : Tok) (ht : t.isOpen = true) (h : WellNested (pre ++ t :: rest)) :
    opens pre < maxDepth + closes pre := by
  have := accepts_depth pre [.top0] t rest ht h.2
  simp only [List.length_cons, List.length_nil] at this
  omega

/-- **An empty container at depth max+1 is rejected**: if exactly `maxDepth` containers are open after `pre`,
then neither `pre { } post` nor `pre [ ] post` is well nested, so no text is tokenized to it and formatting
any text with these tokens fails (`format_eq_some`).  (reformatObject/reformatArray test the depth before the
empty-container fast path; tied by `fmt compact` on the depth-boundary texts.) -/
theorem empty_at_limit_rejected (pre post : List Tok) (h : opens pre = closes pre + maxDepth) :
    ¬ WellNested (pre ++ .bo :: .eo :: post) ∧ ¬ WellNested (pre ++ .ba :: .ea :: post) ∧
    ∀ b, tokenize b ≠ some (pre ++ .bo :: .eo :: post) ∧ tokenize b ≠ some (pre ++ .ba :: .ea :: post) := by
  have h1 : ¬ WellNested (pre ++ .bo :: .eo :: post) := fun hw => by
    have := depth_le_max pre (.eo :: post) .bo rfl hw; omega
  have h2 : ¬ WellNested (pre ++ .ba :: .ea :: post) := fun hw => by
    have := depth_le_max pre (.ea :: post) .ba rfl hw; omega
  exact ⟨h1, h2, fun b => ⟨fun ht => h1 (tokenize_sound' b _ ht), fun ht => h2 (tokenize_sound' b _ ht)⟩⟩

/-- the hypothesis is satisfiable: `maxDepth` opening brackets -/
example : opens (List.replicate maxDepth Tok.ba) = closes (List.replicate maxDepth Tok.ba) + maxDepth := by
  simp [opens, closes, List.countP_replicate, Tok.isOpen, Tok.isClose]

/-- and one level less is accepted: `[[{}]]` with a limit of … (the grammar itself, small instance) -/
example : WellNested [.ba, .ba, .bo, .eo, .ea, .ea] := by decide

/-! ### the compact form contains no whitespace outside strings -/

/-- The compact output is the bare concatenation of tokens and delimiters, and no lexeme other than a
string literal contains a whitespace byte. -/
theorem compact_no_ws (ts : List Tok) (hv : ∀ t ∈ ts, t.valid = true) :
    renderCompact ts = ((punct [.top0] ts).map Lex.bytes).flatten ∧
    ∀ l ∈ punct [.top0] ts, (∀ raw, l ≠ .tok (.str raw)) → ∀ c ∈ l.bytes, isWs c = false :=
  ⟨flatWs_compact ts _, fun l hl hs => lexeme_no_ws l (punct_valid ts _ hv l hl) hs⟩

/-! ### commit rule: untouched on error, no write when already formatted -/

/-- On error the Value is left unmodified and nothing is written. -/
theorem valueFormat_err_unchanged (o : WsOpts) (v : Bytes) (h : (valueFormat o v).err = true) :
    (valueFormat o v).val = v ∧ (valueFormat o v).wrote = false ∧ format o v = none := by
  unfold valueFormat at h ⊢
  cases hf : format o v with
  | none => simp
  | some out => simp only [hf] at h; split at h <;> simp at h

/-- On error AppendFormat returns dst with all of src appended. -/
theorem appendFormat_err (o : WsOpts) (dst src : Bytes) (h : (appendFormat o dst src).2 = true) :
    (appendFormat o dst src).1 = dst ++ src := by
  unfold appendFormat at h ⊢
  cases hf : format o src with
  | none => rfl
  | some out => simp [hf] at h

example : (appendFormat compactOpts [0x41] [0x5b, 0x2c, 0x5d]) = ([0x41, 0x5b, 0x2c, 0x5d], true) := by decide

/-- An already formatted value is not rewritten. -/
theorem already_formatted_not_rewritten (o : WsOpts) (ho : o.Blank) (ts : List Tok) (h : WellNested ts) :
    valueFormat o (render o ts) = ⟨render o ts, false, false⟩ := by
  unfold valueFormat
  rw [format_fixed_when_formatted o ho ts h]; simp

/-- After one successful Format the same call is a no-op that does not write to the buffer. -/
theorem valueFormat_twice (o : WsOpts) (ho : o.Blank) (v : Bytes) (h : (valueFormat o v).err = false) :
    valueFormat o (valueFormat o v).val = ⟨(valueFormat o v).val, false, false⟩ := by
  cases hf : format o v with
  | none => simp [valueFormat, hf] at h
  | some out =>
    have hid := format_idem o ho v out hf
    by_cases hv : v = out
    · subst hv
      simp [valueFormat, hf]
    · have : (valueFormat o v).val = out := by simp [valueFormat, hf, hv]
      rw [this]
      simp [valueFormat, hid]

example : valueFormat compactOpts [0x5b, 0x20, 0x5d] = ⟨[0x5b, 0x5d], false, true⟩ := by decide
example : valueFormat compactOpts [0x5b, 0x5d] = ⟨[0x5b, 0x5d], false, false⟩ := by decide
example : valueFormat compactOpts [0x5b, 0x5d, 0x5d] = ⟨[0x5b, 0x5d, 0x5d], true, false⟩ := by decide

end JsonV.Props.C12
