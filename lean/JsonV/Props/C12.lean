/-
C12 — Reformatting a value never changes what it means.

Property theorems about the token-level model of `Value.Compact` / `Value.Indent` / `Value.Format` with the
raw-preserving options (`JsonV.Fmt.format`, Model/Format.lean), for ALL byte strings, ALL token lists and
ALL layouts made of blanks.  The model is tied to the running code by the correspondence check of
harness/c12.go (oracle family `fmt`); string respelling, number canonicalisation and member reordering are
validated on the implementation by the harness predicates (reordering is proved in slice C13).
-/
import JsonV.Lemmas.FormatCompact
import JsonV.Lemmas.FormatDepth
import JsonV.Lemmas.GlueFormatNum
import JsonV.Lemmas.GlueFormatStr
import JsonV.Lemmas.GlueFormatLayout
import JsonV.Lemmas.FormatStrictL
import JsonV.Lemmas.GlueTreeConverse
import JsonV.Lemmas.GlueStrict
import JsonV.Lemmas.FormatRespell
import JsonV.Lemmas.GlueNameKey
import JsonV.Props.C01
import JsonV.Gen.Lits

namespace JsonV.Props.C12
open JsonV JsonV.Fmt

/-- Tie A: the model's nesting limit is the regenerated `maxNestingDepth`. -/
theorem maxDepth_tie : maxDepth = 10000 := rfl

/-! ### rendering loses nothing (the meaning-preservation core) -/

/-- For every well-nested token list and every layout made of blanks (any indent prefix, indent string,
Multiline / SpaceAfterColon / SpaceAfterComma), the tokenizer reads the rendered text back as exactly the
same tokens: rendering adds delimiters and whitespace and nothing else. -/
theorem tokenize_render (o : WsOpts) (ho : o.Blank) (ts : List Tok) (h : WellNested ts) :
    tokenize (render o ts) = some ts :=
  tokenize_render' o ho ts h

theorem tokenize_renderCompact (ts : List Tok) (h : WellNested ts) : tokenize (renderCompact ts) = some ts :=
  tokenize_render' compactOpts ⟨rfl, rfl⟩ ts h

theorem tokenize_renderIndent (pre ind : Bytes) (hp : allWs pre = true) (hi : allWs ind = true)
    (spColon spComma multi : Bool) (ts : List Tok) (h : WellNested ts) :
    tokenize (renderIndent pre ind spColon spComma multi ts) = some ts :=
  tokenize_render' _ ⟨hp, hi⟩ ts h

/-- hypotheses are satisfiable: `{"a":[1,null]}` -/
example : WellNested [.bo, .str [0x22, 0x61, 0x22], .ba, .num [0x31], .null, .ea, .eo] := by decide
example : (⟨[0x20], [0x09], true, true, false⟩ : WsOpts).Blank := ⟨by decide, by decide⟩
example : render ⟨[], [0x09], true, true, false⟩ [.bo, .str [0x22, 0x61, 0x22], .ba, .num [0x31], .null, .ea, .eo]
    = [0x7b, 0x0a, 0x09, 0x22, 0x61, 0x22, 0x3a, 0x20, 0x5b, 0x0a, 0x09, 0x09, 0x31, 0x2c, 0x0a, 0x09, 0x09,
       0x6e, 0x75, 0x6c, 0x6c, 0x0a, 0x09, 0x5d, 0x0a, 0x7d] := by decide

/-- Whatever the tokenizer accepts is one well-nested JSON value made of valid literals. -/
theorem tokenize_wellNested (b : Bytes) (ts : List Tok) (h : tokenize b = some ts) : WellNested ts :=
  tokenize_sound' b ts h

example : tokenize [0x20, 0x5b, 0x31, 0x20, 0x2c, 0x0a, 0x22, 0x5c, 0x6e, 0x22, 0x5d] =
    some [.ba, .num [0x31], .str [0x22, 0x5c, 0x6e, 0x22], .ea] := by decide

/-- The lexer never runs out of fuel: any fuel above the length of the text gives the same answer. -/
theorem lex_fuel (n : Nat) (b : Bytes) (h : b.length < n) : lexF n b = lex b :=
  lexF_fuel n (b.length + 1) b h (Nat.lt_succ_self _)

/-! ### ok ⇔ valid (partial), output valid, meaning, fixed point -/

/-- Formatting succeeds exactly when the tokenizer (lexical grammar + token grammar + depth limit) accepts. -/
theorem format_ok_iff_partial (o : WsOpts) (b : Bytes) : (format o b).isSome = (tokenize b).isSome := by
  unfold format; cases tokenize b <;> rfl

/-- and then the input is a well-nested value and the output is its rendering -/
theorem format_eq_some (o : WsOpts) (b b' : Bytes) :
    format o b = some b' ↔ ∃ ts, tokenize b = some ts ∧ WellNested ts ∧ b' = render o ts := by
  unfold format
  constructor
  · intro h
    cases ht : tokenize b with
    | none => simp [ht] at h
    | some ts =>
      simp only [ht, Option.some.injEq] at h
      exact ⟨ts, rfl, tokenize_sound' b ts ht, h.symm⟩
  · rintro ⟨ts, ht, _, rfl⟩
    simp [ht]

/-- **succeed iff valid**, declaratively: formatting succeeds exactly on the blank layouts of well-nested token
lists — the lexemes (tokens plus the delimiters the grammar requires) in order, each preceded by any
whitespace, whitespace at the end.  With `wellNested_literals` the literals are those of RFC 8259 (C01). -/
theorem format_ok_iff (o : WsOpts) (b : Bytes) :
    (format o b).isSome = true ↔ ∃ ts, WellNested ts ∧ Layout (punct [.top0] ts) b := by
  rw [format_ok_iff_partial]
  constructor
  · intro h
    cases ht : tokenize b with
    | none => simp [ht] at h
    | some ts => exact ⟨ts, (tokenize_iff_layout' b ts).mp ht⟩
  · rintro ⟨ts, h⟩
    rw [(tokenize_iff_layout' b ts).mpr h]; rfl

/-- **Meaning preserved**: the output has exactly the tokens of the input — same structure, string and
number literals byte-identical (raw-preserving options), member order unchanged; only whitespace differs. -/
theorem format_meaning (o : WsOpts) (ho : o.Blank) (b b' : Bytes) (h : format o b = some b') :
    tokenize b' = tokenize b := by
  obtain ⟨ts, ht, hw, rfl⟩ := (format_eq_some o b _).mp h
  rw [ht]; exact tokenize_render' o ho ts hw

/-- **Output valid**: the result is accepted again (under any layout options). -/
theorem format_valid (o o' : WsOpts) (ho : o.Blank) (b b' : Bytes) (h : format o b = some b') :
    (format o' b').isSome = true := by
  rw [format_ok_iff_partial, format_meaning o ho b b' h, ← format_ok_iff_partial o, h]; rfl

/-- **Fixed point**: formatting the output again with the same options returns it unchanged. -/
theorem format_idem (o : WsOpts) (ho : o.Blank) (b b' : Bytes) (h : format o b = some b') :
    format o b' = some b' := by
  have hm := format_meaning o ho b b' h
  unfold format at h ⊢
  rw [hm]; exact h

theorem compact_idem (b b' : Bytes) (h : compact b = some b') : compact b' = some b' :=
  format_idem compactOpts ⟨rfl, rfl⟩ b b' h

/-- Re-formatting the output under other options is the same as formatting the input under those options
(Compact after Indent = Compact, Indent after Compact = Indent …). -/
theorem format_format (o o' : WsOpts) (ho : o.Blank) (b b' : Bytes) (h : format o b = some b') :
    format o' b' = format o' b := by
  have hm := format_meaning o ho b b' h
  unfold format; rw [hm]

/-- hypotheses are satisfiable: `[1 ,2]` compacts to `[1,2]` -/
example : compact [0x5b, 0x31, 0x20, 0x2c, 0x32, 0x5d] = some [0x5b, 0x31, 0x2c, 0x32, 0x5d] := by decide

/-- **Already formatted is a fixed point**: a text that is the rendering of a well-nested list formats to itself. -/
theorem format_fixed_when_formatted (o : WsOpts) (ho : o.Blank) (ts : List Tok) (h : WellNested ts) :
    format o (render o ts) = some (render o ts) := by
  unfold format; rw [tokenize_render' o ho ts h]

theorem compact_fixed_when_compact (b : Bytes) (ts : List Tok) (h : WellNested ts) (hb : b = renderCompact ts) :
    compact b = some b := by
  subst hb; exact format_fixed_when_formatted compactOpts ⟨rfl, rfl⟩ ts h

/-! ### Glue with C01 (Spec/Grammar.lean) -/

/-- Tie A: the whitespace bytes of the model are the character literals of `jsonwire.ConsumeWhitespace`. -/
theorem tie_ws : ∀ c : UInt8, isWs c = true ↔ [c.toNat] ∈ JsonV.Gen.jsonwire_ConsumeWhitespace_strs := by
  apply forall_u8; decide +kernel

/-- `scanNum` accepts exactly the numbers of RFC 8259 §6 (`JNumber`). -/
theorem scanNum_iff (lit : Bytes) : scanNum .start lit = some (lit, []) ↔ Spec.Grammar.JNumber lit :=
  scanNum_iff' lit

/-- `scanStr` accepts exactly the strings of RFC 8259 §7 in the permissive UTF-8 mode (`JString false`). -/
theorem scanStr_iff (lit : Bytes) : (Tok.str lit).valid = true ↔ Spec.Grammar.JString false lit :=
  str_valid_iff lit

/-- the literals of a well-nested list are literals of the C01 grammar -/
theorem wellNested_literals (ts : List Tok) (h : WellNested ts) :
    (∀ raw, Tok.str raw ∈ ts → Spec.Grammar.JString false raw) ∧ (∀ raw, Tok.num raw ∈ ts → Spec.Grammar.JNumber raw) :=
  ⟨fun raw hm => (str_valid_iff raw).mp (h.1 _ hm),
   fun raw hm => (scanNum_iff' raw).mp (Tok.valid_num (h.1 _ hm))⟩

example : Spec.Grammar.JNumber [0x2d, 0x31, 0x2e, 0x35, 0x65, 0x33] := (scanNum_iff _).mp (by decide)
example : Spec.Grammar.JString false [0x22, 0x5c, 0x75, 0x64, 0x38, 0x30, 0x30, 0xff, 0x22] := (scanStr_iff _).mp (by decide)

/-- the tokenizer accepts exactly the blank layouts of well-nested lists (both directions, all texts) -/
theorem tokenize_iff_layout (b : Bytes) (ts : List Tok) :
    tokenize b = some ts ↔ WellNested ts ∧ Layout (punct [.top0] ts) b :=
  tokenize_iff_layout' b ts

/-- **The model's tokenizer accepts exactly the texts of the C01 grammar** (`JText`: RFC 8259 with permissive
strings, duplicate names allowed, nesting ≤ maxNestingDepth), for every name-key function.  ⇒: an accepted token
list is the token list of a tree (`accepts_is_tree`), whose blank layout is a `JValue` (`coreV`); ⇐: induction on
the derivation builds the tree and its layout (`build_value`). -/
theorem tokenize_iff_text (key : Bytes → Bytes) (b : Bytes) :
    (tokenize b).isSome = true ↔ Spec.Grammar.JText ⟨false, true⟩ maxDepth key b := by
  constructor
  · intro h
    cases ht : tokenize b with
    | none => simp [ht] at h
    | some ts => exact tokenize_text key b ts ht
  · intro h
    obtain ⟨ts, ht⟩ := text_tokenize key b h
    simp [ht]

/-- **succeed iff valid, against the C01 grammar**: Compact/Indent (any whitespace options) succeed exactly on
the texts of `JText` in the permissive mode. -/
theorem format_ok_iff_text (key : Bytes → Bytes) (o : WsOpts) (b : Bytes) :
    (format o b).isSome = true ↔ Spec.Grammar.JText ⟨false, true⟩ maxDepth key b := by
  rw [format_ok_iff_partial]; exact tokenize_iff_text key b

/-- and the strict model accepts only texts of the grammar (the strictness of strings is `strict_strings`, the
uniqueness of names is `tokensOK`; their placement inside `JText (strict, no duplicates)` is not proved) -/
theorem formatV_ok_text (key : Bytes → Bytes) (o : FOpts) (b : Bytes) (h : (formatV o b).isSome = true) :
    Spec.Grammar.JText ⟨false, true⟩ maxDepth key b := by
  unfold formatV at h
  cases ht : tokenizeV o b with
  | none => simp [ht] at h
  | some ts => exact tokenize_text key b ts ((tokenizeV_eq_some o b ts).mp ht).1

/-- Tie A: the literals the renderer emits are the literals of AppendIndent / appendWhitespace / reformatValue /
reformatObject / reformatArray (regenerated from encode.go). -/
theorem tie_render_literals :
    JsonV.Gen.jsontext_encoderState_AppendIndent_strs = [[10]] ∧ JsonV.Gen.jsontext_encoderState_AppendIndent_ints = [0, 1] ∧
    (nl ⟨[], [], true, false, false⟩ 0).map UInt8.toNat ∈ JsonV.Gen.jsontext_encoderState_AppendIndent_strs ∧
    JsonV.Gen.jsontext_encoderState_appendWhitespace_strs = [Delim.colon.bytes.map UInt8.toNat, (sp true).map UInt8.toNat,
      Delim.comma.bytes.map UInt8.toNat, (sp true).map UInt8.toNat] ∧
    (∀ t ∈ [Tok.null, Tok.tru, Tok.fls], t.bytes.map UInt8.toNat ∈ JsonV.Gen.jsontext_encoderState_reformatValue_strs) ∧
    (∀ l ∈ [Lex.tok .bo, .tok .eo, .delim .colon, .delim .comma], l.bytes.map UInt8.toNat ∈ JsonV.Gen.jsontext_encoderState_reformatObject_strs) ∧
    (sp true).map UInt8.toNat ∈ JsonV.Gen.jsontext_encoderState_reformatObject_strs ∧
    (∀ l ∈ [Lex.tok .ba, .tok .ea, .delim .comma], l.bytes.map UInt8.toNat ∈ JsonV.Gen.jsontext_encoderState_reformatArray_strs) ∧
    (sp true).map UInt8.toNat ∈ JsonV.Gen.jsontext_encoderState_reformatArray_strs := by
  decide +kernel

/-! ### Strict model: Value.Format with the validation options (and PreserveRawStrings) -/

/-- Under AllowInvalidUTF8(false) every string of an accepted text is a string of the strict grammar of C01
(well-formed UTF-8, surrogate escapes paired). -/
theorem strict_strings (o : FOpts) (hu : o.allowInvalidUTF8 = false) (ts : List Tok) (hk : tokensOK o ts = true) :
    ∀ raw, Tok.str raw ∈ ts → Spec.Grammar.JString true raw := by
  intro raw hm
  simp only [tokensOK, Bool.and_eq_true, List.all_eq_true] at hk
  have := hk.1 _ hm
  simp only [strOKV, hu, Bool.false_or] at this
  exact (strictStr_iff raw).mp this

/-- **succeed iff valid** for the strict model: Format succeeds exactly when IsValid (same validation options)
holds, i.e. on the blank layouts of well-nested lists that pass the two validation predicates. -/
theorem formatV_ok_iff (o : FOpts) (b : Bytes) :
    ((formatV o b).isSome = isValidV o b) ∧
    ((formatV o b).isSome = true ↔ ∃ ts, WellNested ts ∧ tokensOK o ts = true ∧ Layout (punct [.top0] ts) b) := by
  constructor
  · unfold formatV isValidV; cases tokenizeV o b <;> rfl
  · unfold formatV
    constructor
    · intro h
      cases ht : tokenizeV o b with
      | none => simp [ht] at h
      | some ts =>
        obtain ⟨h1, h2⟩ := (tokenizeV_eq_some o b ts).mp ht
        obtain ⟨h3, h4⟩ := (tokenize_iff_layout' b ts).mp h1
        exact ⟨ts, h3, h2, h4⟩
    · rintro ⟨ts, h3, h2, h4⟩
      rw [(tokenizeV_eq_some o b ts).mpr ⟨(tokenize_iff_layout' b ts).mpr ⟨h3, h4⟩, h2⟩]; rfl

/-- **succeed iff valid for the strict model, against the C01 grammar**: `Value.Format` with the modelled options
succeeds exactly on the texts of `JText` with the selected string mode (strict UTF-8 unless AllowInvalidUTF8),
duplicate policy (names unique unless AllowDuplicateNames, compared by C01's `nameKey`) and nesting ≤ maxNestingDepth. -/
theorem formatV_ok_iff_text (o : FOpts) (b : Bytes) :
    (formatV o b).isSome = true ↔
      Spec.Grammar.JText ⟨!o.allowInvalidUTF8, o.allowDup⟩ maxDepth (nameKey o) b := by
  rw [(formatV_ok_iff o b).1]
  unfold isValidV
  constructor
  · intro h
    cases ht : tokenizeV o b with
    | none => simp [ht] at h
    | some ts => exact tokenizeV_text o b ts ht
  · intro h
    obtain ⟨ts, ht⟩ := text_tokenizeV o b h
    simp [ht]

/-- the token-level validity of this slice is C01's model of `Value.IsValid`, for all four option combinations -/
theorem isValidV_eq_isValid (o : FOpts) (b : Bytes) :
    isValidV o b = Model.Validate.isValid ⟨o.allowInvalidUTF8, o.allowDup⟩ b := by
  have h1 := formatV_ok_iff_text o b
  rw [(formatV_ok_iff o b).1] at h1
  have h2 := JsonV.Props.C01.valid_iff ⟨o.allowInvalidUTF8, o.allowDup⟩ b
  have h3 : isValidV o b = true ↔ Model.Validate.isValid ⟨o.allowInvalidUTF8, o.allowDup⟩ b = true := h1.trans h2.symm
  cases hv : isValidV o b <;> cases hw : Model.Validate.isValid ⟨o.allowInvalidUTF8, o.allowDup⟩ b <;> simp_all

/-- validity does not depend on the formatting options -/
theorem isValidV_congr (o o' : FOpts) (h1 : o.allowInvalidUTF8 = o'.allowInvalidUTF8) (h2 : o.allowDup = o'.allowDup)
    (b : Bytes) : isValidV o b = isValidV o' b := by
  have hk : ∀ ts, tokensOK o ts = tokensOK o' ts := by
    intro ts
    have hs : strOKV o = strOKV o' := by funext t; cases t <;> simp [strOKV, h1]
    have hkey : nameKey o = nameKey o' := by funext raw; simp [nameKey, h1, h2]
    simp [tokensOK, hs, h2, hkey]
  unfold isValidV tokenizeV
  cases tokenize b <;> simp [hk]

/-- **Meaning preserved, strict model, PreserveRawStrings without an escape option**: the output has exactly the
tokens of the input and passes the same validation. -/
theorem formatV_meaning (o : FOpts) (hv : o.verbatim) (hw : o.ws.Blank) (b b' : Bytes) (h : formatV o b = some b') :
    tokenizeV o b' = tokenizeV o b := by
  unfold formatV at h
  cases ht : tokenizeV o b with
  | none => simp [ht] at h
  | some ts =>
    simp only [ht, Option.some.injEq, respell_verbatim o hv] at h
    obtain ⟨h1, h2⟩ := (tokenizeV_eq_some o b ts).mp ht
    rw [← h]
    exact tokenizeV_render' o o.ws hw ts (tokenize_sound' b ts h1) h2

/-- **Fixed point, strict model.** -/
theorem formatV_idem (o : FOpts) (hv : o.verbatim) (hw : o.ws.Blank) (b b' : Bytes) (h : formatV o b = some b') :
    formatV o b' = some b' := by
  have hm := formatV_meaning o hv hw b b' h
  unfold formatV at h ⊢
  rw [hm]; exact h

/-- **Output valid, strict model** (under the same validation options). -/
theorem formatV_valid (o : FOpts) (hv : o.verbatim) (hw : o.ws.Blank) (b b' : Bytes) (h : formatV o b = some b') :
    isValidV o b' = true := by
  unfold isValidV
  rw [formatV_meaning o hv hw b b' h]
  unfold formatV at h
  cases ht : tokenizeV o b with
  | none => simp [ht] at h
  | some ts => rfl

/-- the strict model restricted to the permissive options is the model of Compact/Indent -/
theorem formatV_permissive (w : WsOpts) (b : Bytes) :
    formatV { allowInvalidUTF8 := true, allowDup := true, preserve := true, ws := w } b = format w b := by
  have hk : ∀ ts, tokensOK { allowInvalidUTF8 := true, allowDup := true, preserve := true, ws := w } ts = true := by
    intro ts
    simp only [tokensOK, Bool.true_or, Bool.and_true, List.all_eq_true]
    intro t _; cases t <;> simp [strOKV]
  unfold formatV tokenizeV format
  cases tokenize b with
  | none => rfl
  | some ts =>
    simp [hk, respell_verbatim { allowInvalidUTF8 := true, allowDup := true, preserve := true, ws := w } ⟨rfl, rfl, rfl⟩]

-- `{"a":1,"a":2}`: rejected by default, accepted with AllowDuplicateNames; `"\ud800"` needs AllowInvalidUTF8
example : formatV {} [0x7b, 0x22, 0x61, 0x22, 0x3a, 0x31, 0x2c, 0x22, 0x61, 0x22, 0x3a, 0x32, 0x7d] = none := by decide +kernel
example : (formatV { allowDup := true } [0x7b, 0x22, 0x61, 0x22, 0x3a, 0x31, 0x2c, 0x20, 0x22, 0x61, 0x22, 0x3a, 0x32, 0x7d]).isSome = true := by decide +kernel
example : isValidV {} [0x22, 0x5c, 0x75, 0x64, 0x38, 0x30, 0x30, 0x22] = false := by decide +kernel
example : isValidV { allowInvalidUTF8 := true } [0x22, 0x5c, 0x75, 0x64, 0x38, 0x30, 0x30, 0x22] = true := by decide +kernel
example : (⟨true, true, true, false, false, compactOpts⟩ : FOpts).verbatim := ⟨rfl, rfl, rfl⟩

/-- **Meaning preserved and fixed point when strings are respelled** (both validation options; every combination of
PreserveRawStrings / EscapeForHTML / EscapeForJS / AllowInvalidUTF8 except PreserveRawStrings together with an escape
option AND AllowInvalidUTF8 — in particular `Value.Format()` with the default options, with the escape options, and
`Value.Compact/Indent` with an escape option under strict UTF-8): the output is accepted under
the same validation options, its tokens are the input tokens with every string respelled (ReformatString, slice
C11: the RFC 8785 spelling of the same text), every string keeps its unquoted text, all other tokens are unchanged,
and formatting the output again returns it unchanged.  The hypothesis `NameKeyUnquote` (the name key of a literal is its
unquoted text) is discharged by `nameKey_unquote` below: `formatV_respell_all` is the unconditional form. -/
theorem formatV_respell (o : FOpts) (hR : o.respellable) (hw : o.ws.Blank) (hd : o.allowDup = true ∨ NameKeyUnquote)
    (b b' : Bytes) (h : formatV o b = some b') :
    ∃ ts, tokenizeV o b = some ts ∧ tokenizeV o b' = some (ts.map (respellTok o)) ∧
      (∀ k ∈ ts, match k with
        | Tok.str raw => respellTok o k = .str (respellStr o raw) ∧
            (Model.Wire.unquote (respellStr o raw)).1 = (Model.Wire.unquote raw).1
        | k => respellTok o k = k) ∧
      formatV o b' = some b' := by
  unfold formatV at h
  cases ht : tokenizeV o b with
  | none => simp [ht] at h
  | some ts =>
    simp only [ht, Option.some.injEq] at h
    obtain ⟨h1, h2, h3, h4⟩ := respell_tokens o hR hd b ts ht
    have hb' : tokenizeV o b' = some (ts.map (respellTok o)) := by
      rw [← h]; exact tokenizeV_render' o o.ws hw _ h1 h2
    refine ⟨ts, rfl, hb', ?_, ?_⟩
    · intro k hk
      cases k with
      | str raw => exact ⟨rfl, by rw [wire_unquote_unqS, wire_unquote_unqS]; exact h4 raw hk⟩
      | _ => rfl
    · unfold formatV
      simp only [hb', h3, h]

/-- the default options of `Value.Format` have no escape option -/
example : ({} : FOpts).respellable := Or.inl ⟨rfl, rfl⟩
example : ({ html := true, js := true } : FOpts).respellable := Or.inr (Or.inl rfl)
example : ({ preserve := true, html := true, js := true } : FOpts).respellable := Or.inr (Or.inr rfl)

/-- For EVERY string option set (also PreserveRawStrings with an escape option) under strict UTF-8: each string of an
accepted text keeps its unquoted text when respelled (slice C11's `reformat_meaning_strict`). -/
theorem respell_string_meaning_strict (o : FOpts) (hu : o.allowInvalidUTF8 = false) (b : Bytes) (ts : List Tok)
    (h : tokenizeV o b = some ts) (raw : Bytes) (hm : Tok.str raw ∈ ts) :
    (Model.Wire.unquote (respellStr o raw)).1 = (Model.Wire.unquote raw).1 := by
  have hj := strs_of_tokenizeV o b ts h raw hm
  rw [hu] at hj
  rw [wire_unquote_unqS, wire_unquote_unqS]
  exact respellStr_meaning_strict o hu raw (by simpa using hj)

/-- the name key of a literal of the selected mode is its unquoted text (slice quote/wire, Lemmas/GlueNameKey.lean) -/
theorem nameKey_unquote : NameKeyUnquote := JsonV.Lemmas.GlueNameKey.fmt_nameKey_unquote

/-- `formatV_respell` without any hypothesis on the names: both duplicate policies. -/
theorem formatV_respell_all (o : FOpts) (hR : o.respellable) (hw : o.ws.Blank) (b b' : Bytes)
    (h : formatV o b = some b') :
    ∃ ts, tokenizeV o b = some ts ∧ tokenizeV o b' = some (ts.map (respellTok o)) ∧
      (∀ k ∈ ts, match k with
        | Tok.str raw => respellTok o k = .str (respellStr o raw) ∧
            (Model.Wire.unquote (respellStr o raw)).1 = (Model.Wire.unquote raw).1
        | k => respellTok o k = k) ∧
      formatV o b' = some b' :=
  formatV_respell o hR hw (Or.inr nameKey_unquote) b b' h

/-- **Fixed point for `Value.Format` with the default options** (strict UTF-8, no duplicates, strings respelled). -/
theorem format_default_idem (w : WsOpts) (hw : w.Blank) (b b' : Bytes) (h : formatV { ws := w } b = some b') :
    formatV { ws := w } b' = some b' := by
  obtain ⟨_, _, _, _, hid⟩ := formatV_respell_all { ws := w } (Or.inl ⟨rfl, rfl⟩) hw b b' h
  exact hid

/-- **Fixed point of `Value.Format`** for every respellable option set, stated alone. -/
theorem formatV_idem_all (o : FOpts) (hR : o.respellable) (hw : o.ws.Blank) (b b' : Bytes) (h : formatV o b = some b') :
    formatV o b' = some b' := by
  obtain ⟨_, _, _, _, hid⟩ := formatV_respell_all o hR hw b b' h
  exact hid

/-- the only option sets not covered: PreserveRawStrings ∧ (EscapeForHTML ∨ EscapeForJS) ∧ AllowInvalidUTF8 -/
theorem respellable_iff (o : FOpts) :
    o.respellable ↔ ¬ (o.preserve = true ∧ (o.html = true ∨ o.js = true) ∧ o.allowInvalidUTF8 = true) := by
  unfold FOpts.respellable FOpts.noEscape
  cases o.preserve <;> cases o.html <;> cases o.js <;> cases o.allowInvalidUTF8 <;> simp

/-- Full statements over ALL option sets.  The only open part is PreserveRawStrings together with EscapeForHTML /
EscapeForJS AND AllowInvalidUTF8 (the escape loop over a raw literal that may contain ill-formed UTF-8; slice C11's
`preserve_*` theorems need the strict scanner); everything else is `formatV_respell_all` / `formatV_idem_all`.
Validated by the harness predicates and by the `fmt formatv` correspondence: the output tokens are the input tokens with every
string replaced by a literal of the same unescaped value, and formatting is idempotent. -/
def formatV_meaning_full : Prop :=
  ∀ (o : FOpts) (b b' : Bytes), o.ws.Blank → formatV o b = some b' →
    ∃ ts ts', tokenizeV o b = some ts ∧ tokenizeV o b' = some ts' ∧
      ts.length = ts'.length ∧ ∀ (i : Nat) (t t' : Tok), ts[i]? = some t → ts'[i]? = some t' →
        (match t, t' with
         | Tok.str raw, Tok.str raw' => (Model.Wire.unquote raw).1 = (Model.Wire.unquote raw').1
         | t, t' => t = t')

def formatV_idem_full : Prop :=
  ∀ (o : FOpts) (b b' : Bytes), o.ws.Blank → formatV o b = some b' → formatV o b' = some b'

/-! ### the nesting limit applies to every container, empty or not -/

/-- At every opening bracket of a well-nested list fewer than `maxDepth` containers are open — regardless of
what the bracket encloses. -/
theorem depth_le_max (pre rest : List Tok) (t : Tok) (ht : t.isOpen = true) (h : WellNested (pre ++ t :: rest)) :
    opens pre < maxDepth + closes pre := by
  have := accepts_depth pre [.top0] t rest ht h.2
  simp only [List.length_cons, List.length_nil] at this
  omega

/-- **An empty container at depth max+1 is rejected**: if exactly `maxDepth` containers are open after `pre`,
then neither `pre { } post` nor `pre [ ] post` is well nested, so no text is tokenized to it and formatting
any text with these tokens fails (`format_eq_some`).  (reformatObject/reformatArray test the depth before the
empty-container fast path; tied by `fmt compact` on the depth-boundary texts.) -/
theorem empty_at_limit_rejected (pre post : List Tok) (h : opens pre = closes pre + maxDepth) :
    ¬ WellNested (pre ++ .bo :: .eo :: post) ∧ ¬ WellNested (pre ++ .ba :: .ea :: post) ∧
    ∀ b, tokenize b ≠ some (pre ++ .bo :: .eo :: post) ∧ tokenize b ≠ some (pre ++ .ba :: .ea :: post) := by
  have h1 : ¬ WellNested (pre ++ .bo :: .eo :: post) := fun hw => by
    have := depth_le_max pre (.eo :: post) .bo rfl hw; omega
  have h2 : ¬ WellNested (pre ++ .ba :: .ea :: post) := fun hw => by
    have := depth_le_max pre (.ea :: post) .ba rfl hw; omega
  exact ⟨h1, h2, fun b => ⟨fun ht => h1 (tokenize_sound' b _ ht), fun ht => h2 (tokenize_sound' b _ ht)⟩⟩

/-- the hypothesis is satisfiable: `maxDepth` opening brackets -/
example : opens (List.replicate maxDepth Tok.ba) = closes (List.replicate maxDepth Tok.ba) + maxDepth := by
  simp [opens, closes, List.countP_replicate, Tok.isOpen, Tok.isClose]

/-- and one level less is accepted: `[[{}]]` with a limit of … (the grammar itself, small instance) -/
example : WellNested [.ba, .ba, .bo, .eo, .ea, .ea] := by decide

/-! ### the compact form contains no whitespace outside strings -/

/-- The compact output is the bare concatenation of tokens and delimiters, and no lexeme other than a
string literal contains a whitespace byte. -/
theorem compact_no_ws (ts : List Tok) (hv : ∀ t ∈ ts, t.valid = true) :
    renderCompact ts = ((punct [.top0] ts).map Lex.bytes).flatten ∧
    ∀ l ∈ punct [.top0] ts, (∀ raw, l ≠ .tok (.str raw)) → ∀ c ∈ l.bytes, isWs c = false :=
  ⟨flatWs_compact ts _, fun l hl hs => lexeme_no_ws l (punct_valid ts _ hv l hl) hs⟩

/-! ### commit rule: untouched on error, no write when already formatted -/

/-- On error the Value is left unmodified and nothing is written. -/
theorem valueFormat_err_unchanged (o : WsOpts) (v : Bytes) (h : (valueFormat o v).err = true) :
    (valueFormat o v).val = v ∧ (valueFormat o v).wrote = false ∧ format o v = none := by
  unfold valueFormat at h ⊢
  cases hf : format o v with
  | none => simp
  | some out => simp only [hf] at h; split at h <;> simp at h

/-- On error AppendFormat returns dst with all of src appended. -/
theorem appendFormat_err (o : WsOpts) (dst src : Bytes) (h : (appendFormat o dst src).2 = true) :
    (appendFormat o dst src).1 = dst ++ src := by
  unfold appendFormat at h ⊢
  cases hf : format o src with
  | none => rfl
  | some out => simp [hf] at h

example : (appendFormat compactOpts [0x41] [0x5b, 0x2c, 0x5d]) = ([0x41, 0x5b, 0x2c, 0x5d], true) := by decide

/-- An already formatted value is not rewritten. -/
theorem already_formatted_not_rewritten (o : WsOpts) (ho : o.Blank) (ts : List Tok) (h : WellNested ts) :
    valueFormat o (render o ts) = ⟨render o ts, false, false⟩ := by
  unfold valueFormat
  rw [format_fixed_when_formatted o ho ts h]; simp

/-- After one successful Format the same call is a no-op that does not write to the buffer. -/
theorem valueFormat_twice (o : WsOpts) (ho : o.Blank) (v : Bytes) (h : (valueFormat o v).err = false) :
    valueFormat o (valueFormat o v).val = ⟨(valueFormat o v).val, false, false⟩ := by
  cases hf : format o v with
  | none => simp [valueFormat, hf] at h
  | some out =>
    have hid := format_idem o ho v out hf
    by_cases hv : v = out
    · subst hv
      simp [valueFormat, hf]
    · have : (valueFormat o v).val = out := by simp [valueFormat, hf, hv]
      rw [this]
      simp [valueFormat, hid]

example : valueFormat compactOpts [0x5b, 0x20, 0x5d] = ⟨[0x5b, 0x5d], false, true⟩ := by decide
example : valueFormat compactOpts [0x5b, 0x5d] = ⟨[0x5b, 0x5d], false, false⟩ := by decide
example : valueFormat compactOpts [0x5b, 0x5d, 0x5d] = ⟨[0x5b, 0x5d, 0x5d], true, false⟩ := by decide

end JsonV.Props.C12
