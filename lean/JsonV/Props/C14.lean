/-
C14 — Unmarshal merges JSON objects into existing values and replaces everything else.

Property theorems only (proofs in Lemmas/Merge*.lean).  They are statements about the L3 model
`Model.unm` (Model/Unmarshal.lean), which mirrors /repo/arshal_default.go kind by kind and is tied
to the real code by the correspondence check of harness/c14.go (`arsh unm|chain|merge`).

All statements are for EVERY type of the modelled universe (`GoType.wf`: distinct struct field
names, no `[]uint8`/`[N]uint8`), EVERY pair/chain of trees (a successful call implies that the
tree has no repeated member names, `success_dupFree`) and both values of the one option that matters
(`UnmarshalArrayFromAnyLength`); there is no bound on depth or size.  The value relation of the
merge law is plain equality of model values, which is stronger than the equality "as finite maps,
nil ≠ empty" that the property asks for (model maps are association lists in insertion order, and
sequential unmarshaling and unmarshaling the merged tree insert in the same order).
-/
import JsonV.Lemmas.MergeClauses
import JsonV.Lemmas.MergeDup
import JsonV.Lemmas.MergeIdem

namespace JsonV.Props.C14
open JsonV JsonV.Spec JsonV.Model JsonV.Lemmas.Merge

/-! ### The merge law -/

/-- **Merge law.**  Unmarshaling `j2` into the result of unmarshaling `j1` (into a zero value), when
both calls succeed, gives exactly the value that unmarshaling `merge j1 j2` into a zero value gives
(and that call succeeds). -/
theorem merge_law (o : UOpts) (ho : o.allowDup = false) (T : GoType) (hwf : T.wf = true) (j1 j2 : JTree) (v1 v2 : GoVal)
    (h1 : unm o T j1 T.zero = .ok v1) (h2 : unm o T j2 v1 = .ok v2) :
    unm o T (JTree.merge j1 j2) T.zero = .ok v2 :=
  merge_law_unm' o ho T hwf j1 j2 v1 v2 h1 h2

/-- The merge law for ANY option record (also `AllowDuplicateNames`), on trees without repeated names. -/
theorem merge_law_dupFree (o : UOpts) (T : GoType) (hwf : T.wf = true) (j1 j2 : JTree) (v1 v2 : GoVal)
    (hd1 : j1.dupFree = true) (hd2 : j2.dupFree = true)
    (h1 : unm o T j1 T.zero = .ok v1) (h2 : unm o T j2 v1 = .ok v2) :
    unm o T (JTree.merge j1 j2) T.zero = .ok v2 :=
  merge_law_unm o T hwf j1 j2 v1 v2 hd1 hd2 h1 h2

/-- A successful call has met no repeated member name anywhere in its input (the decoder checks
skipped values too), which is why `merge_law` needs no such hypothesis. -/
theorem success_dupFree (o : UOpts) (ho : o.allowDup = false) (T : GoType) (j : JTree) (prior v : GoVal)
    (h : unm o T j prior = .ok v) : j.dupFree = true := unm_dupFree o ho T j prior v h

/-- The merged tree is again free of repeated names (so the law can be iterated). -/
theorem merge_dupFree (a b : JTree) (ha : a.dupFree = true) (hb : b.dupFree = true) :
    (JTree.merge a b).dupFree = true := dupFree_merge a b ha hb

/-- `merge` takes the right side unless both sides are objects. -/
theorem merge_right (a b : JTree) (h : a.isObj = false ∨ b.isObj = false) : JTree.merge a b = b :=
  merge_nonobj a b h

/-- Members of a merged object: left members in order (merged by name), then the new right ones. -/
theorem merge_objects (ms1 ms2 : List (Bytes × JTree)) :
    JTree.merge (.obj ms1) (.obj ms2) =
      .obj (JTree.mergeL ms1 ms2 ++ ms2.filter (fun p => !(ahas p.1 ms1))) := by
  simp [JTree.merge]

namespace Ex
/-- `struct{ a int8; m map[string]any; p *struct{ x []int16 } }` -/
def T : GoType := .struct [([0x61], .int 8), ([0x6d], .map .any), ([0x70], .ptr (.struct [([0x78], .slice (.int 16))]))]
/-- `{"a":5,"m":{"k":{"z":1}},"p":{"x":[1,2,3]},"u":null}` -/
def j1 : JTree := .obj [([0x61], .num [0x35]), ([0x6d], .obj [([0x6b], .obj [([0x7a], .num [0x31])])]),
  ([0x70], .obj [([0x78], .arr [.num [0x31], .num [0x32], .num [0x33]])]), ([0x75], .null)]
/-- `{"m":{"k":{"y":true},"n":null},"p":{"x":[7]}}` -/
def j2 : JTree := .obj [([0x6d], .obj [([0x6b], .obj [([0x79], .bool true)]), ([0x6e], .null)]),
  ([0x70], .obj [([0x78], .arr [.num [0x37]])])]
def v1 : GoVal := .structOf [([0x61], .int 5),
  ([0x6d], .mapOf [([0x6b], .ifaceOf (.mapOf [([0x7a], .ifaceOf (.float [0x31]))]))]),
  ([0x70], .ptrTo (.structOf [([0x78], .sliceOf [.int 1, .int 2, .int 3])]))]
def v2 : GoVal := .structOf [([0x61], .int 5),
  ([0x6d], .mapOf [([0x6b], .ifaceOf (.mapOf [([0x7a], .ifaceOf (.float [0x31])), ([0x79], .ifaceOf (.bool true))])),
                   ([0x6e], .nilIface)]),
  ([0x70], .ptrTo (.structOf [([0x78], .sliceOf [.int 7])]))]
end Ex

/-- The hypotheses of `merge_law` are met by a non-trivial case (struct, map, `any`, pointer, slice). -/
example : Ex.T.wf = true ∧ Ex.j1.dupFree = true ∧ Ex.j2.dupFree = true ∧
    unm {} Ex.T Ex.j1 Ex.T.zero = .ok Ex.v1 ∧ unm {} Ex.T Ex.j2 Ex.v1 = .ok Ex.v2 := by
  refine ⟨by decide, by decide, by decide, by rfl, by rfl⟩

/-- `{}` is a two-sided unit of `merge` on objects: `{}` unmarshaled into a value that came from an object leaves the
members as they were, and an object merged into `{}` is that object. -/
theorem merge_empty_object (ms : List (Bytes × JTree)) :
    JTree.merge (.obj ms) (.obj []) = .obj ms ∧ JTree.merge (.obj []) (.obj ms) = .obj ms :=
  JsonV.Lemmas.Merge.merge_empty_object ms

/-- `merge` is idempotent on every tree without repeated names (any depth, any width). -/
theorem merge_idem (a : JTree) (ha : a.dupFree = true) : JTree.merge a a = a := merge_self a ha

/-- **A repeated call is a no-op.**  Unmarshaling the same text a second time into the value the first call produced
(from a zero value) gives that value again — for every well-formed type, every option record and every tree without
repeated names.  Corollary of the merge law and `merge_idem`. -/
theorem unm_twice (o : UOpts) (T : GoType) (hwf : T.wf = true) (j : JTree) (v1 v2 : GoVal) (hd : j.dupFree = true)
    (h1 : unm o T j T.zero = .ok v1) (h2 : unm o T j v1 = .ok v2) : v2 = v1 := by
  have h := merge_law_dupFree o T hwf j j v1 v2 hd hd h1 h2
  rw [merge_idem j hd, h1] at h
  exact (Except.ok.inj h).symm

/-- The hypotheses of `unm_twice` are met by the non-trivial case `Ex.j1` (and the second call there succeeds). -/
example : Ex.T.wf = true ∧ Ex.j1.dupFree = true ∧ unm {} Ex.T Ex.j1 Ex.T.zero = .ok Ex.v1 ∧
    unm {} Ex.T Ex.j1 Ex.v1 = .ok Ex.v1 := by
  refine ⟨by decide, by decide, by rfl, by rfl⟩

/-- Any number of repetitions of the same duplicate-free tree folds to that tree (with `chain_law`: unmarshaling the
same text `k + 1` times in a row leaves what one call leaves). -/
theorem mergeAll_replicate (a : JTree) (ha : a.dupFree = true) (k : Nat) :
    JTree.mergeAll (List.replicate (k + 1) a) = a := by
  show (List.replicate k a).foldl JTree.merge a = a
  induction k with
  | zero => rfl
  | succ k ih => rw [List.replicate_succ, List.foldl_cons, merge_idem a ha, ih]

example : JTree.mergeAll (List.replicate 3 Ex.j1) = Ex.j1 := mergeAll_replicate Ex.j1 (by decide) 2

/-- `merge` is NOT associative: a non-object in the middle of a chain resets the destination
(`({x} ⊕ null) ⊕ {y} = {y}` but `{x} ⊕ (null ⊕ {y}) = {x,y}`), which is why `chain_law` is stated —
and only true — for the LEFT fold of `merge`, the order in which successive calls happen. -/
theorem merge_not_assoc : ∃ a b c : JTree, JTree.merge (JTree.merge a b) c ≠ JTree.merge a (JTree.merge b c) := by
  refine ⟨.obj [([0x78], .null)], .null, .obj [([0x79], .null)], ?_⟩
  simp [JTree.merge, JTree.mergeL, alookup, ahas]

/-! ### Chains -/

/-- **Chain law.**  `k` successive successful calls starting from the zero value leave what one call
with the left-folded merge of the `k` trees leaves (`k = 0`: the zero value and `null`). -/
theorem chain_law (o : UOpts) (ho : o.allowDup = false) (T : GoType) (hwf : T.wf = true) (js : List JTree) (v : GoVal)
    (h : unmChain o T js T.zero = .ok v) :
    unm o T (JTree.mergeAll js) T.zero = .ok v := by
  cases js with
  | nil =>
    simp only [unmChain, Except.ok.injEq] at h
    subst h
    exact unm_null o T _
  | cons j r =>
    simp only [unmChain] at h
    cases hj : unm o T j T.zero with
    | error e => simp [hj] at h
    | ok v0 =>
      simp only [hj] at h
      exact chain_fold o ho T hwf r j v0 v hj h

example : unmChain {} Ex.T [Ex.j1, Ex.j2] Ex.T.zero = .ok Ex.v2 := by rfl

/-! ### The four clauses -/

/-- **A JSON null zeroes its destination**: every type, every prior value. -/
theorem null_zeroes (o : UOpts) (T : GoType) (prior : GoVal) : unm o T .null prior = .ok T.zero :=
  unm_null o T prior

/-- **A slice ends up holding exactly the new elements**: whatever the prior value (length,
capacity, contents), a successful call leaves a non-nil slice with one element per input element,
each being the decode of that element into a zero value. -/
theorem slice_exact (o : UOpts) (t : GoType) (xs : List JTree) (prior v : GoVal)
    (h : unm o (.slice t) (.arr xs) prior = .ok v) :
    ∃ vs, v = .sliceOf vs ∧ vs.length = xs.length ∧
      ∀ (i : Nat) (x : JTree), xs[i]? = some x → ∃ w, vs[i]? = some w ∧ unm o t x t.zero = .ok w := by
  simp only [unm] at h
  cases he : elemsFresh (unm o t) t.zero xs with
  | error e => simp [he] at h
  | ok vs =>
    simp only [he, Except.ok.injEq] at h
    exact ⟨vs, h.symm, elemsFresh_spec he⟩

/-- **An array is overwritten element-wise, missing elements zeroed**: whatever the prior value, a
successful call leaves `n` elements, element `i` being the decode of input element `i` into a zero
value if there is one and the zero value otherwise; surplus input elements are ignored; and unless
`UnmarshalArrayFromAnyLength` is set, success requires exactly `n` input elements. -/
theorem array_overwrite (o : UOpts) (n : Nat) (t : GoType) (xs : List JTree) (prior v : GoVal)
    (h : unm o (.array n t) (.arr xs) prior = .ok v) :
    (o.arrayAnyLen = false → xs.length = n) ∧
    ∃ vs, v = .arrayOf vs ∧ vs.length = n ∧ ∀ i, i < n →
      (match xs[i]? with
       | some x => ∃ w, unm o t x t.zero = .ok w ∧ vs[i]? = some w
       | none => vs[i]? = some t.zero) := by
  simp only [unm] at h
  cases he : arrayElems o (unm o t) t.zero n xs with
  | error e => simp [he] at h
  | ok vs =>
    simp only [he] at h
    split at h
    · cases h
    · rename_i hc
      simp only [Except.ok.injEq] at h
      refine ⟨?_, vs, h.symm, arrayElems_spec he⟩
      intro ho
      simpa [ho] using hc

/-- The any-length variant spelled out (`UnmarshalArrayFromAnyLength`): an input SHORTER than the
array is accepted, and every position past the input holds the zero value — whatever the array held. -/
theorem array_short_zero_fill (o : UOpts) (n : Nat) (t : GoType) (xs : List JTree) (prior : GoVal) (vs : List GoVal)
    (h : unm o (.array n t) (.arr xs) prior = .ok (.arrayOf vs)) (i : Nat) (hi : i < n) (hx : xs.length ≤ i) :
    vs[i]? = some t.zero := by
  obtain ⟨_, vs', hv, _, hall⟩ := array_overwrite o n t xs prior _ h
  cases hv
  have := hall i hi
  rw [List.getElem?_eq_none hx] at this
  exact this

/-- … and an input LONGER than the array: the surplus elements have no influence on the result
(they are only syntax-checked), positions `i < n` hold the decode of input element `i`. -/
theorem array_long_drops (o : UOpts) (n : Nat) (t : GoType) (xs : List JTree) (prior : GoVal) (vs : List GoVal)
    (h : unm o (.array n t) (.arr xs) prior = .ok (.arrayOf vs)) :
    vs.length = n ∧ ∀ (i : Nat) (x : JTree), i < n → xs[i]? = some x → ∃ w, unm o t x t.zero = .ok w ∧ vs[i]? = some w := by
  obtain ⟨_, vs', hv, hl, hall⟩ := array_overwrite o n t xs prior _ h
  cases hv
  refine ⟨hl, ?_⟩
  intro i x hi hx
  have := hall i hi
  rw [hx] at this
  exact this

example : unm { arrayAnyLen := true } (.array 2 (.int 8)) (.arr [.num [0x37]]) (.arrayOf [.int 1, .int 2])
    = .ok (.arrayOf [.int 7, .int 0]) := by rfl

/-- **Map entries not mentioned in the input are kept** (and the map stays a non-nil map). -/
theorem unmentioned_kept_map (o : UOpts) (t : GoType) (ms : List (Bytes × JTree))
    (m : List (Bytes × GoVal)) (v : GoVal) (h : unm o (.map t) (.obj ms) (.mapOf m) = .ok v) :
    ∃ m', v = .mapOf m' ∧ ∀ n, n ∉ akeys ms → alookup n m' = alookup n m := by
  simp only [unm] at h
  cases hf : objFold o (fun _ => some (unm o t)) (fun _ => t.zero) ms [] m with
  | error e => simp [hf] at h
  | ok m' =>
    simp only [hf, Except.ok.injEq] at h
    exact ⟨m', h.symm, fun n hn => objFold_frame hf n hn⟩

/-- **Struct fields not mentioned in the input are kept.** -/
theorem unmentioned_kept_struct (o : UOpts) (fs : List (Bytes × GoType)) (ms : List (Bytes × JTree))
    (fvs : List (Bytes × GoVal)) (v : GoVal) (h : unm o (.struct fs) (.obj ms) (.structOf fvs) = .ok v) :
    ∃ fvs', v = .structOf fvs' ∧ ∀ n, n ∉ akeys ms → alookup n fvs' = alookup n fvs := by
  simp only [unm] at h
  cases hf : objFold o (fieldDec o fs) (fieldZero fs) ms [] fvs with
  | error e => simp [hf] at h
  | ok m' =>
    simp only [hf, Except.ok.injEq] at h
    exact ⟨m', h.symm, fun n hn => objFold_frame hf n hn⟩

/-- Mentioned map entries are decoded *into the existing entry* (merge), absent ones into a zero
value; the key set only grows, in insertion order. -/
theorem mentioned_merged_map (o : UOpts) (ho : o.allowDup = false) (t : GoType) (ms : List (Bytes × JTree))
    (m m' : List (Bytes × GoVal)) (h : unm o (.map t) (.obj ms) (.mapOf m) = .ok (.mapOf m')) :
    ∀ n j, (n, j) ∈ ms → ∃ w, unm o t j ((alookup n m).getD t.zero) = .ok w ∧ alookup n m' = some w := by
  simp only [unm] at h
  cases hf : objFold o (fun _ => some (unm o t)) (fun _ => t.zero) ms [] m with
  | error e => simp [hf] at h
  | ok m'' =>
    simp only [hf, Except.ok.injEq, GoVal.mapOf.injEq] at h
    subst h
    intro n j hm
    exact (objFold_facts (objFold_nodup ho hf).1 hf).known n j _ hm rfl

example : unm {} (.map (.int 8)) (.obj [([0x62], .num [0x32])]) (.mapOf [([0x61], .int 1)])
    = .ok (.mapOf [([0x61], .int 1), ([0x62], .int 2)]) := by rfl

/-! ### AllowDuplicateNames (`allowDup`) -/

/-- **On input without repeated names the option changes nothing**: same value, same error, for every
type and every prior value. -/
theorem permissive_eq (o : UOpts) (T : GoType) (j : JTree) (v : GoVal) (hd : j.dupFree = true) :
    unm { o with allowDup := true } T j v = unm { o with allowDup := false } T j v :=
  unm_congr_dup { o with allowDup := true } { o with allowDup := false } rfl T j v hd

/-- **Later wins, by merging**: with `allowDup`, an object with one more member `(k, x)` at the end is
unmarshaled exactly like two successive calls — the object without it, then `{k: x}` — into the same
destination.  In particular when `k` already occurs in `ms`, the repeated member is unmarshaled INTO
what the earlier one left (struct field in place, map entry merged, `any` by the held dynamic type),
never rejected and never simply overwriting a container.  (Holds whether or not `k` occurs in `ms`.) -/
theorem later_wins (o : UOpts) (ho : o.allowDup = true) (T : GoType) (ms : List (Bytes × JTree)) (k : Bytes)
    (x : JTree) (v : GoVal) :
    unm o T (.obj (ms ++ [(k, x)])) v = unmChain o T [.obj ms, .obj [(k, x)]] v :=
  later_wins_all o ho T ms k x v

/-- Corollary connecting to the merge law: with `allowDup`, if the object before the repeated member
and the member's value have no repeated names themselves, then a successful call on the object WITH
the duplicate leaves what the (duplicate-free) merged object `merge {ms} {k: x}` leaves — under the
same options, and therefore (`permissive_eq`) also under the default ones. -/
theorem dup_is_merge (o : UOpts) (ho : o.allowDup = true) (T : GoType) (hwf : T.wf = true)
    (ms : List (Bytes × JTree)) (k : Bytes) (x : JTree) (v : GoVal)
    (hd1 : (JTree.obj ms).dupFree = true) (hd2 : x.dupFree = true)
    (h : unm o T (.obj (ms ++ [(k, x)])) T.zero = .ok v) :
    unm o T (JTree.merge (.obj ms) (.obj [(k, x)])) T.zero = .ok v ∧
    unm { o with allowDup := false } T (JTree.merge (.obj ms) (.obj [(k, x)])) T.zero = .ok v := by
  have hdx : (JTree.obj [(k, x)]).dupFree = true := by
    simp [JTree.dupFree, JTree.dupFreeM, nodupB, akeys, hd2]
  rw [later_wins o ho, unmChain_two] at h
  cases h1 : unm o T (.obj ms) T.zero with
  | error e => simp [h1] at h
  | ok v1 =>
    simp only [h1] at h
    have hm := merge_law_dupFree o T hwf (.obj ms) (.obj [(k, x)]) v1 v hd1 hdx h1 h
    refine ⟨hm, ?_⟩
    have := permissive_eq o T (JTree.merge (.obj ms) (.obj [(k, x)])) T.zero (merge_dupFree _ _ hd1 hdx)
    have ho' : ({ o with allowDup := true } : UOpts) = o := by cases o; simp_all
    rw [ho'] at this
    rw [← this]; exact hm

example : unm { allowDup := true } (.map (.map (.int 8)))
    (.obj [([0x61], .obj [([0x78], .num [0x31])]), ([0x61], .obj [([0x79], .num [0x32])])]) .nilMap
    = .ok (.mapOf [([0x61], .mapOf [([0x78], .int 1), ([0x79], .int 2)])]) := by rfl

/-! ### Faithfulness of the `any` model -/

/-- A non-nil interface is unmarshaled into by the arshaler of its dynamic type and stored back
(arshal_default.go:1940-1957) — the structural definition `unmAny` agrees with that reading. -/
theorem any_by_dynamic_type (o : UOpts) (dv : GoVal) (T : GoType) (hT : dv.dynType = some T)
    (j : JTree) (hj : j.isNull = false) :
    unm o .any j (.ifaceOf dv) =
      (match unm o T j dv with
       | .error e => .error e
       | .ok v => .ok (.ifaceOf v)) := by
  rw [unm_any_eq]; exact unmAny_dyn o dv T hT j hj

end JsonV.Props.C14
