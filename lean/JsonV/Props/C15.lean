/-
C15 — Struct fields map to members by the documented resolution rules.

Model: `Model/Fields.lean` (`makeStructFields` over a finite type graph, the unmarshal lookup, the omission
decisions), `Model/Fold.lean` (`foldName`, `matchFoldedName`).  Spec: `Spec/FieldRule.lean`.
All statements are for ALL finite graphs / ALL field lists / ALL names; nothing is bounded.

What is proved here about the model (and tied to the code by the correspondence check of harness/c15.go):
  flatten_names_nodup, order_spec, ids_bfs, flatten_winners (dominance filter = documented winner rule on the
  enumerated candidates), bfs_fuel_suffices (termination on every graph), enumerated_iff_reachable,
  flatten_sound, flatten_complete (search = declarative all-paths rule, for error-free runs under NoDupEmbed),
  ids_depth_monotone, dup_embed_counterexample (NoDupEmbed is necessary), lookup_exact_first, lookup_spec,
  fold_ascii, fold_normal_form, fold_idem_ascii, fold_ignores_delims_and_case, equalFold_equiv, match_spec, zero_spec, omitZeroStructFields_equiv, omit_spec, unknown_spec.
fallback_spec and ids_depth_monotone (every run) are proved as well; no full statement of this file is left open.
-/
import JsonV.Lemmas.FieldsFinish
import JsonV.Lemmas.FieldsFold
import JsonV.Lemmas.FieldsFoldIdem
import JsonV.Lemmas.FieldsLookup
import JsonV.Lemmas.FieldsEscape
import JsonV.Lemmas.FieldsOcc
import JsonV.Lemmas.FieldsDepth

namespace JsonV.Props.C15
open JsonV JsonV.Model JsonV.Model.Fields JsonV.Spec.FieldRule JsonV.Lemmas.Fields

/-- No two resolved fields share a JSON name (so `byActualName` is a function and Marshal never emits a
duplicate member from the struct's own fields). -/
theorem flatten_names_nodup (g : Graph) (root : StructId) :
    ((flatten g root).flattened.map (·.name)).Nodup :=
  finish_names_nodup _

/-- The resolved fields are listed in lexicographic order of their index paths (the marshal order). -/
theorem order_spec (g : Graph) (root : StructId) :
    (flatten g root).flattened.Pairwise (fun a b => IndexLe a.index b.index) :=
  (finish_sorted (search g root)).imp (fun h => (indexLe_iff _ _).mp h)

/-- Ids: the final ids are exactly 0..n-1; discovery ids are the positions in the breadth-first enumeration;
the final id of a field is its rank by discovery id among the kept fields. -/
theorem ids_bfs (g : Graph) (root : StructId) :
    ((flatten g root).flattened.map (·.id)).Perm (List.range (flatten g root).flattened.length) ∧
    (search g root).all.map (·.id) = List.range (search g root).all.length ∧
    ∃ byId : List RField, byId.Perm (kept (search g root)) ∧ byId.Pairwise (fun a b => a.id ≤ b.id) ∧
      (flatten g root).flattened.Perm (renumber 0 byId) :=
  ⟨finish_ids _, search_ids g root, kept_sorted_perm _⟩

/-- The sort + dominance filter implement the documented rule on the candidates the search enumerated:
a field (index path, options) is resolved iff it wins among `allFields` — it beats every other
enumerated field of the same name (strictly shallower, or equally deep and the only explicitly named). -/
theorem flatten_winners (g : Graph) (root : StructId) (ix : List Nat) (o : FieldOpts) :
    (∃ f ∈ (flatten g root).flattened, f.index = ix ∧ f.opts = o) ↔
    (∃ f0, WinnerIn (search g root).all f0 ∧ f0.index = ix ∧ f0.opts = o) := by
  have hp := finish_keys_perm (search g root)
  have hm : ∀ l : List RField, (∃ f ∈ l, f.index = ix ∧ f.opts = o) ↔ (ix, o) ∈ l.map (fun f => (f.index, f.opts)) := by
    intro l
    simp only [List.mem_map, Prod.mk.injEq]
  unfold flatten
  rw [hm, hp.mem_iff, ← hm]
  constructor
  · rintro ⟨f, hf, h1, h2⟩
    exact ⟨f, (mem_kept_iff _ (search_all_nodup g root) f).mp hf, h1, h2⟩
  · rintro ⟨f, hf, h1, h2⟩
    exact ⟨f, (mem_kept_iff _ (search_all_nodup g root) f).mpr hf, h1, h2⟩

/-- `flatten_terminates`: the level-by-level search (fuel = number of struct types + 2) never stops for lack of
fuel, on every type graph including recursive ones: each level either queues a visiting entry of a struct type
not seen before, or queues nothing that can queue anything. -/
theorem bfs_fuel_suffices (g : Graph) (root : StructId) : (search g root).queue = [] :=
  search_queue_nil g root

theorem nodup_map_inj {α β} [DecidableEq β] (f : α → β) : ∀ {l : List α}, (l.map f).Nodup → ∀ {a b}, a ∈ l → b ∈ l → f a = f b → a = b
  | [], _, _, _, ha, _, _ => by cases ha
  | x :: xs, hnd, a, b, ha, hb, hab => by
    rw [List.map_cons, List.nodup_cons] at hnd
    rcases List.mem_cons.mp ha with rfl | ha' <;> rcases List.mem_cons.mp hb with rfl | hb'
    · rfl
    · exact absurd (List.mem_map.mpr ⟨b, hb', hab.symm⟩) hnd.1
    · exact absurd (List.mem_map.mpr ⟨a, ha', hab⟩) hnd.1
    · exact nodup_map_inj f hnd.2 ha' hb' hab

/-- The enumeration lemma behind soundness and completeness (error-free run, `NoDupEmbed`):
every enumerated field is a candidate of the all-paths rule with its true index path, and every candidate of the
rule is enumerated or dominated by an enumerated field with the same options at a strictly smaller depth. -/
theorem enumerated_iff_reachable (g : Graph) (root : StructId) (herr : (flatten g root).err = none) (hnd : NoDupEmbed g root) :
    (∀ f ∈ (search g root).all, IsCand g root ⟨f.index, f.opts⟩) ∧
    (∀ c, IsCand g root c → ∃ f ∈ (search g root).all, f.opts = c.opts ∧ (f.index = c.index ∨ f.index.length < c.index.length)) := by
  obtain ⟨P, hF, _⟩ := final_of_search (g := g) (root := root) herr
  exact ⟨fun f hf => hF.enumerated_sound f hf, fun c hc => hF.dominated hnd c hc⟩

/-- SOUNDNESS: in an error-free run on a graph without a struct-embedding type reached twice at its first depth,
every resolved field is the winner of its name under the declarative all-paths rule. -/
theorem flatten_sound (g : Graph) (root : StructId) (herr : (flatten g root).err = none) (hnd : NoDupEmbed g root) :
    ∀ f ∈ (flatten g root).flattened, Winner (IsCand g root) ⟨f.index, f.opts⟩ := by
  obtain ⟨P, hF, _⟩ := final_of_search (g := g) (root := root) herr
  intro f hf
  obtain ⟨f0, ⟨hf0, hw⟩, hi0, ho0⟩ := (flatten_winners g root f.index f.opts).mp ⟨f, hf, rfl, rfl⟩
  rw [← hi0, ← ho0]
  refine ⟨hF.enumerated_sound f0 hf0, ?_⟩
  intro x hx hxn hxne
  obtain ⟨x', hx', hxo, hxi⟩ := hF.dominated hnd x hx
  have hname : x'.name = f0.name := by
    show x'.opts.name = f0.opts.name
    rw [hxo]; exact hxn
  show Beats f0.index.length f0.opts.hasName x.index.length x.opts.hasName
  by_cases heq : x' = f0
  · rcases hxi with hxi | hxi
    · exfalso; apply hxne
      rw [← heq, hxo, hxi]
    · exact Or.inl (by rw [← heq]; exact hxi)
  · have hb := hw x' hx' hname heq
    unfold Beats RField.depth RField.hasName at hb
    rw [hxo] at hb
    rcases hxi with hxi | hxi
    · rw [hxi] at hb; exact hb
    · rcases hb with hb | ⟨hb, _⟩
      · exact Or.inl (by omega)
      · exact Or.inl (by omega)

/-- COMPLETENESS: under the same hypotheses every winner of the declarative rule is resolved. -/
theorem flatten_complete (g : Graph) (root : StructId) (herr : (flatten g root).err = none) (hnd : NoDupEmbed g root) :
    ∀ c, Winner (IsCand g root) c → ∃ f ∈ (flatten g root).flattened, f.index = c.index ∧ f.opts = c.opts := by
  obtain ⟨P, hF, _⟩ := final_of_search (g := g) (root := root) herr
  intro c ⟨hc, hw⟩
  obtain ⟨f0, hf0, ho0, hi0⟩ := hF.dominated hnd c hc
  have hi : f0.index = c.index := by
    rcases hi0 with hi0 | hi0
    · exact hi0
    · exfalso
      have hb := hw ⟨f0.index, f0.opts⟩ (hF.enumerated_sound f0 hf0) (by show f0.opts.name = c.opts.name; rw [ho0])
        (by intro h; rw [← h] at hi0; exact Nat.lt_irrefl _ hi0)
      unfold Beats Cand.depth at hb
      rcases hb with hb | ⟨hb, _⟩ <;> simp only at hb <;> omega
  apply (flatten_winners g root c.index c.opts).mpr
  refine ⟨f0, ⟨hf0, ?_⟩, hi, ho0⟩
  intro x hx hxn hxne
  have hcx : (⟨x.index, x.opts⟩ : Cand) ≠ c := by
    intro h
    apply hxne
    have : x.index = f0.index := by rw [hi, ← h]
    exact nodup_map_inj (·.index) hF.allND hx hf0 this
  have hb := hw ⟨x.index, x.opts⟩ (hF.enumerated_sound x hx)
    (by show x.opts.name = c.opts.name; rw [← ho0]; exact hxn) hcx
  unfold Beats Cand.depth Cand.hasName at hb
  unfold Beats RField.depth RField.hasName
  rw [hi, ho0]
  exact hb

/-- Discovery order is by non-decreasing depth, in every run (also one that records an error). -/
theorem ids_depth_monotone (g : Graph) (root : StructId) :
    (search g root).all.Pairwise (fun a b => a.depth ≤ b.depth) :=
  search_all_sorted g root

/-- The embedded fallback selected by the search is the declarative one: the fallback candidate that is strictly
shallower than every other fallback candidate (error-free run, `NoDupEmbed`). -/
theorem fallback_spec (g : Graph) (root : StructId) (herr : (flatten g root).err = none) (hnd : NoDupEmbed g root) :
    ∀ ix, ((∃ f, (flatten g root).fallback = some f ∧ f.index = ix) ↔ FallbackWinner g root ix) := by
  obtain ⟨P, hF, hB⟩ := final_of_search (g := g) (root := root) herr
  have hfb : (flatten g root).fallback =
      match (search g root).fbs with
      | [] => none
      | [f] => some f
      | f0 :: f1 :: _ => if f0.depth != f1.depth then some f0 else none := rfl
  have hA : ∀ f ∈ (search g root).fbs, IsFallback g root f.index := fun f hf => hF.fb_sound hB f hf
  have hD : ∀ jx, IsFallback g root jx → ∃ f ∈ (search g root).fbs, f.index = jx ∨ f.index.length < jx.length :=
    fun jx hj => hF.fb_dominated hnd hB jx hj
  have hND := hB.fbND
  have hS := hB.fbSorted
  rw [hfb]
  generalize (search g root).fbs = fbs at hA hD hND hS
  intro ix
  constructor
  · rintro ⟨f, hsel, rfl⟩
    match fbs, hsel, hA, hD, hND, hS with
    | [a], hsel, hA, hD, _, _ =>
      simp only [Option.some.injEq] at hsel
      subst hsel
      refine ⟨hA a (List.mem_singleton.mpr rfl), ?_⟩
      intro jx hj hne
      obtain ⟨f', hf', h'⟩ := hD jx hj
      rw [List.mem_singleton.mp hf'] at h'
      rcases h' with h' | h'
      · exact absurd h'.symm hne
      · exact h'
    | a :: b :: t, hsel, hA, hD, _, hS =>
      by_cases hdep : (a.depth != b.depth) = true
      · simp only [hdep, if_true, Option.some.injEq] at hsel
        subst hsel
        refine ⟨hA a (List.mem_cons_self ..), ?_⟩
        have hS1 := List.pairwise_cons.mp hS
        have hS2 := List.pairwise_cons.mp hS1.2
        have hab : a.depth < b.depth := by
          have h1 := hS1.1 b (List.mem_cons_self ..)
          have h2 : a.depth ≠ b.depth := by simpa using hdep
          omega
        have hrest : ∀ x ∈ b :: t, a.depth < x.depth := by
          intro x hx
          rcases List.mem_cons.mp hx with rfl | hx
          · exact hab
          · have := hS2.1 x hx; omega
        intro jx hj hne
        obtain ⟨f', hf', h'⟩ := hD jx hj
        rcases List.mem_cons.mp hf' with rfl | hf'
        · rcases h' with h' | h'
          · exact absurd h'.symm hne
          · exact h'
        · have := hrest f' hf'
          unfold RField.depth at this
          rcases h' with h' | h'
          · rw [← h']; exact this
          · omega
      · simp only [hdep, Bool.false_eq_true, if_false] at hsel
        cases hsel
  · rintro ⟨hix, hw⟩
    obtain ⟨f, hf, hfi⟩ := hD ix hix
    have hfi : f.index = ix := by
      rcases hfi with hfi | hfi
      · exact hfi
      · exfalso
        have := hw f.index (hA f hf) (by intro h; rw [h] at hfi; exact Nat.lt_irrefl _ hfi)
        omega
    have hother : ∀ x ∈ fbs, x ≠ f → f.depth < x.depth := by
      intro x hx hne
      have hxi : x.index ≠ ix := by
        intro h
        exact hne (nodup_map_inj (·.index) hND hx hf (h.trans hfi.symm))
      have := hw x.index (hA x hx) hxi
      unfold RField.depth
      rw [hfi]; exact this
    match fbs, hf, hother, hND, hS with
    | [a], hf, _, _, _ =>
      rw [List.mem_singleton.mp hf] at hfi
      exact ⟨a, rfl, hfi⟩
    | a :: b :: t, hf, hother, hND, hS =>
      have hS1 := List.pairwise_cons.mp hS
      have haf : a = f := by
        by_cases h : a = f
        · exact h
        · exfalso
          have h1 := hother a (List.mem_cons_self ..) h
          rcases List.mem_cons.mp hf with rfl | hf'
          · exact h rfl
          · have := hS1.1 f hf'; omega
      subst haf
      have hba : b ≠ a := by
        intro h
        rw [List.map_cons, List.nodup_cons] at hND
        exact hND.1 (List.mem_map.mpr ⟨b, List.mem_cons_self .., by rw [h]⟩)
      have hlt := hother b (List.mem_cons_of_mem _ (List.mem_cons_self ..)) hba
      have hdep : (a.depth != b.depth) = true := by simp; omega
      exact ⟨a, by simp [hdep], hfi⟩

/-! ### The hypothesis `NoDupEmbed` cannot be dropped: the known finding `dup-embed-kept` -/

def emb (n : Bytes) (t : StructId) : FieldDecl := { goName := n, anonymous := true, ty := .struct t }
def leaf (n : Bytes) : FieldDecl := { goName := n }

/-- `type U struct{X int}; type T struct{U; Y int}; type A struct{T}; type B struct{T}; type Root struct{A; B}`
(ids: Root 0, A 1, T 2, U 3, B 4). -/
def dupGraph : Graph :=
  [[emb [0x41] 1, emb [0x42] 4], [emb [0x54] 2], [emb [0x55] 3, leaf [0x59]], [leaf [0x58]], [emb [0x54] 2]]

def optsX : FieldOpts := { name := [0x58] }

theorem dup_all :
    (search dupGraph 0).all = [⟨0, [0, 0, 1], { name := [0x59] }⟩, ⟨1, [1, 0, 1], { name := [0x59] }⟩, ⟨2, [0, 0, 0, 0], optsX⟩] := by
  decide

/-- On `dupGraph` the model (like fields.go) resolves `X` through `Root.A.T.U` without error, although the
documented rule drops it: `Root.B.T.U.X` is another candidate of the same name at the same depth, neither
explicitly named.  (`Y`, a direct field of the duplicated `T`, is correctly dropped.) -/
theorem dup_embed_counterexample :
    (flatten dupGraph 0).err = none ∧
    ∃ f ∈ (flatten dupGraph 0).flattened, f.index = [0, 0, 0, 0] ∧ f.opts = optsX ∧
      ¬ Winner (IsCand dupGraph 0) ⟨f.index, f.opts⟩ := by
  refine ⟨by decide, ?_⟩
  obtain ⟨f, hf, h1, h2⟩ := (flatten_winners dupGraph 0 [0, 0, 0, 0] optsX).mpr
    ⟨⟨2, [0, 0, 0, 0], optsX⟩, by
      refine ⟨⟨by rw [dup_all]; simp, ?_⟩, rfl, rfl⟩
      intro x hx hn hne
      rw [dup_all] at hx
      simp only [List.mem_cons, List.not_mem_nil, or_false] at hx
      rcases hx with rfl | rfl | rfl
      · exact absurd hn (by decide)
      · exact absurd hn (by decide)
      · exact absurd rfl hne⟩
  refine ⟨f, hf, h1, h2, ?_⟩
  rw [h1, h2]
  rintro ⟨_, hw⟩
  have hB : IsCand dupGraph 0 ⟨[1, 0, 0, 0], optsX⟩ := by
    refine ⟨[1, 0, 0], 3, 0, leaf [0x58], ?_, rfl, by decide, rfl⟩
    have r1 : Reach dupGraph 0 ([] ++ [1]) 4 := Reach.step (d := emb [0x42] 4) Reach.root rfl (by decide)
    have r2 : Reach dupGraph 0 (([] ++ [1]) ++ [0]) 2 := Reach.step (d := emb [0x54] 2) r1 rfl (by decide)
    exact Reach.step (d := emb [0x55] 3) r2 rfl (by decide)
  have hb := hw ⟨[1, 0, 0, 0], optsX⟩ hB rfl (by decide)
  unfold Beats at hb
  simp [Cand.depth, Cand.hasName, optsX] at hb

/-! ### The hypotheses of soundness/completeness are satisfiable -/

def tagged (n : Bytes) (nm : Bytes) : FieldDecl := { goName := n, hasTag := true, name := some nm }
/-- `type L struct{V int}; type R struct{W int "json:\"V\""}; type Root struct{L; R}` -/
def tieGraph : Graph := [[emb [0x4C] 1, emb [0x52] 2], [leaf [0x56]], [tagged [0x57] [0x56]]]

theorem tie_fields {s i : Nat} {d : FieldDecl} (h : (tieGraph.fieldsOf s)[i]? = some d) :
    (s = 0 ∧ i = 0 ∧ d = emb [0x4C] 1) ∨ (s = 0 ∧ i = 1 ∧ d = emb [0x52] 2) ∨
    (s = 1 ∧ i = 0 ∧ d = leaf [0x56]) ∨ (s = 2 ∧ i = 0 ∧ d = tagged [0x57] [0x56]) := by
  match s, i with
  | 0, 0 => simp [Graph.fieldsOf, tieGraph] at h; simp [h]
  | 0, 1 => simp [Graph.fieldsOf, tieGraph] at h; simp [h]
  | 0, i + 2 => simp [Graph.fieldsOf, tieGraph] at h
  | 1, 0 => simp [Graph.fieldsOf, tieGraph] at h; simp [h]
  | 1, i + 1 => simp [Graph.fieldsOf, tieGraph] at h
  | 2, 0 => simp [Graph.fieldsOf, tieGraph] at h; simp [h]
  | 2, i + 1 => simp [Graph.fieldsOf, tieGraph] at h
  | s + 3, i => simp [Graph.fieldsOf, tieGraph] at h

theorem tie_reach_root {p : List Nat} {s : StructId} (h : Reach tieGraph 0 p s) (hs : s = 0) : p = [] := by
  cases h with
  | root => rfl
  | step hr hf hk =>
    exfalso
    subst hs
    rcases tie_fields hf with ⟨_, _, rfl⟩ | ⟨_, _, rfl⟩ | ⟨_, _, rfl⟩ | ⟨_, _, rfl⟩ <;> simp [kindOf, emb, leaf, tagged, TypeRef.structId?] at hk

/-- The hypotheses of `flatten_sound` / `flatten_complete` are satisfiable by a graph with a tie broken by an explicit name. -/
example : (flatten tieGraph 0).err = none ∧ NoDupEmbed tieGraph 0 := by
  refine ⟨by decide, ?_⟩
  intro p q s hp hq _ _ ⟨i, d, t, hf, hk⟩
  have hs : s = 0 := by
    rcases tie_fields hf with ⟨h, _, _⟩ | ⟨h, _, _⟩ | ⟨_, _, rfl⟩ | ⟨_, _, rfl⟩
    · exact h
    · exact h
    · simp [kindOf, leaf] at hk
    · simp [kindOf, tagged] at hk
  rw [tie_reach_root hp hs, tie_reach_root hq hs]

/-! ### Lookup -/

/-- An exact (case-sensitive) name match always wins, whatever the flags and whatever else would fold-match. -/
theorem lookup_exact_first (foldRune : Nat → Nat) (fs : List RField) (f : RField) (name : Bytes) (fl : Fold.MatchFlags)
    (hnd : (fs.map (·.name)).Nodup) (hf : f ∈ fs) (hn : f.name = name) :
    lookup foldRune fs name fl = .found f := by
  unfold lookup
  rw [find_exact fs f name hnd hf hn]

example : ∃ (fs : List RField) (f : RField) (name : Bytes), (fs.map (·.name)).Nodup ∧ f ∈ fs ∧ f.name = name :=
  ⟨[⟨0, [0], { name := [0x61] }⟩, ⟨1, [1], { name := [0x41] }⟩], ⟨1, [1], { name := [0x41] }⟩, [0x41], by decide, by simp, rfl⟩

/-- Without an exact match the lookup is decided by the list `ms` of fields whose folded name equals the folded
member name and that `matchFoldedName` under the flags, in ascending (breadth-first) id order:
none ⇒ unknown; several ⇒ ambiguous unless the legacy flag; otherwise the first one. -/
theorem lookup_spec (foldRune : Nat → Nat) (fs : List RField) (name : Bytes) (fl : Fold.MatchFlags)
    (hno : ∀ f ∈ fs, f.name ≠ name) :
    (∀ x, x ∈ matching foldRune fs name fl ↔
        x ∈ fs ∧ Fold.foldName foldRune x.name = Fold.foldName foldRune name ∧
        Fold.matchFoldedName foldRune x.name x.opts.casing name fl = true) ∧
    (matching foldRune fs name fl).Pairwise (fun a b => a.id ≤ b.id) ∧
    (lookup foldRune fs name fl = .unknown ↔ matching foldRune fs name fl = []) ∧
    (lookup foldRune fs name fl = .ambiguous ↔ 2 ≤ (matching foldRune fs name fl).length ∧ fl.legacyErrors = false) ∧
    (∀ f, lookup foldRune fs name fl = .found f ↔
        (matching foldRune fs name fl).head? = some f ∧ ((matching foldRune fs name fl).length = 1 ∨ fl.legacyErrors = true)) := by
  have hfind : fs.find? (fun f => f.name == name) = none := by
    rw [List.find?_eq_none]
    intro x hx
    simpa using hno x hx
  refine ⟨mem_matching foldRune fs name fl, matching_sorted foldRune fs name fl, ?_⟩
  rw [lookup_of_no_exact foldRune fs name fl hfind]
  cases hl : fl.legacyErrors <;> rcases matching foldRune fs name fl with _ | ⟨a, _ | ⟨b, t⟩⟩ <;> simp

example : ∃ (fs : List RField) (name : Bytes), ∀ f ∈ fs, f.name ≠ name :=
  ⟨[⟨0, [0], { name := [0x61] }⟩], [0x41], by simp [RField.name]⟩

/-! ### Folding -/

/-- On ASCII names, two names have the same folded form iff they are equal after deleting `_` and `-`
and folding ASCII case; `foldRune` (i.e. `unicode.SimpleFold`) plays no role. -/
theorem fold_ascii (foldRune : Nat → Nat) (x y : Bytes) (hx : IsAscii x) (hy : IsAscii y) :
    Fold.foldName foldRune x = Fold.foldName foldRune y ↔ normAscii x = normAscii y :=
  foldName_eq_iff_norm foldRune x y hx hy

example : IsAscii [0x61, 0x5F, 0x42] ∧ IsAscii [0x41, 0x2D, 0x62] ∧ normAscii [0x61, 0x5F, 0x42] = normAscii [0x41, 0x2D, 0x62] := by
  refine ⟨?_, ?_, by decide⟩ <;>
  · intro c hc
    simp only [List.mem_cons, List.not_mem_nil, or_false] at hc
    rcases hc with rfl | rfl | rfl <;> decide

/-- The folded form of an ASCII name is a normal form: ASCII only, no `_`/`-`, no lower-case letter — so the keys of
`byFoldedName` (fields.go) never contain a delimiter or a lower-case ASCII letter. -/
theorem fold_normal_form (foldRune : Nat → Nat) (x : Bytes) (hx : IsAscii x) :
    ∀ c ∈ Fold.foldName foldRune x,
      c.toNat < 0x80 ∧ Fold.isDelim c = false ∧ ¬ (0x61 ≤ c.toNat ∧ c.toNat ≤ 0x7A) :=
  foldName_ascii_shape foldRune x hx

/-- Folding is idempotent on ASCII names: looking up an already folded name finds the same `byFoldedName` bucket. -/
theorem fold_idem_ascii (foldRune : Nat → Nat) (x : Bytes) (hx : IsAscii x) :
    Fold.foldName foldRune (Fold.foldName foldRune x) = Fold.foldName foldRune x :=
  foldName_idem_ascii foldRune x hx

example : IsAscii [0x61, 0x5F, 0x42] ∧ Fold.foldName id [0x61, 0x5F, 0x42] = [0x41, 0x42] := by
  refine ⟨?_, by simp [Fold.foldName, Fold.isDelim, Fold.upperAscii, Utf8.runeSelf]⟩
  intro c hc
  simp only [List.mem_cons, List.not_mem_nil, or_false] at hc
  rcases hc with rfl | rfl | rfl <;> decide

/-- "Ignoring '_' and '-'" and "ignoring case", literally: inserting a delimiter anywhere, or changing the ASCII case
of any byte, does not change the folded form (whatever `unicode.SimpleFold` does on the non-ASCII remainder is
irrelevant because both sides are ASCII). -/
theorem fold_ignores_delims_and_case (foldRune : Nat → Nat) (x y : Bytes) (d c : UInt8)
    (hx : IsAscii x) (hy : IsAscii y) (hd : Fold.isDelim d = true) (hc : c.toNat < 0x80) :
    Fold.foldName foldRune (x ++ d :: y) = Fold.foldName foldRune (x ++ y) ∧
    Fold.foldName foldRune (x ++ Fold.upperAscii c :: y) = Fold.foldName foldRune (x ++ c :: y) := by
  have hdA : d.toNat < 0x80 := by
    unfold Fold.isDelim at hd
    simp only [Bool.or_eq_true, beq_iff_eq] at hd
    omega
  have hA : ∀ (m : List UInt8), IsAscii m → IsAscii (x ++ m) := by
    intro m hm b hb
    rcases List.mem_append.mp hb with h | h
    · exact hx b h
    · exact hm b h
  have hcons : ∀ (b : UInt8), b.toNat < 0x80 → IsAscii (b :: y) := by
    intro b hb a ha
    rcases List.mem_cons.mp ha with rfl | h
    · exact hb
    · exact hy a h
  constructor
  · rw [foldName_ascii foldRune _ (hA _ (hcons d hdA)), foldName_ascii foldRune _ (hA _ hy)]
    simp [List.filter_append, hd]
  · rw [foldName_ascii foldRune _ (hA _ (hcons _ (upperAscii_lt c hc))), foldName_ascii foldRune _ (hA _ (hcons c hc))]
    simp [List.filter_append, List.filter_cons, isDelim_upperAscii]
    cases hdc : Fold.isDelim c <;> simp [upperAscii_idem]

example : Fold.isDelim 0x2D = true ∧ (0x7A : UInt8).toNat < 0x80 := by decide

/-- `strings.EqualFold` as modelled (rune-wise equality under `foldRune`) is an equivalence relation, so the
`MatchCaseSensitiveDelimiter` filter of `matchFoldedName` partitions the candidates. -/
theorem equalFold_equiv (foldRune : Nat → Nat) :
    (∀ s, Fold.equalFold foldRune s s = true) ∧
    (∀ s t, Fold.equalFold foldRune s t = Fold.equalFold foldRune t s) ∧
    (∀ s t u, Fold.equalFold foldRune s t = true → Fold.equalFold foldRune t u = true → Fold.equalFold foldRune s u = true) :=
  ⟨equalFold_refl foldRune, equalFold_symm foldRune, equalFold_trans foldRune⟩

/-- Case-insensitive matching is requested per field (`case:ignore`) or per call (`MatchCaseInsensitiveNames`,
unless the field says `case:strict`); `MatchCaseSensitiveDelimiter` additionally demands `strings.EqualFold`. -/
theorem match_spec (foldRune : Nat → Nat) (fieldName : Bytes) (casing : Nat) (name : Bytes) (fl : Fold.MatchFlags) :
    Fold.matchFoldedName foldRune fieldName casing name fl = true ↔
      (casing = Fold.caseIgnore ∨ (fl.caseInsensitive = true ∧ casing ≠ Fold.caseStrict)) ∧
      (fl.caseSensitiveDelim = false ∨ Fold.equalFold foldRune name fieldName = true) := by
  unfold Fold.matchFoldedName
  by_cases h1 : casing = Fold.caseIgnore <;> by_cases h2 : casing = Fold.caseStrict <;>
    cases fl.caseInsensitive <;> cases fl.caseSensitiveDelim <;> simp [h1, h2]

/-! ### Omission -/

/-- A member is left out exactly when: (`omitzero` on the field or `OmitZeroStructFields`) and the value is zero;
or `omitempty` on the field and the value is empty in the sense selected by `OmitEmptyWithLegacySemantics`. -/
theorem omit_spec (o : FieldOpts) (omitZeroStructFields omitEmptyLegacy zero legacyEmpty jsonEmpty : Bool) :
    omitted o omitZeroStructFields omitEmptyLegacy zero legacyEmpty jsonEmpty = true ↔
      ((o.omitzero = true ∨ omitZeroStructFields = true) ∧ zero = true) ∨
      (o.omitempty = true ∧ ((omitEmptyLegacy = true ∧ legacyEmpty = true) ∨ (omitEmptyLegacy = false ∧ jsonEmpty = true))) := by
  unfold omitted
  cases o.omitzero <;> cases o.omitempty <;> cases omitZeroStructFields <;> cases omitEmptyLegacy <;>
    cases zero <;> cases legacyEmpty <;> cases jsonEmpty <;> simp

/-- The zero test behind `omitzero`: the type's `IsZero` method when the field's static type (or its pointer) has
one — with nil interfaces, nil pointers and interfaces holding nil pointers counting as zero — and the zero Go
value otherwise. -/
theorem zero_spec (k : ZeroKind) (isNil elemNilPtr methodZero goZero : Bool) :
    fieldIsZero k isNil elemNilPtr methodZero goZero = true ↔
      (k = .none ∧ goZero = true) ∨
      (k ≠ .none ∧ (methodZero = true ∨ (k = .iface ∧ (isNil = true ∨ elemNilPtr = true)) ∨ (k = .ptr ∧ isNil = true))) := by
  cases k <;> cases isNil <;> cases elemNilPtr <;> cases methodZero <;> cases goZero <;> simp [fieldIsZero]

/-- `OmitZeroStructFields` is equivalent to tagging the field `omitzero`: same zero test (method included),
same decision, for every kind of field and every value. -/
theorem omitZeroStructFields_equiv (o : FieldOpts) (omitEmptyLegacy : Bool) (k : ZeroKind)
    (isNil elemNilPtr methodZero goZero legacyEmpty jsonEmpty : Bool) :
    omittedZ o true omitEmptyLegacy k isNil elemNilPtr methodZero goZero legacyEmpty jsonEmpty =
    omittedZ { o with omitzero := true } false omitEmptyLegacy k isNil elemNilPtr methodZero goZero legacyEmpty jsonEmpty := by
  unfold omittedZ omitted
  cases o.omitzero <;> simp

/-- The fuel of the `NeedEscape` loop model (number of bytes) suffices: any larger fuel gives the same answer. -/
theorem needEscape_fuel_suffices (fuel : Nat) (b : Bytes) (h : b.length ≤ fuel) : needEscapeAux fuel b = needEscape b :=
  needEscape_fuel fuel b h

/-- Unknown members: captured by the fallback if there is one, else rejected iff `RejectUnknownMembers`. -/
theorem unknown_spec (hasFallback rejectUnknown : Bool) :
    (unknownAction hasFallback rejectUnknown = .toFallback ↔ hasFallback = true) ∧
    (unknownAction hasFallback rejectUnknown = .reject ↔ hasFallback = false ∧ rejectUnknown = true) ∧
    (unknownAction hasFallback rejectUnknown = .skip ↔ hasFallback = false ∧ rejectUnknown = false) := by
  cases hasFallback <;> cases rejectUnknown <;> simp [unknownAction]

end JsonV.Props.C15
