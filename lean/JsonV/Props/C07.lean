/-
C07 — Encoded bytes do not depend on buffering, flushing or the writer.

Property theorems only (proofs in Lemmas/Flush*.lean, models in Model/Flush.lean).
Model: `Enc` = (delivered, buf, Tokens.Last, Tokens.Stack, OmitTopLevelNewline); every call is followed by a flush
opportunity whose capacity test is an adversarial Bool (`Sched.want`) and whose Write call is an adversarial
`WAct` (accept all | accept n bytes and fail).
-/
import JsonV.Lemmas.FlushFull
import JsonV.Lemmas.FlushDetect
import JsonV.Gen.Constants
import JsonV.Gen.Lits

namespace JsonV.Props.C07
open JsonV JsonV.Model.Flush

/-! ### Tie A: the buffer constants that the harness sweeps (regenerated from encode.go on every run) -/

theorem buffer_constants :
    JsonV.Gen.jsontext.c_encoderState_Flush_maxBufferSize = 4096 ∧
    JsonV.Gen.jsontext.c_encoderState_Flush_growthSizeFactor = 2 ∧
    JsonV.Gen.jsontext.c_encoderState_Flush_growthRateFactor = 2 := by decide

/-- Tie A: the hand-modelled suffix list of avoidFlush is the list of string literals of the Go function
(`ll`, `""`, `{}`, `[]`, in source order), and its integer literals are the `== 0` and `>= 2` / `len-2` of the source. -/
theorem tie_avoidFlush_suffixes :
    emptySuffixes.map (fun s => [s.1.toNat, s.2.1.toNat]) = JsonV.Gen.jsontext_encoderState_avoidFlush_strs ∧
    JsonV.Gen.jsontext_encoderState_avoidFlush_ints = [0, 2, 2] := by decide

/-- The model's avoidFlush / UnwriteEmptyObjectMember tests are exactly look-ups in that table. -/
theorem endsEmptyR_table (x y : UInt8) (r : List UInt8) :
    endsEmptyR (x :: y :: r) = emptySuffixes.any (fun s => y == s.1 && x == s.2.1) := by
  simp [endsEmptyR, emptySuffixes, Bool.or_assoc]

theorem emptyLenR_table (x y z : UInt8) (r : List UInt8) :
    emptyLenR (x :: y :: z :: r) =
      match emptySuffixes.find? (fun s => y == s.1 && x == s.2.1) with
      | some s => if s.1 = 0x22 ∧ z = 0x5c then 0 else s.2.2
      | none => 0 := by
  simp only [emptyLenR, emptySuffixes, List.find?]
  by_cases h1 : (y == 0x6c && x == 0x6c) = true
  · simp [h1]
  · by_cases h2 : (y == 0x22 && x == 0x22) = true
    · simp [h1, h2]
    · by_cases h3 : (y == 0x7b && x == 0x7d) = true
      · simp [h1, h2, h3]
      · by_cases h4 : (y == 0x5b && x == 0x5d) = true
        · simp [h1, h2, h3, h4]
        · simp [h1, h2, h3, h4]

/-- Tie A: the string literals of UnwriteEmptyObjectMember after the panic message, in source order:
`ll` `null` | `""` `\` `""` | `{}` `{}` | `[]` `[]` | `:` | `,` — each case label is a table suffix, followed by the
literal whose length is the table's byte count (with the `\` test inside the `""` case), then the colon and comma that
TrimSuffixByte removes; the integer literals are n=0, `len(b) >= 3`, `len-2`, `len-3`, `n == 0`. -/
theorem tie_unwrite_literals :
    JsonV.Gen.jsontext_encoderState_UnwriteEmptyObjectMember_strs.tail =
      [[0x6c, 0x6c], [0x6e, 0x75, 0x6c, 0x6c], [0x22, 0x22], [0x5c], [0x22, 0x22], [0x7b, 0x7d], [0x7b, 0x7d],
       [0x5b, 0x5d], [0x5b, 0x5d], [0x3a], [0x2c]] ∧
    JsonV.Gen.jsontext_encoderState_UnwriteEmptyObjectMember_ints = [0, 3, 2, 3, 0] ∧
    (emptySuffixes.map (fun s => s.2.2) = [[0x6e, 0x75, 0x6c, 0x6c], [0x22, 0x22], [0x7b, 0x7d], [0x5b, 0x5d]].map List.length) := by
  decide

/-! ### wire.go: TrimSuffixWhitespace / TrimSuffixByte / HasSuffixByte / TrimSuffixString -/

/-- TrimSuffixWhitespace, for every input: what is removed is whitespace only, and what remains does not end in
whitespace (this determines the result uniquely). -/
theorem trim_ws_spec (b : Bytes) :
    ∃ ws, WsOnly ws ∧ b = trimSuffixWhitespace b ++ ws ∧
      ∀ c, (trimSuffixWhitespace b).getLast? = some c → isWs c = false := by
  obtain ⟨wsr, hws, e⟩ := trimWsR_decomp b.reverse
  refine ⟨wsr.reverse, fun c hc => hws c (List.mem_reverse.mp hc), ?_, ?_⟩
  · have := congrArg List.reverse e
    simpa [trimSuffixWhitespace] using this
  · intro c hc
    refine trimWsR_head b.reverse c ?_
    simpa [trimSuffixWhitespace] using hc

/-- … in the form used by the encoder: trailing whitespace after a non-whitespace byte is removed exactly. -/
theorem trim_ws_append (p ws : Bytes) (hws : WsOnly ws) (hp : ∀ c, p.getLast? = some c → isWs c = false) :
    trimSuffixWhitespace (p ++ ws) = p := by
  have h' : ∀ c ∈ ws.reverse, isWs c = true := fun c hc => hws c (List.mem_reverse.mp hc)
  unfold trimSuffixWhitespace
  rw [List.reverse_append, trimWsR_append h']
  cases hr : p.reverse with
  | nil => have : p = [] := by simpa using hr
           simp [this]
  | cons a r =>
    have ha : isWs a = false := hp a (by rw [← List.head?_reverse, hr]; rfl)
    rw [trimWsR_cons_of_not_ws ha, ← hr, List.reverse_reverse]

example : trimSuffixWhitespace [0x7b, 0x20, 0x0a, 0x09] = [0x7b] := by decide

/-- TrimSuffixByte removes exactly one trailing `c`, and nothing else. -/
theorem trim_byte_spec (p : Bytes) (c : UInt8) :
    trimSuffixByte (p ++ [c]) c = p ∧
    (∀ b : Bytes, (∀ q, b ≠ q ++ [c]) → trimSuffixByte b c = b) := by
  refine ⟨by simp [trimSuffixByte], ?_⟩
  intro b hb
  unfold trimSuffixByte
  cases hr : b.reverse with
  | nil => have : b = [] := by simpa using hr
           simp [this]
  | cons a r =>
    have hne : a ≠ c := by
      intro e
      refine hb r.reverse ?_
      have := congrArg List.reverse hr
      simpa [e] using this
    rw [trimByteR_cons_ne hne, ← hr, List.reverse_reverse]

/-- HasSuffixByte b c ⇔ b ends in c. -/
theorem has_suffix_spec (b : Bytes) (c : UInt8) : hasSuffixByte b c = true ↔ ∃ p, b = p ++ [c] := by
  unfold hasSuffixByte
  cases hr : b.reverse with
  | nil =>
    have : b = [] := by simpa using hr
    simp [this]
  | cons a r =>
    have hb : b = r.reverse ++ [a] := by
      have := congrArg List.reverse hr
      simpa using this
    constructor
    · intro h; exact ⟨r.reverse, by simpa [beq_iff_eq.mp h] using hb⟩
    · rintro ⟨p, hp⟩
      rw [hb] at hp
      have := List.append_inj_right' hp rfl
      simpa using this

/-- TrimSuffixString removes exactly a trailing string literal: for every prefix `p` that does not end in a
backslash and every body in which each `"` is preceded by a backslash,
`TrimSuffixString(p ++ '"' ++ body ++ '"') = p`. -/
theorem trim_string_spec (p body : Bytes) (hb : QuotesEscaped body) (hp : p.getLast? ≠ some 0x5c) :
    trimSuffixString (p ++ (0x22 :: body ++ [0x22])) = p := by
  have hesc : EscR body.reverse := escR_of_quotesEscaped body.reverse (by simpa using hb)
  have hp' : p.reverse.head? ≠ some 0x5c := by rwa [List.head?_reverse]
  have hrev : (p ++ (0x22 :: body ++ [0x22])).reverse = 0x22 :: (body.reverse ++ 0x22 :: p.reverse) := by
    simp [List.reverse_append]
  unfold trimSuffixString
  rw [hrev, trimStringR_spec _ _ hesc hp', List.reverse_reverse]

/-- Every JSON string body (unescaped bytes other than `"` and `\`, or `\` followed by any byte) satisfies the
hypothesis of `trim_string_spec`. -/
theorem strBody_quotesEscaped (body : Bytes) (h : StrBody body) : QuotesEscaped body := h.quotesEscaped

-- the hypotheses are satisfiable, also with escaped quotes and escaped backslashes before the closing quote:
-- `{"a\"\\"`  ↦  `{`
example : trimSuffixString ([0x7b] ++ (0x22 :: [0x61, 0x5c, 0x22, 0x5c, 0x5c] ++ [0x22])) = [0x7b] :=
  trim_string_spec [0x7b] [0x61, 0x5c, 0x22, 0x5c, 0x5c]
    (StrBody.plain _ _ (by decide) (by decide) (StrBody.esc _ _ (StrBody.esc _ _ StrBody.nil))).quotesEscaped (by decide)

/-! ### flushing and the writer do not change the stream (token calls) -/

/-- The same calls under the fault-free writer (flush decisions unchanged). -/
def faultFree (l : List (Op × Sched)) : List (Op × Sched) := l.map (fun p => (p.1, ⟨p.2.want, .ok⟩))

/-- `flush_indep`: for every sequence of WriteToken/WriteValue/AppendRaw calls (accepted or rejected), every two
schedules of flush decisions and writer behaviours give the same `delivered ++ buf` and the same token state. -/
theorem flush_indep (omitNL : Bool) (l₁ l₂ : List (Op × Sched)) (ht : tokOnly l₁)
    (hops : l₁.map Prod.fst = l₂.map Prod.fst) :
    (run { omitNL := omitNL } l₁).total = (run { omitNL := omitNL } l₂).total ∧
    (run { omitNL := omitNL } l₁).last = (run { omitNL := omitNL } l₂).last ∧
    (run { omitNL := omitNL } l₁).stack = (run { omitNL := omitNL } l₂).stack := by
  have := run_tok_sim l₁ l₂ _ _ (Sim.refl { omitNL := omitNL }) rfl ht hops
  exact ⟨this.total, this.last, this.stack⟩

/-- `short_write_nothing_lost`: under every schedule of short writes and write errors, what the writer accepted
followed by what is still buffered is the fault-free stream; nothing is lost or duplicated, and every call was
accepted or rejected exactly as in the fault-free run (same token state). -/
theorem short_write_nothing_lost (omitNL : Bool) (l : List (Op × Sched)) (ht : tokOnly l) :
    (run { omitNL := omitNL } l).delivered ++ (run { omitNL := omitNL } l).buf =
      (run { omitNL := omitNL } (faultFree l)).total ∧
    (run { omitNL := omitNL } l).last = (run { omitNL := omitNL } (faultFree l)).last ∧
    (run { omitNL := omitNL } l).stack = (run { omitNL := omitNL } (faultFree l)).stack :=
  flush_indep omitNL l (faultFree l) ht (by simp [faultFree, Function.comp_def])

/-- `marshalWrite_prefix`: at every moment (in particular when a call returns the write error) what the writer has
accepted is a prefix of the fault-free stream. -/
theorem marshalWrite_prefix (omitNL : Bool) (l : List (Op × Sched)) (ht : tokOnly l) :
    (run { omitNL := omitNL } l).delivered <+: (run { omitNL := omitNL } (faultFree l)).total := by
  rw [← (short_write_nothing_lost omitNL l ht).1]
  exact List.prefix_append _ _

/-- What the writer accepted never shrinks or changes afterwards (all calls, including the unwrite calls). -/
theorem delivered_monotone (e : Enc) (l : List (Op × Sched)) : e.delivered <+: (run e l).delivered :=
  run_delivered_prefix l e

/-- With a writer that accepts everything, a call that completes a top-level value leaves nothing buffered. -/
theorem faultfree_top_level_flushes_all (e e' : Enc) (t : Tok) (ws : Bytes) (want : Bool)
    (hb : bottomIsObj e.last e.stack = false) (hw : write e t ws = some e') (htop : e'.stack = [])
    (hlen : e'.last.len ≠ 0) : (step e (.tok t ws) ⟨want, .ok⟩).buf = [] := by
  have hb' := nextFrames_bottom (write_some hw).2.1 hb
  have hav : avoidFlush e' = false := by rw [avoidFlush_top hb' htop]; simpa using hlen
  simp [step, hw, htop, flush_ok_buf hav]

-- hypotheses satisfiable: the top-level value `null` written by an Encoder (newline appended, all delivered)
example : (step {} (.tok (.scalar [0x6e, 0x75, 0x6c, 0x6c]) []) ⟨false, .ok⟩) =
    { delivered := [0x6e, 0x75, 0x6c, 0x6c, 0x0a], buf := [], last := ⟨false, 1⟩ } := by decide

-- a non-trivial instance of flush_indep: `{"a":1}` with a flush forced after every token and a writer that
-- accepts one byte per call and fails, versus no flush until the end
example :
    let ops : List Op := [.tok .openObj [], .tok (.str [0x61]) [], .tok (.scalar [0x31]) [], .tok .closeObj []]
    (run {} (ops.map (fun o => (o, ⟨true, .fail 1⟩)))).total = (run {} (ops.map (fun o => (o, ⟨false, .ok⟩)))).total ∧
    (run {} (ops.map (fun o => (o, ⟨true, .fail 1⟩)))).delivered = [0x7b, 0x22] := by decide

/-! ### avoidFlush keeps retractable bytes in the buffer -/

/-- The invariant holds after every sequence of token calls, whatever was flushed and whatever the writer did. -/
theorem inv_run (omitNL : Bool) : ∀ (l : List (Op × Sched)), tokOnly l → Inv (run { omitNL := omitNL } l) := by
  suffices h : ∀ (l : List (Op × Sched)) (e : Enc), Inv e → tokOnly l → Inv (run e l) from
    fun l ht => h l _ (inv_init omitNL) ht
  intro l
  induction l with
  | nil => intro e he _; exact he
  | cons p r ih =>
    intro e he ht
    obtain ⟨op, s⟩ := p
    cases op with
    | tok t ws => exact ih _ (inv_step_tok he t ws s) (by simpa [tokOnly] using ht)
    | unwriteEmpty => simp [tokOnly] at ht
    | unwriteName => simp [tokOnly] at ht

/-- The omitempty slow path (arshal_default.go:1180-1243) for a member whose value is one of the four empty
encodings: write the name, write the value (`null`, `""`, `{` `}` or `[` `]`), call UnwriteEmptyObjectMember;
each call with its own arbitrary flush decision and writer behaviour, arbitrary whitespace before name and value. -/
inductive EmptyCycle : List (Op × Sched) → Prop
  | null (name ws1 ws2 : Bytes) (s₁ s₂ s₃ : Sched) : QuotesEscaped name → WsOnly ws1 → WsOnly ws2 →
      EmptyCycle [(.tok (.str name) ws1, s₁), (.tok (.scalar [0x6e, 0x75, 0x6c, 0x6c]) ws2, s₂), (.unwriteEmpty, s₃)]
  | str (name ws1 ws2 : Bytes) (s₁ s₂ s₃ : Sched) : QuotesEscaped name → WsOnly ws1 → WsOnly ws2 →
      EmptyCycle [(.tok (.str name) ws1, s₁), (.tok (.str []) ws2, s₂), (.unwriteEmpty, s₃)]
  | obj (name ws1 ws2 : Bytes) (s₁ s₂ s₃ s₄ : Sched) : QuotesEscaped name → WsOnly ws1 → WsOnly ws2 →
      EmptyCycle [(.tok (.str name) ws1, s₁), (.tok .openObj ws2, s₂), (.tok .closeObj [], s₃), (.unwriteEmpty, s₄)]
  | arr (name ws1 ws2 : Bytes) (s₁ s₂ s₃ s₄ : Sched) : QuotesEscaped name → WsOnly ws1 → WsOnly ws2 →
      EmptyCycle [(.tok (.str name) ws1, s₁), (.tok .openArr ws2, s₂), (.tok .closeArr [], s₃), (.unwriteEmpty, s₄)]

/-- `unwrite_local`: in every state that satisfies the invariant (`inv_run`: every state reached by token calls
under any flush/writer schedule) and expects a member name, the omitempty cycle ends in EXACTLY the state it
started from: every flush opportunity inside the cycle is suppressed by avoidFlush, the bytes that
UnwriteEmptyObjectMember removes (comma, whitespace, name, colon, whitespace, value) are all still in `buf`,
`delivered` is untouched and `buf` is restored byte for byte. -/
theorem unwrite_local (s : Enc) (hinv : Inv s) (hobj : s.last.isObj = true) (hname : s.last.needName = true)
    (l : List (Op × Sched)) (hl : EmptyCycle l) : run s l = s := by
  obtain ⟨dl, bf, ⟨io, k⟩, st, nl⟩ := s
  simp only at hobj; subst hobj
  have hk : k % 2 = 0 := by simpa [Frame.needName] using hname
  have hst : st ≠ [] := by
    intro e; have := hinv.bottom; simp [e, bottomIsObj] at this
  have hsep : ∀ name, MemberSep bf (delim ⟨true, k⟩ st (.str name)) := by
    intro name
    rw [delim_name k st hk hst]
    by_cases h0 : k = 0
    · obtain ⟨b, o, hb, ho⟩ := hinv.opened h0 hst
      simp only [h0, if_true]
      simp only at hb
      rw [hb]; exact MemberSep.first b o ho.1 ho.2.1 ho.2.2
    · simp only [h0, if_false]; exact MemberSep.comma bf
  cases hl with
  | null name ws1 ws2 s₁ s₂ s₃ hn h1 h2 =>
    have e1 := step_name dl bf k st nl hk name ws1 s₁
    have e2 := (step_scalar_value dl (bf ++ delim ⟨true, k⟩ st (.str name) ++ ws1 ++ (0x22 :: name ++ [0x22])) k st nl hk
      (.scalar [0x6e, 0x75, 0x6c, 0x6c]) (Or.inl rfl) ws2 s₂).1
    have e3 := unwrite_after_member dl bf k st nl hk _ ws1 name ws2 (Tok.scalar [0x6e, 0x75, 0x6c, 0x6c]).text
      h2 h1 hn (hsep name) EmptyText.null
    simp only [run]
    rw [e1, e2]
    simp only [step]
    rw [e3]
  | str name ws1 ws2 s₁ s₂ s₃ hn h1 h2 =>
    have e1 := step_name dl bf k st nl hk name ws1 s₁
    have e2 := (step_scalar_value dl (bf ++ delim ⟨true, k⟩ st (.str name) ++ ws1 ++ (0x22 :: name ++ [0x22])) k st nl hk
      (.str []) (Or.inr rfl) ws2 s₂).1
    have e3 := unwrite_after_member dl bf k st nl hk _ ws1 name ws2 (Tok.str []).text
      h2 h1 hn (hsep name) EmptyText.str
    simp only [run]
    rw [e1, e2]
    simp only [step]
    rw [e3]
  | obj name ws1 ws2 s₁ s₂ s₃ s₄ hn h1 h2 =>
    have e1 := step_name dl bf k st nl hk name ws1 s₁
    have e2 : step (step ⟨dl, bf ++ delim ⟨true, k⟩ st (.str name) ++ ws1 ++ (0x22 :: name ++ [0x22]), ⟨true, k + 1⟩, st, nl⟩
          (.tok .openObj ws2) s₂) (.tok .closeObj []) s₃ =
        ⟨dl, bf ++ delim ⟨true, k⟩ st (.str name) ++ ws1 ++ (0x22 :: name ++ [0x22]) ++ [0x3a] ++ ws2 ++ [0x7b, 0x7d],
          ⟨true, k + 2⟩, st, nl⟩ :=
      (step_compound_value dl _ k st nl hk true ws2 s₂ s₃).1
    have e3 := unwrite_after_member dl bf k st nl hk _ ws1 name ws2 [0x7b, 0x7d] h2 h1 hn (hsep name) EmptyText.obj
    simp only [run]
    rw [e1, e2]
    simp only [step]
    rw [e3]
  | arr name ws1 ws2 s₁ s₂ s₃ s₄ hn h1 h2 =>
    have e1 := step_name dl bf k st nl hk name ws1 s₁
    have e2 : step (step ⟨dl, bf ++ delim ⟨true, k⟩ st (.str name) ++ ws1 ++ (0x22 :: name ++ [0x22]), ⟨true, k + 1⟩, st, nl⟩
          (.tok .openArr ws2) s₂) (.tok .closeArr []) s₃ =
        ⟨dl, bf ++ delim ⟨true, k⟩ st (.str name) ++ ws1 ++ (0x22 :: name ++ [0x22]) ++ [0x3a] ++ ws2 ++ [0x5b, 0x5d],
          ⟨true, k + 2⟩, st, nl⟩ :=
      (step_compound_value dl _ k st nl hk false ws2 s₂ s₃).1
    have e3 := unwrite_after_member dl bf k st nl hk _ ws1 name ws2 [0x5b, 0x5d] h2 h1 hn (hsep name) EmptyText.arr
    simp only [run]
    rw [e1, e2]
    simp only [step]
    rw [e3]

-- hypotheses satisfiable and the statement non-trivial: after `{"a":1` has been flushed (buffer empty, the writer
-- has everything) the member `,"b":[]` is written with a flush wanted after every token and then retracted
example :
    let s := run {} [(.tok .openObj [], ⟨false, .ok⟩), (.tok (.str [0x61]) [], ⟨false, .ok⟩), (.tok (.scalar [0x31]) [], ⟨true, .ok⟩)]
    s.buf = [] ∧ s.delivered = [0x7b, 0x22, 0x61, 0x22, 0x3a, 0x31] ∧
    run s [(.tok (.str [0x62]) [], ⟨true, .ok⟩), (.tok .openArr [], ⟨true, .ok⟩), (.tok .closeArr [], ⟨true, .ok⟩), (.unwriteEmpty, ⟨true, .ok⟩)] = s := by
  decide

/-- The same for UnwriteOnlyObjectMemberName (Deterministic maps with non-string keys, arshal_default.go:918-931):
writing the first name of an object and unwriting it restores the state exactly. -/
theorem unwrite_name_local (s : Enc) (hinv : Inv s) (hobj : s.last = ⟨true, 0⟩)
    (name ws1 : Bytes) (hn : QuotesEscaped name) (h1 : WsOnly ws1) (s₁ s₂ : Sched) :
    run s [(.tok (.str name) ws1, s₁), (.unwriteName, s₂)] = s := by
  obtain ⟨dl, bf, lst, st, nl⟩ := s
  simp only at hobj; subst hobj
  have hst : st ≠ [] := by
    intro e; have := hinv.bottom; simp [e, bottomIsObj] at this
  obtain ⟨b, o, hb, ho⟩ := hinv.opened rfl hst
  simp only at hb; subst hb
  simp only [run]
  rw [step_name dl _ 0 st nl rfl, delim_name 0 st rfl hst]
  have := unwriteNameBytes_first b o ws1 name ho.1 ho.2.2 h1 hn
  simp only [if_true, List.append_nil] at this ⊢
  simp at this
  simp [step, unwriteName, this]

/-- UnwriteEmptyObjectMember reports true on each of the four empty encodings (one direction of `empty_detect`). -/
theorem empty_detect_partial (pre sep ws1 name ws2 val : Bytes) (h2 : WsOnly ws2) (h1 : WsOnly ws1)
    (hn : QuotesEscaped name) (hs : MemberSep pre sep) (hv : EmptyText val) :
    unwriteEmptyBytes (pre ++ sep ++ ws1 ++ (0x22 :: name ++ [0x22]) ++ [0x3a] ++ ws2 ++ val) = some (pre, true) :=
  unwriteEmptyBytes_member pre sep ws1 name ws2 val h2 h1 hn hs hv

-- a string value that merely ends in `""` because its last character is an escaped quote is not retracted
example : unwriteEmptyBytes [0x7b, 0x22, 0x61, 0x22, 0x3a, 0x22, 0x5c, 0x22, 0x22] =
    some ([0x7b, 0x22, 0x61, 0x22, 0x3a, 0x22, 0x5c, 0x22, 0x22], false) := by decide

/-! ### flush independence with retractions at arbitrary positions

`runD` is `run` under the calling discipline of arshal_default.go (Model/Flush.lean `stepD`): a call of
UnwriteEmptyObjectMember is performed only directly after the accepted call that completed a member value.  All
other features are unrestricted: the call may follow empty AND non-empty values (then it is a no-op), the value may
be a container whose own members were retracted before (`"E":{` … `}` then `"E":{}` itself, to any depth),
UnwriteOnlyObjectMemberName may be called at any moment, token calls may be rejected, and every call has its own
adversarial flush decision and writer behaviour.  `SaneCall`: whitespace arguments are whitespace, string bodies have
their quotes escaped, a literal/number is `null` or ends in a byte other than `l " { } [ ]`. -/

/-- `flush_indep_full`: for every disciplined call sequence and every two schedules, `delivered ++ buf` and the token
state are the same — an unwrite never needs bytes that were already delivered. -/
theorem flush_indep_full (omitNL : Bool) (l₁ l₂ : List (Op × Sched)) (hops : l₁.map Prod.fst = l₂.map Prod.fst)
    (hsane : ∀ p ∈ l₁, SaneCall p.1) :
    (runD ({ omitNL := omitNL }, false) l₁).1.total = (runD ({ omitNL := omitNL }, false) l₂).1.total ∧
    (runD ({ omitNL := omitNL }, false) l₁).1.last = (runD ({ omitNL := omitNL }, false) l₂).1.last ∧
    (runD ({ omitNL := omitNL }, false) l₁).1.stack = (runD ({ omitNL := omitNL }, false) l₂).1.stack := by
  have := (runD_sim l₁ l₂ _ _ (simD_init omitNL) hops hsane).sim
  exact ⟨this.total, this.last, this.stack⟩

/-- `short_write_nothing_lost`, with retractions: accepted ++ buffered is the fault-free stream. -/
theorem short_write_nothing_lost_full (omitNL : Bool) (l : List (Op × Sched)) (hsane : ∀ p ∈ l, SaneCall p.1) :
    (runD ({ omitNL := omitNL }, false) l).1.delivered ++ (runD ({ omitNL := omitNL }, false) l).1.buf =
      (runD ({ omitNL := omitNL }, false) (faultFree l)).1.total :=
  (flush_indep_full omitNL l (faultFree l) (by simp [faultFree, Function.comp_def]) hsane).1

/-- `marshalWrite_prefix`, with retractions: whatever was retracted later, what the writer accepted is a prefix of the
fault-free stream at that moment (retractions only ever touch `buf`). -/
theorem marshalWrite_prefix_full (omitNL : Bool) (l : List (Op × Sched)) (hsane : ∀ p ∈ l, SaneCall p.1) :
    (runD ({ omitNL := omitNL }, false) l).1.delivered <+: (runD ({ omitNL := omitNL }, false) (faultFree l)).1.total := by
  rw [← short_write_nothing_lost_full omitNL l hsane]
  exact List.prefix_append _ _

theorem delivered_monotone_full (a : Enc × Bool) (l : List (Op × Sched)) : a.1.delivered <+: (runD a l).1.delivered :=
  runD_delivered_prefix l a

/-- The shape invariant (Lemmas/FlushShape.lean `InvS`: the bytes a later unwrite would scan are in `buf`, laid out
as `[,] ws "name" : ws value`, recursively through just-opened containers) holds along every disciplined run. -/
theorem shape_invariant (omitNL : Bool) (l : List (Op × Sched)) (hsane : ∀ p ∈ l, SaneCall p.1) :
    InvS (runD ({ omitNL := omitNL }, false) l).1 (runD ({ omitNL := omitNL }, false) l).2 :=
  runD_inv l _ (invS_init omitNL false) hsane

-- non-trivial instance: `{"a":1` then `,"E":{` , `"X":[]` retracted, `}` , `"E":{}` retracted, `,"s":"x"` with a
-- retraction attempt after the non-empty value, `}` — with a flush wanted after every call and a writer that takes
-- 3 bytes per call, versus never flushing before the end: same stream `{"a":1,"s":"x"}\n`
example :
    let ops : List Op := [.tok .openObj [], .tok (.str [0x61]) [], .tok (.scalar [0x31]) [],
      .tok (.str [0x45]) [], .tok .openObj [], .tok (.str [0x58]) [], .tok .openArr [], .tok .closeArr [], .unwriteEmpty,
      .tok .closeObj [], .unwriteEmpty, .tok (.str [0x73]) [], .tok (.str [0x78]) [], .unwriteEmpty, .tok .closeObj []]
    (runD ({}, false) (ops.map (fun o => (o, ⟨true, .fail 3⟩)))).1.total =
      (runD ({}, false) (ops.map (fun o => (o, ⟨false, .ok⟩)))).1.total ∧
    (runD ({}, false) (ops.map (fun o => (o, ⟨false, .ok⟩)))).1.delivered =
      [0x7b, 0x22, 0x61, 0x22, 0x3a, 0x31, 0x2c, 0x22, 0x73, 0x22, 0x3a, 0x22, 0x78, 0x22, 0x7d, 0x0a] ∧
    (runD ({}, false) (ops.map (fun o => (o, ⟨true, .fail 3⟩)))).1.delivered.length > 6 := by decide

/-! ### empty_detect against the RFC 8259 grammar (Spec/Grammar.lean, slice C01) -/

/-- `empty_detect_full`: after `[,] ws "name" : ws value` where the value is ANY JSON value of the grammar (any
options, any depth, with interior whitespace or not), UnwriteEmptyObjectMember reports true exactly when the value
is `null`, `""`, `{}` or `[]`. -/
theorem empty_detect_full (o : Spec.Grammar.GOpts) (md : Nat) (key : Bytes → Bytes) (d : Nat)
    (pre sep ws1 name ws2 val : Bytes) (h1 : WsOnly ws1) (h2 : WsOnly ws2) (hn : QuotesEscaped name)
    (hs : MemberSep pre sep) (hv : Spec.Grammar.JValue o md key d val) :
    (∃ r, unwriteEmptyBytes (pre ++ sep ++ ws1 ++ (0x22 :: name ++ [0x22]) ++ [0x3a] ++ ws2 ++ val) = some (r, true)) ↔
      EmptyText val := by
  constructor
  · rintro ⟨r, hr⟩
    have hne := emptyLenR_of_unwrite_true hr
    rw [List.reverse_append] at hne
    exact emptyText_of_jvalue hv _ hne
  · intro he
    exact ⟨pre, empty_detect_partial pre sep ws1 name ws2 val h2 h1 hn hs he⟩

-- hypotheses satisfiable with a non-empty value: after `{"a":1` nothing is retracted
example : ¬ ∃ r, unwriteEmptyBytes (([0x7b] : Bytes) ++ [] ++ [] ++ (0x22 :: [0x61] ++ [0x22]) ++ [0x3a] ++ [] ++ [0x31]) = some (r, true) := by
  have hv : Spec.Grammar.JValue ⟨true, false⟩ 10000 id 1 [0x31] :=
    Spec.Grammar.JValue.num 1 [0x31] (Spec.Grammar.JNumber.mk [] [0x31] [] [] (Or.inl rfl)
      (Spec.Grammar.JInt.nonzero 0x31 [] (by unfold Spec.Grammar.Digit19; decide) (by intro c hc; cases hc)) Spec.Grammar.JFrac.none Spec.Grammar.JExp.none)
  rw [empty_detect_full ⟨true, false⟩ 10000 id 1 [0x7b] [] [] [0x61] [] [0x31] (by intro c hc; cases hc) (by intro c hc; cases hc)
    (by intro l1 l2 e; cases l1 <;> simp at e)
    (MemberSep.first [] 0x7b (by decide) (by decide) (by decide)) hv]
  intro h; cases h

/-- The classification behind it, in terms of avoidFlush's two-byte test: a JSON value ending in `ll`, `""`, `{}`,
`[]` is one of the four empty encodings or a string ending in an escaped quote (`…\""`), which is what the code's
extra backslash test is for. -/
theorem jvalue_ends_classification (o : Spec.Grammar.GOpts) (md : Nat) (key : Bytes → Bytes) (d : Nat) (v : Bytes)
    (hv : Spec.Grammar.JValue o md key d v) (he : endsEmptyR v.reverse = true) :
    EmptyText v ∨ ∃ q, v = q ++ [0x5c, 0x22, 0x22] :=
  JsonV.Model.Flush.jvalue_ends_classification hv he

-- the second alternative is real: the JSON string `"\""` (one escaped quote) ends in `""`
example : endsEmptyR ([0x22, 0x5c, 0x22, 0x22] : Bytes).reverse = true ∧ ¬ EmptyText [0x22, 0x5c, 0x22, 0x22] := by
  refine ⟨by decide, ?_⟩
  intro h; cases h

/-! ### the array case of avoidFlush's first test is necessary (the pattern of seed R4Kb)

The regenerated literals of avoidFlush (Tie A) do not change when its first case is narrowed from
`Last.Length() == 0` to `Last.isObject() && Last.Length() == 0` (no literal is added or removed), so that change is
invisible to `tie_avoidFlush_suffixes`; it is caught by the harness (Marshal vs MarshalWrite).  At model level the
case is load-bearing: with the narrowed test, one flush directly after `[` makes UnwriteEmptyObjectMember miss the
empty array, and the stream depends on the schedule. -/

/-- avoidFlush with its first case narrowed to objects. -/
def avoidFlushNarrow (e : Enc) : Bool :=
  if e.last.isObj && e.last.len == 0 then true
  else if e.last.needValue then true
  else if e.last.needName && decide (e.buf.length ≥ 2) then endsEmptyR e.buf.reverse
  else false

def flushNarrow (e : Enc) (a : WAct) : Enc :=
  if avoidFlushNarrow e then e else
  let b := if e.depth == 1 && !e.omitNL then e.buf ++ [0x0a] else e.buf
  match a with
  | .ok => { e with delivered := e.delivered ++ b, buf := [] }
  | .fail n => { e with delivered := e.delivered ++ b.take n, buf := b.drop n }

def stepNarrow (e : Enc) (op : Op) (s : Sched) : Enc :=
  match op with
  | .tok t ws =>
    match write e t ws with
    | none => e
    | some e' => if e'.stack.isEmpty || s.want then flushNarrow e' s.act else e'
  | .unwriteEmpty => (unwriteEmpty e).1
  | .unwriteName => unwriteName e

def runNarrow (e : Enc) : List (Op × Sched) → Enc
  | [] => e
  | (op, s) :: rest => runNarrow (stepNarrow e op s) rest

/-- `{"a":[` `]` + UnwriteEmptyObjectMember + `}`: without a flush the member is retracted (`{}`), with one flush
after `[` (allowed by the narrowed test) it stays (`{"a":[]}`); the real avoidFlush gives `{}` under both. -/
theorem avoidFlush_array_case_needed :
    let ops : List Op := [.tok .openObj [], .tok (.str [0x61]) [], .tok .openArr [], .tok .closeArr [], .unwriteEmpty, .tok .closeObj []]
    (runNarrow {} (ops.map (fun o => (o, ⟨false, .ok⟩)))).total = [0x7b, 0x7d, 0x0a] ∧
    (runNarrow {} (ops.map (fun o => (o, ⟨true, .ok⟩)))).total = [0x7b, 0x22, 0x61, 0x22, 0x3a, 0x5b, 0x5d, 0x7d, 0x0a] ∧
    (run {} (ops.map (fun o => (o, ⟨true, .ok⟩)))).total = [0x7b, 0x7d, 0x0a] := by decide

/-! ### without the calling discipline

`run` performs UnwriteEmptyObjectMember whenever it is called (in the states where the Go function does not panic):
twice in a row, after a rejected call, after UnwriteOnlyObjectMemberName — moments at which the marshalers never
call it.  The shape invariant remembers, for every member boundary still in `buf`, that the buffer before it is
again unwrite-compatible with the whole stream (`Compat`, recursive in Length()/2), so the statement holds there
too. -/

/-- `flush_indep_undisciplined_full`: for EVERY call sequence with sane token texts and every two schedules of flush
decisions and writer behaviours, `delivered ++ buf` and the token state are the same. -/
theorem flush_indep_undisciplined_full (omitNL : Bool) (l₁ l₂ : List (Op × Sched))
    (hops : l₁.map Prod.fst = l₂.map Prod.fst) (hsane : ∀ p ∈ l₁, SaneCall p.1) :
    (run { omitNL := omitNL } l₁).total = (run { omitNL := omitNL } l₂).total ∧
    (run { omitNL := omitNL } l₁).last = (run { omitNL := omitNL } l₂).last ∧
    (run { omitNL := omitNL } l₁).stack = (run { omitNL := omitNL } l₂).stack := by
  have := (run_simU l₁ l₂ _ _ ⟨Sim.refl _, invS_init omitNL false, invS_init omitNL false⟩ hops hsane).sim
  exact ⟨this.total, this.last, this.stack⟩

-- non-trivial instance: `{"a":1` `,"b":null` `,"c":[]` then THREE calls of UnwriteEmptyObjectMember in a row
-- (the third is a no-op on `"a":1`), `}` — flush wanted after every call with 2-byte short writes, versus no flush
example :
    let ops : List Op := [.tok .openObj [], .tok (.str [0x61]) [], .tok (.scalar [0x31]) [],
      .tok (.str [0x62]) [], .tok (.scalar [0x6e, 0x75, 0x6c, 0x6c]) [], .tok (.str [0x63]) [], .tok .openArr [], .tok .closeArr [],
      .unwriteEmpty, .unwriteEmpty, .unwriteEmpty, .tok .closeObj []]
    (run {} (ops.map (fun o => (o, ⟨true, .fail 2⟩)))).total = (run {} (ops.map (fun o => (o, ⟨false, .ok⟩)))).total ∧
    (run {} (ops.map (fun o => (o, ⟨false, .ok⟩)))).delivered = [0x7b, 0x22, 0x61, 0x22, 0x3a, 0x31, 0x7d, 0x0a] := by decide

end JsonV.Props.C07
