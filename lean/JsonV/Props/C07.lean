/-
C07 — Encoded bytes do not depend on buffering, flushing or the writer.

Property theorems only (proofs in Lemmas/Flush*.lean, models in Model/Flush.lean).
Model: `Enc` = (delivered, buf, Tokens.Last, Tokens.Stack, OmitTopLevelNewline); every call is followed by a flush
opportunity whose capacity test is an adversarial Bool (`Sched.want`) and whose Write call is an adversarial
`WAct` (accept all | accept n bytes and fail).
-/
import JsonV.Lemmas.FlushCycle
import JsonV.Gen.Constants
import JsonV.Gen.Lits

namespace JsonV.Props.C07
open JsonV JsonV.Model.Flush

/-! ### Tie A: the buffer constants that the harness sweeps (regenerated from encode.go on every run) -/

theorem buffer_constants :
    JsonV.Gen.jsontext.c_encoderState_Flush_maxBufferSize = 4096 ∧
    JsonV.Gen.jsontext.c_encoderState_Flush_growthSizeFactor = 2 ∧
    JsonV.Gen.jsontext.c_encoderState_Flush_growthRateFactor = 2 := by decide

/-- Tie A: the hand-modelled suffix list of avoidFlush is the list of string literals of the Go function
(`ll`, `""`, `{}`, `[]`, in source order), and its integer literals are the `== 0` and `>= 2` / `len-2` of the source. -/
theorem tie_avoidFlush_suffixes :
    emptySuffixes.map (fun s => [s.1.toNat, s.2.1.toNat]) = JsonV.Gen.jsontext_encoderState_avoidFlush_strs ∧
    JsonV.Gen.jsontext_encoderState_avoidFlush_ints = [0, 2, 2] := by decide

/-- The model's avoidFlush / UnwriteEmptyObjectMember tests are exactly look-ups in that table. -/
theorem endsEmptyR_table (x y : UInt8) (r : List UInt8) :
    endsEmptyR (x :: y :: r) = emptySuffixes.any (fun s => y == s.1 && x == s.2.1) := by
  simp [endsEmptyR, emptySuffixes, Bool.or_assoc]

theorem emptyLenR_table (x y z : UInt8) (r : List UInt8) :
    emptyLenR (x :: y :: z :: r) =
      match emptySuffixes.find? (fun s => y == s.1 && x == s.2.1) with
      | some s => if s.1 = 0x22 ∧ z = 0x5c then 0 else s.2.2
      | none => 0 := by
  simp only [emptyLenR, emptySuffixes, List.find?]
  by_cases h1 : (y == 0x6c && x == 0x6c) = true
  · simp [h1]
  · by_cases h2 : (y == 0x22 && x == 0x22) = true
    · simp [h1, h2]
    · by_cases h3 : (y == 0x7b && x == 0x7d) = true
      · simp [h1, h2, h3]
      · by_cases h4 : (y == 0x5b && x == 0x5d) = true
        · simp [h1, h2, h3, h4]
        · simp [h1, h2, h3, h4]

/-- Tie A: the string literals of UnwriteEmptyObjectMember after the panic message, in source order:
`ll` `null` | `""` `\` `""` | `{}` `{}` | `[]` `[]` | `:` | `,` — each case label is a table suffix, followed by the
literal whose length is the table's byte count (with the `\` test inside the `""` case), then the colon and comma that
TrimSuffixByte removes; the integer literals are n=0, `len(b) >= 3`, `len-2`, `len-3`, `n == 0`. -/
theorem tie_unwrite_literals :
    JsonV.Gen.jsontext_encoderState_UnwriteEmptyObjectMember_strs.tail =
      [[0x6c, 0x6c], [0x6e, 0x75, 0x6c, 0x6c], [0x22, 0x22], [0x5c], [0x22, 0x22], [0x7b, 0x7d], [0x7b, 0x7d],
       [0x5b, 0x5d], [0x5b, 0x5d], [0x3a], [0x2c]] ∧
    JsonV.Gen.jsontext_encoderState_UnwriteEmptyObjectMember_ints = [0, 3, 2, 3, 0] ∧
    (emptySuffixes.map (fun s => s.2.2) = [[0x6e, 0x75, 0x6c, 0x6c], [0x22, 0x22], [0x7b, 0x7d], [0x5b, 0x5d]].map List.length) := by
  decide

/-! ### wire.go: TrimSuffixWhitespace / TrimSuffixByte / HasSuffixByte / TrimSuffixString -/

/-- TrimSuffixWhitespace, for every input: what is removed is whitespace only, and what remains does not end in
whitespace (this determines the result uniquely). -/
theorem trim_ws_spec (b : Bytes) :
    ∃ ws, WsOnly ws ∧ b = trimSuffixWhitespace b ++ ws ∧
      ∀ c, (trimSuffixWhitespace b).getLast? = some c → isWs c = false := by
  obtain ⟨wsr, hws, e⟩ := trimWsR_decomp b.reverse
  refine ⟨wsr.reverse, fun c hc => hws c (List.mem_reverse.mp hc), ?_, ?_⟩
  · have := congrArg List.reverse e
    simpa [trimSuffixWhitespace] using this
  · intro c hc
    refine trimWsR_head b.reverse c ?_
    simpa [trimSuffixWhitespace] using hc

/-- … in the form used by the encoder: trailing whitespace after a non-whitespace byte is removed exactly. -/
theorem trim_ws_append (p ws : Bytes) (hws : WsOnly ws) (hp : ∀ c, p.getLast? = some c → isWs c = false) :
    trimSuffixWhitespace (p ++ ws) = p := by
  have h' : ∀ c ∈ ws.reverse, isWs c = true := fun c hc => hws c (List.mem_reverse.mp hc)
  unfold trimSuffixWhitespace
  rw [List.reverse_append, trimWsR_append h']
  cases hr : p.reverse with
  | nil => have : p = [] := by simpa using hr
           simp [this]
  | cons a r =>
    have ha : isWs a = false := hp a (by rw [← List.head?_reverse, hr]; rfl)
    rw [trimWsR_cons_of_not_ws ha, ← hr, List.reverse_reverse]

example : trimSuffixWhitespace [0x7b, 0x20, 0x0a, 0x09] = [0x7b] := by decide

/-- TrimSuffixByte removes exactly one trailing `c`, and nothing else. -/
theorem trim_byte_spec (p : Bytes) (c : UInt8) :
    trimSuffixByte (p ++ [c]) c = p ∧
    (∀ b : Bytes, (∀ q, b ≠ q ++ [c]) → trimSuffixByte b c = b) := by
  refine ⟨by simp [trimSuffixByte], ?_⟩
  intro b hb
  unfold trimSuffixByte
  cases hr : b.reverse with
  | nil => have : b = [] := by simpa using hr
           simp [this]
  | cons a r =>
    have hne : a ≠ c := by
      intro e
      refine hb r.reverse ?_
      have := congrArg List.reverse hr
      simpa [e] using this
    rw [trimByteR_cons_ne hne, ← hr, List.reverse_reverse]

/-- HasSuffixByte b c ⇔ b ends in c. -/
theorem has_suffix_spec (b : Bytes) (c : UInt8) : hasSuffixByte b c = true ↔ ∃ p, b = p ++ [c] := by
  unfold hasSuffixByte
  cases hr : b.reverse with
  | nil =>
    have : b = [] := by simpa using hr
    simp [this]
  | cons a r =>
    have hb : b = r.reverse ++ [a] := by
      have := congrArg List.reverse hr
      simpa using this
    constructor
    · intro h; exact ⟨r.reverse, by simpa [beq_iff_eq.mp h] using hb⟩
    · rintro ⟨p, hp⟩
      rw [hb] at hp
      have := List.append_inj_right' hp rfl
      simpa using this

/-- TrimSuffixString removes exactly a trailing string literal: for every prefix `p` that does not end in a
backslash and every body in which each `"` is preceded by a backslash,
`TrimSuffixString(p ++ '"' ++ body ++ '"') = p`. -/
theorem trim_string_spec (p body : Bytes) (hb : QuotesEscaped body) (hp : p.getLast? ≠ some 0x5c) :
    trimSuffixString (p ++ (0x22 :: body ++ [0x22])) = p := by
  have hesc : EscR body.reverse := escR_of_quotesEscaped body.reverse (by simpa using hb)
  have hp' : p.reverse.head? ≠ some 0x5c := by rwa [List.head?_reverse]
  have hrev : (p ++ (0x22 :: body ++ [0x22])).reverse = 0x22 :: (body.reverse ++ 0x22 :: p.reverse) := by
    simp [List.reverse_append]
  unfold trimSuffixString
  rw [hrev, trimStringR_spec _ _ hesc hp', List.reverse_reverse]

/-- Every JSON string body (unescaped bytes other than `"` and `\`, or `\` followed by any byte) satisfies the
hypothesis of `trim_string_spec`. -/
theorem strBody_quotesEscaped (body : Bytes) (h : StrBody body) : QuotesEscaped body := h.quotesEscaped

-- the hypotheses are satisfiable, also with escaped quotes and escaped backslashes before the closing quote:
-- `{"a\"\\"`  ↦  `{`
example : trimSuffixString ([0x7b] ++ (0x22 :: [0x61, 0x5c, 0x22, 0x5c, 0x5c] ++ [0x22])) = [0x7b] :=
  trim_string_spec [0x7b] [0x61, 0x5c, 0x22, 0x5c, 0x5c]
    (StrBody.plain _ _ (by decide) (by decide) (StrBody.esc _ _ (StrBody.esc _ _ StrBody.nil))).quotesEscaped (by decide)

/-! ### flushing and the writer do not change the stream (token calls) -/

/-- The same calls under the fault-free writer (flush decisions unchanged). -/
def faultFree (l : List (Op × Sched)) : List (Op × Sched) := l.map (fun p => (p.1, ⟨p.2.want, .ok⟩))

/-- `flush_indep`: for every sequence of WriteToken/WriteValue/AppendRaw calls (accepted or rejected), every two
schedules of flush decisions and writer behaviours give the same `delivered ++ buf` and the same token state. -/
theorem flush_indep (omitNL : Bool) (l₁ l₂ : List (Op × Sched)) (ht : tokOnly l₁)
    (hops : l₁.map Prod.fst = l₂.map Prod.fst) :
    (run { omitNL := omitNL } l₁).total = (run { omitNL := omitNL } l₂).total ∧
    (run { omitNL := omitNL } l₁).last = (run { omitNL := omitNL } l₂).last ∧
    (run { omitNL := omitNL } l₁).stack = (run { omitNL := omitNL } l₂).stack := by
  have := run_tok_sim l₁ l₂ _ _ (Sim.refl { omitNL := omitNL }) rfl ht hops
  exact ⟨this.total, this.last, this.stack⟩

/-- `short_write_nothing_lost`: under every schedule of short writes and write errors, what the writer accepted
followed by what is still buffered is the fault-free stream; nothing is lost or duplicated, and every call was
accepted or rejected exactly as in the fault-free run (same token state). -/
theorem short_write_nothing_lost (omitNL : Bool) (l : List (Op × Sched)) (ht : tokOnly l) :
    (run { omitNL := omitNL } l).delivered ++ (run { omitNL := omitNL } l).buf =
      (run { omitNL := omitNL } (faultFree l)).total ∧
    (run { omitNL := omitNL } l).last = (run { omitNL := omitNL } (faultFree l)).last ∧
    (run { omitNL := omitNL } l).stack = (run { omitNL := omitNL } (faultFree l)).stack :=
  flush_indep omitNL l (faultFree l) ht (by simp [faultFree, Function.comp_def])

/-- `marshalWrite_prefix`: at every moment (in particular when a call returns the write error) what the writer has
accepted is a prefix of the fault-free stream. -/
theorem marshalWrite_prefix (omitNL : Bool) (l : List (Op × Sched)) (ht : tokOnly l) :
    (run { omitNL := omitNL } l).delivered <+: (run { omitNL := omitNL } (faultFree l)).total := by
  rw [← (short_write_nothing_lost omitNL l ht).1]
  exact List.prefix_append _ _

/-- What the writer accepted never shrinks or changes afterwards (all calls, including the unwrite calls). -/
theorem delivered_monotone (e : Enc) (l : List (Op × Sched)) : e.delivered <+: (run e l).delivered :=
  run_delivered_prefix l e

/-- With a writer that accepts everything, a call that completes a top-level value leaves nothing buffered. -/
theorem faultfree_top_level_flushes_all (e e' : Enc) (t : Tok) (ws : Bytes) (want : Bool)
    (hb : bottomIsObj e.last e.stack = false) (hw : write e t ws = some e') (htop : e'.stack = [])
    (hlen : e'.last.len ≠ 0) : (step e (.tok t ws) ⟨want, .ok⟩).buf = [] := by
  have hb' := nextFrames_bottom (write_some hw).2.1 hb
  have hav : avoidFlush e' = false := by rw [avoidFlush_top hb' htop]; simpa using hlen
  simp [step, hw, htop, flush_ok_buf hav]

-- hypotheses satisfiable: the top-level value `null` written by an Encoder (newline appended, all delivered)
example : (step {} (.tok (.scalar [0x6e, 0x75, 0x6c, 0x6c]) []) ⟨false, .ok⟩) =
    { delivered := [0x6e, 0x75, 0x6c, 0x6c, 0x0a], buf := [], last := ⟨false, 1⟩ } := by decide

-- a non-trivial instance of flush_indep: `{"a":1}` with a flush forced after every token and a writer that
-- accepts one byte per call and fails, versus no flush until the end
example :
    let ops : List Op := [.tok .openObj [], .tok (.str [0x61]) [], .tok (.scalar [0x31]) [], .tok .closeObj []]
    (run {} (ops.map (fun o => (o, ⟨true, .fail 1⟩)))).total = (run {} (ops.map (fun o => (o, ⟨false, .ok⟩)))).total ∧
    (run {} (ops.map (fun o => (o, ⟨true, .fail 1⟩)))).delivered = [0x7b, 0x22] := by decide

/-! ### avoidFlush keeps retractable bytes in the buffer -/

/-- The invariant holds after every sequence of token calls, whatever was flushed and whatever the writer did. -/
theorem inv_run (omitNL : Bool) : ∀ (l : List (Op × Sched)), tokOnly l → Inv (run { omitNL := omitNL } l) := by
  suffices h : ∀ (l : List (Op × Sched)) (e : Enc), Inv e → tokOnly l → Inv (run e l) from
    fun l ht => h l _ (inv_init omitNL) ht
  intro l
  induction l with
  | nil => intro e he _; exact he
  | cons p r ih =>
    intro e he ht
    obtain ⟨op, s⟩ := p
    cases op with
    | tok t ws => exact ih _ (inv_step_tok he t ws s) (by simpa [tokOnly] using ht)
    | unwriteEmpty => simp [tokOnly] at ht
    | unwriteName => simp [tokOnly] at ht

/-- The omitempty slow path (arshal_default.go:1180-1243) for a member whose value is one of the four empty
encodings: write the name, write the value (`null`, `""`, `{` `}` or `[` `]`), call UnwriteEmptyObjectMember;
each call with its own arbitrary flush decision and writer behaviour, arbitrary whitespace before name and value. -/
inductive EmptyCycle : List (Op × Sched) → Prop
  | null (name ws1 ws2 : Bytes) (s₁ s₂ s₃ : Sched) : QuotesEscaped name → WsOnly ws1 → WsOnly ws2 →
      EmptyCycle [(.tok (.str name) ws1, s₁), (.tok (.scalar [0x6e, 0x75, 0x6c, 0x6c]) ws2, s₂), (.unwriteEmpty, s₃)]
  | str (name ws1 ws2 : Bytes) (s₁ s₂ s₃ : Sched) : QuotesEscaped name → WsOnly ws1 → WsOnly ws2 →
      EmptyCycle [(.tok (.str name) ws1, s₁), (.tok (.str []) ws2, s₂), (.unwriteEmpty, s₃)]
  | obj (name ws1 ws2 : Bytes) (s₁ s₂ s₃ s₄ : Sched) : QuotesEscaped name → WsOnly ws1 → WsOnly ws2 →
      EmptyCycle [(.tok (.str name) ws1, s₁), (.tok .openObj ws2, s₂), (.tok .closeObj [], s₃), (.unwriteEmpty, s₄)]
  | arr (name ws1 ws2 : Bytes) (s₁ s₂ s₃ s₄ : Sched) : QuotesEscaped name → WsOnly ws1 → WsOnly ws2 →
      EmptyCycle [(.tok (.str name) ws1, s₁), (.tok .openArr ws2, s₂), (.tok .closeArr [], s₃), (.unwriteEmpty, s₄)]

/-- `unwrite_local`: in every state that satisfies the invariant (`inv_run`: every state reached by token calls
under any flush/writer schedule) and expects a member name, the omitempty cycle ends in EXACTLY the state it
started from: every flush opportunity inside the cycle is suppressed by avoidFlush, the bytes that
UnwriteEmptyObjectMember removes (comma, whitespace, name, colon, whitespace, value) are all still in `buf`,
`delivered` is untouched and `buf` is restored byte for byte. -/
theorem unwrite_local (s : Enc) (hinv : Inv s) (hobj : s.last.isObj = true) (hname : s.last.needName = true)
    (l : List (Op × Sched)) (hl : EmptyCycle l) : run s l = s := by
  obtain ⟨dl, bf, ⟨io, k⟩, st, nl⟩ := s
  simp only at hobj; subst hobj
  have hk : k % 2 = 0 := by simpa [Frame.needName] using hname
  have hst : st ≠ [] := by
    intro e; have := hinv.bottom; simp [e, bottomIsObj] at this
  have hsep : ∀ name, MemberSep bf (delim ⟨true, k⟩ st (.str name)) := by
    intro name
    rw [delim_name k st hk hst]
    by_cases h0 : k = 0
    · obtain ⟨b, o, hb, ho⟩ := hinv.opened h0 hst
      simp only [h0, if_true]
      simp only at hb
      rw [hb]; exact MemberSep.first b o ho.1 ho.2.1 ho.2.2
    · simp only [h0, if_false]; exact MemberSep.comma bf
  cases hl with
  | null name ws1 ws2 s₁ s₂ s₃ hn h1 h2 =>
    have e1 := step_name dl bf k st nl hk name ws1 s₁
    have e2 := (step_scalar_value dl (bf ++ delim ⟨true, k⟩ st (.str name) ++ ws1 ++ (0x22 :: name ++ [0x22])) k st nl hk
      (.scalar [0x6e, 0x75, 0x6c, 0x6c]) (Or.inl rfl) ws2 s₂).1
    have e3 := unwrite_after_member dl bf k st nl hk _ ws1 name ws2 (Tok.scalar [0x6e, 0x75, 0x6c, 0x6c]).text
      h2 h1 hn (hsep name) EmptyText.null
    simp only [run]
    rw [e1, e2]
    simp only [step]
    rw [e3]
  | str name ws1 ws2 s₁ s₂ s₃ hn h1 h2 =>
    have e1 := step_name dl bf k st nl hk name ws1 s₁
    have e2 := (step_scalar_value dl (bf ++ delim ⟨true, k⟩ st (.str name) ++ ws1 ++ (0x22 :: name ++ [0x22])) k st nl hk
      (.str []) (Or.inr rfl) ws2 s₂).1
    have e3 := unwrite_after_member dl bf k st nl hk _ ws1 name ws2 (Tok.str []).text
      h2 h1 hn (hsep name) EmptyText.str
    simp only [run]
    rw [e1, e2]
    simp only [step]
    rw [e3]
  | obj name ws1 ws2 s₁ s₂ s₃ s₄ hn h1 h2 =>
    have e1 := step_name dl bf k st nl hk name ws1 s₁
    have e2 : step (step ⟨dl, bf ++ delim ⟨true, k⟩ st (.str name) ++ ws1 ++ (0x22 :: name ++ [0x22]), ⟨true, k + 1⟩, st, nl⟩
          (.tok .openObj ws2) s₂) (.tok .closeObj []) s₃ =
        ⟨dl, bf ++ delim ⟨true, k⟩ st (.str name) ++ ws1 ++ (0x22 :: name ++ [0x22]) ++ [0x3a] ++ ws2 ++ [0x7b, 0x7d],
          ⟨true, k + 2⟩, st, nl⟩ :=
      (step_compound_value dl _ k st nl hk true ws2 s₂ s₃).1
    have e3 := unwrite_after_member dl bf k st nl hk _ ws1 name ws2 [0x7b, 0x7d] h2 h1 hn (hsep name) EmptyText.obj
    simp only [run]
    rw [e1, e2]
    simp only [step]
    rw [e3]
  | arr name ws1 ws2 s₁ s₂ s₃ s₄ hn h1 h2 =>
    have e1 := step_name dl bf k st nl hk name ws1 s₁
    have e2 : step (step ⟨dl, bf ++ delim ⟨true, k⟩ st (.str name) ++ ws1 ++ (0x22 :: name ++ [0x22]), ⟨true, k + 1⟩, st, nl⟩
          (.tok .openArr ws2) s₂) (.tok .closeArr []) s₃ =
        ⟨dl, bf ++ delim ⟨true, k⟩ st (.str name) ++ ws1 ++ (0x22 :: name ++ [0x22]) ++ [0x3a] ++ ws2 ++ [0x5b, 0x5d],
          ⟨true, k + 2⟩, st, nl⟩ :=
      (step_compound_value dl _ k st nl hk false ws2 s₂ s₃).1
    have e3 := unwrite_after_member dl bf k st nl hk _ ws1 name ws2 [0x5b, 0x5d] h2 h1 hn (hsep name) EmptyText.arr
    simp only [run]
    rw [e1, e2]
    simp only [step]
    rw [e3]

-- hypotheses satisfiable and the statement non-trivial: after `{"a":1` has been flushed (buffer empty, the writer
-- has everything) the member `,"b":[]` is written with a flush wanted after every token and then retracted
example :
    let s := run {} [(.tok .openObj [], ⟨false, .ok⟩), (.tok (.str [0x61]) [], ⟨false, .ok⟩), (.tok (.scalar [0x31]) [], ⟨true, .ok⟩)]
    s.buf = [] ∧ s.delivered = [0x7b, 0x22, 0x61, 0x22, 0x3a, 0x31] ∧
    run s [(.tok (.str [0x62]) [], ⟨true, .ok⟩), (.tok .openArr [], ⟨true, .ok⟩), (.tok .closeArr [], ⟨true, .ok⟩), (.unwriteEmpty, ⟨true, .ok⟩)] = s := by
  decide

/-- The same for UnwriteOnlyObjectMemberName (Deterministic maps with non-string keys, arshal_default.go:918-931):
writing the first name of an object and unwriting it restores the state exactly. -/
theorem unwrite_name_local (s : Enc) (hinv : Inv s) (hobj : s.last = ⟨true, 0⟩)
    (name ws1 : Bytes) (hn : QuotesEscaped name) (h1 : WsOnly ws1) (s₁ s₂ : Sched) :
    run s [(.tok (.str name) ws1, s₁), (.unwriteName, s₂)] = s := by
  obtain ⟨dl, bf, lst, st, nl⟩ := s
  simp only at hobj; subst hobj
  have hst : st ≠ [] := by
    intro e; have := hinv.bottom; simp [e, bottomIsObj] at this
  obtain ⟨b, o, hb, ho⟩ := hinv.opened rfl hst
  simp only at hb; subst hb
  simp only [run]
  rw [step_name dl _ 0 st nl rfl, delim_name 0 st rfl hst]
  have := unwriteNameBytes_first b o ws1 name ho.1 ho.2.2 h1 hn
  simp only [if_true, List.append_nil] at this ⊢
  simp at this
  simp [step, unwriteName, this]

/-- UnwriteEmptyObjectMember reports true on each of the four empty encodings (one direction of `empty_detect`). -/
theorem empty_detect_partial (pre sep ws1 name ws2 val : Bytes) (h2 : WsOnly ws2) (h1 : WsOnly ws1)
    (hn : QuotesEscaped name) (hs : MemberSep pre sep) (hv : EmptyText val) :
    unwriteEmptyBytes (pre ++ sep ++ ws1 ++ (0x22 :: name ++ [0x22]) ++ [0x3a] ++ ws2 ++ val) = some (pre, true) :=
  unwriteEmptyBytes_member pre sep ws1 name ws2 val h2 h1 hn hs hv

-- a string value that merely ends in `""` because its last character is an escaped quote is not retracted
example : unwriteEmptyBytes [0x7b, 0x22, 0x61, 0x22, 0x3a, 0x22, 0x5c, 0x22, 0x22] =
    some ([0x7b, 0x22, 0x61, 0x22, 0x3a, 0x22, 0x5c, 0x22, 0x22], false) := by decide

/-! ### full statements that are not proved (validated by the harness only) -/

/-- Token texts as the encoder produces them: whitespace is whitespace, string bodies have their quotes escaped,
a literal/number is `null` or ends in a byte other than `l " { } [ ]`. -/
def SaneOp : Op → Prop
  | .tok (.scalar t) ws => WsOnly ws ∧ (t = [0x6e, 0x75, 0x6c, 0x6c] ∨
      ∃ p c, t = p ++ [c] ∧ c ≠ 0x6c ∧ c ≠ 0x22 ∧ c ≠ 0x7b ∧ c ≠ 0x7d ∧ c ≠ 0x5b ∧ c ≠ 0x5d ∧ isWs c = false)
  | .tok (.str b) ws => WsOnly ws ∧ QuotesEscaped b
  | .tok _ ws => WsOnly ws
  | _ => True

/-- The calling discipline of arshal_default.go: UnwriteEmptyObjectMember only directly after the call that
completed a member value, UnwriteOnlyObjectMemberName only directly after the call that wrote a name. -/
def Disciplined : List Op → Prop
  | [] => True
  | [a] => SaneOp a
  | a :: b :: r => SaneOp a ∧
      (b = .unwriteEmpty → ∃ t ws, a = .tok t ws ∧ t ≠ .openObj ∧ t ≠ .openArr) ∧
      (b = .unwriteName → ∃ n ws, a = .tok (.str n) ws) ∧ Disciplined (b :: r)

/-- `flush_indep` for ALL disciplined call sequences: UnwriteEmptyObjectMember after empty AND non-empty values,
nested retractions (`"E":{}` whose own members were retracted), UnwriteOnlyObjectMemberName anywhere after a
first name.  Proved above: token-only sequences (`flush_indep`) and exact restoration by every omitempty cycle
over a directly empty value from every reachable state (`unwrite_local`, `unwrite_name_local`, `inv_run`). -/
def flush_indep_full : Prop :=
  ∀ (omitNL : Bool) (l₁ l₂ : List (Op × Sched)), l₁.map Prod.fst = l₂.map Prod.fst →
    Disciplined (l₁.map Prod.fst) → (l₁.head?.map Prod.fst ≠ some .unwriteEmpty) → (l₁.head?.map Prod.fst ≠ some .unwriteName) →
    (run { omitNL := omitNL } l₁).total = (run { omitNL := omitNL } l₂).total

/-- `empty_detect`: after `name : value` for a well-formed JSON value (`JValue`, the grammar of another slice),
UnwriteEmptyObjectMember reports true exactly when the value is `null`, `""`, `{}` or `[]`.
Proved above: the "if" direction (`empty_detect_partial`). -/
def empty_detect_full (JValue : Bytes → Prop) : Prop :=
  ∀ (pre sep ws1 name ws2 val : Bytes), WsOnly ws1 → WsOnly ws2 → QuotesEscaped name → MemberSep pre sep → JValue val →
    ((∃ r, unwriteEmptyBytes (pre ++ sep ++ ws1 ++ (0x22 :: name ++ [0x22]) ++ [0x3a] ++ ws2 ++ val) = some (r, true)) ↔
      EmptyText val)

end JsonV.Props.C07
