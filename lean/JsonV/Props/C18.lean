/-
C18 — Calls are isolated from one another: no history or concurrency dependence (*partial*).

What is proved here, for ALL coder states, operation sequences, cache contents and values:
the sequential logic that makes a pooled / reused coder indistinguishable from a new one
(`reset_fresh`), that what survives a reset never shows in a result (`survivors_irrelevant`,
`intern_transparent`, `intern_inv`), and that the cycle tracker is left as found on every exit
path including error returns and user panics (`seen_balanced`), which is the hypothesis the first
two need.  `Gen.*` is regenerated from /repo on every run (Tie A).

What is NOT carried by any theorem: absence of data races, the behaviour of `sync.Pool`,
the Go memory model, scheduler effects, slice aliasing of returned buffers.  Those are validated
only (harness/c18.go, harness/c18_race under the race detector); see meta/C18.json.
-/
import JsonV.Lemmas.ResetL
import JsonV.Lemmas.ResetPoolL
import JsonV.Gen.Constants
import JsonV.Gen.Straight

namespace JsonV.Props.C18
open JsonV JsonV.Model JsonV.Model.Reset JsonV.Model.Intern JsonV.Lemmas.ResetL

/-! ### Tie A: regenerated code and constants = hand model -/

/-- The translated body of `hash64` (intern.go:58) is the model's hash. -/
theorem tie_hash64 (lo hi : BitVec 32) : Gen.json_hash64 lo hi = Intern.hash64 lo hi := by
  unfold Gen.json_hash64 Intern.hash64
  rfl

theorem tie_intern_constants :
    Gen.json.c_makeString_minCachedLen = Intern.minCachedLen ∧
    Gen.json.c_makeString_maxCachedLen = Intern.maxCachedLen ∧
    Gen.json.c_hash64_prime3 = Intern.prime3.toNat ∧
    Gen.json.c_hash64_prime4 = Intern.prime4.toNat ∧
    Gen.json.c_hash64_prime5 = Intern.prime5.toNat := by decide

theorem tie_allowDup : BitVec.ofNat 64 Gen.jsonflags.c_AllowDuplicateNames = allowDupBit := by decide

/-- The parameters of the coder model, taken from the regenerated constants. -/
def P : Params := ⟨Gen.jsontext.c_maxNestingDepth, Gen.json.c_startDetectingCyclesAfter⟩

theorem params_values : P.maxDepth = 10000 ∧ P.cycleAfter = 1000 := by decide

/-! ### The intern cache is transparent -/

/-- Whatever the cache holds (no invariant needed: the equality test alone suffices),
`makeString` returns a string equal to its argument. -/
theorem intern_transparent (c : Cache) (b : Bytes) : (makeString c b).1 = b :=
  makeString_fst c b

/-- After ANY history of earlier `makeString` calls on ANY initial cache, a further sequence of
calls returns exactly its arguments. -/
theorem intern_transparent_history (c : Cache) (hist bs : List Bytes) :
    (runAll (runAll c hist).2 bs).1 = bs :=
  runAll_fst _ bs

/-- The cache invariant (every slot empty or holding a cacheable string that hashes there) holds
initially and is preserved by every call. -/
theorem intern_inv (c : Cache) (b : Bytes) (h : Inv c) : Inv (makeString c b).2 :=
  makeString_inv c b h

theorem intern_inv_history (bs : List Bytes) : Inv (runAll Cache.empty bs).2 :=
  runAll_inv _ bs inv_empty

/-- The hypothesis of `intern_inv` is satisfiable by a non-empty cache, and a colliding pair
really evicts: both strings hash to one slot, the second call replaces the first entry. -/
example :
    let a : Bytes := Bytes.ofString "PREFIX__a__SUFFIX"
    let b : Bytes := Bytes.ofString "PREFIX__b__SUFFIX"
    slot a = slot b ∧ a ≠ b ∧
    (runAll Cache.empty [a, b, a]).1 = [a, b, a] ∧
    (runAll Cache.empty [a, b]).2[slot a] = b := by
  decide +kernel

/-! ### The cycle tracker is balanced -/

/-- For every value, depth, threshold and cycle set, on every exit path (ok, error, user panic,
detected cycle), marshaling leaves the cycle set exactly as it found it. -/
theorem seen_balanced (cycleAfter depth : Nat) (seen : List Nat) (v : GoVal) :
    (marshal cycleAfter depth seen v).2 = seen :=
  marshal_seen cycleAfter v depth seen

/-- The walk is not trivially balanced: it does insert (a value that contains itself below the
threshold depth is reported as a cycle), … -/
theorem cycle_detected (cycleAfter depth p : Nat) (seen : List Nat) (h : depth > cycleAfter) (hp : p ∉ seen) :
    (marshal cycleAfter depth seen (.node p [.node p []])).1 = .cycle := by
  have h2 : depth + 1 > cycleAfter := by omega
  simp [marshal, marshalKids, h, h2, hp]

/-- … and without the `defer` (leave only on the normal return path) an error or panic below
an entered container leaks its pointer: `seen_balanced` fails for that variant. -/
theorem no_defer_leaks (cycleAfter depth p : Nat) (h : depth > cycleAfter) :
    (marshalNoDefer cycleAfter depth [] p .panic).2 = [p] ∧
    (marshalNoDefer cycleAfter depth [] p .error).2 = [p] := by
  simp [marshalNoDefer, h]

/-! ### Survivors never show; reset makes a used coder fresh -/

/-- A coder whose cycle set is empty behaves exactly like the survivor-free specification run
on its core: buffer capacities, kept slices and the string cache never influence a result. -/
theorem caches_transparent (P : Params) (c : Coder) (ops : List Op) (h : c.surv.seen = []) :
    behaviour P c ops = behaviourC P c.core ops :=
  behaviour_refines P ops c h

/-- Two coders that agree on everything `reset` re-initialises behave identically, whatever
their survivors (capacities, recycled buffer, string cache) are. -/
theorem survivors_irrelevant (P : Params) (c c' : Coder) (ops : List Op)
    (hcore : c.core = c'.core) (h : c.surv.seen = []) (h' : c'.surv.seen = []) :
    behaviour P c ops = behaviour P c' ops := by
  rw [behaviour_refines P ops c h, behaviour_refines P ops c' h', hcore]

/-- `reset` on ANY coder state with an empty cycle set — abandoned half-way, after errors, with
any cache and any buffer — gives a coder that behaves like a brand-new one. -/
theorem reset_fresh (P : Params) (c : Coder) (f : Flags) (ops : List Op) (h : c.surv.seen = []) :
    behaviour P (reset c f) ops = behaviour P (fresh f) ops :=
  survivors_irrelevant P (reset c f) (fresh f) ops (core_reset c f) h rfl

/-- Every state a pooled coder can reach (from new, by any operations incl. failing ones and
values that end in errors/panics/cycles, and any resets) has an empty cycle set. -/
theorem reachable_seen_empty (P : Params) (c : Coder) (h : Reachable P c) : c.surv.seen = [] :=
  reachable_seen P c h

/-- Hence, for every reachable state, reset = fresh (the hypothesis of `reset_fresh` is discharged
by `seen_balanced`). -/
theorem reset_fresh_reachable (P : Params) (c : Coder) (f : Flags) (ops : List Op) (h : Reachable P c) :
    behaviour P (reset c f) ops = behaviour P (fresh f) ops :=
  reset_fresh P c f ops (reachable_seen P c h)

/-- The hypothesis `seen = []` is necessary, i.e. `seen_balanced` is what isolation rests on: a
leaked pointer makes a later, unrelated call report a cycle that a fresh coder does not report. -/
theorem leaked_seen_matters :
    let P0 : Params := ⟨10, 0⟩
    let leaked : Coder := { surv := { seen := [7] } }
    behaviour P0 leaked [.value (.node 7 [])] = [.err .cycle] ∧
    behaviour P0 (fresh Flags.empty) [.value (.node 7 [])] = [.ok 1 1 1 none] := by
  decide

/-- The hypotheses of `reset_fresh` are met by a concrete used state: an object left open with
a pending name, after a rejected duplicate, with a warm cache; after `reset` the same name is
accepted again and results equal those of a new coder. -/
example :
    let P0 : Params := ⟨10, 0⟩
    let nm : Bytes := Bytes.ofString "name"
    let used := run P0 (fresh Flags.empty) [.pushObject, .string nm, .literal, .string nm, .pushArray]
    used.surv.seen = [] ∧ used.machine.depth = 2 ∧ used.namespaces = [[nm]] ∧
    behaviour P0 used [.string nm] = [.err .duplicateName] ∧
    behaviour P0 (reset used Flags.empty) [.pushObject, .string nm] =
      behaviour P0 (fresh Flags.empty) [.pushObject, .string nm] ∧
    behaviour P0 (reset used Flags.empty) [.pushObject, .string nm] = [.ok 2 0 1 none, .ok 2 1 7 (some nm)] := by
  decide +kernel

/-- `stateMachine.Floor` (raised while user code runs) is among the things `reset` re-initialises:
a coder abandoned inside a user call refuses to close the enclosing array (`errEnclosingEnd`);
after `reset` — whatever the floor was — it behaves like a new one (instance of `reset_fresh`). -/
theorem floor_cleared_by_reset :
    let P0 : Params := ⟨10, 0⟩
    let inUser := run P0 (fresh Flags.empty) [.pushArray, .enterUser]
    inUser.floor = 1 ∧
    behaviour P0 inUser [.popArray] = [.err .enclosingEnd] ∧
    (reset inUser Flags.empty).floor = 0 ∧
    behaviour P0 (reset inUser Flags.empty) [.pushArray, .popArray] =
      behaviour P0 (fresh Flags.empty) [.pushArray, .popArray] ∧
    behaviour P0 (fresh Flags.empty) [.pushArray, .popArray] = [.ok 2 0 1 none, .ok 1 1 2 none] := by
  decide

/-! ### Pool discipline: results do not depend on what the pools hold

Tied to the Go code by the pool audit of harness/c18_pools.go, which after every call of the pool
(baseline pass and every other in-process pass) empties the seven `sync.Pool`s of the library and
requires every object to be present once.  `Cmd.get`/`Cmd.put` stand for
  getStrings/putStrings            arshal_any.go:152/167, arshal_default.go:885/902, arshal_embedded.go:145/162
  getObjectMembers/putObjectMembers jsontext/value.go:335/336
  get/putBufferedEncoder           arshal.go:166/167, value.go:46/47, 138/139, 307/308, v1/stream.go:141/142
  get/putStreamingEncoder          arshal.go:183/184 (both the io.Writer and the bytes.Buffer pool)
  get/putBufferedDecoder           arshal.go:392/393, arshal_embedded.go:59/60, value.go:98/99, 311/312, v1/scanner.go:28/29
  get/putStreamingDecoder          arshal.go:410/411
`write` = the reset / overwrite every user performs after `get`; `read` = any use of the object. -/

open JsonV.Model.Reset.Pool JsonV.Lemmas.ResetPoolL in
/-- A program that obeys the discipline (each get'd object is put at most once, is not used
after its put, is read only after it was written) observes exactly what it would observe with
private fresh objects — from ANY pool that holds no object twice, whatever objects and stale
contents it holds — and leaves such a pool behind. -/
theorem pool_transparent (cs : List Cmd) (p : PSt) (r : RSt) (vs : List Val)
    (hd : rrun {} cs = some (r, vs)) (hg : GoodPool p) (hn : p.nh = 0) :
    (prun p cs).2 = vs ∧ GoodPool (prun p cs).1 := by
  have h := run_sim cs p {} r vs (inv_of_good p {} hg hn (fun _ => rfl)) hd
  exact ⟨h.1, good_of_inv _ _ h.2⟩

open JsonV.Model.Reset.Pool JsonV.Lemmas.ResetPoolL in
/-- Hence two pools (two histories) give the same observations. -/
theorem pool_contents_irrelevant (cs : List Cmd) (p p' : PSt) (hd : Disciplined cs)
    (hg : GoodPool p) (hg' : GoodPool p') (hn : p.nh = 0) (hn' : p'.nh = 0) :
    (prun p cs).2 = (prun p' cs).2 := by
  obtain ⟨r, vs, hr⟩ := hd
  rw [(pool_transparent cs p r vs hr hg hn).1, (pool_transparent cs p' r vs hr hg' hn').1]

open JsonV.Model.Reset.Pool in
/-- The discipline is necessary.  An earlier call that puts its object twice (the reference
semantics rejects it) leaves a pool in which a later, perfectly disciplined call — an outer user
and a nested user, each with its own `get` — is handed the same object twice and reads the inner
user's data: 20 instead of 10. -/
theorem double_put_breaks :
    let earlier : List Cmd := [.get, .write 0 5, .put 0, .put 0]
    let later : List Cmd := [.get, .write 0 10, .get, .write 1 20, .put 1, .read 0, .put 0]
    let clean : PSt := { heap := fun _ => 0, pool := [], next := 0 }
    rrun {} earlier = none ∧
    (∃ r, rrun {} later = some (r, [10])) ∧
    (prun clean later).2 = [10] ∧
    (prun { (prun clean earlier).1 with nh := 0 } later).2 = [20] ∧
    ¬ (prun clean earlier).1.pool.Nodup := by
  refine ⟨by decide, ⟨_, rfl⟩, by decide, by decide, by decide⟩

/-! ### Full statement that stays validation-only -/

/-- The concurrent semantics of the real library: NOT modelled (sync.Pool, the Go memory model,
the scheduler).  Only its signature is written down so that the full property can be stated. -/
structure ConcurrentSemantics where
  Call : Type
  Result : Type
  Schedule : Type
  alone : Call → Result                          -- the call run by itself in a new process
  run : Schedule → List Call → Call → Result     -- its result inside a pool under a schedule
  raceFree : Schedule → List Call → Prop         -- the execution has no data race

/-- The property itself: for every schedule of every pool, each call returns what it returns
alone, and the execution is race free.  Validated (race detector, shuffles), not proved. -/
def isolation_full (S : ConcurrentSemantics) : Prop :=
  ∀ (σ : S.Schedule) (pool : List S.Call) (c : S.Call), c ∈ pool → S.run σ pool c = S.alone c ∧ S.raceFree σ pool

end JsonV.Props.C18
