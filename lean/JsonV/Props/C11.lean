/-
C11 — String escaping is lossless, minimal, and honours the escape options.

Property theorems only (proofs are in Lemmas/Quote*.lean).  Model: Model/Quote.lean (per-iteration model of
jsonwire.AppendQuote / AppendUnquote / ReformatString / ConsumeString); specification: Spec/StringSpec.lean
(`lossy`, `illFormedCount`, `canonQuote`, `Unescapes`).  `JsonV.Gen.jsonwire_escapeASCII` is regenerated from
encode.go on every run (Tie A); the model is tied to the running code by the `quote` oracle family (Tie B).
All statements are for ALL byte strings `s` (no length bound) and all flag sets.
-/
import JsonV.Lemmas.QuoteSafe
import JsonV.Lemmas.QuoteTotal
import JsonV.Lemmas.QuoteSpec
import JsonV.Lemmas.QuoteMeaning
import JsonV.Lemmas.QuotePreserve
import JsonV.Lemmas.QuoteWf
import JsonV.Lemmas.QuoteCanon
import JsonV.Lemmas.QuoteRaw
import JsonV.Lemmas.GlueQuote
import JsonV.Lemmas.QuoteSpan
import JsonV.Lemmas.QuoteJString
import JsonV.Lemmas.QuoteReformat
import JsonV.Lemmas.GlueNameKey
import JsonV.Lemmas.GlueEncQuote
import JsonV.Gen.Lits

namespace JsonV.Props.C11
open JsonV JsonV.Model.Utf8 JsonV.Model.Quote JsonV.Spec.StringSpec
open JsonV.Lemmas.QuoteL JsonV.Lemmas.QuoteSafe JsonV.Lemmas.QuoteTotal JsonV.Lemmas.QuoteSpec JsonV.Lemmas.QuoteMeaning
open JsonV.Lemmas.QuotePreserve JsonV.Lemmas.QuoteWf JsonV.Lemmas.QuoteCanon JsonV.Lemmas.QuoteRaw

/-! ### Tie A: the regenerated table -/

theorem escapeASCII_length : JsonV.Gen.jsonwire_escapeASCII.length = 128 := by decide +kernel

/-- The regenerated 128-entry table is 1 exactly on the control characters, `"`, `\`, `<`, `>`, `&`,
and 0 everywhere else. -/
theorem escapeASCII_spec : ∀ c : Fin 128,
    (JsonV.Gen.jsonwire_escapeASCII[c.val]! = 1 ↔
      (c.val < 0x20 ∨ c.val = 0x22 ∨ c.val = 0x5c ∨ c.val = 0x3c ∨ c.val = 0x3e ∨ c.val = 0x26)) ∧
    (JsonV.Gen.jsonwire_escapeASCII[c.val]! = 0 ∨ JsonV.Gen.jsonwire_escapeASCII[c.val]! = 1) := by
  decide +kernel

/-- The model's table lookup is the regenerated table (inside its bounds). -/
theorem escapeASCII_model : ∀ c : Fin 128, escapeASCII c.val = JsonV.Gen.jsonwire_escapeASCII[c.val]! := by
  decide +kernel

/-- Tie A: the string/character literals of `appendEscapedASCII` (regenerated from encode.go, in source order:
case characters and the two-byte escapes they map to) are the ones the model emits. -/
theorem appendEscapedASCII_lits :
    JsonV.Gen.jsonwire_appendEscapedASCII_strs =
      [[0x22], [0x5c], [0x5c],
       [0x08], (appendEscapedASCII 0x08).map UInt8.toNat, [0x0c], (appendEscapedASCII 0x0c).map UInt8.toNat,
       [0x0a], (appendEscapedASCII 0x0a).map UInt8.toNat, [0x0d], (appendEscapedASCII 0x0d).map UInt8.toNat,
       [0x09], (appendEscapedASCII 0x09).map UInt8.toNat] ∧
    appendEscapedASCII 0x22 = [0x5c, 0x22] ∧ appendEscapedASCII 0x5c = [0x5c, 0x5c] := by decide +kernel

/-- Tie A: the index and character literals of `hasEscapedUTF16Prefix` (regenerated from decode.go) are the
constants of the model: indices 0 1 2 3 2 6, `\` `u` `d` `D` `c`..`f` `C`..`F` `0`..`9` `a`..`f` `A`..`F`. -/
theorem hasEscapedUTF16Prefix_lits :
    JsonV.Gen.jsonwire_hasEscapedUTF16Prefix_ints = [0, 1, 2, 3, 2, 6] ∧
    JsonV.Gen.jsonwire_hasEscapedUTF16Prefix_strs =
      [[0x5c], [0x75], [0x64], [0x44], [0x63], [0x66], [0x43], [0x46], [0x30], [0x39], [0x61], [0x66], [0x41], [0x46]] := by
  decide +kernel

/-! ### NeedEscape is sound (fields.go:466, jsontext/encode.go:466 rely on it) -/

/-- A string that `NeedEscape` clears is quoted verbatim, without error, under every flag set. -/
theorem needEscape_sound (s : Bytes) (h : needEscape s = false) (f : QFlags) :
    appendQuote f s = (0x22 :: (s ++ [0x22]), Err.ok) := by
  simp [appendQuote, quoteLoop_of_not_needEscape f.html f.js s h]

example : needEscape [0x61, 0x2f, 0x7f, 0xC3, 0xA9] = false := by decide +kernel

/-! ### The copy-span bookkeeping of the Go loop -/

/-- AppendQuote written literally with the Go indices `i`/`n` and the lazily flushed `dst` (`appendQuoteIdx`) equals
the per-character model every other theorem is stated about — on every input and flag set. -/
theorem quote_copy_span (f : QFlags) (src : Bytes) : appendQuoteIdx f src = appendQuote f src :=
  JsonV.Lemmas.QuoteSpan.appendQuoteIdx_eq f src

/-! ### Lossless -/

/-- For EVERY byte string and flag set, unquoting the quoted form succeeds and yields the text in which each
ill-formed byte has become exactly one U+FFFD. -/
theorem unquote_quote_lossy (f : QFlags) (s : Bytes) : appendUnquote (appendQuote f s).1 = (lossy s, Err.ok) := by
  simp only [appendQuote, appendUnquote, ↓reduceIte]
  exact unqLoop_quoteLoop f.html f.js s Err.ok

/-- `unquote (quote s) = s` for well-formed UTF-8, all flag sets; the quoting reports no error. -/
theorem unquote_quote (f : QFlags) (s : Bytes) (h : WellFormed s) :
    appendUnquote (appendQuote f s).1 = (s, Err.ok) ∧ (appendQuote f s).2 = Err.ok := by
  refine ⟨by rw [unquote_quote_lossy, lossy_of_wellFormed s h], ?_⟩
  unfold WellFormed at h
  simp [appendQuote, quoteLoop_inv, h]

example : WellFormed [0x3c, 0x22, 0xE2, 0x80, 0xA8, 0xF0, 0x9F, 0x98, 0x80] := by
  show illFormedCount _ = 0
  decide +kernel

/-- `Utf8.valid` (the model of `utf8.Valid`) is the same notion of well-formedness. -/
theorem wellFormed_of_valid (s : Bytes) (h : valid s = true) : WellFormed s := valid_wellFormed s h

/-- AppendQuote reports ErrInvalidUTF8 iff the input has an ill-formed byte and AllowInvalidUTF8 is off;
otherwise it reports no error (in particular it never fails in any other way). -/
theorem quote_error_iff (f : QFlags) (s : Bytes) :
    (appendQuote f s).2 = (if 0 < illFormedCount s ∧ f.allowInvalid = false then Err.invalidUTF8 else Err.ok) := by
  simp only [appendQuote, quoteLoop_inv]
  cases f.allowInvalid <;> by_cases h : 0 < illFormedCount s <;> simp [h]

/-- One U+FFFD (three bytes) per ill-formed byte (one byte), nothing else changes: the text recovered from the
quoted form is `lossy s`, which is `s` with each ill-formed byte replaced by EF BF BD (definition of `lossy`),
hence longer by exactly two bytes per ill-formed byte. -/
theorem fffd_count (f : QFlags) (s : Bytes) :
    (appendUnquote (appendQuote f s).1).1 = lossy s ∧ (lossy s).length = s.length + 2 * illFormedCount s := by
  exact ⟨by rw [unquote_quote_lossy], lossy_length s⟩

/-! ### Minimal -/

/-- Without escape flags the quoted form is the RFC 8785 §3.2.2.2 serialisation (for well-formed `s`, of `s`
itself; in general of the text with U+FFFD for each ill-formed byte, as `scalars` defines). -/
theorem quote_minimal (f : QFlags) (s : Bytes) (hh : f.html = false) (hj : f.js = false) :
    (appendQuote f s).1 = canonQuote s := by
  simp only [appendQuote, canonQuote, hh, hj, quoteLoop_canon]

example : (appendQuote {} [0x3c, 0x0a, 0x01, 0x22]).1 = [0x22, 0x3c, 0x5c, 0x6e, 0x5c, 0x75, 0x30, 0x30, 0x30, 0x31, 0x5c, 0x22, 0x22] := by
  decide +kernel

/-! ### Escape options -/

/-- EscapeForHTML: no raw `<`, `>`, `&` in the output, for every input (ill-formed included). -/
theorem html_safe (f : QFlags) (s : Bytes) (hh : f.html = true) :
    ∀ b ∈ (appendQuote f s).1, b ≠ 0x3c ∧ b ≠ 0x3e ∧ b ≠ 0x26 := by
  intro b hb
  have key : isHTMLChar b.toNat = false := by
    simp only [appendQuote, hh, List.mem_cons, List.mem_append, List.not_mem_nil, or_false] at hb
    rcases hb with rfl | hb | rfl
    · decide
    · exact quoteLoop_noHTML f.js s b hb
    · decide
  refine ⟨?_, ?_, ?_⟩ <;> (intro e; subst e; simp [isHTMLChar] at key)

/-- EscapeForJS: no raw U+2028 (E2 80 A8) or U+2029 (E2 80 A9) in the output, for every input. -/
theorem js_safe (f : QFlags) (s : Bytes) (hj : f.js = true) :
    ¬ [0xE2, 0x80, 0xA8] <:+: (appendQuote f s).1 ∧ ¬ [0xE2, 0x80, 0xA9] <:+: (appendQuote f s).1 := by
  have h : hasLS (appendQuote f s).1 = false := by
    simp only [appendQuote, hj]
    rw [show (0x22 : UInt8) :: ((quoteLoop f.html true s).1 ++ [0x22]) = [0x22] ++ ((quoteLoop f.html true s).1 ++ [0x22]) from rfl,
      hasLS_skip _ (by decide), quoteLoop_noLS]
    decide
  have hn : ¬ ([0xE2, 0x80, 0xA8] <:+: (appendQuote f s).1 ∨ [0xE2, 0x80, 0xA9] <:+: (appendQuote f s).1) := by
    intro x
    have := (hasLS_iff (appendQuote f s).1).mpr x
    rw [h] at this; cases this
  exact ⟨fun x => hn (Or.inl x), fun x => hn (Or.inr x)⟩

example : (appendQuote { html := true, js := true } [0x3c, 0xE2, 0x80, 0xA8]).1 =
    [0x22, 0x5c, 0x75, 0x30, 0x30, 0x33, 0x63, 0x5c, 0x75, 0x32, 0x30, 0x32, 0x38, 0x22] := by decide +kernel

/-- ReformatString, all three branches (verbatim copy is excluded by the flag, the PreserveRawStrings loop
escapes, the rest is re-quoted): no raw `<`, `>`, `&` under EscapeForHTML. -/
theorem reformat_html_safe (f : QFlags) (src : Bytes) (hh : f.html = true) :
    ∀ b ∈ (reformatString f src).1, b ≠ 0x3c ∧ b ≠ 0x3e ∧ b ≠ 0x26 := by
  intro b hb
  simp only [reformatString, hh] at hb
  split at hb
  · simp at hb
  · simp only [Bool.true_or, Bool.not_true, Bool.false_and, Bool.false_eq_true, ↓reduceIte] at hb
    split at hb
    · have key := preserveLoop_noHTML f.js _ _ b hb
      refine ⟨?_, ?_, ?_⟩ <;> (intro e; subst e; simp [isHTMLChar] at key)
    · exact html_safe f _ hh b hb

/-- ReformatString without PreserveRawStrings: no raw U+2028 / U+2029 under EscapeForJS. -/
theorem reformat_js_safe_partial (f : QFlags) (src : Bytes) (hj : f.js = true) (hp : f.preserve = false) :
    ¬ [0xE2, 0x80, 0xA8] <:+: (reformatString f src).1 ∧ ¬ [0xE2, 0x80, 0xA9] <:+: (reformatString f src).1 := by
  simp only [reformatString, hj, hp]
  split
  · simp
  · simp only [Bool.or_true, Bool.not_true, Bool.false_and, Bool.false_eq_true, ↓reduceIte]
    exact js_safe f _ hj

/-- ReformatString, all three branches incl. the PreserveRawStrings loop: no raw U+2028 / U+2029 under EscapeForJS,
for every input. -/
theorem reformat_js_safe (f : QFlags) (src : Bytes) (hj : f.js = true) :
    ¬ [0xE2, 0x80, 0xA8] <:+: (reformatString f src).1 ∧ ¬ [0xE2, 0x80, 0xA9] <:+: (reformatString f src).1 := by
  cases hp : f.preserve
  · exact reformat_js_safe_partial f src hj hp
  · have h : hasLS (reformatString f src).1 = false := by
      simp only [reformatString, hj, hp]
      split
      · rfl
      · simp only [Bool.or_true, Bool.not_true, Bool.false_and, Bool.false_eq_true, ↓reduceIte]
        exact preserveLoop_noLS f.html _ _
    have hn : ¬ ([0xE2, 0x80, 0xA8] <:+: (reformatString f src).1 ∨ [0xE2, 0x80, 0xA9] <:+: (reformatString f src).1) := by
      intro x
      have := (hasLS_iff (reformatString f src).1).mpr x
      rw [h] at this; cases this
    exact ⟨fun x => hn (Or.inl x), fun x => hn (Or.inr x)⟩

/-- Everything AppendUnquote returns is well-formed UTF-8 (so re-quoting it is lossless). -/
theorem unquote_wellFormed (src : Bytes) : WellFormed (appendUnquote src).1 := appendUnquote_wellFormed src

/-- ReformatString keeps the meaning of the literal: proved for the verbatim-copy branch and the re-quote branch
(i.e. whenever PreserveRawStrings is off or no escape option is on); the output then also unquotes without error
in the re-quote branch. -/
theorem reformat_meaning_partial (f : QFlags) (src : Bytes) (hok : (reformatString f src).2.2 = Err.ok)
    (hp : f.preserve = false ∨ (f.html = false ∧ f.js = false)) :
    (appendUnquote (reformatString f src).1).1 = (appendUnquote (src.take (reformatString f src).2.1)).1 := by
  simp only [reformatString] at hok ⊢
  split
  · rename_i herr; rw [if_pos herr] at hok; exact absurd hok herr
  · split
    · rfl
    · rename_i hv
      split
      · rename_i hpres
        rcases hp with hp | ⟨h1, h2⟩
        · rw [hp] at hpres; cases hpres
        · simp [h1, h2, hpres] at hv
      · simp only
        rw [unquote_quote_lossy, lossy_of_wellFormed _ (appendUnquote_wellFormed _)]

/-- ReformatString keeps the meaning of the literal in ALL three branches (verbatim copy, PreserveRawStrings loop with
EscapeForHTML/JS, re-quote) whenever AllowInvalidUTF8 is off; the output unquotes to the same text. -/
theorem reformat_meaning_strict (f : QFlags) (src : Bytes) (ha : f.allowInvalid = false)
    (hok : (reformatString f src).2.2 = Err.ok) :
    (appendUnquote (reformatString f src).1).1 = (appendUnquote (src.take (reformatString f src).2.1)).1 := by
  by_cases hp : f.preserve = false ∨ (f.html = false ∧ f.js = false)
  · exact reformat_meaning_partial f src hok hp
  · have hpres : f.preserve = true := by cases h : f.preserve <;> simp_all
    have hesc : (f.html || f.js) = true := by cases h1 : f.html <;> cases h2 : f.js <;> simp_all
    simp only [reformatString, ha, hpres, hesc, Bool.not_false, Bool.not_true, Bool.false_and, Bool.false_eq_true,
      ↓reduceIte] at hok ⊢
    split
    · rename_i herr; rw [if_pos herr] at hok; exact absurd hok herr
    · rename_i herr
      have hcs : consumeString true src = ((consumeString true src).1, Err.ok, (consumeString true src).2.2) := by
        have : (consumeString true src).2.1 = Err.ok := by
          cases h : (consumeString true src).2.1 <;> simp_all
        rw [← this]
      rw [JsonV.Lemmas.QuoteReformat.preserve_loop_meaning f.html f.js src _ _ hcs]

/-- **`preserve_is_jstring`**: over a literal the strict scanner accepts, the PreserveRawStrings loop (any EscapeForHTML /
EscapeForJS combination) outputs a string literal of the strict grammar again. -/
theorem preserve_is_jstring (html js : Bool) (src : Bytes) (n : Nat) (nc : Bool)
    (h : consumeString true src = (n, Err.ok, nc)) :
    JsonV.Spec.Grammar.JString true (preserveLoop html js n src) :=
  (JsonV.Lemmas.QuoteReformat.preserve_strict html js src n nc h).1

/-- **`preserve_idem`**: … and that output is a fixed point of the loop with the same flags (whatever follows it). -/
theorem preserve_idem (html js : Bool) (src : Bytes) (n : Nat) (nc : Bool)
    (h : consumeString true src = (n, Err.ok, nc)) (junk : Bytes) :
    preserveLoop html js (preserveLoop html js n src).length (preserveLoop html js n src ++ junk) = preserveLoop html js n src :=
  (JsonV.Lemmas.QuoteReformat.preserve_strict html js src n nc h).2.1 junk

/-- … and unquotes to the same text, without error. -/
theorem preserve_unquote (html js : Bool) (src : Bytes) (n : Nat) (nc : Bool)
    (h : consumeString true src = (n, Err.ok, nc)) :
    appendUnquote (preserveLoop html js n src) = appendUnquote (src.take n) :=
  (JsonV.Lemmas.QuoteReformat.preserve_strict html js src n nc h).2.2

/-- Every literal of C01's strict grammar is a `StringLiteral` (has an RFC 8259 meaning) and AppendUnquote returns it:
`unquote_meaning` applies to everything the strict scanner accepts. -/
theorem strict_literal_meaning (lit : Bytes) (h : JsonV.Spec.Grammar.JString true lit) :
    ∃ m, StringLiteral lit m ∧ appendUnquote lit = (m, Err.ok) := by
  obtain ⟨m, hm⟩ := JsonV.Lemmas.QuoteReformat.stringLiteral_of_jstring lit h
  exact ⟨m, hm, appendUnquote_meaning lit m hm⟩

/-- Full statement: reformatting keeps the meaning of the literal.  Open part: the PreserveRawStrings loop with an
escape option on AND AllowInvalidUTF8 (everything else is `reformat_meaning_partial` / `reformat_meaning_strict`). -/
def reformat_meaning_full : Prop :=
  ∀ (f : QFlags) (src : Bytes), (reformatString f src).2.2 = Err.ok →
    (appendUnquote (reformatString f src).1).1 = (appendUnquote (src.take (reformatString f src).2.1)).1

/-! ### Every valid literal unquotes to its RFC 8259 meaning -/

theorem unquote_meaning (lit m : Bytes) (h : StringLiteral lit m) : appendUnquote lit = (m, Err.ok) :=
  appendUnquote_meaning lit m h

example : StringLiteral [0x22, 0x5c, 0x6e, 0x22] [0x0a] :=
  ⟨[0x5c, 0x6e], rfl, Unescapes.simple (by decide) Unescapes.nil⟩

/-! ### ConsumeString's canonical flag -/

/-- ConsumeString leaves a literal it accepts canonical (no stringNonCanonical flag — the condition under which
ReformatString copies it verbatim) exactly when the literal is the RFC 8785 serialisation of its own meaning.
The boundary `v1 >= ' '` of decode.go:197 is `escNonCanon` in the model. -/
theorem consume_canonical_iff (v : Bool) (lit : Bytes)
    (h : (consumeString v lit).1 = lit.length ∧ (consumeString v lit).2.1 = Err.ok) :
    (consumeString v lit).2.2 = false ↔ lit = canonQuote (appendUnquote lit).1 :=
  consumeString_canonical_iff v lit h

/-- the RFC 8785 serialisation of any text is accepted and left canonical -/
theorem consume_canonQuote (v : Bool) (s : Bytes) : consumeString v (canonQuote s) = ((canonQuote s).length, Err.ok, false) :=
  consumeString_canonQuote v s

example : (consumeString true [0x22, 0x5c, 0x75, 0x30, 0x30, 0x32, 0x30, 0x22]).2.2 = true := by decide +kernel  -- "\u0020"
example : (consumeString true [0x22, 0x5c, 0x75, 0x30, 0x30, 0x31, 0x66, 0x22]).2.2 = false := by decide +kernel -- "\u001f"

/-! ### AppendUnquote on raw ill-formed bytes -/

/-- Unquoting raw content (no `"`, `\`, control byte) that may be ill-formed: the text with exactly one U+FFFD per
ill-formed byte (`lossy`, longer by two bytes for each), and ErrInvalidUTF8 iff there is at least one. -/
theorem unquote_fffd_count (body : Bytes) (hb : RawBody body) :
    appendUnquote (0x22 :: (body ++ [0x22])) =
      (lossy body, if 0 < illFormedCount body then Err.invalidUTF8 else Err.ok) ∧
    (lossy body).length = body.length + 2 * illFormedCount body := by
  refine ⟨?_, lossy_length body⟩
  simp only [appendUnquote, ↓reduceIte]
  exact unqLoop_raw body hb Err.ok

example : RawBody [0x61, 0xff, 0xE2, 0x80] := by
  intro b hb; simp at hb; rcases hb with rfl | rfl | rfl | rfl <;> decide

/-- The same for literals that MIX escape sequences, well-formed text and raw ill-formed bytes (`UnescapesLossy body m k`:
`m` has exactly one U+FFFD for each of the `k` ill-formed bytes): AppendUnquote returns `m`, with ErrInvalidUTF8 iff
`k > 0`. -/
theorem unquote_fffd_count_mixed (body m : Bytes) (k : Nat) (h : UnescapesLossy body m k) :
    appendUnquote (0x22 :: (body ++ [0x22])) = (m, if 0 < k then Err.invalidUTF8 else Err.ok) := by
  simp only [appendUnquote, ↓reduceIte]
  exact unqLoop_lossy h Err.ok

-- `"\n` FF `\u0041"` : meaning LF U+FFFD 'A', one ill-formed byte
example : UnescapesLossy [0x5c, 0x6e, 0xff, 0x5c, 0x75, 0x30, 0x30, 0x34, 0x31] ([0x0a] ++ (replacement ++ (encodeRune 0x41 ++ []))) 1 :=
  .simple (by decide) (.bad (by decide) (by decide +kernel) (.unicode (v := 0x41) (by decide) (by decide) .nil))

/-! ### Glue with slice C01 (Model/WireDecode.lean): one model of strings -/

open JsonV.Lemmas.GlueQuote in
/-- This slice's ConsumeString model equals C01's on every input (consumed length, stringNonCanonical, error class). -/
theorem glue_consumeString (b : Bytes) (v : Bool) :
    (JsonV.Model.Wire.consumeString b v).1 = (consumeString v b).1 ∧
    (JsonV.Model.Wire.consumeString b v).2.1.nonCanonical = (consumeString v b).2.2 ∧
    (JsonV.Model.Wire.consumeString b v).2.2 = errInj (consumeString v b).2.1 := consumeString_eq b v

open JsonV.Lemmas.GlueQuote in
/-- This slice's AppendUnquote model equals C01's `unquote` on every input. -/
theorem glue_unquote (src : Bytes) :
    JsonV.Model.Wire.unquote src = ((appendUnquote src).1, errInj (appendUnquote src).2) := unquote_eq src

open JsonV.Lemmas.GlueQuote in
theorem glue_errInj_injective : ∀ a b, errInj a = errInj b → a = b := errInj_injective

/-- C01's grammar theorem `string_iff`, for this slice's scanner. -/
theorem string_iff_quote (b : Bytes) (v : Bool) (n : Nat) :
    (∃ nc, consumeString v b = (n, Err.ok, nc)) ↔ n ≤ b.length ∧ JsonV.Spec.Grammar.JString v (b.take n) :=
  JsonV.Lemmas.GlueQuote.consumeString_grammar b v n

/-- **For slice C02 (`quote_escaped_full`)**: AppendQuote's output is a string literal of C01's grammar — in the strict
sense (well-formed UTF-8, no unpaired surrogate) as well as the lenient one — for EVERY EscapeForHTML / EscapeForJS /
AllowInvalidUTF8 combination and every input; its unquote is the (lossy) input by `unquote_quote_lossy`. -/
theorem quote_is_jstring (f : QFlags) (v : Bool) (s : Bytes) : JsonV.Spec.Grammar.JString v (appendQuote f s).1 :=
  JsonV.Lemmas.QuoteJString.appendQuote_is_jstring f v s

/-- the scanner consumes the whole quoted form without error, every flag set -/
theorem quote_consumed (v : Bool) (f : QFlags) (s : Bytes) :
    ∃ nc, consumeString v (appendQuote f s).1 = ((appendQuote f s).1.length, Err.ok, nc) :=
  JsonV.Lemmas.QuoteJString.consumeString_appendQuote v f s

/-! #### the Encoder model's own quote / unquote (slice sm, Model/Encoder.lean) -/

open JsonV.Lemmas.GlueEncQuote in
/-- The Encoder model's AppendQuote is this slice's AppendQuote: output and error flag, every option set and input. -/
theorem enc_appendQuote_eq (o : JsonV.Model.Encoder.Opts) (s : Bytes) :
    JsonV.Model.Encoder.appendQuote o s =
      ((appendQuote (flagsOf o) s).1, decide ((appendQuote (flagsOf o) s).2 = Err.invalidUTF8)) :=
  JsonV.Lemmas.GlueEncQuote.appendQuote_eq o s

open JsonV.Lemmas.GlueEncQuote in
/-- The Encoder model's `unquote` of a quoted string is the lossy input = this slice's AppendUnquote of it. -/
theorem enc_unquote_appendQuote (o : JsonV.Model.Encoder.Opts) (s : Bytes) :
    JsonV.Model.Encoder.unquote (JsonV.Model.Encoder.appendQuote o s).1 = lossy s ∧
    JsonV.Model.Encoder.unquote (JsonV.Model.Encoder.appendQuote o s).1 = (appendUnquote (appendQuote (flagsOf o) s).1).1 :=
  JsonV.Lemmas.GlueEncQuote.unquote_appendQuote o s

/-! #### name keys (C01 `nameKey` / C12 `Fmt.nameKey`) -/

/-- The name key of a literal of the selected mode (both UTF-8 modes) is its unquoted text. -/
theorem nameKey_unquote (o : JsonV.Model.Validate.VOpts) (q : Bytes)
    (h : JsonV.Spec.Grammar.JString (!o.allowInvalidUTF8) q) :
    JsonV.Lemmas.WireValue.nameKey o q = (appendUnquote q).1 :=
  JsonV.Lemmas.GlueNameKey.nameKey_unquote o q h

/-- … stated on `unescapedName`/`valueString`, to which every `nameKey` of the framework unfolds, with `Wire.unquote`. -/
theorem unescapedName_valueString (o : JsonV.Model.Validate.VOpts) (q : Bytes)
    (h : JsonV.Spec.Grammar.JString (!o.allowInvalidUTF8) q) :
    JsonV.Model.Validate.unescapedName q (JsonV.Model.Validate.valueString o q).2.1 = (JsonV.Model.Wire.unquote q).1 :=
  JsonV.Lemmas.GlueNameKey.unescapedName_valueString o q h

/-- C12's `NameKeyUnquote`, verbatim. -/
theorem fmt_nameKey_unquote : ∀ (o : JsonV.Fmt.FOpts) (raw : Bytes),
    JsonV.Spec.Grammar.JString (!o.allowInvalidUTF8) raw → JsonV.Fmt.nameKey o raw = (JsonV.Model.Wire.unquote raw).1 :=
  JsonV.Lemmas.GlueNameKey.fmt_nameKey_unquote

/-- The name key of AppendQuote's output is the (lossy) Go string, for every flag set and both UTF-8 modes. -/
theorem nameKey_appendQuote (o : JsonV.Model.Validate.VOpts) (f : QFlags) (s : Bytes) :
    JsonV.Lemmas.WireValue.nameKey o (appendQuote f s).1 = lossy s :=
  JsonV.Lemmas.GlueNameKey.nameKey_appendQuote o f s

/-- This slice's RFC 8259 meaning theorem, for C01's `unquote`. -/
theorem wire_unquote_meaning (lit m : Bytes) (h : StringLiteral lit m) :
    JsonV.Model.Wire.unquote lit = (m, JsonV.Model.Wire.Err.ok) :=
  JsonV.Lemmas.GlueQuote.wire_unquote_meaning lit m h

/-! ### Totality: the `panic("BUG: unhandled character")` branches are unreachable -/

theorem default_unreachable_unquote (src : Bytes) : (appendUnquote src).2 ≠ Err.bug := appendUnquote_no_bug src
theorem default_unreachable_consume (validate : Bool) (src : Bytes) : (consumeString validate src).2.1 ≠ Err.bug :=
  consumeString_no_bug validate src
theorem default_unreachable_reformat (f : QFlags) (src : Bytes) : (reformatString f src).2.2 ≠ Err.bug :=
  reformatString_no_bug f src

/-- AppendQuote is total with only two outcomes. -/
theorem quote_total (f : QFlags) (s : Bytes) : (appendQuote f s).2 = Err.ok ∨ (appendQuote f s).2 = Err.invalidUTF8 := by
  rw [quote_error_iff]; split <;> simp

end JsonV.Props.C11
