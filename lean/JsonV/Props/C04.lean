/-
C04 — Marshal then Unmarshal restores the value (round trip): the parts that are PROVED.

The integer/duration/unix-time codecs of arshal_time.go and the decimal integer printing/parsing are
pure integer code; their round trips are proved here for ALL 64-bit values (no sampling), on the model
`JsonV.Model.Time`, which mirrors the Go code (including the uint64/int64 wrap-around it relies on) and
is tied to the code by the correspondence check of harness/c04.go.

The round trip of whole Go values (structs, maps, options …) is NOT proved in this file: a tree-level statement over the
L3 model is slice c14's Props/C04L3.lean; here it is validated by the harness only (see meta/C04.json).
-/
import JsonV.Lemmas.TimeUnixRt
import JsonV.Lemmas.TimeISORt
import JsonV.Props.C10
import JsonV.Props.C10Glue
import JsonV.Lemmas.TimeFloatNF

namespace JsonV.Props.C04
open JsonV JsonV.Model.Time

theorem int64_range (d : Int64) : -9223372036854775808 ≤ d.toInt ∧ d.toInt < 9223372036854775808 := by
  have h1 := Int64.toInt_lt d
  have h2 := Int64.le_toInt d
  constructor
  · simpa using h2
  · simpa using h1

/-- The four bases used by the formats sec/milli/micro/nano (durations) and unix/unixmilli/unixmicro/unixnano (times). -/
def bases : List Nat := [1, 1000, 1000000, 1000000000]

theorem bases_pow {p : Nat} (h : p ∈ bases) : ∃ k, p = 10 ^ k := by
  simp only [bases, List.mem_cons, List.not_mem_nil, or_false] at h
  rcases h with rfl | rfl | rfl | rfl
  · exact ⟨0, by decide⟩
  · exact ⟨3, by decide⟩
  · exact ⟨6, by decide⟩
  · exact ⟨9, by decide⟩

/-- `uint_digits_rt`: the decimal text of every uint64 parses back to itself through `jsonwire.ParseUint`. -/
theorem uint_digits_rt (n : UInt64) : parseUint (natDigits n.toNat) = (n.toNat, true) :=
  parseUint_natDigits (by have := UInt64.toNat_lt n; simpa [U64] using this)

/-- `int_digits_rt`: the decimal text of every int64 (strconv.AppendInt) parses back to itself through the
int arshaler's parse path (optional '-', `ParseUint`, range test, wrapping negation) — including MinInt64. -/
theorem int_digits_rt (i : Int64) : parseInt64 (intDigits i.toInt) = .ok i.toInt :=
  parseInt64_intDigits i.toInt (int64_range i).1 (int64_range i).2

/-- digits of a number that does not fit 64 bits are rejected as overflow, never silently truncated. -/
theorem uint_overflow_detected (n : Nat) (h : 2 ^ 64 ≤ n) : parseUint (natDigits n) = (maxU64, false) :=
  parseUint_natDigits_ge (by simpa [U64] using h)

example : ∃ n : Nat, 2 ^ 64 ≤ n := ⟨2 ^ 64, Nat.le_refl _⟩

/-- `padded_rt`: zero-padded decimals of width `k+1` round-trip for every `n < 10^(k+1)`. -/
theorem padded_rt (k n : Nat) (h : n < 10 ^ (k + 1)) :
    parsePaddedBase10 (appendPaddedBase10 [] n (10 ^ (k + 1))) (10 ^ (k + 1)) = (n, true) :=
  padded_roundtrip k n h

example : (5 : Nat) < 10 ^ (2 + 1) := by decide

/-- `frac_rt`: the fraction text written by `appendFracBase10` (after any prefix `b`) parses back to `f`,
for every `f < 10^k`; trailing zeros are dropped by the writer and restored by the parser. -/
theorem frac_rt (b : Bytes) (k f : Nat) (h : f < 10 ^ k) :
    ∃ t, appendFracBase10 b f (10 ^ k) = b ++ t ∧ parseFracBase10 t (10 ^ k) = (f, true) :=
  ⟨fracText k f, appendFrac_eq' b k f h, parseFrac_fracText k f h⟩

example : (120 : Nat) < 10 ^ 3 := by decide

/-- `negate_involutive`: `negateSecNano` is an involution on int64 seconds × nanoseconds in `[0, 10^9)`. -/
theorem negate_involutive (sec : Int64) (nsec : Int) (h0 : 0 ≤ nsec) (h1 : nsec < 1000000000) :
    negateSecNano (negateSecNano sec.toInt nsec).1 (negateSecNano sec.toInt nsec).2 = (sec.toInt, nsec) :=
  JsonV.Model.Time.negate_involutive sec.toInt nsec (int64_range sec).1 (int64_range sec).2 h0 h1

example : (0 : Int) ≤ 999999999 ∧ (999999999 : Int) < 1000000000 := by decide

/-- `durB10_rt`: for EVERY int64 duration `d` and each base, `parseDurationBase10 (appendDurationBase10 d p) p = d`
(formats sec, milli, micro, nano; includes MinInt64 whose magnitude only exists as a uint64). -/
theorem durB10_rt (d : Int64) (p : Nat) (hp : p ∈ bases) :
    parseDurationBase10 (appendDurationBase10 [] d.toInt p) p = .ok d.toInt := by
  obtain ⟨k, rfl⟩ := bases_pow hp
  exact durB10_roundtrip_pow k d.toInt (int64_range d).1 (int64_range d).2

example : (1000 : Nat) ∈ bases := by decide

/-- `durISO_rt`: for EVERY int64 duration `d`, `parseDurationISO8601 (appendDurationISO8601 d) = d` with no error —
whatever the float-branch parameter `ff` of the model is: the writer only ever puts a fraction on the seconds
component, so the parser's float branch (fraction of an hour/minute/date unit) is never entered (third component
`false`).  Covers d = 0 ("PT0S"), MinInt64 (magnitude 2^63 only exists as a uint64), sub-second-only durations and
every combination of present/absent H, M, S components. -/
theorem durISO_rt (ff : FloatFrac) (d : Int64) :
    parseDurationISO8601 ff (appendDurationISO8601 [] d.toInt) = (d.toInt, none, false) :=
  durISO_roundtrip ff d.toInt (int64_range d).1 (int64_range d).2

/-! ### quoted numbers (StringifyNumbers, the `string` tag, map keys)

The marshaler writes `"` ++ decimal ++ `"` (digits and '-' never need escaping, so the JSON string is verbatim);
the unmarshaler's quoted path strips the two quotes (`jsonwire.UnquoteMayCopy(val, isVerbatim)`) and runs the
very same parse as for a bare number (slice C10: `Model/Number.lean`, `Props.C10.quoted_same`). -/

/-- the quoted form written by `AppendRaw('"', …)` for a number text. -/
def quoteNum (b : Bytes) : Bytes := 34 :: (b ++ [34])
/-- `jsonwire.UnquoteMayCopy(val, true)`: `val[1 : len(val)-1]`. -/
def unquoteVerbatim (b : Bytes) : Bytes := (b.drop 1).take (b.length - 2)

theorem unquote_quote (b : Bytes) : unquoteVerbatim (quoteNum b) = b := by
  simp [unquoteVerbatim, quoteNum]

/-- `quoted_num_rt` (signed): every in-range integer of every Go width, written in the quoted form, is read back
as itself by the quoted path; and the quoted path refuses a bare number (kind mismatch), as the bare path refuses a string. -/
theorem quoted_int_rt (w : Nat) (hw : JsonV.Lemmas.NumInt.GoWidth w) (i : Int)
    (h1 : -(2 ^ (w - 1) : Int) ≤ i) (h2 : i < 2 ^ (w - 1)) :
    JsonV.Model.Number.unmarshalIntValue w true .str (unquoteVerbatim (quoteNum (JsonV.Model.Number.formatInt i))) = .set i ∧
    JsonV.Model.Number.unmarshalIntValue w true .num (JsonV.Model.Number.formatInt i) = .err .mismatch ∧
    JsonV.Model.Number.unmarshalIntValue w false .str (JsonV.Model.Number.formatInt i) = .err .mismatch := by
  have hq := JsonV.Props.C10.quoted_same w (JsonV.Model.Number.formatInt i)
  refine ⟨?_, hq.2.2.1, hq.2.2.2.1⟩
  rw [unquote_quote, hq.1]
  simp [JsonV.Model.Number.unmarshalIntValue, JsonV.Props.C10.int_rt w hw i h1 h2]

example : JsonV.Lemmas.NumInt.GoWidth 8 ∧ -(2 ^ (8 - 1) : Int) ≤ -128 ∧ (-128 : Int) < 2 ^ (8 - 1) := ⟨Or.inl rfl, by decide, by decide⟩

/-- `quoted_num_rt` (unsigned). -/
theorem quoted_uint_rt (w : Nat) (hw : JsonV.Lemmas.NumInt.GoWidth w) (n : Nat) (h : n < 2 ^ w) :
    JsonV.Model.Number.unmarshalUintValue w true .str (unquoteVerbatim (quoteNum (JsonV.Model.Number.formatUint n))) = .set n ∧
    JsonV.Model.Number.unmarshalUintValue w true .num (JsonV.Model.Number.formatUint n) = .err .mismatch := by
  have hq := JsonV.Props.C10.quoted_same w (JsonV.Model.Number.formatUint n)
  refine ⟨?_, hq.2.2.2.2.1⟩
  rw [unquote_quote, hq.2.1]
  have hu : JsonV.Model.Number.unmarshalUint w (JsonV.Model.Number.formatUint n) = .ok n :=
    (JsonV.Props.C10.uint_bounds w hw _ n).2
      ⟨JsonV.Lemmas.NumInt.formatUint_canonical n, JsonV.Lemmas.NumInt.bytesVal_formatUint n, h⟩
  simp [JsonV.Model.Number.unmarshalUintValue, hu]

example : JsonV.Lemmas.NumInt.GoWidth 64 ∧ (18446744073709551615 : Nat) < 2 ^ 64 := ⟨Or.inr (Or.inr (Or.inr rfl)), by decide⟩

/-! ### quoted floats (`,string` float fields, StringifyNumbers, float map keys)

Over slice C10's model of the float arshaler (`Model/Number.lean`: `unmarshalFloatValue`, `appendFloat`) and its
glue theorem `Props.C10Glue.quoted_float_rt`.  The domain is instantiated with the NORMAL FORMS of the destination
format (`Lemmas/TimeFloatNF.lean`): every finite float64/float32 value has exactly one, and on them equal `Fl`
means identical IEEE bits (`float_bits_determine`).

What `FloatRT fp (NormalFl ff)` assumes about strconv — and nothing else — for the codec
`fp = ⟨strconv.ParseFloat(·, bits), shortest decomposition used by strconv.AppendFloat(·, 'e'/'f', -1, bits)⟩`:
  (wfd) the shortest decomposition `0.d₁…d_k × 10^n` of every value is well formed: decimal digits, `d₁ ≠ 0`,
        zero is `([], 0)`, and `|n - 1| < 1000`;
  (rt)  for every finite normal form `f` of the format, `ParseFloat(AppendFloat(f)) = f`, i.e. the shortest digits
        are enough for the correctly rounding parser to return the same value (the "shortest round-trip" contract
        of strconv.FormatFloat(-1) / ParseFloat).
Both are validated by the harnesses (C04/C10: ALL finite float32 bit patterns in the thorough tier, boundary and
random float64 patterns), not proved: strconv's digit generation is outside the model. -/

open JsonV.Lemmas.FloatNF in
/-- `quoted_float_rt` for C04: a finite float of format `ff` written by the float marshaler (`jsonwire.AppendFloat`)
is read back as the SAME value by the float unmarshaler — as a bare JSON number, and in the quoted form
(`"` ++ text ++ `"`, stripped by `UnquoteMayCopy`) used by `,string` fields, StringifyNumbers and map keys —
while the quoted path refuses the bare number and the bare path refuses the string (kind mismatch). -/
theorem quoted_float_rt (ff : JsonV.Model.Number.FloatFmt) (fp : JsonV.Canon.FloatCodec)
    (h : JsonV.Props.C10Glue.FloatRT fp (NormalFl ff)) (f : JsonV.Model.Number.Fl) (hd : NormalFl ff f) :
    JsonV.Model.Number.unmarshalFloatValue fp.parse false .num (fp.append f) = .set f ∧
    JsonV.Model.Number.unmarshalFloatValue fp.parse true .str (unquoteVerbatim (quoteNum (fp.append f))) = .set f ∧
    JsonV.Model.Number.unmarshalFloatValue fp.parse true .num (fp.append f) = .err .mismatch ∧
    JsonV.Model.Number.unmarshalFloatValue fp.parse false .str (fp.append f) = .err .mismatch := by
  have hq := JsonV.Props.C10Glue.quoted_float_rt fp (NormalFl ff) h f hd hd.1
  refine ⟨hq.1, ?_, ?_, ?_⟩
  · rw [unquote_quote]; exact hq.2
  · simp [JsonV.Model.Number.unmarshalFloatValue]
  · simp [JsonV.Model.Number.unmarshalFloatValue]

open JsonV.Lemmas.FloatNF in
/-- the two instances the library has: float64 and float32 destinations. -/
theorem quoted_float64_rt (fp : JsonV.Canon.FloatCodec) (h : JsonV.Props.C10Glue.FloatRT fp (NormalFl JsonV.Model.Number.fmt64))
    (f : JsonV.Model.Number.Fl) (hd : NormalFl JsonV.Model.Number.fmt64 f) :
    JsonV.Model.Number.unmarshalFloatValue fp.parse true .str (unquoteVerbatim (quoteNum (fp.append f))) = .set f :=
  (quoted_float_rt _ fp h f hd).2.1

open JsonV.Lemmas.FloatNF in
theorem quoted_float32_rt (fp : JsonV.Canon.FloatCodec) (h : JsonV.Props.C10Glue.FloatRT fp (NormalFl JsonV.Model.Number.fmt32))
    (f : JsonV.Model.Number.Fl) (hd : NormalFl JsonV.Model.Number.fmt32 f) :
    JsonV.Model.Number.unmarshalFloatValue fp.parse true .str (unquoteVerbatim (quoteNum (fp.append f))) = .set f :=
  (quoted_float_rt _ fp h f hd).2.1

open JsonV.Lemmas.FloatNF in
-- the domain is inhabited by ordinary values: 1.5 = 3·2^51 · 2^-52, the smallest subnormal, -0, MaxFloat64
example : NormalFl JsonV.Model.Number.fmt64 ⟨false, false, 6755399441055744, -52⟩ ∧
    NormalFl JsonV.Model.Number.fmt64 ⟨false, false, 1, -1074⟩ ∧ NormalFl JsonV.Model.Number.fmt64 ⟨true, false, 0, -1074⟩ ∧
    NormalFl JsonV.Model.Number.fmt64 ⟨false, false, 9007199254740991, 971⟩ ∧
    NormalFl JsonV.Model.Number.fmt32 ⟨false, false, 16777215, 104⟩ := by decide

open JsonV.Lemmas.FloatNF in
/-- … and the law is satisfiable on a non-empty part of that domain (the codec whose only value is +0), so the
implication is not vacuous; for the real strconv codec the law is the validated assumption described above. -/
example :
    let fp : JsonV.Canon.FloatCodec := ⟨fun _ => ⟨false, false, 0, -1074⟩, fun _ => ([], 0)⟩
    let dom : JsonV.Model.Number.Fl → Prop := fun f => NormalFl JsonV.Model.Number.fmt64 f ∧ f = ⟨false, false, 0, -1074⟩
    JsonV.Props.C10Glue.FloatRT fp dom ∧ dom ⟨false, false, 0, -1074⟩ :=
  ⟨⟨fun _ => (show JsonV.Lemmas.NumFloat.WFD [] 0 from ⟨by simp, by simp, fun _ => rfl, by omega, by omega⟩),
    fun f hf => hf.2.symm⟩, by decide, rfl⟩

open JsonV.Lemmas.FloatNF in
/-- "reads back as the same `Fl`" is "reads back with identical bits": on normal forms the IEEE-754 bit pattern
determines the representation (float64 and float32). -/
theorem float_bits_determine (f g : JsonV.Model.Number.Fl) :
    (NormalFl JsonV.Model.Number.fmt64 f → NormalFl JsonV.Model.Number.fmt64 g →
      f.toBits JsonV.Model.Number.fmt64 = g.toBits JsonV.Model.Number.fmt64 → f = g) ∧
    (NormalFl JsonV.Model.Number.fmt32 f → NormalFl JsonV.Model.Number.fmt32 g →
      f.toBits JsonV.Model.Number.fmt32 = g.toBits JsonV.Model.Number.fmt32 → f = g) :=
  ⟨toBits64_injective f g, toBits32_injective f g⟩

open JsonV.Lemmas.FloatNF in
/-- the v1 quoted arm (`StringifyWithLegacySemantics`: v1 `,string` fields and map keys parse with
strconv.ParseFloat on the Go syntax at the destination width) gives the same result, provided the Go-syntax
parser agrees with the JSON-number parser on the emitted text (the Go float syntax contains the JSON one). -/
theorem quoted_float_legacy_rt (ff : JsonV.Model.Number.FloatFmt) (fp : JsonV.Canon.FloatCodec)
    (h : JsonV.Props.C10Glue.FloatRT fp (NormalFl ff)) (f : JsonV.Model.Number.Fl) (hd : NormalFl ff f)
    (pfGo : Bytes → Except JsonV.Model.Number.NumErr JsonV.Model.Number.Fl)
    (hagree : pfGo (fp.append f) = if (fp.parse (fp.append f)).inf then .error .range else .ok (fp.parse (fp.append f))) :
    JsonV.Model.Number.unmarshalFloatLegacy pfGo (unquoteVerbatim (quoteNum (fp.append f))) = .set f := by
  have hj : JsonV.Spec.Grammar.JNumber (fp.append f) :=
    JsonV.Props.C10Glue.float_is_JNumber f.neg _ _ (h.wfd f)
  rw [unquote_quote, JsonV.Props.C10Glue.legacy_same_on_numbers fp.parse pfGo _ hj hagree]
  exact (JsonV.Props.C10Glue.quoted_float_rt fp (NormalFl ff) h f hd hd.1).2

/-- `timeUnix_rt`: for EVERY int64 second count, every nanosecond count in `[0, 10^9)` and each base
(formats unix, unixmilli, unixmicro, unixnano) `parseTimeUnix (appendTimeUnix (sec, nsec) p) p = (sec, nsec)`:
the pair is preserved EXACTLY — all four formats keep nanosecond precision because the digits below the unit
are written as a decimal fraction; nothing is truncated.  Covers the three regimes of the writer (`pow10 = 1`,
`|sec| < 10^9`, otherwise), the parser's re-read when the whole field overflows a uint64, and MinInt64.
(`time.Time` enters through `t.Unix()`, `t.Nanosecond()` and `time.Unix(sec, nsec)`, see Model/Time.lean.) -/
theorem timeUnix_rt (sec : Int64) (nsec : Int) (p : Nat) (h0 : 0 ≤ nsec) (h1 : nsec < 1000000000) (hp : p ∈ bases) :
    parseTimeUnix (appendTimeUnix [] sec.toInt nsec p) p = .ok (sec.toInt, nsec) := by
  have hr := int64_range sec
  simp only [bases, List.mem_cons, List.not_mem_nil, or_false] at hp
  rcases hp with rfl | rfl | rfl | rfl
  · exact timeUnix_roundtrip_pow 0 9 rfl (Or.inl rfl) _ _ hr.1 hr.2 h0 h1
  · exact timeUnix_roundtrip_pow 3 6 rfl (Or.inr (by decide)) _ _ hr.1 hr.2 h0 h1
  · exact timeUnix_roundtrip_pow 6 3 rfl (Or.inr (by decide)) _ _ hr.1 hr.2 h0 h1
  · exact timeUnix_roundtrip_pow 9 0 rfl (Or.inr (by decide)) _ _ hr.1 hr.2 h0 h1

example : (0 : Int) ≤ 999999999 ∧ (999999999 : Int) < 1000000000 ∧ (1000000 : Nat) ∈ bases := by decide

end JsonV.Props.C04
