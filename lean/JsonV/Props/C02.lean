/-
C02 — Marshal never emits malformed JSON, whatever the value or user code does.

Property theorems only (proofs live in Lemmas/EncInv*.lean).

What is PROVED here, for all inputs: every byte fragment that the marshal fast paths append to the
encoder buffer without going through `WriteToken`/`WriteValue` is a valid JSON value, and valid values
compose into valid arrays and objects of ANY length and nesting (`render_valid`, for every tree).
What is only VALIDATED (harness/c02.go, 2·10^4 / 2·10^6 generated programs): that the reflection code
emits only such fragments in such a structure, and everything about user code — see `marshal_valid_full`,
`one_value_full` and meta/C02.json.

`validValue`/`validAt` (Spec/ValidJson.lean) accept whitespace-free RFC 8259 values, with RFC 7493's
restrictions selected by `Opt.strict` / `Opt.noDup` and nesting limited by `Opt.maxDepth`.
-/
import JsonV.Spec.ValidJson
import JsonV.Model.EncInv
import JsonV.Model.State
import JsonV.Lemmas.EncInvL
import JsonV.Lemmas.EncInvCompose
import JsonV.Lemmas.EncInvTree
import JsonV.Lemmas.EncInvState
import JsonV.Lemmas.EncInvFloor
import JsonV.Lemmas.EncInvSound
import JsonV.Lemmas.EncInvGrammar
import JsonV.Lemmas.EncInvInst
import JsonV.Lemmas.NumFloat
import JsonV.Props.C10
import JsonV.Lemmas.NumJNumber
import JsonV.Props.C01
import JsonV.Lemmas.QuoteJString
import JsonV.Lemmas.EncInvNames
import JsonV.Lemmas.EncInvL3

namespace JsonV.Props.C02
open JsonV JsonV.Model JsonV.Spec.ValidJson JsonV.Model.EncInv
open JsonV.Lemmas.EncInvL JsonV.Lemmas.EncInvCompose JsonV.Lemmas.EncInvTree JsonV.Lemmas.EncInvState
open JsonV.Lemmas.EncInvFloor JsonV.Lemmas.EncInvSound JsonV.Lemmas.EncInvGrammar JsonV.Lemmas.EncInvInst
open JsonV.Spec.Grammar JsonV.Model.Quote

/-! ### the raw fragments are values (arshal_default.go:143, 479, 578, 829, 1509; arshal_any.go:125, 241) -/

/-- `strconv.AppendInt(·, i, 10)` is a JSON number for EVERY integer, at every nesting depth. -/
theorem int_digits_valid (o : Opt) (d : Nat) (i : Int) : validAt o d (intDigits i) = true :=
  validAt_intDigits o d i

/-- `strconv.AppendUint(·, n, 10)` is a JSON number for every natural number. -/
theorem uint_digits_valid (o : Opt) (d n : Nat) : validAt o d (natDigits n) = true :=
  validAt_natDigits o d n

/-- The rendering consists of digits only, is not empty, and has a leading zero only for 0. -/
theorem uint_digits_shape (n : Nat) : natDigits n ≠ [] ∧ (∀ c ∈ natDigits n, JsonV.Spec.ValidJson.isDigit c = true) ∧
    (∀ c ds, natDigits n = c :: ds → c = 0x30 → n = 0) :=
  ⟨natDigits_ne_nil n, natDigits_digits n, natDigits_head n⟩

/-- A sign appears exactly for negative integers (and then the magnitude follows). -/
theorem int_digits_sign (i : Int) :
    (i < 0 → intDigits i = 0x2d :: natDigits i.natAbs) ∧ (¬ i < 0 → intDigits i = natDigits i.toNat) := by
  constructor <;> intro h <;> simp [intDigits, h]

/-- `null`, `true`, `false`. -/
theorem lit_valid (o : Opt) (d : Nat) (q : Quoter o) :
    validAt o d (Frag.null.bytes q.quote) = true ∧ validAt o d ((Frag.bool true).bytes q.quote) = true ∧
    validAt o d ((Frag.bool false).bytes q.quote) = true :=
  ⟨validAt_null o d, validAt_true o d, validAt_false o d⟩

/-- `{}` and `[]` are values wherever one more container level is allowed … -/
theorem empty_containers_valid (o : Opt) (d : Nat) (h : d < o.maxDepth) :
    validAt o d [0x7b, 0x7d] = true ∧ validAt o d [0x5b, 0x5d] = true :=
  ⟨validAt_emptyObj o d h, validAt_emptyArr o d h⟩

/-- … and what `quote` returns is a value, given its law (a `Quoter` carries it; proved in C11). -/
theorem quoted_valid (o : Opt) (d : Nat) (q : Quoter o) (s : Bytes) : validAt o d (q.quote s) = true :=
  validAt_string o d _ (q.valid s)

/-- Every fragment is a value at every depth that leaves room for it. -/
theorem frag_valid (o : Opt) (q : Quoter o) (f : Frag) (d : Nat) (hd : d + f.depth ≤ o.maxDepth) :
    validAt o d (f.bytes q.quote) = true :=
  JsonV.Lemmas.EncInvTree.frag_valid o q f d hd

/-! ### composition, for lists of any length -/

/-- If every element is a valid value (one level deeper) then `[` x₁ `,` … `,` xₙ `]` is a valid value. -/
theorem array_compose (o : Opt) (d : Nat) (xs : List Bytes) (hd : d < o.maxDepth)
    (h : ∀ x ∈ xs, validAt o (d + 1) x = true) : validAt o d (arr xs) = true :=
  array_compose' o d xs hd h

/-- Same for objects: names are string literals, values are valid, and — when duplicates are not
allowed — the names are pairwise distinct as JSON strings (`nameKey` = the decoded name). -/
theorem object_compose (o : Opt) (d : Nat) (ms : List (Bytes × Bytes)) (hd : d < o.maxDepth)
    (h : ∀ m ∈ ms, validString o m.1 = true ∧ validAt o (d + 1) m.2 = true)
    (hk : o.noDup = true → (ms.map fun m => o.key m.1).Nodup) : validAt o d (obj ms) = true :=
  object_compose' o d ms hd h hk

/-- Nesting costs exactly one level: the children are judged at depth `d + 1`, the container is valid when
`d < maxDepth` (previous two theorems) and is NOT valid once the limit is reached, whatever it contains. -/
theorem compose_depth (o : Opt) (d : Nat) (h : ¬ d < o.maxDepth) (xs : List Bytes) (ms : List (Bytes × Bytes)) :
    validAt o d (arr xs) = false ∧ validAt o d (obj ms) = false :=
  ⟨invalid_beyond_maxDepth o d h 0x5b (.inl rfl) _, invalid_beyond_maxDepth o d h 0x7b (.inr rfl) _⟩

/-- The recogniser is local: a value followed by a delimiter is recognised as that value and leaves the
delimiter (this is what makes the composition theorems go through for every length). -/
theorem value_then_delimiter (o : Opt) (d : Nat) (x r : Bytes) (hx : validAt o d x = true) (hr : okFollow r) :
    parse o .value d (x ++ r) = some r := by
  have := parse_append o .value d x r [] ((validAt_iff o d x).mp hx) (fun _ => hr)
  simpa using this

/-! ### every tree of fragments renders to a valid value -/

/-- **Skeleton of `marshal_valid`.**  For every tree (any width, any nesting) built from the raw fragments,
with distinct names per object when duplicates are not allowed and nesting within the limit,
the rendered bytes are exactly one valid JSON value. -/
theorem render_valid (o : Opt) (q : Quoter o) (t : OutTree) (hw : t.WellFormed o q.quote)
    (hd : t.depth ≤ o.maxDepth) : validValue o (t.render q.quote) = true := by
  have := render_valid_aux o q t 0 hw (by omega)
  simpa [validAt, validValue] using this

/-! ### no private notion of validity: the grammar of slice C01 (Spec/Grammar.lean) -/

/-- **The recogniser is sound for RFC 8259 / RFC 7493.**  Whatever `validValue` accepts is a `JText` of slice C01's
grammar: strings in the selected UTF-8 mode (`strict`), member names pairwise different under `o.key` unless
duplicates are allowed, nesting at most `o.maxDepth`.  (`validValue` accepts no insignificant whitespace, so it
is an under-approximation; it is sound, which is the direction every theorem of this file needs.) -/
theorem validValue_sound (o : Opt) (b : Bytes) (h : validValue o b = true) :
    JText (gopts o) o.maxDepth o.key b :=
  JsonV.Lemmas.EncInvSound.validValue_sound o b h

/-- the same at any depth, for values -/
theorem validAt_sound (o : Opt) (d : Nat) (b : Bytes) (h : validAt o d b = true) :
    JValue (gopts o) o.maxDepth o.key d b :=
  JsonV.Lemmas.EncInvSound.validAt_sound o d b h

/-- `render_valid` read through `validValue_sound`: with a `Quoter` (law stated on the recogniser), every
well-formed tree renders to a text of the grammar. -/
theorem render_valid_text (o : Opt) (q : Quoter o) (t : OutTree) (hw : t.WellFormed o q.quote)
    (hd : t.depth ≤ o.maxDepth) : JText (gopts o) o.maxDepth o.key (t.render q.quote) :=
  validValue_sound o _ (render_valid o q t hw hd)

/-- **Every well-formed tree of fragments renders to an RFC 8259 / RFC 7493 text** — stated against the grammar
alone: the only thing asked of `quote` is that it returns string literals of the grammar. -/
theorem render_text (o : Opt) (quote : Bytes → Bytes) (hq : ∀ s, JString o.strict (quote s)) (t : OutTree)
    (hw : t.WellFormed o quote) (hd : t.depth ≤ o.maxDepth) :
    JText (gopts o) o.maxDepth o.key (t.render quote) :=
  ⟨[], _, [], jws_nil, render_jvalue o quote hq t 0 hw (by omega), jws_nil, by simp⟩

/-! ### the parameters instantiated with the models proved by slices C11 and C10 -/

/-- Slice C11's model of `jsonwire.AppendQuote` returns a strict string literal of the grammar for EVERY byte
string and EVERY flag set, EscapeForHTML / EscapeForJS included (ill-formed input comes out as U+FFFD)
— `appendQuote_is_jstring` of Lemmas/QuoteJString.lean. -/
theorem quote_is_string (f : QFlags) (v : Bool) (s : Bytes) : JString v (appendQuote f s).1 :=
  JsonV.Lemmas.QuoteJString.appendQuote_is_jstring f v s

/-- **`render_text` for the modelled AppendQuote, no hypothesis on `quote` left.** -/
theorem render_text_real (o : Opt) (f : QFlags) (t : OutTree)
    (hw : t.WellFormed o (realQuote f)) (hd : t.depth ≤ o.maxDepth) :
    JText (gopts o) o.maxDepth o.key (t.render (realQuote f)) :=
  render_text o (realQuote f) (fun s => quote_is_string f o.strict s) t hw hd

/-- What `WellFormed` asks of object names, for the modelled AppendQuote and the default key (AppendUnquote): the
key of a quoted Go string is that string with ill-formed bytes replaced by U+FFFD — so the condition is on the
Go-side names (what Go map keys / struct field names / `seenIdxs` provide), not on their quoted spellings. -/
theorem name_key_real (f : QFlags) (n : Bytes) :
    ({} : Opt).key (realQuote f n) = JsonV.Spec.StringSpec.lossy n :=
  key_realQuote f n

/-- Slice C10's models of strconv.AppendUint / AppendInt are the functions the fragment model uses, so
`int_digits_valid`, `uint_digits_valid` and `frag_valid` speak about them. -/
theorem ints_are_c10 (n : Nat) (i : Int) :
    JsonV.Model.Number.formatUint n = natDigits n ∧ JsonV.Model.Number.formatInt i = intDigits i :=
  ⟨formatUint_eq n, formatInt_eq i⟩

/-- … and they are numbers of the grammar. -/
theorem ints_are_numbers (n : Nat) (i : Int) :
    JNumber (JsonV.Model.Number.formatUint n) ∧ JNumber (JsonV.Model.Number.formatInt i) := by
  rw [formatUint_eq, formatInt_eq]; exact ⟨jnumber_natDigits n, jnumber_intDigits i⟩

/-- Floats: slice num's `float_is_JNumber` (Props/C10Glue.lean; proved here from the same two lemmas, `float_layout`
and `jnumber_numberToString`, to keep Lemmas/CanonAtom.lean out of this file's imports) — jsonwire.AppendFloat's output on every
well-formed shortest decomposition is a number of the grammar; so a float fragment `Frag.num` can always be
built from it (`float_frag`), and the law that `Frag.num` carries is no longer a parameter. -/
theorem float_fragment (neg : Bool) (ds : List Nat) (n : Int) (h : JsonV.Lemmas.NumFloat.WFD ds n) :
    JNumber (JsonV.Model.Number.appendFloat neg ds n) :=
  by rw [JsonV.Props.C10.float_layout neg ds n h]; exact JsonV.Lemmas.NumJNumber.jnumber_numberToString neg ds n h

/-- the recogniser's number scanner accepts every number of the grammar (completeness for numbers), which is what
`Frag.num` stores -/
theorem number_complete (lit : Bytes) (h : JNumber lit) : pNumber lit = some [] :=
  pNumber_complete lit h

/-- the float fragment for a well-formed decomposition -/
def float_frag (neg : Bool) (ds : List Nat) (n : Int) (h : JsonV.Lemmas.NumFloat.WFD ds n) : Frag :=
  .num (JsonV.Model.Number.appendFloat neg ds n) (pNumber_complete _ (float_fragment neg ds n h))

/-! ### what Marshal emits is what the decoder-side validator accepts -/

/-- the recogniser options that correspond to the validator options of slice C01 (`Model/Validate.lean`):
same UTF-8 mode, same duplicate policy, the decoder's nesting limit and the decoder's notion of a name's key -/
def optOf (vo : JsonV.Model.Validate.VOpts) : Opt :=
  { strict := !vo.allowInvalidUTF8, noDup := !vo.allowDup, maxDepth := JsonV.Model.Validate.maxNestingDepth,
    key := JsonV.Props.C01.nameKey vo }

/-- **`render_accepted`.**  The rendering of every well-formed tree of fragments is ACCEPTED by the model of
`jsontext.Value.IsValid` (slice C01's validator, which `valid_iff` shows to accept exactly the grammar): what the
marshal side emits is what the decoder side accepts, under the same options — in particular it is rejected
neither for syntax, nor for UTF-8, nor for duplicate names, nor for depth. -/
theorem render_accepted (vo : JsonV.Model.Validate.VOpts) (quote : Bytes → Bytes)
    (hq : ∀ s, JString (!vo.allowInvalidUTF8) (quote s)) (t : OutTree)
    (hw : t.WellFormed (optOf vo) quote) (hd : t.depth ≤ JsonV.Model.Validate.maxNestingDepth) :
    JsonV.Model.Validate.isValid vo (t.render quote) = true := by
  apply (JsonV.Props.C01.valid_iff vo _).2
  have := render_text (optOf vo) quote hq t hw hd
  simpa [optOf, JsonV.Lemmas.EncInvSound.gopts, JsonV.Props.C01.gopts] using this

/-- … with the modelled AppendQuote, nothing assumed about `quote`. -/
theorem render_accepted_real (vo : JsonV.Model.Validate.VOpts) (f : QFlags)
    (t : OutTree) (hw : t.WellFormed (optOf vo) (realQuote f))
    (hd : t.depth ≤ JsonV.Model.Validate.maxNestingDepth) :
    JsonV.Model.Validate.isValid vo (t.render (realQuote f)) = true :=
  render_accepted vo (realQuote f) (fun s => quote_is_string f _ s) t hw hd

/-! ### the condition on names, stated on the Go side -/

/-- The decoder's key of a quoted Go name is the name with ill-formed bytes replaced by U+FFFD (slice quote,
Lemmas/GlueNameKey.lean) — the analogue of `name_key_real` for the key that `render_accepted` uses. -/
theorem name_key_decoder (vo : JsonV.Model.Validate.VOpts) (f : QFlags) (n : Bytes) :
    (optOf vo).key (realQuote f n) = JsonV.Spec.StringSpec.lossy n := by
  show JsonV.Props.C01.nameKey vo (appendQuote f n).1 = _
  unfold JsonV.Props.C01.nameKey
  exact JsonV.Lemmas.GlueNameKey.unescapedName_appendQuote vo f n

/-- **`render_accepted` with the names condition on the Go side.**  If within every object of the tree the Go-side
names are pairwise different once ill-formed bytes are replaced by U+FFFD (`NamesOK … lossy`; only required when
duplicates are not allowed), the rendering with the modelled AppendQuote is accepted by the decoder-side validator
model.  Nothing is assumed about quoted spellings or keys any more. -/
theorem render_accepted_names (vo : JsonV.Model.Validate.VOpts) (f : QFlags) (t : OutTree)
    (hn : t.NamesOK (!vo.allowDup) JsonV.Spec.StringSpec.lossy) (hd : t.depth ≤ JsonV.Model.Validate.maxNestingDepth) :
    JsonV.Model.Validate.isValid vo (t.render (realQuote f)) = true :=
  render_accepted_real vo f t
    (JsonV.Lemmas.EncInvNames.wf_of_namesOK (optOf vo) (realQuote f) _ (name_key_decoder vo f) t hn) hd

/-! ### one default marshal path end to end: the L3 model of slices C04/C14 as a tree emitter -/

open JsonV.Lemmas.EncInvL3 in
/-- The bytes the L3 model `mar` (Model/Marshal.lean: bool, ints, floats, strings, slices, arrays, map[string]T,
pointers, structs, `any`; Deterministic) writes with the modelled AppendQuote: its tree, as a fragment tree, rendered. -/
def l3Bytes (mo : JsonV.Model.MOpts) (f : QFlags) (T : JsonV.Model.GoType) (v : JsonV.Model.GoVal) : Option Bytes :=
  match JsonV.Model.mar mo T v with
  | .ok j => some ((toOut j).render (realQuote f))
  | .error _ => none

open JsonV.Lemmas.EncInvL3 in
/-- **The L3 marshal model emits trees** (the `EmitsTree` obligation, for this model): whenever it succeeds on a
well-typed value of a well-formed type (struct field names valid UTF-8, float literals JSON numbers — the two things
the L3 model leaves to its parameters), its output is the rendering of a `WellFormed` fragment tree, for every option
record whose key sends a quoted name to the normalised name (both the AppendUnquote key and the decoder's key do). -/
theorem l3_emits_tree (o : Opt) (f : QFlags) (hk : ∀ n, o.key (realQuote f n) = JsonV.Spec.StringSpec.lossy n)
    (mo : JsonV.Model.MOpts) (T : JsonV.Model.GoType) (v : JsonV.Model.GoVal) (out : Bytes)
    (hwf : T.wf = true) (hn : namesUtf8 T = true) (ht : JsonV.Model.hasType T v = true) (hf : floatsOK v = true)
    (h : l3Bytes mo f T v = some out) :
    ∃ t : OutTree, t.WellFormed o (realQuote f) ∧ out = t.render (realQuote f) := by
  unfold l3Bytes at h
  cases hm : JsonV.Model.mar mo T v with
  | error e => simp [hm] at h
  | ok j =>
    simp only [hm, Option.some.injEq] at h
    exact ⟨toOut j, l3_wellFormed o (realQuote f) hk mo T v j hwf hn ht hf hm, h.symm⟩

open JsonV.Lemmas.EncInvL3 in
/-- **`marshal_valid` for the L3 model, end to end.**  For every well-formed type of the modelled universe
(structs, maps, slices, arrays, pointers, interfaces, scalars) and every well-typed value, if the model marshals it
(it always does: C04 `mar_total`) and the output nests within the limit, the BYTES are exactly one RFC 8259 / RFC 7493
text that the decoder-side validator model accepts — under either duplicate policy and either UTF-8 mode, with every
escaping flag.  The tie between the L3 model and the reflection code of arshal_default.go is CORRESPONDENCE ONLY
(the `arsh` operations of slices c04/c14 in the harness); this theorem is about the model. -/
theorem l3_marshal_valid (vo : JsonV.Model.Validate.VOpts) (f : QFlags) (mo : JsonV.Model.MOpts)
    (T : JsonV.Model.GoType) (v : JsonV.Model.GoVal) (j : JsonV.Spec.JTree)
    (hwf : T.wf = true) (hn : namesUtf8 T = true) (ht : JsonV.Model.hasType T v = true) (hf : floatsOK v = true)
    (h : JsonV.Model.mar mo T v = .ok j) (hd : (toOut j).depth ≤ JsonV.Model.Validate.maxNestingDepth) :
    l3Bytes mo f T v = some ((toOut j).render (realQuote f)) ∧
    JsonV.Model.Validate.isValid vo ((toOut j).render (realQuote f)) = true := by
  refine ⟨by simp [l3Bytes, h], ?_⟩
  exact render_accepted_real vo f (toOut j)
    (l3_wellFormed (optOf vo) (realQuote f) (name_key_decoder vo f) mo T v j hwf hn ht hf h) hd

/-! ### what remains between these theorems and C02 -/

/-- A marshal model (bytes out, or failure) EMITS TREES when every successful output is the rendering — with the
modelled AppendQuote — of a well-formed tree of fragments within the depth limit. -/
def EmitsTree {Val : Type} (marshal : Opt → QFlags → Val → Option Bytes) :
    Prop :=
  ∀ o f v out, marshal o f v = some out →
    ∃ t : OutTree, t.WellFormed o (realQuote f) ∧ t.depth ≤ o.maxDepth ∧ out = t.render (realQuote f)

/-- Proved: for ANY marshal model that emits trees, a successful output is exactly one RFC 8259 / RFC 7493 text. -/
theorem marshal_valid_of_emitsTree {Val : Type} (marshal : Opt → QFlags → Val → Option Bytes)
    (he : EmitsTree marshal) (o : Opt) (f : QFlags) (v : Val) (out : Bytes)
    (h : marshal o f v = some out) : JText (gopts o) o.maxDepth o.key out := by
  obtain ⟨t, hw, hd, rfl⟩ := he o f v out h
  exact render_text_real o f t hw hd

/-- **Precisely what remains unproved for C02 on the default (no user code, no whitespace) paths:** that the reflection code of arshal_default.go / arshal_any.go / arshal_embedded.go, as a function from
(options, Go value) to bytes-or-error, emits trees — i.e. that it only ever appends the fragments of
`Model/EncInv.lean` in the nesting of an `OutTree`, with pairwise different names per object when duplicates
are not allowed and within the nesting limit.  For the tree-level L3 model of slices C04/C14 (`Model/Marshal.lean`) the obligation IS proved above
(`l3_emits_tree`, `l3_marshal_valid`); that model is tied to the code by differential testing only, and it does
not cover user code, options beyond two, omit*/string/format tags, embedded fallbacks or non-string map keys.
There is no byte-level Lean model of the reflection code itself, so the statement is
a predicate on `code`, to be instantiated with a byte-level model of the reflection code once one exists; harness/c02.go validates the conclusion of
`marshal_valid_of_emitsTree` on the real code for 6·10^4 / 2·10^6 generated programs per run. -/
def marshal_valid_full {Val : Type} (code : Opt → QFlags → Val → Option Bytes) : Prop := EmitsTree code

/-! ### the exactly-one-value check (arshal_methods.go:221-229, arshal_funcs.go:220-228) -/

/-- A scalar token leaves the stack alone and advances the current container by exactly one. -/
theorem scalar_one_value (m m' : Machine)
    (h : m.appendLiteral = .ok m' ∨ m.appendString = .ok m' ∨ m.appendNumber = .ok m') :
    m'.stack = m.stack ∧ m'.last = m.last.increment :=
  scalar_step m m' h

/-- Opening a container and closing THAT container (whatever its entry `e` has become in between) restores
the stack and advances the enclosing container by exactly one. -/
theorem container_one_value (k : Nat) (m m1 m2 : Machine) (e : Entry) :
    ((m.pushArray k = .ok m1 ∧ Machine.popArray { stack := m1.stack, last := e } = .ok m2) ∨
     (m.pushObject k = .ok m1 ∧ Machine.popObject { stack := m1.stack, last := e } = .ok m2)) →
    m2.stack = m.stack ∧ m2.last = m.last.increment := by
  rintro (⟨h1, h2⟩ | ⟨h1, h2⟩)
  · exact push_pop_array k m m1 m2 e h1 h2
  · exact push_pop_object k m m1 m2 e h1 h2

/-- the machine inside `[v` (one element written), as after `WriteToken('[')`, `WriteToken(v)` -/
def inArray1 : Machine := { stack := [Entry.typeArray.increment], last := Entry.typeArray.increment }

/-- `]` `[` v v : leave the array the script was called in and build another one. -/
def escapeScript (k : Nat) (m : Machine) : Except SMErr Machine := do
  let m ← m.popArray
  let m ← m.pushArray k
  let m ← m.appendLiteral
  m.appendLiteral

/-- **The (depth, length) comparison alone does not imply "one value was written".**  On the bare state
machine the escape script succeeds, ends at the same depth with length + 1 — exactly what the comparison
tests — yet it has closed the enclosing array and opened another (the saved parent entry changed).
This was defect D6 of /repo (found by harness/c02.go).  Since commit a29e0ae the code no longer relies on
that comparison alone: the state machine carries a floor that user code cannot pop below — see
`escape_refused_under_floor` and `one_value` below. -/
theorem depth_length_check_insufficient : ∃ m', escapeScript 10000 inArray1 = .ok m' ∧
    m'.depthLength = (inArray1.depth, inArray1.last.length + 1) ∧ m'.stack ≠ inArray1.stack :=
  ⟨{ stack := [Entry.typeArray.increment.increment], last := Entry.typeArray.increment.increment },
    by rfl, by decide, by decide⟩

/-- The same script under the floor of its entry depth (what MarshalJSONTo / MarshalToFunc now run under):
the very first token is refused with `errEnclosingEnd`. -/
theorem escape_refused_under_floor :
    runF 10000 inArray1.stack.length inArray1 [.popA, .pushA, .lit, .lit] = .error .enclosingEnd := by
  rfl

/-- **Exactly one value.**  Let a script of state-machine operations run under the floor of its entry depth
(`runF`: `popObject`/`popArray` are refused when `stack.length ≤ floor`, as in state.go since a29e0ae).
If it ends without error at the entry depth with the length of the current container advanced by one —
the test of arshal_methods.go:227 / arshal_funcs.go:226 — then the script is exactly one complete JSON value:
nothing left open, nothing closed that it did not open itself (with matching kinds), one top-level item
(`wroteOneValue`, an executable reading: a scalar token or one balanced container).
Side condition: the 61-bit element counter does not wrap during the script. -/
theorem one_value (k : Nat) (m t : Machine) (ops : List Op)
    (h : runF k m.stack.length m ops = .ok t) (hd : t.depth = m.depth)
    (hl : t.last.length = m.last.length + 1) (hb : m.last.length + ops.length < 2^61) :
    wroteOneValue ops :=
  one_value_floor k m t ops h hd hl hb

/-- In general (any start, any kinds, counting included): a successful run under the floor follows `scan`. -/
theorem run_follows_scan (k : Nat) (m t : Machine) (ops : List Op)
    (h : runF k m.stack.length m ops = .ok t) (hb : m.last.length + ops.length < 2^61) :
    ∃ ks n, scan [] 0 ops = some (ks, n) ∧ t.stack.length = m.stack.length + ks.length := by
  obtain ⟨e0', ks', n', hscan, ⟨_, hpos⟩, _⟩ :=
    run_scan k m.stack ops m t m.last [] 0 m.last.length h ⟨Nat.le_refl _, .inl ⟨rfl, rfl, rfl⟩⟩ hb
  refine ⟨ks', n', hscan, ?_⟩
  rcases hpos with ⟨h1, _, h3⟩ | ⟨es, h1, h2, _⟩
  · simp [h1, h3]
  · simp [h1, h2]

example : wroteOneValue [.pushA, .lit, .pushO, .str, .num, .popO, .popA] := by decide
example : ¬ wroteOneValue [.popA, .pushA, .lit, .lit] := by decide
example : ∃ t, runF 10000 inArray1.stack.length inArray1 [.pushO, .str, .lit, .popO] = .ok t ∧
    t.depth = inArray1.depth ∧ t.last.length = inArray1.last.length + 1 :=
  ⟨_, rfl, by decide, by decide⟩

/-! ### the hypotheses are satisfiable -/

/-- a `Quoter` exists for the default options (here: one that maps everything to `""`) -/
def trivialQuoter (o : Opt) : Quoter o := ⟨fun _ => [0x22, 0x22], fun _ => by simp [validString, strBody]⟩

example : validValue {} (arr [intDigits (-12), natDigits 0, [0x6e, 0x75, 0x6c, 0x6c]]) = true :=
  array_compose {} 0 _ (by decide) (by
    intro x hx
    simp only [List.mem_cons, List.not_mem_nil, or_false] at hx
    rcases hx with rfl | rfl | rfl
    · exact int_digits_valid _ _ _
    · exact uint_digits_valid _ _ _
    · exact validAt_null _ _)

example : (OutTree.arr [.atom (.int (-5)), .obj [([0x61], .atom .emptyArr)], .arr []]).WellFormed {} (trivialQuoter {}).quote := by
  simp [OutTree.WellFormed, wfList, wfMembers, renderMembers]

example : okFollow [0x2c, 0x31] := okFollow_comma _

-- `render_text_real` applies: a tree with an object is well formed for the modelled AppendQuote (one name: nothing to compare)
example : (OutTree.arr [.atom (.int (-5)), .obj [([0x61, 0xff], .atom .emptyArr)], .atom (.str [0x22])]).WellFormed {}
    (realQuote {}) := by
  simp [OutTree.WellFormed, wfList, wfMembers, renderMembers]

example : JText (gopts {}) 10000 ({} : Opt).key
    ((OutTree.arr [.atom (.int (-5)), .obj [([0x61, 0xff], .atom .emptyArr)], .atom (.str [0x22])]).render (realQuote {})) :=
  render_text_real {} {} _ (by simp [OutTree.WellFormed, wfList, wfMembers, renderMembers])
    (by simp [OutTree.depth, depthList, depthMembers, Frag.depth])

-- `render_accepted_real` applies: the decoder-side validator model accepts the rendering of that tree
example : JsonV.Model.Validate.isValid {}
    ((OutTree.arr [.atom (.int (-5)), .obj [([0x61, 0xff], .atom .emptyArr)], .atom (.str [0x22])]).render (realQuote {})) = true :=
  render_accepted_real {} {} _ (by simp [OutTree.WellFormed, wfList, wfMembers, renderMembers])
    (by simp [OutTree.depth, depthList, depthMembers, Frag.depth]; decide)

-- `l3_marshal_valid` applies: []bool{true} and struct{A []bool "a"}{…} through the L3 model
example : JsonV.Model.Validate.isValid {}
    ((JsonV.Lemmas.EncInvL3.toOut (.obj [([0x61], .arr [.bool true])])).render (realQuote {})) = true :=
  (l3_marshal_valid {} {} {} (.struct [([0x61], .slice .bool)]) (.structOf [([0x61], .sliceOf [.bool true])])
    (.obj [([0x61], .arr [.bool true])]) (by decide) (by decide) (by decide) (by decide) (by rfl)
    (by simp [JsonV.Lemmas.EncInvL3.toOut, JsonV.Lemmas.EncInvL3.toOutM, JsonV.Lemmas.EncInvL3.toOutL, OutTree.depth,
      depthList, depthMembers, Frag.depth]; decide)).2

end JsonV.Props.C02
