/-
C08 — Ambiguous input is rejected by default: duplicate names and invalid UTF-8.

Property theorems only (proofs are in `JsonV.Lemmas.Dup*`).  They cover the mechanisms with which the library
detects duplicate names — the struct `seenIdxs` bit set (`uintSet`), the coder namespace (`objectNamespace`,
both representations and the switch between them) and the invalidation of namespaces after a failed call —
for ALL sequences of operations — and, over the L2/L3 model of slice C14, the end-to-end statement that a
successful default Unmarshal implies a duplicate-free input tree.  What remains unproved is kept as
`def …_full : Prop` at the end and is validated by the harness (harness/c08.go).

`Gen.*` is regenerated from /repo on every run (Tie A): bodies of `uintSet64.has/set`, the `stateEntry` masks.
-/
import JsonV.Model.UintSet
import JsonV.Model.Namespace
import JsonV.Model.State
import JsonV.Lemmas.DupUintSet
import JsonV.Lemmas.DupNamespace
import JsonV.Lemmas.DupStruct
import JsonV.Lemmas.DupPoison
import JsonV.Gen.Straight
import JsonV.Gen.Constants
import JsonV.Gen.Lits
import JsonV.Spec.Tree
import JsonV.Model.Unmarshal
import JsonV.Lemmas.MergeClauses
import JsonV.Lemmas.MergeDup
import JsonV.Lemmas.DupGrammar
import JsonV.Lemmas.GlueNameKey
import JsonV.Props.C01
import JsonV.Props.C02
import JsonV.Props.C03
import JsonV.Props.C04L3

namespace JsonV.Props.C08
open JsonV JsonV.Model JsonV.Lemmas.Dup

/-! ### Tie A: regenerated code = hand model -/

theorem tie_uintSet64_has (s i : BitVec 64) : Gen.json_uintSet64_has s i = UintSet64.has s i.toNat := rfl

theorem tie_uintSet64_set (s i : BitVec 64) : Gen.json_uintSet64_set s i = UintSet64.set s i.toNat := rfl

/-- On the 64-bit fast path (`i < 64`) `uintSet.has/insert` are the regenerated `uintSet64` bodies on `lo`. -/
theorem tie_lo (s : UintSet) (i : Nat) (hi : i < 64) :
    s.has i = Gen.json_uintSet64_has s.lo (BitVec.ofNat 64 i) ∧
    (s.insert i).1 = ⟨Gen.json_uintSet64_set s.lo (BitVec.ofNat 64 i), s.hi⟩ ∧
    (s.insert i).2 = !Gen.json_uintSet64_has s.lo (BitVec.ofNat 64 i) := by
  have e : (BitVec.ofNat 64 i).toNat = i := by simp [BitVec.toNat_ofNat]; omega
  simp [UintSet.has, UintSet.insert, UintSet.wordBits, hi, tie_uintSet64_has, tie_uintSet64_set, e]

example : (3 : Nat) < 64 := by decide

/-- The thresholds of the model are the integer literals of `objectNamespace.insert`, in source order
(`ns.length() > 64 || len(ns.allUnquotedNames) > 1024`); `reset` trims with the same two numbers.
Editing a threshold in state.go breaks this theorem (not only the correspondence). -/
theorem tie_thresholds :
    Gen.jsontext_objectNamespace_insert_ints = [(nsCountThreshold : Int), (nsBytesThreshold : Int)] ∧
    Gen.jsontext_objectNamespace_reset_ints = [0, 0, (nsCountThreshold : Int), (nsBytesThreshold : Int)] := by
  decide

/-- Every integer literal of `uintSet.has` and `uintSet.insert` is the word size of the model
(`i < 64`, `i -= 64`, `i/64`, `i%64`), plus the `+1` of the growth step `iHi+1-len(s.hi)`. -/
theorem tie_uintset_literals :
    Gen.json_uintSet_has_ints = List.replicate 4 (UintSet.wordBits : Int) ∧
    Gen.json_uintSet_insert_ints = List.replicate 4 (UintSet.wordBits : Int) ++ [1] := by
  decide

/-- The namespace bits of `stateEntry` used by the model are the regenerated masks. -/
theorem tie_namespace_bits :
    Entry.disableNamespaceBit.toNat = Gen.jsontext.c_stateDisableNamespace ∧
    Entry.invalidNamespaceBit.toNat = Gen.jsontext.c_stateInvalidNamespace ∧
    Gen.jsontext.c_stateNamespaceMask = Gen.jsontext.c_stateDisableNamespace + Gen.jsontext.c_stateInvalidNamespace := by
  decide

/-! ### `uintSet`: a set of naturals, for every index and every growth of `hi` -/

/-- `insert i` reports `true` iff `i` was not in the set. -/
theorem uintset_spec (s : UintSet) (i : Nat) : (s.insert i).2 = true ↔ s.has i = false := by
  rw [insert_snd, has_eq_bit]; cases bit s i <;> simp

/-- After `insert i` exactly `i` was added. -/
theorem uintset_has_insert (s : UintSet) (i j : Nat) : (s.insert i).1.has j = true ↔ (j = i ∨ s.has j = true) := by
  rw [has_eq_bit, has_eq_bit, bit_insert]; simp

theorem uintset_empty (i : Nat) : UintSet.empty.has i = false := by
  rw [has_eq_bit]; exact bit_empty i

/-- Every sequence of inserts (any naturals, any order), starting from the zero value:
`has j` holds afterwards iff `j` was inserted, and the k-th insert returned `true` iff its index
does not occur earlier in the sequence. -/
theorem uintset_seq_spec (is : List Nat) :
    (∀ j, (UintSet.empty.insertAll is).1.has j = true ↔ j ∈ is) ∧
    (UintSet.empty.insertAll is).2.length = is.length ∧
    (∀ k (hk : k < is.length), (UintSet.empty.insertAll is).2[k]? = some true ↔ is[k] ∉ is.take k) := by
  obtain ⟨h1, h2, h3⟩ := insertAll_spec is UintSet.empty
  refine ⟨?_, h2, ?_⟩
  · intro j; rw [has_eq_bit, h1, bit_empty]; simp
  · intro k hk; rw [h3 k hk, bit_empty]; simp

/-! ### `objectNamespace`: both representations, the switch, any history -/

/-- The representation invariant holds for the zero value and is preserved by every operation. -/
theorem ns_wf_empty : WF Namespace.empty := wf_empty

theorem ns_wf_insert (ns : Namespace) (h : WF ns) (x : Bytes) : WF (ns.insert x).1 := (insert_spec ns h x).2.2

theorem ns_wf_removeLast (ns : Namespace) (h : WF ns) : WF ns.removeLast := (removeLast_spec ns h).2.1

/-- `insert name` returns `false` iff the name is already held — in linear mode, in map mode, and on the
very insert that switches the mode. -/
theorem insert_iff (ns : Namespace) (h : WF ns) (x : Bytes) : (ns.insert x).2 = false ↔ x ∈ ns.names := by
  rw [(insert_spec ns h x).1]; simp

example : WF Namespace.empty := wf_empty

/-- A rejected insert changes no name; an accepted one appends exactly the name. -/
theorem insert_names (ns : Namespace) (h : WF ns) (x : Bytes) :
    (ns.insert x).1.names = if x ∈ ns.names then ns.names else ns.names ++ [x] := (insert_spec ns h x).2.1

/-- `removeLast` drops exactly the last name (on the empty namespace, where Go panics, the model is the identity). -/
theorem removeLast_names (ns : Namespace) (h : WF ns) : ns.removeLast.names = ns.names.dropLast :=
  (removeLast_spec ns h).1

/-- When the map representation is used: from the first insert that finds more than 64 names or more than
1024 name bytes, and for ever after (removeLast never switches back). -/
theorem mode_switch (ns : Namespace) (x : Bytes) :
    (ns.insert x).1.usesMap = (ns.usesMap || decide (ns.length > 64) || decide (ns.totalBytes > 1024)) :=
  usesMap_insert ns x

theorem mode_removeLast (ns : Namespace) (h : WF ns) : ns.removeLast.usesMap = ns.usesMap :=
  (removeLast_spec ns h).2.2

/-- `reset` (reuse of the slot for a sibling object or the next top-level value) forgets everything, the map too. -/
theorem reset_empty (ns : Namespace) : ns.reset = Namespace.empty ∧ ns.reset.usesMap = false ∧ ns.reset.names = [] :=
  ⟨rfl, rfl, rfl⟩

/-- Any history of inserts, removeLast and reset, across the mode switch, is indistinguishable from the mode-free
reference (a plain list with "append unless present"): same results, same names. -/
theorem history_mode_free (ops : List Namespace.Op) :
    ((Namespace.run Namespace.empty ops).1.names, (Namespace.run Namespace.empty ops).2) = specRun [] ops :=
  (run_spec ops Namespace.empty wf_empty).1

/-- The names held by a namespace after any history are pairwise distinct. -/
theorem no_dups_invariant (ops : List Namespace.Op) : (Namespace.run Namespace.empty ops).1.names.Nodup :=
  (run_spec ops Namespace.empty wf_empty).2.1

/-- Feeding the member names of one object to a fresh namespace: all are accepted iff they are pairwise distinct
(so an object of any size is rejected iff it has two equal names). -/
theorem object_accept_iff_nodup (names : List Bytes) :
    (Namespace.run Namespace.empty (names.map Namespace.Op.ins)).2.all id = true ↔ names.Nodup := by
  have h := congrArg Prod.snd (history_mode_free (names.map Namespace.Op.ins))
  simp only at h
  rw [h, specRun_all_iff]; simp

/-! ### Struct unmarshaling: `seenIdxs` and the namespace together -/

/-- With any field-resolution function, the names of an object (a list of any length) pass the `seenIdxs`
check iff no two of them resolve to the same field. -/
theorem struct_dup_detect {α : Type} (resolve : α → Option Nat) (names : List α) :
    seenAccepts resolve names UintSet.empty = true ↔
      names.Pairwise (fun a b => ∀ f, resolve a = some f → resolve b ≠ some f) := by
  rw [seenAccepts_iff, fieldIds, List.Nodup, List.pairwise_filterMap]
  constructor
  · rintro ⟨h, _⟩
    exact h.imp (fun hab f hf hb => hab f hf f hb rfl)
  · intro h
    refine ⟨?_, fun f _ => bit_empty f⟩
    refine h.imp ?_
    intro a b hab f hf f' hf' e
    subst e
    exact hab f hf hf'

/-- Names that resolve to a declared field are checked by field, all others by the object's namespace:
the object is accepted iff the resolved field ids are pairwise distinct and the unresolved (skipped or
fallback) names are pairwise distinct. -/
theorem struct_members_detect {α : Type} (resolve : α → Option Nat) (unq : α → Bytes) (names : List α) :
    structAccepts resolve unq names UintSet.empty Namespace.empty = true ↔
      (fieldIds resolve names).Nodup ∧ (unknownNames resolve unq names).Nodup := by
  rw [structAccepts_iff resolve unq names UintSet.empty Namespace.empty wf_empty]
  constructor
  · rintro ⟨⟨h1, _⟩, h2, _⟩; exact ⟨h1, h2⟩
  · rintro ⟨h1, h2⟩
    exact ⟨⟨h1, fun f _ => bit_empty f⟩, h2, fun u _ => by simp [Namespace.empty]⟩

/-! ### Poisoned coders -/

/-- If the current object's namespace was disabled when a marshal/unmarshal call failed, then after
`InvalidateDisabledNamespaces` every transition of the state machine is refused (a string — hence any
further object name — with `errInvalidNamespace`).  A refused transition returns no new state, so this
holds for every later call as well. -/
theorem poisoned (m : Machine) (maxDepth : Nat) (h : m.last.isActiveNamespace = false) :
    let m' := m.invalidateDisabledNamespaces
    m'.appendString = .error .invalidNamespace ∧
    (∀ r, m'.appendLiteral ≠ .ok r) ∧ (∀ r, m'.appendNumber ≠ .ok r) ∧
    (∀ r, m'.pushObject maxDepth ≠ .ok r) ∧ (∀ r, m'.pushArray maxDepth ≠ .ok r) ∧
    (∀ r, m'.popObject ≠ .ok r) ∧ (∀ r, m'.popArray ≠ .ok r) := by
  intro m'
  have hv : m'.last.isValidNamespace = false := last_invalid m h
  refine ⟨?_, ?_, ?_, ?_, ?_, ?_, ?_⟩
  · simp [Machine.appendString, hv]
  · intro r; unfold Machine.appendLiteral; split <;> simp [hv]
  · intro r; unfold Machine.appendNumber Machine.appendLiteral; split <;> simp [hv]
  · intro r; unfold Machine.pushObject; split <;> simp [hv]
  · intro r; unfold Machine.pushArray; split <;> simp [hv]
  · intro r; unfold Machine.popObject; split <;> (try split) <;> simp [hv]
  · intro r; unfold Machine.popArray; split <;> simp [hv]

example : (Entry.disableNamespace Entry.typeObject).isActiveNamespace = false := by decide

/-! ### End to end over the L2/L3 model of slice C14 (`Spec.JTree`, `Model.unm`)

`unm o T j prior` models `json.Unmarshal` under the DEFAULT options into a destination of type `T` holding `prior`
(types: bool, ints, uints, float64, string, slices, arrays, map[string]T, pointers, structs with exact-name fields,
`any`).  The tree `j` has names already unescaped, so "equal names" below means equal after unescaping. -/

open JsonV.Spec in
/-- Default options: a successful Unmarshal — into ANY modelled type, with ANY prior content of the destination —
implies that no object anywhere in the input repeats a name.  "Anywhere" is literal: the model (like the
library, which validates them with the coder namespaces) also checks the values of skipped unknown struct
members, the surplus elements of a Go array, and values of the wrong JSON kind handed to string/number types,
so `dupFree` speaks about the whole tree and not only about the part the type gives a destination to. -/
theorem unm_no_dups (o : UOpts) (ho : o.allowDup = false) (T : GoType) (j : JTree) (prior v : GoVal)
    (h : unm o T j prior = .ok v) : j.dupFree = true :=
  JsonV.Lemmas.Merge.unm_dupFree o ho T j prior v h

open JsonV.Spec in
example : unm {} (.map .any) (.obj [([0x61], .num [0x31])]) .nilMap =
    .ok (.mapOf [([0x61], .ifaceOf (.float [0x31]))]) := by
  simp [unm, objFold, unmAny, anyPrior, alookup, aset, GoType.zero]

open JsonV.Spec in
/-- Contrapositive: a repeated name at any depth (also inside a skipped member) makes the call fail. -/
theorem unm_rejects_dup (o : UOpts) (ho : o.allowDup = false) (T : GoType) (j : JTree) (prior : GoVal)
    (h : j.dupFree = false) : ∃ e, unm o T j prior = .error e := by
  cases hr : unm o T j prior with
  | error e => exact ⟨e, rfl⟩
  | ok v => rw [unm_no_dups o ho T j prior v hr] at h; cases h

open JsonV.Spec in
example : (JTree.obj [([0x7a], .obj [([0x61], .null), ([0x61], .null)])]).dupFree = false := by decide

open JsonV.Spec in
/-- One object level of `dupFree` is exactly the coder namespace: the member names, fed in order to a fresh
`objectNamespace` (either representation, across the switch), are all accepted, and the member values are
duplicate-free in turn. -/
theorem dupFree_obj_namespace (ms : List (Bytes × JTree)) :
    (JTree.obj ms).dupFree = true ↔
      (Namespace.run Namespace.empty ((akeys ms).map Namespace.Op.ins)).2.all id = true ∧
      ∀ n x, (n, x) ∈ ms → x.dupFree = true := by
  rw [JsonV.Lemmas.Merge.dupFree_obj, object_accept_iff_nodup]

/-! ### What the L3 theorems above do not cover

Names that differ as strings but resolve to the same destination (case-insensitive struct fields, `"0"`/`"-0"` and
`"1"`/`"1.0"` map keys, embedded fallbacks, raw `jsontext.Value` targets) are outside the model's type universe
(exact-name fields, string keys); they are the `…_full` definitions at the end of the file, validated by the harness.
The step from JSON text to names (unescaping) is `valid_iff_unquoted_names` below. -/

/-! ### AllowDuplicateNames over the L3 model (`UOpts.allowDup`, added to Model/Unmarshal.lean by slice C14) -/

section AllowDup
open JsonV.Spec

/-- With AllowDuplicateNames nothing else changes: on duplicate-free input the result (value or error) is the
default one — every type, every prior value. -/
theorem permissive_eq (o : UOpts) (T : GoType) (j : JTree) (p : GoVal) (hd : j.dupFree = true) :
    unm { o with allowDup := true } T j p = unm { o with allowDup := false } T j p :=
  JsonV.Lemmas.Merge.unm_congr_dup { o with allowDup := true } { o with allowDup := false } rfl T j p hd

/-- With AllowDuplicateNames a later member arrives as if in a second call: merge for objects, replace
otherwise (C14) — for every type and prior value, whether or not the name occurred before. -/
theorem later_wins (o : UOpts) (ho : o.allowDup = true) (T : GoType) (ms : List (Bytes × JTree)) (k : Bytes)
    (x : JTree) (p : GoVal) :
    unm o T (.obj (ms ++ [(k, x)])) p = unmChain o T [.obj ms, .obj [(k, x)]] p :=
  JsonV.Lemmas.Merge.later_wins_all o ho T ms k x p

end AllowDup

/-! ### Text level: names are compared after unescaping; AllowInvalidUTF8 only adds ill-formed literals; Marshal

These use the neighbours' results: slice C01 `valid_iff` (the validator — and by `token_value` the token path —
accepts exactly the grammar `JText`, names unique under the validator's name key), slice C11 / Lemmas/GlueNameKey
(`unescapedName_valueString`: that key IS the unquoted name; `nameKey_appendQuote`: the key of a quoted Go string is the
string with one U+FFFD per ill-formed byte), slice C02 `l3_marshal_valid` and slice C04 `mar_dupFree`. -/

section Text
open JsonV.Spec.Grammar JsonV.Model.Validate JsonV.Lemmas.DupGrammar

/-- The unquoted (unescaped) text of a string literal: `jsonwire.AppendUnquote` (C01's model; equal to slice C11's
`appendUnquote` by `GlueQuote.unquote_eq`). -/
def unq (q : Bytes) : Bytes := (JsonV.Model.Wire.unquote q).1

/-- **Text → names step.**  In both UTF-8 modes and under both duplicate policies, `Value.IsValid` accepts exactly
the texts of the RFC 8259 grammar whose member names — unless AllowDuplicateNames — are pairwise different AFTER
UNESCAPING in every object at every depth: `"a"`, `"\u0061"` and `"\u0061"` spelled with other hex case are one name. -/
theorem valid_iff_unquoted_names (o : VOpts) (b : Bytes) :
    isValid o b = true ↔ JText (JsonV.Props.C01.gopts o) maxNestingDepth unq b := by
  rw [JsonV.Props.C01.valid_iff]
  have key : ∀ q, JString (!o.allowInvalidUTF8) q → JsonV.Props.C01.nameKey o q = unq q :=
    fun q h => JsonV.Lemmas.GlueNameKey.unescapedName_valueString o q h
  constructor
  · intro h; exact jtext_transfer _ _ _ _ _ rfl b h (fun q _ hq => ⟨hq, key q hq⟩)
  · intro h; exact jtext_transfer _ _ _ _ _ rfl b h (fun q _ hq => ⟨hq, (key q hq).symm⟩)

/-- `{"a":1,"\u0061":2}` : the two spellings unquote to the same name, the text is rejected by default and accepted
with AllowDuplicateNames. -/
def escDupText : Bytes :=
  [0x7B, 0x22, 0x61, 0x22, 0x3A, 0x31, 0x2C, 0x22, 0x5C, 0x75, 0x30, 0x30, 0x36, 0x31, 0x22, 0x3A, 0x32, 0x7D]
example : unq [0x22, 0x61, 0x22] = unq [0x22, 0x5C, 0x75, 0x30, 0x30, 0x36, 0x31, 0x22] := by decide +kernel
example : isValid {} escDupText = false := by decide +kernel
example : isValid { allowDup := true } escDupText = true := by decide +kernel
/-- … and its tree (slice C03's `parseTree`, names unescaped) repeats the name `a`, so by C03 `dup_rejected`
unmarshaling it into `any` fails under the default options. -/
example : JsonV.Spec.Meaning.parseTree escDupText = some (.obj [([0x61], .num [0x31]), ([0x61], .num [0x32])]) := by rfl

/-- the validator options with / without AllowInvalidUTF8 (same duplicate policy `d`) -/
def strictOpts (d : Bool) : VOpts := { allowInvalidUTF8 := false, allowDup := d }
def lenientOpts (d : Bool) : VOpts := { allowInvalidUTF8 := true, allowDup := d }

/-- AllowInvalidUTF8 rejects nothing the default accepts (and compares names the same way). -/
theorem utf8_strict_imp_lenient (d : Bool) (b : Bytes) (h : isValid (strictOpts d) b = true) :
    isValid (lenientOpts d) b = true := by
  rw [valid_iff_unquoted_names] at h ⊢
  exact jtext_transfer (JsonV.Props.C01.gopts (strictOpts d)) (JsonV.Props.C01.gopts (lenientOpts d)) _ unq unq rfl b h
    (fun q _ hq => ⟨JString_mono hq, rfl⟩)

/-- If every string literal occurring in the text is well-formed, the two modes give the same verdict. -/
theorem utf8_same_without_illformed (d : Bool) (b : Bytes)
    (hall : ∀ q, q <:+: b → JString false q → JString true q) :
    isValid (lenientOpts d) b = isValid (strictOpts d) b := by
  cases hs : isValid (strictOpts d) b with
  | true => exact utf8_strict_imp_lenient d b hs
  | false =>
    cases hl : isValid (lenientOpts d) b with
    | false => rfl
    | true =>
      rw [valid_iff_unquoted_names] at hl
      have : isValid (strictOpts d) b = true := by
        rw [valid_iff_unquoted_names]
        exact jtext_transfer (JsonV.Props.C01.gopts (lenientOpts d)) (JsonV.Props.C01.gopts (strictOpts d)) _ unq unq rfl b hl
          (fun q hq hj => ⟨hall q hq hj, rfl⟩)
      rw [this] at hs; cases hs

/-- **The ONLY difference made by AllowInvalidUTF8 at the syntax level**: a text accepted with the option and rejected
without it contains (as a contiguous piece) a string literal of the lenient grammar that is not a literal of the strict
grammar, i.e. one holding ill-formed UTF-8 or an unpaired surrogate escape.  (What such a literal DECODES to — one U+FFFD
per ill-formed byte — is slice C11's `unquote_fffd_count_mixed`.) -/
theorem utf8_only_diff (d : Bool) (b : Bytes) (hl : isValid (lenientOpts d) b = true)
    (hs : isValid (strictOpts d) b = false) : ∃ q, q <:+: b ∧ JString false q ∧ ¬ JString true q := by
  apply Classical.byContradiction
  intro hno
  have hall : ∀ q, q <:+: b → JString false q → JString true q := by
    intro q hq hj
    apply Classical.byContradiction
    intro hn
    exact hno ⟨q, hq, hj, hn⟩
  rw [utf8_same_without_illformed d b hall, hs] at hl
  cases hl

-- `"` FF `"` : accepted only with the option
example : isValid (lenientOpts false) [0x22, 0xFF, 0x22] = true ∧ isValid (strictOpts false) [0x22, 0xFF, 0x22] = false := by
  decide +kernel

end Text

section MarshalText
open JsonV.Spec JsonV.Spec.Grammar JsonV.Model.Validate JsonV.Lemmas.EncInvL3 JsonV.Lemmas.EncInvInst JsonV.Model.Quote

/-- **Marshal never emits duplicate names (default options), L3 model end to end.**  For every well-formed type of the
modelled universe and every well-typed value, the tree written by `mar` has no object repeating a name, and the BYTES
(rendered with the modelled AppendQuote under any escaping flags) are one text of the strict grammar — well-formed UTF-8,
paired surrogates — whose member names are pairwise different after unescaping in every object at every depth.
Map keys that are not valid UTF-8 cannot collide here because under the default options they are a marshal error
(`hasType` excludes them; Model/Marshal.lean `MErr.invalidUTF8`, arshal_default.go:213-256); the collision of keys that
become equal only after U+FFFD replacement (AllowInvalidUTF8) is `lossy_collision_rejected` below.
The tie between `mar` and the reflection code is slices C04/C14's correspondence. -/
theorem marshal_no_dups (f : QFlags) (mo : MOpts) (T : GoType) (v : GoVal) (j : JTree)
    (hwf : T.wf = true) (hn : namesUtf8 T = true) (ht : hasType T v = true) (hf : floatsOK v = true)
    (h : mar mo T v = .ok j) (hd : (toOut j).depth ≤ maxNestingDepth) :
    j.dupFree = true ∧ JText ⟨true, false⟩ maxNestingDepth unq ((toOut j).render (realQuote f)) := by
  refine ⟨JsonV.Props.C04L3.mar_dupFree mo T hwf v j ht h, ?_⟩
  have hv := (JsonV.Props.C02.l3_marshal_valid {} f mo T v j hwf hn ht hf h hd).2
  exact (valid_iff_unquoted_names {} _).1 hv

/-- **Keys that collide only after U+FFFD replacement.**  With AllowInvalidUTF8 two different Go strings whose ill-formed
bytes are replaced alike (`"\xff"`, `"\xfe"`) are written as names with the same key, whatever the escaping flags; for
string-keyed maps the marshaler therefore leaves the coder namespace enabled (arshal_default.go:1085-1100
`mapKeyWithUniqueRepresentation`, arshal_any.go:138) and the namespace refuses the second name: no duplicate is emitted,
Marshal reports ErrDuplicateName. -/
theorem lossy_collision_rejected (o : VOpts) (f : QFlags) (s1 s2 : Bytes)
    (h : JsonV.Spec.StringSpec.lossy s1 = JsonV.Spec.StringSpec.lossy s2) :
    ((Namespace.empty.insert (JsonV.Lemmas.WireValue.nameKey o (appendQuote f s1).1)).1.insert
      (JsonV.Lemmas.WireValue.nameKey o (appendQuote f s2).1)).2 = false := by
  rw [JsonV.Lemmas.GlueNameKey.nameKey_appendQuote, JsonV.Lemmas.GlueNameKey.nameKey_appendQuote, h]
  rw [insert_iff _ (ns_wf_insert _ wf_empty _), insert_names _ wf_empty]
  simp [Namespace.empty]

example : JsonV.Spec.StringSpec.lossy [0xFF] = JsonV.Spec.StringSpec.lossy [0xFE] := by decide +kernel

end MarshalText

section Full
variable {T V G : Type}
variable (unmText : (allowDup allowBadUTF8 : Bool) → T → Bytes → Option V)
variable (mar : (allowDup allowBadUTF8 : Bool) → G → Option Bytes)
variable (semDupFree : T → Bytes → Prop) (utf8OK noDupNames : Bytes → Prop)
variable (sanitize : Bytes → Bytes)

/-- Default options, text level, every target kind: whatever is accepted had no two names that resolve to the same Go
struct field / map key although they differ after unescaping (case-insensitive fields, `0`/`-0`, `1`/`1.0`, embedded
fallbacks), and was well-formed UTF-8.  (Names equal after unescaping: proved, `valid_iff_unquoted_names` + `unm_no_dups`.) -/
def unm_no_semantic_dups_full : Prop :=
  ∀ t b v, unmText false false t b = some v → semDupFree t b ∧ utf8OK b

/-- Marshal of EVERY Go value (beyond the L3 universe: non-string keys, TextMarshaler keys, embedded fallbacks, user
MarshalJSON / MarshalJSONTo, raw values) never emits duplicate names nor ill-formed UTF-8 under default options.
(L3 universe: proved, `marshal_no_dups`.) -/
def marshal_no_dups_full : Prop :=
  ∀ g out, mar false false g = some out → noDupNames out ∧ utf8OK out

/-- AllowInvalidUTF8 at the VALUE level: unmarshaling with the option equals unmarshaling the sanitized text (one U+FFFD
per ill-formed byte) without it.  (Syntax level: proved, `utf8_strict_imp_lenient` / `utf8_only_diff`; one literal:
C11 `unquote_fffd_count_mixed`.  Missing: an unmarshal model over BYTES with the option.) -/
def utf8_only_diff_full : Prop :=
  ∀ t b, unmText false true t b = unmText false false t (sanitize b)

end Full

end JsonV.Props.C08
