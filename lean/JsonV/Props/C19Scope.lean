/-
C19, clause "options passed to MarshalEncode or UnmarshalDecode take precedence for that call only and the coder's own
options are intact afterwards, also after an error".

The model (`Model/Scope.lean`) interprets the option-touching statements of the Go code, which are REGENERATED as data
(`Gen/Scope.lean`); the `tie_*` theorems below fail to compile when the code no longer has that shape.
In this code base the arshalers work on the coder's own struct (no copy), so "the coder's options afterwards" is simply
the struct the callee tree leaves behind.
-/
import JsonV.Model.Scope
import JsonV.Spec.OptMap
import JsonV.Lemmas.ScopeL
import JsonV.Lemmas.ScopePub
import JsonV.Lemmas.OptsL

namespace JsonV.Props.C19Scope
open JsonV.Model JsonV.Model.Scope JsonV.Spec JsonV.Gen JsonV.Lemmas.ScopeL JsonV.Lemmas.ScopePub JsonV.Lemmas.OptsL JsonV.Lemmas.FlagsL

/-! ### Tie A: the regenerated statements are the ones the model interprets -/

/-- makeStructArshaler (marshal): save flags, set the tag flags, call, RESTORE, and only then test the error. -/
theorem tie_member_marshal : Gen.Scope.structMarshalMember = memberMarshal := by decide
theorem tie_member_unmarshal : Gen.Scope.structUnmarshalMember = memberUnmarshal := by decide
/-- MarshalEncode: with call options the whole struct is saved and restored by `defer`; the arshalers get `&xe.Struct`. -/
theorem tie_marshalEncode : Gen.Scope.marshalEncode = marshalEncodeS := by decide
theorem tie_unmarshalDecode : Gen.Scope.unmarshalDecode = unmarshalDecodeS := by decide
/-- All four wrappers around user code handle WithinArshalCall in the same way. -/
theorem tie_userCalls : Gen.Scope.userCalls =
    [("MarshalToFunc", userCallS), ("UnmarshalFromFunc", userCallS),
     ("makeMethodArshaler", userCallS), ("makeMethodArshaler", userCallS)] := by decide
/-- There is no other statement in packages json, jsontext, jsonwire that writes a Flags/Struct value or takes its
address: the constructors of `Act` and the four scripts cover every write on the caller's coder. -/
theorem tie_writeSites : Gen.Scope.writeSites = knownWriteSites := by decide

/-! ### (c) a struct member leaves the flags as it found them, whatever happens below it -/

/-- After one struct member — its value (un)marshaled by an ARBITRARY callee tree, succeeding or failing, fatally or
not — `Flags` is what it was before the member and `Format` is "" (the code does not restore Format, it empties it). -/
theorem field_restore (g mar str : Bool) (fmt : Bytes) (body : Act) (s : Struct) :
    (exec g (.member mar str fmt body) s).1.flags = s.flags ∧ (exec g (.member mar str fmt body) s).1.format = [] := by
  rw [member_closed]; exact ⟨rfl, rfl⟩

/-- The member loop of a struct: members in sequence, a fatal error ends the loop. -/
def members (mar : Bool) : List (Bool × Bytes × Act) → Act
  | [] => .skip
  | (str, fmt, body) :: r => .seq (.member mar str fmt body) (members mar r)

/-- Lifted over the member list (any length, any failure pattern, members nested to any depth through `body`). -/
theorem field_restore_members (g mar : Bool) (ms : List (Bool × Bytes × Act)) :
    ∀ s, (exec g (members mar ms) s).1.flags = s.flags := by
  induction ms with
  | nil => intro s; rfl
  | cons m r ih =>
    intro s
    obtain ⟨str, fmt, body⟩ := m
    have hseq : exec g (members mar ((str, fmt, body) :: r)) s =
        seqResult (exec g (.member mar str fmt body) s) (exec g (members mar r)) := rfl
    rw [hseq]
    simp only [seqResult]
    split
    · exact (field_restore g mar str fmt body s).1
    · exact (ih _).trans (field_restore g mar str fmt body s).1

/-! ### (a) the coder's options after the call -/

/-- Every callee tree stays within the frame: non-boolean values and every flag are unchanged EXCEPT that the presence
bit of WithinArshalCall may have been added (value unchanged), StringTag/FormatTag may have been cleared, and Format may
have been emptied. -/
theorem scoped_frame (g : Bool) (a : Act) (s : Struct) : Frame s (exec g a s).1 := exec_frame g a s

/-- With per-call options (or the global format-tag switch) MarshalEncode/UnmarshalDecode give the coder back EXACTLY
as it was: on success, on a failing guard, and on every failure pattern of the callee tree. -/
theorem scoped_call_restores (g mar : Bool) (opts : List Opt) (nn : Bool) (body : Act) (s : Struct)
    (h : callOpts g opts ≠ []) : (exec g (.call mar opts nn body) s).1 = s := by
  have he : (callOpts g opts).isEmpty = false := by cases hh : callOpts g opts <;> simp_all
  cases mar
  · rw [call_unmarshal_closed]; simp only [he, Bool.false_eq_true, ↓reduceIte]; split <;> rfl
  · rw [call_marshal_closed]; simp only [he, Bool.false_eq_true, ↓reduceIte]
    split
    · rfl
    · split <;> rfl

/-- Without per-call options there is no saved copy: the call works on the coder's struct directly. -/
theorem scoped_call_direct (mar : Bool) (nn : Bool) (body : Act) (s : Struct) :
    exec false (.call mar [] nn body) s = exec false body s := by
  cases mar
  · rw [call_unmarshal_closed]; simp [callOpts]
  · rw [call_marshal_closed]; simp [callOpts]

/-- The coder's own options are intact after ANY call, also after an error, for a coder without tag state: all values,
every flag value, every presence bit except possibly that of the internal WithinArshalCall flag. -/
theorem scoped_coder_intact (g : Bool) (a : Act) (s : Struct) (ht : TagFree s) :
    (exec g a s).1 = s ∨
    (exec g a s).1 = { s with flags := ⟨s.flags.presence ||| W.withinArshalCall, s.flags.values⟩ } :=
  eq_of_intact (intact_of_frame (exec_frame g a s) ht)

/-- … hence everything `GetOption` can report about the coder is the same before and after. -/
theorem scoped_getOption_intact (g : Bool) (a : Act) (s : Struct) (ht : TagFree s) (k : Key) (hk : PublicKey k) :
    (exec g a s).1.getOption k = s.getOption k := by
  rcases scoped_coder_intact g a s ht with h | h
  · rw [h]
  · rw [h]; exact getOption_or_within s k hk

/-- The hypothesis is met by every caller-owned coder: options built from public constructors carry no tag state. -/
theorem coder_tagFree (enc : Bool) (os : List Opt) (ho : ∀ o ∈ os, PublicOpt o) : TagFree (newCoder enc os) :=
  newCoder_tagFree enc os ho

/-- The hypothesis is needed: a coder that was (illegitimately) constructed with StringTag set loses it at the first
`{` or `[` (jsontext/encode.go:402, decode.go:626). -/
theorem tag_state_not_kept :
    (exec false (.clear .tags) { flags := ⟨W.stringTag, W.stringTag⟩ }).1 ≠ ({ flags := ⟨W.stringTag, W.stringTag⟩ } : Struct) := by
  decide

/-! ### (b) inside the call the call options take precedence -/

/-- UnmarshalDecode: exactly what happens.  No options: the body runs on the coder's struct.  Otherwise the options are
joined INTO the coder's struct (all of them: coder options such as AllowInvalidUTF8 too — nothing is filtered); at an
object-name position a change of AllowDuplicateNames/AllowInvalidUTF8 is refused before anything runs. -/
theorem unmarshalDecode_spec (g : Bool) (opts : List Opt) (nn : Bool) (body : Act) (s : Struct) :
    exec g (.call false opts nn body) s =
      if (callOpts g opts).isEmpty then exec g body s
      else if nameGuardFails nn s (s.join (callOpts g opts)) then (s, .err true)
      else (s, (exec g body (s.join (callOpts g opts))).2) := call_unmarshal_closed g opts nn body s

/-- MarshalEncode: the same, plus `InitializeMultiline` under Multiline and the refusal of any whitespace change. -/
theorem marshalEncode_spec (g : Bool) (opts : List Opt) (nn : Bool) (body : Act) (s : Struct) :
    exec g (.call true opts nn body) s =
      if (callOpts g opts).isEmpty then exec g body s
      else if nameGuardFails nn s (s.join (callOpts g opts)) then (s, .err true)
      else if wsGuardFails (callOpts g opts) s then (s, .err true)
      else (s, (exec g body (enterMarshal (callOpts g opts) s)).2) := call_marshal_closed g opts nn body s

/-- The struct the body runs with, read as a map: the coder's entries overridden by the call options' (last wins among
them) — `GetOption(effective, f)` is the call's value if the call options carry `f`, else the coder's. -/
theorem scoped_call_precedence (s : Struct) (opts : List Opt) (h : ∀ o ∈ opts, JsonV.Spec.Opt.WF o) :
    abs (s.join opts) = (abs s).override (joinSpec opts) := by
  rw [abs_join s opts h, foldl_override]; rfl

/-- MarshalEncode: every flag other than the three whitespace defaults reads, inside the call, as the call options' value
if they carry it, else the coder's — in particular every marshal option. -/
theorem scoped_call_precedence_marshal (s : Struct) (opts : List Opt) (h : ∀ o ∈ opts, JsonV.Spec.Opt.WF o)
    (i : Nat) (h12 : i ≠ 12) (h13 : i ≠ 13) (h14 : i ≠ 14) :
    (abs (enterMarshal opts s)).flag i = ((abs s).override (joinSpec opts)).flag i := by
  rw [← scoped_call_precedence s opts h]
  unfold enterMarshal
  simp only
  split
  · exact initializeMultiline_lookup _ i h12 h13 h14
  · rfl

/-! ### hypotheses are satisfiable; concrete runs -/

example : ∀ o ∈ [Opt.indent [0x20], Opt.bools (flagBit 19 ||| 1#64), Opt.struct defaultOptionsV1], PublicOpt o := by
  intro o ho
  simp only [List.mem_cons, List.mem_nil_iff, or_false] at ho
  rcases ho with h | h | h <;> subst h
  · trivial
  · exact ⟨by decide, by decide⟩
  · show TagFree defaultOptionsV1; decide

example : TagFree (newCoder true [.indent [0x20], .bools (flagBit 19 ||| 1#64)]) := by decide

-- `scoped_call_restores`: one call option suffices; `scoped_getOption_intact`: every public setter is a `PublicKey`
example : callOpts false [Opt.bools (flagBit 19 ||| 1#64)] ≠ [] := by decide
example : PublicKey (.flag (flagBit 18)) ∧ PublicKey .indent ∧ PublicKey .marshalers := ⟨by show (flagBit 18).getLsbD 3 = false; decide, trivial, trivial⟩

/-- MarshalEncode with Deterministic(true) as call option on a coder that has Deterministic(false): inside the call the
flag reads true, afterwards the coder has its own value again -/
example :
    let s := newCoder true [.bools (flagBit 19)]
    (enterMarshal [.bools (flagBit 19 ||| 1#64)] s).getOption (.flag (flagBit 19)) = (.bool true, true) ∧
    (exec false (.call true [.bools (flagBit 19 ||| 1#64)] false (.fail true)) s) = (s, .err true) := by decide

/-- a `,string` member whose value fails inside user code, in a call without options: the coder ends as it began -/
example : (exec false (.call true [] false (.seq (.clear .tags) (members true [(true, [], .user (.fail true))]))) {}).1 = {} := by
  decide

/-- user code at top level (no enclosing member): the presence bit of WithinArshalCall stays behind -/
example : (exec false (.call true [] false (.user .skip)) {}).1 = { flags := ⟨W.withinArshalCall, 0#64⟩ } := by decide

end JsonV.Props.C19Scope
