/-
C01 — Decoder/validator accepts exactly the JSON grammar (RFC 8259 / RFC 7493).

Property theorems only; the work is in Lemmas/Wire*.lean.  Models: Model/WireDecode.lean
(internal/jsonwire/decode.go) and Model/Validate.lean (the value path of jsontext/decode.go);
specification: Spec/Grammar.lean.  `Gen.*` is regenerated from /repo on every run (Tie A).
-/
import JsonV.Model.Validate
import JsonV.Model.TokenLoop
import JsonV.Spec.Grammar
import JsonV.Lemmas.WireBasic
import JsonV.Lemmas.WireNumberScan
import JsonV.Lemmas.WireString
import JsonV.Lemmas.WireValue
import JsonV.Lemmas.WireFuel
import JsonV.Lemmas.WireComplete
import JsonV.Lemmas.WireTokenTop
import JsonV.Lemmas.GlueResume
import JsonV.Lemmas.GlueResumeStr
import JsonV.Gen.Constants
import JsonV.Gen.Tables
import JsonV.Gen.Lits

namespace JsonV.Props.C01
open JsonV JsonV.Model.Wire JsonV.Model.Validate JsonV.Spec.Grammar
open JsonV.Lemmas.WireBasic JsonV.Lemmas.WireNumber JsonV.Lemmas.WireString JsonV.Lemmas.WireValue

/-! ### Tie A: regenerated constants and tables = what the models use -/

theorem tie_maxDepth : maxNestingDepth = 10000 := by decide

theorem tie_number_states :
    Gen.jsonwire.c_consumeNumberInit = stInit ∧ Gen.jsonwire.c_beforeIntegerDigits = stBeforeIntegerDigits ∧
    Gen.jsonwire.c_withinIntegerDigits = stWithinIntegerDigits ∧
    Gen.jsonwire.c_beforeFractionalDigits = stBeforeFractionalDigits ∧
    Gen.jsonwire.c_withinFractionalDigits = stWithinFractionalDigits ∧
    Gen.jsonwire.c_beforeExponentDigits = stBeforeExponentDigits ∧
    Gen.jsonwire.c_withinExponentDigits = stWithinExponentDigits := by decide

theorem tie_value_flags : Gen.jsonwire.c_stringNonVerbatim = ValueFlags.nv.toNat ∧
    Gen.jsonwire.c_stringNonCanonical = ValueFlags.nc.toNat := by decide

/-- `escapeASCII[c] == 0` (the regenerated table) is the model's `simpleByte`, for every ASCII byte. -/
theorem tie_escapeASCII : ∀ c : UInt8, c < 0x80 →
    (simpleByte c = true ↔ Gen.jsonwire_escapeASCII.getD c.toNat 1 = 0) := by
  apply forall_u8; decide +kernel

/-- the regenerated `normKind` table is the model's `normKind`, for every byte. -/
theorem tie_normKind : ∀ c : UInt8, (normKind c).toNat = Gen.jsontext_normKind.getD c.toNat 999 := by
  apply forall_u8; decide +kernel

/-- the whitespace bytes of the model are exactly the character literals of `jsonwire.ConsumeWhitespace`
(regenerated from the source: space, tab, CR, LF) -/
theorem tie_ws_literals : ∀ c : UInt8, isWs c = Gen.jsonwire_ConsumeWhitespace_strs.contains [c.toNat] := by
  apply forall_u8; decide +kernel

/-- the only character literal of `jsonwire.ConsumeSimpleString` is the double quote (twice), and
`hasEscapedUTF16Prefix` compares against exactly the literals the model uses
(`\\ u d D c f C F 0 9 a f A F`, indices `0 1 2 3 2 6`). -/
theorem tie_string_literals :
    Gen.jsonwire_ConsumeSimpleString_strs = [[0x22], [0x22]] ∧
    Gen.jsonwire_hasEscapedUTF16Prefix_strs =
      [[0x5C], [0x75], [0x64], [0x44], [0x63], [0x66], [0x43], [0x46], [0x30], [0x39], [0x61], [0x66], [0x41], [0x46]] ∧
    Gen.jsonwire_hasEscapedUTF16Prefix_ints = [0, 1, 2, 3, 2, 6] := by decide

/-! ### Whitespace -/

/-- `ConsumeWhitespace` consumes exactly the maximal whitespace prefix: what it consumes is `ws`,
what follows does not start with whitespace, and no other cut has these two properties. -/
theorem ws_spec (b : Bytes) :
    consumeWhitespace b ≤ b.length ∧ JWs (b.take (consumeWhitespace b)) ∧
    (∀ c r, b.drop (consumeWhitespace b) = c :: r → ¬ WsByte c) ∧
    (∀ m, m ≤ b.length → JWs (b.take m) → (∀ c r, b.drop m = c :: r → ¬ WsByte c) → m = consumeWhitespace b) :=
  ⟨ws_le b, ws_take b, ws_stop b, ws_unique b⟩

/-! ### Literals -/

/-- `ConsumeLiteral(b, lit)` succeeds iff `lit` is a prefix of `b`, and then consumes exactly `lit`. -/
theorem literal_iff (b lit : Bytes) (n : Nat) : consumeLiteral b lit = (n, .ok) ↔ n = lit.length ∧ lit <+: b :=
  literal_ok_iff b lit n

/-- io.ErrUnexpectedEOF iff the input is a proper prefix of the literal (all of it is consumed). -/
theorem literal_eof (b lit : Bytes) (n : Nat) :
    consumeLiteral b lit = (n, .eof) ↔ n = b.length ∧ b <+: lit ∧ b ≠ lit :=
  literal_eof_iff b lit n

/-- otherwise: an invalid character, reported at the first position where input and literal differ. -/
theorem literal_invalid (b lit : Bytes) (n : Nat) :
    consumeLiteral b lit = (n, .invalidChar) ↔
      n < b.length ∧ n < lit.length ∧ b.take n = lit.take n ∧ b[n]? ≠ lit[n]? :=
  literal_invalid_iff b lit n

theorem literal_total (b lit : Bytes) :
    (consumeLiteral b lit).2 = .ok ∨ (consumeLiteral b lit).2 = .eof ∨ (consumeLiteral b lit).2 = .invalidChar :=
  literal_class b lit

/-- the inlinable fast paths `ConsumeNull/False/True` answer non-zero iff the literal is a prefix -/
theorem fast_literal_iff (b : Bytes) :
    (consumeNull b ≠ 0 ↔ nullLit <+: b) ∧ (consumeFalse b ≠ 0 ↔ falseLit <+: b) ∧ (consumeTrue b ≠ 0 ↔ trueLit <+: b) :=
  ⟨exact_iff litNull b (by decide), exact_iff litFalse b (by decide), exact_iff litTrue b (by decide)⟩

example : consumeLiteral [0x6E, 0x75, 0x6C, 0x6C, 0x2C] litNull = (4, .ok) := by decide
example : consumeLiteral [0x6E, 0x75] litNull = (2, .eof) := by decide
example : consumeLiteral [0x6E, 0x75, 0x78] litNull = (2, .invalidChar) := by decide

/-! ### Numbers -/

/-- `ConsumeNumber(b) = (n, nil)` iff the first `n` bytes are a number of the RFC 8259 grammar and the
scanner could not have gone on: either the input ends there or one more byte is no longer a prefix of
any number.  (All byte strings `b`, no length bound.) -/
theorem number_iff (b : Bytes) (n : Nat) :
    consumeNumber b = (n, .ok) ↔
      n ≤ b.length ∧ JNumber (b.take n) ∧ (n = b.length ∨ ¬ NumPrefix (b.take (n + 1))) := by
  have hg := good_consumeNumber b
  constructor
  · intro h
    rw [h] at hg
    obtain ⟨h1, h2, h3⟩ := hg
    refine ⟨h1, (jnumber_iff_acc _).2 h2, ?_⟩
    by_cases hn : n = b.length
    · exact Or.inl hn
    · right
      rw [numPrefix_iff_live]
      simp only [ne_eq, Decidable.not_not]
      exact dead_next .start b n h3 (by omega)
  · rintro ⟨h1, h2, h3⟩
    have hstop : n = b.length ∨ run .start (b.take (n + 1)) = .dead := by
      rcases h3 with h3 | h3
      · exact Or.inl h3
      · right
        rw [numPrefix_iff_live] at h3
        simpa using h3
    have := scan_unique b n h1 ((jnumber_iff_acc _).1 h2) hstop _ _ hg
    exact Prod.ext this.2 this.1

/-- `ConsumeNumber` reports io.ErrUnexpectedEOF iff the whole input is a proper prefix of a number:
it can be extended to a number but is not one. -/
theorem number_eof (b : Bytes) : (consumeNumber b).2 = .eof ↔ NumPrefix b ∧ ¬ JNumber b := by
  have hg := good_consumeNumber b
  rw [numPrefix_iff_live, jnumber_iff_acc]
  constructor
  · intro h
    rw [h] at hg
    exact ⟨hg.1, by simp [hg.2]⟩
  · rintro ⟨h1, h2⟩
    rcases good_class _ _ _ _ hg with he | he | he
    · rw [he] at hg
      obtain ⟨g1, g2, g3⟩ := hg
      by_cases hn : (consumeNumber b).1 = b.length
      · rw [hn, List.take_length] at g2; exact absurd g2 h2
      · exact absurd (dead_next .start b _ g3 (by omega)) (live_whole _ b _ h1)
    · exact he
    · rw [he] at hg
      obtain ⟨g1, _, _, g4⟩ := hg
      exact absurd (dead_next .start b _ g4 g1) (live_whole _ b _ h1)

/-- otherwise an invalid character is reported at `n`: exactly when the first `n` bytes are a viable prefix that
is not a number and the next byte makes the input unextendable. -/
theorem number_invalid (b : Bytes) (n : Nat) :
    consumeNumber b = (n, .invalidChar) ↔
      n < b.length ∧ NumPrefix (b.take n) ∧ ¬ JNumber (b.take n) ∧ ¬ NumPrefix (b.take (n + 1)) := by
  have hg := good_consumeNumber b
  constructor
  · intro h
    rw [h] at hg
    obtain ⟨g1, g2, g3, g4⟩ := hg
    refine ⟨g1, (numPrefix_iff_live _).2 g2, ?_, ?_⟩
    · rw [jnumber_iff_acc]; simp [g3]
    · rw [numPrefix_iff_live]; simpa using dead_next .start b n g4 g1
  · rintro ⟨h1, h2, h3, h4⟩
    rw [numPrefix_iff_live] at h2 h4
    rw [jnumber_iff_acc] at h3
    have := scan_invalid_unique b n h1 h2 (by simpa using h3) (by simpa using h4) _ _ hg
    exact Prod.ext this.2 this.1

theorem number_invalid_sound (b : Bytes) (n : Nat) (h : consumeNumber b = (n, .invalidChar)) :
    n < b.length ∧ NumPrefix (b.take n) ∧ ¬ JNumber (b.take n) ∧ ¬ NumPrefix (b.take (n + 1)) :=
  (number_invalid b n).1 h

theorem number_total (b : Bytes) :
    (consumeNumber b).2 = .ok ∨ (consumeNumber b).2 = .eof ∨ (consumeNumber b).2 = .invalidChar :=
  good_class _ _ _ _ (good_consumeNumber b)

-- the hypotheses are satisfiable: `-12.5e+3,` scans 8 bytes; `1e` is a truncated number; `-x` is invalid at 1
example : consumeNumber [0x2D, 0x31, 0x32, 0x2E, 0x35, 0x65, 0x2B, 0x33, 0x2C] = (8, .ok) := by decide
example : consumeNumber [0x31, 0x65] = (1, .eof) := by decide
example : consumeNumber [0x2D, 0x78] = (1, .invalidChar) := by decide
example : JNumber [0x2D, 0x30, 0x2E, 0x35] :=
  JNumber.mk [0x2D] [0x30] [0x2E, 0x35] [] (by simp) JInt.zero
    (JFrac.some [0x35] ⟨by simp, by intro c hc; simp at hc; subst hc; unfold Digit; decide⟩) JExp.none

/-- The inlinable fast path is sound: a non-zero `ConsumeSimpleNumber` is exactly `ConsumeNumber`'s answer. -/
theorem simple_number_sound (b : Bytes) (n : Nat) (h : consumeSimpleNumber b = n) (hn : n > 0) :
    consumeNumber b = (n, .ok) := by
  subst h; exact simple_number_sound' b (by omega)

example : consumeSimpleNumber [0x34, 0x32, 0x2C] = 2 := by decide

/-! ### Strings -/

/-- A non-zero `ConsumeSimpleString` is exactly `ConsumeString`'s answer (either UTF-8 mode),
and the string is verbatim and canonical (no flag set). -/
theorem simple_string_sound (b : Bytes) (v : Bool) (n : Nat) (h : consumeSimpleString b = n) (hn : n > 0) :
    consumeString b v = (n, {}, .ok) := by
  subst h; exact simple_string_sound' b v (by omega)

example : consumeSimpleString [0x22, 0x61, 0x22, 0x3A] = 3 := by decide

/-- Soundness of `ConsumeString`: what it accepts is a string of the grammar, in strict mode
(`validateUTF8 = true`: well-formed UTF-8, surrogate escapes paired) or in lax mode. -/
theorem string_sound (b : Bytes) (v : Bool) (n : Nat) (f : ValueFlags) (h : consumeString b v = (n, f, .ok)) :
    n ≤ b.length ∧ JString v (b.take n) :=
  consumeString_sound b v n f h

/-- Completeness of `ConsumeString`: a string of the grammar at the start of the input is accepted, with
exactly its length (either UTF-8 mode; in lax mode raw bytes ≥ 0x80 and unpaired surrogate escapes are chars). -/
theorem string_complete (b : Bytes) (v : Bool) (n : Nat) (hn : n ≤ b.length) (h : JString v (b.take n)) :
    ∃ f, consumeString b v = (n, f, .ok) :=
  consumeString_complete b v n hn h

/-- `ConsumeString(b, validateUTF8)` accepts `n` bytes ⇔ the first `n` bytes are a string of the grammar
(all byte strings, both UTF-8 modes).  In particular a surrogate escape is accepted under strict
UTF-8 only as the first half of a high/low pair. -/
theorem string_iff (b : Bytes) (v : Bool) (n : Nat) :
    (∃ f, consumeString b v = (n, f, .ok)) ↔ n ≤ b.length ∧ JString v (b.take n) :=
  ⟨fun ⟨f, h⟩ => consumeString_sound b v n f h, fun ⟨hn, h⟩ => consumeString_complete b v n hn h⟩

/-- strings are prefix-free (so the end of a string is determined by the grammar alone) -/
theorem string_prefix_free (v : Bool) (p q : Bytes) (hp : JString v p) (hq : JString v q) (hpq : p <+: q) : p = q :=
  jstring_prefix_free v p q hp hq hpq

-- a low surrogate escape followed by a low surrogate escape is rejected by the model in strict mode
example : consumeString [0x22, 0x5C, 0x75, 0x64, 0x65, 0x61, 0x64, 0x5C, 0x75, 0x64, 0x65, 0x61, 0x64, 0x22] true
    = (1, ⟨true, true⟩, .invalidEscape) := by decide

-- `"a\u00e9"` + `,` : 10 bytes accepted, non-verbatim (flag 1) and non-canonical (flag 2: é must not be escaped)
example : consumeString [0x22, 0x61, 0x5C, 0x75, 0x30, 0x30, 0x65, 0x39, 0x22, 0x2C] true = (9, ⟨true, true⟩, .ok) := by decide

/-! ### Values: the validator (Value.IsValid / ReadValue) against the grammar -/

/-- the grammar options selected by the decoder options -/
def gopts (o : VOpts) : GOpts := ⟨!o.allowInvalidUTF8, o.allowDup⟩

/-- the text names are compared by: the model of what `objectNamespace.insertQuoted` stores
(the name unescaped by AppendUnquote, or its inner bytes when the scanner found it verbatim) -/
def nameKey (o : VOpts) (quoted : Bytes) : Bytes := unescapedName quoted (valueString o quoted).2.1

/-- Soundness of the value path: whatever `consumeValue` accepts at depth `d + 1` (the decoder's
one-based depth) is a value of the RFC 8259 grammar nested at most `maxNestingDepth` deep, with strings in
the selected UTF-8 mode and — unless AllowDuplicateNames — member names of every object pairwise
different after unescaping. -/
theorem value_sound (o : VOpts) (fuel d : Nat) (r : Bytes) (n : Nat) (hd : d ≤ maxNestingDepth)
    (h : consumeValue o fuel (d + 1) r = (n, .ok)) :
    n ≤ r.length ∧ JValue (gopts o) maxNestingDepth (nameKey o) d (r.take n) :=
  (sound_all o fuel).1 d r n hd h

/-- Soundness of `Value.IsValid`: accepted ⇒ `ws value ws` of the grammar instance selected by the
options (RFC 7493 by default: strict UTF-8, unique names). -/
theorem valid_sound (o : VOpts) (b : Bytes) (h : isValid o b = true) :
    JText (gopts o) maxNestingDepth (nameKey o) b := by
  unfold isValid at h
  have : (validText o b).2 = .ok := by simpa using h
  exact validText_sound o b (validText o b).1 (Prod.ext rfl this)

/-- "`fuelFor` suffices": the validator model never answers with the artificial out-of-fuel class, for any
input (the fuel `3·|b| + 4` covers the at most three nested calls per consumed byte). -/
theorem valid_no_fuel (o : VOpts) (b : Bytes) : (validText o b).2 ≠ .fuel :=
  JsonV.Lemmas.WireFuel.validText_no_fuel o b

/-- Soundness of the stream recogniser: a ReadValue loop that ends with io.EOF has read a concatenation of
texts of the grammar separated by optional whitespace — io.EOF is reported only at a value boundary. -/
theorem stream_sound (o : VOpts) (b : Bytes) (cnt off : Nat) (h : stream o b = (cnt, off, .ioEOF)) :
    JStream (gopts o) maxNestingDepth (nameKey o) b :=
  JsonV.Lemmas.WireFuel.stream_sound' o b cnt off h

/-- Completeness of the value path: every value of the grammar instance selected by the options is accepted
at every depth it can occur, with exactly its length, whatever follows it — provided what follows is nothing or
starts with a delimiter (blank, `,`, `]`, `}`), which only matters for numbers — and given the fuel `3·|input| + 1`. -/
theorem value_complete (o : VOpts) (d : Nat) (v rest : Bytes) (fuel : Nat)
    (h : JValue (gopts o) maxNestingDepth (nameKey o) d v)
    (hrest : ∀ c t, rest = c :: t → (isWs c || c == 0x2C || c == 0x5D || c == 0x7D) = true)
    (hf : 3 * (v ++ rest).length + 1 ≤ fuel) :
    consumeValue o fuel (d + 1) (v ++ rest) = (v.length, .ok) :=
  (JsonV.Lemmas.WireComplete.value_complete o d v h).1 rest fuel
    (JsonV.Lemmas.WireComplete.follow_of_delim v rest hrest) hf

/-- Completeness of `Value.IsValid`: every text `ws value ws` of the grammar instance selected by the options
(nesting ≤ 10000; strict UTF-8 and paired surrogates unless AllowInvalidUTF8; names unique after unescaping unless
AllowDuplicateNames) is accepted. -/
theorem valid_complete (o : VOpts) (b : Bytes) (h : JText (gopts o) maxNestingDepth (nameKey o) b) :
    isValid o b = true := by
  have := JsonV.Lemmas.WireComplete.validText_complete o b h
  simp [isValid, this]

/-- **Value.IsValid accepts exactly the grammar**, for every byte string and every combination of the two options. -/
theorem valid_iff (o : VOpts) (b : Bytes) :
    isValid o b = true ↔ JText (gopts o) maxNestingDepth (nameKey o) b :=
  ⟨valid_sound o b, valid_complete o b⟩

-- a text of the grammar: `[1]`
example : JText (gopts {}) maxNestingDepth (nameKey {}) [0x5B, 0x31, 0x5D] :=
  (valid_iff {} _).1 (by decide +kernel)

/-- Completeness of the stream recogniser: a stream of the grammar is read to a clean io.EOF at its very end. -/
theorem stream_complete (o : VOpts) (b : Bytes) (h : JStream (gopts o) maxNestingDepth (nameKey o) b) :
    ∃ cnt, stream o b = (cnt, b.length, .ioEOF) :=
  JsonV.Lemmas.WireComplete.stream_complete o b h

/-- **Over a stream, the ReadValue loop accepts exactly the grammar**: it reaches io.EOF — at the very end of the
input — iff the input is a concatenation of texts separated by optional whitespace, read with maximal munch for
numbers (see `JStream`: `1.52.5` is NOT accepted although `1.5` and `2.5` are texts). -/
theorem stream_iff (o : VOpts) (b : Bytes) :
    (∃ cnt, stream o b = (cnt, b.length, .ioEOF)) ↔ JStream (gopts o) maxNestingDepth (nameKey o) b :=
  ⟨fun ⟨cnt, h⟩ => stream_sound o b cnt b.length h, stream_complete o b⟩

/-- io.EOF can only be reported at the end of the input (never in front of unread bytes). -/
theorem stream_eof_at_end (o : VOpts) (b : Bytes) (cnt off : Nat) (h : stream o b = (cnt, off, .ioEOF)) :
    off = b.length := by
  obtain ⟨cnt', h'⟩ := stream_complete o b (stream_sound o b cnt off h)
  rw [h] at h'
  simpa using congrArg (fun x => x.2.1) h'

-- `1 2` is a stream of two values; in `1.52.5` the second read fails at offset 4
example : stream {} [0x31, 0x20, 0x32] = (2, 3, .ioEOF) := by decide +kernel
example : stream {} [0x31, 0x2E, 0x35, 0x32, 0x2E, 0x35] = (1, 4, .invalidChar) := by decide +kernel

/-! ### Read by tokens or by values -/

/-- **The token path and the value path give the same verdict**: for every byte string (shorter than 2^61 bytes —
the state machine packs its counters into 61 bits — which every Go slice is) and every combination of the two
options, the ReadToken loop (Model/TokenLoop.lean: `readToken` over slice C06's state machine, with the duplicate-name
namespaces) reads the input as exactly one complete top-level value followed by io.EOF iff `Value.IsValid`'s value
path accepts it.  Proved by a simulation that follows the value path's recursion: wherever the value path accepts
a value the token loop reads its tokens and arrives in the corresponding machine state, wherever it rejects the
token loop does not end with io.EOF either (Lemmas/WireTokenSim.lean). -/
theorem token_value (o : VOpts) (b : Bytes) (hlen : b.length + 2 < 2 ^ 61) :
    Model.TokenLoop.isValidByTokens o b = isValid o b :=
  JsonV.Lemmas.WireTokenTop.token_valid_eq o b hlen

/-- Hence the token path accepts exactly the grammar as well. -/
theorem tokens_iff (o : VOpts) (b : Bytes) (hlen : b.length + 2 < 2 ^ 61) :
    Model.TokenLoop.isValidByTokens o b = true ↔ JText (gopts o) maxNestingDepth (nameKey o) b := by
  rw [token_value o b hlen]; exact valid_iff o b

/-- `tokens_complete` / `tokens_sound`, the two halves spelled out -/
theorem tokens_complete (o : VOpts) (b : Bytes) (hlen : b.length + 2 < 2 ^ 61)
    (h : JText (gopts o) maxNestingDepth (nameKey o) b) : Model.TokenLoop.isValidByTokens o b = true :=
  (tokens_iff o b hlen).2 h

theorem tokens_sound (o : VOpts) (b : Bytes) (hlen : b.length + 2 < 2 ^ 61)
    (h : Model.TokenLoop.isValidByTokens o b = true) : JText (gopts o) maxNestingDepth (nameKey o) b :=
  (tokens_iff o b hlen).1 h

-- `{"a":[1,null]}` read by tokens: one value, clean end
example : Model.TokenLoop.isValidByTokens {} [0x7B, 0x22, 0x61, 0x22, 0x3A, 0x5B, 0x31, 0x2C, 0x6E, 0x75, 0x6C, 0x6C, 0x5D, 0x7D] = true := by
  decide +kernel

/-- **Stream-level agreement**: over any input (shorter than 2^61 bytes) the ReadToken loop and the ReadValue loop
complete the same number of top-level values, and one ends with io.EOF iff the other does. -/
theorem token_stream (o : VOpts) (b : Bytes) (hlen : b.length + 2 < 2 ^ 61) :
    (Model.TokenLoop.tokens o b).1 = (stream o b).1 ∧
    ((Model.TokenLoop.tokens o b).2.2 = .ioEOF ↔ (stream o b).2.2 = .ioEOF) :=
  JsonV.Lemmas.WireTokenTop.token_stream_eq o b hlen

/-- Hence the ReadToken loop, too, ends with io.EOF exactly on the streams of the grammar. -/
theorem tokens_stream_iff (o : VOpts) (b : Bytes) (hlen : b.length + 2 < 2 ^ 61) :
    (Model.TokenLoop.tokens o b).2.2 = .ioEOF ↔ JStream (gopts o) maxNestingDepth (nameKey o) b := by
  rw [(token_stream o b hlen).2]
  constructor
  · intro h
    rcases hs : stream o b with ⟨cnt, off, e⟩
    rw [hs] at h
    simp only at h; subst h
    exact stream_sound o b cnt off hs
  · intro h
    obtain ⟨cnt, hc⟩ := stream_complete o b h
    rw [hc]

/-! ### Glue with slice C05 (Model/Resume.lean): the two model copies of the scanners are equal -/

section Glue
open JsonV.Lemmas.GlueResume

/-- `Resume.consumeWhitespace` is `Wire.consumeWhitespace`. -/
theorem glue_whitespace (b : Bytes) : Model.Resume.consumeWhitespace b = consumeWhitespace b := ws_eq b

/-- `Resume.consumeLiteral` is `Wire.consumeLiteral` (error enums identified by `eR`). -/
theorem glue_literal (b lit : Bytes) :
    ((Model.Resume.consumeLiteral b lit).1, eR (Model.Resume.consumeLiteral b lit).2) = consumeLiteral b lit :=
  lit_eq b lit

/-- `Resume.consumeNumberResumable` is `Wire.consumeNumberResumable`, for every buffer, resume offset and
state word: C05's resumability theorems (`num_resume`, `num_stable`, `chunk_indep_num`) are theorems
about the scanner the grammar theorems above speak about. -/
theorem glue_number (b : Bytes) (off st : Nat) :
    mapNum (Model.Resume.consumeNumberResumable b off st) = consumeNumberResumable b off st :=
  number_resumable_eq b off st

/-- Chunk independence meets the grammar: however the input is cut into chunks `c :: cs`, the decoder's
refill loop for numbers (`decoderState.consumeNumber`, modelled by C05) answers `(n, nil)` exactly when
the first `n` bytes of the concatenated input are a number of the grammar that cannot be extended. -/
theorem number_chunk_indep_grammar (c : Bytes) (cs : List Bytes) (n : Nat) :
    Model.Resume.consumeNumberChunks c 0 0 cs = (n, .ok) ↔
      n ≤ (c ++ cs.flatten).length ∧ JNumber ((c ++ cs.flatten).take n) ∧
        (n = (c ++ cs.flatten).length ∨ ¬ NumPrefix ((c ++ cs.flatten).take (n + 1))) := by
  rw [JsonV.Model.Resume.num_chunk_indep c cs, ← number_iff]
  generalize c ++ cs.flatten = b
  have hg := glue_number b 0 0
  have hcn : consumeNumber b = ((Model.Resume.consumeNumberResumable b 0 0).1, eR (Model.Resume.consumeNumberResumable b 0 0).2.2) := by
    simp [consumeNumber, ← hg, mapNum, stInit]
  rw [hcn]
  simp only [Model.Resume.consumeNumberChunks]
  rcases Model.Resume.consumeNumberResumable b 0 0 with ⟨m, st, e⟩
  cases e <;> simp [eR]
  all_goals (split <;> simp_all)

theorem join_empty_left (f : ValueFlags) : ValueFlags.join {} f = f := by
  cases f; simp [ValueFlags.join]

/-- `Resume.consumeStringResumable` is `Wire.consumeStringResumable` (offset, flags joined onto the incoming
flags, error class), for every buffer, resume offset and UTF-8 mode. -/
theorem glue_string (f : Model.Resume.VFlags) (b : Bytes) (off : Nat) (v : Bool) :
    (Model.Resume.consumeStringResumable f b off v).1 = (consumeStringResumable b off v).1 ∧
    fR (Model.Resume.consumeStringResumable f b off v).2.1 = (fR f).join (consumeStringResumable b off v).2.1 ∧
    eR (Model.Resume.consumeStringResumable f b off v).2.2 = (consumeStringResumable b off v).2.2 :=
  string_resumable_eq f b off v

/-- C05's `str_resume`, transferred to the scanner of this slice: if scanning `b` ends in
io.ErrUnexpectedEOF with resume offset `n` and flags `f`, then for EVERY extension `e` resuming at `n`
answers what a fresh scan of `b ++ e` answers (offset, error class, and flags once `f` is joined in). -/
theorem string_resume_transfer (b e : Bytes) (v : Bool) (n : Nat) (f : ValueFlags)
    (h : consumeStringResumable b 0 v = (n, f, .eof)) :
    (consumeStringResumable (b ++ e) n v).1 = (consumeStringResumable (b ++ e) 0 v).1 ∧
    f.join (consumeStringResumable (b ++ e) n v).2.1 = (consumeStringResumable (b ++ e) 0 v).2.1 ∧
    (consumeStringResumable (b ++ e) n v).2.2 = (consumeStringResumable (b ++ e) 0 v).2.2 := by
  obtain ⟨g1, g2, g3⟩ := glue_string .none b 0 v
  rw [h] at g1 g2 g3
  rcases hr : Model.Resume.consumeStringResumable .none b 0 v with ⟨n', f', e'⟩
  rw [hr] at g1 g2 g3
  simp only at g1 g2 g3
  have he : e' = .eof := eR_inj e' .eof (by rw [g3]; rfl)
  subst he
  subst g1
  have hres := JsonV.Model.Resume.str_resume_eq .none b e v n' f' hr
  obtain ⟨a1, a2, a3⟩ := glue_string f' (b ++ e) n' v
  obtain ⟨b1, b2, b3⟩ := glue_string .none (b ++ e) 0 v
  rw [hres] at a1 a2 a3
  have hf : fR f' = f := by
    rw [g2]; exact join_empty_left f
  have hnone : fR Model.Resume.VFlags.none = {} := rfl
  rw [hnone, join_empty_left] at b2
  rw [hf] at a2
  exact ⟨by rw [← a1, b1], by rw [← a2, b2], by rw [← a3, b3]⟩

/-- Chunk independence meets the grammar, for strings: however the input is cut into chunks, the decoder's
refill loop for strings (`decoderState.consumeString`, modelled by C05) answers `(n, _, nil)` exactly when the
first `n` bytes of the concatenated input are a string of the grammar (in the selected UTF-8 mode). -/
theorem string_chunk_indep_grammar (c : Bytes) (cs : List Bytes) (v : Bool) (n : Nat) :
    (∃ f, Model.Resume.consumeStringChunks .none c 0 v cs = (n, f, .ok)) ↔
      n ≤ (c ++ cs.flatten).length ∧ JString v ((c ++ cs.flatten).take n) := by
  rw [← string_iff]
  simp only [JsonV.Model.Resume.str_chunk_indep]
  generalize c ++ cs.flatten = b
  obtain ⟨g1, g2, g3⟩ := glue_string .none b 0 v
  have hnone : fR Model.Resume.VFlags.none = {} := rfl
  rw [hnone, join_empty_left] at g2
  constructor
  · rintro ⟨f, hf⟩
    rw [hf] at g1 g2 g3
    refine ⟨fR f, ?_⟩
    exact Prod.ext g1.symm (Prod.ext g2.symm g3.symm)
  · rintro ⟨f, hf⟩
    unfold consumeString at hf
    rw [hf] at g1 g2 g3
    rcases hr : Model.Resume.consumeStringResumable .none b 0 v with ⟨n', f', e'⟩
    rw [hr] at g1 g2 g3
    simp only at g1 g2 g3
    have he : e' = .ok := eR_inj e' .ok (by rw [g3]; rfl)
    exact ⟨f', by rw [g1, he]⟩

end Glue

end JsonV.Props.C01
