/-
C10 glue theorems for the other slices: every number text this slice emits or accepts is a number of the
C01 grammar (`Spec.Grammar.JNumber`), hence a token the tokenizer model `scanNum` accepts (C12's `scanNum_iff`);
the laws C13 names as hypotheses (`NumLex`, `NumStable`) in the shape C13 states them.

Imports other slices' files read-only: Spec/Grammar (C01), Lemmas/GlueFormatNum (C12: scanNum ↔ JNumber),
Model/Canon and Lemmas/CanonAtom (C13: FloatCodec, canonNum, numValue, shortInt).
-/
import JsonV.Props.C10
import JsonV.Lemmas.NumJNumber
import JsonV.Lemmas.GlueFormatNum
import JsonV.Lemmas.CanonAtom
import JsonV.Lemmas.NumReformat
import JsonV.Lemmas.WireNumberScan

namespace JsonV.Props.C10Glue
open JsonV JsonV.Model.Number JsonV.Spec.Ecma JsonV.Spec.Grammar JsonV.Fmt JsonV.Canon
open JsonV.Lemmas.NumInt JsonV.Lemmas.NumFloat JsonV.Lemmas.NumJNumber JsonV.Lemmas.CanonAtom JsonV.Lemmas.NumReformat

/-! ### (1) what this slice emits is a `JNumber` -/

/-- jsonwire.AppendFloat's output is a number of the C01 grammar, for every well-formed decomposition. -/
theorem float_is_JNumber (neg : Bool) (ds : List Nat) (n : Int) (h : WFD ds n) :
    JNumber (appendFloat neg ds n) := by
  rw [JsonV.Props.C10.float_layout neg ds n h]; exact jnumber_numberToString neg ds n h

/-- … and therefore lexically exactly one number token for the tokenizer model (`scanNum`, C12). -/
theorem float_is_token (neg : Bool) (ds : List Nat) (n : Int) (h : WFD ds n) :
    (Tok.num (appendFloat neg ds n)).valid = true := by
  simp only [Tok.valid, beq_iff_eq]
  exact (scanNum_iff' _).2 (float_is_JNumber neg ds n h)

example : JNumber (appendFloat true [1, 2, 5] (-6)) :=
  float_is_JNumber _ _ _ ⟨by simp, by simp, by simp, by omega, by omega⟩

/-- strconv.AppendUint / AppendInt outputs are numbers of the grammar. -/
theorem formatUint_is_JNumber (n : Nat) : JNumber (formatUint n) :=
  jnumber_of_canonical _ (formatUint_canonical n)

theorem formatInt_is_JNumber (i : Int) : JNumber (formatInt i) :=
  jnumber_of_intLit _ (formatInt_lit i).1

/-- jsonwire.ReformatNumber maps numbers to numbers, whatever the flags, provided AppendFloat does. -/
theorem reformat_is_JNumber (pf : Bytes → Fl) (af : Fl → Bytes) (ci cf : Bool) (num : Bytes)
    (hnum : JNumber num) (haf : ∀ f, JNumber (af f)) : JNumber (reformatNumber pf af ci cf num) := by
  unfold reformatNumber
  dsimp only
  repeat (first | exact hnum | exact haf _ | split)

/-! ### the laws of C13's float parameter -/

/-- **`NumLex`** (Props/C13.lean: `∀ f, (Tok.num (fp.append f)).valid = true`) from the only law it needs:
the digit generator returns well-formed decompositions. -/
theorem numLex_of_wfd (fp : FloatCodec) (hfp : ∀ f, WFD (fp.shortest f).1 (fp.shortest f).2) :
    ∀ f, (Tok.num (fp.append f)).valid = true :=
  fun f => float_is_token f.neg _ _ (hfp f)

/-- Canonicalized number literals are numbers (and tokens) again. -/
theorem canonNum_is_JNumber (fp : FloatCodec) (hfp : ∀ f, WFD (fp.shortest f).1 (fp.shortest f).2)
    (lit : Bytes) (hl : JNumber lit) : JNumber (canonNum fp lit) ∧ (Tok.num (canonNum fp lit)).valid = true := by
  have h : JNumber (canonNum fp lit) :=
    reformat_is_JNumber fp.parse fp.append true true lit hl (fun f => float_is_JNumber f.neg _ _ (hfp f))
  refine ⟨h, ?_⟩
  simp only [Tok.valid, beq_iff_eq]
  exact (scanNum_iff' _).2 h

/-- The laws of strconv that canonicalization relies on, stated explicitly (validated by harness/c10.go,
not proved): the shortest decomposition is well formed, and the canonical spelling of a value reads back as
that value (`parse ∘ layout ∘ shortest = id` on the values `ReformatNumber` produces: finite, −0 normalised). -/
structure CodecLaws (fp : FloatCodec) : Prop where
  wfd : ∀ f, WFD (fp.shortest f).1 (fp.shortest f).2
  reread : ∀ lit, numValue fp (fp.append (numValue fp lit)) = numValue fp lit

/-- **`NumStable`** (Props/C13.lean: `∀ lit, canonNum fp (canonNum fp lit) = canonNum fp lit`) from the re-read law:
a verbatim-copied short integer stays verbatim; a re-spelled literal is either short (copied) or reads back
as the same value and is laid out identically. -/
theorem numStable_of_laws (fp : FloatCodec) (h : CodecLaws fp) :
    ∀ lit, canonNum fp (canonNum fp lit) = canonNum fp lit := by
  intro lit
  rw [canonNum_eq fp lit]
  by_cases hs : shortInt lit = true
  · rw [if_pos hs, canonNum_eq, if_pos hs]
  · rw [if_neg hs, canonNum_eq]
    by_cases hs2 : shortInt (fp.append (numValue fp lit)) = true
    · rw [if_pos hs2]
    · rw [if_neg hs2, h.reread lit]

/-- The laws are satisfiable (degenerate codec: every literal reads as 0), so the two theorems are not vacuous. -/
example : CodecLaws ⟨fun _ => ⟨false, false, 0, 0⟩, fun _ => ([], 0)⟩ :=
  ⟨fun _ => (show WFD [] 0 from ⟨by simp, by simp, fun _ => rfl, by omega, by omega⟩), fun _ => rfl⟩

/-! ### jsonwire.ReformatNumber, every flag combination -/

/-- **`reformat_number_spec`**: for every number literal of the grammar and every combination of
CanonicalizeRawInts (`ci`) / CanonicalizeRawFloats (`cf`): the output is a number of the grammar and one token;
with both flags off it is the input verbatim; in general it is the input when `verbatimB ci cf lit` (flags off;
a float literal without `cf`; an integer literal without `ci` or shorter than 16 characters — `-0` excepted) and
otherwise `AppendFloat` of the literal's float64 value with −0 ↦ 0 and ±Inf ↦ ±MaxFloat64 (`numValue`). -/
theorem reformat_number_spec (fp : FloatCodec) (hfp : ∀ f, WFD (fp.shortest f).1 (fp.shortest f).2)
    (ci cf : Bool) (lit : Bytes) (hl : JNumber lit) :
    JNumber (reformatNumber fp.parse fp.append ci cf lit) ∧
    (Tok.num (reformatNumber fp.parse fp.append ci cf lit)).valid = true ∧
    (ci = false → cf = false → reformatNumber fp.parse fp.append ci cf lit = lit) ∧
    reformatNumber fp.parse fp.append ci cf lit =
      (if verbatimB ci cf lit then lit else fp.append (numValue fp lit)) := by
  have h : JNumber (reformatNumber fp.parse fp.append ci cf lit) :=
    reformat_is_JNumber fp.parse fp.append ci cf lit hl (fun f => float_is_JNumber f.neg _ _ (hfp f))
  refine ⟨h, ?_, ?_, reformat_cases fp ci cf lit⟩
  · simp only [Tok.valid, beq_iff_eq]
    exact (scanNum_iff' _).2 h
  · intro h1 h2
    subst h1 h2
    rw [reformat_cases, verbatimB_off, if_pos rfl]

/-- With both flags on (Canonicalize) and the guarded shortcut law (`ShortIntFixed` of Props/C13.lean, whose body
is the hypothesis `hs`), every number literal is re-spelled as `AppendFloat` of its value — the `n < 16` shortcut
is invisible. -/
theorem reformat_canonical (fp : FloatCodec)
    (hs : ∀ lit, isIntLit lit = true → shortInt lit = true → fp.append (numValue fp lit) = lit)
    (lit : Bytes) (hl : JNumber lit) :
    reformatNumber fp.parse fp.append true true lit = fp.append (numValue fp lit) := by
  rw [reformat_cases, verbatimB_on]
  by_cases c : shortInt lit = true
  · have hi : isIntLit lit = true := by
      apply (intLit_iff_noFrac lit hl).2
      simp only [shortInt, Bool.and_eq_true, Bool.not_eq_true'] at c
      exact c.1.2
    rw [if_pos c, hs lit hi c]
  · rw [if_neg c]

/-- ReformatNumber is idempotent under the codec laws, whatever the flags. -/
theorem reformat_idempotent (fp : FloatCodec) (h : CodecLaws fp) (ci cf : Bool) (lit : Bytes) :
    reformatNumber fp.parse fp.append ci cf (reformatNumber fp.parse fp.append ci cf lit) =
      reformatNumber fp.parse fp.append ci cf lit := reformat_idem fp h.reread ci cf lit

/-- … and never changes the float64 value the literal denotes (C12: reformatting preserves the meaning). -/
theorem reformat_preserves_value (fp : FloatCodec) (h : CodecLaws fp) (ci cf : Bool) (lit : Bytes) :
    numValue fp (reformatNumber fp.parse fp.append ci cf lit) = numValue fp lit := by
  rw [reformat_cases]
  by_cases hv : verbatimB ci cf lit = true
  · rw [if_pos hv]
  · rw [if_neg hv, h.reread lit]

-- the flag cases are all inhabited: `1.0` is copied without CanonicalizeRawFloats, `-0` never is
example : verbatimB true false [49, 46, 48] = true ∧ verbatimB true false [45, 48] = false ∧
    verbatimB true true [49, 50, 51] = true ∧ verbatimB false true [49, 50, 51] = true := by decide

/-! ### quoted floats (`string` option, StringifyNumbers, map keys) -/

/-- `jsonwire.ConsumeNumber` consumes a number of the grammar entirely (C01's scanner lemmas). -/
theorem consumeNumber_of_JNumber (b : Bytes) (h : JNumber b) : Model.Wire.consumeNumber b = (b.length, .ok) := by
  have hg := JsonV.Lemmas.WireNumber.good_consumeNumber b
  have := JsonV.Lemmas.WireNumber.scan_unique b b.length (Nat.le_refl _)
    ((JsonV.Lemmas.WireNumber.jnumber_iff_acc _).1 (by rwa [List.take_length])) (Or.inl rfl) _ _ hg
  exact Prod.ext this.2 this.1

/-- The float unmarshaler treats the quoted form exactly like the bare number when the content is one JSON number,
and refuses any other content with a syntax error. -/
theorem quoted_float_same (pf : Bytes → Fl) (val : Bytes) :
    (JNumber val → unmarshalFloatValue pf true .str val = unmarshalFloatValue pf false .num val) ∧
    (¬ JNumber val → unmarshalFloatValue pf true .str val = .err .syntax) := by
  constructor
  · intro h
    simp [unmarshalFloatValue, consumeNumber_of_JNumber val h]
  · intro h
    have hne : ¬ ((Model.Wire.consumeNumber val).1 = val.length ∧ (Model.Wire.consumeNumber val).2 = .ok) := by
      intro ⟨h1, h2⟩
      have hg := JsonV.Lemmas.WireNumber.good_consumeNumber val
      rw [h2, h1] at hg
      exact h ((JsonV.Lemmas.WireNumber.jnumber_iff_acc _).2 (by simpa [List.take_length] using hg.2.1))
    simp only [unmarshalFloatValue, Bool.not_true, Bool.false_eq_true, if_false]
    rw [if_pos]
    simp only [Bool.or_eq_true, bne_iff_ne, ne_eq]
    by_cases h1 : (Model.Wire.consumeNumber val).1 = val.length
    · right; intro h2; exact hne ⟨h1, h2⟩
    · left; exact h1

/-- The v1 legacy arm (`StringifyWithLegacySemantics`) agrees with the v2 quoted arm on every JSON number, provided
the Go-syntax parser at the destination width agrees with the JSON-number parser there (it does: the Go float
syntax contains the JSON one) — in particular it rounds once, at the width of the destination, and an overflow of
that width is a range error. -/
theorem legacy_same_on_numbers (pf : Bytes → Fl) (pfGo : Bytes → Except NumErr Fl) (val : Bytes) (hj : JNumber val)
    (hagree : pfGo val = if (pf val).inf then .error .range else .ok (pf val)) :
    unmarshalFloatLegacy pfGo val = unmarshalFloatValue pf true .str val := by
  have hnull : (val == [110, 117, 108, 108]) = false := by
    cases hb : (val == [110, 117, 108, 108]) with
    | false => rfl
    | true =>
      have : val = [110, 117, 108, 108] := by simpa using hb
      subst this
      have hc := consumeNumber_of_JNumber _ hj
      exact absurd hc (by decide)
  rw [(quoted_float_same pf val).1 hj]
  by_cases hi : (pf val).inf = true
  · simp [unmarshalFloatLegacy, unmarshalFloatValue, hagree, hi, hnull]
  · simp [unmarshalFloatLegacy, unmarshalFloatValue, hagree, hi]

/-- The law of strconv a float round trip needs (validated by harness/c10.go: AppendFloat's text parses back to
identical bits, for every float32 and a stratified sample of float64): well-formed shortest digits, and the text
reads back as the value — for the values in `dom`, the normal forms that denote float64/float32 values (`Fl` has
several representations of one number; the parser returns one of them, so the law can only hold on those). -/
structure FloatRT (fp : FloatCodec) (dom : Fl → Prop) : Prop where
  wfd : ∀ f, WFD (fp.shortest f).1 (fp.shortest f).2
  rt : ∀ f, dom f → fp.parse (fp.append f) = f

/-- **`quoted_float_rt`** (for C04): what the float marshaler writes for a finite value — bare, or quoted under
`string` / StringifyNumbers / as a map key — the float unmarshaler reads back as that value. -/
theorem quoted_float_rt (fp : FloatCodec) (dom : Fl → Prop) (h : FloatRT fp dom) (f : Fl) (hd : dom f) (hf : f.inf = false) :
    unmarshalFloatValue fp.parse false .num (fp.append f) = .set f ∧
    unmarshalFloatValue fp.parse true .str (fp.append f) = .set f := by
  have hj : JNumber (fp.append f) := float_is_JNumber f.neg _ _ (h.wfd f)
  have hb : unmarshalFloatValue fp.parse false .num (fp.append f) = .set f := by
    simp [unmarshalFloatValue, h.rt f hd, hf]
  exact ⟨hb, by rw [(quoted_float_same fp.parse _).1 hj, hb]⟩

/-- the law is satisfiable and the theorem not vacuous: the codec whose only value is +0 -/
example :
    let fp : FloatCodec := ⟨fun _ => ⟨false, false, 0, 0⟩, fun _ => ([], 0)⟩
    FloatRT fp (fun f => f = ⟨false, false, 0, 0⟩) ∧
      unmarshalFloatValue fp.parse true .str (fp.append ⟨false, false, 0, 0⟩) = .set ⟨false, false, 0, 0⟩ := by
  have h : FloatRT ⟨fun _ => ⟨false, false, 0, 0⟩, fun _ => ([], 0)⟩ (fun f => f = ⟨false, false, 0, 0⟩) :=
    ⟨fun _ => (show WFD [] 0 from ⟨by simp, by simp, fun _ => rfl, by omega, by omega⟩), fun f hf => hf.symm⟩
  exact ⟨h, (quoted_float_rt _ _ h _ rfl rfl).2⟩

/-! ### (2) what this slice accepts is a `JNumber` -/

/-- jsonwire.ParseUint succeeds only on numbers of the grammar that have no sign, fraction or exponent,
and returns their value. -/
theorem parseUint_is_prefix_of_grammar (b : Bytes) (v : UInt64) (h : parseUint b = (v, true)) :
    JNumber b ∧ b.head? ≠ some 45 ∧ hasFracOrExp b = false ∧ bytesVal b = v.toNat ∧ bytesVal b < 2 ^ 64 := by
  rw [JsonV.Props.C10.parseUint_exact] at h
  by_cases hc : canonicalDecimal b = true
  · rw [if_pos hc] at h
    by_cases hv : bytesVal b < 2 ^ 64
    · rw [if_pos hv] at h
      have hv' : v = UInt64.ofNat (bytesVal b) := (Prod.mk.inj h).1.symm
      refine ⟨jnumber_of_canonical b hc, canonical_not_minus b hc, canonical_no_frac b hc, ?_, hv⟩
      rw [hv', ofNat_toNat_lt _ hv]
    · rw [if_neg hv] at h; exact absurd (Prod.mk.inj h).2 (by decide)
  · rw [if_neg hc] at h; exact absurd (Prod.mk.inj h).2 (by decide)

/-- The integer unmarshalers accept only numbers of the grammar (without fraction or exponent; unsigned: without sign). -/
theorem unmarshal_accepts_JNumber (w : Nat) (hw : GoWidth w) (lit : Bytes) :
    (∀ i, unmarshalInt w lit = .ok i → JNumber lit ∧ hasFracOrExp lit = false) ∧
    (∀ u, unmarshalUint w lit = .ok u → JNumber lit ∧ hasFracOrExp lit = false ∧ lit.head? ≠ some 45) := by
  constructor
  · intro i h
    obtain ⟨h1, _⟩ := (JsonV.Props.C10.int_bounds w hw lit i).1 h
    exact ⟨jnumber_of_intLit lit h1, intLit_no_frac lit h1⟩
  · intro u h
    obtain ⟨h1, _⟩ := (JsonV.Props.C10.uint_bounds w hw lit u).1 h
    exact ⟨jnumber_of_canonical lit h1, canonical_no_frac lit h1, canonical_not_minus lit h1⟩

/-- On a token the decoder has validated (`JNumber lit`), the signed unmarshaler reports a syntax error exactly
when the number has a fraction or an exponent; otherwise the outcome is decided by the range alone. -/
theorem unmarshalInt_on_validated (w : Nat) (hw : GoWidth w) (lit : Bytes) (hl : JNumber lit) :
    (unmarshalInt w lit = .error .syntax ↔ hasFracOrExp lit = true) ∧
    (hasFracOrExp lit = false →
      unmarshalInt w lit = if -(2 ^ (w - 1) : Int) ≤ intVal lit ∧ intVal lit < 2 ^ (w - 1) then .ok (intVal lit) else .error .range) := by
  have hiff := intLit_iff_noFrac lit hl
  rw [JsonV.Props.C10.int_class w hw lit]
  constructor
  · constructor
    · intro h
      by_cases hi : isIntLit lit = true
      · rw [if_pos hi] at h
        split at h <;> cases h
      · cases hf : hasFracOrExp lit with
        | true => rfl
        | false => exact absurd (hiff.2 hf) hi
    · intro h
      have hi : ¬ isIntLit lit = true := fun hi => by rw [hiff.1 hi] at h; exact absurd h (by decide)
      rw [if_neg hi]
  · intro h
    rw [if_pos (hiff.2 h)]

/-- … and the unsigned one exactly when it has a fraction, an exponent or a minus sign. -/
theorem unmarshalUint_on_validated (w : Nat) (hw : GoWidth w) (lit : Bytes) (hl : JNumber lit) :
    unmarshalUint w lit = .error .syntax ↔ (hasFracOrExp lit = true ∨ lit.head? = some 45) := by
  have hiff := intLit_iff_noFrac lit hl
  rw [JsonV.Props.C10.uint_class w hw lit]
  have hcan : canonicalDecimal lit = true ↔ (hasFracOrExp lit = false ∧ lit.head? ≠ some 45) := by
    constructor
    · intro hc; exact ⟨canonical_no_frac lit hc, canonical_not_minus lit hc⟩
    · intro ⟨hf, hm⟩
      have hi := hiff.2 hf
      unfold isIntLit at hi
      split at hi
      · simp at hm
      · exact hi
  constructor
  · intro h
    by_cases hc : canonicalDecimal lit = true
    · rw [if_pos hc] at h
      split at h <;> cases h
    · cases hf : hasFracOrExp lit with
      | true => exact Or.inl rfl
      | false =>
        right
        apply Classical.byContradiction
        intro hm
        exact hc (hcan.2 ⟨hf, hm⟩)
  · intro h
    have hc : ¬ canonicalDecimal lit = true := by
      intro hc
      obtain ⟨hf, hm⟩ := hcan.1 hc
      rcases h with h | h
      · rw [hf] at h; exact absurd h (by decide)
      · exact hm h
    rw [if_neg hc]

example : JNumber [45, 49, 46, 53] ∧ hasFracOrExp [45, 49, 46, 53] = true :=
  ⟨jnum [0x2D] [49] [0x2E, 53] [] _ (Or.inr rfl) (JInt.nonzero 49 [] ⟨by decide, by decide⟩ (by intro c hc; simp at hc))
    (JFrac.some [53] ⟨by simp, by intro c hc; simp at hc; subst hc; exact ⟨by decide, by decide⟩⟩) JExp.none rfl, by decide⟩

end JsonV.Props.C10Glue
