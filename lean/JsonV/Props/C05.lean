/-
C05 — Decoding is independent of how the input arrives or is consumed.

Proved here, for ALL inputs, all split points and all chunkings (no bounds):

  * `num_resume`, `str_resume`        resuming a scanner at the saved (offset, state/flags) over any extension of the
                                      buffer equals scanning the extended buffer from scratch;
  * `num_stable`, `str_stable`,       a definitive result (nil before the end of the buffer, or a syntax error) does
    `lit_resume`, `ws_resume`         not change when more input is appended; blanks/literals continue correctly;
  * `chunk_indep_num/str/lit/ws`      the refill loops of jsontext/decode.go (consumeNumber, consumeString,
                                      consumeLiteral, consumeWhitespace) return the same (offset, flags, error class)
                                      for EVERY chunking of the input as for the input in one piece;
  * `window_inv`, `no_input_lost`     the decode-buffer bookkeeping (fetch with any chunk size, advancing, invalidating)
                                      keeps  stream = first InputOffset bytes ++ UnreadBuffer ++ not-yet-read.

  * `sim_tokens`, `sim_tokens_events`  the streaming DECODER model (Model/Stream.lean: Window + refill loops + the
                                      token-level control flow of ReadToken, state machine, namespaces) returns for
                                      every chunking, call by call, what the whole-buffer model of slice C01
                                      (Model/TokenLoop.lean) returns: kinds, spans, absolute offsets, error class+offset;
  * `fault_stutter`, `fault_stutter_run`  a transient fault is returned without moving the decoder, and the transcript
                                      without the faulted calls is the fault-free transcript, for any reader;
  * `value_span_tokens`               the bytes of a string/number token are exactly input[start:stop].

  * `sim_full`, `sim_full_events`      the same for SCRIPTS mixing ReadToken / ReadValue / SkipValue: the streaming
                                      consumeValue/consumeObject/consumeArray answer what `Validate.consumeValue`
                                      answers on the whole input;
  * `value_span_full`, `fault_stutter_full`  ReadValue hands out exactly input[a:b] with InputOffset = b; a fault inside
                                      a value is returned without moving the decoder.

Not proved (kept as `def … : Prop`, validated by the harness only): StackPointer / error pointers
(`sim_pointers_full`); a fault inside SkipValue's token loop leaves the decoder part-way by design.
PeekKind with its cache IS proved: `sim_peek_full`, `fault_stutter_peek`.
-/
import JsonV.Lemmas.ResumeNum
import JsonV.Lemmas.ResumeStr
import JsonV.Lemmas.ResumeLit
import JsonV.Lemmas.ResumeWindow
import JsonV.Lemmas.ResumeStreamRun
import JsonV.Lemmas.ResumeStreamCalls
import JsonV.Lemmas.ResumeStreamPeek

namespace JsonV.Props.C05
open JsonV JsonV.Model JsonV.Model.Resume JsonV.Model.Window

/-! ## Resumable scanners -/

/-- `num_resume`.  If `ConsumeNumberResumable(b, 0, init)` stops where decoderState.consumeNumber refills — it returned
io.ErrUnexpectedEOF, or nil with the whole buffer consumed — then for EVERY extension `e`, resuming at the
returned offset and state over `b ++ e` yields the same offset and error class as scanning `b ++ e` from
scratch, and the same state whenever that state can be used again. -/
theorem num_resume (b e : Bytes)
    (h : Resumable b.length (consumeNumberResumable b 0 0)) :
    NumEquiv (b ++ e).length
      (consumeNumberResumable (b ++ e) (consumeNumberResumable b 0 0).1 (consumeNumberResumable b 0 0).2.1)
      (consumeNumberResumable (b ++ e) 0 0) :=
  num_resume_equiv b e h

/-- the hypothesis of `num_resume` is met by "1." (io.ErrUnexpectedEOF at the '.', state beforeFractionalDigits) … -/
example : consumeNumberResumable [0x31, 0x2E] 0 0 = (1, 3, .eof) := by decide
example : Resumable 2 (consumeNumberResumable [0x31, 0x2E] 0 0) := by unfold Resumable; decide
/-- … and by "12" (nil at the end of the buffer, state withinIntegerDigits) -/
example : Resumable 2 (consumeNumberResumable [0x31, 0x32] 0 0) := by unfold Resumable; decide
/-- the states really may differ when the result is definitive: "12x" resumed from ("12", withinIntegerDigits) -/
example : consumeNumberResumable [0x31, 0x32, 0x78] 2 2 = (2, 3, .ok) ∧
          consumeNumberResumable [0x31, 0x32, 0x78] 0 0 = (2, 2, .ok) := by decide

/-- a definitive result of the number scanner (not io.ErrUnexpectedEOF, not at the end of the buffer) is final -/
theorem num_stable (b e : Bytes) (h : Definitive b.length (consumeNumberResumable b 0 0)) :
    consumeNumberResumable (b ++ e) 0 0 = consumeNumberResumable b 0 0 :=
  Resume.num_stable b e h

example : Definitive 3 (consumeNumberResumable [0x31, 0x32, 0x78] 0 0) := by unfold Definitive; decide

/-- `str_resume`.  If `ConsumeStringResumable(&f, b, 0, v)` returns io.ErrUnexpectedEOF with resume offset `n` and
flags `f'`, then for EVERY extension `e`, `ConsumeStringResumable(&f', b ++ e, n, v)` returns exactly what
`ConsumeStringResumable(&f, b ++ e, 0, v)` returns: same offset, same flags, same error class. -/
theorem str_resume (f : VFlags) (b e : Bytes) (v : Bool) (n : Nat) (f' : VFlags)
    (h : consumeStringResumable f b 0 v = (n, f', .eof)) :
    consumeStringResumable f' (b ++ e) n v = consumeStringResumable f (b ++ e) 0 v :=
  str_resume_eq f b e v n f' h

/-- the hypothesis is met by `"\` (a string cut inside an escape: resume offset 1, stringNonVerbatim already set) -/
example : consumeStringResumable .none [0x22, 0x5C] 0 true = (1, .nv, .eof) := by
  simp [consumeStringResumable, strLoop_cons]
  decide

/-- a definitive result of the string scanner (nil or a syntax error) is final -/
theorem str_stable (f : VFlags) (b e : Bytes) (v : Bool)
    (h : (consumeStringResumable f b 0 v).2.2 ≠ .eof) :
    consumeStringResumable f (b ++ e) 0 v = consumeStringResumable f b 0 v :=
  Resume.str_stable f b e v h

example : (consumeStringResumable .none [0x22, 0x22] 0 true).2.2 ≠ .eof := by
  simp [consumeStringResumable, strLoop_cons]
  decide

/-- the model's last branch of the string loop stands for exactly the `r < ' '` arm of the Go switch: the
`default: panic("BUG: unhandled character")` arm cannot be reached -/
theorem str_panic_arm_unreachable (c : UInt8) (r1 : Bytes)
    (hn : noEscape c = false) (hq : (c == 0x22) = false)
    (h2 : ¬ (Utf8.decodeRune (c :: r1)).2 > 1)
    (h5 : ((Utf8.decodeRune (c :: r1)).1 == 0x5C) = false)
    (hre : ((Utf8.decodeRune (c :: r1)).1 == Utf8.runeError) = false) :
    (Utf8.decodeRune (c :: r1)).1 < 0x20 :=
  strStep_default_unreachable c r1 hn hq h2 h5 hre

/-- its hypotheses are met by the control character 0x01 -/
example : noEscape 0x01 = false ∧ ((0x01 : UInt8) == 0x22) = false ∧ ¬ (Utf8.decodeRune [0x01]).2 > 1 ∧
    ((Utf8.decodeRune [0x01]).1 == 0x5C) = false ∧ ((Utf8.decodeRune [0x01]).1 == Utf8.runeError) = false := by decide

/-- `ws_resume`: blanks are consumed up to the end of the buffer and continue in the appended input, or stop
at the first non-blank byte whatever is appended. -/
theorem ws_resume (b e : Bytes) :
    consumeWhitespace (b ++ e) =
      if consumeWhitespace b = b.length then b.length + consumeWhitespace e else consumeWhitespace b :=
  consumeWhitespace_append b e

/-- `lit_resume`: io.ErrUnexpectedEOF from ConsumeLiteral means the whole buffer matched (so rescanning from the
start, as decoderState.consumeLiteral does, loses nothing); any other result is final. -/
theorem lit_resume (b lit e : Bytes) :
    ((consumeLiteral b lit).2 = .eof → (consumeLiteral b lit).1 = b.length) ∧
    ((consumeLiteral b lit).2 ≠ .eof → consumeLiteral (b ++ e) lit = consumeLiteral b lit) :=
  ⟨consumeLiteral_eof_len b lit, consumeLiteral_stable b lit e⟩

example : (consumeLiteral [0x6E, 0x75] [0x6E, 0x75, 0x6C, 0x6C]).2 = .eof := by decide
example : (consumeLiteral [0x6E, 0x78] [0x6E, 0x75, 0x6C, 0x6C]).2 ≠ .eof := by decide

/-! ## Chunk independence of the refill loops -/

/-- `chunk_indep` (numbers): decoderState.consumeNumber over any chunking `c :: cs` of the input returns what it
returns on the input in one piece. -/
theorem chunk_indep_num (c : Bytes) (cs : List Bytes) :
    consumeNumberChunks c 0 0 cs = consumeNumberChunks (c ++ cs.flatten) 0 0 [] :=
  num_chunk_indep c cs

/-- `chunk_indep` (strings): decoderState.consumeString over any chunking returns (offset, flags, error class) of
one scan of the whole input. -/
theorem chunk_indep_str (f : VFlags) (v : Bool) (c : Bytes) (cs : List Bytes) :
    consumeStringChunks f c 0 v cs = consumeStringResumable f (c ++ cs.flatten) 0 v :=
  str_chunk_indep f v c cs

/-- `chunk_indep` (literals) -/
theorem chunk_indep_lit (c lit : Bytes) (cs : List Bytes) :
    consumeLiteralChunks c lit cs = consumeLiteral (c ++ cs.flatten) lit :=
  consumeLiteralChunks_eq cs c lit

/-- `chunk_indep` (whitespace) -/
theorem chunk_indep_ws (c : Bytes) (cs : List Bytes) :
    consumeWhitespaceChunks c 0 cs = consumeWhitespaceChunks (c ++ cs.flatten) 0 [] :=
  consumeWhitespaceChunks_inv cs c 0 (Nat.zero_le _)

/-- consequently two chunkings of the same bytes cannot be told apart by any of the four loops -/
theorem chunk_indep_any_two (c d : Bytes) (cs ds : List Bytes) (f : VFlags) (v : Bool) (lit : Bytes)
    (h : c ++ cs.flatten = d ++ ds.flatten) :
    consumeNumberChunks c 0 0 cs = consumeNumberChunks d 0 0 ds ∧
    consumeStringChunks f c 0 v cs = consumeStringChunks f d 0 v ds ∧
    consumeLiteralChunks c lit cs = consumeLiteralChunks d lit ds ∧
    consumeWhitespaceChunks c 0 cs = consumeWhitespaceChunks d 0 ds := by
  refine ⟨?_, ?_, ?_, ?_⟩
  · rw [chunk_indep_num, chunk_indep_num d, h]
  · rw [chunk_indep_str, chunk_indep_str f v d, h]
  · rw [chunk_indep_lit, chunk_indep_lit d, h]
  · rw [chunk_indep_ws, chunk_indep_ws d, h]

example : ([0x31] : Bytes) ++ [[0x2E], [0x35]].flatten = [0x31, 0x2E] ++ [[0x35]].flatten := by decide

/-! ## The decode buffer -/

/-- `window_inv`: starting from a fresh streaming decoder, after ANY sequence of fetches (of any sizes), position
updates and invalidations: `prevStart ≤ prevEnd ≤ len(buf)`, no byte count is off, and the stream from
`InputOffset` on is `UnreadBuffer` followed by what the reader still holds. -/
theorem window_inv (stream : Bytes) (ops : List Op) : Inv stream (run (init stream) ops) :=
  inv_run stream ops _ (inv_init stream)

/-- the same for a decoder over a whole slice -/
theorem window_inv_whole (stream : Bytes) (ops : List Op) : Inv stream (run (initWhole stream) ops) :=
  inv_run stream ops _ (inv_initWhole stream)

/-- `no_input_lost`: at every moment the bytes taken from the reader are exactly the first InputOffset bytes
followed by UnreadBuffer. -/
theorem no_input_lost (stream : Bytes) (ops : List Op) :
    let w := run (init stream) ops
    stream = stream.take w.inputOffset ++ w.unread ++ w.pending ∧
    w.inputOffset + w.unread.length + w.pending.length = stream.length :=
  inv_unread stream _ (window_inv stream ops)

/-- `window_inv` in its literal form, for decoders that never overwrite their buffer (whole slice, *bytes.Buffer):
`stream = consumed ++ buf ++ pending` with `consumed.length = baseOffset`, for every chunking. -/
theorem window_inv_exact (stream : Bytes) (ops : List Op) (hno : ∀ op ∈ ops, op.isInvalidate = false) :
    InvExact stream (run (init stream) ops) :=
  invExact_run stream ops hno _ (invExact_init stream)

example : ∀ op ∈ [Op.fetch 3, Op.advance 1 2, Op.fetch 1], op.isInvalidate = false := by decide

/-! ## The streaming decoder: ReadToken sequences (Model/Stream.lean against Model/TokenLoop.lean)

The streaming model = the Window + the four refill loops over an adversarial reader (`Event`: chunk, possibly empty /
fault / eof) + the token-level control flow of ReadToken; `Stream.run o n s` are the results of `n` consecutive
ReadToken calls (continuing after errors), `Stream.wholeRun o n ws` the same calls of the whole-buffer model
`TokenLoop.readToken` (slice C01), in one vocabulary: `tok kind start stop` with ABSOLUTE offsets (`stop` is
`InputOffset` afterwards), `err offset class` (the offset `wrapSyntacticError` reports, `baseOffset + pos`), `fault`.
The model is tied to the real Decoder by correspondence (`dec stream`, recorded reader events). -/

open JsonV.Model.Stream in
/-- `sim_tokens`.  For EVERY chunking `cs` of the input and every number of calls, the ReadToken calls of the
streaming decoder return, call by call, exactly what they return on the whole input in one piece: token kinds,
token spans, absolute offsets, error classes and error offsets (and, as the simulation relation `Sim` is kept, the
same state machine and namespaces). -/
theorem sim_tokens (o : Validate.VOpts) (n : Nat) (cs : List Bytes) :
    Stream.run o n (Stream.init (cs.map Event.chunk)) = Stream.wholeRun o n { r := cs.flatten } := by
  have h := run_sim o n (Stream.init (cs.map Event.chunk)) { r := avail (cs.map Event.chunk) }
    (sim_init _) (noFault_chunks cs)
  rw [avail_chunks] at h
  exact h

open JsonV.Model.Stream in
/-- the same for any reader that does not fault: empty reads and the position of `eof` do not matter either -/
theorem sim_tokens_events (o : Validate.VOpts) (n : Nat) (es : List Event) (h : NoFault es) :
    Stream.run o n (Stream.init es) = Stream.wholeRun o n { r := avail es } :=
  run_sim o n _ _ (sim_init es) h

open JsonV.Model.Stream in
/-- consequently two chunkings of the same bytes cannot be told apart by any sequence of ReadToken calls -/
theorem sim_tokens_any_two (o : Validate.VOpts) (n : Nat) (cs ds : List Bytes) (h : cs.flatten = ds.flatten) :
    Stream.run o n (Stream.init (cs.map Event.chunk)) = Stream.run o n (Stream.init (ds.map Event.chunk)) := by
  rw [sim_tokens, sim_tokens, h]

open JsonV.Model.Stream in
example : NoFault [Event.chunk [0x5B], Event.chunk [], Event.chunk [0x31, 0x5D], Event.eof] := by
  intro h; simp at h

open JsonV.Model.Stream in
/-- `fault_stutter`, one call: from decoders at the same point (`Sim`), a ReadToken that returns the transient error
leaves the streaming decoder at the same point as before (same state machine and namespaces, same InputOffset, same
remaining input: buffered ++ still to come), with strictly fewer reader events left — so the calls that follow
behave as if the fault had not occurred (`fault_stutter_run`). -/
theorem fault_stutter (o : Validate.VOpts) (s : SState) (ws : WState) (h : Sim s ws)
    (hf : (Stream.readToken o s).1 = .fault) :
    Sim (Stream.readToken o s).2 ws ∧ (Stream.readToken o s).2.events.length < s.events.length := by
  rcases readToken_sim o s ws h with ⟨_, hs, hl⟩ | ⟨ho, _, _⟩
  · exact ⟨hs, hl⟩
  · rw [hf] at ho; exact absurd ho.symm (wholeRead_ne_fault o ws)

open JsonV.Model.Stream in
/-- `fault_stutter`, whole runs: for ANY reader (faults anywhere, any number of them), removing the calls that
returned the transient error from the transcript leaves exactly the transcript of the decoder over the whole input. -/
theorem fault_stutter_run (o : Validate.VOpts) (n : Nat) (es : List Event) :
    (Stream.run o n (Stream.init es)).filter (fun x => x != .fault) =
      Stream.wholeRun o ((Stream.run o n (Stream.init es)).filter (fun x => x != .fault)).length { r := avail es } :=
  run_stutter o n _ _ (sim_init es)

open JsonV.Model.Stream in
/-- a fault does occur in the model: `[1` then a fault: the second call returns it, the third succeeds -/
example : Stream.run {} 3 (Stream.init [Event.chunk [0x5B], Event.fault, Event.chunk [0x31, 0x5D]]) =
    [.tok 0x5B 0 1, .fault, .tok 0x30 1 2] := by decide

open JsonV.Model.Stream in
/-- `value_span` for tokens: a token reported at absolute offsets `[a, b)` lies inside the input, `InputOffset` is
`b` afterwards, and for strings and numbers — the tokens that carry bytes — the bytes the decoder hands out,
`d.buf[d.prevStart:d.prevEnd]`, are exactly `input[a:b]` (`input` = what was consumed so far ++ buffered ++ to come). -/
theorem value_span_tokens (o : Validate.VOpts) (s : SState) (ws : WState) (h : Sim s ws) (pre : Bytes)
    (hpre : pre.length = ws.off) (k : UInt8) (a b : Nat) (ht : (Stream.readToken o s).1 = .tok k a b) :
    ws.off ≤ a ∧ a ≤ b ∧ b ≤ (pre ++ ws.r).length ∧
    (Stream.readToken o s).2.w.inputOffset = b ∧
    ((k == 0x22 || k == 0x30) = true →
      (Stream.readToken o s).2.w.baseOffset + (Stream.readToken o s).2.w.prevStart = a ∧
      (Stream.readToken o s).2.prevBytes = ((pre ++ ws.r).drop a).take (b - a)) :=
  readToken_span o s ws h pre hpre k a b ht

open JsonV.Model.Stream in
/-- `Sim` is met initially (so every reachable pair of states satisfies it, by `readToken_sim`) -/
example (es : List Event) : Sim (Stream.init es) { r := avail es } := sim_init es

/-! ## The streaming decoder: scripts of ReadToken / ReadValue / SkipValue

`Stream.readValue` = the head shared with ReadToken, then the streaming consumeValue / consumeObject / consumeArray
(`sValue …`: every blank run, literal, string and number inside the value goes through its refill loop at its
position), then the state machine; `Stream.skipValue` = PeekKind without its cache, then a ReadToken loop (for `{`,
`[`) or a ReadValue.  The whole-buffer side is `Validate.consumeValue` (slice `wire`, the function `valid_iff` /
`value_complete` speak about) for containers and `TokenLoop.lexToken` for scalars, behind `TokenLoop.readToken`'s head. -/

open JsonV.Model.Stream in
/-- `sim_full` (ReadToken / ReadValue / SkipValue).  For EVERY chunking `cs` of the input and EVERY script of calls,
the streaming decoder returns, call by call, exactly what the decoder over the whole input returns: token and value
kinds, spans, absolute offsets (`stop` = InputOffset afterwards), error classes and offsets; the state machine and
the namespaces stay equal too (`Sim` is kept). -/
theorem sim_full (o : Validate.VOpts) (calls : List Stream.Call) (cs : List Bytes) :
    Stream.runScript o calls (Stream.init (cs.map Event.chunk)) = Stream.wholeScript o calls { r := cs.flatten } := by
  have h := script_sim o calls (Stream.init (cs.map Event.chunk)) { r := avail (cs.map Event.chunk) }
    (sim_init _) (noFault_chunks cs)
  rw [avail_chunks] at h
  exact h

open JsonV.Model.Stream in
/-- the same for any reader that does not fault (empty reads, `eof` anywhere) -/
theorem sim_full_events (o : Validate.VOpts) (calls : List Stream.Call) (es : List Event) (h : NoFault es) :
    Stream.runScript o calls (Stream.init es) = Stream.wholeScript o calls { r := avail es } :=
  script_sim o calls _ _ (sim_init es) h

open JsonV.Model.Stream in
/-- two chunkings of the same bytes cannot be told apart by any script -/
theorem sim_full_any_two (o : Validate.VOpts) (calls : List Stream.Call) (cs ds : List Bytes) (h : cs.flatten = ds.flatten) :
    Stream.runScript o calls (Stream.init (cs.map Event.chunk)) =
      Stream.runScript o calls (Stream.init (ds.map Event.chunk)) := by
  rw [sim_full, sim_full, h]

open JsonV.Model.Stream in
/-- a script that uses all three calls on `[{"a":[1,2]},3]` cut into four chunks -/
example : Stream.runScript {} [.readToken, .readValue, .skipValue, .readToken]
    (Stream.init ([[0x5B, 0x7B, 0x22], [0x61, 0x22, 0x3A, 0x5B, 0x31], [0x2C, 0x32, 0x5D, 0x7D, 0x2C], [0x33, 0x5D]].map Event.chunk)) =
    [.tok 0x5B 0 1, .tok 0x7B 1 12, .skip 14, .tok 0x5D 14 15] := by decide +kernel

open JsonV.Model.Stream in
/-- `value_span_full`: a value returned by ReadValue at absolute offsets `[a, b)` lies inside the input, `InputOffset`
is `b` afterwards, `prevStart` is `a`, and the bytes handed out — `d.buf[d.prevStart:d.prevEnd]` — are exactly
`input[a:b]`, whatever the kind of the value and however the input arrived. -/
theorem value_span_full (o : Validate.VOpts) (s : SState) (ws : WState) (h : Sim s ws) (pre : Bytes)
    (hpre : pre.length = ws.off) (k : UInt8) (a b : Nat) (ht : (Stream.readValue o s).1 = .tok k a b) :
    ws.off ≤ a ∧ a ≤ b ∧ b ≤ (pre ++ ws.r).length ∧
    (Stream.readValue o s).2.w.inputOffset = b ∧
    (Stream.readValue o s).2.w.baseOffset + (Stream.readValue o s).2.w.prevStart = a ∧
    (Stream.readValue o s).2.prevBytes = ((pre ++ ws.r).drop a).take (b - a) :=
  readValue_span o s ws h pre hpre k a b ht

open JsonV.Model.Stream in
/-- `fault_stutter_full` for ReadValue: a ReadValue that returns the transient error — wherever inside the value the
fault struck — leaves the decoder at the same point (same state machine and namespaces, same InputOffset, same
remaining input), with strictly fewer reader events left: the retried call sees the fault-free situation. -/
theorem fault_stutter_full (o : Validate.VOpts) (s : SState) (ws : WState) (h : Sim s ws)
    (hf : (Stream.readValue o s).1 = .fault) :
    Sim (Stream.readValue o s).2 ws ∧ (Stream.readValue o s).2.events.length < s.events.length := by
  rcases readValue_sim o s ws h with ⟨_, hs, hl⟩ | ⟨ho, _, _⟩
  · exact ⟨hs, hl⟩
  · rw [hf] at ho; exact absurd ho.symm (wholeReadWith_ne_fault _ ws)

open JsonV.Model.Stream in
/-- and a call that does not fault agrees with the whole-input decoder even when the reader faults elsewhere -/
theorem readValue_agrees (o : Validate.VOpts) (s : SState) (ws : WState) (h : Sim s ws)
    (hf : (Stream.readValue o s).1 ≠ .fault) :
    (Stream.readValue o s).1 = (Stream.wholeReadValue o ws).1 ∧ Sim (Stream.readValue o s).2 (Stream.wholeReadValue o ws).2 := by
  rcases readValue_sim o s ws h with ⟨hx, _, _⟩ | ⟨ho, hs, _⟩
  · exact absurd hx hf
  · exact ⟨ho, hs⟩

open JsonV.Model.Stream in
/-- a fault inside a value does occur in the model: `[1,` fault `2]`: the first ReadValue returns it, the second succeeds -/
example : Stream.runScript {} [.readValue, .readValue]
    (Stream.init [Event.chunk [0x5B, 0x31, 0x2C], Event.fault, Event.chunk [0x32, 0x5D]]) = [.fault, .tok 0x5B 0 5] := by decide +kernel

/-! ## PeekKind and its cache

`Stream.peekKind / readTokenP / readValueP` model `peekPos` / `peekErr` as the code does: PeekKind returns a cached kind,
re-reads after a cached error; a read call returns a cached error once (it may be the transient I/O error) and clears
the cache; with a cached position it skips the head of the call.  SkipValue runs on the decoder with the cache dropped. -/

open JsonV.Model.Stream in
/-- `sim_peek_full`.  For EVERY chunking and EVERY script over ReadToken / ReadValue / SkipValue / PeekKind the
streaming decoder with its peek cache returns, call by call, what the decoder over the whole input returns (for
PeekKind: the kind, 0 for an error that the next read call reports). -/
theorem sim_peek_full (o : Validate.VOpts) (calls : List CallP) (cs : List Bytes) :
    runScriptP o calls { s := Stream.init (cs.map Event.chunk) } = wholeScriptP o calls { r := cs.flatten } := by
  have h := scriptP_sim o calls { s := Stream.init (cs.map Event.chunk) } { r := avail (cs.map Event.chunk) }
    (simP_init _) (noFault_chunks cs) (by simp)
  rw [avail_chunks] at h
  exact h

open JsonV.Model.Stream in
/-- the same for any reader that does not fault -/
theorem sim_peek_full_events (o : Validate.VOpts) (calls : List CallP) (es : List Event) (h : NoFault es) :
    runScriptP o calls { s := Stream.init es } = wholeScriptP o calls { r := avail es } :=
  scriptP_sim o calls _ _ (simP_init es) h (by simp)

open JsonV.Model.Stream in
/-- cache transparency: PeekKind calls can be deleted from a script without changing the other results (on the
whole-input side PeekKind does nothing, and the streaming side equals it) -/
theorem peek_transparent (o : Validate.VOpts) (calls : List CallP) (cs : List Bytes) :
    (runScriptP o calls { s := Stream.init (cs.map Event.chunk) }).filter (fun x => match x with | .kind _ => false | _ => true) =
    (wholeScriptP o calls { r := cs.flatten }).filter (fun x => match x with | .kind _ => false | _ => true) := by
  rw [sim_peek_full]

open JsonV.Model.Stream in
/-- `fault_stutter` for PeekKind: a fault during PeekKind is cached (the decoders stay at the same point, the reader
has fewer events left); the next ReadToken or ReadValue returns it, clears the cache and leaves the decoders at the
same point, so the retried call continues as if no fault had occurred (`sim_peek_full_events` from there on). -/
theorem fault_stutter_peek (o : Validate.VOpts) (p : PState) (ws : WState) (h : SimP p ws)
    (hf : (peekKind p).2.peekErr = some .fault) :
    SimP (peekKind p).2 ws ∧ (peekKind p).2.s.events.length < p.s.events.length ∧
    (readTokenP o (peekKind p).2).1 = .fault ∧ SimP (readTokenP o (peekKind p).2).2 ws ∧
    (readValueP o (peekKind p).2).1 = .fault ∧ SimP (readValueP o (peekKind p).2).2 ws :=
  peek_fault_stutter o p ws h hf

open JsonV.Model.Stream in
/-- it happens: `[` then a fault: PeekKind returns 0, ReadToken returns the fault, the retried ReadToken succeeds -/
example : runScriptP {} [.peekKind, .readToken, .readToken] { s := Stream.init [Event.fault, Event.chunk [0x5B]] } =
    [.kind 0, .out .fault, .out (.tok 0x5B 0 1)] := by decide +kernel

/-! ## Full statements that are NOT proved (validated by the harness: transcripts over all readers) -/

/-- what the property observes beyond the results: `StackPointer`, and the JSONPointer of errors -/
structure PointerModel where
  /-- an executable model of the decoder with `d.Names` that returns, for a reader and a script, the pointer
  observations after every call -/
  pointers : List Stream.Event → List Stream.Call → List Bytes

/-- `sim_pointers_full`: StackPointer after every call and the JSONPointer of every error do not depend on the
chunking (needs a model of `objectNameStack` with its lazily copied buffer offsets; finding D3 lived here). -/
def sim_pointers_full (M : PointerModel) : Prop :=
  ∀ (cs : List Bytes) (calls : List Stream.Call),
    M.pointers (cs.map Stream.Event.chunk) calls = M.pointers [Stream.Event.chunk cs.flatten] calls

end JsonV.Props.C05
