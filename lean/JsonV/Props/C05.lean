/-
C05 — Decoding is independent of how the input arrives or is consumed.

Proved here, for ALL inputs, all split points and all chunkings (no bounds):

  * `num_resume`, `str_resume`        resuming a scanner at the saved (offset, state/flags) over any extension of the
                                      buffer equals scanning the extended buffer from scratch;
  * `num_stable`, `str_stable`,       a definitive result (nil before the end of the buffer, or a syntax error) does
    `lit_resume`, `ws_resume`         not change when more input is appended; blanks/literals continue correctly;
  * `chunk_indep_num/str/lit/ws`      the refill loops of jsontext/decode.go (consumeNumber, consumeString,
                                      consumeLiteral, consumeWhitespace) return the same (offset, flags, error class)
                                      for EVERY chunking of the input as for the input in one piece;
  * `window_inv`, `no_input_lost`     the decode-buffer bookkeeping (fetch with any chunk size, advancing, invalidating)
                                      keeps  stream = first InputOffset bytes ++ UnreadBuffer ++ not-yet-read.

Not proved (kept as `def … : Prop`, validated by the harness only): the simulation of the whole decoder
(`sim_full`), `value_span_full`, `fault_stutter_full`.
-/
import JsonV.Lemmas.ResumeNum
import JsonV.Lemmas.ResumeStr
import JsonV.Lemmas.ResumeLit
import JsonV.Lemmas.ResumeWindow

namespace JsonV.Props.C05
open JsonV JsonV.Model JsonV.Model.Resume JsonV.Model.Window

/-! ## Resumable scanners -/

/-- `num_resume`.  If `ConsumeNumberResumable(b, 0, init)` stops where decoderState.consumeNumber refills — it returned
io.ErrUnexpectedEOF, or nil with the whole buffer consumed — then for EVERY extension `e`, resuming at the
returned offset and state over `b ++ e` yields the same offset and error class as scanning `b ++ e` from
scratch, and the same state whenever that state can be used again. -/
theorem num_resume (b e : Bytes)
    (h : Resumable b.length (consumeNumberResumable b 0 0)) :
    NumEquiv (b ++ e).length
      (consumeNumberResumable (b ++ e) (consumeNumberResumable b 0 0).1 (consumeNumberResumable b 0 0).2.1)
      (consumeNumberResumable (b ++ e) 0 0) :=
  num_resume_equiv b e h

/-- the hypothesis of `num_resume` is met by "1." (io.ErrUnexpectedEOF at the '.', state beforeFractionalDigits) … -/
example : consumeNumberResumable [0x31, 0x2E] 0 0 = (1, 3, .eof) := by decide
example : Resumable 2 (consumeNumberResumable [0x31, 0x2E] 0 0) := by unfold Resumable; decide
/-- … and by "12" (nil at the end of the buffer, state withinIntegerDigits) -/
example : Resumable 2 (consumeNumberResumable [0x31, 0x32] 0 0) := by unfold Resumable; decide
/-- the states really may differ when the result is definitive: "12x" resumed from ("12", withinIntegerDigits) -/
example : consumeNumberResumable [0x31, 0x32, 0x78] 2 2 = (2, 3, .ok) ∧
          consumeNumberResumable [0x31, 0x32, 0x78] 0 0 = (2, 2, .ok) := by decide

/-- a definitive result of the number scanner (not io.ErrUnexpectedEOF, not at the end of the buffer) is final -/
theorem num_stable (b e : Bytes) (h : Definitive b.length (consumeNumberResumable b 0 0)) :
    consumeNumberResumable (b ++ e) 0 0 = consumeNumberResumable b 0 0 :=
  Resume.num_stable b e h

example : Definitive 3 (consumeNumberResumable [0x31, 0x32, 0x78] 0 0) := by unfold Definitive; decide

/-- `str_resume`.  If `ConsumeStringResumable(&f, b, 0, v)` returns io.ErrUnexpectedEOF with resume offset `n` and
flags `f'`, then for EVERY extension `e`, `ConsumeStringResumable(&f', b ++ e, n, v)` returns exactly what
`ConsumeStringResumable(&f, b ++ e, 0, v)` returns: same offset, same flags, same error class. -/
theorem str_resume (f : VFlags) (b e : Bytes) (v : Bool) (n : Nat) (f' : VFlags)
    (h : consumeStringResumable f b 0 v = (n, f', .eof)) :
    consumeStringResumable f' (b ++ e) n v = consumeStringResumable f (b ++ e) 0 v :=
  str_resume_eq f b e v n f' h

/-- the hypothesis is met by `"\` (a string cut inside an escape: resume offset 1, stringNonVerbatim already set) -/
example : consumeStringResumable .none [0x22, 0x5C] 0 true = (1, .nv, .eof) := by
  simp [consumeStringResumable, strLoop_cons]
  decide

/-- a definitive result of the string scanner (nil or a syntax error) is final -/
theorem str_stable (f : VFlags) (b e : Bytes) (v : Bool)
    (h : (consumeStringResumable f b 0 v).2.2 ≠ .eof) :
    consumeStringResumable f (b ++ e) 0 v = consumeStringResumable f b 0 v :=
  Resume.str_stable f b e v h

example : (consumeStringResumable .none [0x22, 0x22] 0 true).2.2 ≠ .eof := by
  simp [consumeStringResumable, strLoop_cons]
  decide

/-- the model's last branch of the string loop stands for exactly the `r < ' '` arm of the Go switch: the
`default: panic("BUG: unhandled character")` arm cannot be reached -/
theorem str_panic_arm_unreachable (c : UInt8) (r1 : Bytes)
    (hn : noEscape c = false) (hq : (c == 0x22) = false)
    (h2 : ¬ (Utf8.decodeRune (c :: r1)).2 > 1)
    (h5 : ((Utf8.decodeRune (c :: r1)).1 == 0x5C) = false)
    (hre : ((Utf8.decodeRune (c :: r1)).1 == Utf8.runeError) = false) :
    (Utf8.decodeRune (c :: r1)).1 < 0x20 :=
  strStep_default_unreachable c r1 hn hq h2 h5 hre

/-- its hypotheses are met by the control character 0x01 -/
example : noEscape 0x01 = false ∧ ((0x01 : UInt8) == 0x22) = false ∧ ¬ (Utf8.decodeRune [0x01]).2 > 1 ∧
    ((Utf8.decodeRune [0x01]).1 == 0x5C) = false ∧ ((Utf8.decodeRune [0x01]).1 == Utf8.runeError) = false := by decide

/-- `ws_resume`: blanks are consumed up to the end of the buffer and continue in the appended input, or stop
at the first non-blank byte whatever is appended. -/
theorem ws_resume (b e : Bytes) :
    consumeWhitespace (b ++ e) =
      if consumeWhitespace b = b.length then b.length + consumeWhitespace e else consumeWhitespace b :=
  consumeWhitespace_append b e

/-- `lit_resume`: io.ErrUnexpectedEOF from ConsumeLiteral means the whole buffer matched (so rescanning from the
start, as decoderState.consumeLiteral does, loses nothing); any other result is final. -/
theorem lit_resume (b lit e : Bytes) :
    ((consumeLiteral b lit).2 = .eof → (consumeLiteral b lit).1 = b.length) ∧
    ((consumeLiteral b lit).2 ≠ .eof → consumeLiteral (b ++ e) lit = consumeLiteral b lit) :=
  ⟨consumeLiteral_eof_len b lit, consumeLiteral_stable b lit e⟩

example : (consumeLiteral [0x6E, 0x75] [0x6E, 0x75, 0x6C, 0x6C]).2 = .eof := by decide
example : (consumeLiteral [0x6E, 0x78] [0x6E, 0x75, 0x6C, 0x6C]).2 ≠ .eof := by decide

/-! ## Chunk independence of the refill loops -/

/-- `chunk_indep` (numbers): decoderState.consumeNumber over any chunking `c :: cs` of the input returns what it
returns on the input in one piece. -/
theorem chunk_indep_num (c : Bytes) (cs : List Bytes) :
    consumeNumberChunks c 0 0 cs = consumeNumberChunks (c ++ cs.flatten) 0 0 [] :=
  num_chunk_indep c cs

/-- `chunk_indep` (strings): decoderState.consumeString over any chunking returns (offset, flags, error class) of
one scan of the whole input. -/
theorem chunk_indep_str (f : VFlags) (v : Bool) (c : Bytes) (cs : List Bytes) :
    consumeStringChunks f c 0 v cs = consumeStringResumable f (c ++ cs.flatten) 0 v :=
  str_chunk_indep f v c cs

/-- `chunk_indep` (literals) -/
theorem chunk_indep_lit (c lit : Bytes) (cs : List Bytes) :
    consumeLiteralChunks c lit cs = consumeLiteral (c ++ cs.flatten) lit :=
  consumeLiteralChunks_eq cs c lit

/-- `chunk_indep` (whitespace) -/
theorem chunk_indep_ws (c : Bytes) (cs : List Bytes) :
    consumeWhitespaceChunks c 0 cs = consumeWhitespaceChunks (c ++ cs.flatten) 0 [] :=
  consumeWhitespaceChunks_inv cs c 0 (Nat.zero_le _)

/-- consequently two chunkings of the same bytes cannot be told apart by any of the four loops -/
theorem chunk_indep_any_two (c d : Bytes) (cs ds : List Bytes) (f : VFlags) (v : Bool) (lit : Bytes)
    (h : c ++ cs.flatten = d ++ ds.flatten) :
    consumeNumberChunks c 0 0 cs = consumeNumberChunks d 0 0 ds ∧
    consumeStringChunks f c 0 v cs = consumeStringChunks f d 0 v ds ∧
    consumeLiteralChunks c lit cs = consumeLiteralChunks d lit ds ∧
    consumeWhitespaceChunks c 0 cs = consumeWhitespaceChunks d 0 ds := by
  refine ⟨?_, ?_, ?_, ?_⟩
  · rw [chunk_indep_num, chunk_indep_num d, h]
  · rw [chunk_indep_str, chunk_indep_str f v d, h]
  · rw [chunk_indep_lit, chunk_indep_lit d, h]
  · rw [chunk_indep_ws, chunk_indep_ws d, h]

example : ([0x31] : Bytes) ++ [[0x2E], [0x35]].flatten = [0x31, 0x2E] ++ [[0x35]].flatten := by decide

/-! ## The decode buffer -/

/-- `window_inv`: starting from a fresh streaming decoder, after ANY sequence of fetches (of any sizes), position
updates and invalidations: `prevStart ≤ prevEnd ≤ len(buf)`, no byte count is off, and the stream from
`InputOffset` on is `UnreadBuffer` followed by what the reader still holds. -/
theorem window_inv (stream : Bytes) (ops : List Op) : Inv stream (run (init stream) ops) :=
  inv_run stream ops _ (inv_init stream)

/-- the same for a decoder over a whole slice -/
theorem window_inv_whole (stream : Bytes) (ops : List Op) : Inv stream (run (initWhole stream) ops) :=
  inv_run stream ops _ (inv_initWhole stream)

/-- `no_input_lost`: at every moment the bytes taken from the reader are exactly the first InputOffset bytes
followed by UnreadBuffer. -/
theorem no_input_lost (stream : Bytes) (ops : List Op) :
    let w := run (init stream) ops
    stream = stream.take w.inputOffset ++ w.unread ++ w.pending ∧
    w.inputOffset + w.unread.length + w.pending.length = stream.length :=
  inv_unread stream _ (window_inv stream ops)

/-- `window_inv` in its literal form, for decoders that never overwrite their buffer (whole slice, *bytes.Buffer):
`stream = consumed ++ buf ++ pending` with `consumed.length = baseOffset`, for every chunking. -/
theorem window_inv_exact (stream : Bytes) (ops : List Op) (hno : ∀ op ∈ ops, op.isInvalidate = false) :
    InvExact stream (run (init stream) ops) :=
  invExact_run stream ops hno _ (invExact_init stream)

example : ∀ op ∈ [Op.fetch 3, Op.advance 1 2, Op.fetch 1], op.isInvalidate = false := by decide

/-! ## Full statements that are NOT proved (validated by the harness: transcripts over all readers) -/

inductive Call where
  | readToken | readValue | skipValue | peekKind

/-- what the property observes after one call -/
structure Obs where
  result : Bytes
  errClass : Nat
  errOffset : Nat
  errPointer : Bytes
  inputOffset : Nat
  stackDepth : Nat
  stackIndex : List (Nat × Nat)
  stackPointer : Bytes

/-- a reader event: a chunk of data, a transient fault -/
inductive Event where
  | chunk (data : Bytes)
  | fault

/-- an executable model of the whole Decoder (to be supplied by Model/Stream.lean) -/
structure DecoderModel where
  run : List Event → List Call → List Obs

/-- `sim_full`: the transcript of any script does not depend on the chunking of the input. -/
def sim_full (M : DecoderModel) : Prop :=
  ∀ (chunks : List Bytes) (calls : List Call),
    M.run (chunks.map Event.chunk) calls = M.run [Event.chunk chunks.flatten] calls

/-- `value_span_full`: every value returned by ReadValue is the input span ending at InputOffset. -/
def value_span_full (M : DecoderModel) : Prop :=
  ∀ (chunks : List Bytes) (calls : List Call) (o : Obs), o ∈ M.run (chunks.map Event.chunk) calls →
    o.errClass = 0 → o.result = (chunks.flatten.take o.inputOffset).drop (o.inputOffset - o.result.length) ∨ o.result = []

/-- `fault_stutter_full`: a transient fault shows up as one extra observation that repeats the previous state;
removing it gives the fault-free transcript (ReadToken, ReadValue, PeekKind only). -/
def fault_stutter_full (M : DecoderModel) : Prop :=
  ∀ (pre post : List Bytes) (calls : List Call), Call.skipValue ∉ calls →
    ∃ (i : Nat), (M.run (pre.map Event.chunk ++ [Event.fault] ++ post.map Event.chunk) calls).eraseIdx i =
      M.run ((pre ++ post).map Event.chunk) calls

end JsonV.Props.C05
