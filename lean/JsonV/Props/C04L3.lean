/-
C04 at the tree level (L3) — Marshal then Unmarshal restores the value.

Property theorems only (proofs in Lemmas/RoundTrip*.lean).  They are statements about the L3 models
`Model.mar` (Model/Marshal.lean) and `Model.unm` (Model/Unmarshal.lean), which mirror
/repo/arshal_default.go and arshal_any.go kind by kind and are tied to the real code by the
correspondence checks of harness/c04_l3.go (`arsh mar`, `arsh rt`) and harness/c14.go (`arsh unm`).

Scope: EVERY type of the modelled universe (`GoType.wf`), EVERY well-typed value (`hasType`), no
bound on size or depth, all four settings of FormatNilSliceAsNull / FormatNilMapAsNull on the marshal
side, both settings of UnmarshalArrayFromAnyLength on the unmarshal side; Deterministic(true).

WHAT IS ABSTRACTED (tree level, not byte level):
  * a float64 is the number literal that `jsonwire.AppendFloat` prints for it; `mar` writes that
    literal, `unm` reads it back.  The theorems therefore do NOT cover `AppendFloat`/`ParseFloat`
    (shortest formatting and its exact round trip are the byte-level subject of C10); NaN/±Inf
    (marshal errors) and literals overflowing float64 are not representable in the model.
  * a string is its unescaped byte string; quoting/unquoting is the byte-level subject of C11.
    Invalid UTF-8 is a marshal error in the model as in the code, hence excluded by `hasType`.
  * integer literals ARE modelled: `strconv.AppendInt/AppendUint` text and the arshalers' own parse
    (`ParseUint`, sign, width check) — full range of every width, including the minimum.
  * rendering the tree to bytes and tokenizing bytes to a tree (L1/L2) are other slices (C01, C02).

THE ONE FORCED HYPOTHESIS: `safe o v` — no pointer and no interface in `v` holds a value that marshals
as `null` (`**T` pointing at a nil `*T`, `*any` pointing at a nil interface; with FormatNil…AsNull
also pointers/interfaces holding nil slices/maps).  Such a value marshals as `null`, and `null`
unmarshals to a nil pointer / nil interface: the real code does the same (harness/c04_l3.go exercises
exactly these shapes, bucket `unsafe-collapse`), so there the value is NOT restored.  `unsafe_collapses`
shows the hypothesis is necessary, not an artefact.  It is needed ONLY for the value relation:
acceptance and the re-marshal fixpoint (`remarshal_fixpoint`) hold for every well-typed value.

The value relation `veq` (Model/Marshal.lean) is equality except: a nil and an empty slice are
identified, a nil and an empty map are identified, and maps are compared as finite maps (the order of
a model association list is a modelling artefact; the decoded map is in sorted key order).
-/
import JsonV.Lemmas.RoundTripTotal

namespace JsonV.Props.C04L3
open JsonV JsonV.Spec JsonV.Model JsonV.Lemmas.Merge JsonV.Lemmas.RoundTrip

/-- **Marshaling a well-typed value never fails.** -/
theorem mar_total (o : MOpts) (T : GoType) (v : GoVal) (ht : hasType T v = true) : ∃ j, mar o T v = .ok j :=
  mar_total_all o T v ht

/-- **Every tree produced by `mar` has duplicate-free objects** (struct field names are distinct by
`T.wf`, map keys by `hasType`) — so the default decoder's duplicate-name check (`success_dupFree` of
C14) never rejects marshaled output. -/
theorem mar_dupFree (o : MOpts) (T : GoType) (hwf : T.wf = true) (v : GoVal) (j : JTree)
    (ht : hasType T v = true) (h : mar o T v = .ok j) : j.dupFree = true :=
  mar_dupFree_all o T hwf v j ht h

/-- **Unmarshal accepts what Marshal wrote, and re-marshaling the decoded value reproduces the same
tree** — for EVERY well-typed value (no `safe` hypothesis); the decoded value is again well-typed. -/
theorem remarshal_fixpoint (o : MOpts) (uo : UOpts) (T : GoType) (hwf : T.wf = true) (v : GoVal) (j : JTree)
    (ht : hasType T v = true) (h : mar o T v = .ok j) :
    ∃ v', unm uo T j T.zero = .ok v' ∧ mar o T v' = .ok j ∧ hasType T v' = true := by
  obtain ⟨v', h1, _, h3, h4⟩ := rt_all o uo T hwf v j ht h
  exact ⟨v', h1, h3, h4⟩

/-- **Round trip.**  If moreover no pointer/interface in `v` holds a null-printing value (`safe`), the
decoded value is related to the original by `veq` (equal up to nil ≈ empty containers). -/
theorem roundtrip (o : MOpts) (uo : UOpts) (T : GoType) (hwf : T.wf = true) (v : GoVal) (j : JTree)
    (ht : hasType T v = true) (hs : safe o v = true) (h : mar o T v = .ok j) :
    ∃ v', unm uo T j T.zero = .ok v' ∧ veq v v' ∧ mar o T v' = .ok j ∧ hasType T v' = true := by
  obtain ⟨v', h1, h2, h3, h4⟩ := rt_all o uo T hwf v j ht h
  exact ⟨v', h1, h2 hs, h3, h4⟩

/-- The same without mentioning the intermediate tree: total round trip of a well-typed safe value. -/
theorem roundtrip_total (o : MOpts) (uo : UOpts) (T : GoType) (hwf : T.wf = true) (v : GoVal)
    (ht : hasType T v = true) (hs : safe o v = true) :
    ∃ j v', mar o T v = .ok j ∧ unm uo T j T.zero = .ok v' ∧ veq v v' ∧ mar o T v' = .ok j := by
  obtain ⟨j, hj⟩ := mar_total o T v ht
  obtain ⟨v', h1, h2, h3, _⟩ := rt_all o uo T hwf v j ht hj
  exact ⟨j, v', hj, h1, h2 hs, h3⟩

/-- A value marshals as `null` only if it is one of the null-printing values. -/
theorem null_only_if_printsNull (o : MOpts) (T : GoType) (v : GoVal) (h : mar o T v = .ok .null) :
    printsNull o v = true := mar_null o T v .null h rfl

/-- The hypothesis `safe` is necessary: a pointer to a nil pointer is well-typed, marshals to `null`,
and comes back as a nil pointer, which is not `veq` to it. -/
theorem unsafe_collapses (o : MOpts) (uo : UOpts) (t : GoType) :
    hasType (.ptr (.ptr t)) (.ptrTo .nilPtr) = true ∧ safe o (.ptrTo .nilPtr) = false ∧
    mar o (.ptr (.ptr t)) (.ptrTo .nilPtr) = .ok .null ∧
    unm uo (.ptr (.ptr t)) .null (GoType.zero (.ptr (.ptr t))) = .ok .nilPtr ∧
    ¬ veq (.ptrTo .nilPtr) .nilPtr := by
  refine ⟨by simp [hasType], by simp [safe, printsNull], by simp [mar], by simp [unm], by simp [veq]⟩

namespace Ex
/-- `struct{ a int8; m map[string]any; p *[]uint16; s []string }` -/
def T : GoType := .struct [([0x61], .int 8), ([0x6d], .map .any), ([0x70], .ptr (.slice (.uint 16))), ([0x73], .slice .string)]
/-- `{a:-7, m:{"b":nil,"a":[]any{true}}, p:&[]uint16{9}, s:nil}` -/
def v : GoVal := .structOf [([0x61], .int (-7)),
  ([0x6d], .mapOf [([0x62], .nilIface), ([0x61], .ifaceOf (.sliceOf [.ifaceOf (.bool true)]))]),
  ([0x70], .ptrTo (.sliceOf [.uint 9])), ([0x73], .nilSlice)]
/-- `{"a":-7,"m":{"a":[true],"b":null},"p":[9],"s":[]}` -/
def j : JTree := .obj [([0x61], .num [0x2d, 0x37]),
  ([0x6d], .obj [([0x61], .arr [.bool true]), ([0x62], .null)]),
  ([0x70], .arr [.num [0x39]]), ([0x73], .arr [])]
end Ex

/-- The hypotheses of `roundtrip` are met by a non-trivial value (struct, unsorted map, `any`, pointer,
nil slice); the decoded value differs from the original exactly where `veq` allows. -/
example : Ex.T.wf = true ∧ hasType Ex.T Ex.v = true ∧ safe {} Ex.v = true ∧ mar {} Ex.T Ex.v = .ok Ex.j := by
  refine ⟨by decide, by decide, by decide, ?_⟩
  have hs : sortMembers [(([0x62] : Bytes), JTree.null), ([0x61], JTree.arr [.bool true])]
      = [([0x61], .arr [.bool true]), ([0x62], .null)] := by
    simp [sortMembers, List.mergeSort, List.MergeSort.Internal.splitInTwo, List.merge, keyLe]; decide
  have hk1 : Utf8.valid [0x61] = true := by decide
  have hk2 : Utf8.valid [0x62] = true := by decide
  simp [Ex.T, Ex.v, Ex.j, mar, marFields, marMembers, marAny, marDyn, marAnyL, marList, hs, hk1, hk2,
    nilSliceTree, Time.intDigits, Time.natDigits_lt, Time.digitChar, Time.cMinus]

end JsonV.Props.C04L3
