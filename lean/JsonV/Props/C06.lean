/-
C06 — Encoder enforces the grammar; a rejected call has no effect.

Property theorems only (proofs live in Lemmas/State*.lean and Lemmas/Enc*.lean).
`Gen.*` is regenerated from /repo on every run (Tie A): the bodies of all `stateEntry`
methods, the `stateEntry` masks and `maxNestingDepth`.
-/
import JsonV.Model.State
import JsonV.Spec.PDA
import JsonV.Lemmas.StateEntry
import JsonV.Lemmas.StateRefine
import JsonV.Lemmas.StateRun
import JsonV.Model.Encoder
import JsonV.Spec.Render
import JsonV.Lemmas.EncNoop
import JsonV.Lemmas.EncRender
import JsonV.Lemmas.EncIff
import JsonV.Lemmas.EncValue
import JsonV.Lemmas.EncRaw
import JsonV.Lemmas.EncOps
import JsonV.Lemmas.EncValid
import JsonV.Lemmas.EncUtf8
import JsonV.Props.C01
import JsonV.Spec.Names
import JsonV.Model.Validate
import JsonV.Gen.Straight
import JsonV.Gen.Constants
import JsonV.Gen.Tables

namespace JsonV.Props.C06
open JsonV.Model JsonV.Gen JsonV.Spec JsonV.Spec.PDA
open JsonV.Lemmas.StateEntry JsonV.Lemmas.StateRefine JsonV.Lemmas.StateRun

/-! ## Part 1 — Tie A: the regenerated `stateEntry` methods are the hand-written model -/

theorem tie_consts :
    Entry.typeMask.toNat = jsontext.c_stateTypeMask ∧
    Entry.typeObject.toNat = jsontext.c_stateTypeObject ∧
    Entry.typeArray.toNat = jsontext.c_stateTypeArray ∧
    Entry.disableNamespaceBit.toNat = jsontext.c_stateDisableNamespace ∧
    Entry.invalidNamespaceBit.toNat = jsontext.c_stateInvalidNamespace ∧
    (Entry.disableNamespaceBit ||| Entry.invalidNamespaceBit).toNat = jsontext.c_stateNamespaceMask ∧
    Entry.countMask.toNat = jsontext.c_stateCountMask ∧
    Entry.countLSBMask.toNat = jsontext.c_stateCountLSBMask ∧
    jsontext.c_stateCountOdd = 1 ∧ jsontext.c_stateCountEven = 0 := by decide

/-- The depth limit of the library is 10000 open containers. -/
theorem tie_maxDepth : jsontext.c_maxNestingDepth = 10000 := by decide

/-- The token kinds are the first bytes of their grammar (numbers: `'0'`). -/
theorem tie_kinds :
    Kind.lit.byte.toNat = jsontext.c_KindNull ∧ Kind.str.byte.toNat = jsontext.c_KindString ∧
    Kind.num.byte.toNat = jsontext.c_KindNumber ∧
    Kind.beginObj.byte.toNat = jsontext.c_KindBeginObject ∧ Kind.endObj.byte.toNat = jsontext.c_KindEndObject ∧
    Kind.beginArr.byte.toNat = jsontext.c_KindBeginArray ∧ Kind.endArr.byte.toNat = jsontext.c_KindEndArray := by
  decide

theorem tie_Length (e : BitVec 64) : (jsontext_stateEntry_Length e).toNat = Entry.length e := rfl
theorem tie_isObject (e : BitVec 64) : jsontext_stateEntry_isObject e = Entry.isObject e := rfl
theorem tie_isArray (e : BitVec 64) : jsontext_stateEntry_isArray e = Entry.isArray e := rfl
theorem tie_NeedObjectName (e : BitVec 64) : jsontext_stateEntry_NeedObjectName e = Entry.needObjectName e := rfl
theorem tie_needObjectValue (e : BitVec 64) : jsontext_stateEntry_needObjectValue e = Entry.needObjectValue e := rfl
theorem tie_needImplicitColon (e : BitVec 64) :
    jsontext_stateEntry_needImplicitColon e = Entry.needImplicitColon e := rfl
theorem tie_needImplicitComma (e : BitVec 64) (next : UInt8) :
    jsontext_stateEntry_needImplicitComma e next.toBitVec = Entry.needImplicitComma e next :=
  JsonV.Lemmas.StateEntry.tie_comma e next
theorem tie_Increment (e : BitVec 64) : jsontext_stateEntry_Increment e = Entry.increment e := rfl
theorem tie_decrement (e : BitVec 64) : jsontext_stateEntry_decrement e = Entry.decrement e := rfl
theorem tie_DisableNamespace (e : BitVec 64) :
    jsontext_stateEntry_DisableNamespace e = Entry.disableNamespace e := rfl
theorem tie_isActiveNamespace (e : BitVec 64) :
    jsontext_stateEntry_isActiveNamespace e = Entry.isActiveNamespace e := rfl
theorem tie_invalidateNamespace (e : BitVec 64) :
    jsontext_stateEntry_invalidateNamespace e = Entry.invalidateNamespace e := rfl
theorem tie_isValidNamespace (e : BitVec 64) :
    jsontext_stateEntry_isValidNamespace e = Entry.isValidNamespace e := rfl

/-- The Encoder model's `normKind` is the regenerated `normKind[256]` table of jsontext/token.go. -/
theorem tie_normKind : ∀ c : Fin 256,
    (JsonV.Model.Encoder.normKind (UInt8.ofNat c.val)).toNat = jsontext_normKind.getD c.val 999 := by
  decide +kernel

/-- The Encoder model's `escapeASCII` is the regenerated `escapeASCII[128]` table of jsonwire/encode.go. -/
theorem tie_escapeASCII : ∀ c : Fin 128,
    JsonV.Model.Encoder.escapeASCII (UInt8.ofNat c.val) = (jsonwire_escapeASCII.getD c.val 999 != 0) := by
  decide +kernel

/-! ## Part 2 — the state machine is the grammar's push-down automaton -/

/-- state.go "If an error is returned, the state is not mutated".  In the model an operation yields
either a new machine or an error (never both), so the observable content of the sentence is: a run in
which rejected operations are simply skipped ends in the same machine as the run of the accepted
operations alone, none of which is rejected.  (The harness checks the raw words of the real machine
after every rejected operation.) -/
theorem sm_noop (max : Nat) (m : Machine) (ks : List Kind) :
    smRun max m (smAccepted max m ks) = .ok (smRunSkip max m ks) :=
  smRun_accepted max ks m

example : smAccepted 10000 Machine.init [.beginObj, .num, .endArr, .str, .endObj, .lit, .endObj] =
    [.beginObj, .str, .lit, .endObj] := by decide

/-- **Refinement** of one operation.  For a machine whose words carry no namespace bits, counts
at most `b` (with `b + 1 < 2^61`, so that `Increment` cannot carry into the flag bits) and at most
`max` stacked entries: the operation for token kind `k` succeeds iff the PDA step is defined; the
new machine abstracts to the new frames and satisfies the invariant with `b + 1`. -/
theorem sm_refines {max b : Nat} {m : Machine} (h : Inv max b m) (hb : b + 1 < 2^61) (k : Kind) :
    match smStep max m k with
    | .ok m' => step max (abs m) k = some (abs m') ∧ Inv max (b + 1) m'
    | .error _ => step max (abs m) k = none :=
  step_refines h hb k

/-- The hypotheses of `sm_refines` hold in a non-trivial state: after `{ "a"` (an open object that
expects a value). -/
example : ∃ m, smRun 10000 Machine.init [.beginObj, .str] = .ok m ∧ Inv 10000 2 m ∧
    abs m = [.obj 1, .arr 1] := by
  refine ⟨_, rfl, ?_, by decide⟩
  have := run_refines (max := 10000) [.beginObj, .str] (inv_init 10000) (by decide)
  exact this.2

/-- **The machine accepts exactly the viable token sequences.**  For every sequence shorter than
2^61 tokens (the width of the element counter): running the machine from its reset state succeeds
iff the sequence is a viable prefix of a JSON stream, and the final machine abstracts to the PDA's frames. -/
theorem sm_spec (max : Nat) (ks : List Kind) (hlen : ks.length < 2^61) :
    ((∃ m, smRun max Machine.init ks = .ok m) ↔ Viable max ks) ∧
    (∀ m, smRun max Machine.init ks = .ok m →
      run max PDA.init ks = some (abs m) ∧ Inv max ks.length m ∧ BottomArr (abs m)) := by
  have h := run_refines (max := max) ks (inv_init max) (by omega)
  rw [abs_init] at h
  cases hr : smRun max Machine.init ks with
  | error e =>
    rw [hr] at h
    refine ⟨⟨fun ⟨m, hm⟩ => (by cases hm), fun hv => ?_⟩, fun m hm => (by cases hm)⟩
    simp [Viable, h] at hv
  | ok m =>
    rw [hr] at h
    refine ⟨⟨fun _ => by simp [Viable, h.1], fun _ => ⟨m, rfl⟩⟩, fun m' hm' => ?_⟩
    cases hm'
    refine ⟨h.1, by simpa using h.2, run_bottomArr h.1 bottomArr_init⟩

/-- Non-vacuity of `sm_spec`: a viable and a non-viable sequence. -/
example : Viable 10000 [.beginObj, .str, .beginArr, .num, .endArr, .endObj, .lit] ∧
    ¬ Viable 10000 [.beginObj, .num] ∧ ¬ Viable 10000 [.endArr] ∧ ¬ Viable 1 [.beginArr, .beginArr] := by
  decide

/-- **Depth and index.**  `Depth()` is the number of frames, `Last.Length()` the element count of
the innermost frame; for a run from reset the number of frames is one plus opening minus closing tokens. -/
theorem depth_index (max : Nat) (ks : List Kind) (hlen : ks.length < 2^61) (m : Machine)
    (h : smRun max Machine.init ks = .ok m) :
    m.depth = (abs m).length ∧
    m.last.length = ((abs m).head (by simp [abs])).count ∧
    m.depth + ks.countP Kind.closing = 1 + ks.countP Kind.opening := by
  have hs := ((sm_spec max ks hlen).2 m h).1
  have hl := run_length hs
  refine ⟨depth_abs m, last_length_abs m, ?_⟩
  rw [depth_abs]; simpa [PDA.init] using hl

/-- **Separators.**  For every reachable machine the byte `needDelim` asks for is the separator the
grammar requires: a colon exactly after a member name, a comma exactly before a non-first element
that is not a closing delimiter, nothing between top-level values. -/
theorem need_delim (max : Nat) (ks : List Kind) (hlen : ks.length < 2^61) (m : Machine)
    (h : smRun max Machine.init ks = .ok m) (next : Kind) :
    m.needDelim next.byte = delimByte (delim (abs m) next) ∧
    m.mayAppendDelim [] next.byte =
      (match delim (abs m) next with | .none => [] | .colon => [0x3a] | .comma => [0x2c]) := by
  have hb := ((sm_spec max ks hlen).2 m h).2.2
  have h1 := needDelim_abs hb next
  refine ⟨h1, ?_⟩
  simp only [Machine.mayAppendDelim, h1]
  cases delim (abs m) next <;> decide

/-- **Indentation** (for every machine): `NeedIndent` is the layout rule of Spec/PDA. -/
theorem need_indent (m : Machine) (next : Kind) : m.needIndent next.byte = indent (abs m) next :=
  needIndent_abs m next

example : ∃ m, smRun 10000 Machine.init [.beginArr, .num] = .ok m ∧
    m.needDelim Kind.num.byte = 0x2c ∧ m.needDelim Kind.endArr.byte = 0 ∧
    m.needIndent Kind.num.byte = 2 ∧ m.needIndent Kind.endArr.byte = 1 := ⟨_, rfl, by decide⟩


/-! ## Part 3 — the Encoder model (Model/Encoder.lean; tied to encode.go by the `enc` correspondence) -/

section Encoder
open JsonV.Model.Encoder JsonV.Spec.Render JsonV.Spec.Names JsonV.Lemmas.EncNoop JsonV.Lemmas.EncRender
open JsonV.Lemmas.EncIff JsonV.Lemmas.EncValue JsonV.Lemmas.EncRaw JsonV.Lemmas.EncOps

/-- A rejected `WriteToken` leaves the whole modelled state — output, machine (offsets, depth, indices),
namespaces, options — exactly as it was. -/
theorem wt_noop (e e' : Enc) (t : Tok) (err : EncErr) (h : writeToken e t = (e', some err)) : e' = e :=
  writeToken_noop e t err e' h

/-- A rejected `WriteValue` leaves the whole modelled state exactly as it was. -/
theorem wv_noop (e e' : Enc) (v : Bytes) (err : EncErr) (h : writeValue e v = (e', some err)) : e' = e :=
  writeValue_noop e v err e' h

/-- Both kinds of rejection occur (the hypotheses above are satisfiable): a number where a name is
required, and a truncated raw value. -/
example : (writeToken (writeToken (Encoder.new {}) .beginObj).1 (.num [0x31])).2 = some (.sm .nonStringName) ∧
    (writeValue (Encoder.new {}) [0x5b]).2 = some .unexpectedEOF := by decide

/-- **After a rejection everything continues as if the call had never been made**: for every script of
`WriteToken`/`WriteValue` calls from every state, the sub-script of accepted calls runs without any
rejection and ends in the same state (same output, machine, namespaces). -/
theorem after_reject (e : Enc) (cs : List Call) :
    JsonV.Lemmas.EncNoop.run e (accepted e cs) =
      ((JsonV.Lemmas.EncNoop.run e cs).1, (accepted e cs).map fun _ => none) :=
  run_accepted cs e

/-- **Accepted token scripts are viable and are rendered as the grammar prescribes.**  For every
option set and every script of tokens (fewer than 2^61) all of which `WriteToken` accepts from a new
encoder: the kinds form a viable prefix of a JSON stream, and the bytes produced are
`Spec.Render.render` — separators from the PDA (colon after a name, comma before every non-first
element, none at top level), `SpaceAfterColon/Comma`, `Multiline` indentation, the token texts, and
one newline after each top-level value. -/
theorem out_render (o : Opts) (ts : List Tok) (e : Enc) (hlen : ts.length < 2^61)
    (h : runToks (Encoder.new o) ts = some e) :
    e.out = render o ts ∧ Viable o.maxDepth (ts.map kindOf) ∧
      run o.maxDepth PDA.init (ts.map kindOf) = some (abs e.m) := by
  have := out_render_from ts (b := 0) (e := Encoder.new o) (e' := e) (inv_init _)
    (by rw [show (Encoder.new o).m = Machine.init from rfl, abs_init]; exact bottomArr_init)
    (by omega) h
  obtain ⟨h1, _, h3⟩ := this
  have h3' : run o.maxDepth PDA.init (ts.map kindOf) = some (abs e.m) := by
    simpa [Encoder.new, abs_init] using h3
  refine ⟨?_, ?_, h3'⟩
  · simpa [Encoder.new, render, abs_init] using h1
  · simp [Viable, h3']

/-- Non-vacuity: an accepted script with nesting, a member, and two top-level values (compact and multiline). -/
example : (runToks (Encoder.new {}) [.beginObj, .str [0x61], .beginArr, .num [0x31], .tru, .endArr, .endObj, .null]).map (·.out)
      = some "{\"a\":[1,true]}\nnull\n".toUTF8.toList := by decide +kernel
example : (runToks (Encoder.new { multiline := true, spaceAfterColon := true, indent := [0x09] })
      [.beginObj, .str [0x61], .beginArr, .num [0x31], .endArr, .endObj]).map (·.out)
      = some "{\n\t\"a\": [\n\t\t1\n\t]\n}\n".toUTF8.toList := by decide +kernel

/-- **WriteToken succeeds iff appending the token keeps the output a prefix of a valid JSON stream.**
For every option set, every accepted token history `ts` (from a new encoder) and every token `t`:
`WriteToken t` succeeds iff `ts ++ [t]` is a viable prefix of a JSON stream (token order, string-only
names, balanced delimiters, depth ≤ max), a string token is well-formed UTF-8 (`Utf8.valid`, the model of
`utf8.Valid`) unless `AllowInvalidUTF8` is set, and — unless
`AllowDuplicateNames` — a member name is not one already used in the innermost open object
(`Spec.Names.FreshName`: names tracked along the history at specification level, compared as the strings
the emitted literals denote, i.e. after the U+FFFD substitution). -/
theorem wt_ok_iff (o : Opts) (ts : List Tok) (e : Enc) (t : Tok) (hlen : ts.length + 1 < 2^61)
    (h : runToks (Encoder.new o) ts = some e) :
    (writeToken e t).2 = none ↔
      (Viable o.maxDepth ((ts ++ [t]).map kindOf) ∧
        (∀ s, t = .str s → (o.allowInvalidUTF8 = true ∨ Utf8.valid s = true)) ∧
        (o.allowDup = false → FreshName o ts t)) := by
  rw [writeToken_ok_iff o ts e t hlen h, JsonV.Lemmas.EncUtf8.badUTF8_iff]

/-- Both outcomes of every clause occur after a non-trivial history `{ "a" 1`:
a fresh name is accepted, the repeated name, a non-string, ill-formed UTF-8 are rejected; with
AllowDuplicateNames the repeated name is accepted. -/
example :
    let ts : List Tok := [.beginObj, .str [0x61], .num [0x31]]
    ∀ e, runToks (Encoder.new {}) ts = some e →
      (writeToken e (.str [0x62])).2 = none ∧ (writeToken e (.str [0x61])).2 = some .dupName ∧
      (writeToken e .null).2 = some (.sm .nonStringName) ∧ (writeToken e (.str [0xff])).2 = some .invalidUTF8 ∧
      FreshName {} ts (.str [0x62]) ∧ ¬ FreshName {} ts (.str [0x61]) := by
  intro ts e h
  have he : e = ((runToks (Encoder.new {}) ts).getD default) := by rw [h]; rfl
  subst he
  refine ⟨by decide +kernel, by decide +kernel, by decide +kernel, by decide +kernel, ?_, ?_⟩
  · intro s hs _; cases hs; decide +kernel
  · intro hf; exact absurd (hf [0x61] rfl (by decide +kernel)) (by decide +kernel)

/-- **WriteValue succeeds iff the text is accepted by the encoder's validator and is acceptable here.**
After every accepted token history: `WriteValue v` succeeds iff `reformatValue` (the model of
encode.go:668-894: exactly one value, strings/escapes/UTF-8/duplicate names/nesting checked under the
options, at the current depth) accepts `v` with only whitespace after it, the PDA admits the value's first
token after `ts` (so a value in name position must be a string, and a container must fit the depth limit),
and a raw string in name position denotes a name not yet used in the innermost open object. -/
theorem wv_ok_iff (o : Opts) (ts : List Tok) (e : Enc) (v : Bytes) (hlen : ts.length + 2 < 2^61)
    (h : runToks (Encoder.new o) ts = some e) :
    (writeValue e v).2 = none ↔
      ∃ out rest,
        reformatValue o (3 * v.length + 4) (beforeToken e (valueKind v)) (skipWS v) e.m.depth = .ok (out, rest) ∧
        skipWS rest = [] ∧
        Viable o.maxDepth ((ts.map kindOf) ++ [firstKind (valueKind v)]) ∧
        (valueKind v = 0x22 → o.allowDup = false → isNamePos (track o (PDA.init, []) ts).1 = true →
          unquote (out.drop (beforeToken e (valueKind v)).length) ∉ innermostNames o ts) := by
  obtain ⟨hI, hrun⟩ := runToks_inv o ts (encInv_new o) (by omega) h
  rw [writeValue_iff hI (by omega) v]
  have hv : Viable o.maxDepth ((ts.map kindOf) ++ [firstKind (valueKind v)]) ↔
      (step o.maxDepth (track o (PDA.init, []) ts).1 (firstKind (valueKind v))).isSome = true := by
    simp only [Viable, run_snoc, hrun, Option.bind]
  simp only [hv, innermost_eq]

/-- Non-vacuity of `wv_ok_iff`: accepted and rejected raw values after `[ 1`. -/
example : ∀ e, runToks (Encoder.new {}) [.beginArr, .num [0x31]] = some e →
    (writeValue e "{\"a\":[true,null]}".toUTF8.toList).2 = none ∧
    (writeValue e "{\"a\":1,\"a\":2}".toUTF8.toList).2 = some .dupName ∧
    (writeValue e "[1,".toUTF8.toList).2 = some .unexpectedEOF ∧
    (writeValue e "1 2".toUTF8.toList).2 = some .invalidChar := by
  intro e h
  have he : e = ((runToks (Encoder.new {}) [.beginArr, .num [0x31]]).getD default) := by rw [h]; rfl
  subst he
  decide +kernel

/-- **Raw values are rendered like their tokens.**  After every accepted token history `ts`, an accepted
`WriteValue v` leaves as output exactly `render o (ts ++ valueToks o v)`: the raw text, whatever its
own whitespace and escapes, is emitted as the PDA-derived rendering of its tokens (`valueToks`: literals,
unescaped strings, number texts, delimiters) under the options — separators, `SpaceAfterColon/Comma`,
`Multiline` indentation at the right depth, strings re-quoted by `appendQuote`, a newline after a
top-level value.  All layouts, all options. -/
theorem out_render_value (o : Opts) (ts : List Tok) (e e' : Enc) (v : Bytes) (hlen : ts.length + 2 < 2^61)
    (h : runToks (Encoder.new o) ts = some e) (hw : writeValue e v = (e', none)) :
    e'.out = render o (ts ++ valueToks o v) := by
  obtain ⟨hI, hrun⟩ := runToks_inv o ts (encInv_new o) (by omega) h
  obtain ⟨toks, rest, _, _, ht, hout, _, _⟩ := writeValue_inv hI (by omega) v hw
  have hvt : valueToks o v = toks := by simp [valueToks, ht]
  rw [hvt, hout, (out_render o ts e (by omega) h).1, render, render, renderFrom_append o ts toks _ _ hrun]

/-- Non-vacuity: a raw object with inner whitespace and an escaped name, written inside a token-written
array under Multiline; its tokens and the bytes. -/
example :
    let o : Opts := { multiline := true, spaceAfterColon := true, indent := [0x09] }
    let v := "{ \"\\u0061\" : [1 , true] }".toUTF8.toList
    valueToks o v = [.beginObj, .str [0x61], .beginArr, .num [0x31], .tru, .endArr, .endObj] ∧
    ((runToks (Encoder.new o) [.beginArr, .null]).map fun e => (writeValue e v).1.out) =
      some "[\n\tnull,\n\t{\n\t\t\"a\": [\n\t\t\t1,\n\t\t\ttrue\n\t\t]\n\t}".toUTF8.toList := by
  decide +kernel

/-! ### Histories of WriteToken and WriteValue calls in any order (the full statement of C06)

`histToks o cs` is the token history of a script `cs` of calls: a `WriteToken t` contributes `t`, a
`WriteValue v` contributes `valueToks o v`.  `runOps e cs = some e'` says that every call of `cs` was
accepted (rejected calls may be deleted first: `after_reject`). -/

/-- **Output = rendering of the accepted tokens**, for every accepted script of tokens and raw values:
the history is a viable prefix of a JSON stream and the bytes produced are its PDA-derived rendering
under the options (so whenever the depth is back at 0 the output is exactly the accepted top-level
values, newline-terminated). -/
theorem out_render_hist (o : Opts) (cs : List Call) (e : Enc) (hlen : 2 * cs.length < 2^61)
    (h : runOps (Encoder.new o) cs = some e) :
    e.out = render o (histToks o cs) ∧ Viable o.maxDepth ((histToks o cs).map kindOf) ∧
      e.m.depth = (track o (PDA.init, []) (histToks o cs)).1.length := by
  obtain ⟨fs, ns, hI, hrun, htrack, hout⟩ := runOps_new o cs e hlen h
  refine ⟨hout, by simp [Viable, hrun], ?_⟩
  rw [htrack, depth_abs, hI.abs_eq]

/-- **WriteToken succeeds iff the grammar allows it**, after any accepted script of tokens and raw values. -/
theorem wt_ok_iff_hist (o : Opts) (cs : List Call) (e : Enc) (t : Tok) (hlen : 2 * cs.length + 1 < 2^61)
    (h : runOps (Encoder.new o) cs = some e) :
    (writeToken e t).2 = none ↔
      (Viable o.maxDepth ((histToks o cs ++ [t]).map kindOf) ∧
        (∀ s, t = .str s → (o.allowInvalidUTF8 = true ∨ Utf8.valid s = true)) ∧
        (o.allowDup = false → FreshName o (histToks o cs) t)) := by
  rw [writeToken_ops_iff o cs e t hlen h, JsonV.Lemmas.EncUtf8.badUTF8_iff]

/-- **WriteValue succeeds iff the text is a value the validator accepts and is acceptable here**, after any
accepted script of tokens and raw values. -/
theorem wv_ok_iff_hist (o : Opts) (cs : List Call) (e : Enc) (v : Bytes) (hlen : 2 * cs.length + 2 < 2^61)
    (h : runOps (Encoder.new o) cs = some e) :
    (writeValue e v).2 = none ↔
      ∃ out rest,
        reformatValue o (3 * v.length + 4) (beforeToken e (valueKind v)) (skipWS v) e.m.depth = .ok (out, rest) ∧
        skipWS rest = [] ∧
        Viable o.maxDepth (((histToks o cs).map kindOf) ++ [firstKind (valueKind v)]) ∧
        (valueKind v = 0x22 → o.allowDup = false → isNamePos (track o (PDA.init, []) (histToks o cs)).1 = true →
          unquote (out.drop (beforeToken e (valueKind v)).length) ∉ innermostNames o (histToks o cs)) :=
  writeValue_ops_iff o cs e v hlen h

/-- **A raw value acts like its tokens** (unconditionally).  From any state reached by an accepted script, if
`WriteValue v` is accepted then writing the tokens `valueToks o v` one by one with `WriteToken` is accepted too —
every unescaped string is well-formed UTF-8, every member name inside `v` is fresh in its object as read back
from the emitted literal (slice C11's bridge `GlueEncQuote`), every token is viable — and both ways lead to the
same output, the same abstract machine (kinds and element counts of all open containers, hence depth and
indices) and the same tracked names. -/
theorem wv_as_tokens (o : Opts) (cs : List Call) (e e1 : Enc) (v : Bytes)
    (hlen : 2 * cs.length + (valueToks o v).length + 2 < 2^61)
    (h : runOps (Encoder.new o) cs = some e) (h1 : writeValue e v = (e1, none)) :
    ∃ e2, runToks e (valueToks o v) = some e2 ∧
      e1.out = e2.out ∧ abs e1.m = abs e2.m ∧ (o.allowDup = false → e1.ns = e2.ns) ∧
      Viable o.maxDepth ((histToks o cs ++ valueToks o v).map kindOf) := by
  obtain ⟨fs, ns, hI, hrun, htrack, hout⟩ := runOps_new o cs e (by omega) h
  obtain ⟨toks, rest, fs', ns', ht, hout1, htr, hI1, hgood⟩ := writeValue_inv hI (by omega) v h1
  have hvt : valueToks o v = toks := by simp [valueToks, ht]
  rw [hvt] at hlen ⊢
  obtain ⟨e2, h2⟩ := good_run toks hI htr hgood (by omega)
  refine ⟨e2, h2, ?_⟩
  obtain ⟨hr1, hr2⟩ := trackRun_run _ htr
  obtain ⟨hI2, _⟩ := runToks_inv o toks hI (by omega) h2
  rw [hr2] at hI2
  have hout2 := (out_render_from toks (b := 2 * cs.length) (e := e) (e' := e2) (by rw [hI.opts]; exact hI.inv)
    (by rw [hI.abs_eq]; exact hI.bottom) (by omega) h2).1
  rw [hI.opts, hI.abs_eq] at hout2
  refine ⟨by rw [hout1, hout2], by rw [hI1.abs_eq, hI2.abs_eq], fun hd => ?_, ?_⟩
  · rw [(hI1.names hd).1, (hI2.names hd).1]
  · simp only [Viable, List.map_append]
    have : PDA.run o.maxDepth PDA.init (List.map kindOf (histToks o cs) ++ List.map kindOf toks) = some fs' :=
      run_append_some hrun hr1
    simp [this]

/-! ### The encoder's validator and the grammar -/

/-- **`reformatValue` accepts exactly the JSON texts** of the grammar selected by the options
(RFC 8259 with nesting ≤ 10000; strict UTF-8 and paired surrogate escapes unless AllowInvalidUTF8; member
names pairwise different after unescaping unless AllowDuplicateNames — `Spec/Grammar.lean`), i.e. exactly the
texts that slice C01's decoder-side validator `Value.IsValid` accepts (`Props/C01.valid_iff`).  Proved by two
simulations between the encoder model and the validator model (Lemmas/EncValid.lean), then C01's soundness
and completeness for the grammar. -/
theorem reformat_valid (o : Opts) (hmax : o.maxDepth = JsonV.Model.Validate.maxNestingDepth) (v : Bytes) :
    ((∃ out rest, reformatValue o (3 * v.length + 4) [] (skipWS v) 1 = .ok (out, rest) ∧ skipWS rest = []) ↔
      JsonV.Spec.Grammar.JText (JsonV.Props.C01.gopts (vopts o)) JsonV.Model.Validate.maxNestingDepth
        (JsonV.Props.C01.nameKey (vopts o)) v) ∧
    ((∃ out rest, reformatValue o (3 * v.length + 4) [] (skipWS v) 1 = .ok (out, rest) ∧ skipWS rest = []) ↔
      JsonV.Model.Validate.isValid (vopts o) v = true) := by
  have h := JsonV.Lemmas.EncValid.reformat_iff_grammar o hmax 0 (Nat.zero_le _) [] v
  have h1 : (∃ out rest, reformatValue o (3 * v.length + 4) [] (skipWS v) 1 = .ok (out, rest) ∧ skipWS rest = []) ↔
      JsonV.Spec.Grammar.JText (JsonV.Props.C01.gopts (vopts o)) JsonV.Model.Validate.maxNestingDepth
        (JsonV.Props.C01.nameKey (vopts o)) v := h
  exact ⟨h1, h1.trans (JsonV.Props.C01.valid_iff (vopts o) v).symm⟩

/-- **WriteValue succeeds iff the argument is one valid JSON value that may stand here** — the full
statement, after any accepted script of tokens and raw values: `WriteValue v` succeeds iff
`v = ws value ws` with `value` a value of the grammar selected by the options whose nesting fits under the
current depth (`JValue … d value`, `d` = number of open containers), the PDA admits the value's first token
after the history (a value in name position must be a string; a container must not exceed the depth limit),
and a raw string in name position denotes a name not yet used in the innermost open object. -/
theorem wv_ok_iff_grammar (o : Opts) (hmax : o.maxDepth = JsonV.Model.Validate.maxNestingDepth)
    (cs : List Call) (e : Enc) (v : Bytes) (hlen : 2 * cs.length + 2 < 2^61)
    (h : runOps (Encoder.new o) cs = some e) :
    (writeValue e v).2 = none ↔
      (∃ w1 val w2, JsonV.Spec.Grammar.JWs w1 ∧
          JsonV.Spec.Grammar.JValue (JsonV.Props.C01.gopts (vopts o)) JsonV.Model.Validate.maxNestingDepth
            (JsonV.Props.C01.nameKey (vopts o)) e.m.stack.length val ∧
          JsonV.Spec.Grammar.JWs w2 ∧ v = w1 ++ val ++ w2) ∧
        Viable o.maxDepth (((histToks o cs).map kindOf) ++ [firstKind (valueKind v)]) ∧
        (valueKind v = 0x22 → o.allowDup = false → isNamePos (track o (PDA.init, []) (histToks o cs)).1 = true →
          ∀ out rest, reformatValue o (3 * v.length + 4) (beforeToken e (valueKind v)) (skipWS v) e.m.depth =
            .ok (out, rest) →
            unquote (out.drop (beforeToken e (valueKind v)).length) ∉ innermostNames o (histToks o cs)) := by
  obtain ⟨fs, ns, hI, _, _, _⟩ := runOps_new o cs e (by omega) h
  have hd : e.m.stack.length ≤ JsonV.Model.Validate.maxNestingDepth := by rw [← hmax]; exact hI.inv.depth
  have hg := JsonV.Lemmas.EncValid.reformat_iff_grammar o hmax e.m.stack.length hd (beforeToken e (valueKind v)) v
  rw [wv_ok_iff_hist o cs e v hlen h]
  have hdep : e.m.depth = e.m.stack.length + 1 := rfl
  rw [hdep]
  constructor
  · rintro ⟨out, rest, hr, hws, hv, hn⟩
    refine ⟨hg.mp ⟨out, rest, hr, hws⟩, hv, fun hk hdup hpos out' rest' hr' => ?_⟩
    rw [hr] at hr'
    simp only [Except.ok.injEq, Prod.mk.injEq] at hr'
    rw [← hr'.1]; exact hn hk hdup hpos
  · rintro ⟨hgr, hv, hn⟩
    obtain ⟨out, rest, hr, hws⟩ := hg.mpr hgr
    exact ⟨out, rest, hr, hws, hv, fun hk hdup hpos => hn hk hdup hpos out rest hr⟩

end Encoder

end JsonV.Props.C06
