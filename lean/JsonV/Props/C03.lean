/-
C03 — Unmarshal into untyped targets yields the exact meaning of the text.

Property theorems only.  Spec: `Spec/Meaning.lean` (RFC 8259, code independent).  Model: `Model/AnyDecode.lean`
(the specialised decoder of arshal_any.go, the generic arshalers of arshal_default.go, makeString of intern.go with
the REGENERATED `Gen.json_hash64`).  `fp : FloatParse F` is `strconv.ParseFloat` (trusted parameter; validated by the
harness against math/big and against the executable specification `Spec.Meaning.f64Round`).
-/
import JsonV.Lemmas.MeaningSpec
import JsonV.Lemmas.MeaningStr
import JsonV.Lemmas.MeaningEval
import JsonV.Lemmas.GlueMeaningTree
import JsonV.Lemmas.GlueMeaningFuel
import JsonV.Lemmas.GlueMeaningUnquote
import JsonV.Lemmas.GlueMeaningTreeC
import JsonV.Lemmas.GlueMeaningNumI
import JsonV.Props.C01

namespace JsonV.Props.C03
open JsonV JsonV.Spec.Meaning JsonV.Model.AnyDecode JsonV.Lemmas.MeaningRoutes JsonV.Lemmas.MeaningSpec
open JsonV.Lemmas.MeaningStr

variable {F : Type} (fp : FloatParse F)

/-! ### Sanity of the string specification -/

/-- If a string literal without any backslash is valid, its meaning is its body (the bytes between the quotes),
for arbitrary (multi-byte) content. -/
theorem unescape_noBackslash (q s : Bytes) (h : unescape q = some s) (hq : ∀ x ∈ q, x ≠ 0x5C) :
    q = 0x22 :: s ++ [0x22] := by
  unfold unescape at h
  split at h
  · next r =>
    split at h
    · next s' hl =>
      simp only [Option.some.injEq] at h
      subst h
      unfold lexStr at hl
      rw [strBody_noBackslash _ r s' [] hl (fun x hx => hq x (List.mem_cons_of_mem _ hx))]
      simp
    · simp at h
  · simp at h

/-- Conversely quoting a run of plain ASCII characters (0x20..0x7F except `"` and `\`) denotes that run. -/
theorem unescape_plain (s : Bytes) (hs : s.all isPlain = true) : unescape (0x22 :: s ++ [0x22]) = some s := by
  unfold unescape lexStr
  simp only [List.cons_append]
  rw [strBody_plain s [] hs _ (by simp only [List.length_append, List.length_cons, List.length_nil]; omega)]

example : unescape [0x22, 0x61, 0xC3, 0xA9, 0x22] = some [0x61, 0xC3, 0xA9] := by rfl
example : ∀ x ∈ ([0x22, 0x61, 0xC3, 0xA9, 0x22] : Bytes), x ≠ 0x5C := by decide
example : ([0x61, 0x20, 0x7E] : Bytes).all isPlain = true := by decide
/-- the escapes: `"\n\u00e9\ud83d\ude00"` denotes LF, U+00E9, U+1F600 in UTF-8 -/
example : unescape [0x22, 0x5C, 0x6E, 0x5C, 0x75, 0x30, 0x30, 0x65, 0x39, 0x5C, 0x75, 0x64, 0x38, 0x33, 0x64, 0x5C, 0x75,
    0x64, 0x65, 0x30, 0x30, 0x22] = some [0x0A, 0xC3, 0xA9, 0xF0, 0x9F, 0x98, 0x80] := by rfl
/-- a lone surrogate is not a valid string -/
example : unescape [0x22, 0x5C, 0x75, 0x64, 0x38, 0x30, 0x30, 0x22] = none := by rfl

/-! ### String interning is transparent -/

/-- `makeString` returns the bytes it was given, whatever the cache contains. -/
theorem intern_transparent (c : Cache) (b : Bytes) : (makeString c b).1 = b := makeString_fst c b

/-- Hence the result of decoding does not depend on the cache state (the decoder's history). -/
theorem fast_cache_indep (c c' : Cache) (b : Bytes) : fast fp c b = fast fp c' b := by
  unfold fast
  apply finish_congr
  exact ((routes_agree_core fp _).1 false false 0 c c (skipWs b)).symm.trans
    ((routes_agree_core fp _).1 false false 0 c c' (skipWs b))

example : (makeString (Cache.empty.set 225 [0x61, 0x62]) [0x61, 0x62]).1 = [0x61, 0x62] := intern_transparent _ _

/-! ### Every internal route gives the same result, for ALL inputs (valid or not, with or without duplicates) -/

/-- The generic machinery (interface → map/slice/bool/string/float64 arshalers) all the way down
equals the specialised decoder: same value or same error class. -/
theorem fast_eq_generic (c c' : Cache) (b : Bytes) : generic fp c b = fast fp c' b := by
  unfold generic unmarshalIface fast
  apply finish_congr
  exact (routes_agree_core fp _).1 false _ 0 c c' (skipWs b)

/-- Any interface target equivalent to `any` (the exact type `any` or a named empty interface), with options that
allow or forbid the specialised decoder at the top and below. -/
theorem iface_eq_fast (isAny opt : Bool) (c c' : Cache) (b : Bytes) : unmarshalIface fp isAny opt c b = fast fp c' b := by
  unfold unmarshalIface fast
  apply finish_congr
  exact (routes_agree_core fp _).1 opt _ 0 c c' (skipWs b)

theorem maxDepth_pos : (0 : Nat) ≠ maxDepth := by decide

/-- Target `map[string]any`: for a text whose first token is `{` the result is the one of the `any` target. -/
theorem map_target_eq_fast (opt : Bool) (c c' : Cache) (b r : Bytes) (hb : skipWs b = 0x7B :: r) :
    unmarshalMap fp opt c b = fast fp c' b := by
  unfold unmarshalMap fast fuelFor
  apply finish_congr
  rw [hb]
  simp only [fastValue, if_true, maxDepth_pos, if_false]
  cases skipWs r with
  | nil => rfl
  | cons k' r' =>
    simp only []
    by_cases h : k' = 0x7D
    · simp [h]
    · simp only [h, if_false]
      have hm := (routes_agree_core fp (2 * b.length + 1)).2.1 opt 1 [] c c' (k' :: r')
      cases hx : genMembers fp opt (2 * b.length + 1) 1 [] c (k' :: r') with
      | error e => rw [strip_eq_error hm hx]
      | ok t =>
        obtain ⟨ms, r2, c2⟩ := t
        obtain ⟨c2', hy⟩ := strip_eq_ok hm hx
        rw [hy]; simp

/-- Target `[]any`: for a text whose first token is `[` the result is the one of the `any` target. -/
theorem slice_target_eq_fast (opt : Bool) (c c' : Cache) (b r : Bytes) (hb : skipWs b = 0x5B :: r) :
    unmarshalSlice fp opt c b = fast fp c' b := by
  unfold unmarshalSlice fast fuelFor
  apply finish_congr
  rw [hb]
  simp only [fastValue, show ((0x5B : UInt8) = 0x7B) = False by decide, if_true, maxDepth_pos, if_false]
  cases skipWs r with
  | nil => rfl
  | cons k' r' =>
    simp only []
    by_cases h : k' = 0x5D
    · simp [h]
    · simp only [h, if_false]
      have hm := (routes_agree_core fp (2 * b.length + 1)).2.2 opt 1 [] c c' (k' :: r')
      cases hx : genElems fp opt (2 * b.length + 1) 1 [] c (k' :: r') with
      | error e => rw [strip_eq_error hm hx]
      | ok t =>
        obtain ⟨ms, r2, c2⟩ := t
        obtain ⟨c2', hy⟩ := strip_eq_ok hm hx
        rw [hy]; simp

example : skipWs [0x20, 0x7B, 0x7D] = 0x7B :: [0x7D] := by decide

/-! ### The result is the meaning of the text -/

/-- For every text the RFC grammar accepts (spec tree `t`), free of duplicate names and within the library's nesting
limit, decoding into `any` yields exactly the Go value of `t` — strings unescaped per RFC 8259, numbers `fp literal`,
arrays in order, objects with exactly their members — or ErrRange when some number overflows float64. -/
theorem any_meaning (c : Cache) (b : Bytes) (t : MTree) (h : parseTree b = some t)
    (hnd : t.noDup = true) (hdep : t.depth ≤ maxDepth) :
    fast fp c b = match toGo fp t with
      | some v => .ok v
      | none => .error .range := by
  unfold parseTree parseTreeF at h
  unfold fast fuelFor
  cases hv : parseValue (2 * b.length + 2) (skipWs b) with
  | none => simp [hv] at h
  | some q =>
    obtain ⟨t', rest⟩ := q
    simp only [hv] at h
    split at h
    · next hws =>
      simp only [Option.some.injEq] at h
      subst h
      have hc := (meaning_core fp (2 * b.length + 2)).1 0 c (skipWs b) t' rest hv hnd (by omega)
      cases hg : toGo fp t' with
      | none =>
        rw [hg] at hc
        rw [of_strip_expect_none hc]; rfl
      | some gv =>
        rw [hg] at hc
        obtain ⟨c3, hx⟩ := of_strip_expect_some hc
        rw [hx]
        simp [finish, hws]
    · simp at h

/-- {"a":[1,"\n"]} -/
def exampleText : Bytes := [0x7B, 0x22, 0x61, 0x22, 0x3A, 0x5B, 0x31, 0x2C, 0x22, 0x5C, 0x6E, 0x22, 0x5D, 0x7D]
def exampleTree : MTree := .obj [([0x61], .arr [.num [0x31], .str [0x0A]])]
example : parseTree exampleText = some exampleTree := by rfl
example : exampleTree.noDup = true := by rfl
example : exampleTree.depth ≤ maxDepth := by decide
/-- `any_meaning` instantiated: whatever the cache, the text decodes to map[a:[1 "\n"]] (floats kept as literals here). -/
example (c : Cache) : fast (fun l => some l) c exampleText = .ok (.map [([0x61], .slice [.f64 [0x31], .str [0x0A]])]) := by
  have h := any_meaning (fun l => some l) c exampleText exampleTree rfl rfl (by decide)
  simpa [exampleTree, toGo, toGoMembers, toGoList] using h

/-- The same for every other route and target: corollary of `any_meaning` and the route theorems. -/
theorem iface_meaning (isAny opt : Bool) (c : Cache) (b : Bytes) (t : MTree) (h : parseTree b = some t)
    (hnd : t.noDup = true) (hdep : t.depth ≤ maxDepth) :
    unmarshalIface fp isAny opt c b = match toGo fp t with
      | some v => .ok v
      | none => .error .range := by
  rw [iface_eq_fast fp isAny opt c c b]
  exact any_meaning fp c b t h hnd hdep

/-! ### Total characterisation on valid texts; duplicate names are rejected -/

/-- For EVERY text the RFC grammar accepts within the nesting limit — with or without duplicate names, with or without
overflowing numbers — decoding into `any` gives exactly `evalV` of the spec tree: the replay, in document order, of
"look the decoded name up among the members seen so far (duplicate ⇒ dup); numbers through `fp` (overflow ⇒ range)". -/
theorem any_meaning_total (c : Cache) (b : Bytes) (t : MTree) (h : parseTree b = some t) (hdep : t.depth ≤ maxDepth) :
    fast fp c b = JsonV.Lemmas.MeaningEval.evalV fp t :=
  JsonV.Lemmas.MeaningEval.fast_eq_eval fp c b t h hdep

/-- A valid text in which some object has two members with the same decoded name is rejected (default options), by
every route: the result is an error, of class `dup` — or `range` if an overflowing number comes first. -/
theorem dup_rejected (isAny opt : Bool) (c : Cache) (b : Bytes) (t : MTree) (h : parseTree b = some t)
    (hdep : t.depth ≤ maxDepth) (hdup : t.noDup = false) :
    ∃ e, unmarshalIface fp isAny opt c b = .error e ∧ (e = .dup ∨ (e = .range ∧ ∃ l, fp l = none)) := by
  rw [iface_eq_fast fp isAny opt c c b, any_meaning_total fp c b t h hdep]
  cases hv : JsonV.Lemmas.MeaningEval.evalV fp t with
  | ok v =>
    have := JsonV.Lemmas.MeaningEval.evalV_ok_noDup fp t v hv
    rw [this] at hdup; cases hdup
  | error e => exact ⟨e, rfl, JsonV.Lemmas.MeaningEval.evalV_err fp t e hv⟩

/-- {"a":1,"a":2} -/
def dupText : Bytes := [0x7B, 0x22, 0x61, 0x22, 0x3A, 0x31, 0x2C, 0x22, 0x61, 0x22, 0x3A, 0x32, 0x7D]
example : parseTree dupText = some (.obj [([0x61], .num [0x31]), ([0x61], .num [0x32])]) := by rfl
example : (MTree.obj [([0x61], .num [0x31]), ([0x61], .num [0x32])]).noDup = false := by rfl

/-! ### Objects hold exactly their members, arrays keep order and length -/

/-- Decoding an object text gives a map whose keys are exactly the decoded member names of the text, in number and
identity (listed here in textual order; they are pairwise distinct). -/
theorem members_exact (c : Cache) (b : Bytes) (ms : List (Bytes × MTree)) (v : GoAny F)
    (h : parseTree b = some (.obj ms)) (hnd : (MTree.obj ms).noDup = true) (hdep : (MTree.obj ms).depth ≤ maxDepth)
    (hok : fast fp c b = .ok v) :
    ∃ gms, v = .map gms ∧ gms.map (·.1) = names ms ∧ gms.length = ms.length ∧ noDupNames (names ms) = true := by
  rw [any_meaning fp c b _ h hnd hdep] at hok
  simp only [toGo] at hok
  cases hm : toGoMembers fp ms with
  | none => simp [hm] at hok
  | some gms =>
    simp only [hm, Option.map_some, Except.ok.injEq] at hok
    refine ⟨gms, hok.symm, toGoMembers_names fp ms gms hm, ?_, ?_⟩
    · have := congrArg List.length (toGoMembers_names fp ms gms hm)
      simpa [names] using this
    · simp only [MTree.noDup, Bool.and_eq_true] at hnd
      exact hnd.1

/-- Decoding an array text gives a slice of the same length whose i-th element is the value of the i-th element. -/
theorem elements_exact (c : Cache) (b : Bytes) (xs : List MTree) (v : GoAny F)
    (h : parseTree b = some (.arr xs)) (hnd : (MTree.arr xs).noDup = true) (hdep : (MTree.arr xs).depth ≤ maxDepth)
    (hok : fast fp c b = .ok v) :
    ∃ gxs, v = .slice gxs ∧ xs.map (toGo fp) = gxs.map some ∧ gxs.length = xs.length := by
  rw [any_meaning fp c b _ h hnd hdep] at hok
  simp only [toGo] at hok
  cases hm : toGoList fp xs with
  | none => simp [hm] at hok
  | some gxs =>
    simp only [hm, Option.map_some, Except.ok.injEq] at hok
    refine ⟨gxs, hok.symm, toGoList_map fp xs gxs hm, ?_⟩
    have := congrArg List.length (toGoList_map fp xs gxs hm)
    simpa using this.symm

/-! ### Full statements that are NOT proved (validated by the harness only) -/

/-- `strconv.ParseFloat` is the correctly rounded value of the literal (the `FloatParse` parameter meets its spec). -/
def floatParse_correct_full (fp : FloatParse UInt64) : Prop := ∀ (lit rest : Bytes), lexNum lit = some (lit, rest) → rest = [] → fp lit = f64Round lit

/-! ### Glue: the meaning spec against slice C01's grammar, scanners and unquote model

`Spec/Meaning.lean` (this slice) and `Spec/Grammar.lean` + `Model/WireDecode.lean` + `Model/Validate.lean` (slice C01)
were written independently.  The theorems below connect them; C01's modules are imported read-only. -/

section Glue
open JsonV.Spec.Grammar JsonV.Model.Wire

/-- Fuel never matters: a parse that succeeds with SOME amount of fuel is the result of `parseTree`
(whose fuel is `2·len + 2`).  So `any_meaning` and the other theorems hold for "the text has a tree", not merely
"the text has a tree within this much fuel". -/
theorem fuel_suffices (b : Bytes) (n : Nat) (t : MTree) (h : parseTreeF n b = some t) : parseTree b = some t :=
  JsonV.Lemmas.GlueMeaningFuel.parseTreeF_mono n b t h _ (by omega)

/-- …and more fuel than `parseTree` uses changes nothing. -/
theorem fuel_irrelevant (b : Bytes) (t : MTree) (h : parseTree b = some t) (m : Nat) (hm : 2 * b.length ≤ m) :
    parseTreeF m b = some t :=
  JsonV.Lemmas.GlueMeaningFuel.parseTreeF_mono _ b t h m hm

/-- `any_meaning`, unconditional on fuel. -/
theorem any_meaning_any_fuel (c : Cache) (b : Bytes) (n : Nat) (t : MTree) (h : parseTreeF n b = some t)
    (hnd : t.noDup = true) (hdep : t.depth ≤ maxDepth) :
    fast fp c b = match toGo fp t with
      | some v => .ok v
      | none => .error .range :=
  any_meaning fp c b t (fuel_suffices b n t h) hnd hdep

example : parseTreeF 1000 exampleText = some exampleTree := by rfl

/-- Numbers: what `lexNum` accepts is a `number` of the C01 grammar, and it cuts the input right after it. -/
theorem lexNum_sound (b l r : Bytes) (h : lexNum b = some (l, r)) : b = l ++ r ∧ JNumber l :=
  JsonV.Lemmas.GlueMeaningLex.lexNum_spec h

example : lexNum [0x2D, 0x31, 0x2E, 0x35, 0x65, 0x33, 0x2C] = some ([0x2D, 0x31, 0x2E, 0x35, 0x65, 0x33], [0x2C]) := by rfl

/-- Strings: what `lexStr` accepts (after the opening quote) is a `string` of the C01 grammar under strict UTF-8. -/
theorem lexStr_sound (r s rest : Bytes) (h : lexStr r = some (s, rest)) :
    ∃ lit, JString true lit ∧ 0x22 :: r = lit ++ rest :=
  JsonV.Lemmas.GlueMeaningStr.lexStr_spec h

/-- A literal that has a meaning is a string of the grammar, hence (C01 `string_complete`) the model of
jsonwire.ConsumeString accepts exactly all of it under strict UTF-8. -/
theorem unescape_scanned (q s : Bytes) (h : unescape q = some s) :
    JString true q ∧ ∃ f, consumeString q true = (q.length, f, .ok) := by
  have hj : JString true q := by
    unfold unescape at h
    split at h
    · next r =>
      split at h
      · next s' hl =>
        obtain ⟨lit, hlit, hq⟩ := JsonV.Lemmas.GlueMeaningStr.lexStr_spec hl
        rw [List.append_nil] at hq
        rw [hq]; exact hlit
      · simp at h
    · simp at h
  exact ⟨hj, JsonV.Props.C01.string_complete q true q.length (Nat.le_refl _) (by rw [List.take_length]; exact hj)⟩

/-- The RFC 8259 meaning of a string literal IS what the model of jsonwire.AppendUnquote returns (with a nil error):
the spec's `unescape` and the code-shaped `unquote` (tied to the Go code by C01/quote's correspondence) agree. -/
theorem unescape_eq_unquote (q s : Bytes) (h : unescape q = some s) : unquote q = (s, .ok) :=
  JsonV.Lemmas.GlueMeaningUnquote.unescape_eq_unquote q s h

example : unquote [0x22, 0x5C, 0x75, 0x64, 0x38, 0x33, 0x64, 0x5C, 0x75, 0x64, 0x65, 0x30, 0x30, 0x22]
    = ([0xF0, 0x9F, 0x98, 0x80], .ok) :=
  unescape_eq_unquote _ _ (by rfl)

/-- Texts: whatever the meaning spec parses is `ws value ws` of the C01 grammar (strict UTF-8; duplicate names allowed,
so the key function is irrelevant), nested no deeper than the tree. -/
theorem meaning_implies_grammar (b : Bytes) (t : MTree) (md : Nat) (h : parseTree b = some t) (hd : t.depth ≤ md) :
    JText ⟨true, true⟩ md id b :=
  JsonV.Lemmas.GlueMeaningTree.parseTreeF_grammar _ b t md h hd

/-- In particular, within the library's nesting limit, it is a text of exactly the grammar instance that C01's
validator is proved sound for (`valid_sound_partial` with default UTF-8 handling). -/
theorem meaning_implies_grammar_lib (b : Bytes) (t : MTree) (h : parseTree b = some t) (hd : t.depth ≤ maxDepth) :
    JText ⟨true, true⟩ JsonV.Model.Validate.maxNestingDepth id b :=
  meaning_implies_grammar b t _ h hd

example : JText ⟨true, true⟩ 2 id exampleText := meaning_implies_grammar exampleText exampleTree 2 (by rfl) (by decide)

/-- The converse: **every text of the C01 grammar (strict UTF-8, duplicate names allowed) is parsed by the meaning spec**,
with a tree no deeper than the grammar's nesting bound.  With `meaning_implies_grammar`: the two formalisations of
"valid JSON text" accept the same byte strings. -/
theorem grammar_implies_meaning (b : Bytes) (md : Nat) (h : JText ⟨true, true⟩ md id b) :
    ∃ t, parseTree b = some t ∧ t.depth ≤ md :=
  JsonV.Lemmas.GlueMeaningTreeC.text_complete md b h

theorem meaning_iff_grammar (b : Bytes) (md : Nat) :
    (∃ t, parseTree b = some t ∧ t.depth ≤ md) ↔ JText ⟨true, true⟩ md id b :=
  ⟨fun ⟨t, h, hd⟩ => meaning_implies_grammar b t md h hd, grammar_implies_meaning b md⟩

/-- **The meaning spec and C01's validator model accept the same texts** (strict UTF-8, duplicate names allowed,
the library's nesting limit): `parseTree` succeeds with a tree within the limit iff `Value.IsValid`'s model says yes.
Uses C01's `valid_iff` (validator = grammar). -/
theorem spec_iff_validator (b : Bytes) :
    (∃ t, parseTree b = some t ∧ t.depth ≤ maxDepth) ↔ JsonV.Model.Validate.isValid ⟨false, true⟩ b = true := by
  rw [JsonV.Props.C01.valid_iff, meaning_iff_grammar b maxDepth]
  exact ⟨JsonV.Lemmas.GlueMeaningTreeC.jtext_key_irrel true _ _ _, JsonV.Lemmas.GlueMeaningTreeC.jtext_key_irrel true _ _ _⟩

example : JsonV.Model.Validate.isValid ⟨false, true⟩ exampleText = true :=
  (spec_iff_validator exampleText).1 ⟨exampleTree, by rfl, by decide⟩

/-- Numbers: `lexNum` accepts `n` bytes iff the model of jsonwire.ConsumeNumber answers `(n, nil)`
(C01 `number_iff` glued to `lexNum_sound` / `lexNum_complete` / maximal munch). -/
theorem lexNum_iff (b : Bytes) (n : Nat) :
    (∃ l r, lexNum b = some (l, r) ∧ l.length = n) ↔ consumeNumber b = (n, .ok) :=
  JsonV.Lemmas.GlueMeaningNumI.lexNum_iff b n

example : consumeNumber [0x2D, 0x31, 0x2E, 0x35, 0x65, 0x33, 0x2C] = (6, .ok) :=
  (lexNum_iff _ 6).1 ⟨_, _, by rfl, rfl⟩

end Glue

end JsonV.Props.C03
