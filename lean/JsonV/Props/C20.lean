/-
C20 — Resource use is bounded: depth limit, cycle detection, termination.

Property theorems only (proofs in Lemmas/Depth*.lean).  `Gen.*` is regenerated from /repo on every
run (Tie A): the two constants the limits depend on.

What is proved here, for ALL inputs of the models:
* token path: the stack of the state machine never exceeds `max`; a push is refused with
  errMaxDepth exactly when the stack holds `max` entries; `max` nested pushes succeed, the next fails;
* value path: a nest entered at `Tokens.Depth() = start` is accepted iff `start + levels ≤ max+1`,
  refused with errMaxDepth otherwise — also when the innermost container is empty;
* both paths agree on the limit, also when a value is split between tokens and a raw value;
* marshal traversal of a heap graph ends (value or error) on EVERY finite graph (`cycle_bounded`);
  without the `pointsToPointerLike` clause of makePointerArshaler it does not end on `p = &p`
  (finding D2, fixed in repo commit 407e50b); with the `AtMaxDepth` guard no container is written
  at depth max+1, without it an empty slice/map is (finding D5, fixed in c2b1a73).
-/
import JsonV.Lemmas.DepthL
import JsonV.Lemmas.DepthValueL
import JsonV.Lemmas.DepthCycleL
import JsonV.Lemmas.DepthTree
import JsonV.Lemmas.DepthTerm
import JsonV.Lemmas.FormatMain
import JsonV.Lemmas.FieldsFuel
import JsonV.Lemmas.FieldsEscape
import JsonV.Lemmas.CmpL
import JsonV.Lemmas.GlueMeaningFuel
import JsonV.Lemmas.ResumeNum
import JsonV.Model.TokenLoop
import JsonV.Lemmas.ResumeStreamCons
import JsonV.Gen.Constants

namespace JsonV.Props.C20
open JsonV.Model JsonV.Model.Depth JsonV.Model.Cycle
open JsonV.Lemmas.DepthL JsonV.Lemmas.DepthValueL JsonV.Lemmas.DepthCycleL

/-! ### Tie A: the constants in the source -/

theorem maxNestingDepth_eq : JsonV.Gen.jsontext.c_maxNestingDepth = 10000 := by decide

theorem startDetectingCyclesAfter_eq : JsonV.Gen.json.c_startDetectingCyclesAfter = 1000 := by decide

/-- cycle detection starts before the depth limit is reached (otherwise a cycle through slices would be
reported as "exceeded max depth" at best) -/
theorem cycle_detection_before_limit :
    JsonV.Gen.json.c_startDetectingCyclesAfter + 1 < JsonV.Gen.jsontext.c_maxNestingDepth := by decide

/-! ### Token path -/

/-- `depth_inv`: whatever sequence of successful calls drives the machine, the stack holds at most
`max` entries, i.e. `Depth() ≤ max+1`. -/
theorem depth_inv (max : Nat) (m : Machine) (h : Reach max m) :
    m.stack.length ≤ max ∧ m.depth ≤ max + 1 := by
  have := reach_stack_le h
  exact ⟨this, by simp [Machine.depth]; exact this⟩

/-- the same for any script of calls, failing ones included (a failed call changes nothing) -/
theorem depth_inv_script (max : Nat) (ops : List Op) :
    (run max ops Machine.init).depth ≤ max + 1 ∧ Reach max (run max ops Machine.init) := by
  refine ⟨?_, run_reach max ops _ Reach.init⟩
  have := run_stack_le max ops Machine.init (by simp [Machine.init])
  simp [Machine.depth]; exact this

example : Reach 2 (run 2 [.pushA, .pushO, .str, .pushA, .lit] Machine.init) ∧
    (run 2 [.pushA, .pushO, .str, .pushA, .lit] Machine.init).depth = 3 :=
  ⟨(depth_inv_script 2 _).2, by decide⟩

/-- `push_fails_iff`: a push is refused with errMaxDepth iff the earlier checks pass and the stack
holds exactly `max` entries. -/
theorem push_fails_iff (max : Nat) (m : Machine) :
    (m.pushArray max = .error .maxDepth ↔
      (m.last.needObjectName = false ∧ m.last.isValidNamespace = true ∧ m.stack.length = max)) ∧
    (m.pushObject max = .error .maxDepth ↔
      (m.last.needObjectName = false ∧ m.last.isValidNamespace = true ∧ m.stack.length = max)) :=
  ⟨pushArray_maxDepth_iff max m, pushObject_maxDepth_iff max m⟩

/-- …and succeeds iff the earlier checks pass and the stack holds fewer (by `depth_inv`: not exactly `max`). -/
theorem push_ok_iff (max : Nat) (m : Machine) :
    ((∃ m', m.pushArray max = .ok m') ↔
      (m.last.needObjectName = false ∧ m.last.isValidNamespace = true ∧ m.stack.length ≠ max)) ∧
    ((∃ m', m.pushObject max = .ok m') ↔
      (m.last.needObjectName = false ∧ m.last.isValidNamespace = true ∧ m.stack.length ≠ max)) :=
  ⟨pushArray_ok_iff max m, pushObject_ok_iff max m⟩

example : Machine.pushArray 0 Machine.init = .error .maxDepth :=
  (push_fails_iff 0 Machine.init).1.2 ⟨by decide, by decide, rfl⟩
example : ∃ m', Machine.pushArray 1 Machine.init = .ok m' := ⟨_, rfl⟩

/-- `accept_max_refuse_next`: from reset, any mix of `n ≤ max` nested containers is accepted and
leaves `Depth() = n+1`; any mix of more than `max` is refused with errMaxDepth. -/
theorem accept_max_refuse_next (max : Nat) (ks : List Bool) :
    (ks.length ≤ max → ∃ m', pushes max ks Machine.init = .ok m' ∧ m'.depth = ks.length + 1) ∧
    (max < ks.length → pushes max ks Machine.init = .error .maxDepth) := by
  constructor
  · intro h
    obtain ⟨m', h1, h2, _⟩ := pushes_ok max ks Machine.init fresh_init (by simpa [Machine.init] using h)
    exact ⟨m', h1, by simp [Machine.depth, h2, Machine.init]⟩
  · intro h
    exact pushes_refused max ks Machine.init fresh_init (by simp [Machine.init]) (by simpa [Machine.init] using h)

/-- with the constant of the source: exactly 10000 is accepted, 10001 is refused -/
theorem token_limit_10000 (ks : List Bool) :
    (ks.length = 10000 → ∃ m', pushes JsonV.Gen.jsontext.c_maxNestingDepth ks Machine.init = .ok m' ∧ m'.depth = 10001) ∧
    (ks.length = 10001 → pushes JsonV.Gen.jsontext.c_maxNestingDepth ks Machine.init = .error .maxDepth) := by
  rw [maxNestingDepth_eq]
  constructor
  · intro h
    obtain ⟨m', h1, h2⟩ := (accept_max_refuse_next 10000 ks).1 (by omega)
    exact ⟨m', h1, by omega⟩
  · intro h
    exact (accept_max_refuse_next 10000 ks).2 (by omega)

example : ∃ ks : List Bool, ks.length = 10001 := ⟨List.replicate 10001 true, List.length_replicate⟩

/-! ### Value path -/

/-- A nest of `ks.length` levels (any mix) around a scalar, entered at `Tokens.Depth() = start`
with `start ≤ max+1` (true by `depth_inv`), is accepted iff `start + ks.length ≤ max + 1`. -/
theorem nestDepthOk_iff (max start : Nat) (ks : List Bool) (hs : start ≤ max + 1) :
    nestDepthOk max start (nest ks) = true ↔ start + ks.length ≤ max + 1 := by
  unfold nestDepthOk
  by_cases h : start + ks.length ≤ max + 1
  · have := value_nest_ok max start (2 * (nest ks).length + 1) ks [] h (by rw [nest_length]; omega)
    simp only [List.append_nil] at this
    simp [this, h]
  · have := value_nest_refused max start (2 * (nest ks).length + 1) ks [] hs (by omega) (by rw [nest_length]; omega)
    simp only [List.append_nil] at this
    simp [this, h]

/-- …and the refusal is errMaxDepth (not a syntax error, not exhaustion of the model's fuel). -/
theorem nest_refusal_is_maxDepth (max start : Nat) (ks : List Bool) (hs : start ≤ max + 1)
    (h : max + 1 < start + ks.length) :
    value max (2 * (nest ks).length + 1) start (nest ks) = .error .maxDepth := by
  have := value_nest_refused max start (2 * (nest ks).length + 1) ks [] hs h (by rw [nest_length]; omega)
  simpa using this

/-- An empty innermost container is a level like any other on the value path (the test precedes the
`[]`/`{}` shortcut) — unlike the marshal shortcut for empty slices and maps, see Model/Cycle.lean. -/
theorem nestEmpty_iff (max start : Nat) (ks : List Bool) (k : Bool) (hs : start + ks.length ≤ max + 1) :
    nestDepthOk max start (nestEmpty ks k) = true ↔ start + ks.length + 1 ≤ max + 1 := by
  unfold nestDepthOk
  by_cases h : start + ks.length + 1 ≤ max + 1
  · have := value_nestEmpty_ok max start (2 * (nestEmpty ks k).length + 1) ks k [] h (by rw [nestEmpty_length]; omega)
    simp only [List.append_nil] at this
    simp [this, h]
  · have := value_nestEmpty_refused max start (2 * (nestEmpty ks k).length + 1) ks k [] (by omega) (by rw [nestEmpty_length]; omega)
    simp only [List.append_nil] at this
    simp [this, h]

/-- with the constant of the source, from the top level: 10000 levels accepted, 10001 refused -/
theorem value_limit_10000 (ks : List Bool) :
    (ks.length = 10000 → nestDepthOk JsonV.Gen.jsontext.c_maxNestingDepth 1 (nest ks) = true) ∧
    (ks.length = 10001 → nestDepthOk JsonV.Gen.jsontext.c_maxNestingDepth 1 (nest ks) = false) := by
  rw [maxNestingDepth_eq]
  constructor
  · intro h; exact (nestDepthOk_iff 10000 1 ks (by omega)).2 (by omega)
  · intro h
    cases hb : nestDepthOk 10000 1 (nest ks) with
    | false => rfl
    | true => have := (nestDepthOk_iff 10000 1 ks (by omega)).1 hb; omega

/-- The `==` in `depth == maxNestingDepth+1` is sound only because of `depth_inv`: entered beyond the
invariant the test never fires.  (So `depth_inv` is a proof obligation of the value path, not a nicety.) -/
theorem value_test_needs_depth_inv (max : Nat) (ks : List Bool) (rest : List Sym) (start : Nat)
    (h : max + 1 < start) : value max (2 * ks.length + 1) start (nest ks ++ rest) = .ok rest := by
  induction ks generalizing start rest with
  | nil => simp [nest, opens, closes, value]
  | cons k ks ih =>
    have hne : start ≠ max + 1 := by omega
    have hi := ih ((if k then Sym.co else Sym.ca) :: rest) (start + 1) (by omega)
    have := value_wrap_ok max (2 * ks.length + 1) start k (nest ks ++ (if k then Sym.co else Sym.ca) :: rest) rest hne
      (by unfold nest; exact headOk_append _ (headOk_opens ks _ ⟨_, _, rfl, by decide, by decide⟩)) hi
    simp only [List.length_cons]
    rw [show 2 * (ks.length + 1) + 1 = 2 * ks.length + 1 + 2 by omega]
    simpa [nest, opens_cons, closes_cons, List.append_assoc] using this


/-! ### The two paths agree, also on split values -/

/-- Descend `ks1` levels by tokens, then hand the remaining `ks2` levels to the value path:
accepted iff the whole nest has at most `max` levels — the same verdict as descending by tokens. -/
theorem token_value_agree (max : Nat) (ks1 ks2 : List Bool) (m : Machine)
    (h : pushes max ks1 Machine.init = .ok m) :
    (nestDepthOk max m.depth (nest ks2) = true ↔ ks1.length + ks2.length ≤ max) ∧
    ((∃ m', pushes max ks2 m = .ok m') ↔ ks1.length + ks2.length ≤ max) := by
  have hle : ks1.length ≤ max := by
    by_cases hc : ks1.length ≤ max
    · exact hc
    · have := (accept_max_refuse_next max ks1).2 (by omega)
      rw [this] at h; cases h
  obtain ⟨m0, h0, hlen, hf⟩ := pushes_ok max ks1 Machine.init fresh_init (by simpa [Machine.init] using hle)
  rw [h] at h0; cases h0
  have hlen' : m.stack.length = ks1.length := by simpa [Machine.init] using hlen
  constructor
  · rw [nestDepthOk_iff max m.depth ks2 (by simp [Machine.depth]; omega)]
    simp [Machine.depth]; omega
  · constructor
    · intro ⟨m', hm'⟩
      by_cases hc : ks1.length + ks2.length ≤ max
      · exact hc
      · have := pushes_refused max ks2 m hf (by omega) (by omega)
        rw [this] at hm'; cases hm'
    · intro hc
      obtain ⟨m', hm', _, _⟩ := pushes_ok max ks2 m hf (by omega)
      exact ⟨m', hm'⟩

example : ∃ m, pushes 3 [true, false] Machine.init = .ok m :=
  ((accept_max_refuse_next 3 [true, false]).1 (by decide)).imp fun _ h => h.1

/-! ### Marshal traversal of Go values -/

/-- the traversal of the current code: both clauses present, constants of the source -/
def srcCfg : Cfg := { max := JsonV.Gen.jsontext.c_maxNestingDepth, after := JsonV.Gen.json.c_startDetectingCyclesAfter }

/-- `cycle_bounded`: on EVERY finite heap graph, from any legal token depth and whatever the visited set,
the traversal as implemented (with the `pointsToPointerLike` clause of makePointerArshaler) ends with a
value or an error.  No hypothesis on the graph: dangling edges and interface-in-interface are answered
`dangling`, every cycle is cut by the visited set or by the depth limit. -/
theorem cycle_bounded (cfg : Cfg) (ht : cfg.trackPtrLike = true) (g : Heap) (depth : Nat) (seen : List Nat)
    (n : Nat) (hd : depth ≤ cfg.max + 1) :
    ∃ fuel, ∀ fuel', fuel ≤ fuel' → marshal cfg g fuel' depth seen n ≠ .outOfFuel :=
  ⟨(cfg.max + 1 - depth) * (3 * g.length + 3) + 3 * unseen g seen + flag g n + 1, fun fuel' hf =>
    marshal_terminates cfg g ht fuel' depth seen n hd (by omega)⟩

/-- for the constants of the source, from the top level: an explicit bound on the recursion
(a few times `maxNestingDepth · |g|` calls deep) -/
theorem cycle_bounded_src (g : Heap) (n : Nat) :
    marshal srcCfg g (10001 * (3 * g.length + 3)) 1 [] n ≠ .outOfFuel := by
  apply marshal_terminates srcCfg g rfl _ 1 [] n (by simp [srcCfg])
  have hu := unseen_le g []
  have hf := flag_le g n
  have : srcCfg.max + 1 - 1 = 10000 := by simp [srcCfg, maxNestingDepth_eq]
  rw [this]
  omega

/-- The pointer-only cycles are now reported as cycles (`type P *P; p = &p`, `var x any; x = &x`). -/
theorem pointer_cycle_reported (cfg : Cfg) (ht : cfg.trackPtrLike = true) (fuel depth : Nat) :
    marshal cfg selfPtr (fuel + 2) depth [] 0 = .cycle ∧
    marshal cfg selfIface (fuel + 4) depth [] 0 = .cycle :=
  ⟨selfPtr_cycle cfg ht fuel depth, selfIface_cycle cfg ht fuel depth⟩

/-- The clause is necessary: WITHOUT it (the traversal before repo commit 407e50b, finding D2) no amount
of fuel ends the traversal of `p = &p` or of `x = &x` — the visited set is then consulted only when
`Tokens.Depth() > startDetectingCyclesAfter`, and a pointer hop does not change the token depth. -/
theorem pointer_cycle_unbounded_without_clause (cfg : Cfg) (ht : cfg.trackPtrLike = false) (h : 1 ≤ cfg.after) :
    ∀ fuel, marshal cfg selfPtr fuel 1 [] 0 = .outOfFuel ∧ marshal cfg selfIface fuel 1 [] 0 = .outOfFuel :=
  fun fuel => ⟨selfPtr_diverges_old cfg ht fuel 1 [] h, (selfIface_diverges_old cfg ht fuel 1 [] h).1⟩

example : (1 : Nat) ≤ ({ srcCfg with trackPtrLike := false } : Cfg).after := by decide

/-- With the `AtMaxDepth` guard on every shortcut that skips WriteToken (repo commit c2b1a73 for empty slices
and maps; true of the source configuration, where structs and arrays have no shortcut at all), no container is
written at `Depth() = max+1`, empty or not: the answer is errMaxDepth (or the cycle error). -/
theorem container_at_limit (cfg : Cfg) (hg : ∀ k, cfg.shortcut k = true → cfg.guarded k = true) (g : Heap) (fuel : Nat)
    (seen : List Nat) (n : Nat) (nd : Node) (hn : g[n]? = some nd) (hk : nd.kind.deepens = true) :
    marshal cfg g (fuel + 1) (cfg.max + 1) seen n = .maxDepth ∨ marshal cfg g (fuel + 1) (cfg.max + 1) seen n = .cycle := by
  rw [container_at_limit_refused cfg g fuel seen n nd hn hk (hg nd.kind)]
  split <;> simp

/-- the hypothesis holds of the source configuration -/
example : ∀ k, srcCfg.shortcut k = true → srcCfg.guarded k = true := fun _ _ => rfl

/-- The guard is necessary on EVERY such shortcut: one that lacks it writes an empty container at
`Depth() = max+1` — empty slices/maps before c2b1a73 (finding D5/D11), or a fast path for member-less structs
that forgets the guard. -/
theorem empty_container_accepted_without_guard (cfg : Cfg) (g : Heap) (fuel : Nat)
    (n : Nat) (nd : Node) (hn : g[n]? = some nd) (hk : nd.kind.deepens = true)
    (hsc : cfg.shortcut nd.kind = true) (hg : cfg.guarded nd.kind = false) (he : nd.succ = []) :
    marshal cfg g (fuel + 1) (cfg.max + 1) [] n = .ok :=
  unguarded_shortcut_accepts cfg g fuel [] n nd hn hk hsc hg he (by simp)

/-- a configuration with an UNGUARDED `{}` shortcut for member-less structs (not the source) -/
def structShortcutCfg : Cfg where
  max := 2
  after := 1000
  shortcut := fun k => k == Kind.slice || k == Kind.map || k == Kind.struct
  guarded := fun k => k != Kind.struct

/-- at max = 2: three nested slices with an empty innermost one are refused now, like the text `[[[]]]`
on the value path; the old shortcut wrote them; so does an unguarded shortcut for a member-less struct
innermost.  (Illustrations, not theorems.) -/
example : marshal { max := 2, after := 1000 } [⟨.slice, [1]⟩, ⟨.slice, [2]⟩, ⟨.slice, []⟩] 10 1 [] 0 = .maxDepth := by decide
example : marshal { max := 2, after := 1000, guarded := (fun _ => false) } [⟨.slice, [1]⟩, ⟨.slice, [2]⟩, ⟨.slice, []⟩] 10 1 [] 0 = .ok := by decide
example : marshal { max := 2, after := 1000 } [⟨.slice, [1]⟩, ⟨.slice, [2]⟩, ⟨.struct, []⟩] 10 1 [] 0 = .maxDepth := by decide
example : marshal structShortcutCfg [⟨.slice, [1]⟩, ⟨.slice, [2]⟩, ⟨.struct, []⟩] 10 1 [] 0 = .ok := by decide
example : nestDepthOk 2 1 (nestEmpty [false, false] false) = false := by decide

/-! ### Value path on ARBITRARY texts (wire's model of consumeValue/consumeArray/consumeObject, the grammar of
Spec/Grammar.lean parameterised by the nesting limit): trees with siblings, names, strings, whitespace -/

section Trees
open JsonV.Model.Validate JsonV.Spec.Grammar JsonV.Lemmas.WireValue JsonV.Lemmas.WireComplete JsonV.Lemmas.DepthTree

/-- `G o` is the grammar instance of the options (Props/C01.lean calls it `gopts`). -/
abbrev TextWithin (o : VOpts) (k : Nat) (b : Bytes) : Prop := JText (G o) k (nameKey o) b

/-- the limit of wire's value-path model is the constant of the source -/
theorem tree_limit_tie : Validate.maxNestingDepth = 10000 := by decide

/-- **Accepted**: every text of the grammar whose nesting is at most `k ≤ 10000` — any tree, with siblings —
is accepted by `Value.IsValid` (corollary of C01 `valid_iff` and monotonicity of the grammar in the limit). -/
theorem tree_depth_accepted (o : VOpts) (k : Nat) (hk : k ≤ 10000) (b : Bytes) (h : TextWithin o k b) :
    isValid o b = true := by
  have := JsonV.Lemmas.WireComplete.validText_complete o b (jtext_mono (by rw [tree_limit_tie]; exact hk) h)
  simp [isValid, this]

/-- …and a text of the grammar (with any limit `M`) is accepted IFF its nesting is at most 10000. -/
theorem tree_depth_iff (o : VOpts) (M : Nat) (b : Bytes) (_h : TextWithin o M b) :
    isValid o b = true ↔ TextWithin o Validate.maxNestingDepth b :=
  ⟨fun hv => by
      unfold isValid at hv
      have : (validText o b).2 = .ok := by simpa using hv
      exact validText_sound o b (validText o b).1 (Prod.ext rfl this),
   fun ht => by simp [isValid, JsonV.Lemmas.WireComplete.validText_complete o b ht]⟩

/-- **Refused, with the depth error, at the offset of the offending bracket — whatever follows it.**
`Ctx o 0 p`: `p` opens 10000 nested containers from the top level, every earlier sibling on the way being a complete
value within the limit (objects: with their names, unique unless AllowDuplicateNames, and the colon of the
member being entered).  The next opening bracket would be level 10001: `validText` (IsValid / ReadValue /
Unmarshal's framing) answers errMaxDepth with ByteOffset = the offset of that bracket.  The remainder `rest` is
arbitrary — the refusal does not depend on the text being well-formed after the bracket. -/
theorem tree_bracket_refused (o : VOpts) (w p : Bytes) (c : UInt8) (rest : Bytes) (hw : JWs w) (hctx : Ctx o 0 p)
    (hc : c = 0x5B ∨ c = 0x7B) :
    validText o (w ++ (p ++ c :: rest)) = (w.length + p.length, .maxDepth) :=
  validText_ctx o w p c rest hw hctx hc

/-- **Every text of the grammar whose nesting exceeds 10000** (a text within some limit `M` that is not a text
within 10000 — e.g. `M = 10001`: nesting exactly 10001) **is refused with errMaxDepth at the offset of its first
bracket at nesting 10001**: it decomposes as blanks, a context, that bracket and a remainder. -/
theorem tree_depth_rejected (o : VOpts) (M : Nat) (b : Bytes) (h : TextWithin o M b)
    (hn : ¬ TextWithin o Validate.maxNestingDepth b) :
    ∃ w p c rest, b = w ++ (p ++ c :: rest) ∧ JWs w ∧ Ctx o 0 p ∧ (c = 0x5B ∨ c = 0x7B) ∧
      validText o b = (w.length + p.length, .maxDepth) ∧ isValid o b = false := by
  obtain ⟨w1, v, w2, hw1, hv, hw2, rfl⟩ := h
  have hnv : ¬ JV o 0 v := fun hjv => hn ⟨w1, v, w2, hw1, hjv, hw2, rfl⟩
  obtain ⟨p, c, rest, rfl, hctx, hc⟩ := exceeds_has_ctx o M hv (Nat.zero_le _) hnv
  have hval := validText_ctx o w1 p c (rest ++ w2) hw1 hctx hc
  refine ⟨w1, p, c, rest ++ w2, by simp [List.append_assoc], hw1, hctx, hc, ?_, ?_⟩
  · rw [← hval]; simp [List.append_assoc]
  · have : validText o (w1 ++ (p ++ c :: rest) ++ w2) = (w1.length + p.length, .maxDepth) := by
      rw [← hval]; simp [List.append_assoc]
    unfold isValid
    rw [this]
    rfl

/-- the hypotheses are satisfiable: `[` ×10000 is a context from the top level … -/
theorem ctx_example : Ctx {} 0 (List.replicate 10000 0x5B) := by
  have key : ∀ n d, d + n = Validate.maxNestingDepth → Ctx {} d (List.replicate n 0x5B) := by
    intro n
    induction n with
    | zero => intro d hd; simp at hd; subst hd; exact .here
    | succ n ih =>
      intro d hd
      have := Ctx.arr (o := {}) d [] [] (List.replicate n 0x5B) (by omega) (by simp) (by simp) jws_nil (ih (d + 1) (by omega))
      simpa [sepd, List.replicate_succ] using this
  exact key 10000 0 (by rw [tree_limit_tie])

/-- … so `[`×10001 followed by ANYTHING is refused at offset 10000 -/
example (rest : Bytes) : validText {} (List.replicate 10000 0x5B ++ 0x5B :: rest) = (10000, .maxDepth) := by
  have := tree_bracket_refused {} [] (List.replicate 10000 0x5B) 0x5B rest jws_nil ctx_example (Or.inl rfl)
  rw [List.nil_append, List.length_nil, Nat.zero_add, List.length_replicate] at this
  exact this

end Trees

/-! ### Termination of the modelled loops: no model ever exhausts its fuel

Each model of a Go loop carries explicit fuel; `terminates_*` says that the fuel the model is started with is never
exhausted, for EVERY input — i.e. the modelled loop terminates.  What each covers in /repo:

* `terminates_validText`, `terminates_readValue`: jsontext/decode.go consumeValue / consumeObject / consumeArray
  (recursion and both `for` loops), with internal/jsonwire/decode.go ConsumeWhitespace, ConsumeLiteral,
  ConsumeSimpleString / ConsumeStringResumable (the rune loop), ConsumeSimpleNumber / ConsumeNumberResumable
  — as used by Value.IsValid, Decoder.ReadValue, Unmarshal's framing and v1.Valid (C01, C09);
* `terminates_stream`: the caller's `for { ReadValue }` loop over a stream until io.EOF or an error (C01 model);
* `terminates_lex`: the lexer of the Format/Compact/Indent model (one step per lexeme or blank; C12);
* `terminates_structFields`: the breadth-first walk of makeStructFields over embedded struct types, including
  recursive type graphs (fields.go; C15), `terminates_needEscape`: jsonwire.NeedEscape's loop (C15);
* `terminates_compareUTF16`: the loop of jsonwire.CompareUTF16 (C13);
* `terminates_meaningParse`: the value/members/elements recursion of the meaning parser used by C03/C04 (any fuel
  ≥ 2·|b| gives the same answer as any successful run);
* `terminates_marshalTraversal` (`cycle_bounded` above): the recursion of marshal over Go values;
* `terminates_valueSkeleton`: the skeleton model of this file.
* `terminates_tokens`: the caller's `for { ReadToken }` loop (also the loop inside SkipValue), every input;
* `terminates_streaming`: the four refill loops of the streaming decoder, every finite list of reader events.
NOT covered by a no-fuel theorem (validated by the watchdogs of the harness only): Encoder.WriteValue's reformatValue
model (C06 proves its result when it succeeds, not fuel adequacy), v1.Indent's placeholder loop, Unmarshal's recursion
over Go values. -/

section Termination
open JsonV.Model.Validate

theorem terminates_validText (o : VOpts) (b : Bytes) : (validText o b).2 ≠ .fuel :=
  JsonV.Lemmas.WireFuel.validText_no_fuel o b

theorem terminates_readValue (o : VOpts) (fuel : Nat) (b : Bytes) (hf : 3 * b.length + 1 ≤ fuel) :
    (readValueTop o fuel b).2 ≠ .fuel :=
  JsonV.Lemmas.WireFuel.readValueTop_no_fuel o fuel b hf

theorem terminates_stream (o : VOpts) (b : Bytes) : (stream o b).2.2 ≠ .fuel :=
  JsonV.Lemmas.DepthTerm.stream_no_fuel o b

theorem terminates_lex (n : Nat) (b : Bytes) (h : b.length < n) : JsonV.Fmt.lexF n b = JsonV.Fmt.lex b :=
  JsonV.Fmt.lexF_fuel n (b.length + 1) b h (Nat.lt_succ_self _)

theorem terminates_structFields (g : JsonV.Model.Fields.Graph) (root : JsonV.Model.Fields.StructId) :
    (JsonV.Model.Fields.search g root).queue = [] :=
  JsonV.Lemmas.Fields.search_queue_nil g root

theorem terminates_needEscape (fuel : Nat) (b : Bytes) (h : b.length ≤ fuel) :
    JsonV.Model.Fields.needEscapeAux fuel b = JsonV.Model.Fields.needEscape b :=
  JsonV.Lemmas.Fields.needEscape_fuel fuel b h

theorem terminates_compareUTF16 (f : Nat) (x y : Bytes) (h : x.length ≤ f ∨ y.length ≤ f) :
    JsonV.Model.Compare.go f x y = JsonV.Model.Compare.compareUTF16 x y :=
  JsonV.Lemmas.CmpL.go_fuel f x.length x y h (Or.inl (Nat.le_refl _))

theorem terminates_meaningParse (n : Nat) : JsonV.Lemmas.GlueMeaningFuel.FuelOK n :=
  JsonV.Lemmas.GlueMeaningFuel.fuelOK n

theorem terminates_marshalTraversal (g : Heap) (n : Nat) :
    marshal srcCfg g (10001 * (3 * g.length + 3)) 1 [] n ≠ .outOfFuel := cycle_bounded_src g n

/-- the skeleton value path: more fuel never changes an answer, and `2·|text|+1` answers every nest -/
theorem terminates_valueSkeleton (max fuel fuel' depth : Nat) (inp : List Sym) (r : Except VErr (List Sym))
    (h : value max fuel depth inp = r) (hr : r ≠ .error .fuel) (hle : fuel ≤ fuel') : value max fuel' depth inp = r :=
  value_fuel_le max h hr hle

/-- The ReadToken loop model (`TokenLoop.tokens`: ReadToken until io.EOF or an error, the loop behind SkipValue and
the token-by-token callers) never exhausts its fuel `|b| + 1`, for EVERY input: a token consumes at least one byte
(the `bug` arm) and at most the remaining input, and no lexer reports the out-of-fuel class.  (No length bound is
needed; for inputs shorter than 2^61 bytes wire's `token_value`/`token_stream` (C01) then say what the answer is.) -/
theorem terminates_tokens (o : VOpts) (b : Bytes) : (JsonV.Model.TokenLoop.tokens o b).2.2 ≠ .fuel :=
  JsonV.Lemmas.DepthTerm.tokens_no_fuel o b

/-- The streaming decoder's refill loops (Model/Stream.lean `refill`: the `for { scan; if needs more { fetch; continue } }`
loops of decoderState.consumeWhitespace/consumeLiteral/consumeString/consumeNumber, decode.go:838-967) terminate for every
finite list of reader events: `refill` is defined by recursion on the event list — every re-entry of the scanner consumes
one event — and what it leaves is a suffix of the events it was given (a fault is reported only after a fault event).
That the answers of whole scripts of ReadToken/ReadValue/SkipValue over any chunking equal those of the whole-buffer
model (whose fuel is adequate by `terminates_validText`/`terminates_tokens`) is c05's `sim_full` (Props/C05.lean). -/
theorem terminates_streaming {α β : Type} (step : Bytes → α → α ⊕ β) (atEof : Bytes → α → β)
    (es : List JsonV.Model.Stream.Event) (v : Bytes) (a : α) :
    JsonV.Model.Stream.Consumed es (JsonV.Model.Stream.refill step atEof v a es).evs
      (JsonV.Model.Stream.refill step atEof v a es).isFault ∧
    (JsonV.Model.Stream.refill step atEof v a es).evs.length ≤ es.length := by
  have h := JsonV.Model.Stream.refill_consumed step atEof es v a
  refine ⟨h, ?_⟩
  obtain ⟨pre, hpre, _⟩ := h
  have := congrArg List.length hpre
  simp only [List.length_append] at this
  omega

end Termination

/-! ### `scan_index_safe` at model level

The byte-scanner models (Model/WireDecode.lean, Model/Resume.lean, Model/Validate.lean, Model/TokenLoop.lean) contain
NO indexed access: no `b[i]!`, `get!`, `getD` or `head!` on bytes (the harness greps the sources on every run).  Every
byte is obtained by pattern matching on the remaining input with an explicit `[]` arm — the model's counterpart of
the Go guards `uint(len(b)) > uint(n)` / `d.needMore(pos)` — so an out-of-range access cannot be expressed.  What
remains to state is that the OFFSETS the scanners hand back (which the Go code uses to re-slice `d.buf[:pos]`)
are within the input: -/

section IndexSafe
open JsonV.Model.Wire JsonV.Model.Validate

theorem scan_index_safe (o : VOpts) (b : Bytes) :
    consumeWhitespace b ≤ b.length ∧
    (JsonV.Model.Resume.consumeNumberResumable b 0 0).1 ≤ b.length ∧
    (∀ v n f, consumeString b v = (n, f, .ok) → n ≤ b.length) ∧
    (∀ fuel d n, d ≤ Validate.maxNestingDepth → consumeValue o fuel (d + 1) b = (n, .ok) → n ≤ b.length) ∧
    (∀ fuel n, readValueTop o fuel b = (n, .ok) → n ≤ b.length) :=
  ⟨JsonV.Lemmas.WireBasic.ws_le b, JsonV.Model.Resume.num_bound b,
   fun v n f h => (JsonV.Lemmas.WireString.consumeString_sound b v n f h).1,
   fun fuel d n hd h => ((JsonV.Lemmas.WireValue.sound_all o fuel).1 d b n hd h).1,
   fun fuel n h => (JsonV.Lemmas.WireValue.readValueTop_ok o fuel b n h).1⟩

/-- full statement, not proved: the offset reported with EVERY outcome (errors included) is within the input -/
def scan_offsets_full : Prop :=
  ∀ (o : VOpts) (b : Bytes), (validText o b).1 ≤ b.length

/-- …proved for the depth refusal: the reported offset is a valid index, and the byte there is the bracket -/
theorem depth_offset_in_range (o : VOpts) (w p : Bytes) (c : UInt8) (rest : Bytes) (hw : JsonV.Spec.Grammar.JWs w)
    (hctx : JsonV.Lemmas.DepthTree.Ctx o 0 p) (hc : c = 0x5B ∨ c = 0x7B) :
    (w ++ (p ++ c :: rest))[(validText o (w ++ (p ++ c :: rest))).1]? = some c := by
  rw [JsonV.Lemmas.DepthTree.validText_ctx o w p c rest hw hctx hc]
  simp

end IndexSafe

end JsonV.Props.C20
