/-
C16 — Reported positions are truthful: jsontext.Pointer is consistent under RFC 6901 escaping,
and the stack pointer assembled by `appendStackPointer` is the rendered path of the token history.

Property theorems only (proofs in Lemmas/Pointer*.lean).  Models: Model/Pointer.lean
(jsontext/state.go:97-218), spec: Spec/PointerSpec.lean.  All statements are for ALL byte strings
(no length bound, arbitrary bytes including ill-formed UTF-8) unless a hypothesis says otherwise.
`sanitize t` is `t` as Go's `range` reads it (each ill-formed byte becomes U+FFFD); `sanitize t = t`
for well-formed UTF-8 (`sanitize_valid`).
-/
import JsonV.Model.Pointer
import JsonV.Spec.PointerSpec
import JsonV.Lemmas.PointerEsc
import JsonV.Lemmas.PointerOps
import JsonV.Lemmas.PointerValid
import JsonV.Lemmas.PointerStack
import JsonV.Lemmas.PointerUtf8
import JsonV.Lemmas.PointerSim
import JsonV.Lemmas.PointerMachine
import JsonV.Lemmas.PositionTok
import JsonV.Lemmas.PointerErr
import JsonV.Lemmas.PositionLex

namespace JsonV.Props.C16
open JsonV JsonV.Model JsonV.Model.Pointer JsonV.Spec.Pointer JsonV.Lemmas.Pointer

/-! ### Escaping -/

/-- `appendEscapePointerName` writes exactly the RFC 6901 escaping of the name. -/
theorem escape_spec (t : Bytes) : escape t = escapeTok (sanitize t) := escape_eq t

/-- RFC 6901 unescaping (two `ReplaceAll` passes, "~1" first) inverts escaping: every byte string. -/
theorem unescape_escapeTok (t : Bytes) : unescape (escapeTok t) = t := Lemmas.Pointer.unescape_escapeTok t

/-- `unescapePointerToken (appendEscapePointerName nil t) = t` as Go reads `t`. -/
theorem escape_inv (t : Bytes) : unescape (escape t) = sanitize t := by
  rw [escape_eq, Lemmas.Pointer.unescape_escapeTok]

/-- An escaped token contains no '/'. -/
theorem escape_no_slash (t : Bytes) : ∀ b ∈ escape t, b ≠ cSlash := by
  rw [escape_eq]; exact escapeTok_no_slash _

/-! ### Pointer methods -/

/-- `AppendToken` appends "/" and the escaped token. -/
theorem appendToken_spec (p t : Bytes) : appendToken p t = p ++ render [sanitize t] := by
  rw [appendToken_eq]; simp [render, cSlash]

/-- Appending tokens to the root yields the rendering of the token list, and `Tokens` reads it back. -/
theorem ptr_tokens (ts : List Bytes) : tokens (ts.foldl appendToken []) = ts.map sanitize := by
  rw [foldl_appendToken, List.nil_append, tokens_render]

/-- `Tokens` inverts `render` for every list of byte strings. -/
theorem tokens_render (ts : List Bytes) : tokens (render ts) = ts := Lemmas.Pointer.tokens_render ts

/-- `LastToken`/`Parent` undo `AppendToken` — for EVERY `p` (validity of `p` is not needed). -/
theorem ptr_roundtrip (p t : Bytes) :
    lastToken (appendToken p t) = sanitize t ∧ parent (appendToken p t) = p := by
  rw [appendToken_eq]
  exact ⟨by rw [lastToken_sep _ _ (escapeTok_no_slash _), Lemmas.Pointer.unescape_escapeTok],
         parent_sep _ _ (escapeTok_no_slash _)⟩

/-- The root has no parent and no last token. -/
theorem parent_root : parent [] = [] ∧ lastToken [] = [] := by decide

/-- `Contains` on rendered pointers is the prefix relation on token lists. -/
theorem contains_iff_prefix (ts us : List Bytes) :
    contains (render ts) (render us) = true ↔ IsPrefix ts us := contains_render ts us

/-- `p.Contains(q)` says exactly: `q` is `p` followed by nothing or by "/…". -/
theorem contains_spec (p q : Bytes) : contains p q = true ↔ ∃ s, q = p ++ s ∧ (s = [] ∨ ∃ r, s = cSlash :: r) :=
  contains_iff p q

/-! ### IsValid -/

/-- Doc comment of `IsValid`: "the concatenation of two valid pointers produces a valid pointer". -/
theorem isValid_append (p q : Bytes) (hp : isValid p = true) (hq : isValid q = true) : isValid (p ++ q) = true :=
  Lemmas.Pointer.isValid_append p q hp hq

/-- A valid pointer is the rendering of its own token list (so `Tokens` loses nothing). -/
theorem isValid_render (p : Bytes) (h : isValid p = true) : p = render (tokens p) := Lemmas.Pointer.isValid_render p h

/-- For valid pointers: `p.Contains(q)` iff the tokens of `p` are a prefix of the tokens of `q`. -/
theorem contains_iff_prefix_valid (p q : Bytes) (hp : isValid p = true) (hq : isValid q = true) :
    contains p q = true ↔ IsPrefix (tokens p) (tokens q) := by
  have h := contains_render (tokens p) (tokens q)
  rwa [← Lemmas.Pointer.isValid_render p hp, ← Lemmas.Pointer.isValid_render q hq] at h

/-- For a valid pointer, re-appending its tokens rebuilds it, provided the tokens are what Go's `range` reads
(always true for well-formed UTF-8, which `IsValid` demands of `p` but escapes may hide in tokens: see `sanitize`). -/
theorem rebuild_valid (p : Bytes) (h : isValid p = true) (hs : (tokens p).map sanitize = tokens p) :
    (tokens p).foldl appendToken [] = p := by
  rw [foldl_appendToken, List.nil_append, hs, ← Lemmas.Pointer.isValid_render p h]

/-- Go's `range`/`AppendRune` round trip is the identity on well-formed UTF-8 (`utf8.Valid`), so every
`sanitize` above disappears for the names a decoder or encoder accepts by default. -/
theorem sanitize_valid (t : Bytes) (h : Utf8.valid t = true) : sanitize t = t := Lemmas.Pointer.sanitize_valid t h

/-- `LastToken (AppendToken p t) = t` for well-formed UTF-8 tokens (DESIGN.md's `ptr_roundtrip`). -/
theorem ptr_roundtrip_valid (p t : Bytes) (h : Utf8.valid t = true) :
    lastToken (appendToken p t) = t ∧ parent (appendToken p t) = p := by
  have := ptr_roundtrip p t
  rwa [Lemmas.Pointer.sanitize_valid t h] at this

/-- `AppendToken` keeps a pointer valid, for EVERY token (ill-formed bytes are replaced by U+FFFD). -/
theorem isValid_appendToken (p t : Bytes) (hp : isValid p = true) : isValid (appendToken p t) = true :=
  Lemmas.Pointer.isValid_appendToken p t hp

example : Utf8.valid [0x61, 0xc3, 0xa9] = true := by decide
example : isValid [0x2f, 0x61, 0x7e, 0x31] = true := by decide
example : isValid [0x2f, 0x7e] = false := by decide
example : isValid [0x2f, 0xff] = false := by decide
example : contains (render [[0x61]]) (render [[0x61], [0x7e, 0x2f]]) = true :=
  (contains_iff_prefix _ _).2 ⟨[[0x7e, 0x2f]], rfl⟩
example : lastToken (appendToken [0x2f, 0x61] [0x7e, 0x2f]) = [0x7e, 0x2f] := by decide

/-! ### appendStackPointer -/

/-- **stackptr_spec** (abstract (kind, count) stack): on every state reached by a token history, for
where ∈ {-1, 0, +1}, the pointer assembled from the stack of (kind, count) entries and the names stack is the
rendering of the declarative path (`refToken`: names as Go's `range` reads them — the identity on well-formed
UTF-8 by `sanitize_valid` — and indices in base 10); in particular `Names.getUnquoted` never panics. -/
theorem stackptr_spec (hist : List Tok) (w : Int) (s : AState) (hw : w = -1 ∨ w = 0 ∨ w = 1)
    (hrun : AState.init.run hist = some s) :
    ∃ path, pointerOf w hist = some path ∧ appendStackPointer s [] w = some (render (path.map refToken)) :=
  Lemmas.Pointer.stackptr_spec hist w s hw hrun

/-- **stackptr_spec on the packed state machine** (Model/State.lean, the 64-bit `stateEntry` words tied to the
regenerated code by slice C06) with `Names` maintained as ReadToken/WriteToken do (push on '{', replace on a
member name, pop on '}'): same statement, for histories shorter than 2^61 tokens (the width of the counter). -/
theorem stackptr_spec_machine (max : Nat) (hist : List Tok) (hlen : hist.length < 2^61) (w : Int)
    (hw : w = -1 ∨ w = 0 ∨ w = 1) (s : MState) (hrun : MState.run max {} hist = .ok s) :
    ∃ path, pointerOf w hist = some path ∧ s.appendStackPointer [] w = some (render (path.map refToken)) :=
  Lemmas.Pointer.stackptr_spec_machine max hist hlen w hw s hrun

/-- Non-vacuity on the packed machine: after `{"a/b":[1,2` the three positions are "/a~1b/1", "/a~1b" … -/
example : ∃ s, MState.run 10000 {} [.beginObj, .str [0x61, 0x2f, 0x62], .beginArr, .scalar, .scalar] = .ok s ∧
    s.appendStackPointer [] (-1) = some [0x2f, 0x61, 0x7e, 0x31, 0x62, 0x2f, 0x31] ∧
    s.appendStackPointer [] 0 = some [0x2f, 0x61, 0x7e, 0x31, 0x62] ∧
    s.appendStackPointer [] 1 = some [0x2f, 0x61, 0x7e, 0x31, 0x62, 0x2f, 0x32] := ⟨_, rfl, by decide, by decide, by decide⟩

/-- Building block (where = -1, any stack whose entries all have a current child — every reachable state whose innermost
container is non-empty): the assembled pointer is `b` followed by the rendering of the member names (as read by `range`)
and of `Length()-1` for arrays, outermost first; no panic in `Names.getUnquoted`. -/
theorem stackptr_partial (names : List Bytes) (es : List SEntry) (od : Nat) (b : Bytes)
    (hlen : ∀ e ∈ es, e.len > 0) (hnames : od + countObj es ≤ names.length) :
    stackLoop (-1) names es od b = some (b ++ render (refsOf names es od)) :=
  stackLoop_render names es od b hlen hnames

/-- Consequently `Tokens` of the stack pointer are exactly those names and indices. -/
theorem stackptr_tokens (s : AState) (hlen : ∀ e ∈ s.stack.reverse.drop 1, e.len > 0)
    (hnames : countObj (s.stack.reverse.drop 1) ≤ s.names.length) :
    appendStackPointer s [] (-1) = some (render (refsOf s.names.reverse (s.stack.reverse.drop 1) 0)) ∧
      tokens (render (refsOf s.names.reverse (s.stack.reverse.drop 1) 0)) =
        refsOf s.names.reverse (s.stack.reverse.drop 1) 0 := by
  refine ⟨?_, Lemmas.Pointer.tokens_render _⟩
  unfold appendStackPointer
  have := stackLoop_render s.names.reverse (s.stack.reverse.drop 1) 0 [] hlen (by simpa using hnames)
  simpa using this

/-- The hypotheses are met by the state after `{"a/b":[1,2` : pointer "/a~1b/1". -/
example : appendStackPointer ⟨[⟨false, 2⟩, ⟨true, 2⟩, ⟨false, 1⟩], [[0x61, 0x2f, 0x62]]⟩ [] (-1) =
    some [0x2f, 0x61, 0x7e, 0x31, 0x62, 0x2f, 0x31] := by decide
example : AState.init.run [.beginObj, .str [0x61, 0x2f, 0x62], .beginArr, .scalar, .scalar] =
    some ⟨[⟨false, 2⟩, ⟨true, 2⟩, ⟨false, 1⟩], [[0x61, 0x2f, 0x62]]⟩ := by decide
example : pointerOf (-1) [.beginObj, .str [0x61, 0x2f, 0x62], .beginArr, .scalar, .scalar] =
    some [.name [0x61, 0x2f, 0x62], .index 1] := by decide

/-! ### errors.go: pointerSuffixError and the JSONPointer of wrapSyntacticError -/

/-- **Reversed suffix**: unwinding through `path` (innermost frame first: `wrapWithObjectName` / `wrapWithArrayIndex`
append "/"+escaped name or "/"+index to `reversePointer`) and then `appendPointer` (which re-reverses by splitting at
the last '/') appends exactly the rendering of `path` — for EVERY name: '/', '~', both, ill-formed UTF-8
(the latter as Go's `range` reads it).  In particular `appendPointer` never hits its slice-bounds panic. -/
theorem suffix_spec (path : List Ref) (ptr : Bytes) :
    appendPointer (buildRev path) ptr = some (ptr ++ render (path.map refToken)) :=
  Lemmas.Pointer.suffix_spec path ptr

/-- `appendPointer` on any '/'-separated segments: it reverses their order. -/
theorem appendPointer_spec (segs : List Bytes) (hs : ∀ a ∈ segs, ∀ b ∈ a, b ≠ cSlash) (bo : Bytes) :
    appendPointer (joinSegs segs) bo = some (bo ++ joinSegs segs.reverse) :=
  appendPointer_segs segs hs bo

/-- **err_pointer**: after any accepted token history, the JSONPointer `wrapSyntacticError` computes without a suffix
(ReadToken, and ReadValue at the start of a value) — for where ∈ {-1,0,+1}, where = +1 on the mismatched-delimiter
branch as at every call site — is `ptr(C)` or `ptr(C)/next` for the innermost open container `C`
(`containerOf`: `next` = member name read last, or index of the element read last / being read). Never an ancestor. -/
theorem err_pointer (hist : List Tok) (w : Int) (hw : w = -1 ∨ w = 0 ∨ w = 1) (mm : Bool) (hmm : mm = true → w = 1)
    (s : AState) (hrun : AState.init.run hist = some s) :
    ∃ p C nexts, containerOf hist = some (C, nexts) ∧ wrapSyntacticErrorPtr s w none mm = some p ∧
      (p = render (C.map refToken) ∨ ∃ x ∈ nexts, p = render ((C ++ [x]).map refToken)) :=
  Lemmas.Pointer.err_pointer hist w hw mm hmm s hrun

/-- **err_pointer, duplicate name** (ReadToken/WriteToken: `wrapWithObjectName(ErrDuplicateName, name)`, where = +1,
a name being expected): exactly the duplicated member `ptr(C)/name`, escaped. -/
theorem err_pointer_dup (hist : List Tok) (s : AState) (hrun : AState.init.run hist = some s)
    (hneed : s.stack.head?.map SEntry.needObjectName = some true) (dup : Bytes) :
    ∃ C nexts, containerOf hist = some (C, nexts) ∧
      wrapSyntacticErrorPtr s 1 (some (wrapWithObjectName [] dup)) false =
        some (render ((C ++ [Ref.name dup]).map refToken)) :=
  Lemmas.Pointer.err_pointer_dup hist s hrun hneed dup

/-- **err_pointer, errors nested inside ReadValue / WriteValue**: the stack pointer followed by the path inside the
value, every reference token escaped; `Tokens` of the result are the names and indices themselves. -/
theorem err_pointer_nested (hist : List Tok) (w : Int) (hw : w = -1 ∨ w = 0 ∨ w = 1) (s : AState)
    (hrun : AState.init.run hist = some s) (path : List Ref) :
    ∃ base, pointerOf w hist = some base ∧
      wrapSyntacticErrorPtr s w (some (buildRev path)) false = some (render ((base ++ path).map refToken)) ∧
      tokens (render ((base ++ path).map refToken)) = (base ++ path).map refToken := by
  obtain ⟨base, h1, h2⟩ := Lemmas.Pointer.err_pointer_nested hist w hw s hrun path
  exact ⟨base, h1, h2, Lemmas.Pointer.tokens_render _⟩

/-- The statement on the packed machine (`MState`, names maintained as the code does), through `mrun_view`. -/
theorem err_pointer_machine (max : Nat) (hist : List Tok) (hlen : hist.length < 2^61) (w : Int)
    (hw : w = -1 ∨ w = 0 ∨ w = 1) (mm : Bool) (hmm : mm = true → w = 1) (s : MState)
    (hrun : MState.run max {} hist = .ok s) :
    ∃ p C nexts, containerOf hist = some (C, nexts) ∧ wrapSyntacticErrorPtr s.view w none mm = some p ∧
      (p = render (C.map refToken) ∨ ∃ x ∈ nexts, p = render ((C ++ [x]).map refToken)) := by
  have hv := mrun_view hist (minv_init max) (by omega) hrun
  exact Lemmas.Pointer.err_pointer hist w hw mm hmm s.view hv

/-- `{"x/y":[0,0,{"~":` … an error two levels inside a value read at the top level: "/x~1y/2/~0". -/
example : appendPointer (buildRev [.name [0x78, 0x2f, 0x79], .index 2, .name [0x7e]]) [] =
    some [0x2f, 0x78, 0x7e, 0x31, 0x79, 0x2f, 0x32, 0x2f, 0x7e, 0x30] :=
  (suffix_spec _ _).trans (by decide)

/-! ### Positions on the token-path model (slice C01's Model/TokenLoop.lean) -/

section Positions
open JsonV.Model.TokenLoop JsonV.Model.Validate JsonV.Model.Wire JsonV.Lemmas.Position JsonV.Lemmas.StateRefine
open JsonV.Spec.PDA (Kind Viable)

/-- **index_spec**: after `k` successful `ReadToken` calls on `b` (fresh decoder) the machine is the one reached by the
`k` token kinds read; they form a viable token sequence, and `StackDepth()` / `StackIndex(i)` read off the packed
machine are those of the grammar frames computed from that history (outermost first; kind 0 at level 0). -/
theorem index_spec (o : VOpts) (k : Nat) (hk : k < 2^61) (b : Bytes) (st : TState) (off : Nat) (rest : Bytes)
    (h : reads o k {} b 0 = some (st, off, rest)) :
    ∃ ks fs, ks.length = k ∧ Spec.PDA.run maxNestingDepth Spec.PDA.init ks = some fs ∧ Viable maxNestingDepth ks ∧
      stackDepth st.m = Spec.PDA.depth fs ∧ (∀ i, stackIndex st.m i = frameIndex fs i) ∧
      st.m.depth + ks.countP Kind.closing = 1 + ks.countP Kind.opening :=
  (index_offset_spec o k hk b st off rest h).1

/-- **offset_spec**: `InputOffset` after `k` successful reads is the length of the consumed prefix — the unread input
is exactly `b.drop off`. -/
theorem offset_spec (o : VOpts) (k : Nat) (hk : k < 2^61) (b : Bytes) (st : TState) (off : Nat) (rest : Bytes)
    (h : reads o k {} b 0 = some (st, off, rest)) :
    off ≤ b.length ∧ rest = b.drop off ∧ b = b.take off ++ rest ∧ (b.take off).length = off :=
  (index_offset_spec o k hk b st off rest h).2

/-- **err_viable (partial)**: when `ReadToken` fails after `k` tokens with relative offset `kk`, the tokens read are a
viable token sequence and `b[off : off+kk]` holds only blanks and at most one separator — except when the error comes
out of the LEXER of the next token (second alternative: it lies `n` bytes inside that token). -/
theorem err_viable_partial (o : VOpts) (k : Nat) (hk : k < 2^61) (b : Bytes) (st : TState) (off : Nat) (rest : Bytes)
    (h : reads o k {} b 0 = some (st, off, rest)) (kk : Nat) (e : Err) (herr : readToken o st rest = .err kk e) :
    (∃ ks, ks.length = k ∧ Viable maxNestingDepth ks ∧ smRun maxNestingDepth Machine.init ks = .ok st.m) ∧
    b.take (off + kk) = b.take off ++ (b.drop off).take kk ∧
    (Blank ((b.drop off).take kk) ∨
      ∃ pos n, Blank ((b.drop off).take pos) ∧ lexer o (b.drop (off + pos)) = some (n, e) ∧ e ≠ .ok ∧ kk = pos + n) :=
  Lemmas.Position.err_viable_partial o k hk b st off rest h kk e herr

/-- The excluded class is a real counterexample ON THE MODEL (finding F2 / D13, "lexed before checked"): on `{t` the
token path reports offset 2 (unexpected EOF inside `t…`), on `{ f}` offset 3, although `{` followed by a literal is
not a viable token sequence — the text stops being viable at offsets 1 and 2, where the value path reports it; a
complete literal in the same position IS reported at its start. -/
theorem f2_counterexample :
    tokens {} [0x7b, 0x74] = (0, 2, .eof) ∧ validText {} [0x7b, 0x74] = (1, .invalidChar) ∧
    tokens {} [0x7b, 0x20, 0x66, 0x7d] = (0, 3, .invalidChar) ∧ validText {} [0x7b, 0x20, 0x66, 0x7d] = (2, .invalidChar) ∧
    tokens {} [0x7b, 0x74, 0x72, 0x75, 0x65] = (0, 1, .nonStringName) ∧
    ¬ Viable maxNestingDepth [.beginObj, .lit] := by
  refine ⟨by decide, by decide +kernel, by decide, by decide +kernel, by decide, by decide⟩

/-- **err_viable, lexical part**: whenever the lexer of a token (literal, number or string) fails at relative offset
`n`, the bytes of the token before that offset can be completed to a token of the same kind that the lexer accepts
(`nul` → `null`, `1.` → `1.0`, `"ab\x` → `"ab"`; a truncated number is reported at offset 0).  Together with
`err_viable_partial`: `input[:ByteOffset]` = viable token kinds + blanks + a completable token prefix — a viable prefix
of JSON at byte level whenever the state machine accepts that token kind (it does not in NAME position: `f2_counterexample`). -/
theorem err_viable_lexical (o : VOpts) (r : Bytes) (n : Nat) (e : Err) (h : lexer o r = some (n, e)) (he : e ≠ .ok) :
    ∃ ext m, lexer o (r.take n ++ ext) = some (m, .ok) ∧ n ≤ m :=
  lexical_completion o r n e h he

example : lexer {} [0x6e, 0x75, 0x6c, 0x7d] = some (3, .invalidChar) ∧ lexer {} [0x31, 0x2e, 0x78] = some (2, .invalidChar) ∧
    lexer {} [0x22, 0x61, 0x5c, 0x78] = some (2, .invalidEscape) := by decide

example : (reads {} 3 {} [0x7b, 0x22, 0x61, 0x22, 0x3a, 0x5b, 0x5d] 0).map (fun x => (x.2.1, stackDepth x.1.m, stackIndex x.1.m 1)) =
    some (6, 2, some (0x7b, 2)) := by decide

end Positions

end JsonV.Props.C16
