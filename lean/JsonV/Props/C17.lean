/-
C17 — User-defined (un)marshalers are dispatched and policed as documented.

Property theorems only; the model is `Model/Dispatch.lean` (composition of the wrappers of
`makeMethodArshaler` and `typedArshalers.lookup` in the order the Go code builds them, the
`DepthLength` policing, levels = how the value is reached), the helper lemmas are in
`Lemmas/DispatchL.lean` and `Lemmas/DispatchPolice.lean`.  The model is tied to the code by the
correspondence check of harness/c17.go (family `disp`) over the whole grid.
-/
import JsonV.Model.Dispatch
import JsonV.Lemmas.DispatchL
import JsonV.Lemmas.DispatchPolice

namespace JsonV.Props.C17
open JsonV.Model JsonV.Model.Dispatch JsonV.Lemmas.DispatchL JsonV.Lemmas.DispatchPolice

/-! ### Dispatch order -/

/-- `dispatch_order` (marshal).  Under default options, for EVERY method set, every list of caller-supplied
functions (any length), every behaviour of the user code, every way the value is reached and every coder state:
what the composed wrappers do (call trace and result) is exactly "first applicable in the documented order". -/
theorem dispatch_order_marshal (maxDepth : Nat) (ms : MethodSet) (fns : List FnSpec) (beh : Behav)
    (levels : List Level) (i : Nat) (m : Machine) :
    marshalLevels maxDepth ms fns beh false levels i m = documentedMarshal maxDepth ms fns beh levels i m :=
  marshalLevels_eq_documented maxDepth ms fns beh levels i m

/-- `dispatch_order` (unmarshal). -/
theorem dispatch_order_unmarshal (maxDepth : Nat) (ms : UMethodSet) (fns : List FnSpec) (beh : Behav)
    (levels : List Level) (i : Nat) (m : Machine) :
    unmarshalLevels maxDepth ms fns beh false levels i m = documentedUnmarshal maxDepth ms fns beh levels i m :=
  unmarshalLevels_eq_documented maxDepth ms fns beh levels i m

/-- One level of the above, for the function list alone: `typedArshalers.lookup` calls the castable functions in
list order, stops at the first that may not skip, and otherwise continues with the type's own arshaler —
for lists of any length, under any options. -/
theorem lookup_order (fns : List FnSpec) (isBase implI : Bool) (beh : Behav) (fnc : Arshaler) (ctx : Ctx) :
    lookup fns isBase implI beh fnc ctx = documentedFns isBase implI beh ctx.lvl ctx.m (fnc ctx) fns :=
  lookup_eq fns isBase implI beh fnc ctx

/-- The method wrappers alone: later wrapping = higher precedence gives MarshalerTo, Marshaler, TextAppender,
TextMarshaler, then whatever was there before — for all 81 method sets. -/
theorem method_order_marshal (ms : MethodSet) (beh : Behav) (fncs : Arshaler) (ctx : Ctx) (h : ctx.legacy = false) :
    makeMethodMarshaler .named ms beh fncs ctx = documentedMethodsM ms beh ctx.lvl ctx.m (fncs ctx) :=
  makeMethodMarshaler_named ms beh fncs ctx h

theorem method_order_unmarshal (ms : UMethodSet) (beh : Behav) (fncs : Arshaler) (ctx : Ctx) (h : ctx.legacy = false) :
    makeMethodUnmarshaler .named ms beh fncs ctx =
      documentedMethodsU ms beh ctx.lvl ctx.m ctx.inNull ctx.inStr (fncs ctx) :=
  makeMethodUnmarshaler_named ms beh fncs ctx h

/-- The statement is not vacuous: a type with a pointer-receiver MarshalJSONTo that declines and a value-receiver
MarshalJSON, reached as a struct field, with a list of three functions of which the second matches and declines. -/
example :
    let ms : MethodSet := { to := .pointer, js := .value }
    let fns : List FnSpec := [⟨0, .other, true⟩, ⟨1, .ptr, true⟩, ⟨2, .val, false⟩]
    let beh : Behav := fun c _ => match c with
      | .fn 1 _ => .skip | .fn 2 _ => .skip | .meth .to _ => .skip | _ => .done
    let levels : List Level := [{ kind := .cont, pre := [.pushO, .str] }, { kind := .base, forcedAddr := true }]
    marshalLevels 10000 ms fns beh false levels 0 Machine.init = ⟨[.fn 1 1, .fn 2 1], .err⟩ ∧
    marshalLevels 10000 ms (fns.take 2) beh false levels 0 Machine.init =
      ⟨[.fn 1 1, .meth .to 1, .meth .js 1], .ok (.cand (.meth .js 1))⟩ := by decide

/-! ### Pointer receivers: addressable and non-addressable values alike -/

/-- Under default options the outcome does not depend on whether the value is addressable only through a
forced copy (top-level values, map values, elements of non-addressable arrays, values in interfaces). -/
theorem addressability_irrelevant (maxDepth : Nat) (ms : MethodSet) (fns : List FnSpec) (beh : Behav) (b : Bool)
    (levels : List Level) (i : Nat) (m : Machine) :
    marshalLevels maxDepth ms fns beh false (levels.map (setForced b)) i m =
      marshalLevels maxDepth ms fns beh false levels i m := by
  rw [dispatch_order_marshal, dispatch_order_marshal, documentedMarshal_forced]

/-- …whereas with `CallMethodsWithLegacySemantics` it does (so the hypothesis "default options" is used). -/
example :
    let ms : MethodSet := { js := .pointer }
    let beh : Behav := fun _ _ => .done
    marshalLevels 10000 ms [] beh true [{ kind := .base, forcedAddr := true }] 0 Machine.init = ⟨[], .ok (.dflt 0)⟩ ∧
    marshalLevels 10000 ms [] beh true [{ kind := .base, forcedAddr := false }] 0 Machine.init =
      ⟨[.meth .js 0], .ok (.cand (.meth .js 0))⟩ := by decide

/-! ### Never on a nil pointer -/

/-- `no_nil_receiver`.  Under ANY options: every method invocation in the trace happens at a level that is the
type `T` itself (whose receiver is the address of an addressable value, hence non-nil), never at a pointer or
interface level. -/
theorem no_nil_receiver (maxDepth : Nat) (ms : MethodSet) (fns : List FnSpec) (beh : Behav) (legacy : Bool)
    (levels : List Level) (m : Machine) (k : Meth) (l : Nat)
    (h : Cand.meth k l ∈ (marshalLevels maxDepth ms fns beh legacy levels 0 m).trace) :
    ∃ lv, levels[l]? = some lv ∧ lv.kind = .base := by
  obtain ⟨_, lv, hlv, hb⟩ := marshal_methods_at_base maxDepth ms fns beh legacy levels 0 m _ h k l rfl
  exact ⟨lv, by simpa using hlv, hb⟩

/-- `no_nil_receiver` (unmarshal): UnmarshalJSONFrom/UnmarshalJSON/UnmarshalText are only ever invoked at the level of
`T` itself — after the pointer arshaler has allocated a nil pointer — never on a pointer or interface level. -/
theorem no_nil_receiver_unmarshal (maxDepth : Nat) (ms : UMethodSet) (fns : List FnSpec) (beh : Behav) (legacy : Bool)
    (levels : List Level) (m : Machine) (k : Meth) (l : Nat)
    (h : Cand.meth k l ∈ (unmarshalLevels maxDepth ms fns beh legacy levels 0 m).trace) :
    ∃ lv, levels[l]? = some lv ∧ lv.kind = .base := by
  obtain ⟨_, lv, hlv, hb⟩ := unmarshal_methods_at_base maxDepth ms fns beh legacy levels 0 m _ h k l rfl
  exact ⟨lv, by simpa using hlv, hb⟩

/-- The hypothesis is satisfiable: behind a non-nil pointer the pointer-receiver method IS called (at level 1, the
type itself); behind a nil pointer nothing is called and the result is null. -/
example :
    let ms : MethodSet := { js := .pointer }
    let beh : Behav := fun _ _ => .done
    marshalLevels 10000 ms [] beh false [{ kind := .ptr }, { kind := .base }] 0 Machine.init =
      ⟨[.meth .js 1], .ok (.cand (.meth .js 1))⟩ ∧
    marshalLevels 10000 ms [] beh false [{ kind := .ptr, isNil := true }, { kind := .base }] 0 Machine.init =
      ⟨[], .ok (.null 0)⟩ := by decide

/-- A nil pointer or nil interface ends the descent: nothing below it is looked up or called, and (unless a
caller-supplied function on `any` takes the pointer itself) the result is `null`. -/
theorem nil_stops (maxDepth : Nat) (ms : MethodSet) (fns : List FnSpec) (beh : Behav) (legacy : Bool)
    (l : Level) (rest rest' : List Level) (i : Nat) (m : Machine)
    (hk : l.kind = .ptr ∨ l.kind = .iface) (hn : l.isNil = true) :
    marshalLevels maxDepth ms fns beh legacy (l :: rest) i m = marshalLevels maxDepth ms fns beh legacy (l :: rest') i m := by
  unfold marshalLevels
  rcases hk with hk | hk <;> simp only [hk, hn, ↓reduceIte]

theorem nil_is_null (maxDepth : Nat) (ms : MethodSet) (beh : Behav) (legacy : Bool)
    (l : Level) (rest : List Level) (i : Nat) (m : Machine)
    (hk : l.kind = .ptr ∨ l.kind = .iface) (hn : l.isNil = true) (hname : m.last.needObjectName = false) :
    marshalLevels maxDepth ms [] beh legacy (l :: rest) i m = ⟨[], .ok (.null i)⟩ := by
  unfold marshalLevels
  rcases hk with hk | hk <;>
    simp [hk, hn, hname, lookup, collect, Level.tkind, makeMethodMarshaler]

/-! ### Falling through -/

/-- `fallthrough` (functions).  In a list of any length: the functions before `f` do not apply, `f` applies, may skip,
and returns ErrUnsupported without having used the coder (`skip`): then `f` is recorded and the outcome is that of
the rest of the list. -/
theorem fallthrough_fn (pre post : List FnSpec) (f : FnSpec) (isBase implI : Bool) (beh : Behav) (fnc : Arshaler) (ctx : Ctx)
    (hpre : ∀ g ∈ pre, castableTo isBase implI g.target = false)
    (hf : castableTo isBase implI f.target = true) (hskip : f.maySkip = true)
    (hb : beh (.fn f.id ctx.lvl) ctx.m = .skip) :
    lookup (pre ++ f :: post) isBase implI beh fnc ctx = (lookup post isBase implI beh fnc ctx).after (.fn f.id ctx.lvl) := by
  rw [lookup_eq, lookup_eq]
  induction pre with
  | nil => simp [documentedFns, hf, hskip, hb]
  | cons g gs ih =>
    have hg := hpre g (by simp)
    simp only [List.cons_append, documentedFns, hg, Bool.not_false, ↓reduceIte]
    exact ih (fun x hx => hpre x (by simp [hx]))

/-- `fallthrough` (MarshalJSONTo): a declining MarshalJSONTo is recorded and the outcome is that of the same type
without it. -/
theorem fallthrough_to (ms : MethodSet) (beh : Behav) (fncs : Arshaler) (ctx : Ctx) (hl : ctx.legacy = false)
    (hp : ms.to.present = true) (hb : beh (.meth .to ctx.lvl) ctx.m = .skip) :
    makeMethodMarshaler .named ms beh fncs ctx =
      (makeMethodMarshaler .named { ms with to := .absent } beh fncs ctx).after (.meth .to ctx.lvl) := by
  rw [method_order_marshal _ _ _ _ hl, method_order_marshal _ _ _ _ hl]
  simp only [documentedMethodsM]
  rw [tryMeth_skip _ _ _ _ _ _ hp hb, tryMeth_absent]

theorem fallthrough_from (ms : UMethodSet) (beh : Behav) (fncs : Arshaler) (ctx : Ctx) (hl : ctx.legacy = false)
    (hp : ms.frm.present = true) (hb : beh (.meth .frm ctx.lvl) ctx.m = .skip) :
    makeMethodUnmarshaler .named ms beh fncs ctx =
      (makeMethodUnmarshaler .named { ms with frm := .absent } beh fncs ctx).after (.meth .frm ctx.lvl) := by
  rw [method_order_unmarshal _ _ _ _ hl, method_order_unmarshal _ _ _ _ hl]
  simp only [documentedMethodsU]
  rw [tryMeth_skip _ _ _ _ _ _ hp hb, tryMeth_absent]

/-- Only MarshalerTo/UnmarshalerFrom (and the *To/*From functions) may decline: a Marshaler, TextAppender or
TextMarshaler that returns ErrUnsupported is an error, the next candidate is NOT tried. -/
theorem no_fallthrough_js (ms : MethodSet) (beh : Behav) (fncs : Arshaler) (ctx : Ctx) (hl : ctx.legacy = false)
    (h0 : ms.to = .absent) (hp : ms.js.present = true) (hb : beh (.meth .js ctx.lvl) ctx.m = .skip) :
    makeMethodMarshaler .named ms beh fncs ctx = .failed (.meth .js ctx.lvl) := by
  rw [method_order_marshal _ _ _ _ hl]
  simp only [documentedMethodsM, h0]
  rw [tryMeth_absent]
  simp [tryMeth, hp, hb]

/-! ### Policing: exactly one JSON value -/

/-- The call is accepted iff the user returned nil and afterwards the depth is unchanged and the length grew by one. -/
theorem policing_done (prev cur : Nat × Nat) (ret : Ret) :
    police prev cur ret = .done ↔ ret = .nil ∧ cur.1 = prev.1 ∧ cur.2 = prev.2 + 1 := police_done_iff prev cur ret

/-- ErrUnsupported falls through iff the coder's (depth, length) is untouched; otherwise it is an error. -/
theorem policing_skip (prev cur : Nat × Nat) (ret : Ret) :
    police prev cur ret = .skip ↔ ret = .unsupported ∧ cur = prev := police_skip_iff prev cur ret

/-- A plain error, or an error reported by the coder to the user code, is never swallowed. -/
theorem policing_error (maxDepth : Nat) (m : Machine) (script : List Op) (ret : Ret)
    (h : ret = .other ∨ (runPoliced maxDepth m.stack.length script m).2.isSome = true) :
    userCall maxDepth m script ret ≠ .done := by
  rcases h with h | h
  · subst h; simp [userCall, userCallWithFloor, police]
  · rw [userCall_error _ _ _ _ h]; simp

/-- `no_pop_below_floor`.  Key invariant of the floor (jsontext/state.go `Floor`, raised by the four call sites to
`len(Tokens.Stack)`): for EVERY script, every machine reached while user code runs still has all the containers that
were open when the call began — whether or not the script ends in an error. -/
theorem no_pop_below_floor (maxDepth floor : Nat) (script : List Op) (m : Machine) (h : floor ≤ m.stack.length) :
    floor ≤ (runPoliced maxDepth floor script m).1.stack.length :=
  JsonV.Lemmas.DispatchPolice.no_pop_below_floor maxDepth floor script m h

/-- `exactly_one_value`, UNRESTRICTED (this was the false `exactly_one_value_full` before the fix a29e0ae).
For EVERY state of `Model.State.Machine` and EVERY script of coder calls run under the floor of the call
(as `userCall` does) that the coder accepted: the script has a shape (it cannot have closed a container it did not
open), and the DepthLength comparison accepts (depth unchanged, length + 1) iff the script ended at its starting
level (`r = 0`) having begun exactly one value there (`c = 1`) — i.e. iff it wrote/read exactly one complete JSON value.
(`hov`: the 61-bit element counter of the starting level does not wrap.) -/
theorem exactly_one_value (maxDepth : Nat) (m m' : Machine) (script : List Op)
    (hrun : runPoliced maxDepth m.stack.length script m = (m', none))
    (hov : m.last.length + script.length < 2 ^ 61) :
    ∃ r c, shape script 0 0 = some (r, c) ∧
      ((m'.depthLength = (m.depthLength.1, m.depthLength.2 + 1)) ↔ (r = 0 ∧ c = 1)) := by
  obtain ⟨r, c, hshape, ht⟩ := runPoliced_tracks maxDepth m script m m' 0 0 (tracks_init m) (by omega) hrun
  refine ⟨r, c, hshape, ?_⟩
  obtain ⟨hd, hlen⟩ := tracks_depthLength m m' r c ht
  simp only [Machine.depthLength, Prod.mk.injEq]
  constructor
  · rintro ⟨h1, h2⟩
    have hr : r = 0 := by omega
    exact ⟨hr, by have := hlen hr; omega⟩
  · rintro ⟨hr, hc⟩
    subst hr hc
    exact ⟨by omega, hlen rfl⟩

/-- The policed call as a whole, no side conditions on the script: a nil-returning user function is accepted
iff every one of its calls was accepted by the coder AND together they are exactly one complete value at the
starting level.  Zero values, two values, an unfinished container, and closing the enclosing container and
re-opening another one are all rejected. -/
theorem exactly_one_value_full (maxDepth : Nat) (m : Machine) (script : List Op)
    (hov : m.last.length + script.length < 2 ^ 61) :
    userCall maxDepth m script .nil = .done ↔
      ((runPoliced maxDepth m.stack.length script m).2 = none ∧ shape script 0 0 = some (0, 1)) := by
  cases hrun : runPoliced maxDepth m.stack.length script m with
  | mk m' e =>
    cases e with
    | some e =>
      have : userCall maxDepth m script .nil = .fail := userCall_error _ _ _ _ (by simp [hrun])
      simp [this]
    | none =>
      obtain ⟨r, c, hshape, hiff⟩ := exactly_one_value maxDepth m m' script hrun hov
      simp only [userCall, userCallWithFloor, hrun, Option.isSome_none, Bool.false_eq_true, ↓reduceIte,
        police_done_iff, true_and, hshape, Option.some.injEq, Prod.mk.injEq]
      simp only [Machine.depthLength, Prod.mk.injEq] at hiff
      exact hiff

/-- ErrUnsupported after ANY accepted mutating call is an error: it falls through only when the script as a whole
is empty of effect (no value begun, back at the starting level). -/
theorem unsupported_after_use (maxDepth : Nat) (m m' : Machine) (script : List Op)
    (hrun : runPoliced maxDepth m.stack.length script m = (m', none))
    (hov : m.last.length + script.length < 2 ^ 61) :
    userCall maxDepth m script .unsupported = .skip ↔ shape script 0 0 = some (0, 0) := by
  obtain ⟨r, c, hshape, ht⟩ := runPoliced_tracks maxDepth m script m m' 0 0 (tracks_init m) (by omega) hrun
  obtain ⟨hd, hlen⟩ := tracks_depthLength m m' r c ht
  simp only [userCall, userCallWithFloor, hrun, Option.isSome_none, Bool.false_eq_true, ↓reduceIte, police_skip_iff,
    true_and, Machine.depthLength, Prod.mk.injEq, hshape, Option.some.injEq]
  constructor
  · rintro ⟨h1, h2⟩
    have hr : r = 0 := by omega
    exact ⟨hr, by have := hlen hr; omega⟩
  · rintro ⟨hr, hc⟩
    subst hr hc
    exact ⟨by omega, by have := hlen rfl; omega⟩

/-- The hypotheses are satisfiable, with both answers: `{ "a" [ 1 ] }` inside an array is one value,
`"x" "y"` is not, and the escape script `] "evil" [ "x"` is now stopped at its first call. -/
example :
    let m := (runScript 10000 [.pushA] Machine.init).1
    let esc := (runScript 10000 [.pushO, .str, .pushA] Machine.init).1
    (runPoliced 10000 m.stack.length [.pushO, .str, .pushA, .lit, .popA, .popO] m).2 = none ∧
    shape [.pushO, .str, .pushA, .lit, .popA, .popO] 0 0 = some (0, 1) ∧
    userCall 10000 m [.pushO, .str, .pushA, .lit, .popA, .popO] .nil = .done ∧
    shape [.str, .str] 0 0 = some (0, 2) ∧ userCall 10000 m [.str, .str] .nil = .fail ∧
    runPoliced 10000 esc.stack.length [.popA, .str, .pushA, .str] esc = (esc, some .enclosingEnd) ∧
    userCall 10000 esc [.popA, .str, .pushA, .str] .nil = .fail := by decide

/-- The floor is NECESSARY.  With the floor left at 0 (the code before a29e0ae), at a nested position, the script
`]  "evil"  [  "x"` run as the first element of an array that is an object member (`{"F":[` …) is accepted by every
call of the coder and by the DepthLength comparison, although it is not one JSON value (`shape = none`). -/
theorem exactly_one_value_needs_floor :
    ∃ (m : Machine) (script : List Op),
      (runPoliced 10000 0 script m).2 = none ∧ userCallWithFloor 10000 0 m script .nil = .done ∧
      shape script 0 0 = none ∧ m.last.length + script.length < 2 ^ 61 :=
  ⟨(runScript 10000 [.pushO, .str, .pushA] Machine.init).1, [.popA, .str, .pushA, .str], by decide⟩

/-- …and likewise for the object variant `}  {  "x"` at a name position, and the two-level `] ] "evil" [ [ "x"`. -/
theorem needs_floor_variants :
    userCallWithFloor 10000 0 (runScript 10000 [.pushA, .pushO] Machine.init).1 [.popO, .pushO, .str] .nil = .done ∧
    userCall 10000 (runScript 10000 [.pushA, .pushO] Machine.init).1 [.popO, .pushO, .str] .nil = .fail ∧
    userCallWithFloor 10000 0 (runScript 10000 [.pushO, .str, .pushA, .pushA] Machine.init).1
      [.popA, .popA, .str, .pushA, .pushA, .str] .nil = .done ∧
    userCall 10000 (runScript 10000 [.pushO, .str, .pushA, .pushA] Machine.init).1
      [.popA, .popA, .str, .pushA, .pushA, .str] .nil = .fail := by decide

end JsonV.Props.C17
