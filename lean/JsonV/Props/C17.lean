/-
C17 — User-defined (un)marshalers are dispatched and policed as documented.

Property theorems only; the model is `Model/Dispatch.lean` (composition of the wrappers of
`makeMethodArshaler` and `typedArshalers.lookup` in the order the Go code builds them, the
`DepthLength` policing, levels = how the value is reached), the helper lemmas are in
`Lemmas/DispatchL.lean` and `Lemmas/DispatchPolice.lean`.  The model is tied to the code by the
correspondence check of harness/c17.go (family `disp`) over the whole grid.
-/
import JsonV.Model.Dispatch
import JsonV.Lemmas.DispatchL
import JsonV.Lemmas.DispatchPolice
import JsonV.Lemmas.DispatchScope
import JsonV.Lemmas.DispatchLegacy
import JsonV.Props.C19Scope

namespace JsonV.Props.C17
open JsonV.Model JsonV.Model.Dispatch JsonV.Lemmas.DispatchL JsonV.Lemmas.DispatchPolice
open JsonV.Model.Scope JsonV.Lemmas.DispatchScope JsonV.Lemmas.DispatchLegacy

/-! ### Dispatch order -/

/-- `dispatch_order` (marshal).  Under default options, for EVERY method set, every list of caller-supplied
functions (any length), every behaviour of the user code, every way the value is reached and every coder state:
what the composed wrappers do (call trace and result) is exactly "first applicable in the documented order". -/
theorem dispatch_order_marshal (maxDepth : Nat) (ms : MethodSet) (fns : List FnSpec) (beh : Behav)
    (levels : List Level) (i : Nat) (m : Machine) :
    marshalLevels maxDepth ms fns beh false levels i m = documentedMarshal maxDepth ms fns beh levels i m :=
  marshalLevels_eq_documented maxDepth ms fns beh levels i m

/-- `dispatch_order` (unmarshal). -/
theorem dispatch_order_unmarshal (maxDepth : Nat) (ms : UMethodSet) (fns : List FnSpec) (beh : Behav)
    (levels : List Level) (i : Nat) (m : Machine) :
    unmarshalLevels maxDepth ms fns beh false levels i m = documentedUnmarshal maxDepth ms fns beh levels i m :=
  unmarshalLevels_eq_documented maxDepth ms fns beh levels i m

/-- One level of the above, for the function list alone: `typedArshalers.lookup` calls the castable functions in
list order, stops at the first that may not skip, and otherwise continues with the type's own arshaler —
for lists of any length, under any options. -/
theorem lookup_order (fns : List FnSpec) (isBase implI : Bool) (beh : Behav) (fnc : Arshaler) (ctx : Ctx) :
    lookup fns isBase implI beh fnc ctx = documentedFns isBase implI beh ctx.lvl ctx.m (fnc ctx) fns :=
  lookup_eq fns isBase implI beh fnc ctx

/-- The method wrappers alone: later wrapping = higher precedence gives MarshalerTo, Marshaler, TextAppender,
TextMarshaler, then whatever was there before — for all 81 method sets. -/
theorem method_order_marshal (ms : MethodSet) (beh : Behav) (fncs : Arshaler) (ctx : Ctx) (h : ctx.legacy = false) :
    makeMethodMarshaler .named ms beh fncs ctx = documentedMethodsM ms beh ctx.lvl ctx.m (fncs ctx) :=
  makeMethodMarshaler_named ms beh fncs ctx h

theorem method_order_unmarshal (ms : UMethodSet) (beh : Behav) (fncs : Arshaler) (ctx : Ctx) (h : ctx.legacy = false) :
    makeMethodUnmarshaler .named ms beh fncs ctx =
      documentedMethodsU ms beh ctx.lvl ctx.m ctx.inNull ctx.inStr (fncs ctx) :=
  makeMethodUnmarshaler_named ms beh fncs ctx h

/-- The statement is not vacuous: a type with a pointer-receiver MarshalJSONTo that declines and a value-receiver
MarshalJSON, reached as a struct field, with a list of three functions of which the second matches and declines. -/
example :
    let ms : MethodSet := { to := .pointer, js := .value }
    let fns : List FnSpec := [⟨0, .other, true⟩, ⟨1, .ptr, true⟩, ⟨2, .val, false⟩]
    let beh : Behav := fun c _ => match c with
      | .fn 1 _ => .skip | .fn 2 _ => .skip | .meth .to _ => .skip | _ => .done
    let levels : List Level := [{ kind := .cont, pre := [.pushO, .str] }, { kind := .base, forcedAddr := true }]
    marshalLevels 10000 ms fns beh false levels 0 Machine.init = ⟨[.fn 1 1, .fn 2 1], .err⟩ ∧
    marshalLevels 10000 ms (fns.take 2) beh false levels 0 Machine.init =
      ⟨[.fn 1 1, .meth .to 1, .meth .js 1], .ok (.cand (.meth .js 1))⟩ := by decide

/-! ### Pointer receivers: addressable and non-addressable values alike -/

/-- Under default options the outcome does not depend on whether the value is addressable only through a
forced copy (top-level values, map values, elements of non-addressable arrays, values in interfaces). -/
theorem addressability_irrelevant (maxDepth : Nat) (ms : MethodSet) (fns : List FnSpec) (beh : Behav) (b : Bool)
    (levels : List Level) (i : Nat) (m : Machine) :
    marshalLevels maxDepth ms fns beh false (levels.map (setForced b)) i m =
      marshalLevels maxDepth ms fns beh false levels i m := by
  rw [dispatch_order_marshal, dispatch_order_marshal, documentedMarshal_forced]

/-- …whereas with `CallMethodsWithLegacySemantics` it does (so the hypothesis "default options" is used). -/
example :
    let ms : MethodSet := { js := .pointer }
    let beh : Behav := fun _ _ => .done
    marshalLevels 10000 ms [] beh true [{ kind := .base, forcedAddr := true }] 0 Machine.init = ⟨[], .ok (.dflt 0)⟩ ∧
    marshalLevels 10000 ms [] beh true [{ kind := .base, forcedAddr := false }] 0 Machine.init =
      ⟨[.meth .js 0], .ok (.cand (.meth .js 0))⟩ := by decide

/-! ### Never on a nil pointer -/

/-- `no_nil_receiver`.  Under ANY options: every method invocation in the trace happens at a level that is the
type `T` itself (whose receiver is the address of an addressable value, hence non-nil), never at a pointer or
interface level. -/
theorem no_nil_receiver (maxDepth : Nat) (ms : MethodSet) (fns : List FnSpec) (beh : Behav) (legacy : Bool)
    (levels : List Level) (m : Machine) (k : Meth) (l : Nat)
    (h : Cand.meth k l ∈ (marshalLevels maxDepth ms fns beh legacy levels 0 m).trace) :
    ∃ lv, levels[l]? = some lv ∧ lv.kind = .base := by
  obtain ⟨_, lv, hlv, hb⟩ := marshal_methods_at_base maxDepth ms fns beh legacy levels 0 m _ h k l rfl
  exact ⟨lv, by simpa using hlv, hb⟩

/-- `no_nil_receiver` (unmarshal): UnmarshalJSONFrom/UnmarshalJSON/UnmarshalText are only ever invoked at the level of
`T` itself — after the pointer arshaler has allocated a nil pointer — never on a pointer or interface level. -/
theorem no_nil_receiver_unmarshal (maxDepth : Nat) (ms : UMethodSet) (fns : List FnSpec) (beh : Behav) (legacy : Bool)
    (levels : List Level) (m : Machine) (k : Meth) (l : Nat)
    (h : Cand.meth k l ∈ (unmarshalLevels maxDepth ms fns beh legacy levels 0 m).trace) :
    ∃ lv, levels[l]? = some lv ∧ lv.kind = .base := by
  obtain ⟨_, lv, hlv, hb⟩ := unmarshal_methods_at_base maxDepth ms fns beh legacy levels 0 m _ h k l rfl
  exact ⟨lv, by simpa using hlv, hb⟩

/-- The hypothesis is satisfiable: behind a non-nil pointer the pointer-receiver method IS called (at level 1, the
type itself); behind a nil pointer nothing is called and the result is null. -/
example :
    let ms : MethodSet := { js := .pointer }
    let beh : Behav := fun _ _ => .done
    marshalLevels 10000 ms [] beh false [{ kind := .ptr }, { kind := .base }] 0 Machine.init =
      ⟨[.meth .js 1], .ok (.cand (.meth .js 1))⟩ ∧
    marshalLevels 10000 ms [] beh false [{ kind := .ptr, isNil := true }, { kind := .base }] 0 Machine.init =
      ⟨[], .ok (.null 0)⟩ := by decide

/-- A nil pointer or nil interface ends the descent: nothing below it is looked up or called, and (unless a
caller-supplied function on `any` takes the pointer itself) the result is `null`. -/
theorem nil_stops (maxDepth : Nat) (ms : MethodSet) (fns : List FnSpec) (beh : Behav) (legacy : Bool)
    (l : Level) (rest rest' : List Level) (i : Nat) (m : Machine)
    (hk : l.kind = .ptr ∨ l.kind = .iface) (hn : l.isNil = true) :
    marshalLevels maxDepth ms fns beh legacy (l :: rest) i m = marshalLevels maxDepth ms fns beh legacy (l :: rest') i m := by
  unfold marshalLevels
  rcases hk with hk | hk <;> simp only [hk, hn, ↓reduceIte]

theorem nil_is_null (maxDepth : Nat) (ms : MethodSet) (beh : Behav) (legacy : Bool)
    (l : Level) (rest : List Level) (i : Nat) (m : Machine)
    (hk : l.kind = .ptr ∨ l.kind = .iface) (hn : l.isNil = true) (hname : m.last.needObjectName = false) :
    marshalLevels maxDepth ms [] beh legacy (l :: rest) i m = ⟨[], .ok (.null i)⟩ := by
  unfold marshalLevels
  rcases hk with hk | hk <;>
    simp [hk, hn, hname, lookup, collect, Level.tkind, makeMethodMarshaler]

/-! ### Falling through -/

/-- `fallthrough` (functions).  In a list of any length: the functions before `f` do not apply, `f` applies, may skip,
and returns ErrUnsupported without having used the coder (`skip`): then `f` is recorded and the outcome is that of
the rest of the list. -/
theorem fallthrough_fn (pre post : List FnSpec) (f : FnSpec) (isBase implI : Bool) (beh : Behav) (fnc : Arshaler) (ctx : Ctx)
    (hpre : ∀ g ∈ pre, castableTo isBase implI g.target = false)
    (hf : castableTo isBase implI f.target = true) (hskip : f.maySkip = true)
    (hb : beh (.fn f.id ctx.lvl) ctx.m = .skip) :
    lookup (pre ++ f :: post) isBase implI beh fnc ctx = (lookup post isBase implI beh fnc ctx).after (.fn f.id ctx.lvl) := by
  rw [lookup_eq, lookup_eq]
  induction pre with
  | nil => simp [documentedFns, hf, hskip, hb]
  | cons g gs ih =>
    have hg := hpre g (by simp)
    simp only [List.cons_append, documentedFns, hg, Bool.not_false, ↓reduceIte]
    exact ih (fun x hx => hpre x (by simp [hx]))

/-- `fallthrough` (MarshalJSONTo): a declining MarshalJSONTo is recorded and the outcome is that of the same type
without it. -/
theorem fallthrough_to (ms : MethodSet) (beh : Behav) (fncs : Arshaler) (ctx : Ctx) (hl : ctx.legacy = false)
    (hp : ms.to.present = true) (hb : beh (.meth .to ctx.lvl) ctx.m = .skip) :
    makeMethodMarshaler .named ms beh fncs ctx =
      (makeMethodMarshaler .named { ms with to := .absent } beh fncs ctx).after (.meth .to ctx.lvl) := by
  rw [method_order_marshal _ _ _ _ hl, method_order_marshal _ _ _ _ hl]
  simp only [documentedMethodsM]
  rw [tryMeth_skip _ _ _ _ _ _ hp hb, tryMeth_absent]

theorem fallthrough_from (ms : UMethodSet) (beh : Behav) (fncs : Arshaler) (ctx : Ctx) (hl : ctx.legacy = false)
    (hp : ms.frm.present = true) (hb : beh (.meth .frm ctx.lvl) ctx.m = .skip) :
    makeMethodUnmarshaler .named ms beh fncs ctx =
      (makeMethodUnmarshaler .named { ms with frm := .absent } beh fncs ctx).after (.meth .frm ctx.lvl) := by
  rw [method_order_unmarshal _ _ _ _ hl, method_order_unmarshal _ _ _ _ hl]
  simp only [documentedMethodsU]
  rw [tryMeth_skip _ _ _ _ _ _ hp hb, tryMeth_absent]

/-- Only MarshalerTo/UnmarshalerFrom (and the *To/*From functions) may decline: a Marshaler, TextAppender or
TextMarshaler that returns ErrUnsupported is an error, the next candidate is NOT tried. -/
theorem no_fallthrough_js (ms : MethodSet) (beh : Behav) (fncs : Arshaler) (ctx : Ctx) (hl : ctx.legacy = false)
    (h0 : ms.to = .absent) (hp : ms.js.present = true) (hb : beh (.meth .js ctx.lvl) ctx.m = .skip) :
    makeMethodMarshaler .named ms beh fncs ctx = .failed (.meth .js ctx.lvl) := by
  rw [method_order_marshal _ _ _ _ hl]
  simp only [documentedMethodsM, h0]
  rw [tryMeth_absent]
  simp [tryMeth, hp, hb]

/-! ### Policing: exactly one JSON value -/

/-- The call is accepted iff the user returned nil and afterwards the depth is unchanged and the length grew by one. -/
theorem policing_done (prev cur : Nat × Nat) (ret : Ret) :
    police prev cur ret = .done ↔ ret = .nil ∧ cur.1 = prev.1 ∧ cur.2 = prev.2 + 1 := police_done_iff prev cur ret

/-- ErrUnsupported falls through iff the coder's (depth, length) is untouched; otherwise it is an error. -/
theorem policing_skip (prev cur : Nat × Nat) (ret : Ret) :
    police prev cur ret = .skip ↔ ret = .unsupported ∧ cur = prev := police_skip_iff prev cur ret

/-- A plain error, or an error reported by the coder to the user code, is never swallowed. -/
theorem policing_error (maxDepth : Nat) (m : Machine) (script : List Op) (ret : Ret)
    (h : ret = .other ∨ (runPoliced maxDepth m.stack.length script m).2.isSome = true) :
    userCall maxDepth m script ret ≠ .done := by
  rcases h with h | h
  · subst h; simp [userCall, userCallWithFloor, police]
  · rw [userCall_error _ _ _ _ h]; simp

/-- `no_pop_below_floor`.  Key invariant of the floor (jsontext/state.go `Floor`, raised by the four call sites to
`len(Tokens.Stack)`): for EVERY script, every machine reached while user code runs still has all the containers that
were open when the call began — whether or not the script ends in an error. -/
theorem no_pop_below_floor (maxDepth floor : Nat) (script : List Op) (m : Machine) (h : floor ≤ m.stack.length) :
    floor ≤ (runPoliced maxDepth floor script m).1.stack.length :=
  JsonV.Lemmas.DispatchPolice.no_pop_below_floor maxDepth floor script m h

/-- `exactly_one_value`, UNRESTRICTED (this was the false `exactly_one_value_full` before the fix a29e0ae).
For EVERY state of `Model.State.Machine` and EVERY script of coder calls run under the floor of the call
(as `userCall` does) that the coder accepted: the script has a shape (it cannot have closed a container it did not
open), and the DepthLength comparison accepts (depth unchanged, length + 1) iff the script ended at its starting
level (`r = 0`) having begun exactly one value there (`c = 1`) — i.e. iff it wrote/read exactly one complete JSON value.
(`hov`: the 61-bit element counter of the starting level does not wrap.) -/
theorem exactly_one_value (maxDepth : Nat) (m m' : Machine) (script : List Op)
    (hrun : runPoliced maxDepth m.stack.length script m = (m', none))
    (hov : m.last.length + script.length < 2 ^ 61) :
    ∃ r c, shape script 0 0 = some (r, c) ∧
      ((m'.depthLength = (m.depthLength.1, m.depthLength.2 + 1)) ↔ (r = 0 ∧ c = 1)) := by
  obtain ⟨r, c, hshape, ht⟩ := runPoliced_tracks maxDepth m script m m' 0 0 (tracks_init m) (by omega) hrun
  refine ⟨r, c, hshape, ?_⟩
  obtain ⟨hd, hlen⟩ := tracks_depthLength m m' r c ht
  simp only [Machine.depthLength, Prod.mk.injEq]
  constructor
  · rintro ⟨h1, h2⟩
    have hr : r = 0 := by omega
    exact ⟨hr, by have := hlen hr; omega⟩
  · rintro ⟨hr, hc⟩
    subst hr hc
    exact ⟨by omega, hlen rfl⟩

/-- The policed call as a whole, no side conditions on the script: a nil-returning user function is accepted
iff every one of its calls was accepted by the coder AND together they are exactly one complete value at the
starting level.  Zero values, two values, an unfinished container, and closing the enclosing container and
re-opening another one are all rejected. -/
theorem exactly_one_value_full (maxDepth : Nat) (m : Machine) (script : List Op)
    (hov : m.last.length + script.length < 2 ^ 61) :
    userCall maxDepth m script .nil = .done ↔
      ((runPoliced maxDepth m.stack.length script m).2 = none ∧ shape script 0 0 = some (0, 1)) := by
  cases hrun : runPoliced maxDepth m.stack.length script m with
  | mk m' e =>
    cases e with
    | some e =>
      have : userCall maxDepth m script .nil = .fail := userCall_error _ _ _ _ (by simp [hrun])
      simp [this]
    | none =>
      obtain ⟨r, c, hshape, hiff⟩ := exactly_one_value maxDepth m m' script hrun hov
      simp only [userCall, userCallWithFloor, hrun, Option.isSome_none, Bool.false_eq_true, ↓reduceIte,
        police_done_iff, true_and, hshape, Option.some.injEq, Prod.mk.injEq]
      simp only [Machine.depthLength, Prod.mk.injEq] at hiff
      exact hiff

/-- ErrUnsupported after ANY accepted mutating call is an error: it falls through only when the script as a whole
is empty of effect (no value begun, back at the starting level). -/
theorem unsupported_after_use (maxDepth : Nat) (m m' : Machine) (script : List Op)
    (hrun : runPoliced maxDepth m.stack.length script m = (m', none))
    (hov : m.last.length + script.length < 2 ^ 61) :
    userCall maxDepth m script .unsupported = .skip ↔ shape script 0 0 = some (0, 0) := by
  obtain ⟨r, c, hshape, ht⟩ := runPoliced_tracks maxDepth m script m m' 0 0 (tracks_init m) (by omega) hrun
  obtain ⟨hd, hlen⟩ := tracks_depthLength m m' r c ht
  simp only [userCall, userCallWithFloor, hrun, Option.isSome_none, Bool.false_eq_true, ↓reduceIte, police_skip_iff,
    true_and, Machine.depthLength, Prod.mk.injEq, hshape, Option.some.injEq]
  constructor
  · rintro ⟨h1, h2⟩
    have hr : r = 0 := by omega
    exact ⟨hr, by have := hlen hr; omega⟩
  · rintro ⟨hr, hc⟩
    subst hr hc
    exact ⟨by omega, by have := hlen rfl; omega⟩

/-- The hypotheses are satisfiable, with both answers: `{ "a" [ 1 ] }` inside an array is one value,
`"x" "y"` is not, and the escape script `] "evil" [ "x"` is now stopped at its first call. -/
example :
    let m := (runScript 10000 [.pushA] Machine.init).1
    let esc := (runScript 10000 [.pushO, .str, .pushA] Machine.init).1
    (runPoliced 10000 m.stack.length [.pushO, .str, .pushA, .lit, .popA, .popO] m).2 = none ∧
    shape [.pushO, .str, .pushA, .lit, .popA, .popO] 0 0 = some (0, 1) ∧
    userCall 10000 m [.pushO, .str, .pushA, .lit, .popA, .popO] .nil = .done ∧
    shape [.str, .str] 0 0 = some (0, 2) ∧ userCall 10000 m [.str, .str] .nil = .fail ∧
    runPoliced 10000 esc.stack.length [.popA, .str, .pushA, .str] esc = (esc, some .enclosingEnd) ∧
    userCall 10000 esc [.popA, .str, .pushA, .str] .nil = .fail := by decide

/-- The floor is NECESSARY.  With the floor left at 0 (the code before a29e0ae), at a nested position, the script
`]  "evil"  [  "x"` run as the first element of an array that is an object member (`{"F":[` …) is accepted by every
call of the coder and by the DepthLength comparison, although it is not one JSON value (`shape = none`). -/
theorem exactly_one_value_needs_floor :
    ∃ (m : Machine) (script : List Op),
      (runPoliced 10000 0 script m).2 = none ∧ userCallWithFloor 10000 0 m script .nil = .done ∧
      shape script 0 0 = none ∧ m.last.length + script.length < 2 ^ 61 :=
  ⟨(runScript 10000 [.pushO, .str, .pushA] Machine.init).1, [.popA, .str, .pushA, .str], by decide⟩

/-- …and likewise for the object variant `}  {  "x"` at a name position, and the two-level `] ] "evil" [ [ "x"`. -/
theorem needs_floor_variants :
    userCallWithFloor 10000 0 (runScript 10000 [.pushA, .pushO] Machine.init).1 [.popO, .pushO, .str] .nil = .done ∧
    userCall 10000 (runScript 10000 [.pushA, .pushO] Machine.init).1 [.popO, .pushO, .str] .nil = .fail ∧
    userCallWithFloor 10000 0 (runScript 10000 [.pushO, .str, .pushA, .pushA] Machine.init).1
      [.popA, .popA, .str, .pushA, .pushA, .str] .nil = .done ∧
    userCall 10000 (runScript 10000 [.pushO, .str, .pushA, .pushA] Machine.init).1
      [.popA, .popA, .str, .pushA, .pushA, .str] .nil = .fail := by decide

/-! ### options_visible: the options user code observes are the effective options of the call

Built on c19's scope machinery: `Model/Scope.lean` interprets the option-touching statements of the Go code, which are
regenerated from source; `C19Scope.tie_userCalls` says that all four wrappers around user code (MarshalToFunc,
UnmarshalFromFunc, MarshalJSONTo, UnmarshalJSONFrom) are the script `userCallS`, `tie_marshalEncode`/`tie_unmarshalDecode`/
`tie_member_*` the same for the other scripts.  `observe g a s` (Lemmas/DispatchScope) lists the struct that
`enc.Options()`/`dec.Options()` points to at the entry of every user call of the callee tree `a` run on struct `s`. -/

/-- Tie A for this section (restated so that it is audited with C17): the four call sites are `userCallS`. -/
theorem tie_userCalls : Gen.Scope.userCalls =
    [("MarshalToFunc", userCallS), ("UnmarshalFromFunc", userCallS),
     ("makeMethodArshaler", userCallS), ("makeMethodArshaler", userCallS)] := JsonV.Props.C19Scope.tie_userCalls

/-- `options_visible`.  Below one call (no nested call with options of its own in between, `NoCall`), at the entry of
EVERY user call — however deep: in struct members with or without `string`/`format` tags, after siblings that succeeded
or failed non-fatally, inside other user calls — `GetOption` answers exactly as on the struct the call's body started
with, for every option that has a public setter (`PlainKey`; StringifyNumbers: next theorem). -/
theorem options_visible (g : Bool) (a : Act) (hn : NoCall a) (s s' : Struct) (h : s' ∈ observe g a s)
    (k : Key) (hk : PlainKey k) : s'.getOption k = s.getOption k :=
  getOption_sameOff (observe_sameOff g a hn s s' h) k hk

/-- StringifyNumbers is the one documented exception: inside a member tagged `string` it reads as set
("the string option specifies that StringifyNumbers be set"); otherwise as in the call's options. -/
theorem options_visible_stringify (g : Bool) (a : Act) (hn : NoCall a) (s s' : Struct) (h : s' ∈ observe g a s) :
    s'.getOption (.flag F.stringifyNumbers) =
      (if !s'.flags.has F.stringifyNumbers && s'.flags.get F.stringTag then (.bool true, true)
       else (.bool (s.flags.get F.stringifyNumbers), s.flags.has F.stringifyNumbers)) :=
  getOption_stringify (observe_sameOff g a hn s s' h)

/-- A MarshalEncode/UnmarshalDecode call (also one made by user code on the coder it was handed) starts a new scope:
user code below it sees the EFFECTIVE options of that call — the coder's struct joined with the call's options
(`effective`; by `C19Scope.scoped_call_precedence` that is the coder's entries overridden by the call's, last wins). -/
theorem options_visible_call (g mar : Bool) (opts : List Opt) (nn : Bool) (body : Act) (hn : NoCall body)
    (s s0 s' : Struct) (he : effective g mar opts nn s = some s0) (h : s' ∈ observe g (.call mar opts nn body) s)
    (k : Key) (hk : PlainKey k) : s'.getOption k = s0.getOption k := by
  simp only [observe, he] at h
  exact options_visible g body hn s0 s' h k hk

/-- `options_visible`, general form: ANY callee tree — nested MarshalEncode/UnmarshalDecode calls with options included,
to any depth.  Every user call sees, for every option with a public setter, the options its innermost enclosing call
started its body with (`root`: the effective options of that call; for user calls outside any such call, the struct
the tree was started on). -/
theorem options_visible_scoped (g : Bool) (a : Act) (s : Struct) (root seen : Struct)
    (h : (root, seen) ∈ observeS g a s s) (k : Key) (hk : PlainKey k) : seen.getOption k = root.getOption k :=
  getOption_sameOff (observeS_sameOff g a s s (SameOff.refl s) (root, seen) h) k hk

/-- Not vacuous: user code that itself calls MarshalEncode with StringifyNumbers(true) on a value with a method: the
inner user call sees StringifyNumbers set, the outer one does not; both see the coder's Deterministic(true). -/
example :
    let s := newCoder true [.bools (flagBit 19 ||| 1#64)]
    let a : Act := .user (.call true [.bools (flagBit 18 ||| 1#64)] false (.user .skip))
    (observeS false a s s).map (fun p => (p.2.getOption (.flag (flagBit 18)), p.2.getOption (.flag (flagBit 19)))) =
      [((.bool false, false), (.bool true, true)), ((.bool true, true), (.bool true, true))] := by decide

/-- `effective` is the struct the body runs on in c19's closed form of UnmarshalDecode (same for MarshalEncode with
`call_marshal_closed`): the two descriptions of the scope agree. -/
theorem effective_unmarshal (g : Bool) (opts : List Opt) (nn : Bool) (body : Act) (s s0 : Struct)
    (he : effective g false opts nn s = some s0) :
    (exec g (.call false opts nn body) s).2 = (exec g body s0).2 := by
  rw [JsonV.Props.C19Scope.unmarshalDecode_spec]
  unfold effective at he
  split at he
  · rename_i h1; cases he; simp [h1]
  · split at he
    · cases he
    · rename_i h1 h2
      simp only [Bool.false_eq_true, ↓reduceIte, Option.some.injEq, enterUnmarshal] at he
      subst he; simp [h1, h2]

/-- Not vacuous: MarshalEncode with Deterministic(true) on a coder that has Deterministic(false) and Indent; the value is
a struct whose `string`-tagged member has a MarshalJSONTo that itself marshals a value with its own method. -/
example :
    let s := newCoder true [.bools (flagBit 19), .indent [0x20]]
    let body : Act := .seq (.clear .tags) (.member true true [] (.user (.seq (.clear .tags) (.user .skip))))
    (observe false (.call true [.bools (flagBit 19 ||| 1#64)] false body) s).length = 2 ∧
    ∀ s' ∈ observe false (.call true [.bools (flagBit 19 ||| 1#64)] false body) s,
      s'.getOption (.flag (flagBit 19)) = (.bool true, true) ∧ s'.getOption .indent = (.bytes [0x20], true) := by decide

/-! ### reset_panics: the WithinArshalCall protocol as an invariant over call trees

`Reset` panics iff `Flags.Get(WithinArshalCall)` (`resetPanics`).  The flag is set on entry of every user call and, since
0821077, cleared on return only if it was not set on entry (`userCallS`: `saveGet`, `set …|1`, child, `[notSaved] set …|0`). -/

/-- `reset_panics`.  At EVERY moment any user code holds the coder (`userPoints`: on entry and after each thing it
did with the coder, including after nested user calls, nested MarshalEncode/UnmarshalDecode calls with any options,
struct members, failures) `Reset` panics — for every callee tree. -/
theorem reset_panics (g : Bool) (a : Act) (s s' : Struct) (h : s' ∈ userPoints g a s) : resetPanics s' = true :=
  userPoints_resetPanics g a s s' h

/-- …and no callee tree changes the flag for its caller: after the OUTERMOST call has returned, `Reset` works again
on a coder where it worked before (success or failure of anything below notwithstanding); a nested call that
returns leaves it panicking for the enclosing user code. -/
theorem reset_after_return (g : Bool) (a : Act) (s : Struct) : resetPanics (exec g a s).1 = resetPanics s :=
  resetPanics_exec g a s

/-- Not vacuous: an outer user call that runs a nested user call and then still holds the coder. -/
example :
    let a : Act := .user (.seq (.user .skip) .skip)
    (userPoints false a {}).length = 6 ∧ (∀ s' ∈ userPoints false a {}, resetPanics s' = true) ∧
    resetPanics ({} : Struct) = false ∧ resetPanics (exec false a {}).1 = false := by decide

/-! ### cache_indep -/

/-- `cache_indep`.  The per-type arshaler cache and the per-`*Marshalers` function cache are memo tables of a
function of the type alone (`compute`): starting from the empty table, whatever types are looked up in whatever
order (top level first, nested first, repeated), every lookup returns `compute t` — the dispatch result does not
depend on the cache state.  (Instantiate `compute` with `fun t => collect t.isBase t.implI fns` for `fncCache`.)
Tie: harness copies A/B of every method set (visited top-level-first vs nested-first) and the reuse of one
`*Marshalers` per (type, list) over all positions, both checked against the same reference and oracle. -/
theorem cache_indep {κ α : Type} [DecidableEq κ] (compute : κ → α) (ts : List κ) :
    (memoRun compute Memo.empty ts).1 = ts.map compute :=
  (memoRun_spec compute ts Memo.empty (memoOK_empty compute)).1

/-- The same from ANY table that only holds entries made by earlier lookups. -/
theorem cache_indep_from {κ α : Type} [DecidableEq κ] (compute : κ → α) (cache : Memo κ α) (h : MemoOK compute cache)
    (t : κ) : (memoLookup compute cache t).1 = compute t := (memoLookup_spec compute cache t h).1

example : (memoRun (fun t : Bool × Bool => collect t.1 t.2 [⟨0, .iface, true⟩, ⟨1, .val, false⟩]) Memo.empty
    [(true, true), (false, false), (true, true), (true, false)]).1 =
    [[⟨0, .iface, true⟩, ⟨1, .val, false⟩], [], [⟨0, .iface, true⟩, ⟨1, .val, false⟩], [⟨1, .val, false⟩]] := by decide

/-! ### legacy dispatch (`CallMethodsWithLegacySemantics`): the addressability rule as a decision table -/

/-- Which methods are still considered: a pointer-receiver method is dropped for a value addressable only through a
forced copy; where the rule applies (`hideAtName`: MarshalJSONTo/MarshalJSON/UnmarshalJSONFrom/UnmarshalJSON at an
object-name position) the method is dropped whatever its receiver. -/
theorem legacy_decision_table (r : Recv) (forcedAddr hideAtName : Bool) :
    r.legacyVisible forcedAddr hideAtName =
      match r, forcedAddr, hideAtName with
      | .absent, _, _ => .absent
      | _, _, true => .absent
      | .pointer, true, false => .absent
      | .pointer, false, false => .pointer
      | .value, _, false => .value := by
  cases r <;> cases forcedAddr <;> cases hideAtName <;> rfl

/-- Under legacy semantics the four marshal wrappers (`needAddr && va.forcedAddr || NeedObjectName`) are exactly the
documented method order applied to the reduced method set — for all 81 method sets, every coder state and behaviour.
Tie: the harness runs cases with CallMethodsWithLegacySemantics through the same oracle (`corr-dispatch`). -/
theorem legacy_dispatch_marshal (ms : MethodSet) (beh : Behav) (fncs : Arshaler) (ctx : Ctx) (h : ctx.legacy = true) :
    makeMethodMarshaler .named ms beh fncs ctx =
      documentedMethodsM (ms.legacy ctx.forcedAddr ctx.m.last.needObjectName) beh ctx.lvl ctx.m (fncs ctx) :=
  legacy_makeMethodMarshaler ms beh fncs ctx h

/-- Unmarshal: `needAddr` plays no role; only the object-name rule, and not for UnmarshalText. -/
theorem legacy_dispatch_unmarshal (ms : UMethodSet) (beh : Behav) (fncs : Arshaler) (ctx : Ctx) (h : ctx.legacy = true) :
    makeMethodUnmarshaler .named ms beh fncs ctx =
      documentedMethodsU (ms.legacy ctx.m.last.needObjectName) beh ctx.lvl ctx.m ctx.inNull ctx.inStr (fncs ctx) :=
  legacy_makeMethodUnmarshaler ms beh fncs ctx h

/-- The text methods are NOT hidden at an object-name position (map keys keep using them): with a pointer-receiver
MarshalJSON and a value-receiver MarshalText, as a map key, legacy semantics picks MarshalText. -/
example :
    let ms : MethodSet := { js := .pointer, tx := .value }
    ms.legacy true true = { tx := .value } ∧ ms.legacy false false = ms := by decide

end JsonV.Props.C17
