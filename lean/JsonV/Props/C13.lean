/-
C13 — Canonicalize produces the RFC 8785 canonical form.

Property theorems only (proofs live in Lemmas/Cmp*.lean).  This file covers the part of C13 that is
proved for ALL inputs: the member order.  `compareUTF16` (Model/Compare.lean) is the model of
`jsonwire.CompareUTF16`; `utf16`/`lexCmp` (Spec/Utf16Order.lean) is RFC 8785 §3.2.3;
`sortMembers` (Model/Reorder.lean) is the `slices.SortFunc` call of `mustReorderObjectsFromDecoder`.
-/
import JsonV.Model.Compare
import JsonV.Model.Reorder
import JsonV.Spec.Utf16Order
import JsonV.Lemmas.CmpL
import JsonV.Lemmas.CmpSort
import JsonV.Gen.Straight
import JsonV.Model.Canon
import JsonV.Lemmas.CanonForm
import JsonV.Lemmas.CanonParse
import JsonV.Lemmas.CanonRound
import JsonV.Lemmas.CanonLex
import JsonV.Props.C12
import JsonV.Props.C10Glue
import JsonV.Lemmas.CanonIntCodec

namespace JsonV.Props.C13
open JsonV JsonV.Model.Utf8 JsonV.Model.Compare JsonV.Model.Reorder JsonV.Spec.Utf16Order
open JsonV.Lemmas.CmpUtf8 JsonV.Lemmas.CmpLex JsonV.Lemmas.CmpL JsonV.Lemmas.CmpSort

/-! ### Tie A: regenerated helper = hand model -/

theorem tie_isInvalidUTF8 (r : BitVec 32) (rn : BitVec 64) :
    JsonV.Gen.jsonwire_isInvalidUTF8 r rn = isInvalidUTF8 r.toNat rn.toNat := by
  unfold JsonV.Gen.jsonwire_isInvalidUTF8 isInvalidUTF8 runeError
  have e1 : (r == 0xfffd#32) = (r.toNat == 0xFFFD) := by
    rw [Bool.eq_iff_iff]; simp [← BitVec.toNat_inj]
  have e2 : (rn == 0x1#64) = (rn.toNat == 1) := by
    rw [Bool.eq_iff_iff]; simp [← BitVec.toNat_inj]
  rw [e1, e2]

/-! ### The spec comparison is the standard lexicographic order on unit arrays -/

def ordInt : Ordering → Int
  | .lt => -1
  | .eq => 0
  | .gt => 1

theorem lexCmp_compare (a b : List Nat) : lexCmp a b = ordInt (compare a b) := by
  induction a generalizing b with
  | nil => cases b <;> simp [lexCmp, ordInt, List.compare_nil_cons]
  | cons x xs ih =>
    cases b with
    | nil => simp [lexCmp, ordInt, List.compare_cons_nil]
    | cons y ys =>
      rw [List.compare_cons_cons, lexCmp]
      by_cases h1 : x < y
      · have : compare x y = .lt := Nat.compare_eq_lt.mpr h1
        simp [h1, this, Ordering.then, ordInt]
      · by_cases h2 : y < x
        · have : compare x y = .gt := Nat.compare_eq_gt.mpr h2
          simp [h1, h2, this, Ordering.then, ordInt]
        · have : compare x y = .eq := Nat.compare_eq_eq.mpr (by omega)
          simp [h1, h2, this, Ordering.then, ih]

/-! ### CompareUTF16, per rune -/

/-- `rune_order`: for every two Unicode scalar values, the pair of integers that the code compares after
its surrogate switch (wire.go:101-113) is ordered exactly like the UTF-16 encodings of the two values,
and the integers are equal only if the values are. -/
theorem rune_order (r s : Nat) (hr : IsScalar r) (hs : IsScalar s) :
    cmpNat (surrogateKey r s).1 (surrogateKey r s).2 = lexCmp (unitsOfRune r) (unitsOfRune s) ∧
    ((surrogateKey r s).1 = (surrogateKey r s).2 ↔ r = s) :=
  JsonV.Lemmas.CmpL.rune_order r s hr hs

example : IsScalar 0xFFFF ∧ IsScalar 0x10000 ∧ surrogateKey 0xFFFF 0x10000 = (0xFFFF, 0xD800) := by decide

/-! ### CompareUTF16 on whole strings (all lengths) -/

/-- `cmp16_spec`: on well-formed UTF-8 (what `utf8.Valid` accepts) `CompareUTF16` is the lexicographic
comparison of the UTF-16 code-unit arrays (RFC 8785 §3.2.3). -/
theorem cmp16_spec (x y : Bytes) (hx : valid x = true) (hy : valid y = true) :
    compareUTF16 x y = ordInt (compare (utf16 x) (utf16 y)) := by
  rw [← lexCmp_compare]
  obtain ⟨sx, ex⟩ := valid_encode x hx
  obtain ⟨sy, ey⟩ := valid_encode y hy
  unfold compareUTF16 utf16
  have := go_encode (runes x) (runes y) sx sy x.length (by rw [ex]; exact Nat.le_refl _)
  rw [ex, ey] at this
  exact this

/-- The same statement with the well-formed strings given by their scalar values. -/
theorem cmp16_spec_scalars (rs ss : List Nat) (hr : ∀ r ∈ rs, IsScalar r) (hs : ∀ s ∈ ss, IsScalar s) :
    compareUTF16 (encode rs) (encode ss) = lexCmp (units rs) (units ss) :=
  go_encode rs ss hr hs _ (Nat.le_refl _)

/-- U+E000..U+FFFF sort AFTER the supplementary planes (UTF-16 order), although their UTF-8 bytes sort before. -/
example : valid (encode [0xE000]) = true ∧ valid (encode [0x10000]) = true ∧
    compareUTF16 (encode [0xE000]) (encode [0x10000]) = 1 ∧ encode [0xE000] < encode [0x10000] := by decide

/-- `utf16` is injective on well-formed UTF-8. -/
theorem utf16_injective (x y : Bytes) (hx : valid x = true) (hy : valid y = true) (h : utf16 x = utf16 y) : x = y := by
  obtain ⟨sx, ex⟩ := valid_encode x hx
  obtain ⟨sy, ey⟩ := valid_encode y hy
  have := units_inj sx sy h
  rw [← ex, ← ey, this]

/-- The result is always -1, 0 or +1 (arbitrary bytes). -/
theorem cmp16_range (x y : Bytes) : compareUTF16 x y = -1 ∨ compareUTF16 x y = 0 ∨ compareUTF16 x y = 1 :=
  go_range _ _ _

/-- Reflexive on arbitrary bytes (ill-formed UTF-8 included). -/
theorem cmp16_refl (x : Bytes) : compareUTF16 x x = 0 := go_self _ _

/-- Antisymmetric under swapping the arguments, on arbitrary bytes. -/
theorem cmp16_swap (x y : Bytes) : compareUTF16 y x = - compareUTF16 x y := by
  unfold compareUTF16
  rw [go_fuel y.length x.length y x (Or.inl (Nat.le_refl _)) (Or.inr (Nat.le_refl _))]
  exact go_swap _ _ _

/-- Total on arbitrary bytes. -/
theorem cmp16_total (x y : Bytes) : compareUTF16 x y ≤ 0 ∨ compareUTF16 y x ≤ 0 := by
  rw [cmp16_swap x y]
  rcases cmp16_range x y with h | h | h <;> omega

/-- On well-formed UTF-8 only equal strings compare equal. -/
theorem cmp16_antisymm (x y : Bytes) (hx : valid x = true) (hy : valid y = true)
    (h : compareUTF16 x y = 0) : x = y := by
  rw [cmp16_spec x y hx hy, ← lexCmp_compare] at h
  exact utf16_injective x y hx hy (lexCmp_eq_zero.mp h)

/-- Transitive on well-formed UTF-8: with `cmp16_total` and `cmp16_antisymm`, a total order. -/
theorem cmp16_trans (x y z : Bytes) (hx : valid x = true) (hy : valid y = true) (hz : valid z = true)
    (h1 : compareUTF16 x y ≤ 0) (h2 : compareUTF16 y z ≤ 0) : compareUTF16 x z ≤ 0 := by
  rw [cmp16_spec _ _ hx hy, ← lexCmp_compare] at h1
  rw [cmp16_spec _ _ hy hz, ← lexCmp_compare] at h2
  rw [cmp16_spec _ _ hx hz, ← lexCmp_compare]
  exact lexCmp_le_trans h1 h2

example : valid [0x61] = true ∧ valid [0xC3, 0xA9] = true ∧ valid [0xF0, 0x9F, 0x98, 0x80] = true ∧
    compareUTF16 [0x61] [0xC3, 0xA9] ≤ 0 ∧ compareUTF16 [0xC3, 0xA9] [0xF0, 0x9F, 0x98, 0x80] ≤ 0 := by decide

/-- Antisymmetry genuinely needs well-formedness: a truncated sequence compares equal to U+FFFD. -/
example : compareUTF16 [0xEF] [0xEF, 0xBF, 0xBD] = 0 := by decide

/-! ### The member sort of `mustReorderObjectsFromDecoder` (all member lists, all lengths) -/

/-- `reorder_perm`: the reordered members are a permutation of the parsed members. -/
theorem reorder_perm (ms : List Member) : (reorder ms).Perm ms := by
  unfold reorder
  split
  · exact List.Perm.refl _
  · exact sortMembers_perm ms

/-- `reorder_sorted`: in the output every earlier member is ≤ every later one under `objectMember.Compare`,
and in particular the names are non-decreasing in the RFC 8785 order (UTF-16 code units of the unescaped names). -/
theorem reorder_sorted (ms : List Member) (hv : ∀ m ∈ ms, WF m) :
    (reorder ms).Pairwise (fun a b => memberCompare a b ≤ 0) ∧
    (reorder ms).Pairwise (fun a b => lexCmp (utf16 a.name) (utf16 b.name) ≤ 0) := by
  rw [reorder_eq_sort ms hv]
  have p := sortMembers_pairwise ms hv
  refine ⟨p, List.Pairwise.imp_of_mem ?_ p⟩
  intro a b ha hb h
  have wa := hv a (mem_sortMembers.mp ha)
  have wb := hv b (mem_sortMembers.mp hb)
  rw [← compareUTF16_lex _ _ wa.1 wb.1]
  exact memberCompare_name a b h

/-- With duplicate-free names (what I-JSON requires) the output names are STRICTLY increasing. -/
theorem reorder_strict (ms : List Member) (hv : ∀ m ∈ ms, WF m) (hd : (ms.map (·.name)).Nodup) :
    (reorder ms).Pairwise (fun a b => lexCmp (utf16 a.name) (utf16 b.name) < 0) := by
  have p := (reorder_sorted ms hv).2
  have perm := reorder_perm ms
  have nd : ((reorder ms).map (·.name)).Nodup := (perm.map (·.name)).nodup_iff.mpr hd
  have nd' : (reorder ms).Pairwise (fun a b => a.name ≠ b.name) := by
    unfold List.Nodup at nd
    rw [List.pairwise_map] at nd
    exact nd
  refine List.Pairwise.imp_of_mem ?_ (p.and nd')
  intro a b ha hb h
  have wa := hv a (perm.mem_iff.mp ha)
  have wb := hv b (perm.mem_iff.mp hb)
  have ne : lexCmp (utf16 a.name) (utf16 b.name) ≠ 0 := by
    intro z
    exact h.2 (utf16_injective _ _ wa.1 wb.1 (lexCmp_eq_zero.mp z))
  have := h.1
  omega

/-- `reorder_unique`: for duplicate-free names the result depends only on the SET of members, not on the order
in which they were written: any permutation of the input is reordered to the same list. -/
theorem reorder_unique (ms ms' : List Member) (hv : ∀ m ∈ ms, WF m) (hd : (ms.map (·.name)).Nodup)
    (hp : ms'.Perm ms) : reorder ms' = reorder ms := by
  have hv' : ∀ m ∈ ms', WF m := fun m h => hv m (hp.mem_iff.mp h)
  rw [reorder_eq_sort ms hv, reorder_eq_sort ms' hv']
  exact sortMembers_unique ms ms' hv hd hp

/-- The hypotheses are satisfiable, and the sort really moves members: `{"\uE000":1,"😀":2}` (U+E000 before
U+1F600 in UTF-8 byte order) is reordered so that U+1F600 (units D83D DE00) comes first. -/
example :
    let a : Member := ⟨[0xEE, 0x80, 0x80], [0x22, 0x5C, 0x75, 0x45, 0x30, 0x30, 0x30, 0x22, 0x3A, 0x31]⟩
    let b : Member := ⟨[0xF0, 0x9F, 0x98, 0x80], [0x2C, 0x22, 0xF0, 0x9F, 0x98, 0x80, 0x22, 0x3A, 0x32]⟩
    WF a ∧ WF b ∧ ([a, b].map (·.name)).Nodup ∧ isSorted [a, b] = false ∧ isSorted [b, a] = true ∧
      memberLe b a = true ∧ memberLe a b = false := by
  refine ⟨⟨by decide, by decide⟩, ⟨by decide, by decide⟩, by decide, by decide, by decide, by decide, by decide⟩

/-! ## Value.Canonicalize as a whole (model: Model/Canon.lean, tied by the `cmp canon` correspondence)

`canonicalize fp b` = tokenize (C12) → parse into a tree → `strict` (I-JSON) → `respell` every literal →
`sortTree` (the reordering above, innermost objects first) → compact rendering (C12).  `fp : FloatCodec` is the
parameter standing for strconv.ParseFloat and strconv's shortest digits; the structure carries no laws, each
theorem names the law it needs as a hypothesis.  All statements are for ALL byte strings / ALL trees. -/

section Canonicalize
open JsonV.Canon JsonV.Model.Quote JsonV.Spec.StringSpec
open JsonV.Fmt
open JsonV.Lemmas.CanonTree JsonV.Lemmas.CanonAtom JsonV.Lemmas.CanonSort JsonV.Lemmas.CanonForm JsonV.Lemmas.CanonParse
open JsonV.Lemmas.CanonRound JsonV.Lemmas.CanonLex JsonV.Lemmas.CanonNest
open JsonV.Props.C10Glue JsonV.Lemmas.NumFloat JsonV.Lemmas.NumReformat

/-- What a successful call returns: the compact rendering of the canonical tree of a strict input. -/
theorem canonicalize_eq_some (fp : FloatCodec) (b c : Bytes) :
    canonicalize fp b = some c ↔ ∃ t, parseText b = some t ∧ strict t = true ∧ c = renderCompact (canonTree fp t).toks := by
  unfold canonicalize
  cases hp : parseText b with
  | none => simp
  | some t =>
    by_cases hs : strict t = true
    · simp only [hs, if_true, Option.some.injEq]
      constructor
      · intro h; exact ⟨t, rfl, hs, h.symm⟩
      · rintro ⟨t', e, _, rfl⟩; cases e; rfl
    · simp only [hs, Bool.false_eq_true, if_false]
      constructor
      · intro h; cases h
      · rintro ⟨t', e, hs', _⟩; cases e; exact absurd hs' hs

/-- `canon_sorted`: in the canonical tree the members of every object, at every depth, are strictly increasing in
the UTF-16 code-unit order of their unescaped names. -/
theorem canon_sorted (fp : FloatCodec) (t : JV) (h : strict t = true) : SortedT (canonTree fp t) :=
  (good_sortTree _ (namesOK_respell fp t h)).1

/-- `canon_strings_minimal`: every string literal of the output (member names included) is the RFC 8785 §3.2.2.2
serialisation `canonQuote` of the text of an input literal, that text is well-formed UTF-8, and the output literal
unquotes to exactly that text (so it is `canonQuote` of its own meaning). -/
theorem canon_strings_minimal (fp : FloatCodec) (t : JV) (h : strict t = true) (r : Bytes)
    (hr : Tok.str r ∈ (canonTree fp t).toks) :
    ∃ lit, Tok.str lit ∈ t.toks ∧ r = canonQuote (unq lit) ∧ valid (unq lit) = true ∧
      appendUnquote r = (unq lit, Err.ok) ∧ r = canonQuote (appendUnquote r).1 := by
  have hm := (toks_canonTree fp t).mem_iff.mp hr
  obtain ⟨k, hk, e⟩ := List.mem_map.mp hm
  cases k with
  | str lit =>
    simp only [canonAtom, Tok.str.injEq] at e
    have ok := strict_toks t h lit hk
    subst e
    refine ⟨lit, hk, canonStr_minimal lit, ((strOK_iff lit).mp ok).2, unquote_canonStr lit ok, ?_⟩
    rw [unquote_canonStr lit ok]; exact canonStr_minimal lit
  | num _ => simp [canonAtom] at e
  | bo => simp [canonAtom] at e
  | eo => simp [canonAtom] at e
  | ba => simp [canonAtom] at e
  | ea => simp [canonAtom] at e
  | null => simp [canonAtom] at e
  | tru => simp [canonAtom] at e
  | fls => simp [canonAtom] at e

/-! #### numbers: one definition, C10's

The number step of the model IS slice C10's model of `jsonwire.ReformatNumber` with both canonicalize flags set
(`canonNum` unfolds to it by `rfl`; there is no second copy of the `n < 16` shortcut), and `shortInt` is C10's
`verbatimB true true` (`verbatimB_on`).  Everything C13 says about numbers is a corollary of C10's
`reformat_cases` / `reformat_number_spec` / `reformat_canonical` / `reformat_idempotent`. -/

theorem canonNum_is_reformat (fp : FloatCodec) (lit : Bytes) :
    canonNum fp lit = JsonV.Model.Number.reformatNumber fp.parse fp.append true true lit := rfl

/-- C10's closed form at `ci = cf = true`. -/
theorem canonNum_cases (fp : FloatCodec) (lit : Bytes) :
    canonNum fp lit = if shortInt lit then lit else fp.append (numValue fp lit) := by
  rw [canonNum_is_reformat, reformat_cases, verbatimB_on]

/-- A valid number token is a number of the grammar (C12's `scanNum_iff'`). -/
theorem jnumber_of_valid (lit : Bytes) (h : (Tok.num lit).valid = true) : JsonV.Spec.Grammar.JNumber lit := by
  simp only [Tok.valid, beq_iff_eq] at h
  exact (scanNum_iff' lit).1 h

/-- C10's `reformat_number_spec`: a canonicalized number token is a number token again. -/
theorem canonNum_valid (fp : FloatCodec) (hw : ∀ f, WFD (fp.shortest f).1 (fp.shortest f).2) (lit : Bytes)
    (h : (Tok.num lit).valid = true) : (Tok.num (canonNum fp lit)).valid = true :=
  (reformat_number_spec fp hw true true lit (jnumber_of_valid lit h)).2.1

/-- `canon_numbers_ecma`: every number literal of the output comes from an input literal `lit` and is the
ECMA-262 Number::toString layout of the shortest decimal of `numValue fp lit` (ParseFloat, −0 → 0, ±Inf → ±MaxFloat64)
— except that an integer literal of fewer than 16 characters (other than `-0`) is copied verbatim (the shortcut of
`ReformatNumber`; that such a literal is already its own ECMAScript form is an IEEE-754 fact, validated only).
The only law used: the digit generator returns well-formed decompositions. -/
theorem canon_numbers_ecma (fp : FloatCodec)
    (hfp : ∀ f, JsonV.Lemmas.NumFloat.WFD (fp.shortest f).1 (fp.shortest f).2)
    (t : JV) (r : Bytes) (hr : Tok.num r ∈ (canonTree fp t).toks) :
    ∃ lit, Tok.num lit ∈ t.toks ∧
      ((shortInt lit = true ∧ r = lit) ∨
       (shortInt lit = false ∧
         r = JsonV.Spec.Ecma.numberToString (numValue fp lit).neg (fp.shortest (numValue fp lit)).1
               (fp.shortest (numValue fp lit)).2)) := by
  have hm := (toks_canonTree fp t).mem_iff.mp hr
  obtain ⟨k, hk, e⟩ := List.mem_map.mp hm
  cases k with
  | num lit =>
    simp only [canonAtom, Tok.num.injEq] at e
    refine ⟨lit, hk, ?_⟩
    rw [canonNum_cases] at e
    by_cases hs : shortInt lit = true
    · rw [if_pos hs] at e; exact Or.inl ⟨hs, e.symm⟩
    · rw [if_neg hs] at e
      exact Or.inr ⟨by simpa using hs, by rw [← e, append_ecma fp _ (hfp _)]⟩
  | str _ => simp [canonAtom] at e
  | bo => simp [canonAtom] at e
  | eo => simp [canonAtom] at e
  | ba => simp [canonAtom] at e
  | ea => simp [canonAtom] at e
  | null => simp [canonAtom] at e
  | tru => simp [canonAtom] at e
  | fls => simp [canonAtom] at e

/-- `canon_idem` (tree level): the canonical tree is strict again and is its own canonical tree.  The float
parameter enters only through C10's `CodecLaws` (well-formed shortest digits; the canonical spelling of a value
reads back as that value), from which C10's `reformat_idempotent` gives that a canonical number literal is
re-spelled as itself. -/
theorem canon_tree_idem (fp : FloatCodec) (hc : CodecLaws fp) (t : JV) (h : strict t = true) :
    strict (canonTree fp t) = true ∧ canonTree fp (canonTree fp t) = canonTree fp t := by
  have hn : ∀ lit, canonNum fp (canonNum fp lit) = canonNum fp lit :=
    fun lit => reformat_idempotent fp hc true true lit
  have good := good_sortTree _ (namesOK_respell fp t h)
  have perm := toks_canonTree fp t
  have hstr : ∀ r, Tok.str r ∈ (canonTree fp t).toks → strOK r = true := by
    intro r hr
    obtain ⟨lit, hl, _, _, _, _⟩ := canon_strings_minimal fp t h r hr
    obtain ⟨k, hk, e⟩ := List.mem_map.mp (perm.mem_iff.mp hr)
    cases k with
    | str lit' =>
      simp only [canonAtom, Tok.str.injEq] at e
      rw [← e]; exact strOK_canonStr lit' (strict_toks t h lit' hk)
    | num _ => simp [canonAtom] at e
    | bo => simp [canonAtom] at e
    | eo => simp [canonAtom] at e
    | ba => simp [canonAtom] at e
    | ea => simp [canonAtom] at e
    | null => simp [canonAtom] at e
    | tru => simp [canonAtom] at e
    | fls => simp [canonAtom] at e
  refine ⟨strict_of _ hstr good.2, ?_⟩
  have hfix : ∀ k ∈ (canonTree fp t).toks, canonAtom fp k = k := by
    intro k hk
    obtain ⟨k0, hk0, e⟩ := List.mem_map.mp (perm.mem_iff.mp hk)
    subst e
    cases k0 with
    | str lit => simp only [canonAtom]; rw [canonStr_idem lit (strict_toks t h lit hk0)]
    | num lit => simp only [canonAtom]; rw [hn lit]
    | bo => rfl
    | eo => rfl
    | ba => rfl
    | ea => rfl
    | null => rfl
    | tru => rfl
    | fls => rfl
  show sortTree (respell fp (canonTree fp t)) = canonTree fp t
  rw [respell_fixed fp _ hfix]
  exact sortTree_fixed _ good.2 good.1

/-- `canon_class` (tree level): canonically equivalent strict trees have the same canonical tree. -/
theorem canon_tree_class (fp : FloatCodec) (t u : JV) (ht : strict t = true) (he : CanonEquiv fp t u) :
    canonTree fp t = canonTree fp u :=
  sortTree_permEq _ _ (namesOK_respell fp t ht) he

/-- `canon_class`: two texts whose trees are canonically equivalent — they differ only in whitespace, in the order
of members, in the spelling of strings with the same text and in the spelling of numbers with the same value —
canonicalize to identical bytes. -/
theorem canon_class (fp : FloatCodec) (b₁ b₂ : Bytes) (t u : JV) (h₁ : parseText b₁ = some t) (h₂ : parseText b₂ = some u)
    (st : strict t = true) (su : strict u = true) (he : CanonEquiv fp t u) :
    canonicalize fp b₁ = canonicalize fp b₂ ∧ (canonicalize fp b₁).isSome = true := by
  unfold canonicalize
  rw [h₁, h₂]
  simp only [st, su, if_true, canon_tree_class fp t u st he, Option.isSome_some, and_self]

/-- String literals with the same text are interchangeable … -/
theorem respell_congr_str (fp : FloatCodec) (a b : Bytes) (h : unq a = unq b) :
    canonAtom fp (.str a) = canonAtom fp (.str b) := by
  simp only [canonAtom]; rw [canonStr_congr a b h]

/-- … in particular literals with the same RFC 8259 meaning (C11's `StringLiteral`, via `unquote_meaning`). -/
theorem respell_congr_meaning (fp : FloatCodec) (a b m : Bytes) (ha : StringLiteral a m) (hb : StringLiteral b m) :
    canonAtom fp (.str a) = canonAtom fp (.str b) := by
  simp only [canonAtom]; rw [canonStr_of_meaning a b m ha hb]

/-- The IEEE-754 fact behind the `n < 16` shortcut, as a law of the float parameter: an INTEGER LITERAL
(`-? (0 | [1-9][0-9]*)`, C10's `isIntLit`) of fewer than 16 characters, other than `-0`, is already the canonical
spelling of its value.  The guard matters: `shortInt` alone also holds of byte strings that are not numbers.
Validated by the harness for strconv (not proved); proved for the exact integer codec in `shortInt_exact_codec`. -/
def ShortIntFixed (fp : FloatCodec) : Prop :=
  ∀ lit, JsonV.Spec.Ecma.isIntLit lit = true → shortInt lit = true → fp.append (numValue fp lit) = lit

/-- … and number literals (of the JSON grammar: what the tokenizer accepts) with the same float64 value are
interchangeable (relative to `ShortIntFixed`). -/
theorem respell_congr_num (fp : FloatCodec) (hs : ShortIntFixed fp) (a b : Bytes)
    (ha : JsonV.Spec.Grammar.JNumber a) (hb : JsonV.Spec.Grammar.JNumber b) (h : numValue fp a = numValue fp b) :
    canonAtom fp (.num a) = canonAtom fp (.num b) := by
  have e : ∀ lit, JsonV.Spec.Grammar.JNumber lit → canonNum fp lit = fp.append (numValue fp lit) :=
    fun lit hj => reformat_canonical fp hs lit hj
  simp only [canonAtom]; rw [e a ha, e b hb, h]


/-- The hypotheses are satisfiable: `{"b":"A", "a" : 1}` parses to a strict tree whose tokens are those of
`t`, and `u` = `{"a":1,"b":"A"}` is strict as well. -/
example :
    let t : JV := .obj [([0x22, 0x62, 0x22], .atom (.str [0x22, 0x5c, 0x75, 0x30, 0x30, 0x34, 0x31, 0x22])),
                        ([0x22, 0x61, 0x22], .atom (.num [0x31]))]
    let u : JV := .obj [([0x22, 0x61, 0x22], .atom (.num [0x31])), ([0x22, 0x62, 0x22], .atom (.str [0x22, 0x41, 0x22]))]
    (parseText [0x7b, 0x22, 0x62, 0x22, 0x3a, 0x22, 0x5c, 0x75, 0x30, 0x30, 0x34, 0x31, 0x22, 0x2c, 0x20, 0x22, 0x61, 0x22,
        0x20, 0x3a, 0x20, 0x31, 0x7d]).map (fun x => (x.toks, strict x)) = some (t.toks, true) ∧ strict u = true := by
  decide +kernel

/-- `canon_no_ws`: the output is the bare concatenation of its tokens and the `,` / `:` the grammar requires, and
none of these lexemes other than a string literal contains a whitespace byte. -/
theorem canon_no_ws (fp : FloatCodec) (hw : ∀ f, WFD (fp.shortest f).1 (fp.shortest f).2) (b c : Bytes)
    (h : canonicalize fp b = some c) :
    ∃ ts, c = ((punct [.top0] ts).map Lex.bytes).flatten ∧
      ∀ l ∈ punct [.top0] ts, (∀ raw, l ≠ .tok (.str raw)) → ∀ x ∈ l.bytes, isWs x = false := by
  obtain ⟨t, hp, _, rfl⟩ := (canonicalize_eq_some fp b c).mp h
  have hv := (parseText_wellNested b t hp).2.1
  refine ⟨(canonTree fp t).toks, flatWs_compact _ _, ?_⟩
  intro l hlm hs
  refine lexeme_no_ws l ?_ hs
  rcases punct_mem _ _ l hlm with ⟨d, rfl⟩ | ⟨k, hk, rfl⟩
  · rfl
  · obtain ⟨k0, hk0, e⟩ := List.mem_map.mp ((toks_canonTree fp t).mem_iff.mp hk)
    have v0 := hv k0 hk0
    subst e
    cases k0 with
    | str raw => exact absurd rfl (hs _)
    | num lit =>
      exact canonNum_valid fp hw lit v0
    | bo => rfl
    | eo => rfl
    | ba => rfl
    | ea => rfl
    | null => rfl
    | tru => rfl
    | fls => rfl

/-- `canon_roundtrip`: the output text tokenizes (C12's tokenizer) to exactly the tokens of the canonical tree and
parses back to that tree — so every statement above about the tokens of `canonTree fp t` is a statement about
the tokens of the returned bytes. -/
theorem canon_roundtrip (fp : FloatCodec) (hw : ∀ f, WFD (fp.shortest f).1 (fp.shortest f).2) (b c : Bytes)
    (h : canonicalize fp b = some c) :
    ∃ t, parseText b = some t ∧ strict t = true ∧ c = renderCompact (canonTree fp t).toks ∧
      tokenize c = some (canonTree fp t).toks ∧ parseText c = some (canonTree fp t) := by
  obtain ⟨t, hp, hs, rfl⟩ := (canonicalize_eq_some fp b c).mp h
  refine ⟨t, hp, hs, rfl, ?_⟩
  have hwn := (parseText_wellNested b t hp)
  have hparse : parse t.toks = some t := by
    unfold parseText at hp
    rw [hwn.1] at hp
    exact hp
  obtain ⟨hacc, hatoms⟩ := accepts_canonTree fp t.toks t hparse hwn.2.2
  have hvalid : ∀ k ∈ (canonTree fp t).toks, k.valid = true := by
    intro k hk
    obtain ⟨k0, hk0, e⟩ := List.mem_map.mp ((toks_canonTree fp t).mem_iff.mp hk)
    have v0 := hwn.2.1 k0 hk0
    subst e
    cases k0 with
    | str raw => exact canonStr_valid raw
    | num lit =>
      exact canonNum_valid fp hw lit v0
    | bo => rfl
    | eo => rfl
    | ba => rfl
    | ea => rfl
    | null => rfl
    | tru => rfl
    | fls => rfl
  have htok : tokenize (renderCompact (canonTree fp t).toks) = some (canonTree fp t).toks :=
    JsonV.Props.C12.tokenize_renderCompact _ ⟨hvalid, hacc⟩
  refine ⟨htok, ?_⟩
  unfold parseText
  rw [htok]
  exact parse_toks_self _ hatoms

/-- `canon_idem`: canonicalizing the output again succeeds and returns the same bytes. -/
theorem canon_idem (fp : FloatCodec) (hl : CodecLaws fp) (b c : Bytes)
    (h : canonicalize fp b = some c) : canonicalize fp c = some c := by
  obtain ⟨t, _, hs, hc, _, hp⟩ := canon_roundtrip fp hl.wfd b c h
  obtain ⟨hs', hid⟩ := canon_tree_idem fp hl t hs
  unfold canonicalize
  rw [hp]
  simp only [hs', if_true, hid, hc]

/-- The laws named as hypotheses above are satisfiable: trivially by the degenerate codec that reads every
literal as 0 (C10Glue's example), and — the integer fragment, PROVED rather than assumed — by the exact integer
codec of `shortInt_exact_codec` below. -/
example : CodecLaws ⟨fun _ => ⟨false, false, 0, 0⟩, fun _ => ([], 0)⟩ :=
  ⟨fun _ => (show WFD [] 0 from ⟨by simp, by simp, fun _ => rfl, by omega, by omega⟩), fun _ => rfl⟩

/-- `shortInt_exact_codec`: for the exact integer codec (`Lemmas/CanonIntCodec.lean`: an integer literal of at most
16 digits reads as that integer, an integer is written as its decimal digits — strconv's behaviour on the integers
below 2^53) every law the theorems above assume of the float parameter is PROVED, not assumed: well-formed
shortest digits, the re-read law (`CodecLaws`), and the `n < 16` shortcut (`ShortIntFixed`).  So `canon_no_ws`,
`canon_roundtrip`, `canon_idem`, `canon_numbers_ecma` and `respell_congr_num` hold unconditionally for every text
whose numbers are such integers. -/
theorem shortInt_exact_codec :
    CodecLaws JsonV.Lemmas.CanonIntCodec.intCodec ∧ ShortIntFixed JsonV.Lemmas.CanonIntCodec.intCodec :=
  ⟨JsonV.Lemmas.CanonIntCodec.intCodec_laws, JsonV.Lemmas.CanonIntCodec.intCodec_shortInt⟩

/-- the codec is not degenerate: `-9007199254740991` and `120` read as themselves and are written back unchanged -/
example :
    (numValue JsonV.Lemmas.CanonIntCodec.intCodec [45, 57, 48, 48, 55, 49, 57, 57, 50, 53, 52, 55, 52, 48, 57, 57, 49]).mant
      = 9007199254740991 ∧
    JsonV.Spec.Ecma.isIntLit [49, 50, 48] = true ∧ shortInt [49, 50, 48] = true := by decide

/-- and the model accepts and canonicalizes a concrete text: `{ "a":"A", "b" : [ true ] }` ↦ `{"a":"A","b":[true]}`
(an input whose members are out of order goes through `List.mergeSort`, which `decide` cannot unfold; the
`cmp canon` correspondence exercises those). -/
example :
    canonicalize ⟨fun _ => ⟨false, false, 0, 0⟩, fun _ => ([], 0)⟩
      [0x7b, 0x20, 0x22, 0x61, 0x22, 0x3a, 0x22, 0x5c, 0x75, 0x30, 0x30, 0x34, 0x31, 0x22, 0x2c, 0x20, 0x22, 0x62, 0x22, 0x20, 0x3a, 0x20,
       0x5b, 0x20, 0x74, 0x72, 0x75, 0x65, 0x20, 0x5d, 0x20, 0x7d]
    = some [0x7b, 0x22, 0x61, 0x22, 0x3a, 0x22, 0x41, 0x22, 0x2c, 0x22, 0x62, 0x22, 0x3a, 0x5b, 0x74, 0x72, 0x75, 0x65, 0x5d, 0x7d] := by
  decide +kernel

end Canonicalize

end JsonV.Props.C13
