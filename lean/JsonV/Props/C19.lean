/-
C19 — Options compose as last-wins maps and apply only where scoped.

Property theorems only.  `Gen.*` are regenerated from /repo on every run (Tie A):
the bodies of Flags.Join/Set/Get/Has/Clear and all flag constants.
-/
import JsonV.Model.Opts
import JsonV.Spec.OptMap
import JsonV.Lemmas.FlagsL
import JsonV.Gen.Straight

namespace JsonV.Props.C19
open JsonV.Model JsonV.Spec JsonV.Gen JsonV.Lemmas.FlagsL

/-! ### Tie A: regenerated code = hand model -/

theorem tie_join (a b c d : BitVec 64) :
    jsonflags_Flags_Join a b c d = ((Flags.join ⟨a,b⟩ ⟨c,d⟩).presence, (Flags.join ⟨a,b⟩ ⟨c,d⟩).values) :=
  JsonV.Lemmas.FlagsL.tie_join a b c d
theorem tie_set (a b f : BitVec 64) :
    jsonflags_Flags_Set a b f = ((Flags.set ⟨a,b⟩ f).presence, (Flags.set ⟨a,b⟩ f).values) :=
  JsonV.Lemmas.FlagsL.tie_set a b f
theorem tie_get (a b f : BitVec 64) : jsonflags_Flags_Get a b f = Flags.get ⟨a,b⟩ f := JsonV.Lemmas.FlagsL.tie_get a b f
theorem tie_has (a b f : BitVec 64) : jsonflags_Flags_Has a b f = Flags.has ⟨a,b⟩ f := JsonV.Lemmas.FlagsL.tie_has a b f
theorem tie_clear (a b f : BitVec 64) :
    jsonflags_Flags_Clear a b f = ((Flags.clear ⟨a,b⟩ f).presence, (Flags.clear ⟨a,b⟩ f).values) :=
  JsonV.Lemmas.FlagsL.tie_clear a b f

/-- The 42 named flags of flags.go occupy bits 1..42, one each, in declaration order. -/
def namedFlags : List Nat := [
  jsonflags.c_AllowDuplicateNames, jsonflags.c_AllowInvalidUTF8, jsonflags.c_WithinArshalCall,
  jsonflags.c_OmitTopLevelNewline, jsonflags.c_PreserveRawStrings, jsonflags.c_CanonicalizeRawInts,
  jsonflags.c_CanonicalizeRawFloats, jsonflags.c_ReorderRawObjects, jsonflags.c_EscapeForHTML,
  jsonflags.c_EscapeForJS, jsonflags.c_Multiline, jsonflags.c_SpaceAfterColon, jsonflags.c_SpaceAfterComma,
  jsonflags.c_Indent, jsonflags.c_IndentPrefix, jsonflags.c_ByteLimit, jsonflags.c_DepthLimit,
  jsonflags.c_StringifyNumbers, jsonflags.c_Deterministic, jsonflags.c_FormatNilMapAsNull,
  jsonflags.c_FormatNilSliceAsNull, jsonflags.c_OmitZeroStructFields, jsonflags.c_MatchCaseInsensitiveNames,
  jsonflags.c_RejectUnknownMembers, jsonflags.c_Marshalers, jsonflags.c_Unmarshalers, jsonflags.c_StringTag,
  jsonflags.c_FormatTag, jsonflags.c_FormatTagSupported,
  jsonflags.c_CallMethodsWithLegacySemantics, jsonflags.c_FormatByteArrayAsArray,
  jsonflags.c_FormatBytesWithLegacySemantics, jsonflags.c_FormatDurationAsNano,
  jsonflags.c_MatchCaseSensitiveDelimiter, jsonflags.c_MergeWithLegacySemantics,
  jsonflags.c_OmitEmptyWithLegacySemantics, jsonflags.c_ParseBytesWithLooseRFC4648,
  jsonflags.c_ParseTimeWithLooseRFC3339, jsonflags.c_ReportErrorsWithLegacySemantics,
  jsonflags.c_StringifyWithLegacySemantics, jsonflags.c_UnmarshalAnyWithRawNumber,
  jsonflags.c_UnmarshalArrayFromAnyLength]

theorem flag_layout : namedFlags = (List.range 42).map (fun k => 2 ^ (k + 1)) := by decide

theorem bits_used : jsonflags.c_bitsUsed = 43 ∧ jsonflags.c_maxArshalV1Flag = 2 ^ 43 ∧
    jsonflags.c_AllFlags = 2 ^ 43 - 2 := by decide

/-- `DefaultV1Flags` is the union of exactly the 21 documented v1 flags. -/
theorem defaultV1_flags : jsonflags.c_DefaultV1Flags =
    jsonflags.c_AllowDuplicateNames + jsonflags.c_AllowInvalidUTF8 + jsonflags.c_EscapeForHTML +
    jsonflags.c_EscapeForJS + jsonflags.c_PreserveRawStrings + jsonflags.c_Deterministic +
    jsonflags.c_FormatNilMapAsNull + jsonflags.c_FormatNilSliceAsNull +
    jsonflags.c_MatchCaseInsensitiveNames + jsonflags.c_CallMethodsWithLegacySemantics +
    jsonflags.c_FormatByteArrayAsArray + jsonflags.c_FormatBytesWithLegacySemantics +
    jsonflags.c_FormatDurationAsNano + jsonflags.c_MatchCaseSensitiveDelimiter +
    jsonflags.c_MergeWithLegacySemantics + jsonflags.c_OmitEmptyWithLegacySemantics +
    jsonflags.c_ParseBytesWithLooseRFC4648 + jsonflags.c_ParseTimeWithLooseRFC3339 +
    jsonflags.c_ReportErrorsWithLegacySemantics + jsonflags.c_StringifyWithLegacySemantics +
    jsonflags.c_UnmarshalArrayFromAnyLength := by decide

/-- The slot-guarding flags of the spec are the regenerated constants. -/
theorem slot_flag_eq (k : Slot) : k.flag = flagBit k.idx := by
  cases k <;> decide

theorem special_bits : F.multiline = flagBit 11 ∧ F.formatTagSupported = flagBit 29 ∧
    F.stringifyNumbers = flagBit 18 ∧ F.stringTag = flagBit 27 := by decide

/-! ### Flags algebra (all 64-bit words, all flags) -/

/-- Join is last-wins on every flag. -/
theorem join_last (a b : Flags) (hb : b.WF) (i : Nat) :
    (a.join b).lookup i = (b.lookup i).orElse (fun _ => a.lookup i) := lookup_join a b hb i

/-- Set writes exactly the identified flags with the common value and nothing else. -/
theorem set_get (fs : Flags) (f : BitVec 64) (i : Nat) :
    (fs.set f).lookup i = if f.getLsbD i && decide (i ≠ 0) then some (f.getLsbD 0) else fs.lookup i :=
  lookup_set fs f i

theorem clear_spec (fs : Flags) (f : BitVec 64) (i : Nat) :
    (fs.clear f).lookup i = if f.getLsbD i then none else fs.lookup i := lookup_clear fs f i

theorem join_assoc (a b c : Flags) : (a.join b).join c = a.join (b.join c) := JsonV.Lemmas.FlagsL.join_assoc a b c
theorem join_idem (a : Flags) (h : a.WF) : a.join a = a := JsonV.Lemmas.FlagsL.join_idem a h

/-- The representation invariant holds initially and is kept by every operation. -/
theorem wf_all : Flags.empty.WF ∧ (∀ a b : Flags, a.WF → b.WF → (a.join b).WF) ∧
    (∀ (a : Flags) f, a.WF → (a.set f).WF) ∧ (∀ (a : Flags) f, a.WF → (a.clear f).WF) :=
  ⟨wf_empty, wf_join, wf_set, wf_clear⟩

/-- Get/Has on a single flag read that flag. -/
theorem get_has_single (fs : Flags) (i : Nat) (hi : i < 64) :
    fs.get (flagBit i) = fs.values.getLsbD i ∧ fs.has (flagBit i) = fs.presence.getLsbD i :=
  ⟨get_bit fs i hi, has_bit fs i hi⟩

example : (Flags.empty.set (flagBit 3 ||| 1#64)).lookup 3 = some true := by decide
example : ((Flags.empty.set (flagBit 3 ||| 1#64)).join (Flags.empty.set (flagBit 3))).lookup 3 = some false := by
  decide

end JsonV.Props.C19
