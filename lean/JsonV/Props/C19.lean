/-
C19 — Options compose as last-wins maps and apply only where scoped.

Property theorems only.  `Gen.*` are regenerated from /repo on every run (Tie A):
the bodies of Flags.Join/Set/Get/Has/Clear and all flag constants.
-/
import JsonV.Model.Opts
import JsonV.Spec.OptMap
import JsonV.Lemmas.FlagsL
import JsonV.Lemmas.OptsL
import JsonV.Gen.Straight

namespace JsonV.Props.C19
open JsonV.Model JsonV.Spec JsonV.Gen JsonV.Lemmas.FlagsL JsonV.Lemmas.OptsL

/-! ### Tie A: regenerated code = hand model -/

theorem tie_join (a b c d : BitVec 64) :
    jsonflags_Flags_Join a b c d = ((Flags.join ⟨a,b⟩ ⟨c,d⟩).presence, (Flags.join ⟨a,b⟩ ⟨c,d⟩).values) :=
  JsonV.Lemmas.FlagsL.tie_join a b c d
theorem tie_set (a b f : BitVec 64) :
    jsonflags_Flags_Set a b f = ((Flags.set ⟨a,b⟩ f).presence, (Flags.set ⟨a,b⟩ f).values) :=
  JsonV.Lemmas.FlagsL.tie_set a b f
theorem tie_get (a b f : BitVec 64) : jsonflags_Flags_Get a b f = Flags.get ⟨a,b⟩ f := JsonV.Lemmas.FlagsL.tie_get a b f
theorem tie_has (a b f : BitVec 64) : jsonflags_Flags_Has a b f = Flags.has ⟨a,b⟩ f := JsonV.Lemmas.FlagsL.tie_has a b f
theorem tie_clear (a b f : BitVec 64) :
    jsonflags_Flags_Clear a b f = ((Flags.clear ⟨a,b⟩ f).presence, (Flags.clear ⟨a,b⟩ f).values) :=
  JsonV.Lemmas.FlagsL.tie_clear a b f

/-- The 42 named flags of flags.go occupy bits 1..42, one each, in declaration order. -/
def namedFlags : List Nat := [
  jsonflags.c_AllowDuplicateNames, jsonflags.c_AllowInvalidUTF8, jsonflags.c_WithinArshalCall,
  jsonflags.c_OmitTopLevelNewline, jsonflags.c_PreserveRawStrings, jsonflags.c_CanonicalizeRawInts,
  jsonflags.c_CanonicalizeRawFloats, jsonflags.c_ReorderRawObjects, jsonflags.c_EscapeForHTML,
  jsonflags.c_EscapeForJS, jsonflags.c_Multiline, jsonflags.c_SpaceAfterColon, jsonflags.c_SpaceAfterComma,
  jsonflags.c_Indent, jsonflags.c_IndentPrefix, jsonflags.c_ByteLimit, jsonflags.c_DepthLimit,
  jsonflags.c_StringifyNumbers, jsonflags.c_Deterministic, jsonflags.c_FormatNilMapAsNull,
  jsonflags.c_FormatNilSliceAsNull, jsonflags.c_OmitZeroStructFields, jsonflags.c_MatchCaseInsensitiveNames,
  jsonflags.c_RejectUnknownMembers, jsonflags.c_Marshalers, jsonflags.c_Unmarshalers, jsonflags.c_StringTag,
  jsonflags.c_FormatTag, jsonflags.c_FormatTagSupported,
  jsonflags.c_CallMethodsWithLegacySemantics, jsonflags.c_FormatByteArrayAsArray,
  jsonflags.c_FormatBytesWithLegacySemantics, jsonflags.c_FormatDurationAsNano,
  jsonflags.c_MatchCaseSensitiveDelimiter, jsonflags.c_MergeWithLegacySemantics,
  jsonflags.c_OmitEmptyWithLegacySemantics, jsonflags.c_ParseBytesWithLooseRFC4648,
  jsonflags.c_ParseTimeWithLooseRFC3339, jsonflags.c_ReportErrorsWithLegacySemantics,
  jsonflags.c_StringifyWithLegacySemantics, jsonflags.c_UnmarshalAnyWithRawNumber,
  jsonflags.c_UnmarshalArrayFromAnyLength]

theorem flag_layout : namedFlags = (List.range 42).map (fun k => 2 ^ (k + 1)) := by decide

theorem bits_used : jsonflags.c_bitsUsed = 43 ∧ jsonflags.c_maxArshalV1Flag = 2 ^ 43 ∧
    jsonflags.c_AllFlags = 2 ^ 43 - 2 := by decide

/-- `DefaultV1Flags` is the union of exactly the 21 documented v1 flags. -/
theorem defaultV1_flags : jsonflags.c_DefaultV1Flags =
    jsonflags.c_AllowDuplicateNames + jsonflags.c_AllowInvalidUTF8 + jsonflags.c_EscapeForHTML +
    jsonflags.c_EscapeForJS + jsonflags.c_PreserveRawStrings + jsonflags.c_Deterministic +
    jsonflags.c_FormatNilMapAsNull + jsonflags.c_FormatNilSliceAsNull +
    jsonflags.c_MatchCaseInsensitiveNames + jsonflags.c_CallMethodsWithLegacySemantics +
    jsonflags.c_FormatByteArrayAsArray + jsonflags.c_FormatBytesWithLegacySemantics +
    jsonflags.c_FormatDurationAsNano + jsonflags.c_MatchCaseSensitiveDelimiter +
    jsonflags.c_MergeWithLegacySemantics + jsonflags.c_OmitEmptyWithLegacySemantics +
    jsonflags.c_ParseBytesWithLooseRFC4648 + jsonflags.c_ParseTimeWithLooseRFC3339 +
    jsonflags.c_ReportErrorsWithLegacySemantics + jsonflags.c_StringifyWithLegacySemantics +
    jsonflags.c_UnmarshalArrayFromAnyLength := by decide

/-- The slot-guarding flags of the spec are the regenerated constants. -/
theorem slot_flag_eq (k : Slot) : k.flag = flagBit k.idx := by
  cases k <;> decide

theorem special_bits : F.multiline = flagBit 11 ∧ F.formatTagSupported = flagBit 29 ∧
    F.stringifyNumbers = flagBit 18 ∧ F.stringTag = flagBit 27 := by decide

/-! ### Flags algebra (all 64-bit words, all flags) -/

/-- Join is last-wins on every flag. -/
theorem join_last (a b : Flags) (hb : b.WF) (i : Nat) :
    (a.join b).lookup i = (b.lookup i).orElse (fun _ => a.lookup i) := lookup_join a b hb i

/-- Set writes exactly the identified flags with the common value and nothing else. -/
theorem set_get (fs : Flags) (f : BitVec 64) (i : Nat) :
    (fs.set f).lookup i = if f.getLsbD i && decide (i ≠ 0) then some (f.getLsbD 0) else fs.lookup i :=
  lookup_set fs f i

theorem clear_spec (fs : Flags) (f : BitVec 64) (i : Nat) :
    (fs.clear f).lookup i = if f.getLsbD i then none else fs.lookup i := lookup_clear fs f i

theorem join_assoc (a b c : Flags) : (a.join b).join c = a.join (b.join c) := JsonV.Lemmas.FlagsL.join_assoc a b c
theorem join_idem (a : Flags) (h : a.WF) : a.join a = a := JsonV.Lemmas.FlagsL.join_idem a h

/-- The representation invariant holds initially and is kept by every operation. -/
theorem wf_all : Flags.empty.WF ∧ (∀ a b : Flags, a.WF → b.WF → (a.join b).WF) ∧
    (∀ (a : Flags) f, a.WF → (a.set f).WF) ∧ (∀ (a : Flags) f, a.WF → (a.clear f).WF) :=
  ⟨wf_empty, wf_join, wf_set, wf_clear⟩

/-- Get/Has on a single flag read that flag. -/
theorem get_has_single (fs : Flags) (i : Nat) (hi : i < 64) :
    fs.get (flagBit i) = fs.values.getLsbD i ∧ fs.has (flagBit i) = fs.presence.getLsbD i :=
  ⟨get_bit fs i hi, has_bit fs i hi⟩

example : (Flags.empty.set (flagBit 3 ||| 1#64)).lookup 3 = some true := by decide
example : ((Flags.empty.set (flagBit 3 ||| 1#64)).join (Flags.empty.set (flagBit 3))).lookup 3 = some false := by
  decide

/-! ### `jsonopts.Struct.Join` / `JoinOptions` = last-wins map (all option lists, any length) -/

/-- One option joined into a struct overrides exactly the entries that option carries. -/
theorem struct_joinOne_map (dst : Struct) (o : Opt) (ho : JsonV.Spec.Opt.WF o) :
    abs (dst.joinOne o) = (abs dst).override (optMap o) := abs_joinOne dst o ho

/-- `JoinOptions(srcs...)` is the left-to-right fold of right-biased override: later entries win. -/
theorem struct_join_map (srcs : List Opt) (h : ∀ o ∈ srcs, JsonV.Spec.Opt.WF o) :
    abs (joinOptions srcs) = joinSpec srcs := by
  unfold joinOptions joinSpec
  rw [abs_join _ srcs h, abs_default]

/-- The result of a join is again a well-formed option value (so it may be nested). -/
theorem joinOptions_wf (srcs : List Opt) (h : ∀ o ∈ srcs, JsonV.Spec.Opt.WF o) :
    JsonV.Spec.Opt.WF (.struct (joinOptions srcs)) :=
  wf_join_struct {} srcs wf_empty h

/-- Passing options separately, joined, or nested gives the same result:
`Join(xs, JoinOptions(ys), zs) = Join(xs, ys, zs)` for all lists. -/
theorem nested_flat (dst : Struct) (xs ys zs : List Opt)
    (hx : ∀ o ∈ xs, JsonV.Spec.Opt.WF o) (hy : ∀ o ∈ ys, JsonV.Spec.Opt.WF o) (hz : ∀ o ∈ zs, JsonV.Spec.Opt.WF o) :
    abs (dst.join (xs ++ [.struct (joinOptions ys)] ++ zs)) = abs (dst.join (xs ++ ys ++ zs)) := by
  have hall1 : ∀ o ∈ xs ++ [.struct (joinOptions ys)] ++ zs, JsonV.Spec.Opt.WF o := by
    intro o ho
    simp only [List.mem_append, List.mem_singleton] at ho
    rcases ho with (ho | ho) | ho
    · exact hx o ho
    · subst ho; exact joinOptions_wf ys hy
    · exact hz o ho
  have hall2 : ∀ o ∈ xs ++ ys ++ zs, JsonV.Spec.Opt.WF o := by
    intro o ho
    simp only [List.mem_append] at ho
    rcases ho with (ho | ho) | ho
    · exact hx o ho
    · exact hy o ho
    · exact hz o ho
  rw [abs_join _ _ hall1, abs_join _ _ hall2]
  simp only [List.foldl_append, List.foldl_cons, List.foldl_nil]
  congr 1
  have hs : optMap (.struct (joinOptions ys)) = joinSpec ys := by
    simp only [optMap]; exact struct_join_map ys hy
  rw [hs]
  exact (foldl_override _ ys).symm

/-- `GetOption` on a value slot returns exactly what the map holds (zero value and false if absent). -/
theorem getOption_slot (s : Struct) :
    s.getOption .indent = (match (abs s).slot .indent with | some v => (v, true) | none => (.bytes [], false)) ∧
    s.getOption .indentPrefix = (match (abs s).slot .indentPrefix with | some v => (v, true) | none => (.bytes [], false)) ∧
    s.getOption .byteLimit = (match (abs s).slot .byteLimit with | some v => (v, true) | none => (.int 0, false)) ∧
    s.getOption .depthLimit = (match (abs s).slot .depthLimit with | some v => (v, true) | none => (.int 0, false)) ∧
    s.getOption .marshalers = (match (abs s).slot .marshalers with | some v => (v, true) | none => (.ptr 0, false)) ∧
    s.getOption .unmarshalers = (match (abs s).slot .unmarshalers with | some v => (v, true) | none => (.ptr 0, false)) := by
  have h1 := has_slot s.flags .indent
  have h2 := has_slot s.flags .indentPrefix
  have h3 := has_slot s.flags .byteLimit
  have h4 := has_slot s.flags .depthLimit
  have h5 := has_slot s.flags .marshalers
  have h6 := has_slot s.flags .unmarshalers
  simp only [Slot.flag] at h1 h2 h3 h4 h5 h6
  refine ⟨?_, ?_, ?_, ?_, ?_, ?_⟩ <;>
    simp only [Struct.getOption, abs, slotVal, h1, h2, h3, h4, h5, h6] <;>
    split <;> simp_all

/-- `GetOption` on a boolean flag `i` (other than StringifyNumbers, bit 18) returns the map entry. -/
theorem getOption_flag (s : Struct) (i : Nat) (hi : i < 64) (h18 : i ≠ 18) :
    s.getOption (.flag (flagBit i)) =
      (.bool (s.flags.values.getLsbD i), s.flags.presence.getLsbD i) := by
  have hne : (flagBit i == F.stringifyNumbers) = false := by
    have : F.stringifyNumbers = flagBit 18 := by decide
    rw [this]
    apply Bool.eq_false_iff.mpr
    intro h
    have h' : flagBit i = flagBit 18 := by simpa using h
    have := congrArg (fun x => x.getLsbD i) h'
    simp [flagBit_getLsbD i i hi, flagBit_getLsbD 18 i (by decide), h18] at this
  simp only [Struct.getOption, hne, Bool.false_and, Bool.and_false, get_bit s.flags i hi, has_bit s.flags i hi]
  simp

/-- Appending `DefaultOptionsV2` cancels every v1 option: all 21 v1 flags read `false`. -/
theorem v2_cancels_v1 (dst : Struct) (xs : List Opt) (hx : ∀ o ∈ xs, JsonV.Spec.Opt.WF o)
    (i : Nat) (hi : F.defaultV1.getLsbD i = true) :
    (abs (dst.join (xs ++ [.struct defaultOptionsV2]))).flag i = some false := by
  have hwf : JsonV.Spec.Opt.WF (.struct defaultOptionsV2) := by
    show defaultOptionsV2.flags.WF
    decide
  have hall : ∀ o ∈ xs ++ [.struct defaultOptionsV2], JsonV.Spec.Opt.WF o := by
    intro o ho
    simp only [List.mem_append, List.mem_singleton] at ho
    rcases ho with ho | ho
    · exact hx o ho
    · subst ho; exact hwf
  rw [abs_join _ _ hall]
  simp only [List.foldl_append, List.foldl_cons, List.foldl_nil, OptMap.override, optMap, abs,
    defaultOptionsV2, Flags.lookup, hi]
  simp

/-- The defaults: v2 sets exactly the v1 flags to false, v1 sets them to true; both are well-formed. -/
theorem defaults_layout : defaultOptionsV2.flags = ⟨F.defaultV1, 0#64⟩ ∧ defaultOptionsV1.flags = ⟨F.defaultV1, F.defaultV1⟩ ∧
    defaultOptionsV2.flags.WF ∧ defaultOptionsV1.flags.WF := by decide

-- hypotheses are satisfiable by concrete, non-trivial option lists
example : ∀ o ∈ [Opt.bools (flagBit 19 ||| 1#64), Opt.indent [0x20], Opt.struct defaultOptionsV1],
    JsonV.Spec.Opt.WF o := by
  intro o ho
  simp only [List.mem_cons, List.mem_nil_iff, or_false] at ho
  rcases ho with h | h | h <;> subst h
  · intro k; cases k <;> decide
  · trivial
  · show defaultOptionsV1.flags.WF; decide
example : (joinOptions [.indent [0x20], .struct defaultOptionsV2]).getOption .indent = (.bytes [0x20], true) := by decide
example : (joinOptions [.struct defaultOptionsV1, .struct defaultOptionsV2]).getOption (.flag (flagBit 19)) =
    (.bool false, true) := by decide

end JsonV.Props.C19
