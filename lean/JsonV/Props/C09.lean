/-
C09 — Package v1 behaves like the classic encoding/json (PARTIAL).

What is proved here concerns v1's OWN pure code (model: JsonV.Model.V1, tied to /repo/v1 and to the toolchain's
encoding/json by the three-way correspondence of harness/c09_model.go), for ALL byte strings, well-formed UTF-8 or not:
`appendHTMLEscape`; `v1.Valid` (exactly the RFC 8259 texts, through slice C01); `v1.Compact` and `v1.Indent` with blank
AND non-blank prefix/indent (through slice C12; the trailing-whitespace clause of defect D4 included).  Equality of Marshal/Unmarshal/Encoder/Decoder with the classic reflection engine is
NOT a theorem: it is validated differentially only (harness/c09*.go), see meta/C09.json.
-/
import JsonV.Model.V1
import JsonV.Lemmas.V1L
import JsonV.Lemmas.V1Fmt
import JsonV.Props.C01
import JsonV.Props.C12

namespace JsonV.Props.C09
open JsonV JsonV.Model.V1 JsonV.Lemmas.V1L JsonV.Lemmas.V1Fmt

/-- The output of `appendHTMLEscape` contains none of the bytes `<`, `>`, `&` and no `E2 80 A8` / `E2 80 A9`
(U+2028, U+2029) — for every input, including ill-formed UTF-8. -/
theorem htmlEscape_safe (b : Bytes) :
    (∀ x ∈ htmlEscape b, x ≠ 0x3C ∧ x ≠ 0x3E ∧ x ≠ 0x26) ∧ hasLS (htmlEscape b) = false := by
  refine ⟨fun x hx => ?_, htmlEscape_no_LS b⟩
  have h := htmlEscape_no_html_bytes b x hx
  simp [isHtmlByte] at h
  exact ⟨h.1.1, h.1.2, h.2⟩

/-- the statement is not vacuous: an input with all five triggers, and what comes out -/
example : htmlEscape [0x3C, 0x61, 0x26, 0xE2, 0x80, 0xA9, 0xE2, 0x80] =
    [0x5C, 0x75, 0x30, 0x30, 0x33, 0x63, 0x61, 0x5C, 0x75, 0x30, 0x30, 0x32, 0x36,
     0x5C, 0x75, 0x32, 0x30, 0x32, 0x39, 0xE2, 0x80] := by
  simp [htmlEscape, esc00, esc202, isHtmlByte, isLsByte, hexLower]
  decide
example : hasLS [0x61, 0xE2, 0x80, 0xA8] = true := by simp [hasLS, isLsByte]

/-- An input without those bytes and sequences is returned unchanged. -/
theorem htmlEscape_id_on_safe (b : Bytes) (hs : ∀ x ∈ b, x ≠ 0x3C ∧ x ≠ 0x3E ∧ x ≠ 0x26) (hl : hasLS b = false) :
    htmlEscape b = b := by
  apply JsonV.Lemmas.V1L.htmlEscape_id_on_safe b _ hl
  intro x hx
  have := hs x hx
  simp [isHtmlByte, this.1, this.2.1, this.2.2]

example : (∀ x ∈ ([0x22, 0xE2, 0x80, 0xA7, 0xE2, 0x22] : Bytes), x ≠ 0x3C ∧ x ≠ 0x3E ∧ x ≠ 0x26) ∧
    hasLS [0x22, 0xE2, 0x80, 0xA7, 0xE2, 0x22] = false := by
  refine ⟨by decide, by simp [hasLS, isLsByte]⟩

/-- Every `<`, `>`, `&` grows the text by 5 bytes and every U+2028/U+2029 by 3; nothing else changes the length. -/
theorem htmlEscape_length (b : Bytes) :
    (htmlEscape b).length = b.length + 5 * (escCounts b).1 + 3 * (escCounts b).2 :=
  JsonV.Lemmas.V1L.htmlEscape_length b

example : escCounts [0x3C, 0x61, 0x26, 0xE2, 0x80, 0xA9, 0xE2, 0x80] = (2, 1) := by
  simp [escCounts, isHtmlByte, isLsByte]

/-- Escaping twice is escaping once. -/
theorem htmlEscape_idempotent (b : Bytes) : htmlEscape (htmlEscape b) = htmlEscape b :=
  htmlEscape_id_on_safe (htmlEscape b) (htmlEscape_safe b).1 (htmlEscape_safe b).2

/-- Meaning preserved (partial): on inputs without a backslash, turning the escapes back gives the input. -/
theorem htmlEscape_unescape_partial (b : Bytes) (hb : ∀ x ∈ b, x ≠ 0x5C) : unescape (htmlEscape b) = b :=
  unescape_htmlEscape_of_no_backslash b hb

example : ∀ x ∈ ([0x22, 0x3C, 0xE2, 0x80, 0xA8, 0x22] : Bytes), x ≠ 0x5C := by decide

/-- **Meaning preserved, for EVERY byte string** (with or without pre-existing backslashes and escapes): the escaped
text and the original decode to the same bytes once the five escapes are undone.  For JSON texts this says that the
value is unchanged. -/
theorem htmlEscape_unescape (b : Bytes) : unescape (htmlEscape b) = unescape b :=
  unescape_htmlEscape_all b.length b (Nat.le_refl _)

-- a text that already contains an escape and a lone backslash before `<`
example : unescape (htmlEscape [0x5C, 0x75, 0x30, 0x30, 0x33, 0x63, 0x5C, 0x3C]) = [0x3C, 0x5C, 0x3C] := by
  rw [htmlEscape_unescape]; simp [unescape, unesc6]

/-! ## v1.Valid — through slice C01's validator and grammar

`valid` is DEFINED as C01's model of `ReadValue` + `CheckEOF` at the two flags `checkValid` sets; that is what the Go
code does (/repo/v1/scanner.go:26-44), so the equation below is definitional and the substance is C01's theorem. -/

theorem v1valid_eq_validate (b : Bytes) : valid b = Model.Validate.isValid permissive b := rfl

/-- **v1.Valid accepts only RFC 8259 texts**: `ws value ws` with arbitrary bytes ≥ 0x20 in strings (no UTF-8
requirement), any `\uXXXX`, duplicate member names allowed, nesting depth at most 10000 (corollary of C01.valid_sound). -/
theorem v1valid_sound (b : Bytes) (h : valid b = true) :
    Spec.Grammar.JText ⟨false, true⟩ 10000 (Props.C01.nameKey permissive) b := by
  have := Props.C01.valid_sound permissive b h
  rw [Props.C01.tie_maxDepth] at this
  exact this

/-- The model never runs out of fuel (C01.valid_no_fuel): the verdict is a verdict about the text. -/
theorem v1valid_no_fuel (b : Bytes) : (Model.Validate.validText permissive b).2 ≠ .fuel :=
  Props.C01.valid_no_fuel permissive b

/-- **v1.Valid accepts EXACTLY the RFC 8259 texts** (strings with arbitrary bytes ≥ 0x20 and any `\\uXXXX`, duplicate
names allowed, depth at most 10000), for every byte string (C01.valid_iff at the flags `checkValid` sets). -/
theorem v1valid_iff (b : Bytes) :
    valid b = true ↔ Spec.Grammar.JText ⟨false, true⟩ 10000 (Props.C01.nameKey permissive) b := by
  have := Props.C01.valid_iff permissive b
  rw [Props.C01.tie_maxDepth] at this
  exact this

/-- TRUSTED ASSUMPTION, stated explicitly: the classic scanner (encoding/json/scanner.go `checkValid`) accepts exactly
the same grammar — by its documentation (RFC 8259 syntax; invalid UTF-8 and duplicate names are not syntax errors;
`maxNestingDepth = 10000`).  `classicValid` is a parameter: the toolchain's `encoding/json.Valid`.  Validated
three-way (model = v1 = encoding/json) on every generated input by harness/c09_model.go; never used as a hypothesis
of a theorem. -/
def classic_valid_same_grammar_assumption (classicValid : Bytes → Bool) : Prop := ∀ b : Bytes, valid b = classicValid b

/-- NOT proved: the independent push-down recogniser of Model/V1.lean agrees with `valid` (checked on every input). -/
def validPda_eq_valid_full : Prop := ∀ b : Bytes, validPda b = valid b

/-! ## v1.Compact and v1.Indent — through slice C12's token-level format model -/

/-- v1.Compact is C12's `compact` (AppendFormat with the raw-preserving flags). -/
theorem v1compact_eq_format (src : Bytes) : compact src = Fmt.compact src := rfl

/-- **Compact preserves the meaning**: the output has exactly the tokens of the input — strings and numbers byte
for byte, same structure and member order; only whitespace differs (C12.format_meaning). -/
theorem v1compact_meaning (src out : Bytes) (h : compact src = some out) : Fmt.tokenize out = Fmt.tokenize src :=
  Props.C12.format_meaning Fmt.compactOpts ⟨rfl, rfl⟩ src out h

/-- Compacting the output again changes nothing. -/
theorem v1compact_idem (src out : Bytes) (h : compact src = some out) : compact out = some out :=
  Props.C12.compact_idem src out h

/-- Compact, Indent (ANY prefix and indent) and the tokenizer succeed on exactly the same texts. -/
theorem v1_compact_indent_succeed_together (pre ind src : Bytes) :
    (compact src).isSome = (Fmt.tokenize src).isSome ∧ (indent pre ind src).isSome = (Fmt.tokenize src).isSome := by
  refine ⟨Props.C12.format_ok_iff_partial _ src, ?_⟩
  unfold indent
  split
  · rw [Option.isSome_map]; exact Props.C12.format_ok_iff_partial _ src
  · rw [Option.isSome_map]; exact Props.C12.format_ok_iff_partial _ src

/-- Blank prefix and indent (spaces and tabs): v1.Indent is C12's `indent` followed by the source's trailing whitespace. -/
theorem v1indent_blank_eq_format (pre ind src : Bytes) (hp : isBlank pre = true) (hi : isBlank ind = true) :
    indent pre ind src = (Fmt.indent pre ind src).map (· ++ trailingWs src) := by
  simp [indent, hp, hi]

example : isBlank [0x20, 0x09] = true ∧ isBlank [] = true := by decide

/-- **v1.Indent for EVERY prefix and indent** (blank or not, any bytes): the tokens of the source rendered one element
per line with the literal prefix and `indent^depth` after each newline, then the source's trailing whitespace.  For
non-blank prefix/indent this says that the placeholder emulation of /repo/v1/indent.go (format with spaces of the
same lengths, overwrite them line by line) computes exactly the classic layout. -/
theorem v1indent_eq_render (pre ind src : Bytes) :
    indent pre ind src = (Fmt.tokenize src).map (fun ts => Fmt.render (litOpts pre ind) ts ++ trailingWs src) := by
  unfold indent
  split
  · simp only [Fmt.indent, Fmt.format]
    cases Fmt.tokenize src <;> rfl
  · simp only [Fmt.indent, Fmt.format]
    cases ht : Fmt.tokenize src with
    | none => rfl
    | some ts =>
      have hw := Fmt.tokenize_sound' src ts ht
      simp only [Option.map]
      have := replacePH_render pre ind ts hw.1
      simp only [phOpts] at this
      rw [this]

/-- Non-blank prefix or indent, line by line: the output is the blank-formatted text (placeholders of the same
lengths) with the SAME lexemes in the same order, where each newline is followed by `prefix ++ indent^k` instead of
`len(prefix) + k·len(indent)` spaces — and nothing else differs. -/
theorem v1indent_nonblank_lines (pre ind src out : Bytes) (h : indent pre ind src = some out) :
    ∃ ts, Fmt.WellNested ts ∧
      Fmt.indent (spaces pre.length) (spaces ind.length) src = some (Fmt.render (phOpts pre ind) ts) ∧
      out = Fmt.render (litOpts pre ind) ts ++ trailingWs src ∧
      (Fmt.pieces (litOpts pre ind) [.top0] ts).map Prod.snd = (Fmt.pieces (phOpts pre ind) [.top0] ts).map Prod.snd ∧
      (∀ k, Fmt.nl (litOpts pre ind) k = 0x0A :: (pre ++ Fmt.repeatBytes ind k)) ∧
      (∀ k, Fmt.nl (phOpts pre ind) k = 0x0A :: spaces (pre.length + k * ind.length)) := by
  rw [v1indent_eq_render] at h
  cases ht : Fmt.tokenize src with
  | none => simp [ht] at h
  | some ts =>
    simp only [ht, Option.map, Option.some.injEq] at h
    refine ⟨ts, Fmt.tokenize_sound' src ts ht, ?_, h.symm, ?_, nl_lit pre ind, nl_ph pre ind⟩
    · simp [Fmt.indent, Fmt.format, ht, phOpts]
    · rw [Fmt.pieces_map_snd, Fmt.pieces_map_snd]

/-- **The D4 clause**: the output is a body that ends in a non-whitespace byte followed by EXACTLY the trailing
whitespace of the source — the body does not depend on it being there, and nothing of it is rewritten. -/
theorem v1indent_trailing_ws_kept (pre ind src out : Bytes) (h : indent pre ind src = some out) :
    (∃ body, out = body ++ trailingWs src) ∧ trailingWs out = trailingWs src := by
  rw [v1indent_eq_render] at h
  cases ht : Fmt.tokenize src with
  | none => simp [ht] at h
  | some ts =>
    simp only [ht, Option.map, Option.some.injEq] at h
    subst h
    refine ⟨⟨_, rfl⟩, ?_⟩
    obtain ⟨X, c, hX, hc⟩ := render_end (litOpts pre ind) ts (Fmt.tokenize_sound' src ts ht)
    rw [hX]
    exact trailingWs_append X c _ hc (trailingWs_allWs src)

/-- Blank prefix and indent: Indent preserves the meaning (the trailing whitespace included in the output). -/
theorem v1indent_blank_meaning (pre ind src out : Bytes) (hp : isBlank pre = true) (hi : isBlank ind = true)
    (h : indent pre ind src = some out) : Fmt.tokenize out = Fmt.tokenize src := by
  rw [v1indent_blank_eq_format pre ind src hp hi] at h
  cases hf : Fmt.indent pre ind src with
  | none => simp [hf] at h
  | some body =>
    simp only [hf, Option.map, Option.some.injEq] at h
    subst h
    have hm := Props.C12.format_meaning ⟨pre, ind, true, true, false⟩ ⟨isBlank_allWs pre hp, isBlank_allWs ind hi⟩ src body hf
    obtain ⟨ts, hts, _, _⟩ := (Props.C12.format_eq_some _ src body).mp hf
    rw [hts] at hm ⊢
    exact tokenize_append_ws body _ ts hm (trailingWs_allWs src)

/-! ### against the grammar of C01 (through C12.tokenize_iff_text) -/

/-- v1.Compact succeeds exactly on the RFC 8259 texts (same grammar instance as v1.Valid; `key` is irrelevant
because duplicate names are allowed). -/
theorem v1compact_ok_iff_text (key : Bytes → Bytes) (src : Bytes) :
    (compact src).isSome = true ↔ Spec.Grammar.JText ⟨false, true⟩ 10000 key src :=
  Props.C12.format_ok_iff_text key Fmt.compactOpts src

/-- v1.Indent succeeds exactly on the same texts, for EVERY prefix and indent (blank or not). -/
theorem v1indent_ok_iff_text (key : Bytes → Bytes) (pre ind src : Bytes) :
    (indent pre ind src).isSome = true ↔ Spec.Grammar.JText ⟨false, true⟩ 10000 key src := by
  rw [(v1_compact_indent_succeed_together pre ind src).2]
  exact Props.C12.tokenize_iff_text key src

/-- **Valid, Compact and Indent succeed together** (the "succeed or fail together" clause among v1's own three
entry points, for all byte strings and all prefixes/indents). -/
theorem v1_valid_compact_indent_together (pre ind b : Bytes) :
    (valid b = true ↔ (compact b).isSome = true) ∧ (valid b = true ↔ (indent pre ind b).isSome = true) :=
  ⟨(v1valid_iff b).trans (v1compact_ok_iff_text _ b).symm, (v1valid_iff b).trans (v1indent_ok_iff_text _ pre ind b).symm⟩

/-- Blank prefix and indent: the output of Indent (trailing whitespace included) is again a text of the grammar,
hence accepted by v1.Valid. -/
theorem v1indent_blank_out_valid (pre ind src out : Bytes) (hp : isBlank pre = true) (hi : isBlank ind = true)
    (h : indent pre ind src = some out) : valid out = true := by
  have hm := v1indent_blank_meaning pre ind src out hp hi h
  have hs : (Fmt.tokenize src).isSome = true := by
    rw [← (v1_compact_indent_succeed_together pre ind src).2, h]; rfl
  rw [← hm] at hs
  exact (v1valid_iff out).mpr ((Props.C12.tokenize_iff_text _ out).mp hs)

/-- The output of Compact is accepted by v1.Valid. -/
theorem v1compact_out_valid (src out : Bytes) (h : compact src = some out) : valid out = true := by
  have hs : (compact out).isSome = true := by rw [v1compact_idem src out h]; rfl
  exact (v1_valid_compact_indent_together [] [] out).1.mpr hs

/-- hypotheses are satisfiable: `[1]` + newline + two spaces, prefix `>`, indent `--` (the D4 repro) -/
example : Fmt.tokenize [0x5B, 0x31, 0x5D, 0x0A, 0x20, 0x20] = some [.ba, .num [0x31], .ea] := by decide
example : trailingWs [0x5B, 0x31, 0x5D, 0x0A, 0x20, 0x20] = [0x0A, 0x20, 0x20] := by decide
example : Fmt.render (litOpts [0x3E] [0x2D, 0x2D]) [.ba, .num [0x31], .ea] =
    [0x5B, 0x0A, 0x3E, 0x2D, 0x2D, 0x31, 0x0A, 0x3E, 0x5D] := by decide

end JsonV.Props.C09
