/-
C09 — Package v1 behaves like the classic encoding/json (PARTIAL).

What is proved here concerns v1's OWN pure code (model: JsonV.Model.V1, tied to /repo/v1 and to the toolchain's
encoding/json by the three-way correspondence of harness/c09_model.go): `appendHTMLEscape` for ALL byte strings,
well-formed UTF-8 or not.  Equality of Marshal/Unmarshal/Encoder/Decoder with the classic reflection engine is
NOT a theorem: it is validated differentially only (harness/c09*.go), see meta/C09.json.
-/
import JsonV.Model.V1
import JsonV.Lemmas.V1L

namespace JsonV.Props.C09
open JsonV JsonV.Model.V1 JsonV.Lemmas.V1L

/-- The output of `appendHTMLEscape` contains none of the bytes `<`, `>`, `&` and no `E2 80 A8` / `E2 80 A9`
(U+2028, U+2029) — for every input, including ill-formed UTF-8. -/
theorem htmlEscape_safe (b : Bytes) :
    (∀ x ∈ htmlEscape b, x ≠ 0x3C ∧ x ≠ 0x3E ∧ x ≠ 0x26) ∧ hasLS (htmlEscape b) = false := by
  refine ⟨fun x hx => ?_, htmlEscape_no_LS b⟩
  have h := htmlEscape_no_html_bytes b x hx
  simp [isHtmlByte] at h
  exact ⟨h.1.1, h.1.2, h.2⟩

/-- the statement is not vacuous: an input with all five triggers, and what comes out -/
example : htmlEscape [0x3C, 0x61, 0x26, 0xE2, 0x80, 0xA9, 0xE2, 0x80] =
    [0x5C, 0x75, 0x30, 0x30, 0x33, 0x63, 0x61, 0x5C, 0x75, 0x30, 0x30, 0x32, 0x36,
     0x5C, 0x75, 0x32, 0x30, 0x32, 0x39, 0xE2, 0x80] := by
  simp [htmlEscape, esc00, esc202, isHtmlByte, isLsByte, hexLower]
  decide
example : hasLS [0x61, 0xE2, 0x80, 0xA8] = true := by simp [hasLS, isLsByte]

/-- An input without those bytes and sequences is returned unchanged. -/
theorem htmlEscape_id_on_safe (b : Bytes) (hs : ∀ x ∈ b, x ≠ 0x3C ∧ x ≠ 0x3E ∧ x ≠ 0x26) (hl : hasLS b = false) :
    htmlEscape b = b := by
  apply JsonV.Lemmas.V1L.htmlEscape_id_on_safe b _ hl
  intro x hx
  have := hs x hx
  simp [isHtmlByte, this.1, this.2.1, this.2.2]

example : (∀ x ∈ ([0x22, 0xE2, 0x80, 0xA7, 0xE2, 0x22] : Bytes), x ≠ 0x3C ∧ x ≠ 0x3E ∧ x ≠ 0x26) ∧
    hasLS [0x22, 0xE2, 0x80, 0xA7, 0xE2, 0x22] = false := by
  refine ⟨by decide, by simp [hasLS, isLsByte]⟩

/-- Every `<`, `>`, `&` grows the text by 5 bytes and every U+2028/U+2029 by 3; nothing else changes the length. -/
theorem htmlEscape_length (b : Bytes) :
    (htmlEscape b).length = b.length + 5 * (escCounts b).1 + 3 * (escCounts b).2 :=
  JsonV.Lemmas.V1L.htmlEscape_length b

example : escCounts [0x3C, 0x61, 0x26, 0xE2, 0x80, 0xA9, 0xE2, 0x80] = (2, 1) := by
  simp [escCounts, isHtmlByte, isLsByte]

/-- Escaping twice is escaping once. -/
theorem htmlEscape_idempotent (b : Bytes) : htmlEscape (htmlEscape b) = htmlEscape b :=
  htmlEscape_id_on_safe (htmlEscape b) (htmlEscape_safe b).1 (htmlEscape_safe b).2

/-- Meaning preserved (partial): on inputs without a backslash, turning the escapes back gives the input. -/
theorem htmlEscape_unescape_partial (b : Bytes) (hb : ∀ x ∈ b, x ≠ 0x5C) : unescape (htmlEscape b) = b :=
  unescape_htmlEscape_of_no_backslash b hb

example : ∀ x ∈ ([0x22, 0x3C, 0xE2, 0x80, 0xA8, 0x22] : Bytes), x ≠ 0x5C := by decide

/-- Meaning preserved (full statement, NOT proved; evaluated on every generated input by harness/c09_model.go):
for every byte string — with or without pre-existing escapes — the escaped text and the original decode to the
same bytes once the five escapes are undone.  For JSON texts this says that the value is unchanged. -/
def htmlEscape_unescape_full : Prop := ∀ b : Bytes, unescape (htmlEscape b) = unescape b

/-- NOT proved here (the classic grammar is proved by slice `wire`; validated three-way on every generated input):
the recogniser that models `v1.Valid` accepts exactly what the classic scanner accepts.  `classicValid` is a
parameter: the toolchain's `encoding/json.Valid`. -/
def v1_valid_eq_classic_full (classicValid : Bytes → Bool) : Prop := ∀ b : Bytes, valid b = classicValid b

/-- NOT proved: the fuel of `valid` (`length + 1`) is never exhausted, i.e. more fuel never changes the answer. -/
def valid_fuel_suffices_full : Prop := ∀ (b : Bytes) (n : Nat), b.length + 1 ≤ n → run n b [] Mode.value = valid b

end JsonV.Props.C09
