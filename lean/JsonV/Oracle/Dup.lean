/-
Oracle ops for the `dup` family (C08): the `uintSet` and `objectNamespace` models.

  dup uintset <tok>…     tok = `<n>` insert n | `h<n>` has n      → one char per token: 1/0
  dup ns <tok>…          tok = `<hex>` InsertUnquoted (`-` = empty name) | `rm` RemoveLast | `reset` Reset (slot reuse)
                         → two chars per token: result (1/0, `-` for rm/reset) and mode after the op (L linear / M map),
                           then ` <length>` and ` <hex>` for every name held, in order
-/
import JsonV.Oracle.Util
import JsonV.Model.UintSet
import JsonV.Model.Namespace

namespace JsonV.Oracle.Dup
open JsonV JsonV.Model JsonV.Oracle

def uintsetOps : List String → UintSet → List Char → Option (List Char)
  | [], _, acc => some acc.reverse
  | t :: ts, s, acc =>
    if t.startsWith "h" then
      match (t.drop 1).toNat? with
      | some n => uintsetOps ts s ((if s.has n then '1' else '0') :: acc)
      | none => none
    else
      match t.toNat? with
      | some n => let r := s.insert n; uintsetOps ts r.1 ((if r.2 then '1' else '0') :: acc)
      | none => none

def modeChar (ns : Namespace) : Char := if ns.usesMap then 'M' else 'L'

def nsOps : List String → Namespace → List Char → Option (Namespace × List Char)
  | [], ns, acc => some (ns, acc.reverse)
  | t :: ts, ns, acc =>
    if t == "rm" then
      let ns' := ns.removeLast
      nsOps ts ns' (modeChar ns' :: '-' :: acc)
    else if t == "reset" then
      let ns' := ns.reset
      nsOps ts ns' (modeChar ns' :: '-' :: acc)
    else
      match bytesOfHex t with
      | some name =>
        let r := ns.insert name
        nsOps ts r.1 (modeChar r.1 :: (if r.2 then '1' else '0') :: acc)
      | none => none

def handle (op : String) (args : List String) : String :=
  match op with
  | "uintset" =>
    match uintsetOps args UintSet.empty [] with
    | some cs => String.ofList cs
    | none => badArgs
  | "ns" =>
    match nsOps args Namespace.empty [] with
    | some (ns, cs) =>
      ns.names.foldl (fun acc n => acc ++ " " ++ hexOfBytes n) (String.ofList cs ++ " " ++ toString ns.length)
    | none => badArgs
  | _ => "ERR unimplemented"

end JsonV.Oracle.Dup
