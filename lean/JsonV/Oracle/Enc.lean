/-
Oracle ops for the `enc` family: the token-level Encoder (Model/Encoder.lean).

  enc run <opts> <call>*
     opts  = <bits>:<indent hex>:<prefix hex>     bits = seven 0/1 characters, in this order:
             AllowDuplicateNames AllowInvalidUTF8 Multiline SpaceAfterColon SpaceAfterComma EscapeForHTML EscapeForJS
             (the EFFECTIVE values, as `Encoder.Options()` reports them after NewEncoder), hex "-" = empty
     call  = T:n | T:f | T:t                 WriteToken(Null/False/True)
           | T:s:<hex>                       WriteToken(String(bytes))
           | T:0:<hex>                       WriteToken(number token whose rendered text is <hex>)
           | T:{ | T:} | T:[ | T:]           WriteToken(BeginObject/EndObject/BeginArray/EndArray)
           | V:<hex>                         WriteValue(bytes)
           | R                               Encoder.Reset(fresh writer, same options): everything starts afresh
     answer: one `<res>/<OutputOffset>/<StackDepth>/<kind>/<length>` per call, space separated, then ` out=<hex>`
             res    = ok | Ename | Ens | Edepth | Edelim | Emissing      (state machine errors)
                    | Edup | Eutf8 | Eeof | Echar | Eesc | Ebug
             kind,length = StackIndex(StackDepth()): kind byte in decimal (0 at top level, 123 '{', 91 '['), Last.Length()
     A rejected call leaves the encoder as it was and the run continues.
  enc valid <opts> <hex>
     answer: `<a> <b>` — a = 1 iff the ENCODER's validator accepts the text as one top-level value
             (`reformatValue` at depth 1, only whitespace after it), b = 1 iff slice C01's decoder-side validator
             `Validate.isValid` (proved sound for the grammar) accepts it under the same two grammar options.
             The harness requires a = b (statement `reformat_valid_full` of Props/C06) and a = the real WriteValue verdict.
The depth limit is the regenerated constant `maxNestingDepth`.
-/
import JsonV.Oracle.Util
import JsonV.Model.Encoder
import JsonV.Model.Validate
import JsonV.Gen.Constants

namespace JsonV.Oracle.Enc
open JsonV JsonV.Oracle JsonV.Model JsonV.Model.Encoder

def errName : EncErr → String
  | .sm .nonStringName => "Ename" | .sm .invalidNamespace => "Ens" | .sm .maxDepth => "Edepth"
  | .sm .mismatchDelim => "Edelim" | .sm .missingValue => "Emissing"
  | .dupName => "Edup" | .invalidUTF8 => "Eutf8" | .unexpectedEOF => "Eeof"
  | .invalidChar => "Echar" | .invalidEscape => "Eesc" | .bug => "Ebug"

def parseOpts (s : String) : Option Opts :=
  match s.splitOn ":" with
  | [bits, ind, pre] =>
    match bits.toList.map (· == '1'), bytesOfHex ind, bytesOfHex pre with
    | [a, b, c, d, e, f, g], some ind, some pre =>
      some { allowDup := a, allowInvalidUTF8 := b, multiline := c, spaceAfterColon := d, spaceAfterComma := e,
             escHTML := f, escJS := g, indent := ind, indentPrefix := pre,
             maxDepth := JsonV.Gen.jsontext.c_maxNestingDepth }
    | _, _, _ => none
  | _ => none

inductive Call where
  | tok (t : Tok) | val (v : Bytes) | reset

def parseCall (s : String) : Option Call :=
  match s.splitOn ":" with
  | ["T", "n"] => some (.tok .null)
  | ["T", "f"] => some (.tok .fals)
  | ["T", "t"] => some (.tok .tru)
  | ["T", "{"] => some (.tok .beginObj)
  | ["T", "}"] => some (.tok .endObj)
  | ["T", "["] => some (.tok .beginArr)
  | ["T", "]"] => some (.tok .endArr)
  | ["T", "s", h] => (bytesOfHex h).map fun b => .tok (.str b)
  | ["T", "0", h] => (bytesOfHex h).map fun b => .tok (.num b)
  | ["V", h] => (bytesOfHex h).map .val
  | ["R"] => some .reset
  | _ => none

def doCall (e : Enc) : Call → Enc × Option EncErr
  | .tok t => writeToken e t
  | .val v => writeValue e v
  | .reset => (Encoder.new e.o, none)

def showStep (e : Enc) (r : Option EncErr) : String :=
  let (k, n) := stackIndexLast e
  let res := match r with | none => "ok" | some err => errName err
  s!"{res}/{outputOffset e}/{stackDepth e}/{k.toNat}/{n}"

def handle (op : String) (args : List String) : String :=
  match op, args with
  | "run", opts :: calls =>
    match parseOpts opts with
    | none => badArgs
    | some o =>
      let r := calls.foldl (fun acc c => match acc with
        | none => none
        | some (e, log) => match parseCall c with
          | none => none
          | some call => let (e', res) := doCall e call; some (e', showStep e' res :: log)) (some (Encoder.new o, []))
      match r with
      | none => badArgs
      | some (e, log) => " ".intercalate log.reverse ++ (if log.isEmpty then "" else " ") ++ "out=" ++ hexOfBytes e.out
  | "valid", [opts, h] =>
    match parseOpts opts, bytesOfHex h with
    | some o, some v =>
      let a := match reformatValue o (3 * v.length + 4) [] (skipWS v) 1 with
        | .ok (_, rest) => (skipWS rest).isEmpty
        | .error _ => false
      let b := JsonV.Model.Validate.isValid ⟨o.allowInvalidUTF8, o.allowDup⟩ v
      s!"{boolStr a} {boolStr b}"
    | _, _ => badArgs
  | _, _ => badArgs

end JsonV.Oracle.Enc
