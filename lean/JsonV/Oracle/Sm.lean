/-
Oracle ops for the `sm` family: the state machine of jsontext/state.go (Model/State.lean).

  sm run <ops>            ops = one word of letters, executed left to right on a fresh machine:
                            l appendLiteral   s appendString   n appendNumber
                            { pushObject      } popObject      [ pushArray      ] popArray
                            D Last.DisableNamespace()          I InvalidateDisabledNamespaces()
                          a rejected op leaves the machine as it was and the run continues.
                          answer:  <codes> <depth> <length> <last> <stack>
                            codes  one digit per op: 0 ok, 1 ErrNonStringName, 2 errInvalidNamespace,
                                   3 errMaxDepth, 4 errMismatchDelim, 5 errMissingValue   (D and I: 0)
                            depth  Depth(), length  Last.Length(), last  Last as hex,
                            stack  the words of Stack (outermost first) as hex joined by ',' ("-" if empty)
  sm trace <ops>          answer:  one `<code>:<last>:<depth>` per op (space separated), then `|` and the final stack
  sm q <ops> <next>       next = kind byte in hex (e.g. 7d); after running ops:
                          answer:  <needDelim as decimal byte> <NeedIndent> <MayAppendDelim(nil,next) as hex>
  sm push <n>             n times pushArray on a fresh machine: answer  <number of successes> <code of the last op> <depth>
The depth limit is the regenerated constant `maxNestingDepth`.  `ops` may be "-" for the empty sequence.
-/
import JsonV.Oracle.Util
import JsonV.Model.State
import JsonV.Gen.Constants

namespace JsonV.Oracle.Sm
open JsonV JsonV.Oracle JsonV.Model

def maxDepth : Nat := JsonV.Gen.jsontext.c_maxNestingDepth

def errCode : SMErr → Nat
  | .nonStringName => 1 | .invalidNamespace => 2 | .maxDepth => 3 | .mismatchDelim => 4 | .missingValue => 5

/-- One op: the machine afterwards and the result code; `none` for an unknown letter. -/
def applyOp (m : Machine) (c : Char) : Option (Machine × Nat) :=
  let r (x : Except SMErr Machine) : Option (Machine × Nat) :=
    match x with
    | .ok m' => some (m', 0)
    | .error e => some (m, errCode e)
  match c with
  | 'l' => r m.appendLiteral
  | 's' => r m.appendString
  | 'n' => r m.appendNumber
  | '{' => r (m.pushObject maxDepth)
  | '}' => r m.popObject
  | '[' => r (m.pushArray maxDepth)
  | ']' => r m.popArray
  | 'D' => some ({ m with last := m.last.disableNamespace }, 0)
  | 'I' => some (m.invalidateDisabledNamespaces, 0)
  | _ => none

def showStack (s : List Entry) : String :=
  if s.isEmpty then "-" else ",".intercalate (s.map hexOfBv)

def runOps (ops : List Char) : Option (Machine × List (Nat × Machine)) :=
  ops.foldl (fun acc c => match acc with
    | none => none
    | some (m, tr) => match applyOp m c with
      | none => none
      | some (m', code) => some (m', (code, m') :: tr)) (some (Machine.init, []))

def opsOf (s : String) : List Char := if s == "-" then [] else s.toList

def pushN : Nat → Machine → Nat → Nat × Nat × Machine
  | 0, m, ok => (ok, 0, m)
  | n + 1, m, ok =>
    match m.pushArray maxDepth with
    | .ok m' => pushN n m' (ok + 1)
    | .error e => if n = 0 then (ok, errCode e, m) else pushN n m ok

def handle (op : String) (args : List String) : String :=
  match op, args with
  | "run", [ops] =>
    match runOps (opsOf ops) with
    | none => badArgs
    | some (m, tr) =>
      let codes := String.ofList (tr.reverse.map fun (c, _) => Char.ofNat (48 + c))
      s!"{if codes.isEmpty then "-" else codes} {m.depth} {m.last.length} {hexOfBv m.last} {showStack m.stack}"
  | "trace", [ops] =>
    match runOps (opsOf ops) with
    | none => badArgs
    | some (m, tr) =>
      " ".intercalate (tr.reverse.map fun (c, m') => s!"{c}:{hexOfBv m'.last}:{m'.depth}") ++ " | " ++ showStack m.stack
  | "q", [ops, next] =>
    match runOps (opsOf ops), natOfHex next with
    | some (m, _), some k =>
      let kb := UInt8.ofNat k
      s!"{(m.needDelim kb).toNat} {m.needIndent kb} {hexOfBytes (m.mayAppendDelim [] kb)}"
    | _, _ => badArgs
  | "push", [n] =>
    match n.toNat? with
    | some n => let (ok, code, m) := pushN n Machine.init 0; s!"{ok} {code} {m.depth}"
    | none => badArgs
  | _, _ => badArgs

end JsonV.Oracle.Sm
