/-
Line-protocol helpers for the oracle (Tie B).  Core Lean only.
Byte strings travel as lowercase hex; the empty byte string is "-".
-/
import JsonV.Model.Basic

namespace JsonV.Oracle

def hexDigit (n : Nat) : Char :=
  if n < 10 then Char.ofNat (48 + n) else Char.ofNat (87 + n)

def hexOfBytes (b : Bytes) : String :=
  if b.isEmpty then "-" else
  String.ofList (b.foldr (fun x acc => hexDigit (x.toNat / 16) :: hexDigit (x.toNat % 16) :: acc) [])

def hexVal (c : Char) : Option Nat :=
  if '0' ≤ c ∧ c ≤ '9' then some (c.toNat - 48)
  else if 'a' ≤ c ∧ c ≤ 'f' then some (c.toNat - 87)
  else if 'A' ≤ c ∧ c ≤ 'F' then some (c.toNat - 55)
  else none

def bytesOfHexAux : List Char → List UInt8 → Option (List UInt8)
  | [], acc => some acc.reverse
  | [_], _ => none
  | a :: b :: rest, acc =>
    match hexVal a, hexVal b with
    | some x, some y => bytesOfHexAux rest (UInt8.ofNat (x * 16 + y) :: acc)
    | _, _ => none

def bytesOfHex (s : String) : Option Bytes :=
  if s == "-" then some [] else bytesOfHexAux s.toList []

def natOfHex (s : String) : Option Nat :=
  s.toList.foldl (fun acc c => match acc, hexVal c with
    | some a, some v => some (a * 16 + v)
    | _, _ => none) (some 0)

def hexOfNat (n : Nat) : String := String.ofList (Nat.toDigits 16 n)

def bv64OfHex (s : String) : Option (BitVec 64) := (natOfHex s).map (BitVec.ofNat 64)
def hexOfBv {w : Nat} (b : BitVec w) : String := hexOfNat b.toNat

def boolStr (b : Bool) : String := if b then "1" else "0"

def badArgs : String := "ERR bad-args"

end JsonV.Oracle
