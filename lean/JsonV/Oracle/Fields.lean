/-
Oracle ops for the `fields` family (C15).  Owned by the C15 slice; see AGENT_GUIDE.md.

Graph descriptor (space separated tokens):
  <nstructs> then per struct: <nfields> then per field:
     <goNameHex> <declBits> <explicitNameHex | *> <casing> <type>
  declBits: 1 exported, 2 anonymous, 4 hasTag, 8 tagDash, 16 tagErr, 32 embedOpt, 64 omitzero,
            128 omitempty, 256 string, 512 format, 1024 methods, 2048 isZeroer
  type: S<id> struct | P<id> pointer to struct | V jsontext.Value | M map[string]T | K map with bad key | O other

Ops
  fields flatten <root> <graph>                 → `OK <k> {<id>:<i.j.k>:<nameHex>:<optBits>} FB=<i.j|-> FMT=<0|1>` | `E <class>`
  fields lookups <root> <flagBits> <k> <k nameHex> <graph>  → k answers `F<id>` | `A` | `U`   (flagBits: 1 MatchCaseInsensitiveNames,
                                                   2 MatchCaseSensitiveDelimiter, 4 ReportErrorsWithLegacySemantics)
  fields full <root> <k> <k nameHex> <graph>    → `<flatten answer> ;<lookups fl=0> ;<fl=1> ;<2> ;<3> ;<4> ;<5> ;<7>`
  fields fold <hex>                             → hex of foldName
  fields match <fieldNameHex> <casing> <nameHex> <flagBits> → 0|1
  fields omit <optBits> <flagBits> <valBits>    → 0|1   (flagBits: 1 OmitZeroStructFields, 2 OmitEmptyWithLegacySemantics;
                                                   valBits: 1 zero, 2 legacyEmpty, 4 jsonEmpty)
  fields omitz <optBits> <flagBits> <n|i|p|v|a> <valBits> → 0|1  (zero test spelled out: kind of isZero closure;
                                                   valBits: 1 goZero, 2 legacyEmpty, 4 jsonEmpty, 8 isNil, 16 elemNilPtr, 32 IsZero() result)
  optBits: hasName + 2*casing + 8*embed + 16*omitzero + 32*omitempty + 64*string + 128*format
-/
import JsonV.Oracle.Util
import JsonV.Model.Fields

namespace JsonV.Oracle.Fields
open JsonV JsonV.Model JsonV.Model.Fields JsonV.Oracle

/-- `foldRune` on the runes the harness uses: ASCII, Latin-1, and the few runes whose SimpleFold orbit
crosses blocks (µ, ſ, K, Å, ẞ, Ÿ); identity elsewhere.  The harness checks this table against
`unicode.SimpleFold` for every rune of its alphabet before relying on it. -/
def foldRuneTbl (r : Nat) : Nat :=
  if 0x61 ≤ r ∧ r ≤ 0x7A then r - 32
  else if r = 0x39C ∨ r = 0x3BC then 0xB5
  else if 0xE0 ≤ r ∧ r ≤ 0xFE ∧ r ≠ 0xF7 then r - 32
  else if r = 0x1E9E then 0xDF
  else if r = 0x178 then 0xFF
  else if r = 0x17F then 0x53
  else if r = 0x212A then 0x4B
  else if r = 0x212B then 0xC5
  else r

def bit (n k : Nat) : Bool := (n / k) % 2 == 1

def parseTy (s : String) : Option TypeRef :=
  match s.toList with
  | 'S' :: r => (String.ofList r).toNat?.map .struct
  | 'P' :: r => (String.ofList r).toNat?.map .ptr
  | ['V'] => some .fbValue
  | ['M'] => some .fbMap
  | ['K'] => some .fbMapBadKey
  | ['O'] => some .other
  | _ => none

def parseField : List String → Option (FieldDecl × List String)
  | gn :: bits :: nm :: cs :: ty :: rest =>
    match bytesOfHex gn, bits.toNat?, (if nm == "*" then some none else (bytesOfHex nm).map some), cs.toNat?, parseTy ty with
    | some gn, some b, some nm, some cs, some ty =>
      some ({ goName := gn, exported := bit b 1, anonymous := bit b 2, hasTag := bit b 4, tagDash := bit b 8,
              tagErr := bit b 16, name := nm, casing := cs, embedOpt := bit b 32, omitzero := bit b 64,
              omitempty := bit b 128, string := bit b 256, format := bit b 512, ty := ty,
              methods := bit b 1024, isZeroer := bit b 2048 }, rest)
    | _, _, _, _, _ => none
  | _ => none

def parseFields : Nat → List String → Option (List FieldDecl × List String)
  | 0, r => some ([], r)
  | n + 1, r =>
    match parseField r with
    | some (d, r) => match parseFields n r with
      | some (ds, r) => some (d :: ds, r)
      | none => none
    | none => none

def parseStructs : Nat → List String → Option (Graph × List String)
  | 0, r => some ([], r)
  | n + 1, r =>
    match r with
    | k :: r =>
      match k.toNat? with
      | some k => match parseFields k r with
        | some (fs, r) => match parseStructs n r with
          | some (g, r) => some (fs :: g, r)
          | none => none
        | none => none
      | none => none
    | [] => none

def tyInRange (n : Nat) (d : FieldDecl) : Bool :=
  match d.ty.structId? with
  | some t => t < n
  | none => true

def parseGraph (toks : List String) : Option Graph :=
  match toks with
  | n :: r =>
    match n.toNat? with
    | some n => match parseStructs n r with
      | some (g, []) => if g.all (fun fs => fs.all (tyInRange g.length)) then some g else none
      | _ => none
    | none => none
  | [] => none

def optBits (o : FieldOpts) : Nat :=
  o.hasName.toNat + 2 * o.casing + 8 * o.embed.toNat + 16 * o.omitzero.toNat + 32 * o.omitempty.toNat +
  64 * o.string.toNat + 128 * o.format.toNat

def showIndex (ix : List Nat) : String :=
  if ix.isEmpty then "-" else ".".intercalate (ix.map toString)

def showField (f : RField) : String :=
  s!"{f.id}:{showIndex f.index}:{hexOfBytes f.name}:{optBits f.opts}"

def showErr : Err → String
  | .tag => "tag" | .embeddedNeedsName => "embedded-needs-name" | .embedOtherOptions => "embed-other-options"
  | .embedMethods => "embed-methods" | .embedUnexported => "embed-unexported" | .embedBadMapKey => "embed-bad-map-key"
  | .embedBadType => "embed-bad-type" | .multipleFallbacks => "multiple-fallbacks" | .unexportedField => "unexported-field"
  | .unexportedMethods => "unexported-methods" | .nameConflict => "name-conflict" | .noExportedFields => "no-exported-fields"

def showLookup : Lookup → String
  | .found f => s!"F{f.id}"
  | .ambiguous => "A"
  | .unknown => "U"

def matchFlags (b : Nat) : Fold.MatchFlags :=
  { caseInsensitive := bit b 1, caseSensitiveDelim := bit b 2, legacyErrors := bit b 4 }

def optsOfBits (b : Nat) : FieldOpts :=
  { hasName := bit b 1, casing := (b / 2) % 4, embed := bit b 8, omitzero := bit b 16, omitempty := bit b 32,
    string := bit b 64, format := bit b 128 }

/-- Did the level-by-level search stop because its fuel ran out (never, by `bfs_fuel_suffices`)? -/
def searchExhausted (g : Graph) (root : StructId) : Bool := !(search g root).queue.isEmpty

def handle (op : String) (args : List String) : String :=
  match op, args with
  | "flatten", root :: gtoks =>
    match root.toNat?, parseGraph gtoks with
    | some root, some g =>
      if root ≥ g.length then badArgs else
      if searchExhausted g root then "ERR fuel" else
      let r := flatten g root
      match r.err with
      | some e => s!"E {showErr e}"
      | none =>
        let fs := " ".intercalate (r.flattened.map showField)
        let fb := match r.fallback with
          | some f => showIndex f.index
          | none => "-"
        s!"OK {r.flattened.length} {fs} FB={fb} FMT={boolStr r.errFormat}"
    | _, _ => badArgs
  | "lookups", root :: fl :: k :: rest =>
    match root.toNat?, fl.toNat?, k.toNat? with
    | some root, some fl, some k =>
      match (rest.take k).mapM bytesOfHex, parseGraph (rest.drop k) with
      | some names, some g =>
        if root ≥ g.length ∨ names.length ≠ k then badArgs else
        let r := flatten g root
        " ".intercalate (names.map (fun n => showLookup (lookup foldRuneTbl r.flattened n (matchFlags fl))))
      | _, _ => badArgs
    | _, _, _ => badArgs
  | "full", root :: k :: rest =>
    -- flatten + lookups under the flag sets 0 1 2 3 4 5 7, in one pass: `<flatten> ;<answers fl=0> ;<answers fl=1> …`
    match root.toNat?, k.toNat? with
    | some root, some k =>
      match (rest.take k).mapM bytesOfHex, parseGraph (rest.drop k) with
      | some names, some g =>
        if root ≥ g.length ∨ names.length ≠ k then badArgs else
        if searchExhausted g root then "ERR fuel" else
        let r := flatten g root
        let head := match r.err with
          | some e => s!"E {showErr e}"
          | none =>
            let fs := " ".intercalate (r.flattened.map showField)
            let fb := match r.fallback with
              | some f => showIndex f.index
              | none => "-"
            s!"OK {r.flattened.length} {fs} FB={fb} FMT={boolStr r.errFormat}"
        let looks := [0, 1, 2, 3, 4, 5, 7].map (fun fl =>
          " ".intercalate (names.map (fun n => showLookup (lookup foldRuneTbl r.flattened n (matchFlags fl)))))
        " ;".intercalate (head :: looks)
      | _, _ => badArgs
    | _, _ => badArgs
  | "fold", [h] =>
    match bytesOfHex h with
    | some b => hexOfBytes (Fold.foldName foldRuneTbl b)
    | none => badArgs
  | "match", [fn, cs, nm, fl] =>
    match bytesOfHex fn, cs.toNat?, bytesOfHex nm, fl.toNat? with
    | some fn, some cs, some nm, some fl => boolStr (Fold.matchFoldedName foldRuneTbl fn cs nm (matchFlags fl))
    | _, _, _, _ => badArgs
  | "omit", [ob, fl, vb] =>
    match ob.toNat?, fl.toNat?, vb.toNat? with
    | some ob, some fl, some vb => boolStr (omitted (optsOfBits ob) (bit fl 1) (bit fl 2) (bit vb 1) (bit vb 2) (bit vb 4))
    | _, _, _ => badArgs
  | "omitz", [ob, fl, kd, vb] =>
    -- kd: n|i|p|v|a ; valBits: 1 goZero, 2 legacyEmpty, 4 jsonEmpty, 8 isNil, 16 elemNilPtr, 32 methodZero
    let k : Option ZeroKind := match kd with
      | "n" => some .none | "i" => some .iface | "p" => some .ptr | "v" => some .value | "a" => some .addr | _ => none
    match ob.toNat?, fl.toNat?, k, vb.toNat? with
    | some ob, some fl, some k, some vb =>
      boolStr (omittedZ (optsOfBits ob) (bit fl 1) (bit fl 2) k (bit vb 8) (bit vb 16) (bit vb 32) (bit vb 1) (bit vb 2) (bit vb 4))
    | _, _, _, _ => badArgs
  | _, _ => "ERR unimplemented"

end JsonV.Oracle.Fields
