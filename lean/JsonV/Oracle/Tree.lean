/-
Oracle ops for the `tree` family (C03).

Canonical prefix encoding of a tree (space separated words, byte strings in lowercase hex, empty = `-`):

  n                      null
  t | f                  true | false
  N<lit>:<bits>          number: the literal in hex, then the binary64 bit pattern `Spec.f64Round lit`
                         as 16 hex digits, or `ovf` when the literal overflows float64
  S<hex>                 string, decoded bytes
  A<k> v1 … vk           array of k values
  O<k> n1 v1 … nk vk     object of k members in textual order, names decoded (hex words)

Ops:
  tree parse <hex>       the spec tree `Spec.Meaning.parseTree`, or `E` if the text is not valid JSON
  tree fast <hex>        model of unmarshalValueAny & co.  : tree (maps in insertion order) or `E <class>`
  tree gen <hex>         model of the generic arshaler route: tree or `E <class>`      class ∈ syntax dup range mismatch
  tree iface <isAny> <opt> <hex>   `unmarshalIface` (interface target; isAny/opt ∈ 0 1)
  tree map <opt> <hex>   `unmarshalMap` (target map[string]any)        tree slice <opt> <hex>   `unmarshalSlice` (target []any)
  tree unesc <hex>       `Spec.Meaning.unescape` of a quoted string literal: `S<hex>` or `E`
  tree f64 <hex>         `Spec.Meaning.f64Round` of a number literal: 16 hex digits or `ovf`
  tree intern h1 … hk    `Model.AnyDecode.makeString` applied in sequence from the empty cache:
                         for each string `<slot>:<0|1>` (slot index or `-` if not cached; 1 = returned from the cache)
-/
import JsonV.Oracle.Util
import JsonV.Spec.Meaning
import JsonV.Model.AnyDecode

namespace JsonV.Oracle.Tree
open JsonV JsonV.Oracle JsonV.Spec.Meaning JsonV.Model.AnyDecode

def hex16 (n : Nat) : String :=
  let s := hexOfNat n
  String.ofList (List.replicate (16 - s.length) '0') ++ s

def showF64 (lit : Bytes) : String :=
  match f64Round lit with
  | some b => hex16 b.toNat
  | none => "ovf"

mutual
def encTree : MTree → List String → List String
  | .null, acc => "n" :: acc
  | .bool true, acc => "t" :: acc
  | .bool false, acc => "f" :: acc
  | .num l, acc => ("N" ++ hexOfBytes l ++ ":" ++ showF64 l) :: acc
  | .str s, acc => ("S" ++ hexOfBytes s) :: acc
  | .arr xs, acc => ("A" ++ toString xs.length) :: encList xs acc
  | .obj ms, acc => ("O" ++ toString ms.length) :: encMembers ms acc
def encList : List MTree → List String → List String
  | [], acc => acc
  | x :: xs, acc => encTree x (encList xs acc)
def encMembers : List (Bytes × MTree) → List String → List String
  | [], acc => acc
  | (k, v) :: ms, acc => hexOfBytes k :: encTree v (encMembers ms acc)
end

def showTree (t : MTree) : String := " ".intercalate (encTree t [])

mutual
def encGo : GoAny Bytes → List String → List String
  | .nil, acc => "n" :: acc
  | .bool true, acc => "t" :: acc
  | .bool false, acc => "f" :: acc
  | .f64 l, acc => ("N" ++ hexOfBytes l ++ ":" ++ showF64 l) :: acc
  | .str s, acc => ("S" ++ hexOfBytes s) :: acc
  | .slice xs, acc => ("A" ++ toString xs.length) :: encGoList xs acc
  | .map ms, acc => ("O" ++ toString ms.length) :: encGoMembers ms acc
def encGoList : List (GoAny Bytes) → List String → List String
  | [], acc => acc
  | x :: xs, acc => encGo x (encGoList xs acc)
def encGoMembers : List (Bytes × GoAny Bytes) → List String → List String
  | [], acc => acc
  | (k, v) :: ms, acc => hexOfBytes k :: encGo v (encGoMembers ms acc)
end

def showErr : Err → String
  | .syntax => "E syntax"
  | .dup => "E dup"
  | .range => "E range"
  | .mismatch => "E mismatch"

def showRes (r : Except Err (GoAny Bytes)) : String :=
  match r with
  | .ok v => " ".intercalate (encGo v [])
  | .error e => showErr e

/-- The oracle's instance of the `FloatParse` parameter keeps the literal and reports overflow by the spec. -/
def fpLit (lit : Bytes) : Option Bytes := if (f64Round lit).isSome then some lit else none

def internSeq : Cache → List Bytes → List String → List String
  | _, [], acc => acc.reverse
  | c, b :: bs, acc =>
    let slot := slotOf b
    let hit := match slot with
      | some i => c.get i == b
      | none => false
    let r := makeString c b
    let w := (match slot with | some i => toString i | none => "-") ++ ":" ++ boolStr hit
    internSeq r.2 bs (w :: acc)

def handle (op : String) (args : List String) : String :=
  match op, args with
  | "parse", [h] =>
    match bytesOfHex h with
    | some b => match parseTree b with
      | some t => showTree t
      | none => "E"
    | none => badArgs
  | "fast", [h] =>
    match bytesOfHex h with
    | some b => showRes (fast fpLit Cache.empty b)
    | none => badArgs
  | "gen", [h] =>
    match bytesOfHex h with
    | some b => showRes (generic fpLit Cache.empty b)
    | none => badArgs
  | "iface", [isAny, opt, h] =>
    match bytesOfHex h with
    | some b => showRes (unmarshalIface fpLit (isAny == "1") (opt == "1") Cache.empty b)
    | none => badArgs
  | "map", [opt, h] =>
    match bytesOfHex h with
    | some b => showRes (unmarshalMap fpLit (opt == "1") Cache.empty b)
    | none => badArgs
  | "slice", [opt, h] =>
    match bytesOfHex h with
    | some b => showRes (unmarshalSlice fpLit (opt == "1") Cache.empty b)
    | none => badArgs
  | "unesc", [h] =>
    match bytesOfHex h with
    | some b => match unescape b with
      | some s => "S" ++ hexOfBytes s
      | none => "E"
    | none => badArgs
  | "f64", [h] =>
    match bytesOfHex h with
    | some b => showF64 b
    | none => badArgs
  | "intern", hs =>
    match hs.mapM bytesOfHex with
    | some bs => " ".intercalate (internSeq Cache.empty bs [])
    | none => badArgs
  | _, _ => "ERR unimplemented"

end JsonV.Oracle.Tree
