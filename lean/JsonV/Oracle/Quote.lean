/-
Oracle ops for the `quote` family (C11).  Byte strings are lowercase hex, the empty string is `-`;
booleans are `0`/`1`; numbers are hex.  Error classes: `ok utf8 char esc eof bug`
(ErrInvalidUTF8, invalid character, invalid escape sequence / surrogate pair, io.ErrUnexpectedEOF,
the unreachable `panic("BUG…")` branch).

  quote need <h>                                   → 0|1                       jsonwire.NeedEscape
  quote q <html> <js> <allowInvalid> <h>           → <hexout> <err>            jsonwire.AppendQuote(nil, h, flags)
  quote unq <h>                                    → <hexout> <err>            jsonwire.AppendUnquote(nil, h)
  quote reformat <html> <js> <allowInvalid> <preserveRaw> <h>
                                                   → <hexout> <n> <err>        jsonwire.ReformatString(nil, h, flags)
  quote cs <validateUTF8> <h>                      → <n> <err> <canonical 0|1> jsonwire.ConsumeString (+ ValueFlags.IsCanonical;
                                                                               the flag is only compared when err = ok)
  quote esc <c>                                    → table entry escapeASCII[c] (c < 0x80), `ERR range` otherwise
  quote hex4 <h>                                   → <v hex> <ok 0|1>          parseHexUint16
  quote pfx <lower> <h>                            → 0|1                       hasEscapedUTF16Prefix
  quote eascii <c> | euni <r> | eu16 <x>           → <hexout>                  appendEscapedASCII / Unicode / UTF16
  quote canon <h>                                  → <hexout>                  Spec.canonQuote (RFC 8785 form of well-formed h)
  quote lossy <h>                                  → <hexout> <count>          Spec.lossy (each ill-formed byte → U+FFFD), #ill-formed bytes
-/
import JsonV.Oracle.Util
import JsonV.Model.Quote
import JsonV.Spec.StringSpec

namespace JsonV.Oracle.Quote
open JsonV JsonV.Oracle JsonV.Model.Quote

def errStr : Err → String
  | .ok => "ok"
  | .invalidUTF8 => "utf8"
  | .invalidChar => "char"
  | .invalidEscape => "esc"
  | .unexpectedEOF => "eof"
  | .bug => "bug"

def flag (s : String) : Option Bool := if s == "1" then some true else if s == "0" then some false else none

def handle (op : String) (args : List String) : String :=
  match op, args with
  | "need", [h] =>
    match bytesOfHex h with
    | some b => boolStr (needEscape b)
    | none => badArgs
  | "q", [html, js, allow, h] =>
    match flag html, flag js, flag allow, bytesOfHex h with
    | some html, some js, some allow, some b =>
      let r := appendQuote { html := html, js := js, allowInvalid := allow } b
      s!"{hexOfBytes r.1} {errStr r.2}"
    | _, _, _, _ => badArgs
  | "unq", [h] =>
    match bytesOfHex h with
    | some b => let r := appendUnquote b; s!"{hexOfBytes r.1} {errStr r.2}"
    | none => badArgs
  | "reformat", [html, js, allow, pres, h] =>
    match flag html, flag js, flag allow, flag pres, bytesOfHex h with
    | some html, some js, some allow, some pres, some b =>
      let r := reformatString { html := html, js := js, allowInvalid := allow, preserve := pres } b
      s!"{hexOfBytes r.1} {hexOfNat r.2.1} {errStr r.2.2}"
    | _, _, _, _, _ => badArgs
  | "cs", [v, h] =>
    match flag v, bytesOfHex h with
    | some v, some b => let r := consumeString v b; s!"{hexOfNat r.1} {errStr r.2.1} {boolStr (!r.2.2)}"
    | _, _ => badArgs
  | "esc", [c] =>
    match natOfHex c with
    | some c => if c < 0x80 then toString (escapeASCII c) else "ERR range"
    | none => badArgs
  | "hex4", [h] =>
    match bytesOfHex h with
    | some b => match parseHexUint16 b with
      | some v => s!"{hexOfNat v} 1"
      | none => "0 0"
    | none => badArgs
  | "pfx", [lower, h] =>
    match flag lower, bytesOfHex h with
    | some l, some b => boolStr (hasEscapedUTF16Prefix b l)
    | _, _ => badArgs
  | "eascii", [c] => match natOfHex c with
    | some c => hexOfBytes (appendEscapedASCII c)
    | none => badArgs
  | "euni", [r] => match natOfHex r with
    | some r => hexOfBytes (appendEscapedUnicode r)
    | none => badArgs
  | "eu16", [x] => match natOfHex x with
    | some x => hexOfBytes (appendEscapedUTF16 x)
    | none => badArgs
  | "canon", [h] => match bytesOfHex h with
    | some b => hexOfBytes (JsonV.Spec.StringSpec.canonQuote b)
    | none => badArgs
  | "lossy", [h] => match bytesOfHex h with
    | some b => s!"{hexOfBytes (JsonV.Spec.StringSpec.lossy b)} {hexOfNat (JsonV.Spec.StringSpec.illFormedCount b)}"
    | none => badArgs
  | _, _ => badArgs

end JsonV.Oracle.Quote
