/-
Oracle ops for the `dec` family (C05): the resumable scanners and the refill loops.

  dec strR <validate 0|1> <resumeOffset> <flags 0..3> <hex>   → "<n> <flags> <err>"
  dec numR <resumeOffset> <state> <hex>                       → "<n> <state> <err>"
  dec ws <hex>                                                → "<n>"
  dec lit <lithex> <hex>                                      → "<n> <err>"
  dec chunkS <validate> <hex chunk>+                          → "<n> <flags> <err>"   (consumeString over the chunk list)
  dec chunkN <hex chunk>+                                     → "<n> <err>"           (consumeNumber over the chunk list)
  dec chunkL <lithex> <hex chunk>+                            → "<n> <err>"
  dec chunkW <hex chunk>+                                     → "<n> <err>"
  dec stream <opts: bit0 allowDup, bit1 allowInvalidUTF8> <n> <event>*                → the results of n ReadToken calls of the
        streaming decoder model (Model/Stream.lean); event = hex chunk | `-` empty chunk | `F` fault | `E` eof;
        results joined by `;`: `T<kind>:<start>:<stop>` | `X<class>:<offset>` | `F`
  dec script <opts> <calls: a word over T V S P = ReadToken ReadValue SkipValue PeekKind (`K<kind>`)> <event>*   → the results of the script on the
        streaming model; a value is `T<kind>:<start>:<stop>`, a SkipValue `S:<stop>`
  dec wscript <opts> <calls> <hex>                             → the same script on the whole-buffer model
  dec whole <opts> <n> <hex>                                   → the same calls on the whole-buffer model (TokenLoop)
err ∈ ok | eof | char | esc | utf8
-/
import JsonV.Oracle.Util
import JsonV.Model.Resume
import JsonV.Model.Stream

namespace JsonV.Oracle.Dec
open JsonV JsonV.Oracle JsonV.Model JsonV.Model.Resume

def errStr : Err → String
  | .ok => "ok"
  | .eof => "eof"
  | .invalidChar => "char"
  | .invalidEscape => "esc"
  | .invalidUTF8 => "utf8"

def wireErrStr : Wire.Err → String
  | .ok => "ok" | .eof => "eof" | .invalidChar => "char" | .invalidEscape => "esc" | .invalidUTF8 => "utf8"
  | .dupName => "dup" | .maxDepth => "maxdepth" | .mismatchDelim => "char" | .ioEOF => "ioeof" | .fuel => "fuel" | .bug => "bug"
  | .nonStringName => "nonstring" | .missingValue => "missingvalue" | .invalidNamespace => "invalidns"

def outStr : Stream.Out → String
  | .fault => "F"
  | .err off e => s!"X{wireErrStr e}:{off}"
  | .tok k a b => s!"T{k.toNat}:{a}:{b}"
  | .skip b => s!"S:{b}"

def parseCalls (s : String) : Option (List Stream.CallP) :=
  s.toList.mapM fun c =>
    if c == 'T' then some Stream.CallP.readToken
    else if c == 'V' then some Stream.CallP.readValue
    else if c == 'S' then some Stream.CallP.skipValue
    else if c == 'P' then some Stream.CallP.peekKind
    else none

def outPStr : Stream.OutP → String
  | .out o => outStr o
  | .kind k => s!"K{k.toNat}"

def parseEvents (args : List String) : Option (List Stream.Event) :=
  args.mapM fun a =>
    if a == "F" then some Stream.Event.fault
    else if a == "E" then some Stream.Event.eof
    else (bytesOfHex a).map Stream.Event.chunk

def vopts (n : Nat) : Validate.VOpts := { allowDup := n % 2 == 1, allowInvalidUTF8 := (n / 2) % 2 == 1 }

def allBytes (args : List String) : Option (List Bytes) := args.mapM bytesOfHex

def handle (op : String) (args : List String) : String :=
  match op, args with
  | "strR", [v, res, fl, h] =>
    match res.toNat?, fl.toNat?, bytesOfHex h with
    | some res, some fl, some b =>
      let r := consumeStringResumable (VFlags.ofNat fl) b res (v == "1")
      s!"{r.1} {r.2.1.toNat} {errStr r.2.2}"
    | _, _, _ => badArgs
  | "numR", [res, st, h] =>
    match res.toNat?, st.toNat?, bytesOfHex h with
    | some res, some st, some b =>
      let r := consumeNumberResumable b res st
      s!"{r.1} {r.2.1} {errStr r.2.2}"
    | _, _, _ => badArgs
  | "ws", [h] =>
    match bytesOfHex h with
    | some b => s!"{consumeWhitespace b}"
    | none => badArgs
  | "lit", [l, h] =>
    match bytesOfHex l, bytesOfHex h with
    | some l, some b => let r := consumeLiteral b l; s!"{r.1} {errStr r.2}"
    | _, _ => badArgs
  | "chunkS", v :: hs =>
    match allBytes hs with
    | some (c :: cs) => let r := consumeStringChunks .none c 0 (v == "1") cs; s!"{r.1} {r.2.1.toNat} {errStr r.2.2}"
    | _ => badArgs
  | "chunkN", hs =>
    match allBytes hs with
    | some (c :: cs) => let r := consumeNumberChunks c 0 0 cs; s!"{r.1} {errStr r.2}"
    | _ => badArgs
  | "chunkL", l :: hs =>
    match bytesOfHex l, allBytes hs with
    | some l, some (c :: cs) => let r := consumeLiteralChunks c l cs; s!"{r.1} {errStr r.2}"
    | _, _ => badArgs
  | "chunkW", hs =>
    match allBytes hs with
    | some (c :: cs) => let r := consumeWhitespaceChunks c 0 cs; s!"{r.1} {errStr r.2}"
    | _ => badArgs
  | "stream", o :: n :: evs =>
    match o.toNat?, n.toNat?, parseEvents evs with
    | some o, some n, some es => ";".intercalate ((Stream.run (vopts o) n (Stream.init es)).map outStr)
    | _, _, _ => badArgs
  | "script", o :: cs :: evs =>
    match o.toNat?, parseCalls cs, parseEvents evs with
    | some o, some cs, some es => ";".intercalate ((Stream.runScriptP (vopts o) cs { s := Stream.init es }).map outPStr)
    | _, _, _ => badArgs
  | "wscript", [o, cs, h] =>
    match o.toNat?, parseCalls cs, bytesOfHex h with
    | some o, some cs, some b => ";".intercalate ((Stream.wholeScriptP (vopts o) cs { r := b }).map outPStr)
    | _, _, _ => badArgs
  | "whole", [o, n, h] =>
    match o.toNat?, n.toNat?, bytesOfHex h with
    | some o, some n, some b => ";".intercalate ((Stream.wholeRun (vopts o) n { r := b }).map outStr)
    | _, _, _ => badArgs
  | _, _ => "ERR unimplemented"

end JsonV.Oracle.Dec
