/-
Oracle ops for the `dec` family (C05): the resumable scanners and the refill loops.

  dec strR <validate 0|1> <resumeOffset> <flags 0..3> <hex>   → "<n> <flags> <err>"
  dec numR <resumeOffset> <state> <hex>                       → "<n> <state> <err>"
  dec ws <hex>                                                → "<n>"
  dec lit <lithex> <hex>                                      → "<n> <err>"
  dec chunkS <validate> <hex chunk>+                          → "<n> <flags> <err>"   (consumeString over the chunk list)
  dec chunkN <hex chunk>+                                     → "<n> <err>"           (consumeNumber over the chunk list)
  dec chunkL <lithex> <hex chunk>+                            → "<n> <err>"
  dec chunkW <hex chunk>+                                     → "<n> <err>"
err ∈ ok | eof | char | esc | utf8
-/
import JsonV.Oracle.Util
import JsonV.Model.Resume

namespace JsonV.Oracle.Dec
open JsonV JsonV.Oracle JsonV.Model.Resume

def errStr : Err → String
  | .ok => "ok"
  | .eof => "eof"
  | .invalidChar => "char"
  | .invalidEscape => "esc"
  | .invalidUTF8 => "utf8"

def allBytes (args : List String) : Option (List Bytes) := args.mapM bytesOfHex

def handle (op : String) (args : List String) : String :=
  match op, args with
  | "strR", [v, res, fl, h] =>
    match res.toNat?, fl.toNat?, bytesOfHex h with
    | some res, some fl, some b =>
      let r := consumeStringResumable (VFlags.ofNat fl) b res (v == "1")
      s!"{r.1} {r.2.1.toNat} {errStr r.2.2}"
    | _, _, _ => badArgs
  | "numR", [res, st, h] =>
    match res.toNat?, st.toNat?, bytesOfHex h with
    | some res, some st, some b =>
      let r := consumeNumberResumable b res st
      s!"{r.1} {r.2.1} {errStr r.2.2}"
    | _, _, _ => badArgs
  | "ws", [h] =>
    match bytesOfHex h with
    | some b => s!"{consumeWhitespace b}"
    | none => badArgs
  | "lit", [l, h] =>
    match bytesOfHex l, bytesOfHex h with
    | some l, some b => let r := consumeLiteral b l; s!"{r.1} {errStr r.2}"
    | _, _ => badArgs
  | "chunkS", v :: hs =>
    match allBytes hs with
    | some (c :: cs) => let r := consumeStringChunks .none c 0 (v == "1") cs; s!"{r.1} {r.2.1.toNat} {errStr r.2.2}"
    | _ => badArgs
  | "chunkN", hs =>
    match allBytes hs with
    | some (c :: cs) => let r := consumeNumberChunks c 0 0 cs; s!"{r.1} {errStr r.2}"
    | _ => badArgs
  | "chunkL", l :: hs =>
    match bytesOfHex l, allBytes hs with
    | some l, some (c :: cs) => let r := consumeLiteralChunks c l cs; s!"{r.1} {errStr r.2}"
    | _, _ => badArgs
  | "chunkW", hs =>
    match allBytes hs with
    | some (c :: cs) => let r := consumeWhitespaceChunks c 0 cs; s!"{r.1} {errStr r.2}"
    | _ => badArgs
  | _, _ => "ERR unimplemented"

end JsonV.Oracle.Dec
