/-
Oracle ops for the `fmt` family (C12).

  fmt compact <hex>                                   → "ok <hex>" | "E"      model of Value.Compact()
  fmt indent <prefixhex> <indenthex> <hex>            → "ok <hex>" | "E"      model of Value.Indent(WithIndentPrefix, WithIndent)
  fmt render <m><c><k> <prefixhex> <indenthex> <hex>  → "ok <hex>" | "E"      m=Multiline c=SpaceAfterColon k=SpaceAfterComma (0/1)
  fmt formatv <u><d><p><h><j> <m><c><k> <prefixhex> <indenthex> <hex> → "ok <hex>" | "E"
        model of Value.Format(AllowInvalidUTF8(u), AllowDuplicateNames(d), PreserveRawStrings(p), EscapeForHTML(h), EscapeForJS(j), whitespace…)
  fmt validv <u><d> <hex>                             → "1" | "0"             model of Value.IsValid(AllowInvalidUTF8(u), AllowDuplicateNames(d))
  fmt tokens <hex>                                    → "ok" {" {"|" }"|" ["|" ]"|" s<hex>"|" d<hex>"|" n"|" t"|" f"} | "E"
-/
import JsonV.Oracle.Util
import JsonV.Model.Format
import JsonV.Model.FormatStrict

namespace JsonV.Oracle.Fmt
open JsonV JsonV.Oracle JsonV.Fmt

def showRes : Option Bytes → String
  | some b => "ok " ++ hexOfBytes b
  | none => "E"

def showTok : Tok → String
  | .bo => " {" | .eo => " }" | .ba => " [" | .ea => " ]"
  | .str raw => " s" ++ hexOfBytes raw
  | .num raw => " d" ++ hexOfBytes raw
  | .null => " n" | .tru => " t" | .fls => " f"

def flag (c : Char) : Option Bool :=
  if c == '1' then some true else if c == '0' then some false else none

def handle (op : String) (args : List String) : String :=
  match op, args with
  | "compact", [h] =>
    match bytesOfHex h with
    | some b => showRes (compact b)
    | none => badArgs
  | "indent", [p, i, h] =>
    match bytesOfHex p, bytesOfHex i, bytesOfHex h with
    | some p, some i, some b => showRes (indent p i b)
    | _, _, _ => badArgs
  | "render", [f, p, i, h] =>
    match f.toList, bytesOfHex p, bytesOfHex i, bytesOfHex h with
    | [m, c, k], some p, some i, some b =>
      match flag m, flag c, flag k with
      | some m, some c, some k => showRes (format ⟨p, i, m, c, k⟩ b)
      | _, _, _ => badArgs
    | _, _, _, _ => badArgs
  | "formatv", [v, f, p, i, h] =>
    match v.toList.map flag, f.toList.map flag, bytesOfHex p, bytesOfHex i, bytesOfHex h with
    | [some u, some d, some pr, some ht, some js], [some m, some c, some k], some p, some i, some b =>
      showRes (formatV { allowInvalidUTF8 := u, allowDup := d, preserve := pr, html := ht, js := js, ws := ⟨p, i, m, c, k⟩ } b)
    | _, _, _, _, _ => badArgs
  | "validv", [v, h] =>
    match v.toList.map flag, bytesOfHex h with
    | [some u, some d], some b => boolStr (isValidV { allowInvalidUTF8 := u, allowDup := d } b)
    | _, _ => badArgs
  | "tokens", [h] =>
    match bytesOfHex h with
    | some b =>
      match tokenize b with
      | some ts => ts.foldl (fun acc t => acc ++ showTok t) "ok"
      | none => "E"
    | none => badArgs
  | _, _ => badArgs

end JsonV.Oracle.Fmt
