/-
Oracle ops for the `num` family (C10).  Byte strings are lowercase hex, empty = `-`.

  num puint <hex>                          → `<v> <0|1>`                 jsonwire.ParseUint
  num int  <bits> <hex>                    → `ok <v>` | `E syntax` | `E range`      int arshaler, `case '0'` arm
  num uint <bits> <hex>                    → `ok <v>` | `E syntax` | `E range`      uint arshaler
  num intv  <bits> <stringify 0|1> <kind n|s|0|x> <hex>   → `set <v>` | `null` | `E syntax|range|mismatch`
  num uintv <bits> <stringify 0|1> <kind n|s|0|x> <hex>   → same (hex = literal, or unquoted content for kind s)
  num floatv <32|64> <stringify 0|1> <kind n|s|0|x> <hex>  → `set <ieee bits, decimal>` | `null` | `E syntax|range|mismatch`   float unmarshaler
  num floatlegacy <32|64> <hex>            → `set <bits>` | `null` | `E syntax|range`   the StringifyWithLegacySemantics arm (hex = unquoted
                                             content: a JSON number, `null`, or something neither Go nor JSON accepts)
  num tokint  <hex>                        → `<v> <none|syntax|range>`   Token.Int on a raw number
  num tokuint <hex>                        → `<v> <none|syntax|range>`   Token.Uint
  num tokfloat <32|64> <hex>               → `<ieee bits, decimal> <none|range>`   Token.Float / exact ParseFloat
  num ttok <i|u|f|F> <arg>                 → `<int> <err> <uint> <err> <f64 bits> <err> <f32 bits> <err>`: Token.Int/Uint/Float/Float32 of the
                                             typed token jsontext.Int(arg) | Uint(arg) | Float(float64frombits(arg)) | Float32(float32frombits(arg))
                                             (arg decimal; finite floats only)
  num fmtfloat <neg 0|1> <digits|-> <dp>   → hex of jsonwire.AppendFloat's text for 0.d₁…d_k × 10^dp
  num ecma     <neg 0|1> <digits|-> <n>    → hex of the ECMA-262 Number::toString layout (Spec.Ecma)
  num fmtint <decimal>                     → hex of strconv.AppendInt(…, 10)
  num reformat <ints 0|1> <floats 0|1> <hex> → `V <hex>` (copied verbatim) | `F <float64 bits, decimal>`
                                             (AppendFloat of that value is emitted)
-/
import JsonV.Oracle.Util
import JsonV.Model.Number
import JsonV.Spec.Ecma

namespace JsonV.Oracle.Num
open JsonV JsonV.Oracle JsonV.Model.Number

def showArshErr : ArshErr → String
  | .syntax => "E syntax" | .range => "E range" | .mismatch => "E mismatch"

def showNumErr : NumErr → String
  | .none => "none" | .syntax => "syntax" | .range => "range"

def parseDigits (s : String) : Option (List Nat) :=
  if s == "-" then some [] else
  s.toList.foldr (fun c acc => match acc with
    | some l => if '0' ≤ c ∧ c ≤ '9' then some ((c.toNat - 48) :: l) else none
    | none => none) (some [])

def parseKind : String → Option VKind
  | "n" => some .null | "s" => some .str | "0" => some .num | "x" => some .other | _ => none

def showStored {α} [ToString α] : Stored α → String
  | .set v => s!"set {v}" | .null => "null" | .err e => showArshErr e

def fmtOf : String → Option FloatFmt
  | "64" => some fmt64 | "32" => some fmt32 | _ => none

def pf64 : Bytes → Fl := parseFloatExact fmt64

def handle (op : String) (args : List String) : String :=
  match op, args with
  | "puint", [h] => match bytesOfHex h with
    | some b => let (v, ok) := parseUint b; s!"{v} {boolStr ok}"
    | none => badArgs
  | "int", [bits, h] => match bits.toNat?, bytesOfHex h with
    | some w, some b => (match unmarshalInt w b with | .ok v => s!"ok {v}" | .error e => showArshErr e)
    | _, _ => badArgs
  | "uint", [bits, h] => match bits.toNat?, bytesOfHex h with
    | some w, some b => (match unmarshalUint w b with | .ok v => s!"ok {v}" | .error e => showArshErr e)
    | _, _ => badArgs
  | "intv", [bits, st, k, h] => match bits.toNat?, parseKind k, bytesOfHex h with
    | some w, some k, some b => showStored (unmarshalIntValue w (st == "1") k b)
    | _, _, _ => badArgs
  | "uintv", [bits, st, k, h] => match bits.toNat?, parseKind k, bytesOfHex h with
    | some w, some k, some b => showStored (unmarshalUintValue w (st == "1") k b)
    | _, _, _ => badArgs
  | "floatv", [bits, st, k, h] => match fmtOf bits, parseKind k, bytesOfHex h with
    | some ff, some k, some b =>
      (match unmarshalFloatValue (parseFloatExact ff) (st == "1") k b with
       | .set f => s!"set {f.toBits ff}" | .null => "null" | .err e => showArshErr e)
    | _, _, _ => badArgs
  | "floatlegacy", [bits, h] => match fmtOf bits, bytesOfHex h with
    | some ff, some b =>
      (match unmarshalFloatLegacy (pfGoOnJson JsonV.Spec.Ecma.isJsonNumber ff) b with
       | .set f => s!"set {f.toBits ff}" | .null => "null" | .err e => showArshErr e)
    | _, _ => badArgs
  | "tokint", [h] => match bytesOfHex h with
    | some b => let (v, e) := tokenInt pf64 b; s!"{v} {showNumErr e}"
    | none => badArgs
  | "tokuint", [h] => match bytesOfHex h with
    | some b => let (v, e) := tokenUint pf64 b; s!"{v} {showNumErr e}"
    | none => badArgs
  | "tokfloat", [bits, h] => match fmtOf bits, bytesOfHex h with
    | some ff, some b => let (f, e) := tokenFloat (parseFloatExact ff) b; s!"{f.toBits ff} {showNumErr e}"
    | _, _ => badArgs
  | "ttok", [ctor, arg] =>
    let tok : Option Tok := match ctor, arg.toInt? with
      | "i", some n => some (mkInt n)
      | "u", some n => some (mkUint n.toNat)
      | "f", some n => some (mkFloat (Fl.ofBits fmt64 n.toNat) false)
      | "F", some n => some (mkFloat (Fl.ofBits fmt32 n.toNat) true)
      | _, _ => none
    match tok with
    | some t =>
      let pf32 := parseFloatExact fmt32
      let (i, ie) := tokInt pf64 t
      let (u, ue) := tokUint pf64 t
      let (f, fe) := tokFloat64 pf64 pf32 t
      let (g, ge) := tokFloat32 pf64 pf32 t
      s!"{i} {showNumErr ie} {u} {showNumErr ue} {(roundFl fmt64 f).toBits fmt64} {showNumErr fe} {(roundFl fmt32 g).toBits fmt32} {showNumErr ge}"
    | none => badArgs
  | "fmtfloat", [neg, ds, dp] => match parseDigits ds, dp.toInt? with
    | some ds, some dp => hexOfBytes (appendFloat (neg == "1") ds dp)
    | _, _ => badArgs
  | "ecma", [neg, ds, n] => match parseDigits ds, n.toInt? with
    | some ds, some n => hexOfBytes (JsonV.Spec.Ecma.numberToString (neg == "1") ds n)
    | _, _ => badArgs
  | "fmtint", [d] => match d.toInt? with
    | some i => hexOfBytes (formatInt i)
    | none => badArgs
  | "reformat", [ci, cf, h] => match bytesOfHex h with
    | some b =>
      let out := reformatNumber pf64 (fun f => 70 :: (toString (f.toBits fmt64)).toUTF8.toList) (ci == "1") (cf == "1") b
      (match out with
       | 70 :: rest => "F " ++ String.ofList (rest.map (fun c => Char.ofNat c.toNat))
       | _ => "V " ++ hexOfBytes out)
    | none => badArgs
  | _, _ => badArgs

end JsonV.Oracle.Num
