/-
Oracle ops for the `ptr` family (C16): jsontext.Pointer methods and appendStackPointer.

  ptr valid h | contains h1 h2 | parent h | last h | append h tok | tokens h | esc h | unesc h
  ptr sp w t1 t2 …    model of appendStackPointer(nil, w) after the token history   (w ∈ -1 0 1)
  ptr spm w t1 t2 …   the same on the packed state machine (Model/State.lean) + names stack
  ptr sidx t1 t2 …    StackDepth and StackIndex(0..depth) read off the packed machine: `d k0:n0 … kd:nd`
  ptr errptr w mm t1 … | r1 …   JSONPointer of wrapSyntacticError (errors.go) after the history, with the
                        pointerSuffixError built from the refs (n<hex> name, i<num> index), mm = mismatched-delimiter branch
  ptr spec w t1 t2 …  render (pointerOf w history)                                   (the declarative side)
      tokens: `{` `}` `[` `]` `l` (literal/number) `s<hex>` (string; `s-` = empty)
Answers: hex byte strings (`-` = empty), `0`/`1`, token lists as `n tok1 … tokn`, `E` = rejected history / panic.
-/
import JsonV.Oracle.Util
import JsonV.Model.Pointer
import JsonV.Spec.PointerSpec

namespace JsonV.Oracle.Ptr
open JsonV JsonV.Oracle JsonV.Model.Pointer

def parseTok (s : String) : Option Tok :=
  match s with
  | "{" => some .beginObj
  | "}" => some .endObj
  | "[" => some .beginArr
  | "]" => some .endArr
  | "l" => some .scalar
  | _ => if s.startsWith "s" then (bytesOfHex (s.drop 1).toString).map .str else none

def parseHist (args : List String) : Option (List Tok) := args.mapM parseTok

def parseWhere (s : String) : Option Int :=
  match s with
  | "-1" => some (-1)
  | "0" => some 0
  | "1" => some 1
  | _ => none

def handle (op : String) (args : List String) : String :=
  match op, args with
  | "valid", [h] => match bytesOfHex h with
    | some p => boolStr (isValid p)
    | none => badArgs
  | "contains", [h1, h2] => match bytesOfHex h1, bytesOfHex h2 with
    | some p, some q => boolStr (contains p q)
    | _, _ => badArgs
  | "parent", [h] => match bytesOfHex h with
    | some p => hexOfBytes (parent p)
    | none => badArgs
  | "last", [h] => match bytesOfHex h with
    | some p => hexOfBytes (lastToken p)
    | none => badArgs
  | "append", [h, t] => match bytesOfHex h, bytesOfHex t with
    | some p, some t => hexOfBytes (appendToken p t)
    | _, _ => badArgs
  | "tokens", [h] => match bytesOfHex h with
    | some p => let ts := tokens p; " ".intercalate (toString ts.length :: ts.map hexOfBytes)
    | none => badArgs
  | "esc", [h] => match bytesOfHex h with
    | some p => hexOfBytes (escape p)
    | none => badArgs
  | "unesc", [h] => match bytesOfHex h with
    | some p => hexOfBytes (unescape p)
    | none => badArgs
  | "sp", w :: hist => match parseWhere w, parseHist hist with
    | some w, some hist => match AState.init.run hist with
      | some s => match appendStackPointer s [] w with
        | some b => hexOfBytes b
        | none => "E"
      | none => "E"
    | _, _ => badArgs
  | "spm", w :: hist => match parseWhere w, parseHist hist with
    | some w, some hist => match MState.run 10000 {} hist with
      | .ok s => match s.appendStackPointer [] w with
        | some b => hexOfBytes b
        | none => "E"
      | .error _ => "E"
    | _, _ => badArgs
  | "sidx", hist => match parseHist hist with
    | some hist => match MState.run 10000 {} hist with
      | .ok s =>
        let d := stackDepth s.m
        let cells := (List.range (d + 1)).map fun i => match stackIndex s.m i with
          | some (k, n) => s!"{k.toNat}:{n}"
          | none => "E"
        " ".intercalate (toString d :: cells)
      | .error _ => "E"
    | none => badArgs
  | "errptr", w :: mm :: rest =>
    -- ptr errptr <w> <mismatch 0|1> <hist…> | <suffix refs outermost first: n<hex> i<num>…>
    let hist := rest.takeWhile (· != "|")
    let refs := (rest.dropWhile (· != "|")).drop 1
    let parseRef (t : String) : Option Spec.Pointer.Ref :=
      if t.startsWith "n" then (bytesOfHex (t.drop 1).toString).map .name
      else if t.startsWith "i" then (t.drop 1).toString.toNat?.map .index
      else none
    match parseWhere w, parseHist hist, refs.mapM parseRef with
    | some w, some hist, some refs => match MState.run 10000 {} hist with
      | .ok s =>
        let rev := refs.reverse.foldl (fun rev r => match r with
          | .name n => wrapWithObjectName rev n
          | .index i => wrapWithArrayIndex rev i) []
        match wrapSyntacticErrorPtr s.view w (some rev) (mm == "1") with
        | some b => hexOfBytes b
        | none => "E"
      | .error _ => "E"
    | _, _, _ => badArgs
  | "spec", w :: hist => match parseWhere w, parseHist hist with
    | some w, some hist => match Spec.Pointer.pointerOf w hist with
      | some p => hexOfBytes (Spec.Pointer.renderPath p)
      | none => "E"
    | _, _ => badArgs
  | _, _ => badArgs

end JsonV.Oracle.Ptr
