/-
Oracle ops for the `flush` family (C07): the byte-level helpers of wire.go and the byte part of
UnwriteEmptyObjectMember / avoidFlush, computed by the models of JsonV.Model.Flush.

  flush trimws <hex>            TrimSuffixWhitespace            → hex
  flush trimstr <hex>           TrimSuffixString                → hex
  flush trimbyte <hex> <byte>   TrimSuffixByte                  → hex
  flush hassuffix <hex> <byte>  HasSuffixByte                   → 0|1
  flush unwE <hex>              UnwriteEmptyObjectMember bytes  → "<0|1> <hex>" | "P" (Go slices out of range)
  flush unwN <hex>              UnwriteOnlyObjectMemberName     → hex
  flush ends <hex>              the `ll "" {} []` test of avoidFlush → 0|1
-/
import JsonV.Oracle.Util
import JsonV.Model.Flush

namespace JsonV.Oracle.Flush
open JsonV JsonV.Oracle JsonV.Model.Flush

def byteOfHex (s : String) : Option UInt8 :=
  match bytesOfHex s with
  | some [b] => some b
  | _ => none

def handle (op : String) (args : List String) : String :=
  match op, args with
  | "trimws", [h] => match bytesOfHex h with
    | some b => hexOfBytes (trimSuffixWhitespace b)
    | none => badArgs
  | "trimstr", [h] => match bytesOfHex h with
    | some b => hexOfBytes (trimSuffixString b)
    | none => badArgs
  | "trimbyte", [h, c] => match bytesOfHex h, byteOfHex c with
    | some b, some c => hexOfBytes (trimSuffixByte b c)
    | _, _ => badArgs
  | "hassuffix", [h, c] => match bytesOfHex h, byteOfHex c with
    | some b, some c => boolStr (hasSuffixByte b c)
    | _, _ => badArgs
  | "unwE", [h] => match bytesOfHex h with
    | some b => match unwriteEmptyBytes b with
      | some (b', ok) => s!"{boolStr ok} {hexOfBytes b'}"
      | none => "P"
    | none => badArgs
  | "unwN", [h] => match bytesOfHex h with
    | some b => hexOfBytes (unwriteNameBytes b)
    | none => badArgs
  | "ends", [h] => match bytesOfHex h with
    | some b => boolStr (decide (b.length ≥ 2) && endsEmptyR b.reverse)
    | none => badArgs
  | _, _ => "ERR unimplemented"

end JsonV.Oracle.Flush
