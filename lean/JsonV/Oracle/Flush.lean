/-
Oracle ops for the `flush` family.  Owned by the slice that models it; see AGENT_GUIDE.md.
-/
import JsonV.Oracle.Util

namespace JsonV.Oracle.Flush
open JsonV JsonV.Oracle

def handle (op : String) (args : List String) : String :=
  match op, args with
  | _, _ => "ERR unimplemented"

end JsonV.Oracle.Flush
