/-
Oracle ops for the `time` family (C04): the integer codecs of arshal_time.go.

  time durB10 <d> <pow10>        -> hex of appendDurationBase10(nil, d, pow10)
  time pdurB10 <hex> <pow10>     -> "ok <d>" | "E syntax" | "E range"
  time durISO <d>                -> hex of appendDurationISO8601(nil, d)
  time pdurISO <hex>             -> "ok <d>" | "inacc <d>" | "E syntax" | "E range"   (prefix "F " when the float branch was used; "U" when the result depends on strconv.ParseFloat of a non-digit fraction)
  time tunix <sec> <nsec> <pow10>-> hex of appendTimeUnix(nil, time.Unix(sec,nsec), pow10)
  time ptunix <hex> <pow10>      -> "ok <sec> <nsec>" | "E syntax" | "E range"
  time puint <hex>               -> "<v> <0|1>"   (jsonwire.ParseUint)
  time negate <sec> <nsec>       -> "<sec> <nsec>"
  time padded <n> <max10>        -> hex of appendPaddedBase10(nil, n, max10)
  time ppadded <hex> <max10>     -> "<n> <0|1>"
  time dec2 <hex>                -> "<n>"
-/
import JsonV.Oracle.Util
import JsonV.Model.Time

namespace JsonV.Oracle.Time
open JsonV JsonV.Oracle JsonV.Model.Time

def errStr : Err → String
  | .syntax => "E syntax"
  | .range => "E range"
  | .inaccurate => "E inaccurate"

/-! Exact evaluation of the float branch of `mayParseUnit` for a fraction made of decimal digits only:
`uint64(math.Round(strconv.ParseFloat("0."+frac, 64) * float64(unit)))` with IEEE-754 binary64
round-to-nearest-even for the parse and for the product, and round-half-away-from-zero for math.Round.
A double is represented as `m * 2^(-e)` with `m < 2^53`, `e ≤ 1074`. -/

/-- round-to-nearest-even of `p / q` (q > 0) to an integer. -/
def rne (p q : Nat) : Nat :=
  let f := p / q
  let r := p % q
  if 2 * r < q then f else if 2 * r > q then f + 1 else if f % 2 = 0 then f else f + 1

/-- nearest double to `p / q` (`0 < p`, `0 < q`, value `< 2^53`): returns `(m, e)` meaning `m / 2^e`, `e ≤ 1074`. -/
def toDouble (p q : Nat) : Nat × Nat :=
  -- find the largest e ≤ 1074 with p*2^e/q < 2^53 (value < 2^53 guarantees e = 0 works)
  let rec go (fuel e : Nat) : Nat :=
    match fuel with
    | 0 => e
    | fuel + 1 => if e < 1074 ∧ p * 2 ^ (e + 1) / q < 2 ^ 53 then go fuel (e + 1) else e
  let e := go 1100 0
  let m := rne (p * 2 ^ e) q
  if m = 2 ^ 53 ∧ e > 0 then (2 ^ 52, e - 1) else (m, e)

def allDigits (b : Bytes) : Bool := b.all isDigit
def decVal (b : Bytes) : Nat := b.foldl (fun a c => a * 10 + digitVal c) 0

/-- the float branch for digit-only fractions; `none` for anything else is NOT claimed: see `floatFrac`. -/
def floatFracDigits (frac : Bytes) (unit : Nat) : Nat :=
  let p := decVal frac
  if p = 0 then 0 else
  let (m, e) := toDouble p (10 ^ frac.length)            -- f = m / 2^e
  if m = 0 then 0 else
  -- product f * unit, rounded to a double: (m*unit) / 2^e
  let (m2, e2) := toDouble (m * unit) (2 ^ e)
  -- math.Round: half away from zero on the exact double m2 / 2^e2
  (2 * m2 + 2 ^ e2) / 2 ^ (e2 + 1)

/-- Oracle instances of the model parameter: exact for digit-only fractions.  For other fractions (e.g. "1.e5H",
where strconv.ParseFloat decides) the two instances answer differently (error / 0); when the final results
differ the oracle answers "U" (not modelled) instead of guessing. -/
def floatFracA : FloatFrac := fun frac unit =>
  if frac.length > 0 ∧ allDigits frac then some (floatFracDigits frac unit) else none
def floatFracB : FloatFrac := fun frac unit =>
  if frac.length > 0 ∧ allDigits frac then some (floatFracDigits frac unit) else some 0

def handle (op : String) (args : List String) : String :=
  match op, args with
  | "durB10", [d, p] =>
    match d.toInt?, p.toNat? with
    | some d, some p => hexOfBytes (appendDurationBase10 [] d p)
    | _, _ => badArgs
  | "pdurB10", [h, p] =>
    match bytesOfHex h, p.toNat? with
    | some b, some p => match parseDurationBase10 b p with
      | .ok d => s!"ok {d}"
      | .error e => errStr e
    | _, _ => badArgs
  | "durISO", [d] =>
    match d.toInt? with
    | some d => hexOfBytes (appendDurationISO8601 [] d)
    | none => badArgs
  | "pdurISO", [h] =>
    match bytesOfHex h with
    | some b =>
      let (d, e, fl) := parseDurationISO8601 floatFracA b
      let (d2, e2, _) := parseDurationISO8601 floatFracB b
      let pre := if fl then "F " else ""
      if d ≠ d2 ∨ e ≠ e2 then "U" else
      match e with
      | none => s!"{pre}ok {d}"
      | some .inaccurate => s!"{pre}inacc {d}"
      | some e => pre ++ errStr e
    | none => badArgs
  | "tunix", [s, n, p] =>
    match s.toInt?, n.toInt?, p.toNat? with
    | some s, some n, some p => hexOfBytes (appendTimeUnix [] s n p)
    | _, _, _ => badArgs
  | "ptunix", [h, p] =>
    match bytesOfHex h, p.toNat? with
    | some b, some p => match parseTimeUnix b p with
      | .ok (s, n) => s!"ok {s} {n}"
      | .error e => errStr e
    | _, _ => badArgs
  | "puint", [h] =>
    match bytesOfHex h with
    | some b => let (v, ok) := parseUint b; s!"{v} {boolStr ok}"
    | none => badArgs
  | "negate", [s, n] =>
    match s.toInt?, n.toInt? with
    | some s, some n => let (a, b) := negateSecNano s n; s!"{a} {b}"
    | _, _ => badArgs
  | "padded", [n, m] =>
    match n.toNat?, m.toNat? with
    | some n, some m => hexOfBytes (appendPaddedBase10 [] n m)
    | _, _ => badArgs
  | "ppadded", [h, m] =>
    match bytesOfHex h, m.toNat? with
    | some b, some m => let (n, ok) := parsePaddedBase10 b m; s!"{n} {boolStr ok}"
    | _, _ => badArgs
  | "dec2", [h] =>
    match bytesOfHex h with
    | some b => s!"{(parseDec2 b).toNat}"
    | none => badArgs
  | _, _ => "ERR unimplemented"

end JsonV.Oracle.Time
