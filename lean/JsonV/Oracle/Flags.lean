/-
Oracle ops for the `flags` and `opts` families (C19).
-/
import JsonV.Oracle.Util
import JsonV.Model.Opts

namespace JsonV.Oracle.Flags
open JsonV JsonV.Model JsonV.Oracle

def showFlags (f : Model.Flags) : String := s!"{hexOfBv f.presence} {hexOfBv f.values}"

def handleFlags (op : String) (args : List String) : String :=
  match op, args.map bv64OfHex with
  | "join", [some a, some b, some c, some d] => showFlags (Model.Flags.join ⟨a, b⟩ ⟨c, d⟩)
  | "set", [some a, some b, some f] => showFlags (Model.Flags.set ⟨a, b⟩ f)
  | "clear", [some a, some b, some f] => showFlags (Model.Flags.clear ⟨a, b⟩ f)
  | "get", [some a, some b, some f] => boolStr (Model.Flags.get ⟨a, b⟩ f)
  | "has", [some a, some b, some f] => boolStr (Model.Flags.has ⟨a, b⟩ f)
  | _, _ => badArgs

def intOfStr (s : String) : Option Int := s.toInt?

/-- Option lists are written in prefix form:
`N` nil, `B <hex>` bools, `T <0|1>`, `I <hex>`, `P <hex>`, `L <int>`, `D <int>`, `M <id>`, `U <id>`,
`S <n> <n options>` a *Struct obtained by joining the n options, `V1`/`V2` the default structs. -/
def parseOpts : Nat → List String → Nat → Option (List Opt × List String)
  | 0, _, _ => none
  | _, rest, 0 => some ([], rest)
  | fuel+1, toks, n+1 =>
    let one : Option (Opt × List String) :=
      match toks with
      | "N" :: r => some (.nil, r)
      | "V1" :: r => some (.struct defaultOptionsV1, r)
      | "V2" :: r => some (.struct defaultOptionsV2, r)
      | "B" :: h :: r => (bv64OfHex h).map (fun f => (.bools f, r))
      | "T" :: b :: r => some (.formatTagSupport (b == "1"), r)
      | "I" :: h :: r => (bytesOfHex h).map (fun s => (.indent s, r))
      | "P" :: h :: r => (bytesOfHex h).map (fun s => (.indentPrefix s, r))
      | "L" :: i :: r => (intOfStr i).map (fun n => (.byteLimit n, r))
      | "D" :: i :: r => (intOfStr i).map (fun n => (.depthLimit n, r))
      | "M" :: i :: r => i.toNat?.map (fun n => (.marshalers n, r))
      | "U" :: i :: r => i.toNat?.map (fun n => (.unmarshalers n, r))
      | "X" :: p :: v :: ind :: pre :: bl :: dl :: m :: u :: fmt :: r =>
          match bv64OfHex p, bv64OfHex v, bytesOfHex ind, bytesOfHex pre, intOfStr bl, intOfStr dl, m.toNat?, u.toNat?, bytesOfHex fmt with
          | some p, some v, some ind, some pre, some bl, some dl, some m, some u, some fmt =>
              some (.struct { flags := ⟨p, v⟩, indent := ind, indentPrefix := pre, byteLimit := bl, depthLimit := dl,
                              marshalers := m, unmarshalers := u, format := fmt }, r)
          | _, _, _, _, _, _, _, _, _ => none
      | "S" :: k :: r =>
          match k.toNat? with
          | some k => match parseOpts fuel r k with
            | some (os, r') => some (.struct (joinOptions os), r')
            | none => none
          | none => none
      | _ => none
    match one with
    | none => none
    | some (o, r) => match parseOpts fuel r n with
      | some (os, r') => some (o :: os, r')
      | none => none

def showStruct (s : Struct) : String :=
  s!"{showFlags s.flags} {hexOfBytes s.indent} {hexOfBytes s.indentPrefix} {s.byteLimit} {s.depthLimit} {s.marshalers} {s.unmarshalers} {hexOfBytes s.format}"

def showVal : Val → String
  | .bool b => boolStr b
  | .bytes s => hexOfBytes s
  | .int n => toString n
  | .ptr p => toString p

def parseKey : List String → Option (Key × List String)
  | "F" :: h :: r => (bv64OfHex h).map (fun f => (.flag f, r))
  | "T" :: r => some (.formatTagSupport, r)
  | "I" :: r => some (.indent, r)
  | "P" :: r => some (.indentPrefix, r)
  | "L" :: r => some (.byteLimit, r)
  | "D" :: r => some (.depthLimit, r)
  | "M" :: r => some (.marshalers, r)
  | "U" :: r => some (.unmarshalers, r)
  | _ => none

def handleOpts (op : String) (args : List String) : String :=
  match op, args with
  | "join", n :: rest =>
    match n.toNat? with
    | some n => match parseOpts (rest.length + 2) rest n with
      | some (os, []) => showStruct (joinOptions os)
      | _ => badArgs
    | none => badArgs
  | "get", rest =>
    match parseKey rest with
    | some (k, n :: rest) =>
      match n.toNat? with
      | some n => match parseOpts (rest.length + 2) rest n with
        | some (os, []) => let (v, ok) := (joinOptions os).getOption k; s!"{showVal v} {boolStr ok}"
        | _ => badArgs
      | none => badArgs
    | _ => badArgs
  | _, _ => badArgs

end JsonV.Oracle.Flags
