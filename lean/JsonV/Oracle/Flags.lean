/-
Oracle ops for the `flags` and `opts` families (C19).
-/
import JsonV.Oracle.Util
import JsonV.Model.Opts
import JsonV.Model.Scope

namespace JsonV.Oracle.Flags
open JsonV JsonV.Model JsonV.Oracle

def showFlags (f : Model.Flags) : String := s!"{hexOfBv f.presence} {hexOfBv f.values}"

def handleFlags (op : String) (args : List String) : String :=
  match op, args.map bv64OfHex with
  | "join", [some a, some b, some c, some d] => showFlags (Model.Flags.join ⟨a, b⟩ ⟨c, d⟩)
  | "set", [some a, some b, some f] => showFlags (Model.Flags.set ⟨a, b⟩ f)
  | "clear", [some a, some b, some f] => showFlags (Model.Flags.clear ⟨a, b⟩ f)
  | "get", [some a, some b, some f] => boolStr (Model.Flags.get ⟨a, b⟩ f)
  | "has", [some a, some b, some f] => boolStr (Model.Flags.has ⟨a, b⟩ f)
  | _, _ => badArgs

def intOfStr (s : String) : Option Int := s.toInt?

/-- Option lists are written in prefix form:
`N` nil, `B <hex>` bools, `T <0|1>`, `I <hex>`, `P <hex>`, `L <int>`, `D <int>`, `M <id>`, `U <id>`,
`S <n> <n options>` a *Struct obtained by joining the n options, `V1`/`V2` the default structs. -/
def parseOpts : Nat → List String → Nat → Option (List Opt × List String)
  | 0, _, _ => none
  | _, rest, 0 => some ([], rest)
  | fuel+1, toks, n+1 =>
    let one : Option (Opt × List String) :=
      match toks with
      | "N" :: r => some (.nil, r)
      | "V1" :: r => some (.struct defaultOptionsV1, r)
      | "V2" :: r => some (.struct defaultOptionsV2, r)
      | "B" :: h :: r => (bv64OfHex h).map (fun f => (.bools f, r))
      | "T" :: b :: r => some (.formatTagSupport (b == "1"), r)
      | "I" :: h :: r => (bytesOfHex h).map (fun s => (.indent s, r))
      | "P" :: h :: r => (bytesOfHex h).map (fun s => (.indentPrefix s, r))
      | "L" :: i :: r => (intOfStr i).map (fun n => (.byteLimit n, r))
      | "D" :: i :: r => (intOfStr i).map (fun n => (.depthLimit n, r))
      | "M" :: i :: r => i.toNat?.map (fun n => (.marshalers n, r))
      | "U" :: i :: r => i.toNat?.map (fun n => (.unmarshalers n, r))
      | "X" :: p :: v :: ind :: pre :: bl :: dl :: m :: u :: fmt :: r =>
          match bv64OfHex p, bv64OfHex v, bytesOfHex ind, bytesOfHex pre, intOfStr bl, intOfStr dl, m.toNat?, u.toNat?, bytesOfHex fmt with
          | some p, some v, some ind, some pre, some bl, some dl, some m, some u, some fmt =>
              some (.struct { flags := ⟨p, v⟩, indent := ind, indentPrefix := pre, byteLimit := bl, depthLimit := dl,
                              marshalers := m, unmarshalers := u, format := fmt }, r)
          | _, _, _, _, _, _, _, _, _ => none
      | "S" :: k :: r =>
          match k.toNat? with
          | some k => match parseOpts fuel r k with
            | some (os, r') => some (.struct (joinOptions os), r')
            | none => none
          | none => none
      | _ => none
    match one with
    | none => none
    | some (o, r) => match parseOpts fuel r n with
      | some (os, r') => some (o :: os, r')
      | none => none

def showStruct (s : Struct) : String :=
  s!"{showFlags s.flags} {hexOfBytes s.indent} {hexOfBytes s.indentPrefix} {s.byteLimit} {s.depthLimit} {s.marshalers} {s.unmarshalers} {hexOfBytes s.format}"

def showVal : Val → String
  | .bool b => boolStr b
  | .bytes s => hexOfBytes s
  | .int n => toString n
  | .ptr p => toString p

def parseKey : List String → Option (Key × List String)
  | "F" :: h :: r => (bv64OfHex h).map (fun f => (.flag f, r))
  | "T" :: r => some (.formatTagSupport, r)
  | "I" :: r => some (.indent, r)
  | "P" :: r => some (.indentPrefix, r)
  | "L" :: r => some (.byteLimit, r)
  | "D" :: r => some (.depthLimit, r)
  | "M" :: r => some (.marshalers, r)
  | "U" :: r => some (.unmarshalers, r)
  | _ => none

/-! ### scope ops (C19 "scoped") -/
open JsonV.Model.Scope in
/-- Callee trees in prefix form: `K` skip, `F <fatal>`, `C <t|s|f>`, `Q a b`, `U body`,
`M <marshal> <string> <formathex> body`, `L <marshal> <needName> <n> <n options> body`. -/
def parseAct : Nat → List String → Option (Act × List String)
  | 0, _ => none
  | fuel+1, toks =>
    match toks with
    | "K" :: r => some (.skip, r)
    | "F" :: f :: r => some (.fail (f == "1"), r)
    | "C" :: "t" :: r => some (.clear .tags, r)
    | "C" :: "s" :: r => some (.clear .string, r)
    | "C" :: "f" :: r => some (.clear .format, r)
    | "Q" :: r =>
      match parseAct fuel r with
      | some (a, r1) => match parseAct fuel r1 with
        | some (b, r2) => some (.seq a b, r2)
        | none => none
      | none => none
    | "U" :: r => (parseAct fuel r).map (fun (a, r1) => (.user a, r1))
    | "M" :: mar :: str :: fmt :: r =>
      match bytesOfHex fmt, parseAct fuel r with
      | some f, some (a, r1) => some (.member (mar == "1") (str == "1") f a, r1)
      | _, _ => none
    | "L" :: mar :: nn :: n :: r =>
      match n.toNat? with
      | some n => match parseOpts (r.length + 2) r n with
        | some (os, r1) => (parseAct fuel r1).map (fun (a, r2) => (.call (mar == "1") os (nn == "1") a, r2))
        | none => none
      | none => none
    | _ => none

def showOutcome : Scope.Outcome → String
  | .ok => "ok"
  | .err true => "errF"
  | .err false => "errN"

def parseStruct (toks : List String) : Option (Struct × List String) :=
  match parseOpts 4 ("X" :: toks) 1 with
  | some ([.struct s], r) => some (s, r)
  | _ => none

open JsonV.Model.Scope in
/-- `at`: the struct a callee sees after a path of `J <marshal> <g> <n> <options>` (call entry), `m <string> <format>`
(struct member), `c <t|s|f>` (clear), `u` (user call), `Z <marshal> <g> <n> <options>` (pooled entry point). -/
def walk : Nat → Struct → List String → Option Struct
  | 0, _, _ => none
  | _, s, [] => some s
  | fuel+1, s, "J" :: mar :: g :: n :: r =>
    match n.toNat? with
    | some n => match parseOpts (r.length + 2) r n with
      | some (os, r1) =>
        let o := callOpts (g == "1") os
        walk fuel (if o.isEmpty then s else if mar == "1" then enterMarshal o s else enterUnmarshal o s) r1
      | none => none
    | none => none
  | fuel+1, _, "Z" :: mar :: g :: n :: r =>   -- json.Marshal / json.Unmarshal: pooled coder reset with the call options
    match n.toNat? with
    | some n => match parseOpts (r.length + 2) r n with
      | some (os, r1) => walk fuel (enterPooled (g == "1") (mar == "1") os) r1
      | none => none
    | none => none
  | fuel+1, s, "m" :: str :: fmt :: r =>
    match bytesOfHex fmt with
    | some f => walk fuel (tagged (str == "1") f s) r
    | none => none
  | fuel+1, s, "c" :: k :: r =>
    let w := if k == "t" then ClearKind.tags else if k == "s" then ClearKind.string else ClearKind.format
    walk fuel { s with flags := s.flags.clear w.word } r
  | fuel+1, s, "u" :: r =>
    walk fuel { s with flags := s.flags.set (bv (JsonV.Gen.jsonflags.c_WithinArshalCall + 1)) } r
  | _, _, _ => none

open JsonV.Model.Scope in
def handleScope (op : String) (args : List String) : Option String :=
  match op, args with
  | "exec", g :: rest =>
    match parseStruct rest with
    | some (s, r) => match parseAct (r.length + 2) r with
      | some (a, []) => let res := exec (g == "1") a s; some s!"{showStruct res.1} {showOutcome res.2}"
      | _ => none
    | none => none
  | "at", rest =>
    match parseStruct rest with
    | some (s, r) => (walk (r.length + 2) s r).map showStruct
    | none => none
  | "newcoder", enc :: n :: rest =>
    match n.toNat? with
    | some n => match parseOpts (rest.length + 2) rest n with
      | some (os, []) => some (showStruct (newCoder (enc == "1") os))
      | _ => none
    | none => none
  | "pooled", g :: mar :: n :: rest =>
    match n.toNat? with
    | some n => match parseOpts (rest.length + 2) rest n with
      | some (os, []) => some (showStruct (enterPooled (g == "1") (mar == "1") os))
      | _ => none
    | none => none
  | "guards", g :: nn :: rest =>
    match parseStruct rest with
    | some (s, n :: r) =>
      match n.toNat? with
      | some n => match parseOpts (r.length + 2) r n with
        | some (os, []) =>
          let o := callOpts (g == "1") os
          some s!"{boolStr (nameGuardFails (nn == "1") s (s.join o))} {boolStr (wsGuardFails o s)}"
        | _ => none
      | none => none
    | _ => none
  | _, _ => none

def handleOpts (op : String) (args : List String) : String :=
  if op == "exec" || op == "at" || op == "newcoder" || op == "pooled" || op == "guards" then
    (handleScope op args).getD badArgs
  else
  match op, args with
  | "join", n :: rest =>
    match n.toNat? with
    | some n => match parseOpts (rest.length + 2) rest n with
      | some (os, []) => showStruct (joinOptions os)
      | _ => badArgs
    | none => badArgs
  | "get", rest =>
    match parseKey rest with
    | some (k, n :: rest) =>
      match n.toNat? with
      | some n => match parseOpts (rest.length + 2) rest n with
        | some (os, []) => let (v, ok) := (joinOptions os).getOption k; s!"{showVal v} {boolStr ok}"
        | _ => badArgs
      | none => badArgs
    | _ => badArgs
  | _, _ => badArgs

end JsonV.Oracle.Flags
