/-
Oracle ops for the `wire` family (C01; models: Model/WireDecode.lean, Model/Validate.lean).

Arguments: byte strings are lowercase hex, the empty string is `-`; numbers are decimal.
Error classes:  ok eof char esc utf8 dup depth ioeof fuel bug
  (eof = io.ErrUnexpectedEOF, ioeof = io.EOF, char = invalid character (also errMismatchDelim as
   re-reported by wrapSyntacticError), esc = invalid escape sequence / surrogate pair,
   utf8 = jsonwire.ErrInvalidUTF8, dup = ErrDuplicateName, depth = errMaxDepth).
Flags: decimal ValueFlags word (1 = stringNonVerbatim, 2 = stringNonCanonical).

  wire ws h                    → "n"                          ConsumeWhitespace
  wire lit h                   → "c0 c1 c2 n0 e0 n1 e1 n2 e2" ConsumeNull/False/True, then ConsumeLiteral with null/false/true
  wire sstr h                  → "n"                          ConsumeSimpleString
  wire str v h                 → "n flags err"                ConsumeString(validateUTF8 = v)
  wire strR v off h            → "n flags err"                ConsumeStringResumable(resumeOffset = off)
  wire snum h                  → "n"                          ConsumeSimpleNumber
  wire num h                   → "n err"                      ConsumeNumber
  wire numR off state h        → "n state err"                ConsumeNumberResumable
  wire unq h                   → "hex err"                    AppendUnquote(nil, h)
  wire hex4 h                  → "v ok"                       parseHexUint16 (v = 0 when !ok)
  wire esc16 lower h           → "0|1"                        hasEscapedUTF16Prefix
  wire trimws h | trimstr h    → "hex"                        TrimSuffixWhitespace / TrimSuffixString
  wire trimb c h               → "hex"                        TrimSuffixByte (c decimal)
  wire valid u d h             → "ok" | "E class off"         Value.IsValid framing: ws value ws, u = AllowInvalidUTF8, d = AllowDuplicateNames
  wire stream u d h            → "count class off"            ReadValue loop: values read, then ioeof at a boundary or the first error
  wire value u d depth h       → "n class"                    decoderState.consumeValue at the given depth on h (h non-empty)
-/
import JsonV.Oracle.Util
import JsonV.Model.Validate

namespace JsonV.Oracle.Wire
open JsonV JsonV.Oracle JsonV.Model.Wire JsonV.Model.Validate

def errStr : Err → String
  | .ok => "ok" | .eof => "eof" | .invalidChar => "char" | .invalidEscape => "esc" | .invalidUTF8 => "utf8"
  | .dupName => "dup" | .maxDepth => "depth" | .mismatchDelim => "char" | .ioEOF => "ioeof"
  | .fuel => "fuel" | .bug => "bug"

def b01 (s : String) : Option Bool := if s == "1" then some true else if s == "0" then some false else none

def handle (op : String) (args : List String) : String :=
  match op, args with
  | "ws", [h] => match bytesOfHex h with
    | some b => toString (consumeWhitespace b) | none => badArgs
  | "lit", [h] => match bytesOfHex h with
    | some b =>
      let l (lit : Bytes) := let (n, e) := consumeLiteral b lit; s!"{n} {errStr e}"
      s!"{consumeNull b} {consumeFalse b} {consumeTrue b} {l litNull} {l litFalse} {l litTrue}"
    | none => badArgs
  | "sstr", [h] => match bytesOfHex h with
    | some b => toString (consumeSimpleString b) | none => badArgs
  | "str", [v, h] => match b01 v, bytesOfHex h with
    | some v, some b => let (n, f, e) := consumeString b v; s!"{n} {f.toNat} {errStr e}"
    | _, _ => badArgs
  | "strR", [v, off, h] => match b01 v, off.toNat?, bytesOfHex h with
    | some v, some off, some b => let (n, f, e) := consumeStringResumable b off v; s!"{n} {f.toNat} {errStr e}"
    | _, _, _ => badArgs
  | "snum", [h] => match bytesOfHex h with
    | some b => toString (consumeSimpleNumber b) | none => badArgs
  | "num", [h] => match bytesOfHex h with
    | some b => let (n, e) := consumeNumber b; s!"{n} {errStr e}"
    | none => badArgs
  | "numR", [off, st, h] => match off.toNat?, st.toNat?, bytesOfHex h with
    | some off, some st, some b => let (n, st', e) := consumeNumberResumable b off st; s!"{n} {st'} {errStr e}"
    | _, _, _ => badArgs
  | "unq", [h] => match bytesOfHex h with
    | some b => let (o, e) := unquote b; s!"{hexOfBytes o} {errStr e}"
    | none => badArgs
  | "hex4", [h] => match bytesOfHex h with
    | some b => match parseHexUint16 b with
      | some v => s!"{v} 1"
      | none => "0 0"
    | none => badArgs
  | "esc16", [l, h] => match b01 l, bytesOfHex h with
    | some l, some b => boolStr (hasEscapedUTF16Prefix b l)
    | _, _ => badArgs
  | "trimws", [h] => match bytesOfHex h with
    | some b => hexOfBytes (trimSuffixWhitespace b) | none => badArgs
  | "trimstr", [h] => match bytesOfHex h with
    | some b => hexOfBytes (trimSuffixString b) | none => badArgs
  | "trimb", [c, h] => match c.toNat?, bytesOfHex h with
    | some c, some b => hexOfBytes (trimSuffixByte b (UInt8.ofNat c))
    | _, _ => badArgs
  | "valid", [u, d, h] => match b01 u, b01 d, bytesOfHex h with
    | some u, some d, some b =>
      let (n, e) := validText ⟨u, d⟩ b
      if e == .ok then "ok" else s!"E {errStr e} {n}"
    | _, _, _ => badArgs
  | "stream", [u, d, h] => match b01 u, b01 d, bytesOfHex h with
    | some u, some d, some b =>
      let (cnt, off, e) := stream ⟨u, d⟩ b
      s!"{cnt} {errStr e} {off}"
    | _, _, _ => badArgs
  | "value", [u, d, depth, h] => match b01 u, b01 d, depth.toNat?, bytesOfHex h with
    | some u, some d, some depth, some b =>
      let (n, e) := consumeValue ⟨u, d⟩ (fuelFor b) depth b
      s!"{n} {errStr e}"
    | _, _, _, _ => badArgs
  | _, _ => badArgs

end JsonV.Oracle.Wire
