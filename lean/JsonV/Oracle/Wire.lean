/-
Oracle ops for the `wire` family (C01; models: Model/WireDecode.lean, Model/Validate.lean).

Arguments: byte strings are lowercase hex, the empty string is `-`; numbers are decimal.
Error classes:  ok eof char esc utf8 dup depth ioeof fuel bug
  (eof = io.ErrUnexpectedEOF, ioeof = io.EOF, char = invalid character (also errMismatchDelim as
   re-reported by wrapSyntacticError), esc = invalid escape sequence / surrogate pair,
   utf8 = jsonwire.ErrInvalidUTF8, dup = ErrDuplicateName, depth = errMaxDepth).
Flags: decimal ValueFlags word (1 = stringNonVerbatim, 2 = stringNonCanonical).

  wire ws h                    → "n"                          ConsumeWhitespace
  wire lit h                   → "c0 c1 c2 n0 e0 n1 e1 n2 e2" ConsumeNull/False/True, then ConsumeLiteral with null/false/true
  wire sstr h                  → "n"                          ConsumeSimpleString
  wire str v h                 → "n flags err"                ConsumeString(validateUTF8 = v)
  wire strR v off h            → "n flags err"                ConsumeStringResumable(resumeOffset = off)
  wire snum h                  → "n"                          ConsumeSimpleNumber
  wire num h                   → "n err"                      ConsumeNumber
  wire numR off state h        → "n state err"                ConsumeNumberResumable
  wire unq h                   → "hex err"                    AppendUnquote(nil, h)
  wire hex4 h                  → "v ok"                       parseHexUint16 (v = 0 when !ok)
  wire esc16 lower h           → "0|1"                        hasEscapedUTF16Prefix
  wire trimws h | trimstr h    → "hex"                        TrimSuffixWhitespace / TrimSuffixString
  wire trimb c h               → "hex"                        TrimSuffixByte (c decimal)
  wire valid u d h             → "ok" | "E class off"         Value.IsValid framing: ws value ws, u = AllowInvalidUTF8, d = AllowDuplicateNames
  wire stream u d h            → "count class off"            ReadValue loop: values read, then ioeof at a boundary or the first error
  wire tokens u d h            → "count class off"            ReadToken loop (Model/TokenLoop.lean): completed top-level values, then ioeof or the first error
                                 (additional classes: nonstring = ErrNonStringName, missing = errMissingValue, badns = errInvalidNamespace)
  wire value u d depth h       → "n class"                    decoderState.consumeValue at the given depth on h (h non-empty)
  wire all h                   → the replies of  ws | lit | sstr | str 0 | str 1 | snum | num | unq |
                                 valid 0 0 | valid 0 1 | valid 1 0 | valid 1 1 | stream 0 0 | stream 0 1 | stream 1 0 | stream 1 1 |
                                 tokens 0 0 | tokens 0 1 | tokens 1 0 | tokens 1 1
                                 joined by " | " (one line per input for the bounded-exhaustive sweeps)
  wire vs h                    → the twelve valid/stream/tokens replies of `all` only
-/
import JsonV.Oracle.Util
import JsonV.Model.Validate
import JsonV.Model.TokenLoop

namespace JsonV.Oracle.Wire
open JsonV JsonV.Oracle JsonV.Model.Wire JsonV.Model.Validate

def errStr : Err → String
  | .ok => "ok" | .eof => "eof" | .invalidChar => "char" | .invalidEscape => "esc" | .invalidUTF8 => "utf8"
  | .dupName => "dup" | .maxDepth => "depth" | .mismatchDelim => "char" | .ioEOF => "ioeof"
  | .fuel => "fuel" | .bug => "bug"
  | .nonStringName => "nonstring" | .missingValue => "missing" | .invalidNamespace => "badns"

def b01 (s : String) : Option Bool := if s == "1" then some true else if s == "0" then some false else none

/-- every op takes the input bytes as its LAST argument; `args` are the arguments before it. -/
def handleB (op : String) (args : List String) (b : Bytes) : String :=
  match op, args with
  | "ws", [] => toString (consumeWhitespace b)
  | "lit", [] =>
    let l (lit : Bytes) := let (n, e) := consumeLiteral b lit; s!"{n} {errStr e}"
    s!"{consumeNull b} {consumeFalse b} {consumeTrue b} {l litNull} {l litFalse} {l litTrue}"
  | "sstr", [] => toString (consumeSimpleString b)
  | "str", [v] => match b01 v with
    | some v => let (n, f, e) := consumeString b v; s!"{n} {f.toNat} {errStr e}"
    | _ => badArgs
  | "strR", [v, off] => match b01 v, off.toNat? with
    | some v, some off => let (n, f, e) := consumeStringResumable b off v; s!"{n} {f.toNat} {errStr e}"
    | _, _ => badArgs
  | "snum", [] => toString (consumeSimpleNumber b)
  | "num", [] => let (n, e) := consumeNumber b; s!"{n} {errStr e}"
  | "numR", [off, st] => match off.toNat?, st.toNat? with
    | some off, some st => let (n, st', e) := consumeNumberResumable b off st; s!"{n} {st'} {errStr e}"
    | _, _ => badArgs
  | "unq", [] => let (o, e) := unquote b; s!"{hexOfBytes o} {errStr e}"
  | "hex4", [] => match parseHexUint16 b with
    | some v => s!"{v} 1"
    | none => "0 0"
  | "esc16", [l] => match b01 l with
    | some l => boolStr (hasEscapedUTF16Prefix b l)
    | _ => badArgs
  | "trimws", [] => hexOfBytes (trimSuffixWhitespace b)
  | "trimstr", [] => hexOfBytes (trimSuffixString b)
  | "trimb", [c] => match c.toNat? with
    | some c => hexOfBytes (trimSuffixByte b (UInt8.ofNat c))
    | _ => badArgs
  | "valid", [u, d] => match b01 u, b01 d with
    | some u, some d =>
      let (n, e) := validText ⟨u, d⟩ b
      if e == .ok then "ok" else s!"E {errStr e} {n}"
    | _, _ => badArgs
  | "stream", [u, d] => match b01 u, b01 d with
    | some u, some d =>
      let (cnt, off, e) := stream ⟨u, d⟩ b
      s!"{cnt} {errStr e} {off}"
    | _, _ => badArgs
  | "tokens", [u, d] => match b01 u, b01 d with
    | some u, some d =>
      let (cnt, off, e) := JsonV.Model.TokenLoop.tokens ⟨u, d⟩ b
      s!"{cnt} {errStr e} {off}"
    | _, _ => badArgs
  | "value", [u, d, depth] => match b01 u, b01 d, depth.toNat? with
    | some u, some d, some depth =>
      let (n, e) := consumeValue ⟨u, d⟩ (fuelFor b) depth b
      s!"{n} {errStr e}"
    | _, _, _ => badArgs
  | _, _ => badArgs

def allOps : List (String × List String) :=
  [("ws", []), ("lit", []), ("sstr", []), ("str", ["0"]), ("str", ["1"]), ("snum", []), ("num", []), ("unq", []),
   ("valid", ["0", "0"]), ("valid", ["0", "1"]), ("valid", ["1", "0"]), ("valid", ["1", "1"]),
   ("stream", ["0", "0"]), ("stream", ["0", "1"]), ("stream", ["1", "0"]), ("stream", ["1", "1"]),
   ("tokens", ["0", "0"]), ("tokens", ["0", "1"]), ("tokens", ["1", "0"]), ("tokens", ["1", "1"])]

/-- `vs`: the eight validator ops only (for very large inputs). -/
def vsOps : List (String × List String) := allOps.drop 8

def handle (op : String) (args : List String) : String :=
  match args.getLast? with
  | none => badArgs
  | some h =>
    match bytesOfHex h with
    | none => badArgs
    | some b =>
      let init := args.dropLast
      match op, init with
      | "all", [] => " | ".intercalate (allOps.map (fun (o, a) => handleB o a b))
      | "vs", [] => " | ".intercalate (vsOps.map (fun (o, a) => handleB o a b))
      | _, _ => handleB op init b

end JsonV.Oracle.Wire
