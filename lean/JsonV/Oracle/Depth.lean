/-
Oracle ops for the `depth` family (C20): the limits the proven models predict, for cross-checking
against the running code.

  depth const                      → max=<maxNestingDepth> cycles=<startDetectingCyclesAfter>   (regenerated constants)
  depth sm <n> <A|O|X>             → pushed=<k> depth=<Depth()> next=<class>   n pushes from reset (arrays, objects,
                                     alternating), each after a valid position, then one more; class as VerifErrClass
  depth nest <max> <start> <hex>   → ok | fail <i> | syntax | rest | fuel    value path on a skeleton (ASCII `[ ] { } s`),
                                     entered at Tokens.Depth() = start; i = index of the refused bracket
  depth cyc <shape> <fuel>         → ok | cycle | maxDepth | dangling | outOfFuel   traversal model on a named graph
-/
import JsonV.Oracle.Util
import JsonV.Model.Depth
import JsonV.Model.Cycle
import JsonV.Gen.Constants

namespace JsonV.Oracle.Depth
open JsonV JsonV.Oracle JsonV.Model JsonV.Model.Depth

def errClass : SMErr → Nat
  | .nonStringName => 1
  | .invalidNamespace => 2
  | .maxDepth => 3
  | .mismatchDelim => 4
  | .missingValue => 5

def kindAt (k : String) (i : Nat) : Bool := k == "O" || (k == "X" && i % 2 == 1)

/-- `n` pushes, stopping at the first refusal; returns (successful pushes, machine). -/
def pushN (max : Nat) (k : String) : Nat → Nat → Machine → Nat × Machine
  | 0, i, m => (i, m)
  | n + 1, i, m =>
    match pushKind max (kindAt k i) m with
    | .ok m' => pushN max k n (i + 1) m'
    | .error _ => (i, m)

def symOfByte (b : UInt8) : Option Sym :=
  if b = 0x5b then some .oa else if b = 0x5d then some .ca
  else if b = 0x7b then some .oo else if b = 0x7d then some .co
  else if b = 0x73 then some .sc else none

def symsOf (b : Bytes) : Option (List Sym) := b.mapM symOfByte

def showRes : Cycle.Res → String
  | .ok => "ok" | .cycle => "cycle" | .maxDepth => "maxDepth" | .dangling => "dangling" | .outOfFuel => "outOfFuel"

def handle (op : String) (args : List String) : String :=
  match op, args with
  | "const", [] => s!"max={Gen.jsontext.c_maxNestingDepth} cycles={Gen.json.c_startDetectingCyclesAfter}"
  | "sm", [n, k] =>
    match n.toNat? with
    | some n =>
      let max := Gen.jsontext.c_maxNestingDepth
      let (pushed, m) := pushN max k n 0 Machine.init
      let next := if pushed < n then 9 else
        match pushKind max (kindAt k n) m with
        | .ok _ => 0
        | .error e => errClass e
      s!"pushed={pushed} depth={m.depth} next={next}"
    | none => badArgs
  | "nest", [max, start, hex] =>
    match max.toNat?, start.toNat?, (bytesOfHex hex).bind symsOf with
    | some max, some start, some syms =>
      match value max (2 * syms.length + 1) start syms with
      | .ok [] => "ok"
      | .ok _ => "rest"
      | .error .maxDepth => match failAt max start syms with
        | some i => s!"fail {i}"
        | none => "fail ?"
      | .error .syntax => "syntax"
      | .error .fuel => "fuel"
    | _, _, _ => badArgs
  | "cyc", [shape, fuel] =>
    match fuel.toNat? with
    | some fuel =>
      let cfg : Cycle.Cfg := { max := Gen.jsontext.c_maxNestingDepth, after := Gen.json.c_startDetectingCyclesAfter }
      match shape with
      | "selfPtr" => showRes (Cycle.marshal cfg Cycle.selfPtr fuel 1 [] 0)
      | "selfIface" => showRes (Cycle.marshal cfg Cycle.selfIface fuel 1 [] 0)
      | "selfSlice" => showRes (Cycle.marshal cfg Cycle.selfSlice fuel 1 [] 0)
      | "selfPtrOld" => showRes (Cycle.marshal { cfg with trackPtrLike := false } Cycle.selfPtr fuel 1 [] 0)
      | _ => badArgs
    | none => badArgs
  | _, _ => badArgs

end JsonV.Oracle.Depth
