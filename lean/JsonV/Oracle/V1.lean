/-
Oracle ops for the `v1` family (slice C09): the models of v1's own pure code.

  v1 htmlescape <hex>      → hex of appendHTMLEscape(nil, src)
  v1 unescape <hex>        → hex of the inverse used by the meaning-preservation theorem
  v1 valid <hex>           → 0|1  (v1.Valid: Validate.isValid at the permissive flags)
  v1 validpda <hex>        → 0|1  (the independent push-down recogniser)
  v1 compact <hex>         → "ok <hex>" | "err"   (v1.Compact)
  v1 indent <prefixhex> <indenthex> <hex> → "ok <hex>" | "err"   (v1.Indent, blank or non-blank prefix/indent)
  v1 trailingws <hex>      → hex of the trailing JSON whitespace of src (appendIndent's rule)
  v1 blank <hex>           → 0|1  (prefix/indent consist of spaces and tabs only)
-/
import JsonV.Oracle.Util
import JsonV.Model.V1

namespace JsonV.Oracle.V1
open JsonV JsonV.Oracle JsonV.Model.V1

def handle (op : String) (args : List String) : String :=
  match op, args with
  | "htmlescape", [h] => match bytesOfHex h with
    | some b => hexOfBytes (htmlEscape b)
    | none => badArgs
  | "unescape", [h] => match bytesOfHex h with
    | some b => hexOfBytes (unescape b)
    | none => badArgs
  | "valid", [h] => match bytesOfHex h with
    | some b => boolStr (valid b)
    | none => badArgs
  | "validpda", [h] => match bytesOfHex h with
    | some b => boolStr (validPda b)
    | none => badArgs
  | "compact", [h] => match bytesOfHex h with
    | some b => (match compact b with
      | some o => "ok " ++ hexOfBytes o
      | none => "err")
    | none => badArgs
  | "indent", [p, i, h] => match bytesOfHex p, bytesOfHex i, bytesOfHex h with
    | some pre, some ind, some b => (match indent pre ind b with
      | some o => "ok " ++ hexOfBytes o
      | none => "err")
    | _, _, _ => badArgs
  | "trailingws", [h] => match bytesOfHex h with
    | some b => hexOfBytes (trailingWs b)
    | none => badArgs
  | "blank", [h] => match bytesOfHex h with
    | some b => boolStr (isBlank b)
    | none => badArgs
  | _, _ => "ERR unimplemented"

end JsonV.Oracle.V1
