/-
Oracle ops for the `cmp` family (C13): the model of `jsonwire.CompareUTF16`, the UTF-16 spec it is proved
against, and the member sort of `mustReorderObjectsFromDecoder`.

  cmp c16 <hex x> <hex y>        → -1 | 0 | 1                    Model.Compare.compareUTF16
  cmp spec <hex x> <hex y>       → -1 | 0 | 1                    Spec.lexCmp (utf16 x) (utf16 y)
  cmp utf16 <hex x>              → units as 4-hex-digit words joined by ',' ("-" if none)
  cmp valid <hex x>              → 0 | 1                          Model.Utf8.valid
  cmp sort <n> <hex name_1> … <hex name_n>   → the permutation: indices into the input, in output order, joined by ','
  cmp msort <n> <hex name_1> <hex buf_1> …    → same for full members (name, raw buffer), via Model.Reorder.reorder
  cmp canon <hex text> [<float64 bits, hex>:<shortest digits>:<n>]…   → `ok <hex>` | `err`     Canon.canonicalize
        The float parameter: `parse` is C10's exact specification of strconv.ParseFloat (`parseFloatExact`);
        `shortest` is the table in the request (strconv's shortest digits d₁…d_k and the decimal point position n,
        value 0.d₁…d_k × 10^n, keyed by the bits of the magnitude), zero being `([], 0)`.
-/
import JsonV.Oracle.Util
import JsonV.Model.Compare
import JsonV.Model.Reorder
import JsonV.Spec.Utf16Order
import JsonV.Model.Canon

namespace JsonV.Oracle.Cmp
open JsonV JsonV.Oracle JsonV.Model JsonV.Spec

def hex4 (n : Nat) : String :=
  String.ofList [hexDigit (n / 4096 % 16), hexDigit (n / 256 % 16), hexDigit (n / 16 % 16), hexDigit (n % 16)]

def joinNats (f : Nat → String) (l : List Nat) : String :=
  if l.isEmpty then "-" else ",".intercalate (l.map f)

def allSome {α : Type} : List (Option α) → Option (List α)
  | [] => some []
  | none :: _ => none
  | some a :: rest => (allSome rest).map (a :: ·)

def pairUp {α : Type} : List α → Option (List (α × α))
  | [] => some []
  | [_] => none
  | a :: b :: rest => (pairUp rest).map ((a, b) :: ·)

/-- position of each output member in the input (members are distinguished by position: the sort runs on
(member, index) pairs with the comparator looking at the member only, exactly like `sortPerm`). -/
def memberPerm (ms : List Reorder.Member) : List Nat :=
  let tagged := ms.zipIdx
  let sorted := if Reorder.isSorted ms then tagged
                else tagged.mergeSort (fun a b => Reorder.memberLe a.1 b.1)
  sorted.map (·.2)

/-- one table entry `bits:digits:n` -/
def parseDigitsEntry (s : String) : Option (Nat × List Nat × Int) :=
  match s.splitOn ":" with
  | [b, d, n] =>
    match natOfHex b, n.toInt? with
    | some bits, some n =>
      let ds := d.toList.map (fun c => c.toNat - 48)
      if d.toList.all (fun c => '0' ≤ c ∧ c ≤ '9') then some (bits, ds, n) else none
    | _, _ => none
  | _ => none

def tableCodec (tbl : List (Nat × List Nat × Int)) : Canon.FloatCodec where
  parse := Number.parseFloatExact Number.fmt64
  shortest := fun f =>
    if f.isZero then ([], 0)
    else
      match tbl.find? (fun e => e.1 == ({ f with neg := false } : Number.Fl).toBits Number.fmt64) with
      | some e => e.2
      | none => ([99], 0)   -- missing table entry: shows up as a garbage literal

def handle (op : String) (args : List String) : String :=
  match op, args with
  | "c16", [a, b] =>
    match bytesOfHex a, bytesOfHex b with
    | some x, some y => toString (Compare.compareUTF16 x y)
    | _, _ => badArgs
  | "spec", [a, b] =>
    match bytesOfHex a, bytesOfHex b with
    | some x, some y => toString (Utf16Order.lexCmp (Utf16Order.utf16 x) (Utf16Order.utf16 y))
    | _, _ => badArgs
  | "utf16", [a] =>
    match bytesOfHex a with
    | some x => joinNats hex4 (Utf16Order.utf16 x)
    | none => badArgs
  | "valid", [a] =>
    match bytesOfHex a with
    | some x => boolStr (Utf8.valid x)
    | none => badArgs
  | "canon", h :: tbl =>
    match bytesOfHex h, allSome (tbl.map parseDigitsEntry) with
    | some b, some t =>
      match Canon.canonicalize (tableCodec t) b with
      | some out => "ok " ++ hexOfBytes out
      | none => "err"
    | _, _ => badArgs
  | "sort", n :: rest =>
    match n.toNat?, allSome (rest.map bytesOfHex) with
    | some n, some names => if names.length = n then joinNats toString (Reorder.sortPerm names) else badArgs
    | _, _ => badArgs
  | "msort", n :: rest =>
    match n.toNat?, allSome (rest.map bytesOfHex) with
    | some n, some bs =>
      match pairUp bs with
      | some ps => if ps.length = n then joinNats toString (memberPerm (ps.map (fun p => ⟨p.1, p.2⟩))) else badArgs
      | none => badArgs
    | _, _ => badArgs
  | _, _ => badArgs

end JsonV.Oracle.Cmp
