/-
Oracle ops for the `iso` family (C18, call isolation).

  iso hash <lo> <hi>           hex uint32 ×2      → hex of hash64(lo, hi)            (intern.go:58)
  iso slot <hex>                                  → cache slot of the string, or `-` when it is not cached
  iso intern <n> <h1> … <hn>   a history of makeString calls on one zero cache
                                                  → the n strings returned (hex, `-` = empty)
  iso seen <cycleAfter> <depth> <script>          → exit and size of the cycle set after marshaling
        script: prefix notation  L0|L1|L2 (leaf ok/error/panic)  N <p> <k> followed by k children
-/
import JsonV.Oracle.Util
import JsonV.Model.Intern
import JsonV.Model.Reset

namespace JsonV.Oracle.Iso
open JsonV JsonV.Oracle JsonV.Model JsonV.Model.Reset

def allSome {α} : List (Option α) → Option (List α)
  | [] => some []
  | none :: _ => none
  | some x :: xs => (allSome xs).map (x :: ·)

/-- Parse a GoVal script; fuel = number of tokens. -/
def parseVal : Nat → List String → Option (GoVal × List String)
  | 0, _ => none
  | _, [] => none
  | fuel + 1, t :: rest =>
    if t == "L0" then some (.leaf .ok, rest)
    else if t == "L1" then some (.leaf .error, rest)
    else if t == "L2" then some (.leaf .panic, rest)
    else if t == "N" then
      match rest with
      | p :: k :: rest2 =>
        match p.toNat?, k.toNat? with
        | some p, some k =>
          let rec kids (n : Nat) (fuel : Nat) (ts : List String) (acc : List GoVal) : Option (List GoVal × List String) :=
            match n with
            | 0 => some (acc.reverse, ts)
            | n + 1 =>
              match parseVal fuel ts with
              | some (v, ts') => kids n fuel ts' (v :: acc)
              | none => none
          match kids k fuel rest2 [] with
          | some (ks, ts) => some (.node p ks, ts)
          | none => none
        | _, _ => none
      | _ => none
    else none

def exitStr : MExit → String
  | .ok => "ok" | .error => "error" | .panic => "panic" | .cycle => "cycle"

def handle (op : String) (args : List String) : String :=
  match op, args with
  | "hash", [lo, hi] =>
    match natOfHex lo, natOfHex hi with
    | some l, some h => hexOfNat (Intern.hash64 (BitVec.ofNat 32 l) (BitVec.ofNat 32 h)).toNat
    | _, _ => badArgs
  | "slot", [h] =>
    match bytesOfHex h with
    | some b => if Intern.cached b then toString (Intern.slot b).val else "-"
    | none => badArgs
  | "intern", n :: hs =>
    match n.toNat?, allSome (hs.map bytesOfHex) with
    | some n, some bs =>
      if n != bs.length then badArgs
      else " ".intercalate ((Intern.runAll Intern.Cache.empty bs).1.map hexOfBytes)
    | _, _ => badArgs
  | "seen", ca :: d :: script =>
    match ca.toNat?, d.toNat?, parseVal (script.length + 1) script with
    | some ca, some d, some (v, []) =>
      let r := marshal ca d [] v
      s!"{exitStr r.1} {r.2.length}"
    | _, _, _ => badArgs
  | _, _ => "ERR unimplemented"

end JsonV.Oracle.Iso
