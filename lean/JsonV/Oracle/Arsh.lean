/-
Oracle ops for the `arsh` family (L3 unmarshal model, C14).

Encodings of types, values and trees: see `Model/GoVal.lean` (`GoWire`) and `Spec/Tree.lean`
(`TreeWire`).  `<o>` is the option word: `0` default options, `1` UnmarshalArrayFromAnyLength.

    arsh zero <type>                          → <value>
    arsh wf <type>                            → 0|1
    arsh dupfree <tree>                       → 0|1
    arsh merge <tree1> <tree2>                → <tree>
    arsh mergeall <k> <tree>×k                → <tree>          (left fold, `null` for k = 0)
    arsh unm <o> <type> <tree> <prior-value>  → ok <value> | E<class>
    arsh chain <o> <type> <k> <tree>×k        → results of the k successive calls starting from the
                                                 zero value, joined by ` ; ` (stops after the first E)
Error classes: kind numsyntax range dup arraylen illtyped unmodelled.

Marshal side (C04, L3).  `<mo>` is the marshal option word: bit 0 FormatNilSliceAsNull, bit 1
FormatNilMapAsNull (Deterministic is always on in the model):

    arsh mar <mo> <type> <value>              → ok <tree> | Minvalidutf8 | Milltyped | Munmodelled
    arsh rt <mo> <type> <value>               → `<mar v> ; <unm (mar v) zero> ; <mar of that>` (stops at
                                                 the first error), unmarshal under default options
    arsh typed <type> <value>                 → 0|1   (`hasType`)
    arsh safe <mo> <value>                    → 0|1   (`safe`: no pointer/interface holds a null-printing value)
-/
import JsonV.Oracle.Util
import JsonV.Model.Unmarshal
import JsonV.Model.Marshal

namespace JsonV.Oracle.Arsh
open JsonV JsonV.Oracle JsonV.Spec JsonV.Model

def errStr : Err → String
  | .kind => "Ekind" | .numSyntax => "Enumsyntax" | .range => "Erange" | .dup => "Edup"
  | .arrayLen => "Earraylen" | .illTyped => "Eilltyped" | .unmodelled => "Eunmodelled"

def resStr : Except Err GoVal → String
  | .ok v => "ok " ++ GoWire.renderVal v
  | .error e => errStr e

def parseOpt : String → Option UOpts
  | "0" => some { arrayAnyLen := false }
  | "1" => some { arrayAnyLen := true }
  | _ => none

def parseTrees : Nat → List String → Option (List JTree × List String)
  | 0, r => some ([], r)
  | k+1, toks =>
    match TreeWire.parseTree toks with
    | some (j, r) => (parseTrees k r).map (fun (js, r') => (j :: js, r'))
    | none => none

def chainStr (o : UOpts) (T : GoType) : List JTree → GoVal → List String
  | [], _ => []
  | j :: js, v =>
    match unm o T j v with
    | .error e => [errStr e]
    | .ok v' => ("ok " ++ GoWire.renderVal v') :: chainStr o T js v'

def merrStr : MErr → String
  | .invalidUTF8 => "Minvalidutf8" | .illTyped => "Milltyped" | .unmodelled => "Munmodelled"

def parseMOpt (s : String) : Option MOpts :=
  match s.toNat? with
  | some n => if n < 4 then some { nilSliceAsNull := n % 2 == 1, nilMapAsNull := n / 2 == 1 } else none
  | none => none

def rtStr (o : MOpts) (T : GoType) (v : GoVal) : String :=
  match mar o T v with
  | .error e => merrStr e
  | .ok j =>
    let s1 := "ok " ++ TreeWire.render j
    match unm {} T j T.zero with
    | .error e => s1 ++ " ; " ++ errStr e
    | .ok v' =>
      let s2 := s1 ++ " ; ok " ++ GoWire.renderVal v'
      match mar o T v' with
      | .error e => s2 ++ " ; " ++ merrStr e
      | .ok j' => s2 ++ " ; ok " ++ TreeWire.render j'

def handle (op : String) (args : List String) : String :=
  match op, args with
  | "mar", o :: toks =>
    match parseMOpt o, GoWire.parseTypeToks toks with
    | some o, some (t, r) =>
      match GoWire.parseValToks r with
      | some (v, []) =>
        match mar o t v with
        | .ok j => "ok " ++ TreeWire.render j
        | .error e => merrStr e
      | _ => badArgs
    | _, _ => badArgs
  | "rt", o :: toks =>
    match parseMOpt o, GoWire.parseTypeToks toks with
    | some o, some (t, r) =>
      match GoWire.parseValToks r with
      | some (v, []) => rtStr o t v
      | _ => badArgs
    | _, _ => badArgs
  | "typed", toks =>
    match GoWire.parseTypeToks toks with
    | some (t, r) =>
      match GoWire.parseValToks r with
      | some (v, []) => boolStr (hasType t v)
      | _ => badArgs
    | none => badArgs
  | "safe", o :: toks =>
    match parseMOpt o, GoWire.parseValToks toks with
    | some o, some (v, []) => boolStr (safe o v)
    | _, _ => badArgs
  | "zero", toks =>
    match GoWire.parseTypeToks toks with
    | some (t, []) => GoWire.renderVal t.zero
    | _ => badArgs
  | "wf", toks =>
    match GoWire.parseTypeToks toks with
    | some (t, []) => boolStr t.wf
    | _ => badArgs
  | "dupfree", toks =>
    match TreeWire.parseTree toks with
    | some (j, []) => boolStr j.dupFree
    | _ => badArgs
  | "merge", toks =>
    match parseTrees 2 toks with
    | some ([a, b], []) => TreeWire.render (JTree.merge a b)
    | _ => badArgs
  | "mergeall", k :: toks =>
    match k.toNat? with
    | some k =>
      match parseTrees k toks with
      | some (js, []) => TreeWire.render (JTree.mergeAll js)
      | _ => badArgs
    | none => badArgs
  | "unm", o :: toks =>
    match parseOpt o, GoWire.parseTypeToks toks with
    | some o, some (t, r) =>
      match TreeWire.parseTree r with
      | some (j, r') =>
        match GoWire.parseValToks r' with
        | some (p, []) => resStr (unm o t j p)
        | _ => badArgs
      | none => badArgs
    | _, _ => badArgs
  | "chain", o :: toks =>
    match parseOpt o, GoWire.parseTypeToks toks with
    | some o, some (t, k :: r) =>
      match k.toNat? with
      | some k =>
        match parseTrees k r with
        | some (js, []) => " ; ".intercalate (chainStr o t js t.zero)
        | _ => badArgs
      | none => badArgs
    | _, _ => badArgs
  | _, _ => badArgs

end JsonV.Oracle.Arsh
