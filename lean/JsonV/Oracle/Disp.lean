/-
Oracle ops for the `disp` family.  Owned by the slice that models it; see AGENT_GUIDE.md.
-/
import JsonV.Oracle.Util

namespace JsonV.Oracle.Disp
open JsonV JsonV.Oracle

def handle (op : String) (args : List String) : String :=
  match op, args with
  | _, _ => "ERR unimplemented"

end JsonV.Oracle.Disp
