/-
Oracle ops for the `disp` family (C17): which representation the model of
makeMethodArshaler / typedArshalers.lookup / DepthLength policing chooses.

  disp m <ms4> <legacy> <forced> <dfltOk> <levels> <fns> <behaviours>      marshal
  disp u <ms3> <legacy> <forced> <dfltOk> <levels> <fns> <behaviours>      unmarshal
  disp d …   the same two with the DOCUMENTED order instead of the composed wrappers (md / ud)
  disp police <floor> <prefix-ops> <script> <ret>                          one policed call (floor: e = entry depth, or a number)

  ms       digits 0 absent, 1 value receiver, 2 pointer receiver (To J A T / From U Tx)
  levels   comma separated  code[:prefix-ops[:input-kind]]   code: c container (C: struct whose member is dropped by omitzero), i interface, z nil interface,
           p pointer, n nil pointer, b the type T;  input-kind (unmarshal): n null, s string, l other scalar, c composite
  fns      comma separated  <F|T><v|p|i|a|o>  (F: MarshalFunc/UnmarshalFunc, T: MarshalToFunc/UnmarshalFromFunc) or -
  behaviours  comma separated  id=ops/ret[|ops/ret…] (coder style; one script per level or one for all)
              or id=str|val|unsup|err|bad (bytes/text style);  ids F<i>, To J A T From U Tx;  missing = done
  ops      l literal/number, s string, v complete non-string value, O { , o } , A [ , a ]
answer:    <trace> <outcome>     trace: comma separated F<i>@<level> / method names, or -
                                 outcome: ok:<winner> | err      winner: F<i>@<level>, method name, D, null
-/
import JsonV.Oracle.Util
import JsonV.Model.Dispatch

namespace JsonV.Oracle.Disp
open JsonV JsonV.Model JsonV.Model.Dispatch JsonV.Oracle

def maxDepth : Nat := 10000

def opOfChar : Char → Option Op
  | 'l' => some .lit
  | 's' => some .str
  | 'v' => some .val
  | 'O' => some .pushO
  | 'o' => some .popO
  | 'A' => some .pushA
  | 'a' => some .popA
  | _ => none

def opsOfString (s : String) : Option (List Op) :=
  if s == "-" then some [] else s.toList.mapM opOfChar

def recvOfChar : Char → Option Recv
  | '0' => some .absent
  | '1' => some .value
  | '2' => some .pointer
  | _ => none

def retOfString : String → Option Ret
  | "nil" => some .nil
  | "unsup" => some .unsupported
  | "err" => some .other
  | _ => none

def parseLevel (forced dfltOk : Bool) (s : String) : Option Level :=
  let parts := s.splitOn ":"
  let code := parts.getD 0 ""
  let pre := parts.getD 1 ""
  let kind := parts.getD 2 ""
  match opsOfString (if pre == "" then "-" else pre) with
  | none => none
  | some pre =>
    let base : Level := { kind := .base, pre := pre, dfltOk := dfltOk, forcedAddr := forced,
                          inNull := kind == "n", inStr := kind == "s" }
    match code with
    | "b" => some base
    | "c" => some { base with kind := .cont }
    | "C" => some { base with kind := .cont, omitZero := true }
    | "p" => some { base with kind := .ptr }
    | "n" => some { base with kind := .ptr, isNil := true }
    | "i" => some { base with kind := .iface }
    | "z" => some { base with kind := .iface, isNil := true }
    | _ => none

def parseList {α} (f : String → Option α) (s : String) : Option (List α) :=
  if s == "-" then some [] else (s.splitOn ",").mapM f

def parseFn (s : String) : Option (Bool × Target) :=
  match s.toList with
  | [k, t] =>
    let tgt : Option Target := match t with
      | 'v' => some .val | 'p' => some .ptr | 'i' => some .iface | 'a' => some .any | 'o' => some .other | _ => none
    match k, tgt with
    | 'F', some t => some (false, t)
    | 'T', some t => some (true, t)
    | _, _ => none
  | _ => none

def indexFns : Nat → List (Bool × Target) → List FnSpec
  | _, [] => []
  | i, (sk, t) :: rest => { id := i, target := t, maySkip := sk } :: indexFns (i + 1) rest

/-- One behaviour entry: either scripts (per level) or a class. -/
inductive BehSpec where
  | scripts (ss : List (List Op × Ret))
  | cls (c : String)

def parseScript (s : String) : Option (List Op × Ret) :=
  match s.splitOn "/" with
  | [ops, ret] => match opsOfString (if ops == "" then "-" else ops), retOfString ret with
    | some o, some r => some (o, r)
    | _, _ => none
  | _ => none

def parseBeh (s : String) : Option (String × BehSpec) :=
  match s.splitOn "=" with
  | [id, spec] =>
    if spec.contains '/' then
      match (spec.splitOn "|").mapM parseScript with
      | some ss => some (id, .scripts ss)
      | none => none
    else some (id, .cls spec)
  | _ => none

def candName : Cand → String
  | .fn i _ => s!"F{i}"
  | .meth .to _ => "To"
  | .meth .js _ => "J"
  | .meth .ap _ => "A"
  | .meth .tx _ => "T"
  | .meth .frm _ => "From"
  | .meth .uj _ => "U"
  | .meth .utx _ => "Tx"

def mkBehav (behs : List (String × BehSpec)) : Behav := fun c m =>
  match behs.lookup (candName c) with
  | none => .done
  | some (.cls k) =>
    if k == "str" then .done
    else if k == "val" then (if m.last.needObjectName then .fail else .done)
    else if k == "unsup" then .skip
    else .fail
  | some (.scripts ss) =>
    let pick := if ss.length == 1 then ss.head? else ss[c.lvl]?
    match pick with
    | some (ops, ret) => userCall maxDepth m ops ret
    | none => .fail

def showCand : Cand → String
  | .fn i l => s!"F{i}@{l}"
  | c => candName c

def showOutcome (o : Outcome) : String :=
  let tr := if o.trace.isEmpty then "-" else ",".intercalate (o.trace.map showCand)
  let r := match o.res with
    | .err => "err"
    | .ok (.cand c) => "ok:" ++ showCand c
    | .ok (.dflt _) => "ok:D"
    | .ok (.null _) => "ok:null"
    | .ok (.omitted _) => "ok:omitted"
  tr ++ " " ++ r

def handleDispatch (dir : String) (documented : Bool) (args : List String) : String :=
  match args with
  | [ms, legacy, forced, dfltOk, levels, fns, behs] =>
    match ms.toList.mapM recvOfChar, parseList (parseLevel (forced == "1") (dfltOk == "1")) levels,
          parseList parseFn fns, parseList parseBeh behs with
    | some rs, some lvls, some fs, some bs =>
      let fl := indexFns 0 fs
      let beh := mkBehav bs
      let leg := legacy == "1"
      match dir, rs with
      | "m", [a, b, c, d] =>
        let mset : MethodSet := ⟨a, b, c, d⟩
        showOutcome (if documented then documentedMarshal maxDepth mset fl beh lvls 0 Machine.init
                     else marshalLevels maxDepth mset fl beh leg lvls 0 Machine.init)
      | "u", [a, b, c] =>
        let mset : UMethodSet := ⟨a, b, c⟩
        showOutcome (if documented then documentedUnmarshal maxDepth mset fl beh lvls 0 Machine.init
                     else unmarshalLevels maxDepth mset fl beh leg lvls 0 Machine.init)
      | _, _ => badArgs
    | _, _, _, _ => badArgs
  | _ => badArgs

def showResult : CallResult → String
  | .done => "done"
  | .skip => "skip"
  | .fail => "fail"

def handle (op : String) (args : List String) : String :=
  match op, args with
  | "m", _ => handleDispatch "m" false args
  | "u", _ => handleDispatch "u" false args
  | "md", _ => handleDispatch "m" true args
  | "ud", _ => handleDispatch "u" true args
  | "police", [floor, pre, script, ret] =>
    -- floor: "e" = the stack length at entry (what the fixed code does), or a number (0 = the code before the fix)
    match opsOfString pre, opsOfString script, retOfString ret with
    | some p, some s, some r =>
      match runScript maxDepth p Machine.init with
      | (m, none) =>
        let fl := if floor == "e" then m.stack.length else floor.toNat?.getD 0
        let run := runPoliced maxDepth fl s m
        let e := match run.2 with
          | none => "-"
          | some .enclosingEnd => "enclosingEnd"
          | some (.sm _) => "sm"
        s!"{showResult (userCallWithFloor maxDepth fl m s r)} {m.depthLength.1} {m.depthLength.2} {run.1.depthLength.1} {run.1.depthLength.2} {e}"
      | (_, some _) => "ERR bad-prefix"
    | _, _, _ => badArgs
  | _, _ => "ERR unimplemented"

end JsonV.Oracle.Disp
