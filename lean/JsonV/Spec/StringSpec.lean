/-
Code-independent specification of JSON string literals (C11).  Core Lean only.

* `scalars`, `lossy`, `illFormedCount`: what a byte string *means* as text.  The only ingredient is the
  trusted parameter `Utf8.decodeRune` (Unicode table 3-7): the text is split greedily into maximal
  well-formed sequences; every byte that does not start one is an *ill-formed byte* and stands for exactly
  one U+FFFD.
* `canonQuote`: the RFC 8785 §3.2.2.2 serialisation ("shortest form"), defined per scalar value.
* `Unescapes`: the meaning of the inside of a JSON string literal per RFC 8259 §7, one constructor per
  grammar production (`unescaped`, the eight two-character escapes, `\uXXXX`, a surrogate pair).
-/
import JsonV.Model.Utf8

namespace JsonV.Spec.StringSpec
open JsonV JsonV.Model.Utf8

private theorem decodeRune_pos (c : UInt8) (t : Bytes) : 1 ≤ (decodeRune (c :: t)).2 := by
  simp only [decodeRune]
  repeat' split
  all_goals simp

/-- The byte at the head of `p` does not start a well-formed UTF-8 sequence. -/
def illFormedHead (p : Bytes) : Bool := (decodeRune p).1 = runeError && (decodeRune p).2 = 1

def replacement : Bytes := [0xEF, 0xBF, 0xBD]

/-- Scalar values of a byte string (U+FFFD for each ill-formed byte). -/
def scalars : Bytes → List Nat
  | [] => []
  | c :: t => (decodeRune (c :: t)).1 :: scalars ((c :: t).drop (decodeRune (c :: t)).2)
termination_by s => s.length
decreasing_by
  have := decodeRune_pos c t
  simp only [List.length_drop, List.length_cons]; omega

/-- The text with each ill-formed byte replaced by exactly one U+FFFD (EF BF BD). -/
def lossy : Bytes → Bytes
  | [] => []
  | c :: t =>
    (if illFormedHead (c :: t) then replacement else (c :: t).take (decodeRune (c :: t)).2) ++
      lossy ((c :: t).drop (decodeRune (c :: t)).2)
termination_by s => s.length
decreasing_by
  have := decodeRune_pos c t
  simp only [List.length_drop, List.length_cons]; omega

/-- Number of ill-formed bytes. -/
def illFormedCount : Bytes → Nat
  | [] => 0
  | c :: t =>
    (if illFormedHead (c :: t) then 1 else 0) + illFormedCount ((c :: t).drop (decodeRune (c :: t)).2)
termination_by s => s.length
decreasing_by
  have := decodeRune_pos c t
  simp only [List.length_drop, List.length_cons]; omega

/-- Well-formed UTF-8: no ill-formed byte. -/
def WellFormed (s : Bytes) : Prop := illFormedCount s = 0

/-! ### RFC 8785 §3.2.2.2 -/

def hexDigitLower (n : Nat) : UInt8 := if n < 10 then UInt8.ofNat (0x30 + n) else UInt8.ofNat (0x61 + (n - 10))

/-- Serialisation of one scalar value: `\"` `\\` `\b` `\f` `\n` `\r` `\t`; other controls below U+0020 as
lower-case `\u00xx`; everything else as itself (UTF-8). -/
def canonChar (r : Nat) : Bytes :=
  if r = 0x22 then [0x5c, 0x22]
  else if r = 0x5c then [0x5c, 0x5c]
  else if r = 0x08 then [0x5c, 0x62]
  else if r = 0x09 then [0x5c, 0x74]
  else if r = 0x0a then [0x5c, 0x6e]
  else if r = 0x0c then [0x5c, 0x66]
  else if r = 0x0d then [0x5c, 0x72]
  else if r < 0x20 then [0x5c, 0x75, 0x30, 0x30, hexDigitLower (r / 16), hexDigitLower (r % 16)]
  else encodeRune r

def canonQuote (s : Bytes) : Bytes := 0x22 :: ((scalars s).flatMap canonChar ++ [0x22])

/-! ### RFC 8259 §7 -/

/-- `escape ( %x22 / %x5C / %x2F / %x62 / %x66 / %x6E / %x72 / %x74 )` with the character each denotes. -/
def simpleEscapes : List (UInt8 × UInt8) :=
  [(0x22, 0x22), (0x5c, 0x5c), (0x2f, 0x2f), (0x62, 0x08), (0x66, 0x0c), (0x6e, 0x0a), (0x72, 0x0d), (0x74, 0x09)]

/-- HEXDIG (either case). -/
def hexDigitVal (c : UInt8) : Option Nat :=
  let c := c.toNat
  if 0x30 ≤ c ∧ c ≤ 0x39 then some (c - 0x30)
  else if 0x41 ≤ c ∧ c ≤ 0x46 then some (c - 0x41 + 10)
  else if 0x61 ≤ c ∧ c ≤ 0x66 then some (c - 0x61 + 10)
  else none

def hex4 (a b c d : UInt8) : Option Nat :=
  match hexDigitVal a, hexDigitVal b, hexDigitVal c, hexDigitVal d with
  | some a, some b, some c, some d => some (a * 4096 + b * 256 + c * 16 + d)
  | _, _, _, _ => none

/-- `Unescapes body m`: the characters `body` between the quotes of a JSON string literal denote the text
`m` (UTF-8).  Lone surrogate escapes have no meaning (RFC 8259 §8.2) and no constructor. -/
inductive Unescapes : Bytes → Bytes → Prop
  | nil : Unescapes [] []
  /-- unescaped = %x20-21 / %x23-5B / %x5D-10FFFF, one well-formed UTF-8 sequence `p` -/
  | unescaped {p rest m : Bytes} {r : Nat} :
      decodeRune p = (r, p.length) → p ≠ [] → illFormedHead p = false →
      0x20 ≤ r → r ≠ 0x22 → r ≠ 0x5c → Unescapes rest m → Unescapes (p ++ rest) (p ++ m)
  | simple {e v : UInt8} {rest m : Bytes} :
      (e, v) ∈ simpleEscapes → Unescapes rest m → Unescapes (0x5c :: e :: rest) (v :: m)
  /-- `\uXXXX` outside the surrogate range -/
  | unicode {a b c d : UInt8} {v : Nat} {rest m : Bytes} :
      hex4 a b c d = some v → isSurrogate v = false → Unescapes rest m →
      Unescapes (0x5c :: 0x75 :: a :: b :: c :: d :: rest) (encodeRune v ++ m)
  /-- a UTF-16 surrogate pair (RFC 8259 §7: U+1D11E is `𝄞`) -/
  | pair {a b c d a' b' c' d' : UInt8} {hi lo : Nat} {rest m : Bytes} :
      hex4 a b c d = some hi → hex4 a' b' c' d' = some lo →
      isHighSurrogate hi = true → isLowSurrogate lo = true → Unescapes rest m →
      Unescapes (0x5c :: 0x75 :: a :: b :: c :: d :: 0x5c :: 0x75 :: a' :: b' :: c' :: d' :: rest)
        (encodeRune (0x10000 + (hi - 0xD800) * 0x400 + (lo - 0xDC00)) ++ m)

/-- `UnescapesLossy body m k`: like `Unescapes`, for content that may also hold raw ill-formed UTF-8 bytes (accepted
under AllowInvalidUTF8): each ill-formed byte — a byte that does not start a well-formed sequence in the remaining
content — stands for exactly one U+FFFD; `k` counts them. -/
inductive UnescapesLossy : Bytes → Bytes → Nat → Prop
  | nil : UnescapesLossy [] [] 0
  | unescaped {p rest m : Bytes} {r k : Nat} :
      decodeRune p = (r, p.length) → p ≠ [] → illFormedHead p = false →
      0x20 ≤ r → r ≠ 0x22 → r ≠ 0x5c → UnescapesLossy rest m k → UnescapesLossy (p ++ rest) (p ++ m) k
  /-- one ill-formed byte ↦ one U+FFFD -/
  | bad {c : UInt8} {rest m : Bytes} {k : Nat} :
      0x80 ≤ c.toNat → illFormedHead (c :: rest) = true → UnescapesLossy rest m k →
      UnescapesLossy (c :: rest) (replacement ++ m) (k + 1)
  | simple {e v : UInt8} {rest m : Bytes} {k : Nat} :
      (e, v) ∈ simpleEscapes → UnescapesLossy rest m k → UnescapesLossy (0x5c :: e :: rest) (v :: m) k
  | unicode {a b c d : UInt8} {v : Nat} {rest m : Bytes} {k : Nat} :
      hex4 a b c d = some v → isSurrogate v = false → UnescapesLossy rest m k →
      UnescapesLossy (0x5c :: 0x75 :: a :: b :: c :: d :: rest) (encodeRune v ++ m) k
  | pair {a b c d a' b' c' d' : UInt8} {hi lo : Nat} {rest m : Bytes} {k : Nat} :
      hex4 a b c d = some hi → hex4 a' b' c' d' = some lo →
      isHighSurrogate hi = true → isLowSurrogate lo = true → UnescapesLossy rest m k →
      UnescapesLossy (0x5c :: 0x75 :: a :: b :: c :: d :: 0x5c :: 0x75 :: a' :: b' :: c' :: d' :: rest)
        (encodeRune (0x10000 + (hi - 0xD800) * 0x400 + (lo - 0xDC00)) ++ m) k

/-- `lit` is a JSON string literal whose meaning is the text `m`. -/
def StringLiteral (lit m : Bytes) : Prop := ∃ body, lit = 0x22 :: (body ++ [0x22]) ∧ Unescapes body m

end JsonV.Spec.StringSpec
