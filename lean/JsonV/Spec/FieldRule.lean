/-
The DECLARATIVE field-resolution rule of doc.go ("JSON Representation of Go structs"), stated over the
abstract type graph of `Model/Fields.lean` and written independently of the search algorithm:
no queue, no `seen` set, no sorting.  Core Lean only.

  * a field declaration is ignored, embedded (a struct to descend into / a fallback) or a member field;
  * `Reach g root p s`: following embedded struct fields from `root` along the index path `p` ends in struct `s`
    (ALL paths, also through recursive types: the set may be infinite, the winners are still well defined);
  * a candidate is a member field of a reachable struct, with its full index path;
  * the winner for a name: the candidate that beats every other candidate of that name, where `c` beats `x`
    iff `c` is strictly shallower, or equally deep and `c` is explicitly named while `x` is not;
    (so: unique at minimum depth, else the unique explicitly named one among those at minimum depth, else none)
  * order of members = lexicographic order of index paths;
  * embedded fallback = the fallback candidate strictly shallower than every other one.
-/
import JsonV.Model.Fields

namespace JsonV.Spec.FieldRule
open JsonV JsonV.Model JsonV.Model.Fields

/-- Documented classification of one (well-formed) field declaration. -/
inductive Kind
  | ignored
  | embedStruct (t : StructId)
  | fallback
  | member (o : FieldOpts)
deriving Repr, DecidableEq

/-- doc.go: `json:"-"` and unexported non-embedded fields are ignored; a Go embedded field is JSON-embedded
unless it has an explicit JSON name; `embed` embeds a named field; embedded `jsontext.Value` / `map[~string]T`
are fallbacks; everything else is a member with its options. -/
def kindOf (d : FieldDecl) : Kind :=
  if d.tagDash || (!d.exported && !d.anonymous) then .ignored
  else if d.embedOpt || (d.anonymous && d.name.isNone && d.ty.structId?.isSome) then
    match d.ty with
    | .struct t => .embedStruct t
    | .ptr t => .embedStruct t
    | .fbValue => .fallback
    | .fbMap => .fallback
    | _ => .ignored
  else .member { name := d.name.getD d.goName, hasName := d.name.isSome, nameNeedEscape := needEscape (d.name.getD d.goName),
                 casing := d.casing, embed := false, omitzero := d.omitzero, omitempty := d.omitempty,
                 string := d.string, format := d.format }

/-- `Reach g root p s`: the index path `p` leads from `root` through embedded struct fields to struct `s`. -/
inductive Reach (g : Graph) (root : StructId) : List Nat → StructId → Prop
  | root : Reach g root [] root
  | step {p : List Nat} {s : StructId} {i : Nat} {d : FieldDecl} {t : StructId} :
      Reach g root p s → (g.fieldsOf s)[i]? = some d → kindOf d = .embedStruct t → Reach g root (p ++ [i]) t

/-- A candidate member: full index path and options. -/
structure Cand where
  index : List Nat
  opts : FieldOpts
deriving Repr, DecidableEq

def Cand.depth (c : Cand) : Nat := c.index.length
def Cand.name (c : Cand) : Bytes := c.opts.name
def Cand.hasName (c : Cand) : Bool := c.opts.hasName

/-- `c` is a member field of a struct reachable from `root`. -/
def IsCand (g : Graph) (root : StructId) (c : Cand) : Prop :=
  ∃ p s i d, Reach g root p s ∧ (g.fieldsOf s)[i]? = some d ∧ kindOf d = .member c.opts ∧ c.index = p ++ [i]

/-- `c` takes precedence over `x` (both of the same name). -/
def Beats (cDepth : Nat) (cNamed : Bool) (xDepth : Nat) (xNamed : Bool) : Prop :=
  cDepth < xDepth ∨ (cDepth = xDepth ∧ cNamed = true ∧ xNamed = false)

/-- The documented winner among a set of candidates. -/
def Winner (C : Cand → Prop) (c : Cand) : Prop :=
  C c ∧ ∀ x, C x → x.name = c.name → x ≠ c → Beats c.depth c.hasName x.depth x.hasName

/-- The same rule over a finite list of resolved-field records (used for the enumerated candidates). -/
def WinnerIn (L : List RField) (f : RField) : Prop :=
  f ∈ L ∧ ∀ x ∈ L, x.name = f.name → x ≠ f → Beats f.depth f.hasName x.depth x.hasName

/-- A fallback candidate: an embedded `jsontext.Value`/map field of a reachable struct. -/
def IsFallback (g : Graph) (root : StructId) (ix : List Nat) : Prop :=
  ∃ p s i d, Reach g root p s ∧ (g.fieldsOf s)[i]? = some d ∧ kindOf d = .fallback ∧ ix = p ++ [i]

/-- The embedded fallback: strictly shallower than every other fallback candidate. -/
def FallbackWinner (g : Graph) (root : StructId) (ix : List Nat) : Prop :=
  IsFallback g root ix ∧ ∀ jx, IsFallback g root jx → jx ≠ ix → ix.length < jx.length

/-- Lexicographic order of index paths (`slices.Compare ≤ 0`), as a proposition. -/
inductive IndexLe : List Nat → List Nat → Prop
  | nil (b : List Nat) : IndexLe [] b
  | lt {x y : Nat} (a b : List Nat) : x < y → IndexLe (x :: a) (y :: b)
  | eq (x : Nat) {a b : List Nat} : IndexLe a b → IndexLe (x :: a) (x :: b)

/-- The hypothesis under which the search of fields.go enumerates every path: no struct that itself embeds
structs is reached twice at its minimum depth.  (Without it the code keeps fields the rule drops: see
`Props/C15.lean: dup_embed_counterexample` and known finding `dup-embed-kept`.) -/
def NoDupEmbed (g : Graph) (root : StructId) : Prop :=
  ∀ p q s, Reach g root p s → Reach g root q s → p.length = q.length →
    (∀ r, Reach g root r s → p.length ≤ r.length) →
    (∃ (i : Nat) (d : FieldDecl) (t : StructId), (g.fieldsOf s)[i]? = some d ∧ kindOf d = .embedStruct t) → p = q

/-! ### Name folding on ASCII -/

/-- ASCII lower-casing. -/
def lowerAscii (c : UInt8) : UInt8 :=
  if 0x41 ≤ c.toNat ∧ c.toNat ≤ 0x5A then UInt8.ofNat (c.toNat + 32) else c

/-- Delete `_` and `-`, then fold ASCII case: the documented meaning of case-insensitive matching. -/
def normAscii (b : Bytes) : Bytes :=
  (b.filter (fun c => !(c.toNat == 0x5F || c.toNat == 0x2D))).map lowerAscii

def IsAscii (b : Bytes) : Prop := ∀ c ∈ b, c.toNat < 0x80

end JsonV.Spec.FieldRule
