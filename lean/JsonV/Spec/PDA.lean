/-
Code-independent specification of "this sequence of token kinds is a viable prefix of a
stream of JSON values" (RFC 8259 grammar at token level + the depth limit), as a push-down
automaton over an abstract stack of frames.  Nothing here mentions the packed `stateEntry`
words of the implementation.  Core Lean only.

A frame records the kind of an open container and how many *elements* it holds so far; as in
the implementation every member name and every member value of an object counts as one
element, so an object frame with an even count expects a name (or `}`), with an odd count a value.
The bottom frame is the virtual top-level array that holds the stream of top-level values.
-/
import JsonV.Model.Basic

namespace JsonV.Spec.PDA

/-- Token kinds: literal (`null`/`true`/`false`), string, number and the four delimiters. -/
inductive Kind where
  | lit | str | num | beginObj | endObj | beginArr | endArr
deriving DecidableEq, Repr, Inhabited

namespace Kind
/-- The `jsontext.Kind` byte of a token kind (literals are represented by `'n'`). -/
def byte : Kind → UInt8
  | lit => 0x6e | str => 0x22 | num => 0x30
  | beginObj => 0x7b | endObj => 0x7d | beginArr => 0x5b | endArr => 0x5d
def closing : Kind → Bool
  | endObj => true | endArr => true | _ => false
def opening : Kind → Bool
  | beginObj => true | beginArr => true | _ => false
end Kind

inductive Frame where
  | arr (n : Nat)   -- array with n elements so far
  | obj (n : Nat)   -- object with n names+values so far
deriving DecidableEq, Repr, Inhabited

namespace Frame
def count : Frame → Nat
  | arr n => n | obj n => n
def bump : Frame → Frame
  | arr n => arr (n + 1) | obj n => obj (n + 1)
/-- The next token must be a member name (or `}`). -/
def needName : Frame → Bool
  | obj n => decide (n % 2 = 0) | arr _ => false
/-- The next token must be a member value. -/
def needValue : Frame → Bool
  | obj n => decide (n % 2 = 1) | arr _ => false
end Frame

/-- Innermost frame first; the last element is the virtual top-level array. -/
abbrev Frames := List Frame

def init : Frames := [.arr 0]

/-- One token.  `max` is the maximal number of open containers (10000 in the library). -/
def step (max : Nat) (fs : Frames) (k : Kind) : Option Frames :=
  match fs with
  | [] => none
  | f :: rest =>
    match k with
    | .str => some (f.bump :: rest)
    | .lit | .num => if f.needName then none else some (f.bump :: rest)
    | .beginObj =>
      if f.needName then none else if rest.length < max then some (.obj 0 :: f.bump :: rest) else none
    | .beginArr =>
      if f.needName then none else if rest.length < max then some (.arr 0 :: f.bump :: rest) else none
    | .endObj =>
      match f, rest with
      | .obj n, g :: rest' => if n % 2 = 0 then some (g :: rest') else none
      | _, _ => none
    | .endArr =>
      match f, rest with
      | .arr _, g :: rest' => some (g :: rest')   -- never the virtual top-level array
      | _, _ => none

def run (max : Nat) : Frames → List Kind → Option Frames
  | fs, [] => some fs
  | fs, k :: ks => match step max fs k with
    | some fs' => run max fs' ks
    | none => none

/-- `ks` is a prefix of some stream of JSON values nested at most `max` deep. -/
def Viable (max : Nat) (ks : List Kind) : Prop := (run max init ks).isSome = true

instance (max : Nat) (ks : List Kind) : Decidable (Viable max ks) := by unfold Viable; infer_instance

/-- Number of open containers (0 at top level). -/
def depth (fs : Frames) : Nat := fs.length - 1

/-! ### Delimiters and indentation implied by the grammar -/

inductive Delim where
  | none | colon | comma
deriving DecidableEq, Repr

/-- The separator that has to precede a token of kind `next`: a colon after a member name,
a comma before every element but the first — never before a closing delimiter, never between top-level values. -/
def delim (fs : Frames) (next : Kind) : Delim :=
  match fs with
  | f :: _ :: _ =>
    if f.needValue then .colon
    else if f.count > 0 && !next.closing then .comma
    else .none
  | _ => .none

/-- Multiline layout: `0` = nothing, `n > 0` = newline, prefix and `n-1` indents before the next token.
Elements are indented to the depth of their container, a closing delimiter of a non-empty
container one less, member values and top-level values not at all. -/
def indent (fs : Frames) (next : Kind) : Nat :=
  match fs with
  | f :: _ :: _ =>
    if next.closing then (if f.count = 0 then 0 else fs.length - 1)
    else if f.needValue then 0 else fs.length
  | _ => 0

end JsonV.Spec.PDA
