/-
Specification of the bytes the token-level encoder has to produce for an accepted sequence of tokens:
the layout is derived from the grammar's push-down automaton (Spec/PDA.lean) alone — separators from
`PDA.delim`, indentation from `PDA.indent`, one newline after every top-level value — and the text of a
token is `null`/`false`/`true`, the quoted string, the number literal or the delimiter.
(The text of a string is `Model.Encoder.appendQuote`, whose properties are the subject of C11.)
Core Lean only.
-/
import JsonV.Spec.PDA
import JsonV.Model.Encoder

namespace JsonV.Spec.Render
open JsonV JsonV.Spec.PDA JsonV.Model.Encoder

/-- The grammar kind of a token. -/
def kindOf : Tok → Kind
  | .null | .fals | .tru => .lit
  | .str _ => .str
  | .num _ => .num
  | .beginObj => .beginObj | .endObj => .endObj | .beginArr => .beginArr | .endArr => .endArr

/-- The bytes of the token itself. -/
def tokText (o : Opts) : Tok → Bytes
  | .null => [0x6e, 0x75, 0x6c, 0x6c]
  | .fals => [0x66, 0x61, 0x6c, 0x73, 0x65]
  | .tru => [0x74, 0x72, 0x75, 0x65]
  | .str s => (appendQuote o s).1
  | .num text => text
  | .beginObj => [0x7b] | .endObj => [0x7d] | .beginArr => [0x5b] | .endArr => [0x5d]

/-- Newline, prefix and `n-1` indents (`n = 0`: nothing). -/
def indentBytes (o : Opts) (n : Nat) : Bytes :=
  if n = 0 then [] else [0x0a] ++ o.indentPrefix ++ (List.replicate (n - 1) o.indent).flatten

/-- Separator and whitespace in front of a token of kind `k` when the open containers are `fs`. -/
def sepBytes (o : Opts) (fs : Frames) (k : Kind) : Bytes :=
  match delim fs k with
  | .colon => 0x3a :: (if o.spaceAfterColon then [0x20] else [])
  | .comma => 0x2c :: (if o.spaceAfterComma then [0x20] else []) ++
      (if o.multiline then indentBytes o (indent fs k) else [])
  | .none => if o.multiline then indentBytes o (indent fs k) else []

/-- Rendering of a token sequence from the frames `fs`; defined as long as the sequence is viable. -/
def renderFrom (o : Opts) : Frames → List Tok → Bytes
  | _, [] => []
  | fs, t :: ts =>
    match step o.maxDepth fs (kindOf t) with
    | none => []
    | some fs' =>
      sepBytes o fs (kindOf t) ++ tokText o t ++ (if fs'.length = 1 then [0x0a] else []) ++ renderFrom o fs' ts

def render (o : Opts) (ts : List Tok) : Bytes := renderFrom o PDA.init ts

end JsonV.Spec.Render
