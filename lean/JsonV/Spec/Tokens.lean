/-
Token-level specification used by C12 (reformatting preserves meaning).  Core Lean only.

* `Tok`       — the tokens of a JSON text; strings and numbers keep their raw literal.
* `scanStr`, `scanNum` — the lexical grammar of string and number literals as one-byte-per-step
  recognisers (`SSt.next`, `NSt.next`), in the permissive mode used by `Value.Compact`/`Value.Indent`
  (AllowInvalidUTF8: any byte ≥ 0x80 and any `\uXXXX` are accepted; control bytes are not).
* `step`/`accepts` — the push-down automaton of the JSON grammar over tokens: which delimiter precedes a
  token in a given context, objects alternate string names and values, nesting depth ≤ `maxDepth`.
* `WellNested ts` — `ts` is the token sequence of exactly one JSON value.

This file is self-contained on purpose (slices `wire` and `sm` model the real scanners and the real
state machine; the correspondence check ties this compact version to the running code).
-/
import JsonV.Model.Basic
import JsonV.Gen.Constants

namespace JsonV.Fmt

/-! ### bytes -/

def isWs (c : UInt8) : Bool := c == 0x20 || c == 0x09 || c == 0x0a || c == 0x0d
def isDigit (c : UInt8) : Bool := decide (0x30 ≤ c) && decide (c ≤ 0x39)
def isDigit19 (c : UInt8) : Bool := decide (0x31 ≤ c) && decide (c ≤ 0x39)
def isHex (c : UInt8) : Bool :=
  isDigit c || (decide (0x61 ≤ c) && decide (c ≤ 0x66)) || (decide (0x41 ≤ c) && decide (c ≤ 0x46))
/-- the second byte of a two-byte escape: `" \ / b f n r t` -/
def isSimpleEsc (c : UInt8) : Bool :=
  c == 0x22 || c == 0x5c || c == 0x2f || c == 0x62 || c == 0x66 || c == 0x6e || c == 0x72 || c == 0x74
/-- bytes that can occur in a number literal: digits `+ - . e E` -/
def isNumChar (c : UInt8) : Bool :=
  isDigit c || c == 0x2b || c == 0x2d || c == 0x2e || c == 0x65 || c == 0x45

def allWs (b : Bytes) : Bool := b.all isWs

/-! ### tokens -/

inductive Tok where
  | bo | eo | ba | ea
  | str (raw : Bytes)
  | num (raw : Bytes)
  | null | tru | fls
  deriving DecidableEq, Repr

inductive Delim where
  | comma | colon
  deriving DecidableEq, Repr

def Tok.isStr : Tok → Bool
  | .str _ => true
  | _ => false

def Tok.isNum : Tok → Bool
  | .num _ => true
  | _ => false

def Tok.bytes : Tok → Bytes
  | .bo => [0x7b] | .eo => [0x7d] | .ba => [0x5b] | .ea => [0x5d]
  | .str raw => raw
  | .num raw => raw
  | .null => [0x6e, 0x75, 0x6c, 0x6c]
  | .tru => [0x74, 0x72, 0x75, 0x65]
  | .fls => [0x66, 0x61, 0x6c, 0x73, 0x65]

def Delim.bytes : Delim → Bytes
  | .comma => [0x2c]
  | .colon => [0x3a]

/-! ### string literals (after the opening quote) -/

inductive SSt where
  | body | esc | h4 | h3 | h2 | h1
  deriving DecidableEq, Repr

/-- `none`: reject; `some none`: this byte is the closing quote; `some (some s)`: continue in `s`. -/
def SSt.next : SSt → UInt8 → Option (Option SSt)
  | .body, c =>
    if c = 0x22 then some none
    else if c = 0x5c then some (some .esc)
    else if c < 0x20 then none
    else some (some .body)
  | .esc, c => if c = 0x75 then some (some .h4) else if isSimpleEsc c then some (some .body) else none
  | .h4, c => if isHex c then some (some .h3) else none
  | .h3, c => if isHex c then some (some .h2) else none
  | .h2, c => if isHex c then some (some .h1) else none
  | .h1, c => if isHex c then some (some .body) else none

def consFst (c : UInt8) : Option (Bytes × Bytes) → Option (Bytes × Bytes)
  | some (a, r) => some (c :: a, r)
  | none => none

/-- Scans the remainder of a string literal; returns (consumed including the closing quote, rest). -/
def scanStr : SSt → Bytes → Option (Bytes × Bytes)
  | _, [] => none
  | st, c :: cs =>
    match st.next c with
    | none => none
    | some none => some ([c], cs)
    | some (some st') => consFst c (scanStr st' cs)

/-! ### number literals -/

inductive NSt where
  | start | minus | zero | int | dot | frac | exp | expSign | expDigits
  deriving DecidableEq, Repr

def NSt.accept : NSt → Bool
  | .zero | .int | .frac | .expDigits => true
  | _ => false

def NSt.next : NSt → UInt8 → Option NSt
  | .start, c => if c = 0x2d then some .minus else if c = 0x30 then some .zero else if isDigit19 c then some .int else none
  | .minus, c => if c = 0x30 then some .zero else if isDigit19 c then some .int else none
  | .zero, c => if c = 0x2e then some .dot else if c = 0x65 ∨ c = 0x45 then some .exp else none
  | .int, c => if isDigit c then some .int else if c = 0x2e then some .dot else if c = 0x65 ∨ c = 0x45 then some .exp else none
  | .dot, c => if isDigit c then some .frac else none
  | .frac, c => if isDigit c then some .frac else if c = 0x65 ∨ c = 0x45 then some .exp else none
  | .exp, c => if c = 0x2b ∨ c = 0x2d then some .expSign else if isDigit c then some .expDigits else none
  | .expSign, c => if isDigit c then some .expDigits else none
  | .expDigits, c => if isDigit c then some .expDigits else none

/-- Longest-match scan of a number; fails where the grammar needs a digit (`1.`, `1e`, `-`). -/
def scanNum : NSt → Bytes → Option (Bytes × Bytes)
  | st, [] => if st.accept then some ([], []) else none
  | st, c :: cs =>
    match st.next c with
    | some st' => consFst c (scanNum st' cs)
    | none => if st.accept then some ([], c :: cs) else none

/-- A token is lexically valid when its raw literal is exactly one literal of its kind. -/
def Tok.valid : Tok → Bool
  | .str raw =>
    match raw with
    | q :: a => q == 0x22 && scanStr .body a == some (a, [])
    | [] => false
  | .num raw => scanNum .start raw == some (raw, [])
  | _ => true

/-! ### the grammar over tokens -/

/-- What the innermost open context has seen so far. -/
inductive Fr where
  | top0  -- nothing yet
  | top1  -- the top-level value is complete
  | arr0  -- `[` just opened
  | arrN  -- array with at least one element
  | obj0  -- `{` just opened
  | objK  -- after a member name
  | objV  -- after a member value
  deriving DecidableEq, Repr

abbrev Stack := List Fr

/-- The nesting limit of the real coders (regenerated from state.go: Tie A). -/
def maxDepth : Nat := JsonV.Gen.jsontext.c_maxNestingDepth

/-- A value (scalar or container start) arrives in context `f`: the delimiter that must precede it and
the context afterwards; `none` when no value may appear here.  Names must be strings. -/
def Fr.value (isStr : Bool) : Fr → Option (Option Delim × Fr)
  | .top0 => some (none, .top1)
  | .top1 => none
  | .arr0 => some (none, .arrN)
  | .arrN => some (some .comma, .arrN)
  | .obj0 => if isStr then some (none, .objK) else none
  | .objK => some (some .colon, .objV)
  | .objV => if isStr then some (some .comma, .objK) else none

/-- One token: the delimiter required before it and the new stack.  The number of open containers is the
number of frames below the current one. -/
def step : Stack → Tok → Option (Option Delim × Stack)
  | [], _ => none
  | f :: s, .eo => if f = .obj0 ∨ f = .objV then some (none, s) else none
  | f :: s, .ea => if f = .arr0 ∨ f = .arrN then some (none, s) else none
  | f :: s, .bo =>
    match f.value false with
    | some (d, f') => if s.length < maxDepth then some (d, .obj0 :: f' :: s) else none
    | none => none
  | f :: s, .ba =>
    match f.value false with
    | some (d, f') => if s.length < maxDepth then some (d, .arr0 :: f' :: s) else none
    | none => none
  | f :: s, .str _ =>
    match f.value true with
    | some (d, f') => some (d, f' :: s)
    | none => none
  | f :: s, _ =>
    match f.value false with
    | some (d, f') => some (d, f' :: s)
    | none => none

def accepts : Stack → List Tok → Bool
  | st, [] => st == [.top1]
  | st, t :: ts =>
    match step st t with
    | some (_, st') => accepts st' ts
    | none => false

/-- `ts` is the token sequence of exactly one JSON value: every literal is lexically valid, brackets are
balanced, object members are `name value` pairs with string names, depth ≤ `maxDepth`. -/
def WellNested (ts : List Tok) : Prop := (∀ t ∈ ts, t.valid = true) ∧ accepts [.top0] ts = true

instance (ts : List Tok) : Decidable (WellNested ts) := by unfold WellNested; infer_instance

end JsonV.Fmt
