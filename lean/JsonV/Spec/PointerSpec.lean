/-
Declarative side of C16: a JSON Pointer (RFC 6901) is a list of reference tokens;
`render` writes it with the `~0`/`~1` escaping, byte by byte (RFC 6901 §3: "~" → "~0", "/" → "~1",
nothing else changes).  `pointerOf w hist` is the path designated by position `w` after the
token history `hist`, computed on explicit frames (no counters-with-parity, no separate names stack):

  w = -1  the token processed last (the container itself if it is still empty)
  w =  0  the innermost open container, or its member when a name has been read and its value not yet
  w = +1  the value that comes next if the container continues (for an object that expects a name: the object)

Core Lean only.
-/
import JsonV.Model.Basic
import JsonV.Model.Pointer

namespace JsonV.Spec.Pointer
open JsonV JsonV.Model.Pointer

/-- RFC 6901 §3 escaping of one reference token, byte by byte. -/
def escapeTok : Bytes → Bytes
  | [] => []
  | b :: rest =>
    if b = 0x7e then 0x7e :: 0x30 :: escapeTok rest
    else if b = 0x2f then 0x7e :: 0x31 :: escapeTok rest
    else b :: escapeTok rest

/-- The text of a pointer: "/" + escaped token, for every token. -/
def render : List Bytes → Bytes
  | [] => []
  | t :: ts => 0x2f :: escapeTok t ++ render ts

/-- One step of a path. -/
inductive Ref where
  | name (n : Bytes)
  | index (i : Nat)
deriving DecidableEq, Repr, Inhabited

/-- The reference token of a step: the name itself, or the index in base 10 without leading zeros. -/
def Ref.token : Ref → Bytes
  | .name n => n
  | .index i => decimal i

/-- An open container.  `arr started`: number of elements begun so far.
`obj last awaiting`: the member name read last (if any) and whether its value has not begun yet. -/
inductive Frame where
  | arr (started : Nat)
  | obj (last : Option Bytes) (awaiting : Bool)
deriving DecidableEq, Repr, Inhabited

/-- A value begins in frame `f` (a scalar, or the opening of a nested container). -/
def Frame.beginValue : Frame → Option Frame
  | .arr n => some (.arr (n + 1))
  | .obj (some nm) true => some (.obj (some nm) false)
  | .obj _ _ => none                      -- a name is expected

/-- Frames innermost first; the last one is the stream of top-level values (an array without commas). -/
def stepFrames (fs : List Frame) (t : Tok) : Option (List Frame) :=
  match fs with
  | [] => none
  | f :: below =>
    match t with
    | .scalar => (f.beginValue).map (· :: below)
    | .str s =>
      match f with
      | .obj _ false => some (.obj (some s) true :: below)     -- a member name
      | _ => (f.beginValue).map (· :: below)
    | .beginObj => (f.beginValue).map (fun f' => .obj none false :: f' :: below)
    | .beginArr => (f.beginValue).map (fun f' => .arr 0 :: f' :: below)
    | .endObj =>
      match f, below with
      | .obj _ false, _ :: _ => some below
      | _, _ => none
    | .endArr =>
      match f, below with
      | .arr _, _ :: _ => some below
      | _, _ => none

def runFrames (fs : List Frame) : List Tok → Option (List Frame)
  | [] => some fs
  | t :: ts => match stepFrames fs t with
    | none => none
    | some fs' => runFrames fs' ts

/-- The step contributed by a container that is *not* innermost: the member/element being processed. -/
def Frame.current : Frame → Option Ref
  | .arr n => if n = 0 then none else some (.index (n - 1))
  | .obj last _ => last.map .name

/-- The step contributed by the innermost container for position `w`. -/
def Frame.innermost (w : Int) : Frame → Option Ref
  | .arr n =>
    if w < 0 then (if n = 0 then none else some (.index (n - 1)))
    else if w = 0 then none
    else some (.index n)
  | .obj last awaiting =>
    if w < 0 then last.map .name
    else if awaiting then last.map .name else none

/-- Path for position `w` from frames given innermost first (the top-level frame is dropped:
top-level values have the empty pointer). -/
def pathOfFrames (w : Int) : List Frame → List Ref
  | [] => []
  | [_] => []                              -- only the top-level stream is open
  | f :: below =>
    ((below.dropLast.reverse.filterMap Frame.current)) ++ (f.innermost w).toList

/-- The path designated by position `w` after the tokens `hist` (`none`: `hist` is not a valid token sequence). -/
def pointerOf (w : Int) (hist : List Tok) : Option (List Ref) :=
  (runFrames [.arr 0] hist).map (pathOfFrames w)

/-- Path of the innermost open container `C` itself (frames innermost first). -/
def containerOfFrames : List Frame → List Ref
  | [] => []
  | _ :: below => below.dropLast.reverse.filterMap Frame.current

/-- The acceptable continuations `next` of `ptr(C)`: the member name read last, or the index of the element read
last / being read. -/
def Frame.nexts : Frame → List Ref
  | .arr n => (if n = 0 then [] else [.index (n - 1)]) ++ [.index n]
  | .obj last _ => (last.map .name).toList

/-- The `next`s of the innermost open container (none at top level: top-level values have the empty pointer). -/
def nextsOfFrames : List Frame → List Ref
  | f :: _ :: _ => f.nexts
  | _ => []

/-- `ptr(C)` and the acceptable `next`s after a token history. -/
def containerOf (hist : List Tok) : Option (List Ref × List Ref) :=
  (runFrames [.arr 0] hist).map fun fs => (containerOfFrames fs, nextsOfFrames fs)

/-- The pointer text of a path. -/
def renderPath (p : List Ref) : Bytes := render (p.map Ref.token)

/-- Token-list prefix (`p` designates a value that is or contains the one designated by `q`). -/
def IsPrefix (p q : List Bytes) : Prop := ∃ r, q = p ++ r

end JsonV.Spec.Pointer
