/-
C02 spec: a small boolean recogniser for ONE JSON value (RFC 8259), with the two RFC 7493
restrictions selectable (well-formed UTF-8 / no unpaired surrogate escapes; no duplicate names)
and a nesting limit.  Core Lean only.

The recogniser accepts the WHITESPACE-FREE texts of the grammar — the form in which the marshal
fast paths emit JSON (they are only taken when no whitespace option is set, arshal_default.go:142,
228, 478, 829, 1509).  It is therefore a sound under-approximation of "valid JSON": everything it
accepts is a valid JSON text; texts containing insignificant whitespace are judged by the harness
validator and by the `wire valid` oracle op.

Scanners return the unconsumed rest (`input = consumed ++ rest`).
-/
import JsonV.Model.Basic
import JsonV.Model.Utf8
import JsonV.Model.Quote

namespace JsonV.Spec.ValidJson
open JsonV JsonV.Model

structure Opt where
  /-- RFC 7493 §2.1: reject ill-formed UTF-8 and unpaired surrogate escapes (`AllowInvalidUTF8` off). -/
  strict : Bool := true
  /-- RFC 7493 §2.3: reject duplicate member names (`AllowDuplicateNames` off). -/
  noDup : Bool := true
  /-- containers may be nested at most this deep (jsontext: 10000). -/
  maxDepth : Nat := 10000
  /-- what member names are compared by: maps the spelling of a name (a string literal, quotes included) to its
  meaning.  Default: the text recovered by `AppendUnquote` (slice C11's model, `Model/Quote.lean`). -/
  key : Bytes → Bytes := fun lit => (JsonV.Model.Quote.appendUnquote lit).1

/-! ### numbers -/

def isDigit (c : UInt8) : Bool := 0x30 ≤ c && c ≤ 0x39

def dropDigits : Bytes → Bytes
  | [] => []
  | c :: r => if isDigit c then dropDigits r else c :: r

/-- int = "0" / digit1-9 *DIGIT -/
def pInt : Bytes → Option Bytes
  | [] => none
  | c :: r => if c = 0x30 then some r else if isDigit c then some (dropDigits r) else none

/-- [ "." 1*DIGIT ] -/
def pFrac : Bytes → Option Bytes
  | [] => some []
  | c :: r =>
    if c = 0x2e then
      match r with
      | [] => none
      | c1 :: r1 => if isDigit c1 then some (dropDigits r1) else none
    else some (c :: r)

/-- 1*DIGIT after an optional sign -/
def pExpDigits : Bytes → Option Bytes
  | [] => none
  | c :: r => if isDigit c then some (dropDigits r) else none

/-- [ ("e"/"E") ["+"/"-"] 1*DIGIT ] -/
def pExp : Bytes → Option Bytes
  | [] => some []
  | c :: r =>
    if c = 0x65 ∨ c = 0x45 then
      match r with
      | [] => none
      | c1 :: r1 => if c1 = 0x2b ∨ c1 = 0x2d then pExpDigits r1 else pExpDigits (c1 :: r1)
    else some (c :: r)

/-- number = [ "-" ] int [ frac ] [ exp ] -/
def pNumber (s : Bytes) : Option Bytes :=
  let s1 := match s with
    | c :: r => if c = 0x2d then r else c :: r
    | [] => []
  (pInt s1).bind fun s2 => (pFrac s2).bind pExp

/-! ### strings -/

def hexVal (c : UInt8) : Option Nat :=
  if 0x30 ≤ c ∧ c ≤ 0x39 then some (c.toNat - 0x30)
  else if 0x61 ≤ c ∧ c ≤ 0x66 then some (c.toNat - 0x61 + 10)
  else if 0x41 ≤ c ∧ c ≤ 0x46 then some (c.toNat - 0x41 + 10)
  else none

def hex4 (a b c d : UInt8) : Option Nat :=
  match hexVal a, hexVal b, hexVal c, hexVal d with
  | some x, some y, some z, some w => some (x * 4096 + y * 256 + z * 16 + w)
  | _, _, _, _ => none

def isSimpleEscape (e : UInt8) : Bool :=
  e = 0x22 || e = 0x5c || e = 0x2f || e = 0x62 || e = 0x66 || e = 0x6e || e = 0x72 || e = 0x74

def inRange (b : UInt8) (lo hi : Nat) : Bool := lo ≤ b.toNat && b.toNat ≤ hi

/-- Number of continuation bytes of a well-formed multi-byte sequence with lead byte `c`
(Unicode table 3-7 through `Utf8.leadInfo`). -/
def utf8Len (c : UInt8) (r : Bytes) : Option Nat :=
  match Utf8.leadInfo c.toNat with
  | none => none
  | some (sz, lo, hi) =>
    match r with
    | [] => none
    | b1 :: r1 =>
      if !inRange b1 lo hi then none
      else if sz = 2 then some 1
      else
        match r1 with
        | [] => none
        | b2 :: r2 =>
          if !inRange b2 0x80 0xBF then none
          else if sz = 3 then some 2
          else
            match r2 with
            | [] => none
            | b3 :: _ => if !inRange b3 0x80 0xBF then none else some 3

/-- The body of a string literal after the opening quote, up to and including the closing quote.
`strict`: multi-byte sequences must be well-formed and `\uXXXX` surrogates must come in
high/low pairs (an unpaired one is rejected). -/
def strBody (strict : Bool) : Bytes → Option Bytes
  | [] => none
  | c :: r =>
    if c = 0x22 then some r
    else if c = 0x5c then
      match r with
      | [] => none
      | e :: r1 =>
        if isSimpleEscape e then strBody strict r1
        else if e = 0x75 then
          match r1 with
          | a :: b :: c2 :: d :: r2 =>
            match hex4 a b c2 d with
            | none => none
            | some v =>
              if strict && Utf8.isHighSurrogate v then
                match r2 with
                | bs :: u :: a' :: b' :: c' :: d' :: r3 =>
                  if bs = 0x5c ∧ u = 0x75 then
                    match hex4 a' b' c' d' with
                    | some v2 => if Utf8.isLowSurrogate v2 then strBody strict r3 else none
                    | none => none
                  else none
                | _ => none
              else if strict && Utf8.isLowSurrogate v then none
              else strBody strict r2
          | _ => none
        else none
    else if c < 0x20 then none
    else if c < 0x80 || !strict then strBody strict r
    else
      match utf8Len c r with
      | some n => strBody strict (r.drop n)
      | none => none
termination_by s => s.length
decreasing_by all_goals (simp_wf; try omega)

/-! ### values -/

/-- literal tail: `w` must be a prefix of `s`. -/
def lit (w s : Bytes) : Option Bytes := if w.isPrefixOf s then some (s.drop w.length) else none

inductive Mode where
  /-- one value -/
  | value
  /-- inside `[`: value *( "," value ) "]" -/
  | elems
  /-- inside `{`: string ":" value *( "," string ":" value ) "}", `seen` = keys of the names so far -/
  | members (seen : List Bytes)

def Mode.tag : Mode → Nat
  | .value => 0
  | _ => 1

/-- Recursive-descent recogniser.  `d` = number of containers currently open.
The tests `_.length < _.length` are always true (the scanners consume input, see
`Lemmas/EncInvL`); they only make termination evident. -/
def parse (o : Opt) : Mode → Nat → Bytes → Option Bytes
  | .value, _, [] => none
  | .value, d, c :: r =>
    if c = 0x22 then strBody o.strict r
    else if c = 0x5b then
      if d < o.maxDepth then
        match r with
        | [] => none
        | c2 :: r' => if c2 = 0x5d then some r' else parse o .elems (d + 1) (c2 :: r')
      else none
    else if c = 0x7b then
      if d < o.maxDepth then
        match r with
        | [] => none
        | c2 :: r' => if c2 = 0x7d then some r' else parse o (.members []) (d + 1) (c2 :: r')
      else none
    else if c = 0x6e then lit [0x75, 0x6c, 0x6c] r
    else if c = 0x74 then lit [0x72, 0x75, 0x65] r
    else if c = 0x66 then lit [0x61, 0x6c, 0x73, 0x65] r
    else pNumber (c :: r)
  | .elems, d, s =>
    match parse o .value d s with
    | some (c :: r) =>
      if r.length < s.length then
        if c = 0x2c then parse o .elems d r
        else if c = 0x5d then some r
        else none
      else none
    | _ => none
  | .members _, _, [] => none
  | .members seen, d, q :: r0 =>
    if q = 0x22 then
      match strBody o.strict r0 with
      | some (c :: r1) =>
        if c = 0x3a ∧ r1.length < r0.length then
          let k := o.key ((q :: r0).take (r0.length - r1.length))
          if o.noDup && seen.contains k then none
          else
            match parse o .value d r1 with
            | some (c2 :: r2) =>
              if r2.length < r1.length then
                if c2 = 0x2c then parse o (.members (k :: seen)) d r2
                else if c2 = 0x7d then some r2
                else none
              else none
            | _ => none
        else none
      | _ => none
    else none
termination_by m _ s => (s.length, m.tag)
decreasing_by
  all_goals simp_wf
  · exact Prod.Lex.left _ _ (by omega)
  · exact Prod.Lex.left _ _ (by omega)
  · exact Prod.Lex.right _ (by simp [Mode.tag])
  · exact Prod.Lex.left _ _ (by omega)
  · exact Prod.Lex.left _ _ (by omega)
  · exact Prod.Lex.left _ _ (by omega)

/-- `b` is exactly one JSON value (no surrounding whitespace) valid under `o`. -/
def validValue (o : Opt) (b : Bytes) : Bool := parse o .value 0 b == some []

/-- `b` is exactly one value when `d` containers are already open around it. -/
def validAt (o : Opt) (d : Nat) (b : Bytes) : Bool := parse o .value d b == some []

/-- `b` is a string literal. -/
def validString (o : Opt) (b : Bytes) : Bool :=
  match b with
  | c :: r => c == 0x22 && strBody o.strict r == some []
  | [] => false

end JsonV.Spec.ValidJson
