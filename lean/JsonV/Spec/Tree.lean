/-
L2 — the JSON tree (`JTree`) and the declarative `merge` of C14.  Core Lean only.

A `JTree` is the *meaning* of a JSON text once the tokenizer is done with it:
  * numbers keep their literal text (`num lit`, the bytes of the JSON number),
  * strings and member names are already unescaped (`str s`, Go string bytes),
  * objects keep the order of their members; a tree is `dupFree` when no object in it
    repeats a name (the default decoder rejects such texts, C08).

`merge j1 j2` is the specification side of C14: objects union recursively (members of the
left operand keep their order and are overridden/merged by name, new names of the right
operand are appended in their order), everything else is the right operand.

The file also fixes the **prefix token encoding** of trees on the oracle line protocol
(space-separated tokens, byte strings as lowercase hex, empty = `-`):

    n | t | f | N<hex literal> | S<hex bytes> | A<k> tree×k | O<k> (name-hex tree)×k

e.g. `{"a":[1,null],"":"x"}` is `O2 61 A2 N31 n - S78`.  The Go harness produces it from
real JSON with the library's own `jsontext.Decoder` (harness/gen_types.go, `treeOfJSON`).
-/
import JsonV.Model.Basic

namespace JsonV.Spec

/-! ### Association lists keyed by byte strings (object members, Go maps with string keys) -/

section Assoc
variable {α : Type}

/-- First value bound to `n`. -/
def alookup (n : Bytes) : List (Bytes × α) → Option α
  | [] => none
  | (k, v) :: r => if k = n then some v else alookup n r

/-- Is `n` bound? -/
def ahas (n : Bytes) (ms : List (Bytes × α)) : Bool := (alookup n ms).isSome

/-- Overwrite the first binding of `n` in place, or append a new binding at the end
(insertion order is kept; a list without repeated keys stays without repeated keys). -/
def aset (n : Bytes) (v : α) : List (Bytes × α) → List (Bytes × α)
  | [] => [(n, v)]
  | (k, w) :: r => if k = n then (k, v) :: r else (k, w) :: aset n v r

/-- The keys in order. -/
def akeys (ms : List (Bytes × α)) : List Bytes := ms.map Prod.fst

/-- No key occurs twice (executable). -/
def nodupB : List Bytes → Bool
  | [] => true
  | a :: r => !(r.contains a) && nodupB r

end Assoc

/-- L2 JSON tree. -/
inductive JTree where
  | null
  | bool (b : Bool)
  | num (lit : Bytes)
  | str (s : Bytes)
  | arr (xs : List JTree)
  | obj (ms : List (Bytes × JTree))
deriving Repr, Inhabited

namespace JTree

def isNull : JTree → Bool | .null => true | _ => false
def isObj : JTree → Bool | .obj _ => true | _ => false

mutual
/-- No object anywhere in the tree repeats a member name. -/
def dupFree : JTree → Bool
  | .arr xs => dupFreeL xs
  | .obj ms => nodupB (akeys ms) && dupFreeM ms
  | _ => true
def dupFreeL : List JTree → Bool
  | [] => true
  | x :: r => dupFree x && dupFreeL r
def dupFreeM : List (Bytes × JTree) → Bool
  | [] => true
  | (_, x) :: r => dupFree x && dupFreeM r
end

mutual
/-- C14 specification: objects union recursively, anything else → right operand. -/
def merge : JTree → JTree → JTree
  | .obj ms1, .obj ms2 => .obj (mergeL ms1 ms2 ++ ms2.filter (fun p => !(ahas p.1 ms1)))
  | _, r => r
/-- Members of the left object, each merged with the right member of the same name (if any). -/
def mergeL : List (Bytes × JTree) → List (Bytes × JTree) → List (Bytes × JTree)
  | [], _ => []
  | (n, a) :: rest, ms2 =>
    (n, match alookup n ms2 with
        | some b => merge a b
        | none => a) :: mergeL rest ms2
end

/-- Left fold of `merge` over a chain `j1 … jk` (C14 chains); the empty chain is `null`,
which is the left unit of `merge` on every tree. -/
def mergeAll : List JTree → JTree
  | [] => .null
  | j :: js => js.foldl merge j

end JTree

/-! ### Wire encoding (oracle line protocol) -/

namespace TreeWire

def hexDigit (n : Nat) : Char :=
  if n < 10 then Char.ofNat (48 + n) else Char.ofNat (87 + n)

def hexOf (b : Bytes) : String :=
  if b.isEmpty then "-" else
  String.ofList (b.foldr (fun x acc => hexDigit (x.toNat / 16) :: hexDigit (x.toNat % 16) :: acc) [])

def hexVal (c : Char) : Option Nat :=
  if '0' ≤ c ∧ c ≤ '9' then some (c.toNat - 48)
  else if 'a' ≤ c ∧ c ≤ 'f' then some (c.toNat - 87)
  else none

def unhexAux : List Char → List UInt8 → Option Bytes
  | [], acc => some acc.reverse
  | [_], _ => none
  | a :: b :: rest, acc =>
    match hexVal a, hexVal b with
    | some x, some y => unhexAux rest (UInt8.ofNat (x * 16 + y) :: acc)
    | _, _ => none

def unhex (s : String) : Option Bytes :=
  if s == "-" then some [] else unhexAux s.toList []

mutual
/-- Tokens of a tree, prepended to `acc`. -/
def emit : JTree → List String → List String
  | .null, acc => "n" :: acc
  | .bool true, acc => "t" :: acc
  | .bool false, acc => "f" :: acc
  | .num l, acc => ("N" ++ hexOf l) :: acc
  | .str s, acc => ("S" ++ hexOf s) :: acc
  | .arr xs, acc => ("A" ++ toString xs.length) :: emitL xs acc
  | .obj ms, acc => ("O" ++ toString ms.length) :: emitM ms acc
def emitL : List JTree → List String → List String
  | [], acc => acc
  | x :: r, acc => emit x (emitL r acc)
def emitM : List (Bytes × JTree) → List String → List String
  | [], acc => acc
  | (n, x) :: r, acc => hexOf n :: emit x (emitM r acc)
end

def render (j : JTree) : String := " ".intercalate (emit j [])

mutual
/-- Parse one tree from the front of a token list (`fuel` ≥ number of tokens suffices). -/
def parse : Nat → List String → Option (JTree × List String)
  | 0, _ => none
  | _, [] => none
  | fuel+1, tok :: rest =>
    match tok.toList with
    | ['n'] => some (.null, rest)
    | ['t'] => some (.bool true, rest)
    | ['f'] => some (.bool false, rest)
    | 'N' :: h => (unhex (String.ofList h)).map (fun b => (.num b, rest))
    | 'S' :: h => (unhex (String.ofList h)).map (fun b => (.str b, rest))
    | 'A' :: k => match (String.ofList k).toNat? with
        | some k => (parseL fuel k rest).map (fun (xs, r) => (.arr xs, r))
        | none => none
    | 'O' :: k => match (String.ofList k).toNat? with
        | some k => (parseM fuel k rest).map (fun (ms, r) => (.obj ms, r))
        | none => none
    | _ => none
def parseL : Nat → Nat → List String → Option (List JTree × List String)
  | 0, _, _ => none
  | _, 0, rest => some ([], rest)
  | fuel+1, k+1, toks =>
    match parse fuel toks with
    | some (x, r) => (parseL fuel k r).map (fun (xs, r') => (x :: xs, r'))
    | none => none
def parseM : Nat → Nat → List String → Option (List (Bytes × JTree) × List String)
  | 0, _, _ => none
  | _, 0, rest => some ([], rest)
  | _, _+1, [] => none
  | fuel+1, k+1, name :: toks =>
    match unhex name, parse fuel toks with
    | some n, some (x, r) => (parseM fuel k r).map (fun (ms, r') => ((n, x) :: ms, r'))
    | _, _ => none
end

/-- Parse one tree from the front of `toks`. -/
def parseTree (toks : List String) : Option (JTree × List String) := parse (2 * toks.length + 2) toks

end TreeWire

end JsonV.Spec
