/-
Specification of "member names are unique within each object" at token level, independent of the
encoder's state: along a token history we keep, for every OPEN object (innermost first), the list of
the member names written into it so far.  A name is the string that the emitted literal denotes
(`nameOf`: the token's text with every ill-formed byte replaced by U+FFFD, i.e. what a reader of the
output gets back).  Core Lean only.
-/
import JsonV.Spec.PDA
import JsonV.Spec.Render
import JsonV.Model.Encoder

namespace JsonV.Spec.Names
open JsonV JsonV.Spec.PDA JsonV.Spec.Render JsonV.Model.Encoder

/-- The member name denoted by the literal the encoder writes for the string token `s`. -/
def nameOf (o : Opts) (s : Bytes) : Bytes := unquote (appendQuote o s).1

/-- Is the token a member name when the open containers are `fs`? -/
def isNamePos (fs : Frames) : Bool :=
  match fs with
  | f :: _ => f.needName
  | [] => false

/-- Names per open object after one more token. -/
def namesStep (o : Opts) (fs : Frames) (ns : List (List Bytes)) (t : Tok) : List (List Bytes) :=
  match t with
  | .beginObj => [] :: ns
  | .endObj => ns.drop 1
  | .str s =>
    if isNamePos fs then
      match ns with
      | top :: rest => (top ++ [nameOf o s]) :: rest
      | [] => []
    else ns
  | _ => ns

/-- Frames and names after a history (the history is assumed viable; a non-viable step leaves both unchanged). -/
def track (o : Opts) : Frames × List (List Bytes) → List Tok → Frames × List (List Bytes)
  | st, [] => st
  | (fs, ns), t :: ts =>
    match step o.maxDepth fs (kindOf t) with
    | some fs' => track o (fs', namesStep o fs ns t) ts
    | none => track o (fs, ns) ts

/-- `track` that insists on viability: frames and names after `ts`, `none` if some step is not defined. -/
def trackRun (o : Opts) : Frames → List (List Bytes) → List Tok → Option (Frames × List (List Bytes))
  | fs, ns, [] => some (fs, ns)
  | fs, ns, t :: ts =>
    match step o.maxDepth fs (kindOf t) with
    | some fs' => trackRun o fs' (namesStep o fs ns t) ts
    | none => none

/-- The names already present in the innermost open object after the history `ts` (`[]` outside objects). -/
def innermostNames (o : Opts) (ts : List Tok) : List Bytes :=
  match (track o (PDA.init, []) ts).2 with
  | top :: _ => top
  | [] => []

/-- The token `t` may follow the history `ts` as far as names are concerned: if it is a string in
name position, its name is not yet used in the innermost open object. -/
def FreshName (o : Opts) (ts : List Tok) (t : Tok) : Prop :=
  ∀ s, t = .str s → isNamePos (track o (PDA.init, []) ts).1 = true → nameOf o s ∉ innermostNames o ts

end JsonV.Spec.Names
