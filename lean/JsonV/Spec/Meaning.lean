/-
C03 — the code-INDEPENDENT meaning of a JSON text (RFC 8259), core Lean only.

`parseTree : Bytes → Option MTree` is a grammar-directed parser written from the RFC
productions (§2 structural characters and whitespace, §3 literals, §4 objects, §5 arrays,
§6 numbers, §7 strings, §8.1 UTF-8).  It knows nothing about the Go implementation:

* strings are decoded by `unescape` (the nine escape productions; `\uXXXX\uXXXX` surrogate
  pairs are combined into one code point which is encoded as UTF-8 (RFC 3629); a surrogate that
  is not part of a pair, ill-formed UTF-8 and raw control characters make the text invalid —
  this is the strict reading the library applies under its default options);
* numbers keep their literal; the float64 they denote is a PARAMETER of the property theorems
  (`FloatParse`).  `f64Round` below is the *specification* of that parameter: the exact rational
  value of the literal rounded to nearest-even binary64, `none` on overflow.  It is executable
  (exact `Nat` arithmetic) and is validated by the harness against `math/big` and `strconv`;
* objects keep their members in textual order with decoded names, duplicates included
  (RFC 8259 allows them; rejecting them is the library's default policy, see Model/AnyDecode);
* there is no nesting limit here (the library's limit of 10000 is in the model).

All functions are total with explicit fuel; `parseTree` uses fuel = 2·(input length) + 2
(one unit per value and one per member/element list entry; see `Lemmas/MeaningFuel.lean`).
-/
import JsonV.Model.Basic

namespace JsonV.Spec.Meaning
open JsonV

/-- The meaning of a JSON text. -/
inductive MTree where
  | null
  | bool (b : Bool)
  | num (literal : Bytes)
  | str (decoded : Bytes)
  | arr (elems : List MTree)
  | obj (members : List (Bytes × MTree))
  deriving Inhabited

/-! ### Whitespace (RFC 8259 §2) -/

def isWs (c : UInt8) : Bool := c = 0x20 || c = 0x09 || c = 0x0A || c = 0x0D

def skipWs : Bytes → Bytes
  | [] => []
  | c :: r => if isWs c then skipWs r else c :: r

/-! ### UTF-8 (RFC 3629 §4 / Unicode table 3-7) -/

def isCont (c : UInt8) : Bool := 0x80 ≤ c && c ≤ 0xBF

/-- One well-formed UTF-8 encoded scalar value at the head of `b`: (its bytes, the rest). -/
def utf8Char (b : Bytes) : Option (Bytes × Bytes) :=
  match b with
  | [] => none
  | b0 :: r0 =>
    if b0 < 0x80 then some ([b0], r0)
    else if b0 < 0xC2 then none
    else if b0 < 0xE0 then
      match r0 with
      | b1 :: r1 => if isCont b1 then some ([b0, b1], r1) else none
      | _ => none
    else if b0 < 0xF0 then
      match r0 with
      | b1 :: b2 :: r2 =>
        let lo : UInt8 := if b0 = 0xE0 then 0xA0 else 0x80
        let hi : UInt8 := if b0 = 0xED then 0x9F else 0xBF
        if lo ≤ b1 && b1 ≤ hi && isCont b2 then some ([b0, b1, b2], r2) else none
      | _ => none
    else if b0 < 0xF5 then
      match r0 with
      | b1 :: b2 :: b3 :: r3 =>
        let lo : UInt8 := if b0 = 0xF0 then 0x90 else 0x80
        let hi : UInt8 := if b0 = 0xF4 then 0x8F else 0xBF
        if lo ≤ b1 && b1 ≤ hi && isCont b2 && isCont b3 then some ([b0, b1, b2, b3], r3) else none
      | _ => none
    else none

/-- UTF-8 encoding of a Unicode scalar value (callers never pass surrogates or values > 0x10FFFF). -/
def utf8Encode (r : Nat) : Bytes :=
  if r < 0x80 then [UInt8.ofNat r]
  else if r < 0x800 then [UInt8.ofNat (0xC0 + r / 64), UInt8.ofNat (0x80 + r % 64)]
  else if r < 0x10000 then
    [UInt8.ofNat (0xE0 + r / 4096), UInt8.ofNat (0x80 + (r / 64) % 64), UInt8.ofNat (0x80 + r % 64)]
  else
    [UInt8.ofNat (0xF0 + r / 262144), UInt8.ofNat (0x80 + (r / 4096) % 64),
     UInt8.ofNat (0x80 + (r / 64) % 64), UInt8.ofNat (0x80 + r % 64)]

/-! ### Strings (RFC 8259 §7) -/

def hexVal (c : UInt8) : Option Nat :=
  if 0x30 ≤ c && c ≤ 0x39 then some (c.toNat - 0x30)
  else if 0x61 ≤ c && c ≤ 0x66 then some (c.toNat - 0x61 + 10)
  else if 0x41 ≤ c && c ≤ 0x46 then some (c.toNat - 0x41 + 10)
  else none

/-- `4HEXDIG` -/
def hex4 (b : Bytes) : Option (Nat × Bytes) :=
  match b with
  | a :: b :: c :: d :: r =>
    match hexVal a, hexVal b, hexVal c, hexVal d with
    | some a, some b, some c, some d => some (a * 4096 + b * 256 + c * 16 + d, r)
    | _, _, _, _ => none
  | _ => none

/-- What follows a backslash: (the UTF-8 bytes the escape denotes, the rest). -/
def escape (b : Bytes) : Option (Bytes × Bytes) :=
  match b with
  | [] => none
  | c :: r =>
    if c = 0x22 then some ([0x22], r)        -- \"
    else if c = 0x5C then some ([0x5C], r)   -- \\
    else if c = 0x2F then some ([0x2F], r)   -- \/
    else if c = 0x62 then some ([0x08], r)   -- \b
    else if c = 0x66 then some ([0x0C], r)   -- \f
    else if c = 0x6E then some ([0x0A], r)   -- \n
    else if c = 0x72 then some ([0x0D], r)   -- \r
    else if c = 0x74 then some ([0x09], r)   -- \t
    else if c = 0x75 then                    -- \uXXXX
      match hex4 r with
      | none => none
      | some (v, r1) =>
        if 0xD800 ≤ v && v < 0xDC00 then
          -- a high surrogate must be followed by an escaped low surrogate; together one code point
          match r1 with
          | 0x5C :: 0x75 :: r2 =>
            match hex4 r2 with
            | some (w, r3) =>
              if 0xDC00 ≤ w && w < 0xE000 then
                some (utf8Encode (0x10000 + (v - 0xD800) * 1024 + (w - 0xDC00)), r3)
              else none
            | none => none
          | _ => none
        else if 0xDC00 ≤ v && v < 0xE000 then none    -- lone low surrogate
        else some (utf8Encode v, r1)
    else none

/-- The characters of a string after the opening quote, up to and including the closing quote:
(decoded bytes, rest after the closing quote). -/
def strBody : Nat → Bytes → Option (Bytes × Bytes)
  | 0, _ => none
  | fuel+1, b =>
    match b with
    | [] => none
    | c :: r =>
      if c = 0x22 then some ([], r)
      else if c = 0x5C then
        match escape r with
        | some (u, r') =>
          match strBody fuel r' with
          | some (s, r'') => some (u ++ s, r'')
          | none => none
        | none => none
      else if c < 0x20 then none
      else
        match utf8Char (c :: r) with
        | some (u, r') =>
          match strBody fuel r' with
          | some (s, r'') => some (u ++ s, r'')
          | none => none
        | none => none

/-- A string token (opening quote already consumed). -/
def lexStr (b : Bytes) : Option (Bytes × Bytes) := strBody (b.length + 1) b

/-- RFC 8259 meaning of a complete string literal `"…"`: the decoded bytes. -/
def unescape (q : Bytes) : Option Bytes :=
  match q with
  | 0x22 :: r =>
    match lexStr r with
    | some (s, []) => some s
    | _ => none
  | _ => none

/-! ### Numbers (RFC 8259 §6) -/

def isDigit (c : UInt8) : Bool := 0x30 ≤ c && c ≤ 0x39

/-- `*DIGIT` -/
def digits : Bytes → Bytes × Bytes
  | [] => ([], [])
  | c :: r => if isDigit c then (let d := digits r; (c :: d.1, d.2)) else ([], c :: r)

/-- `[ frac ]` : `. 1*DIGIT`.  `none` when a decimal point is not followed by a digit
(no valid text continues that way, so the number production fails there). -/
def fracPart (b : Bytes) : Option (Bytes × Bytes) :=
  match b with
  | [] => some ([], [])
  | c :: r =>
    if c = 0x2E then
      let ds := digits r
      if ds.1.isEmpty then none else some (0x2E :: ds.1, ds.2)
    else some ([], c :: r)

/-- `[ exp ]` : `e [ - / + ] 1*DIGIT`.  `none` when an `e` is not followed by `[sign] digit`. -/
def expPart (b : Bytes) : Option (Bytes × Bytes) :=
  match b with
  | [] => some ([], [])
  | c :: r =>
    if c = 0x65 || c = 0x45 then
      let sr : Bytes × Bytes :=
        match r with
        | s :: r' => if s = 0x2D || s = 0x2B then ([s], r') else ([], r)
        | [] => ([], r)
      let ds := digits sr.2
      if ds.1.isEmpty then none else some (c :: sr.1 ++ ds.1, ds.2)
    else some ([], c :: r)

/-- `[ frac ] [ exp ]` after the integer part `pre`. -/
def fracExp (pre : Bytes) (b : Bytes) : Option (Bytes × Bytes) :=
  match fracPart b with
  | none => none
  | some f =>
    match expPart f.2 with
    | none => none
    | some e => some (pre ++ f.1 ++ e.1, e.2)

/-- `number = [ minus ] int [ frac ] [ exp ]` : (literal, rest), longest match. -/
def lexNum (b : Bytes) : Option (Bytes × Bytes) :=
  let sb : Bytes × Bytes := match b with
    | [] => ([], [])
    | c :: r => if c = 0x2D then ([0x2D], r) else ([], c :: r)
  match sb.2 with
  | [] => none
  | c :: r =>
    if c = 0x30 then fracExp (sb.1 ++ [c]) r
    else if 0x31 ≤ c && c ≤ 0x39 then
      let ds := digits r
      fracExp (sb.1 ++ c :: ds.1) ds.2
    else none

/-! ### Literal names (§3) -/

def litNull : Bytes := [0x6E, 0x75, 0x6C, 0x6C]
def litTrue : Bytes := [0x74, 0x72, 0x75, 0x65]
def litFalse : Bytes := [0x66, 0x61, 0x6C, 0x73, 0x65]

/-- `stripPrefix p b = some r` iff `b = p ++ r`. -/
def stripPrefix : Bytes → Bytes → Option Bytes
  | [], b => some b
  | _ :: _, [] => none
  | p :: ps, c :: r => if p = c then stripPrefix ps r else none

/-! ### Values, objects, arrays (§3–§5) -/

/-- A scalar value at the head of `b` (no leading whitespace). -/
def lexScalar (b : Bytes) : Option (MTree × Bytes) :=
  match b with
  | [] => none
  | c :: r =>
    if c = 0x22 then
      match lexStr r with
      | some (s, r') => some (.str s, r')
      | none => none
    else if c = 0x6E then (stripPrefix litNull b).map (fun r' => (.null, r'))
    else if c = 0x74 then (stripPrefix litTrue b).map (fun r' => (.bool true, r'))
    else if c = 0x66 then (stripPrefix litFalse b).map (fun r' => (.bool false, r'))
    else
      match lexNum b with
      | some (l, r') => some (.num l, r')
      | none => none

mutual
/-- `value` at the head of `b` (leading whitespace already skipped): (tree, rest). -/
def parseValue : Nat → Bytes → Option (MTree × Bytes)
  | 0, _ => none
  | fuel+1, b =>
    match b with
    | [] => none
    | c :: r =>
      if c = 0x7B then          -- begin-object
        match skipWs r with
        | [] => none
        | c' :: r' =>
          if c' = 0x7D then some (.obj [], r')
          else
            match parseMembers fuel (c' :: r') with
            | some (ms, r'') => some (.obj ms, r'')
            | none => none
      else if c = 0x5B then     -- begin-array
        match skipWs r with
        | [] => none
        | c' :: r' =>
          if c' = 0x5D then some (.arr [], r')
          else
            match parseElems fuel (c' :: r') with
            | some (xs, r'') => some (.arr xs, r'')
            | none => none
      else lexScalar (c :: r)

/-- `member *( value-separator member ) end-object`, at the start of a member. -/
def parseMembers : Nat → Bytes → Option (List (Bytes × MTree) × Bytes)
  | 0, _ => none
  | fuel+1, b =>
    match b with
    | [] => none
    | c :: r =>
      if c = 0x22 then
        match lexStr r with
        | none => none
        | some (name, r1) =>
          match skipWs r1 with
          | [] => none
          | c2 :: r2 =>
            if c2 = 0x3A then     -- name-separator
              match parseValue fuel (skipWs r2) with
              | none => none
              | some (v, r3) =>
                match skipWs r3 with
                | [] => none
                | c4 :: r4 =>
                  if c4 = 0x2C then     -- value-separator
                    match parseMembers fuel (skipWs r4) with
                    | some (ms, r5) => some ((name, v) :: ms, r5)
                    | none => none
                  else if c4 = 0x7D then some ([(name, v)], r4)
                  else none
            else none
      else none

/-- `value *( value-separator value ) end-array`, at the start of an element. -/
def parseElems : Nat → Bytes → Option (List MTree × Bytes)
  | 0, _ => none
  | fuel+1, b =>
    match parseValue fuel b with
    | none => none
    | some (v, r3) =>
      match skipWs r3 with
      | [] => none
      | c4 :: r4 =>
        if c4 = 0x2C then
          match parseElems fuel (skipWs r4) with
          | some (xs, r5) => some (v :: xs, r5)
          | none => none
        else if c4 = 0x5D then some ([v], r4)
        else none
end

/-- `JSON-text = ws value ws` with a given amount of fuel. -/
def parseTreeF (fuel : Nat) (b : Bytes) : Option MTree :=
  match parseValue fuel (skipWs b) with
  | some (t, r) => if (skipWs r).isEmpty then some t else none
  | none => none

/-- The meaning of a JSON text; `none` iff the text is not valid JSON (strict UTF-8, no lone surrogates). -/
def parseTree (b : Bytes) : Option MTree := parseTreeF (2 * b.length + 2) b

/-! ### Measures on trees -/

mutual
/-- Container nesting depth: scalars 0, a container 1 + the maximum over its children. -/
def MTree.depth : MTree → Nat
  | .arr xs => depthList xs + 1
  | .obj ms => depthMembers ms + 1
  | _ => 0
def depthList : List MTree → Nat
  | [] => 0
  | x :: xs => max x.depth (depthList xs)
def depthMembers : List (Bytes × MTree) → Nat
  | [] => 0
  | (_, v) :: ms => max v.depth (depthMembers ms)
end

/-- Member names of an object in textual order. -/
def names (ms : List (Bytes × MTree)) : List Bytes := ms.map (·.1)

/-- pairwise distinct names -/
def noDupNames : List Bytes → Bool
  | [] => true
  | n :: ns => !ns.contains n && noDupNames ns

mutual
/-- No object anywhere in the tree has two members with the same decoded name. -/
def MTree.noDup : MTree → Bool
  | .arr xs => noDupList xs
  | .obj ms => noDupNames (names ms) && noDupMembers ms
  | _ => true
def noDupList : List MTree → Bool
  | [] => true
  | x :: xs => x.noDup && noDupList xs
def noDupMembers : List (Bytes × MTree) → Bool
  | [] => true
  | (_, v) :: ms => v.noDup && noDupMembers ms
end

/-! ### The float64 denoted by a number literal (specification of the `FloatParse` parameter) -/

def digitsVal (ds : Bytes) : Nat := ds.foldl (fun acc c => acc * 10 + (c.toNat - 0x30)) 0

/-- Split a number literal of the RFC grammar: (negative, integer digits, fraction digits, exponent). -/
def splitNum (lit : Bytes) : Bool × Bytes × Bytes × Int :=
  let (neg, b1) : Bool × Bytes := match lit with
    | 0x2D :: r => (true, r)
    | _ => (false, lit)
  let i := digits b1
  let (fr, b2) : Bytes × Bytes := match i.2 with
    | 0x2E :: r => digits r
    | _ => ([], i.2)
  let e : Int := match b2 with
    | _ :: 0x2D :: r => - Int.ofNat (digitsVal (digits r).1)
    | _ :: 0x2B :: r => Int.ofNat (digitsVal (digits r).1)
    | _ :: r => Int.ofNat (digitsVal (digits r).1)
    | [] => 0
  (neg, i.1, fr, e)

/-- Round the positive rational `a / b` (`a, b > 0`) to the nearest binary64, ties to even:
the bit pattern without sign, `none` if the result is not finite. -/
def roundRat (a b : Nat) : Option Nat :=
  -- k with 2^k ≤ a/b < 2^(k+1)
  let k0 : Int := Int.ofNat a.log2 - Int.ofNat b.log2
  let ge (k : Int) : Bool := if k ≥ 0 then a ≥ b * 2 ^ k.toNat else a * 2 ^ (-k).toNat ≥ b
  let k : Int := if ge k0 then k0 else k0 - 1
  -- exponent of the unit in the last place; -1074 for subnormals
  let p : Int := if k - 52 < -1074 then -1074 else k - 52
  let num : Nat := if p ≥ 0 then a else a * 2 ^ (-p).toNat
  let den : Nat := if p ≥ 0 then b * 2 ^ p.toNat else b
  let q := num / den
  let r := num % den
  let q := if 2 * r > den || (2 * r = den && q % 2 = 1) then q + 1 else q
  -- q ≤ 2^53; value = q * 2^p
  let (q, p) : Nat × Int := if q = 2 ^ 53 then (2 ^ 52, p + 1) else (q, p)
  if q < 2 ^ 52 then some q            -- subnormal (only possible when p = -1074), or zero
  else
    let ef : Int := p + 1075             -- biased exponent field
    if ef ≥ 2047 then none else some (ef.toNat * 2 ^ 52 + (q - 2 ^ 52))

/-- The binary64 bit pattern denoted by a JSON number literal: exact value, round to nearest even;
`none` when the magnitude rounds beyond the largest finite float64 (the library must report an error). -/
def f64Round (lit : Bytes) : Option UInt64 :=
  let (neg, ip, fr, e) := splitNum lit
  let ds := ip ++ fr
  let m := digitsVal ds
  let sign : Nat := if neg then 2 ^ 63 else 0
  if m = 0 then some (UInt64.ofNat sign)
  else
    let e10 : Int := e - Int.ofNat fr.length         -- value = m * 10^e10
    -- decimal magnitude: 10^(nd-1) ≤ m < 10^nd, so 10^(nd+e10-1) ≤ value < 10^(nd+e10)
    let nd : Int := Int.ofNat (Nat.toDigits 10 m).length
    if nd + e10 > 310 then none                      -- ≥ 10^310 > 2^1024
    else if nd + e10 < -330 then some (UInt64.ofNat sign)   -- < 10^-330 < 2^-1075: rounds to zero
    else
      let r := if e10 ≥ 0 then roundRat (m * 10 ^ e10.toNat) 1 else roundRat m (10 ^ (-e10).toNat)
      r.map (fun bits => UInt64.ofNat (sign + bits))

end JsonV.Spec.Meaning
