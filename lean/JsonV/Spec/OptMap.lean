/-
Spec for C19: options are a map (flag index ↦ bool, slot ↦ value) and joining is
right-biased override.  Independent of the bit-level representation.
-/
import JsonV.Model.Opts

namespace JsonV.Spec
open JsonV.Model

/-- The seven non-boolean option slots of `jsonopts.Struct`. -/
inductive Slot where
  | indent | indentPrefix | byteLimit | depthLimit | marshalers | unmarshalers | format
deriving DecidableEq, Repr

/-- Bit index of the flag guarding each slot (values come from the regenerated constants,
checked by `slot_flag_eq` in Props/C19). -/
def Slot.idx : Slot → Nat
  | .indent => 14 | .indentPrefix => 15 | .byteLimit => 16 | .depthLimit => 17
  | .marshalers => 25 | .unmarshalers => 26 | .format => 28

def Slot.flag : Slot → BitVec 64
  | .indent => F.indent | .indentPrefix => F.indentPrefix | .byteLimit => F.byteLimit
  | .depthLimit => F.depthLimit | .marshalers => F.marshalers | .unmarshalers => F.unmarshalers
  | .format => F.formatTag

structure OptMap where
  flag : Nat → Option Bool
  slot : Slot → Option Val

def OptMap.empty : OptMap := ⟨fun _ => none, fun _ => none⟩

/-- Right-biased union: entries of `n` win. -/
def OptMap.override (m n : OptMap) : OptMap :=
  ⟨fun i => (n.flag i).orElse fun _ => m.flag i, fun k => (n.slot k).orElse fun _ => m.slot k⟩

def slotVal (s : Struct) : Slot → Val
  | .indent => .bytes s.indent | .indentPrefix => .bytes s.indentPrefix
  | .byteLimit => .int s.byteLimit | .depthLimit => .int s.depthLimit
  | .marshalers => .ptr s.marshalers | .unmarshalers => .ptr s.unmarshalers
  | .format => .bytes s.format

/-- Abstraction of a concrete `Struct`. -/
def abs (s : Struct) : OptMap :=
  ⟨s.flags.lookup, fun k => if s.flags.presence.getLsbD k.idx then some (slotVal s k) else none⟩

/-- The flag part of a `Bools` word as a map. -/
def boolsMap (f : BitVec 64) : Nat → Option Bool :=
  fun i => if f.getLsbD i && decide (i ≠ 0) then some (f.getLsbD 0) else none

/-- What each single option means as a map. -/
def optMap : Opt → OptMap
  | .nil => OptMap.empty
  | .bools f => ⟨boolsMap f, fun _ => none⟩
  | .formatTagSupport b => ⟨fun i => if i = 29 then some b else none, fun _ => none⟩
  | .indent s => ⟨fun i => if i = 11 ∨ i = 14 then some true else none,
                  fun k => if k = .indent then some (.bytes s) else none⟩
  | .indentPrefix s => ⟨fun i => if i = 11 ∨ i = 15 then some true else none,
                  fun k => if k = .indentPrefix then some (.bytes s) else none⟩
  | .byteLimit n => ⟨fun i => if i = 16 then some true else none,
                  fun k => if k = .byteLimit then some (.int n) else none⟩
  | .depthLimit n => ⟨fun i => if i = 17 then some true else none,
                  fun k => if k = .depthLimit then some (.int n) else none⟩
  | .marshalers p => ⟨fun i => if i = 25 then some true else none,
                  fun k => if k = .marshalers then some (.ptr p) else none⟩
  | .unmarshalers p => ⟨fun i => if i = 26 then some true else none,
                  fun k => if k = .unmarshalers then some (.ptr p) else none⟩
  | .struct s => abs s

/-- Well-formed option values: any `*Struct` passed in satisfies the `Flags` invariant
(every constructor in the library establishes it; see `wf_*` in Lemmas/FlagsL), and a
`jsonflags.Bools` option only names boolean flags (true of every public constructor;
the harness checks it on every option value it sees). -/
def Opt.WF : Opt → Prop
  | .struct s => s.flags.WF
  | .bools f => ∀ k : Slot, f.getLsbD k.idx = false   -- a `Bools` option never names a non-boolean flag
  | _ => True

/-- The reference semantics of `JoinOptions`. -/
def joinSpec (srcs : List Opt) : OptMap := srcs.foldl (fun m o => m.override (optMap o)) OptMap.empty

end JsonV.Spec
