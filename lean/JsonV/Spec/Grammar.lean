/-
The JSON grammar of RFC 8259 on byte strings, with the RFC 7493 (I-JSON) restrictions as options.
Declarative and independent of the structure of the code: inductive predicates on `Bytes`.

  ws      = *( %x20 / %x09 / %x0A / %x0D )
  number  = [ "-" ] int [ frac ] [ exp ]      int = "0" / ( %x31-39 *DIGIT )
            frac = "." 1*DIGIT                exp = ( "e" / "E" ) [ "-" / "+" ] 1*DIGIT
  string  = %x22 *char %x22
  char    = unescaped / "\" ( %x22 / "\" / "/" / "b" / "f" / "n" / "r" / "t" / "u" 4HEXDIG )
  value   = "null" / "true" / "false" / number / string / array / object
  array   = "[" ws [ ws value ws *( "," ws value ws ) ] "]"
  object  = "{" ws [ member *( "," member ) ] "}"     member = ws string ws ":" ws value ws
  text    = ws value ws

Options: `strict` (RFC 7493 §2.1: well-formed UTF-8, `\u` escapes that are surrogates must form a
high/low pair) and `allowDup` (RFC 7493 §2.3 off: names unique).  Nesting is limited to `maxDepth`.
Core Lean only.
-/
import JsonV.Model.Basic
import JsonV.Model.Utf8

namespace JsonV.Spec.Grammar
open JsonV

/-! ### Whitespace and literals -/

def WsByte (c : UInt8) : Prop := c = 0x20 ∨ c = 0x09 ∨ c = 0x0A ∨ c = 0x0D

/-- `ws`: any number of whitespace bytes. -/
def JWs (w : Bytes) : Prop := ∀ c ∈ w, WsByte c

def nullLit : Bytes := [0x6E, 0x75, 0x6C, 0x6C]
def trueLit : Bytes := [0x74, 0x72, 0x75, 0x65]
def falseLit : Bytes := [0x66, 0x61, 0x6C, 0x73, 0x65]

/-! ### Numbers -/

def Digit (c : UInt8) : Prop := 0x30 ≤ c ∧ c ≤ 0x39
def Digit19 (c : UInt8) : Prop := 0x31 ≤ c ∧ c ≤ 0x39
/-- `*DIGIT` -/
def Digits0 (ds : Bytes) : Prop := ∀ c ∈ ds, Digit c
/-- `1*DIGIT` -/
def Digits1 (ds : Bytes) : Prop := ds ≠ [] ∧ Digits0 ds

inductive JInt : Bytes → Prop
  | zero : JInt [0x30]
  | nonzero (d : UInt8) (ds : Bytes) : Digit19 d → Digits0 ds → JInt (d :: ds)

inductive JFrac : Bytes → Prop
  | none : JFrac []
  | some (ds : Bytes) : Digits1 ds → JFrac (0x2E :: ds)

inductive JExp : Bytes → Prop
  | none : JExp []
  | some (e : UInt8) (sign ds : Bytes) : (e = 0x65 ∨ e = 0x45) → (sign = [] ∨ sign = [0x2D] ∨ sign = [0x2B]) →
      Digits1 ds → JExp (e :: (sign ++ ds))

/-- RFC 8259 §6. -/
inductive JNumber : Bytes → Prop
  | mk (minus int frac exp : Bytes) : (minus = [] ∨ minus = [0x2D]) → JInt int → JFrac frac → JExp exp →
      JNumber (minus ++ int ++ frac ++ exp)

/-- `p` can be extended to a number (a "viable prefix"). -/
def NumPrefix (p : Bytes) : Prop := ∃ s, JNumber (p ++ s)

/-! ### Strings -/

def HexDigit (c : UInt8) : Prop := (0x30 ≤ c ∧ c ≤ 0x39) ∨ (0x61 ≤ c ∧ c ≤ 0x66) ∨ (0x41 ≤ c ∧ c ≤ 0x46)

def hexValue (c : UInt8) : Nat :=
  if c ≤ 0x39 then c.toNat - 0x30 else if c ≤ 0x46 then c.toNat - 0x41 + 10 else c.toNat - 0x61 + 10

def hex4Value (a b c d : UInt8) : Nat := ((hexValue a * 16 + hexValue b) * 16 + hexValue c) * 16 + hexValue d

/-- The well-formed UTF-8 encodings of scalar values ≥ U+0080 (Unicode Standard, table 3-7; the
table itself is `Utf8.leadInfo`: lead byte ↦ length and admissible range of the second byte). -/
def Utf8Multi (p : Bytes) : Prop :=
  ∃ b0 b1 rest sz lo hi, p = b0 :: b1 :: rest ∧ Model.Utf8.leadInfo b0.toNat = some (sz, lo, hi) ∧
    p.length = sz ∧ lo ≤ b1.toNat ∧ b1.toNat ≤ hi ∧ ∀ c ∈ rest, Model.Utf8.isCont c.toNat = true

def SimpleEscape (c : UInt8) : Prop :=
  c = 0x22 ∨ c = 0x5C ∨ c = 0x2F ∨ c = 0x62 ∨ c = 0x66 ∨ c = 0x6E ∨ c = 0x72 ∨ c = 0x74

def HighSurrogate (v : Nat) : Prop := 0xD800 ≤ v ∧ v < 0xDC00
def LowSurrogate (v : Nat) : Prop := 0xDC00 ≤ v ∧ v < 0xE000
def Surrogate (v : Nat) : Prop := 0xD800 ≤ v ∧ v < 0xE000

/-- One `char` of a string.  `strict = false` additionally admits any byte ≥ 0x80 and unpaired
surrogate escapes. -/
inductive JChar (strict : Bool) : Bytes → Prop
  | plain (c : UInt8) : 0x20 ≤ c → c < 0x80 → c ≠ 0x22 → c ≠ 0x5C → JChar strict [c]
  | utf8 (p : Bytes) : Utf8Multi p → JChar strict p
  | raw (c : UInt8) : strict = false → 0x80 ≤ c → JChar strict [c]
  | esc (c : UInt8) : SimpleEscape c → JChar strict [0x5C, c]
  | uni (a b c d : UInt8) : HexDigit a → HexDigit b → HexDigit c → HexDigit d →
      (strict = true → ¬ Surrogate (hex4Value a b c d)) → JChar strict [0x5C, 0x75, a, b, c, d]
  | pair (a b c d e f g h : UInt8) : HexDigit a → HexDigit b → HexDigit c → HexDigit d →
      HexDigit e → HexDigit f → HexDigit g → HexDigit h →
      HighSurrogate (hex4Value a b c d) → LowSurrogate (hex4Value e f g h) →
      JChar strict [0x5C, 0x75, a, b, c, d, 0x5C, 0x75, e, f, g, h]

inductive JChars (strict : Bool) : Bytes → Prop
  | nil : JChars strict []
  | cons (c r : Bytes) : JChar strict c → JChars strict r → JChars strict (c ++ r)

/-- RFC 8259 §7. -/
def JString (strict : Bool) (p : Bytes) : Prop := ∃ body, JChars strict body ∧ p = 0x22 :: (body ++ [0x22])

/-! ### Values -/

structure GOpts where
  strict : Bool
  allowDup : Bool

/-- the pieces separated by commas -/
def joinSep : List Bytes → Bytes
  | [] => []
  | [x] => x
  | x :: y :: r => x ++ [0x2C] ++ joinSep (y :: r)

/-- Values at nesting depth `d` (= number of enclosing arrays/objects), at most `maxDepth` levels.
`key` maps the spelling of a member name to the text names are compared by (the unescaped name;
see Props/C01.lean for the instantiation). -/
inductive JValue (o : GOpts) (maxDepth : Nat) (key : Bytes → Bytes) : Nat → Bytes → Prop
  | null (d : Nat) : JValue o maxDepth key d nullLit
  | true (d : Nat) : JValue o maxDepth key d trueLit
  | false (d : Nat) : JValue o maxDepth key d falseLit
  | num (d : Nat) (p : Bytes) : JNumber p → JValue o maxDepth key d p
  | str (d : Nat) (p : Bytes) : JString o.strict p → JValue o maxDepth key d p
  | emptyArr (d : Nat) (w : Bytes) : d < maxDepth → JWs w → JValue o maxDepth key d (0x5B :: (w ++ [0x5D]))
  | arr (d : Nat) (elems : List (Bytes × Bytes × Bytes)) : d < maxDepth → elems ≠ [] →
      (∀ e ∈ elems, JWs e.1 ∧ JWs e.2.2) → (∀ e ∈ elems, JValue o maxDepth key (d + 1) e.2.1) →
      JValue o maxDepth key d (0x5B :: (joinSep (elems.map fun e => e.1 ++ e.2.1 ++ e.2.2) ++ [0x5D]))
  | emptyObj (d : Nat) (w : Bytes) : d < maxDepth → JWs w → JValue o maxDepth key d (0x7B :: (w ++ [0x7D]))
  | obj (d : Nat) (mems : List (Bytes × Bytes × Bytes × Bytes × Bytes × Bytes)) : d < maxDepth → mems ≠ [] →
      (∀ m ∈ mems, JWs m.1 ∧ JString o.strict m.2.1 ∧ JWs m.2.2.1 ∧ JWs m.2.2.2.1 ∧ JWs m.2.2.2.2.2) →
      (∀ m ∈ mems, JValue o maxDepth key (d + 1) m.2.2.2.2.1) →
      (o.allowDup = true ∨ (mems.map fun m => key m.2.1).Nodup) →
      JValue o maxDepth key d (0x7B :: (joinSep (mems.map fun m =>
        m.1 ++ m.2.1 ++ m.2.2.1 ++ [0x3A] ++ m.2.2.2.1 ++ m.2.2.2.2.1 ++ m.2.2.2.2.2) ++ [0x7D]))

/-- `text = ws value ws`. -/
def JText (o : GOpts) (maxDepth : Nat) (key : Bytes → Bytes) (b : Bytes) : Prop :=
  ∃ w1 v w2, JWs w1 ∧ JValue o maxDepth key 0 v ∧ JWs w2 ∧ b = w1 ++ v ++ w2

/-- A stream: texts one after another (`ws value` repeated, then `ws`), read with maximal munch: numbers are
the only values that are not self-terminating, so a number must not be extendable by the byte that follows it
(`12` is one value, not `1` then `2`; `1.52.5` is not a stream although `1.5` and `2.5` are texts; `01`, `1-2`,
`1"a"` and `1 2` are streams of two values). -/
inductive JStream (o : GOpts) (maxDepth : Nat) (key : Bytes → Bytes) : Bytes → Prop
  | done (w : Bytes) : JWs w → JStream o maxDepth key w
  | next (w v rest : Bytes) : JWs w → JValue o maxDepth key 0 v →
      (JNumber v → ∀ c t, rest = c :: t → ¬ NumPrefix (v ++ [c])) →
      JStream o maxDepth key rest → JStream o maxDepth key (w ++ v ++ rest)

end JsonV.Spec.Grammar
