/-
Spec of the RFC 8785 §3.2.3 member order: strings are compared as arrays of UTF-16 code units,
lexicographically, unit values compared as unsigned integers, a proper prefix first.
Core Lean only (the oracle evaluates `utf16` and `lexCmp`).
-/
import JsonV.Model.Utf8

namespace JsonV.Spec.Utf16Order
open JsonV.Model.Utf8

/-- A Unicode scalar value: a code point that is not a surrogate. -/
def IsScalar (r : Nat) : Prop := r < 0xD800 ∨ (0xE000 ≤ r ∧ r ≤ 0x10FFFF)

instance (r : Nat) : Decidable (IsScalar r) := by unfold IsScalar; exact inferInstance

/-- UTF-16 encoding of one scalar value (ISO/IEC 10646 / Unicode §3.9 D91): BMP code points are one
unit, supplementary code points U+10000.. a high/low surrogate pair. -/
def unitsOfRune (r : Nat) : List Nat :=
  if r < 0x10000 then [r]
  else [0xD800 + (r - 0x10000) / 1024, 0xDC00 + (r - 0x10000) % 1024]

/-- The scalar values of a UTF-8 byte string, read front to back with `utf8.DecodeRune`
(fuel = number of bytes; each step consumes ≥ 1 byte). -/
def runesAux : Nat → Bytes → List Nat
  | 0, _ => []
  | fuel+1, p =>
    match p with
    | [] => []
    | _ => (decodeRune p).1 :: runesAux fuel (p.drop (decodeRune p).2)

def runes (p : Bytes) : List Nat := runesAux p.length p

/-- UTF-8 encoding of a list of scalar values. -/
def encode (rs : List Nat) : Bytes := rs.flatMap encodeRune

/-- The UTF-16 code units of a list of scalar values. -/
def units (rs : List Nat) : List Nat := rs.flatMap unitsOfRune

/-- The UTF-16 code units of a (well-formed) UTF-8 string. -/
def utf16 (p : Bytes) : List Nat := units (runes p)

/-- Lexicographic three-way comparison of unit arrays (-1 / 0 / +1); a proper prefix is smaller. -/
def lexCmp : List Nat → List Nat → Int
  | [], [] => 0
  | [], _ :: _ => -1
  | _ :: _, [] => 1
  | a :: as, b :: bs => if a < b then -1 else if b < a then 1 else lexCmp as bs

end JsonV.Spec.Utf16Order
