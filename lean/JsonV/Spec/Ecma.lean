/-
ECMA-262 Number::toString (radix 10) as a layout function, independent of the Go code, plus the
JSON number grammar (RFC 8259 §6) as a recogniser and the decimal value a JSON number denotes.

ECMA-262 (2024) 6.1.6.1.20, steps 5–10, for a finite non-zero x with
  k ≥ 1, 10^(k-1) ≤ s < 10^k, x = s × 10^(n-k), k as small as possible,
the digits of s being d₁ … d_k:

   6. k ≤ n ≤ 21      d₁…d_k followed by n−k zeros
   7. 0 < n ≤ 21      d₁…d_n . d_(n+1)…d_k
   8. −6 < n ≤ 0      0 . (−n zeros) d₁…d_k
   9. k = 1           d₁ e ± decimal(|n−1|)
  10. otherwise       d₁ . d₂…d_k e ± decimal(|n−1|)

±0 is "0" in ECMA-262; the library documents one deviation: −0 is written "-0".  Here zero is
the empty digit list and the sign is kept, negative values get a leading '-'.
Core Lean only.
-/
import JsonV.Model.Basic

namespace JsonV.Spec.Ecma
open JsonV

/-- ASCII digit. -/
def dig (d : Nat) : UInt8 := UInt8.ofNat (48 + d)

/-- Decimal representation of a natural number, most significant digit first, no leading zero. -/
def decimal (n : Nat) : List Nat :=
  if _h : n < 10 then [n] else decimal (n / 10) ++ [n % 10]
termination_by n
decreasing_by omega

def zeros (n : Nat) : Bytes := List.replicate n 48

/-- Steps 5–10 for the magnitude `0.d₁…d_k × 10^n`; `ds = []` is zero. -/
def layout (ds : List Nat) (n : Int) : Bytes :=
  let k : Int := ds.length
  if ds = [] then [48]
  else if k ≤ n ∧ n ≤ 21 then ds.map dig ++ zeros (n - k).toNat
  else if 0 < n ∧ n ≤ 21 then (ds.take n.toNat).map dig ++ [46] ++ (ds.drop n.toNat).map dig
  else if -6 < n ∧ n ≤ 0 then [48, 46] ++ zeros (-n).toNat ++ ds.map dig
  else
    let e : Bytes := [101] ++ (if n - 1 < 0 then [45] else [43]) ++ (decimal (n - 1).natAbs).map dig
    if ds.length = 1 then ds.map dig ++ e
    else (ds.take 1).map dig ++ [46] ++ (ds.drop 1).map dig ++ e

/-- Number::toString layout of `(−1)^neg × 0.d₁…d_k × 10^n` (step 3: a leading '-' for negative values;
the sign of zero is kept). -/
def numberToString (neg : Bool) (ds : List Nat) (n : Int) : Bytes :=
  (if neg then [45] else []) ++ layout ds n

/-- Well-formed decomposition: every digit < 10, and for a non-zero value the first digit is not 0
(the last is not 0 either when the digits are the shortest ones; the layout does not need that). -/
def WF (ds : List Nat) : Prop := (∀ d ∈ ds, d < 10) ∧ ds.head? ≠ some 0

/-! ### JSON number grammar (RFC 8259 §6): `-? (0 | [1-9][0-9]*) (. [0-9]+)? ([eE] [+-]? [0-9]+)?` -/

def isDigit (c : UInt8) : Bool := 48 ≤ c && c ≤ 57

def afterExpSign (t : Bytes) : Bool :=
  match t with
  | d :: _ => isDigit d && (t.dropWhile isDigit).isEmpty
  | [] => false

def afterFrac (r : Bytes) : Bool :=
  match r with
  | [] => true
  | c :: t =>
    if c == 101 || c == 69 then
      match t with
      | [] => false
      | s :: u => if s == 43 || s == 45 then afterExpSign u else afterExpSign t
    else false

def afterInt (r : Bytes) : Bool :=
  match r with
  | [] => true
  | c :: t =>
    if c == 46 then
      match t with
      | d :: _ => isDigit d && afterFrac (t.dropWhile isDigit)
      | [] => false
    else afterFrac r

def unsignedNumber (b : Bytes) : Bool :=
  match b with
  | [] => false
  | c :: r =>
    if c == 48 then afterInt r
    else (49 ≤ c && c ≤ 57) && afterInt (r.dropWhile isDigit)

/-- `b` is exactly one JSON number. -/
def isJsonNumber (b : Bytes) : Bool :=
  match b with
  | [] => false
  | c :: t => if c == 45 then unsignedNumber t else unsignedNumber b

/-! ### the decimal value denoted by a JSON number text: `(−1)^neg × coef × 10^exp10` -/

def digitsVal (ds : List Nat) : Nat := ds.foldl (fun a d => 10 * a + d) 0

def bytesVal (b : Bytes) : Nat := b.foldl (fun a c => 10 * a + (c.toNat - 48)) 0

structure Dec where
  neg : Bool
  coef : Nat
  exp10 : Int
  deriving Repr, DecidableEq

/-- Value of the exponent part `[eE] [+-]? digits` (0 when absent). -/
def expValue (r : Bytes) : Int :=
  match r with
  | [] => 0
  | [_] => 0
  | _ :: s :: u =>
    if s == 45 then -(bytesVal (u.takeWhile isDigit) : Int)
    else if s == 43 then (bytesVal (u.takeWhile isDigit) : Int)
    else (bytesVal ((s :: u).takeWhile isDigit) : Int)

/-- Splits `(. digits)?` off: the fraction digits and what follows. -/
def fracSplit (r : Bytes) : Bytes × Bytes :=
  match r with
  | [] => ([], [])
  | c :: t => if c == 46 then (t.takeWhile isDigit, t.dropWhile isDigit) else ([], r)

/-- Reads `digits (. digits)? ([eE] [+-]? digits)?` as coefficient and decimal exponent. -/
def unsignedValue (b : Bytes) : Nat × Int :=
  let ip := b.takeWhile isDigit
  let fr := fracSplit (b.dropWhile isDigit)
  (bytesVal (ip ++ fr.1), expValue fr.2 - fr.1.length)

/-- Reads `-? digits (. digits)? ([eE] [+-]? digits)?`. -/
def decimalValue (b : Bytes) : Dec :=
  if b.head? == some 45 then ⟨true, (unsignedValue (b.drop 1)).1, (unsignedValue (b.drop 1)).2⟩
  else ⟨false, (unsignedValue b).1, (unsignedValue b).2⟩

/-! ### integer literals -/

/-- A canonical decimal natural number: non-empty, digits only, no leading zero unless it is "0". -/
def canonicalDecimal (b : Bytes) : Bool :=
  !b.isEmpty && b.all isDigit && (b.head? != some 48 || b == [48])

/-- The JSON integer literals `-? (0 | [1-9][0-9]*)` ("-0" included). -/
def isIntLit (b : Bytes) : Bool :=
  match b with
  | 45 :: t => canonicalDecimal t
  | _ => canonicalDecimal b

/-- The integer an integer literal denotes. -/
def intVal (b : Bytes) : Int :=
  match b with
  | 45 :: t => -(bytesVal t : Int)
  | _ => (bytesVal b : Int)

/-- The literal has a fraction or an exponent. -/
def hasFracOrExp (b : Bytes) : Bool := b.any (fun c => c == 46 || c == 101 || c == 69)

/-- Two decimals denote the same real number. -/
def Dec.same (a b : Dec) : Prop :=
  let m := min a.exp10 b.exp10
  a.coef * 10 ^ (a.exp10 - m).toNat = b.coef * 10 ^ (b.exp10 - m).toNat ∧ (a.neg = b.neg)

end JsonV.Spec.Ecma
