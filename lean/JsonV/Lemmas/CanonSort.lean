/-
The reordering step of Model/Canon.lean: with duplicate-free, well-formed names the members of every object
come out strictly increasing in the RFC 8785 order, and the result does not depend on the input order.
-/
import JsonV.Model.Canon
import JsonV.Lemmas.CmpSort
import JsonV.Lemmas.CanonAtom

namespace JsonV.Lemmas.CanonSort
open JsonV JsonV.Fmt JsonV.Canon JsonV.Model JsonV.Model.Utf8 JsonV.Model.Compare JsonV.Model.Reorder
open JsonV.Spec.Utf16Order JsonV.Lemmas.CmpLex JsonV.Lemmas.CmpL JsonV.Lemmas.CmpSort JsonV.Lemmas.CmpUtf8
open JsonV.Lemmas.CanonAtom

/-- The sort key of a member in spec terms: the UTF-16 code units of its unescaped name. -/
def keyU (p : Bytes × JV) : List Nat := utf16 (unq p.1)

/-- `p` sorts strictly before `q` (RFC 8785 §3.2.3). -/
def NameLt (p q : Bytes × JV) : Prop := lexCmp (keyU p) (keyU q) < 0

def leU (a b : List Nat) : Bool := decide (lexCmp a b ≤ 0)

theorem leU_trans (a b c : List Nat) (h1 : leU a b = true) (h2 : leU b c = true) : leU a c = true := by
  unfold leU at *; simp only [decide_eq_true_eq] at *; exact lexCmp_le_trans h1 h2

theorem leU_total (a b : List Nat) : (leU a b || leU b a) = true := by
  unfold leU
  rcases lexCmp_total a b with h | h <;> simp [h]

/-- The names of one object are well-formed texts and pairwise different. -/
def NamesOK1 (ms : List (Bytes × JV)) : Prop := (∀ p ∈ ms, valid (unq p.1) = true) ∧ (names ms).Nodup

theorem NamesOK1.perm {ms ms' : List (Bytes × JV)} (h : NamesOK1 ms) (hp : ms'.Perm ms) : NamesOK1 ms' :=
  ⟨fun p hm => h.1 p (hp.mem_iff.mp hm), (hp.map _).nodup_iff.mpr h.2⟩

theorem name_inj {ms : List (Bytes × JV)} (h : NamesOK1 ms) {p q : Bytes × JV} (hp : p ∈ ms) (hq : q ∈ ms)
    (e : unq p.1 = unq q.1) : p = q :=
  nodup_map_inj (fun p : Bytes × JV => unq p.1) ms h.2 p q hp hq e

theorem keyU_inj {ms : List (Bytes × JV)} (h : NamesOK1 ms) {p q : Bytes × JV} (hp : p ∈ ms) (hq : q ∈ ms)
    (e : keyU p = keyU q) : p = q := by
  apply name_inj h hp hq
  obtain ⟨sx, ex⟩ := valid_encode _ (h.1 p hp)
  obtain ⟨sy, ey⟩ := valid_encode _ (h.1 q hq)
  have := units_inj sx sy e
  rw [← ex, ← ey, this]

/-- On the members of one strict object `objectMember.Compare` is decided by the names alone. -/
theorem memberCompare_mem {ms : List (Bytes × JV)} (h : NamesOK1 ms) {p q : Bytes × JV} (hp : p ∈ ms) (hq : q ∈ ms) :
    memberCompare (mem p) (mem q) = lexCmp (keyU p) (keyU q) := by
  have hc : compareUTF16 (unq p.1) (unq q.1) = lexCmp (keyU p) (keyU q) :=
    compareUTF16_lex _ _ (h.1 p hp) (h.1 q hq)
  unfold memberCompare mem
  simp only []
  by_cases c : compareUTF16 (unq p.1) (unq q.1) = 0
  · have e : p = q := keyU_inj h hp hq (lexCmp_eq_zero.mp (hc ▸ c))
    subst e
    rw [if_neg (by simpa using c), ← hc, c]
    exact go_self _ _
  · rw [if_pos c, hc]

theorem memberLe_mem {ms : List (Bytes × JV)} (h : NamesOK1 ms) {p q : Bytes × JV} (hp : p ∈ ms) (hq : q ∈ ms) :
    memberLe (mem p) (mem q) = leU (keyU p) (keyU q) := by
  unfold memberLe leU; rw [memberCompare_mem h hp hq]

theorem nameLt_of_le_ne {ms : List (Bytes × JV)} (h : NamesOK1 ms) {p q : Bytes × JV} (hp : p ∈ ms) (hq : q ∈ ms)
    (hle : lexCmp (keyU p) (keyU q) ≤ 0) (hne : p ≠ q) : NameLt p q := by
  unfold NameLt
  have : lexCmp (keyU p) (keyU q) ≠ 0 := fun z => hne (keyU_inj h hp hq (lexCmp_eq_zero.mp z))
  omega

theorem NameLt.asymm {p q : Bytes × JV} (h1 : NameLt p q) (h2 : NameLt q p) : False := by
  unfold NameLt at *
  rw [lexCmp_swap] at h2
  omega

theorem NameLt.trans {p q r : Bytes × JV} (h1 : NameLt p q) (h2 : NameLt q r) : NameLt p r :=
  lexCmp_lt_of_lt_of_le h1 (Int.le_of_lt h2)

/-- The sort step proper returns the members strictly increasing by name. -/
theorem mergeSort_strict {ms : List (Bytes × JV)} (h : NamesOK1 ms) :
    (ms.mergeSort (fun p q => memberLe (mem p) (mem q))).Pairwise NameLt := by
  have perm := List.mergeSort_perm ms (fun p q => memberLe (mem p) (mem q))
  have hm : List.map keyU (ms.mergeSort (fun p q => memberLe (mem p) (mem q))) = (List.map keyU ms).mergeSort leU :=
    List.map_mergeSort (fun a ha b hb => memberLe_mem h ha hb)
  have hp : ((List.map keyU ms).mergeSort leU).Pairwise (fun a b => leU a b = true) :=
    List.pairwise_mergeSort leU_trans leU_total _
  rw [← hm, List.pairwise_map] at hp
  have nd : (ms.mergeSort (fun p q => memberLe (mem p) (mem q))).Nodup := by
    have : ms.Nodup := by
      have := h.2; unfold names List.Nodup at this
      rw [List.pairwise_map] at this
      exact this.imp (fun hne e => hne (by rw [e]))
    exact perm.nodup_iff.mpr this
  refine List.Pairwise.imp_of_mem ?_ (hp.and nd)
  intro a b ha hb hab
  refine nameLt_of_le_ne h (perm.mem_iff.mp ha) (perm.mem_iff.mp hb) ?_ hab.2
  simpa [leU] using hab.1

/-- The strictly-increasing scan means what it says. -/
theorem isSorted_strict : ∀ (ms : List (Bytes × JV)), NamesOK1 ms → isSorted (ms.map mem) = true → ms.Pairwise NameLt
  | [], _, _ => List.Pairwise.nil
  | [_], _, _ => by simp
  | a :: b :: rest, h, hs => by
    simp only [List.map_cons, isSorted, Bool.and_eq_true, decide_eq_true_eq] at hs
    have h' : NamesOK1 (b :: rest) := by
      refine ⟨fun p hp => h.1 p (by simp [hp]), ?_⟩
      have := h.2; simp only [names, List.map_cons, List.nodup_cons] at this ⊢; exact this.2
    have ih := isSorted_strict (b :: rest) h' (by simpa [List.map_cons] using hs.2)
    have ab : NameLt a b := by
      unfold NameLt
      rw [← memberCompare_mem h (by simp) (by simp)]; exact hs.1
    refine List.Pairwise.cons ?_ ih
    intro c hc
    simp only [List.mem_cons] at hc
    rcases hc with e | hc
    · rw [e]; exact ab
    · exact ab.trans (List.rel_of_pairwise_cons ih hc)

/-- `sortObj` returns the members strictly increasing by name. -/
theorem sortObj_strict {ms : List (Bytes × JV)} (h : NamesOK1 ms) : (sortObj ms).Pairwise NameLt := by
  unfold sortObj
  split
  · next hs => exact isSorted_strict ms h hs
  · exact mergeSort_strict h

/-- Two strictly increasing arrangements of the same members are the same list. -/
theorem strict_unique {l1 l2 : List (Bytes × JV)} (h1 : l1.Pairwise NameLt) (h2 : l2.Pairwise NameLt)
    (hp : l1.Perm l2) : l1 = l2 :=
  List.Perm.eq_of_pairwise (le := NameLt) (fun _ _ _ _ hab hba => (hab.asymm hba).elim) h1 h2 hp

/-- The result of `sortObj` depends only on the set of members. -/
theorem sortObj_unique {ms ms' : List (Bytes × JV)} (h : NamesOK1 ms) (hp : ms'.Perm ms) : sortObj ms' = sortObj ms :=
  strict_unique (sortObj_strict (h.perm hp)) (sortObj_strict h)
    (((sortObj_perm' ms').trans hp).trans (sortObj_perm' ms).symm)
where
  sortObj_perm' (ms : List (Bytes × JV)) : (sortObj ms).Perm ms := by
    unfold sortObj
    split
    · exact List.Perm.refl _
    · exact List.mergeSort_perm _ _

/-- Members that are already strictly increasing are left as they are. -/
theorem sortObj_fixed {ms : List (Bytes × JV)} (h : NamesOK1 ms) (hs : ms.Pairwise NameLt) : sortObj ms = ms := by
  refine strict_unique (sortObj_strict h) hs ?_
  unfold sortObj
  split
  · exact List.Perm.refl _
  · exact List.mergeSort_perm _ _

end JsonV.Lemmas.CanonSort
