/-
PeekKind with its cache (C05): a read call entered with a cached position answers what the whole-input read call
answers (cache transparency), PeekKind finds the whole-input kind, a cached error is delivered once.
-/
import JsonV.Lemmas.ResumeStreamCalls

namespace JsonV.Model.Stream
open JsonV JsonV.Model JsonV.Model.Validate JsonV.Model.TokenLoop JsonV.Model.Window

theorem invalidate_facts' (w : Window) : w.unread = w.unread ∧ w.inputOffset = w.inputOffset ∧ w.pending = w.pending := ⟨rfl, rfl, rfl⟩

/-- a read call that starts at a cached position `start` of the unread buffer (a non-blank byte is there, and it is
where the whole-input call lexes) simulates the whole-input call -/
theorem readCached_sim (lex : TState → Bytes → Nat → List Event → Bool → SRes) (lexW : TState → Nat → Bytes → TRes)
    (span : UInt8 → Bool)
    (hlex : ∀ (st : TState) (u : Bytes) (pos : Nat) (es : List Event) (f : Bool) (c : UInt8) (vt : Bytes),
      u.drop pos = c :: vt → LexOk u pos es (lexW st pos ((c :: vt) ++ avail es)) (lex st u pos es f))
    (s : SState) (ws : WState) (h : Sim s ws) (start : Nat) (c : UInt8) (vt : Bytes)
    (hd : s.w.unread.drop start = c :: vt) (hst0 : start = wholeStart ws.r)
    (hw : wholeWith ws.st (lexW ws.st) ws.r = lexW ws.st start (ws.r.drop start)) :
    ((readCached lex span s start).1 = .fault ∧ Sim (readCached lex span s start).2 ws ∧
      (readCached lex span s start).2.events.length < s.events.length) ∨
    ((readCached lex span s start).1 = (wholeReadWith lexW ws).1 ∧ Sim (readCached lex span s start).2 (wholeReadWith lexW ws).2 ∧
      (readCached lex span s start).2.events.length ≤ s.events.length) := by
  obtain ⟨h1, h2, h3, h4, h5, h6⟩ := h
  have i1 : s.w.unread = s.w.unread := rfl
  have i2 : s.w.inputOffset = s.w.inputOffset := rfl
  have i3 : s.w.pending = s.w.pending := rfl
  have i4 := h1
  have i5 := h2
  have hlt : start < s.w.unread.length := by
    have := congrArg List.length hd; simp [List.length_drop] at this; omega
  have hL := hlex s.st s.w.unread start s.events false c vt hd
  unfold readCached
  simp only
  cases hs : lex s.st s.w.unread start s.events false with
  | fault u' es' =>
    rw [hs] at hL
    obtain ⟨g1, g2, g3⟩ := hL
    left
    have hT : u' ++ avail es' = s.w.unread ++ s.w.pending := by
      rw [i3, h3]; exact g1
    obtain ⟨c1, c2, c3, c4, c5⟩ := commit_facts s.w true u' (avail es') i4 i5 hT g3
    refine ⟨rfl, ⟨c4, c5, c3, h4, ?_, ?_⟩, g2⟩
    · simp only; rw [c1, h5, ← i1]; exact g1.symm
    · simp only; rw [c2, i2]; exact h6
  | res r st0 u' es' f =>
    rw [hs] at hL
    obtain ⟨l0, l1, g1, g2, g3, l5⟩ := hL
    have hsuf : ws.r.drop start = (c :: vt) ++ avail s.events := by
      rw [h5, List.drop_append_of_le_length (Nat.le_of_lt hlt), hd]
    have g0 : r = wholeWith s.st (lexW s.st) (s.w.unread ++ avail s.events) := by
      rw [l0, ← h5, ← h4, hw, hsuf]
    have g4 : ∀ n st', r = .tok n st' → start = wholeStart (s.w.unread ++ avail s.events) ∧ start ≤ n ∧ n ≤ u'.length ∧ start < u'.length := by
      intro n st' hr
      have := l5 n st' (by rw [← l0]; exact hr)
      exact ⟨by rw [← h5]; exact hst0, this.1, this.2, by omega⟩
    right
    have hT : u' ++ avail es' = s.w.unread ++ s.w.pending := by
      rw [i3, h3]; exact g1
    obtain ⟨c1, c2, c3, c4, c5⟩ := commit_facts s.w f u' (avail es') i4 i5 hT g3
    have hr : ws.r = s.w.unread ++ avail s.events := by rw [i1]; exact h5
    have hoff : ws.off = (commitFetch s.w f (u'.length - s.w.unread.length)).inputOffset := by
      rw [c2, i2]; exact h6
    simp only
    generalize commitFetch s.w f (u'.length - s.w.unread.length) = w1 at *
    cases r with
    | err off e =>
      simp only
      have hw : wholeWith ws.st (lexW ws.st) ws.r = .err off e := by rw [h4, hr]; exact g0.symm
      refine ⟨?_, ⟨c4, c5, c3, ?_, ?_, ?_⟩, g2⟩
      · simp only [wholeReadWith, hw]; rw [hoff]
      · simp only [wholeReadWith, hw]; exact h4
      · simp only [wholeReadWith, hw]; rw [c1, hr]; exact g1.symm
      · simp only [wholeReadWith, hw]; exact hoff
    | tok n st' =>
      simp only
      obtain ⟨t1, t2, t3, t4⟩ := g4 n st' rfl
      have hw : wholeWith ws.st (lexW ws.st) ws.r = .tok n st' := by rw [h4, hr]; exact g0.symm
      have hbuf : w1.buf.length = w1.prevEnd + u'.length := by
        have := congrArg List.length c1
        simp only [Window.unread, List.length_drop] at this
        omega
      have hsel : start ≤ (if span (kindAt u' start) = true then start else n) ∧
          (if span (kindAt u' start) = true then start else n) ≤ n := by
        split <;> omega
      obtain ⟨a1, a2, a3, a4, a5, a6⟩ := advance_facts w1
        (w1.prevEnd + (if span (kindAt u' start) = true then start else n)) (w1.prevEnd + n)
        ⟨by omega, by omega, by omega⟩
      have hTu : ws.r = u' ++ avail es' := by rw [hr]; exact g1.symm
      have hst : wholeStart ws.r = start := by rw [hr]; exact t1.symm
      refine ⟨?_, ⟨?_, ?_, ?_, ?_, ?_, ?_⟩, g2⟩
      · simp only [wholeReadWith, hw]
        rw [hst, hoff, hTu, kindAt_append u' _ start t4]
      · simp only; rw [a4, a5]; omega
      · simp only; rw [a5, a6]; omega
      · simp only; rw [a3]; exact c3
      · simp only [wholeReadWith, hw]
      · simp only [wholeReadWith, hw]
        rw [a1, hTu, List.drop_append_of_le_length t3]
        have : w1.buf.drop (w1.prevEnd + n) = u'.drop n := by
          rw [← c1]; simp only [Window.unread, List.drop_drop]
        rw [this]
      · simp only [wholeReadWith, hw]
        rw [a2, hoff]; simp only [Window.inputOffset]; omega


/-- if the head of a call fails, it fails the same way whatever the `switch next` is -/
theorem wholeWith_err (st : TState) (r : Bytes) (off : Nat) (e : Wire.Err)
    (h : wholeWith st (fun p _ => TRes.tok p st) r = .err off e) (lexW : Nat → Bytes → TRes) :
    wholeWith st lexW r = .err off e := by
  unfold wholeWith at h ⊢
  simp only at h ⊢
  split at h
  · rename_i hd
    try simp only [hd, Bool.false_eq_true, if_true, if_false]
    exact h
  · rename_i c rest hd
    try simp only [hd, Bool.false_eq_true, if_true, if_false]
    split at h
    · rename_i hc
      try simp only [hc, if_true, Bool.false_eq_true, if_true, if_false]
      split at h
      · rename_i hd2
        try simp only [hd2, Bool.false_eq_true, if_true, if_false]
        exact h
      · rename_i c1 rest1 hd2
        try simp only [hd2, Bool.false_eq_true, if_true, if_false]
        split at h
        · rename_i hb
          try simp only [hb, if_true, Bool.false_eq_true, if_true, if_false]
          exact h
        · simp at h
    · rename_i hc
      try simp only [hc, if_false, Bool.false_eq_true, if_true, if_false]
      split at h
      · rename_i hb
        try simp only [hb, if_true, Bool.false_eq_true, if_true, if_false]
        exact h
      · simp at h

/-- if the head of a call succeeds, the `switch next` runs at `wholeStart r` on the rest of the input -/
theorem wholeWith_tok (st : TState) (r : Bytes) (n : Nat) (st' : TState)
    (h : wholeWith st (fun p _ => TRes.tok p st) r = .tok n st') (lexW : Nat → Bytes → TRes) :
    n = wholeStart r ∧ wholeWith st lexW r = lexW n (r.drop n) := by
  unfold wholeWith at h ⊢
  unfold wholeStart
  simp only at h ⊢
  split at h
  · simp at h
  · rename_i c rest hd
    try simp only [hd, Bool.false_eq_true, if_true, if_false]
    have hrest : r.drop (Wire.consumeWhitespace r + 1) = rest := by
      rw [← List.drop_drop, hd]; rfl
    split at h
    · rename_i hc
      try simp only [hc, if_true, Bool.false_eq_true, if_true, if_false]
      split at h
      · split at h <;> simp at h
      · rename_i c1 rest1 hd2
        try simp only [hd2, Bool.false_eq_true, if_true, if_false]
        split at h
        · simp at h
        · rename_i hb
          injection h with hn _
          subst hn
          refine ⟨rfl, ?_⟩
          try simp only [hb, if_false, Bool.false_eq_true, if_true, if_false]
          rw [Nat.add_assoc, ← List.drop_drop, ← List.drop_drop, hd]
          show lexW _ (c1 :: rest1) = lexW _ (List.drop (Wire.consumeWhitespace rest) (List.drop 1 (c :: rest)))
          simp only [List.drop_succ_cons, List.drop_zero, hd2]
    · rename_i hc
      try simp only [hc, if_false, Bool.false_eq_true, if_true, if_false]
      split at h
      · simp at h
      · rename_i hb
        injection h with hn _
        subst hn
        refine ⟨rfl, ?_⟩
        try simp only [hb, if_false, hd, Bool.false_eq_true, if_true, if_false]
        all_goals try rfl


/-- what the cache may hold: the transient fault, the error every whole-input read call reports at this point, or
the position at which every whole-input read call lexes -/
def CacheOk (p : PState) (ws : WState) : Prop :=
  (∀ e, p.peekErr = some e → e = .fault ∨ (∀ lexW : TState → Nat → Bytes → TRes, wholeReadWith lexW ws = (e, ws))) ∧
  (p.peekErr = none → p.peekPos ≠ 0 → ∃ (start : Nat) (c : UInt8) (vt : Bytes),
    p.peekPos = p.s.w.prevEnd + start ∧ p.s.w.unread.drop start = c :: vt ∧ start = wholeStart ws.r ∧
    (∀ lexW : Nat → Bytes → TRes, wholeWith ws.st lexW ws.r = lexW start (ws.r.drop start)))

def SimP (p : PState) (ws : WState) : Prop := Sim p.s ws ∧ CacheOk p ws

theorem simP_init (es : List Event) : SimP { s := init es } { r := avail es } :=
  ⟨sim_init es, by intro e h; simp at h, by intro _ h; simp at h⟩

theorem cacheOk_empty (s : SState) (ws : WState) : CacheOk { s := s } ws :=
  ⟨by intro e h; simp at h, by intro _ h; simp at h⟩

/-- PeekKind: the decoders stay at the same point; unless the reader faulted the kind is the whole-input kind; and
the cache holds what `CacheOk` allows -/
theorem peekKind_sim (p : PState) (ws : WState) (h : SimP p ws) :
    SimP (peekKind p).2 ws ∧ (peekKind p).2.s.events.length ≤ p.s.events.length ∧
    ((peekKind p).2.peekErr ≠ some .fault → (peekKind p).1 = wholePeek ws) ∧
    ((peekKind p).2.peekErr = some .fault → (peekKind p).2.s.events.length < p.s.events.length) := by
  obtain ⟨hsim0, hc1, hc2⟩ := h
  unfold peekKind
  by_cases hcache : (p.peekErr.isNone && p.peekPos != 0) = true
  · rw [if_pos hcache]
    simp only [Bool.and_eq_true, Option.isNone_iff_eq_none, bne_iff_ne, ne_eq] at hcache
    obtain ⟨start, c, vt, e1, e2, e3, e4⟩ := hc2 hcache.1 hcache.2
    refine ⟨⟨hsim0, hc1, hc2⟩, Nat.le_refl _, ?_, ?_⟩
    · intro _
      obtain ⟨h1, h2, h3, h4, h5, h6⟩ := hsim0
      have hk : kindAt p.s.w.buf p.peekPos = normKind c := by
        have : p.s.w.buf.drop p.peekPos = c :: vt := by
          rw [e1, ← List.drop_drop]; exact e2
        simp [kindAt, this]
      have hlt : start < p.s.w.unread.length := by
        have := congrArg List.length e2; simp [List.length_drop] at this; omega
      have hw := e4 (fun q _ => TRes.tok q ws.st)
      simp only [wholePeek, hw]
      rw [← e3, h5, kindAt_append _ _ start hlt, hk]
      simp [kindAt, e2]
    · intro hf; rw [hcache.1] at hf; simp at hf
  · rw [if_neg hcache]
    obtain ⟨h1, h2, h3, h4, h5, h6⟩ := hsim0
    obtain ⟨i1, i2, i3, i4, i5⟩ := invalidate_facts p.s.w h1 h2
    have hscan := scanWith_ok p.s.st (fun u pos es f => SRes.res (.tok pos p.s.st) pos u es f) (fun q _ => TRes.tok q p.s.st)
      (peekLex_ok p.s.st) (Window.invalidate p.s.w).unread p.s.events
    simp only
    cases hs : scanWith p.s.st (fun u pos es f => SRes.res (.tok pos p.s.st) pos u es f) (Window.invalidate p.s.w).unread p.s.events with
    | fault u' es' =>
      rw [hs] at hscan
      obtain ⟨g1, g2, g3⟩ := hscan
      have hT : u' ++ avail es' = (Window.invalidate p.s.w).unread ++ (Window.invalidate p.s.w).pending := by
        rw [i3, h3]; exact g1
      obtain ⟨c1, c2, c3, c4, c5⟩ := commit_facts (Window.invalidate p.s.w) true u' (avail es') i4 i5 hT g3
      refine ⟨⟨⟨c4, c5, c3, h4, ?_, ?_⟩, ?_, ?_⟩, Nat.le_of_lt g2, by intro hne; exact absurd rfl hne, fun _ => g2⟩
      · simp only; rw [c1, h5, ← i1]; exact g1.symm
      · simp only; rw [c2, i2]; exact h6
      · intro e he; simp only at he; injection he with he; exact Or.inl he.symm
      · intro hn; simp at hn
    | res r start u' es' f =>
      rw [hs] at hscan
      obtain ⟨g0, g1, g2, g3, g4⟩ := hscan
      have hT : u' ++ avail es' = (Window.invalidate p.s.w).unread ++ (Window.invalidate p.s.w).pending := by
        rw [i3, h3]; exact g1
      obtain ⟨c1, c2, c3, c4, c5⟩ := commit_facts (Window.invalidate p.s.w) f u' (avail es') i4 i5 hT g3
      have hr : ws.r = (Window.invalidate p.s.w).unread ++ avail p.s.events := by rw [i1]; exact h5
      have hoff : (commitFetch (Window.invalidate p.s.w) f (u'.length - (Window.invalidate p.s.w).unread.length)).inputOffset = ws.off := by
        rw [c2, i2]; exact h6.symm
      have hsim : Sim { p.s with w := commitFetch (Window.invalidate p.s.w) f (u'.length - (Window.invalidate p.s.w).unread.length), events := es' } ws := by
        refine ⟨c4, c5, c3, h4, ?_, ?_⟩
        · simp only; rw [c1, hr]; exact g1.symm
        · simp only; rw [c2, i2]; exact h6
      simp only
      cases r with
      | err off e =>
        simp only
        have hw : wholeWith ws.st (fun q _ => TRes.tok q ws.st) ws.r = .err off e := by rw [h4, hr]; exact g0.symm
        refine ⟨⟨hsim, ?_, ?_⟩, g2, ?_, ?_⟩
        · intro e' he'
          simp only at he'
          injection he' with he'
          right
          intro lexW
          have := wholeWith_err ws.st ws.r off e hw (lexW ws.st)
          simp only [wholeReadWith, this]
          rw [← he', hoff]
        · intro hn; simp at hn
        · intro _; simp [wholePeek, hw]
        · intro hf; simp at hf
      | tok n st' =>
        simp only
        obtain ⟨t1, t2, t3, t4⟩ := g4 n st' rfl
        have hw : wholeWith ws.st (fun q _ => TRes.tok q ws.st) ws.r = .tok n st' := by rw [h4, hr]; exact g0.symm
        have hTu : ws.r = u' ++ avail es' := by rw [hr]; exact g1.symm
        have hst : wholeStart ws.r = start := by rw [hr]; exact t1.symm
        obtain ⟨cc, vv, hdd⟩ := drop_cons_of_lt u' start t4
        refine ⟨⟨hsim, ?_, ?_⟩, g2, ?_, ?_⟩
        · intro e' he'; simp at he'
        · intro _ _
          refine ⟨start, cc, vv, rfl, by simp only; rw [c1]; exact hdd, hst.symm, ?_⟩
          intro lexW
          obtain ⟨hn, hx⟩ := wholeWith_tok ws.st ws.r n st' hw lexW
          rw [hx, hn, hst]
        · intro _
          simp only [wholePeek, hw]
          rw [hst, hTu, kindAt_append u' _ start t4]
        · intro hf; simp at hf


theorem readCached_events (lex : TState → Bytes → Nat → List Event → Bool → SRes) (span : UInt8 → Bool) (s : SState) (start : Nat) :
    (readCached lex span s start).2.events = (lex s.st s.w.unread start s.events false).evs ∧
    ((readCached lex span s start).1 = .fault ↔ (lex s.st s.w.unread start s.events false).isFault = true) := by
  unfold readCached
  simp only
  split
  · rename_i hx; rw [hx]; simp [SRes.evs, SRes.isFault]
  · rename_i hx; rw [hx]
    split <;> simp [SRes.evs, SRes.isFault]

theorem readCached_nf (lex : TState → Bytes → Nat → List Event → Bool → SRes) (lexW : TState → Nat → Bytes → TRes)
    (span : UInt8 → Bool)
    (hlex : ∀ (st : TState) (u : Bytes) (pos : Nat) (es : List Event) (f : Bool) (c : UInt8) (vt : Bytes),
      u.drop pos = c :: vt → LexOk u pos es (lexW st pos ((c :: vt) ++ avail es)) (lex st u pos es f))
    (hlexC : ∀ st u pos es f, Consumed es (lex st u pos es f).evs (lex st u pos es f).isFault)
    (s : SState) (ws : WState) (h : Sim s ws) (hn : NoFault s.events) (start : Nat) (c : UInt8) (vt : Bytes)
    (hd : s.w.unread.drop start = c :: vt) (hst0 : start = wholeStart ws.r)
    (hw : wholeWith ws.st (lexW ws.st) ws.r = lexW ws.st start (ws.r.drop start)) :
    StepNF (readCached lex span s start) (wholeReadWith lexW ws) := by
  obtain ⟨e1, e2⟩ := readCached_events lex span s start
  have hC := hlexC s.st s.w.unread start s.events false
  rw [← e1] at hC
  have hc := noFault_of_consumed hC hn
  rcases readCached_sim lex lexW span hlex s ws h start c vt hd hst0 hw with ⟨hf, _, _⟩ | ⟨ho, hs', _⟩
  · have := e2.mp hf; rw [hc.1] at this; simp at this
  · exact ⟨ho, hs', hc.2⟩

/-- a step of the extended script on a reader that cannot fault -/
def StepNFP (r : OutP × PState) (rw : OutP × WState) : Prop :=
  r.1 = rw.1 ∧ SimP r.2 rw.2 ∧ NoFault r.2.s.events ∧ r.2.peekErr ≠ some .fault

theorem readP_nf (plain : SState → Out × SState) (lex : TState → Bytes → Nat → List Event → Bool → SRes)
    (lexW : TState → Nat → Bytes → TRes) (span : UInt8 → Bool)
    (hlex : ∀ (st : TState) (u : Bytes) (pos : Nat) (es : List Event) (f : Bool) (c : UInt8) (vt : Bytes),
      u.drop pos = c :: vt → LexOk u pos es (lexW st pos ((c :: vt) ++ avail es)) (lex st u pos es f))
    (hlexC : ∀ st u pos es f, Consumed es (lex st u pos es f).evs (lex st u pos es f).isFault)
    (p : PState) (ws : WState) (hplain : Sim p.s ws → NoFault p.s.events → StepNF (plain p.s) (wholeReadWith lexW ws))
    (h : SimP p ws) (hn : NoFault p.s.events) (hpf : p.peekErr ≠ some .fault) :
    (readP plain lex span p).1 = (wholeReadWith lexW ws).1 ∧ SimP (readP plain lex span p).2 (wholeReadWith lexW ws).2 ∧
    NoFault (readP plain lex span p).2.s.events ∧ (readP plain lex span p).2.peekErr ≠ some .fault := by
  obtain ⟨hsim, hc1, hc2⟩ := h
  unfold readP
  cases hpe : p.peekErr with
  | some e =>
    simp only
    rcases hc1 e hpe with hf | hall
    · rw [hpe, hf] at hpf; exact absurd rfl hpf
    · rw [hall lexW]
      exact ⟨rfl, ⟨hsim, cacheOk_empty _ _⟩, hn, by simp⟩
  | none =>
    simp only
    by_cases hpp : (p.peekPos != 0) = true
    · rw [if_pos hpp]
      obtain ⟨start, c, vt, e1, e2, e3, e4⟩ := hc2 hpe (by simpa using hpp)
      have hst : p.peekPos - p.s.w.prevEnd = start := by omega
      rw [hst]
      obtain ⟨ho, hs', hn'⟩ := readCached_nf lex lexW span hlex hlexC p.s ws hsim hn start c vt e2 e3 (e4 (lexW ws.st))
      exact ⟨ho, ⟨hs', cacheOk_empty _ _⟩, hn', by simp⟩
    · rw [if_neg hpp]
      obtain ⟨ho, hs', hn'⟩ := hplain hsim hn
      exact ⟨ho, ⟨hs', cacheOk_empty _ _⟩, hn', by simp⟩

theorem peekKind_nofault (p : PState) (hn : NoFault p.s.events) (hp : p.peekErr ≠ some .fault) :
    (peekKind p).2.peekErr ≠ some .fault ∧ NoFault (peekKind p).2.s.events := by
  have hC := scanWith_consumed p.s.st (fun u pos es f => SRes.res (.tok pos p.s.st) pos u es f)
    (fun u pos es f => Consumed.refl es) (Window.invalidate p.s.w).unread p.s.events
  unfold peekKind
  split
  · exact ⟨hp, hn⟩
  · simp only
    split
    · rename_i hx
      rw [hx] at hC
      have := (noFault_of_consumed hC hn).1
      simp [SRes.isFault] at this
    · rename_i hx
      rw [hx] at hC
      have hc := (noFault_of_consumed hC hn).2
      split
      · exact ⟨by simp, hc⟩
      · exact ⟨by simp, hc⟩

theorem callP_nf (o : VOpts) (c : CallP) (p : PState) (ws : WState) (h : SimP p ws) (hn : NoFault p.s.events)
    (hpf : p.peekErr ≠ some .fault) : StepNFP (callP o c p) (wholeCallP o c ws) := by
  cases c with
  | readToken =>
    have r := readP_nf (readToken o) (lexS o) (lexToken o) (fun k => k == 0x22 || k == 0x30) (fun st => lexS_ok o st)
      (fun st => lexS_consumed o st) p ws (fun hs hn => readToken_nf o p.s ws hs hn) h hn hpf
    exact ⟨congrArg OutP.out r.1, r.2.1, r.2.2.1, r.2.2.2⟩
  | readValue =>
    have hf : fuelFor (p.s.w.unread ++ avail p.s.events) = fuelFor ws.r := by rw [h.1.2.2.2.2.1]
    have r := readP_nf (readValue o) (valS o (fuelFor ws.r)) (valW o (fuelFor ws.r)) (fun _ => true)
      (fun st => valS_ok o (fuelFor ws.r) st) (fun st => valS_consumed o (fuelFor ws.r) st) p ws
      (fun hs hn => readValue_nf o p.s ws hs hn) h hn hpf
    simp only [StepNFP, callP, wholeCallP, readValueP, wholeReadValue]
    rw [hf]
    exact ⟨congrArg OutP.out r.1, r.2.1, r.2.2.1, r.2.2.2⟩
  | skipValue =>
    obtain ⟨ho, hs', hn'⟩ := skipValue_nf o p.s ws h.1 hn
    exact ⟨by simp only [callP, wholeCallP]; rw [ho], ⟨hs', cacheOk_empty _ _⟩, hn', by simp [callP]⟩
  | peekKind =>
    obtain ⟨hsp, _, hk, _⟩ := peekKind_sim p ws h
    obtain ⟨hnf, hn'⟩ := peekKind_nofault p hn hpf
    exact ⟨by simp only [callP, wholeCallP]; rw [hk hnf], hsp, hn', hnf⟩

/-- `sim_peek`: scripts over ReadToken / ReadValue / SkipValue / PeekKind -/
theorem scriptP_sim (o : VOpts) (cs : List CallP) : ∀ (p : PState) (ws : WState), SimP p ws → NoFault p.s.events →
    p.peekErr ≠ some .fault → runScriptP o cs p = wholeScriptP o cs ws := by
  induction cs with
  | nil => intros; rfl
  | cons c cs ih =>
    intro p ws h hn hpf
    obtain ⟨ho, hs', hn', hpf'⟩ := callP_nf o c p ws h hn hpf
    simp only [runScriptP, wholeScriptP]
    rw [ho, ih _ _ hs' hn' hpf']


/-- a fault during PeekKind: KindInvalid is returned, the fault is cached, the decoders are still at the same point;
the next ReadToken / ReadValue returns the fault, clears the cache and leaves the decoders at the same point -/
theorem peek_fault_stutter (o : VOpts) (p : PState) (ws : WState) (h : SimP p ws)
    (hf : (peekKind p).2.peekErr = some .fault) :
    SimP (peekKind p).2 ws ∧ (peekKind p).2.s.events.length < p.s.events.length ∧
    (readTokenP o (peekKind p).2).1 = .fault ∧ SimP (readTokenP o (peekKind p).2).2 ws ∧
    (readValueP o (peekKind p).2).1 = .fault ∧ SimP (readValueP o (peekKind p).2).2 ws := by
  obtain ⟨hsp, _, _, hlt⟩ := peekKind_sim p ws h
  refine ⟨hsp, hlt hf, ?_, ?_, ?_, ?_⟩
  · simp only [readTokenP, readP, hf]
  · simp only [readTokenP, readP, hf]; exact ⟨hsp.1, cacheOk_empty _ _⟩
  · simp only [readValueP, readP, hf]
  · simp only [readValueP, readP, hf]; exact ⟨hsp.1, cacheOk_empty _ _⟩

end JsonV.Model.Stream
