/-
Helper lemmas for C14, part 2: the object member loop `objFold` on duplicate-free objects is
characterised key by key (`Facts`), and from that the merge law of the loop (`objFold_merge`):
folding `ms1` and then `ms2` into a zero-like destination equals folding the merged member list.
-/
import JsonV.Lemmas.MergeBase

namespace JsonV.Lemmas.Merge
open JsonV JsonV.Spec JsonV.Model

/-- Key sequence of the destination after the loop: unknown names are skipped, known names not
yet present are appended. -/
def keysAfter (known : Bytes → Bool) : List Bytes → List Bytes → List Bytes
  | [], k => k
  | n :: r, k => keysAfter known r (if known n && !k.contains n then k ++ [n] else k)

theorem keysAfter_append (known : Bytes → Bool) (a b k : List Bytes) :
    keysAfter known (a ++ b) k = keysAfter known b (keysAfter known a k) := by
  induction a generalizing k with
  | nil => rfl
  | cons n r ih => simp [keysAfter, ih]

theorem keysAfter_mono (known : Bytes → Bool) (a k : List Bytes) (x : Bytes) (hx : x ∈ k) :
    x ∈ keysAfter known a k := by
  induction a generalizing k with
  | nil => exact hx
  | cons n r ih =>
    simp only [keysAfter]
    apply ih
    split
    · exact List.mem_append_left _ hx
    · exact hx

theorem keysAfter_mem (known : Bytes → Bool) (a k : List Bytes) (x : Bytes) (hx : x ∈ a) (hk : known x = true) :
    x ∈ keysAfter known a k := by
  induction a generalizing k with
  | nil => cases hx
  | cons n r ih =>
    simp only [keysAfter]
    cases List.mem_cons.1 hx with
    | inl e =>
      subst e
      apply keysAfter_mono
      simp only [hk, Bool.true_and]
      split <;> simp_all
    | inr e => exact ih _ e

/-- Names that are unknown or already present do not change the key sequence, so they can be
filtered out of the input. -/
theorem keysAfter_filter (known : Bytes → Bool) (K1 K2 k : List Bytes)
    (h : ∀ n, n ∈ K1 → known n = true → n ∈ k) :
    keysAfter known (K2.filter (fun n => !(K1.contains n))) k = keysAfter known K2 k := by
  induction K2 generalizing k with
  | nil => rfl
  | cons n r ih =>
    by_cases hn : K1.contains n = true
    · have hn' : n ∈ K1 := by simpa using hn
      simp only [List.filter, hn, Bool.not_true, keysAfter]
      have : (known n && !k.contains n) = false := by
        cases hk : known n with
        | false => rfl
        | true => simp [h n hn' hk]
      rw [this]
      exact ih k h
    · simp only [List.filter, hn, Bool.not_false, keysAfter]
      apply ih
      intro x hx hkx
      split
      · exact List.mem_append_left _ (h x hx hkx)
      · exact h x hx hkx

theorem nodup_keysAfter (known : Bytes → Bool) (a k : List Bytes) (hk : k.Nodup) :
    (keysAfter known a k).Nodup := by
  induction a generalizing k with
  | nil => exact hk
  | cons n r ih =>
    simp only [keysAfter]
    apply ih
    split
    · rename_i hc
      have hc2 : n ∉ k := by
        intro hmem
        simp at hc
        exact hc.2 hmem
      rw [List.nodup_append]
      refine ⟨hk, by simp, ?_⟩
      intro a ha b hb
      simp at hb; subst hb
      intro e; subst e; exact hc2 ha
    · exact hk

/-! ### Key-by-key characterisation of `objFold` -/

/-- What a successful run of the member loop over a duplicate-free member list `ms` does to the
destination `m`, resulting in `m'`. -/
structure Facts (o : UOpts) (dec : Bytes → Option Dec) (z : Bytes → GoVal) (ms : List (Bytes × JTree))
    (m m' : List (Bytes × GoVal)) : Prop where
  known : ∀ n j f, (n, j) ∈ ms → dec n = some f →
    ∃ v, f j ((alookup n m).getD (z n)) = .ok v ∧ alookup n m' = some v
  unknown : ∀ n j, (n, j) ∈ ms → dec n = none → skipOK o j = true
  frame : ∀ n, (n ∉ akeys ms ∨ dec n = none) → alookup n m' = alookup n m
  keys : akeys m' = keysAfter (fun n => (dec n).isSome) (akeys ms) (akeys m)

theorem objFold_facts {o : UOpts} {dec : Bytes → Option Dec} {z : Bytes → GoVal} {ms : List (Bytes × JTree)}
    {seen : List Bytes} {m m' : List (Bytes × GoVal)} (hnd : (akeys ms).Nodup)
    (h : objFold o dec z ms seen m = .ok m') : Facts o dec z ms m m' := by
  induction ms generalizing seen m with
  | nil =>
    simp only [objFold, Except.ok.injEq] at h
    subst h
    refine ⟨?_, ?_, ?_, rfl⟩
    · intro n j f hm; cases hm
    · intro n j hm; cases hm
    · intro n _; rfl
  | cons p r ih =>
    obtain ⟨n, j⟩ := p
    rw [akeys_cons, List.nodup_cons] at hnd
    simp only [objFold] at h
    split at h
    · cases h
    · cases hd : dec n with
      | none =>
        simp only [hd] at h
        split at h
        · rename_i hdf
          have F := ih hnd.2 h
          refine ⟨?_, ?_, ?_, ?_⟩
          · intro n' j' f hm hdn
            cases List.mem_cons.1 hm with
            | inl e => cases e; rw [hd] at hdn; cases hdn
            | inr e => exact F.known n' j' f e hdn
          · intro n' j' hm hdn
            cases List.mem_cons.1 hm with
            | inl e => cases e; exact hdf
            | inr e => exact F.unknown n' j' e hdn
          · intro n' hn'
            apply F.frame
            cases hn' with
            | inl hn' => left; intro hc; exact hn' (by rw [akeys_cons]; exact List.mem_cons_of_mem _ hc)
            | inr hn' => right; exact hn'
          · rw [F.keys]; simp [akeys_cons, keysAfter, hd]
        · cases h
      | some f =>
        simp only [hd] at h
        split at h
        · cases h
        · rename_i v hv
          have F := ih hnd.2 h
          refine ⟨?_, ?_, ?_, ?_⟩
          · intro n' j' f' hm hdn
            cases List.mem_cons.1 hm with
            | inl e =>
              cases e
              rw [hd] at hdn; cases hdn
              refine ⟨v, hv, ?_⟩
              rw [F.frame n (Or.inl hnd.1), alookup_aset_same]
            | inr e =>
              have hne : n ≠ n' := by
                intro hc; subst hc; exact hnd.1 (mem_akeys_of_mem e)
              obtain ⟨v', hv', hl'⟩ := F.known n' j' f' e hdn
              rw [alookup_aset_ne hne] at hv'
              exact ⟨v', hv', hl'⟩
          · intro n' j' hm hdn
            cases List.mem_cons.1 hm with
            | inl e => cases e; rw [hd] at hdn; cases hdn
            | inr e => exact F.unknown n' j' e hdn
          · intro n' hn'
            have hne : n ≠ n' := by
              intro hc; subst hc
              cases hn' with
              | inl hn' => exact hn' (by rw [akeys_cons]; exact List.mem_cons_self)
              | inr hn' => rw [hd] at hn'; cases hn'
            rw [F.frame, alookup_aset_ne hne]
            cases hn' with
            | inl hn' => left; intro hc; exact hn' (by rw [akeys_cons]; exact List.mem_cons_of_mem _ hc)
            | inr hn' => right; exact hn'
          · rw [F.keys, akeys_aset]
            simp only [akeys_cons, keysAfter, hd, Option.isSome_some, Bool.true_and]
            congr 1
            cases (akeys m).contains n <;> simp

theorem objFold_of_facts {o : UOpts} {dec : Bytes → Option Dec} {z : Bytes → GoVal} {ms : List (Bytes × JTree)}
    {seen : List Bytes} {m m' : List (Bytes × GoVal)} (hnd : (akeys ms).Nodup)
    (hseen : ∀ n, n ∈ akeys ms → n ∉ seen) (hm : (akeys m).Nodup)
    (F : Facts o dec z ms m m') : objFold o dec z ms seen m = .ok m' := by
  induction ms generalizing seen m with
  | nil =>
    simp only [objFold, Except.ok.injEq]
    apply aext
    · rw [F.keys]; rfl
    · exact hm
    · intro n; rw [F.frame n (Or.inl (by simp [akeys]))]
  | cons p r ih =>
    obtain ⟨n, j⟩ := p
    rw [akeys_cons, List.nodup_cons] at hnd
    have hns : seen.contains n = false := by
      have := hseen n (by rw [akeys_cons]; exact List.mem_cons_self)
      simpa using this
    have hseen' : ∀ n', n' ∈ akeys r → n' ∉ n :: seen := by
      intro n' hn' hc
      cases List.mem_cons.1 hc with
      | inl e => subst e; exact hnd.1 hn'
      | inr e => exact hseen n' (by rw [akeys_cons]; exact List.mem_cons_of_mem _ hn') e
    simp only [objFold, hns, Bool.and_false, Bool.false_eq_true, if_false]
    cases hd : dec n with
    | none =>
      simp only []
      rw [if_pos (F.unknown n j List.mem_cons_self hd)]
      apply ih hnd.2 hseen' hm
      refine ⟨?_, ?_, ?_, ?_⟩
      · intro n' j' f hm' hdn
        exact F.known n' j' f (List.mem_cons_of_mem _ hm') hdn
      · intro n' j' hm' hdn
        exact F.unknown n' j' (List.mem_cons_of_mem _ hm') hdn
      · intro n' hn'
        apply F.frame
        cases hn' with
        | inl hn' =>
          by_cases e : n' = n
          · subst e; right; exact hd
          · left; intro hc; rw [akeys_cons] at hc
            cases List.mem_cons.1 hc with
            | inl e' => exact e e'
            | inr e' => exact hn' e'
        | inr hn' => right; exact hn'
      · rw [F.keys]; simp [akeys_cons, keysAfter, hd]
    | some f =>
      obtain ⟨v, hv, hl⟩ := F.known n j f List.mem_cons_self hd
      simp only [hv]
      apply ih hnd.2 hseen' (nodup_akeys_aset n v m hm)
      refine ⟨?_, ?_, ?_, ?_⟩
      · intro n' j' f' hm' hdn
        have hne : n ≠ n' := by
          intro hc; subst hc; exact hnd.1 (mem_akeys_of_mem hm')
        rw [alookup_aset_ne hne]
        exact F.known n' j' f' (List.mem_cons_of_mem _ hm') hdn
      · intro n' j' hm' hdn
        exact F.unknown n' j' (List.mem_cons_of_mem _ hm') hdn
      · intro n' hn'
        by_cases e : n = n'
        · subst e; rw [hl, alookup_aset_same]
        · rw [alookup_aset_ne e]
          apply F.frame
          cases hn' with
          | inl hn' =>
            left; intro hc; rw [akeys_cons] at hc
            cases List.mem_cons.1 hc with
            | inl e' => exact e e'.symm
            | inr e' => exact hn' e'
          | inr hn' => right; exact hn'
      · rw [F.keys, akeys_aset]
        simp only [akeys_cons, keysAfter, hd, Option.isSome_some, Bool.true_and]
        congr 1
        cases (akeys m).contains n <;> simp

/-! ### The merged member list -/

theorem dupFreeM_iff (ms : List (Bytes × JTree)) :
    JTree.dupFreeM ms = true ↔ ∀ n x, (n, x) ∈ ms → x.dupFree = true := by
  induction ms with
  | nil => simp [JTree.dupFreeM]
  | cons p r ih =>
    obtain ⟨k, y⟩ := p
    simp only [JTree.dupFreeM, Bool.and_eq_true, ih, List.mem_cons, Prod.mk.injEq]
    constructor
    · rintro ⟨h1, h2⟩ n x (⟨rfl, rfl⟩ | h)
      · exact h1
      · exact h2 n x h
    · intro h
      exact ⟨h k y (Or.inl ⟨rfl, rfl⟩), fun n x hx => h n x (Or.inr hx)⟩

theorem dupFreeL_iff (xs : List JTree) :
    JTree.dupFreeL xs = true ↔ ∀ x, x ∈ xs → x.dupFree = true := by
  induction xs with
  | nil => simp [JTree.dupFreeL]
  | cons y r ih => simp [JTree.dupFreeL, ih]

theorem dupFree_obj (ms : List (Bytes × JTree)) :
    (JTree.obj ms).dupFree = true ↔ (akeys ms).Nodup ∧ ∀ n x, (n, x) ∈ ms → x.dupFree = true := by
  simp only [JTree.dupFree, Bool.and_eq_true, nodupB_iff, dupFreeM_iff]

theorem akeys_mergeL (ms1 ms2 : List (Bytes × JTree)) : akeys (JTree.mergeL ms1 ms2) = akeys ms1 := by
  induction ms1 with
  | nil => rfl
  | cons p r ih => obtain ⟨n, a⟩ := p; simp [JTree.mergeL, akeys_cons, ih]

/-- The value a left member `(n, a)` has in the merged object. -/
def mergedWith (ms2 : List (Bytes × JTree)) (n : Bytes) (a : JTree) : JTree :=
  match alookup n ms2 with
  | some b => JTree.merge a b
  | none => a

theorem mem_mergeL {ms1 ms2 : List (Bytes × JTree)} {n : Bytes} {x : JTree}
    (h : (n, x) ∈ JTree.mergeL ms1 ms2) : ∃ a, (n, a) ∈ ms1 ∧ x = mergedWith ms2 n a := by
  induction ms1 with
  | nil => simp [JTree.mergeL] at h
  | cons p r ih =>
    obtain ⟨k, a⟩ := p
    simp only [JTree.mergeL, List.mem_cons, Prod.mk.injEq] at h
    cases h with
    | inl e => obtain ⟨rfl, rfl⟩ := e; exact ⟨a, List.mem_cons_self, rfl⟩
    | inr e => obtain ⟨a', h1, h2⟩ := ih e; exact ⟨a', List.mem_cons_of_mem _ h1, h2⟩

theorem akeys_filter_new (ms1 ms2 : List (Bytes × JTree)) :
    akeys (ms2.filter (fun p => !(ahas p.1 ms1))) = (akeys ms2).filter (fun n => !((akeys ms1).contains n)) := by
  have hh : ∀ n, ahas n ms1 = (akeys ms1).contains n := by
    intro n
    cases h : ahas n ms1 with
    | true => exact ((List.contains_iff_mem).2 ((ahas_iff n ms1).1 h)).symm
    | false =>
      have := (ahas_false_iff n ms1).1 h
      cases h2 : (akeys ms1).contains n with
      | false => rfl
      | true => exact absurd ((List.contains_iff_mem).1 h2) this
  have hf : (fun p : Bytes × JTree => !ahas p.1 ms1) = (fun p => !(akeys ms1).contains p.1) := by
    funext p; rw [hh]
  rw [hf]
  induction ms2 with
  | nil => rfl
  | cons p r ih =>
    obtain ⟨k, y⟩ := p
    simp only [List.filter, akeys_cons]
    cases hc : (akeys ms1).contains k
    · simp only [Bool.not_false, akeys_cons, ih]
    · simp only [Bool.not_true, ih]

/-- Member list of `merge (obj ms1) (obj ms2)`. -/
def mergedMembers (ms1 ms2 : List (Bytes × JTree)) : List (Bytes × JTree) :=
  JTree.mergeL ms1 ms2 ++ ms2.filter (fun p => !(ahas p.1 ms1))

theorem merge_obj (ms1 ms2 : List (Bytes × JTree)) :
    JTree.merge (.obj ms1) (.obj ms2) = .obj (mergedMembers ms1 ms2) := by
  simp [JTree.merge, mergedMembers]

theorem akeys_mergedMembers (ms1 ms2 : List (Bytes × JTree)) :
    akeys (mergedMembers ms1 ms2) = akeys ms1 ++ (akeys ms2).filter (fun n => !((akeys ms1).contains n)) := by
  simp [mergedMembers, akeys_append, akeys_mergeL, akeys_filter_new]

theorem nodup_mergedMembers {ms1 ms2 : List (Bytes × JTree)} (h1 : (akeys ms1).Nodup) (h2 : (akeys ms2).Nodup) :
    (akeys (mergedMembers ms1 ms2)).Nodup := by
  rw [akeys_mergedMembers, List.nodup_append]
  refine ⟨h1, h2.filter _, ?_⟩
  intro a ha b hb e
  subst e
  simp only [List.mem_filter] at hb
  have := hb.2
  simp at this
  exact this ha

theorem mem_mergedMembers {ms1 ms2 : List (Bytes × JTree)} {n : Bytes} {x : JTree}
    (h : (n, x) ∈ mergedMembers ms1 ms2) :
    (∃ a, (n, a) ∈ ms1 ∧ x = mergedWith ms2 n a) ∨ ((n, x) ∈ ms2 ∧ n ∉ akeys ms1) := by
  simp only [mergedMembers, List.mem_append, List.mem_filter] at h
  cases h with
  | inl h => exact Or.inl (mem_mergeL h)
  | inr h =>
    right
    refine ⟨h.1, ?_⟩
    have := h.2
    simp only [Bool.not_eq_eq_eq_not, Bool.not_true] at this
    exact (ahas_false_iff n ms1).1 this

/-! ### Merge law of the member loop -/

/-- Folding `ms1` and then `ms2` into a destination `m0` all of whose present entries are zero
equals folding the merged member list, provided every decoder satisfies the merge law on the
members of `ms1` (from its zero value). -/
theorem objFold_merge {o : UOpts} {dec : Bytes → Option Dec} {z : Bytes → GoVal} {ms1 ms2 : List (Bytes × JTree)}
    {m0 m1 m2 : List (Bytes × GoVal)}
    (hnd1 : (akeys ms1).Nodup) (hnd2 : (akeys ms2).Nodup)
    (hdf1 : ∀ n x, (n, x) ∈ ms1 → x.dupFree = true) (hdf2 : ∀ n x, (n, x) ∈ ms2 → x.dupFree = true)
    (hnd0 : (akeys m0).Nodup) (hm0 : ∀ n, (alookup n m0).getD (z n) = z n)
    (hdm : ∀ n a, (n, a) ∈ ms1 → ∀ b, a.dupFree = true → b.dupFree = true → skipOK o (JTree.merge a b) = true)
    (hML : ∀ n a, (n, a) ∈ ms1 → ∀ f, dec n = some f → ∀ b v1 v2, a.dupFree = true → b.dupFree = true →
      f a (z n) = .ok v1 → f b v1 = .ok v2 → f (JTree.merge a b) (z n) = .ok v2)
    (h1 : objFold o dec z ms1 [] m0 = .ok m1) (h2 : objFold o dec z ms2 [] m1 = .ok m2) :
    objFold o dec z (mergedMembers ms1 ms2) [] m0 = .ok m2 := by
  have F1 := objFold_facts hnd1 h1
  have F2 := objFold_facts hnd2 h2
  apply objFold_of_facts (nodup_mergedMembers hnd1 hnd2) (by intro n _ h; cases h) hnd0
  refine ⟨?_, ?_, ?_, ?_⟩
  · intro n x f hm hd
    rcases mem_mergedMembers hm with ⟨a, ha, rfl⟩ | ⟨hx2, hn1⟩
    · obtain ⟨v1, hv1, hl1⟩ := F1.known n a f ha hd
      rw [hm0] at hv1
      unfold mergedWith
      cases hb : alookup n ms2 with
      | none =>
        refine ⟨v1, by rw [hm0]; exact hv1, ?_⟩
        rw [F2.frame n (Or.inl ((alookup_none_iff n ms2).1 hb)), hl1]
      | some b =>
        have hb' := alookup_mem hb
        obtain ⟨v2, hv2, hl2⟩ := F2.known n b f hb' hd
        rw [hl1] at hv2
        simp only [Option.getD_some] at hv2
        refine ⟨v2, ?_, hl2⟩
        rw [hm0]
        exact hML n a ha f hd b v1 v2 (hdf1 n a ha) (hdf2 n b hb') hv1 hv2
    · obtain ⟨v2, hv2, hl2⟩ := F2.known n x f hx2 hd
      rw [F1.frame n (Or.inl hn1)] at hv2
      exact ⟨v2, hv2, hl2⟩
  · intro n x hm hd
    rcases mem_mergedMembers hm with ⟨a, ha, rfl⟩ | ⟨hx2, hn1⟩
    · unfold mergedWith
      cases hb : alookup n ms2 with
      | none => simp [skipOK, hdf1 n a ha]
      | some b => exact hdm n a ha b (hdf1 n a ha) (hdf2 n b (alookup_mem hb))
    · simp [skipOK, hdf2 n x hx2]
  · intro n hn
    cases hn with
    | inl hn =>
      rw [akeys_mergedMembers] at hn
      have hn1 : n ∉ akeys ms1 := fun h => hn (List.mem_append_left _ h)
      have hn2 : n ∉ akeys ms2 := by
        intro h; apply hn; apply List.mem_append_right
        simp [List.mem_filter, h, hn1]
      rw [F2.frame n (Or.inl hn2), F1.frame n (Or.inl hn1)]
    | inr hn => rw [F2.frame n (Or.inr hn), F1.frame n (Or.inr hn)]
  · rw [F2.keys, F1.keys, akeys_mergedMembers, keysAfter_append, keysAfter_filter]
    intro n hn hk
    exact keysAfter_mem _ _ _ _ hn hk

end JsonV.Lemmas.Merge
