/-
The parser of Model/Canon.lean reads a token list as the tree whose tokens it is.
-/
import JsonV.Model.Canon
import JsonV.Lemmas.FormatCompact

namespace JsonV.Lemmas.CanonParse
open JsonV JsonV.Fmt JsonV.Canon

/-- `parseL` on anything that does not start with `]`: one element, then the rest. -/
theorem parseL_step (fuel : Nat) (ts : List Tok) (hne : ∀ r0, ts ≠ Tok.ea :: r0) :
    parseL (fuel + 1) ts =
      (parseV fuel ts).bind (fun p => (parseL fuel p.2).map (fun q => (p.1 :: q.1, q.2))) := by
  have fin : ∀ X : List Tok,
      (match parseV fuel X with
        | some (e, r) => match parseL fuel r with
          | some (es, r') => some (e :: es, r')
          | none => none
        | none => none) =
      (parseV fuel X).bind (fun p => (parseL fuel p.2).map (fun q => (p.1 :: q.1, q.2))) := by
    intro X
    cases parseV fuel X with
    | none => rfl
    | some p =>
      obtain ⟨e, r⟩ := p
      simp only [Option.bind_some]
      cases parseL fuel r with
      | none => rfl
      | some q => rfl
  cases ts with
  | nil => simp only [parseL]; exact fin _
  | cons k ks =>
    cases k with
    | ea => exact absurd rfl (hne ks)
    | _ => simp only [parseL]; exact fin _

/-- Soundness: whatever the parser returns flattens back to the tokens it consumed. -/
theorem parse_sound : ∀ fuel : Nat,
    (∀ ts t r, parseV fuel ts = some (t, r) → ts = t.toks ++ r) ∧
    (∀ ts es r, parseL fuel ts = some (es, r) → ts = toksL es ++ Tok.ea :: r) ∧
    (∀ ts ms r, parseM fuel ts = some (ms, r) → ts = toksM ms ++ Tok.eo :: r) := by
  intro fuel
  induction fuel with
  | zero => refine ⟨?_, ?_, ?_⟩ <;> intro ts _ _ h <;> simp [parseV, parseL, parseM] at h
  | succ fuel ih =>
    obtain ⟨ihV, ihL, ihM⟩ := ih
    refine ⟨?_, ?_, ?_⟩
    · intro ts t r h
      cases ts with
      | nil => simp [parseV] at h
      | cons k ks =>
        cases k with
        | ba =>
          simp only [parseV] at h
          cases hl : parseL fuel ks with
          | none => simp [hl] at h
          | some p =>
            obtain ⟨es, r'⟩ := p
            simp only [hl, Option.some.injEq, Prod.mk.injEq] at h
            obtain ⟨rfl, rfl⟩ := h
            rw [ihL ks es r' hl]; simp [JV.toks]
        | bo =>
          simp only [parseV] at h
          cases hl : parseM fuel ks with
          | none => simp [hl] at h
          | some p =>
            obtain ⟨ms, r'⟩ := p
            simp only [hl, Option.some.injEq, Prod.mk.injEq] at h
            obtain ⟨rfl, rfl⟩ := h
            rw [ihM ks ms r' hl]; simp [JV.toks]
        | ea => simp [parseV] at h
        | eo => simp [parseV] at h
        | str raw => simp only [parseV, Option.some.injEq, Prod.mk.injEq] at h; obtain ⟨rfl, rfl⟩ := h; simp [JV.toks]
        | num raw => simp only [parseV, Option.some.injEq, Prod.mk.injEq] at h; obtain ⟨rfl, rfl⟩ := h; simp [JV.toks]
        | null => simp only [parseV, Option.some.injEq, Prod.mk.injEq] at h; obtain ⟨rfl, rfl⟩ := h; simp [JV.toks]
        | tru => simp only [parseV, Option.some.injEq, Prod.mk.injEq] at h; obtain ⟨rfl, rfl⟩ := h; simp [JV.toks]
        | fls => simp only [parseV, Option.some.injEq, Prod.mk.injEq] at h; obtain ⟨rfl, rfl⟩ := h; simp [JV.toks]
    · intro ts es r h
      have key : ∀ (hne : ∀ r0, ts ≠ Tok.ea :: r0), ts = toksL es ++ Tok.ea :: r := by
        intro hne
        rw [parseL_step fuel ts hne] at h
        cases hv : parseV fuel ts with
        | none => simp [hv] at h
        | some p =>
          obtain ⟨e, r1⟩ := p
          simp only [hv, Option.bind_some] at h
          cases hl : parseL fuel r1 with
          | none => simp [hl] at h
          | some q =>
            obtain ⟨es', r2⟩ := q
            simp only [hl, Option.map_some, Option.some.injEq, Prod.mk.injEq] at h
            obtain ⟨rfl, rfl⟩ := h
            rw [ihV ts e r1 hv, ihL r1 es' r2 hl]; simp [toksL]
      cases ts with
      | nil => exact key (by simp)
      | cons k ks =>
        cases k with
        | ea =>
          simp only [parseL, Option.some.injEq, Prod.mk.injEq] at h
          obtain ⟨rfl, rfl⟩ := h
          simp [toksL]
        | _ => exact key (by simp)
    · intro ts ms r h
      cases ts with
      | nil => simp [parseM] at h
      | cons k ks =>
        cases k with
        | eo =>
          simp only [parseM, Option.some.injEq, Prod.mk.injEq] at h
          obtain ⟨rfl, rfl⟩ := h
          simp [toksM]
        | str n =>
          simp only [parseM] at h
          cases hv : parseV fuel ks with
          | none => simp [hv] at h
          | some p =>
            obtain ⟨v, r1⟩ := p
            simp only [hv] at h
            cases hm : parseM fuel r1 with
            | none => simp [hm] at h
            | some q =>
              obtain ⟨ms', r2⟩ := q
              simp only [hm, Option.some.injEq, Prod.mk.injEq] at h
              obtain ⟨rfl, rfl⟩ := h
              rw [ihV ks v r1 hv, ihM r1 ms' r2 hm]; simp [toksM]
        | _ => simp [parseM] at h

theorem parse_toks (ts : List Tok) (t : JV) (h : parse ts = some t) : t.toks = ts := by
  unfold parse at h
  cases hv : parseV (ts.length + 1) ts with
  | none => simp [hv] at h
  | some p =>
    obtain ⟨t', r⟩ := p
    cases r with
    | nil =>
      simp only [hv, Option.some.injEq] at h
      subst h
      have := (parse_sound _).1 ts t' [] hv
      simpa using this.symm
    | cons _ _ => simp [hv] at h

/-- The tokens of the tree of a text are the tokens of the text: all lexically valid, well nested. -/
theorem parseText_wellNested (b : Bytes) (t : JV) (h : parseText b = some t) : tokenize b = some t.toks ∧ WellNested t.toks := by
  unfold parseText at h
  cases ht : tokenize b with
  | none => simp [ht] at h
  | some ts =>
    simp only [ht] at h
    rw [parse_toks ts t h]
    exact ⟨rfl, tokenize_sound' b ts ht⟩

/-! ### the lexemes of a rendering are delimiters and the tokens themselves -/

theorem punct_mem : ∀ (ts : List Tok) (st : Stack) (l : Lex), l ∈ punct st ts → (∃ d, l = .delim d) ∨ (∃ t ∈ ts, l = .tok t) := by
  intro ts
  induction ts with
  | nil => intro st l h; simp [punct] at h
  | cons k ks ih =>
    intro st l h
    simp only [punct] at h
    cases hs : step st k with
    | none =>
      simp only [hs, List.mem_cons] at h
      rcases h with rfl | h
      · exact Or.inr ⟨k, by simp, rfl⟩
      · rcases ih st l h with hd | ⟨t, ht, e⟩
        · exact Or.inl hd
        · exact Or.inr ⟨t, by simp [ht], e⟩
    | some p =>
      obtain ⟨d, st'⟩ := p
      simp only [hs, List.mem_append, List.mem_cons] at h
      rcases h with h | rfl | h
      · cases d with
        | none => simp [delimLex] at h
        | some d => simp only [delimLex, List.mem_singleton] at h; exact Or.inl ⟨d, h⟩
      · exact Or.inr ⟨k, by simp, rfl⟩
      · rcases ih st' l h with hd | ⟨t, ht, e⟩
        · exact Or.inl hd
        · exact Or.inr ⟨t, by simp [ht], e⟩

end JsonV.Lemmas.CanonParse
