/-
Simulation of the streaming ReadToken by the whole-buffer ReadToken (C05, `sim_tokens`), `fault_stutter`,
`value_span`.
-/
import JsonV.Lemmas.ResumeStreamGlue

namespace JsonV.Model.Stream
open JsonV JsonV.Model JsonV.Model.Validate JsonV.Model.TokenLoop
open JsonV.Lemmas.GlueResume JsonV.Lemmas.WireBasic JsonV.Lemmas.WireString JsonV.Lemmas.WireNumber JsonV.Lemmas.WireValue

theorem toWire_ok (e : Resume.Err) (h : toWire e = .ok) : e = .ok := by cases e <;> simp_all [toWire]
theorem toWire_eof (e : Resume.Err) : toWire e = .eof ↔ e = .eof := by cases e <;> simp [toWire]

/-- a complete literal found by the fast path stays the answer whatever follows -/
theorem lit_fast (l v e : Bytes) (hl : l ≠ []) (h : Wire.consumeExact l v ≠ 0) :
    valueLiteral l (v ++ e) = (Wire.consumeExact l v, .ok) ∧ Wire.consumeExact l v ≤ v.length := by
  have h1 : valueLiteral l v = (Wire.consumeExact l v, .ok) := by simp [valueLiteral, h]
  have hb := (valueLiteral_sound l v _ hl h1).1
  rw [valueLiteral_eq l v hl] at h1
  have hn : (litW l v).1 = Wire.consumeExact l v := congrArg Prod.fst h1
  have he : (litW l v).2 = .ok := toWire_ok _ (congrArg Prod.snd h1)
  have hst := Resume.consumeLiteral_stable v l e (by unfold litW at he; rw [he]; simp)
  refine ⟨?_, hb⟩
  rw [valueLiteral_eq l (v ++ e) hl]
  unfold litW at hn he ⊢
  rw [hst, hn, he]; rfl

theorem str_fast (o : VOpts) (v e : Bytes) (h : Wire.consumeSimpleString v ≠ 0) :
    valueString o (v ++ e) = (Wire.consumeSimpleString v, {}, .ok) ∧ Wire.consumeSimpleString v ≤ v.length := by
  have h1 : valueString o v = (Wire.consumeSimpleString v, {}, .ok) := by simp [valueString, h]
  have hb := (valueString_sound o v _ _ h1).1
  refine ⟨?_, hb⟩
  rw [valueString_eq o v] at h1
  have he : (strW (!o.allowInvalidUTF8) v).2.2 = .ok := toWire_ok _ (congrArg (fun x => x.2.2) h1)
  have hst := Resume.str_stable .none v e (!o.allowInvalidUTF8) (by unfold strW at he; rw [he]; simp)
  rw [valueString_eq o (v ++ e)]
  unfold strW at h1 ⊢
  rw [hst]; exact h1

theorem numW_stable (v e : Bytes) (n : Nat) (h : numW v = (n, .ok)) (hn : n < v.length) : numW (v ++ e) = (n, .ok) := by
  unfold numW at h ⊢
  rw [Resume.consumeNumberChunks_nil] at h ⊢
  simp only at h ⊢
  have hb := Resume.num_bound v
  by_cases hc : (Resume.consumeNumberResumable v 0 0).2.2 = .eof ∨ (Resume.consumeNumberResumable v 0 0).1 = v.length
  · rw [if_pos hc] at h
    by_cases hok : (Resume.consumeNumberResumable v 0 0).2.2 = .ok
    · rw [if_pos hok] at h
      injection h with h1 _
      rcases hc with hc | hc
      · rw [hok] at hc; simp at hc
      · omega
    · rw [if_neg hok] at h; simp at h
  · rw [if_neg hc] at h
    have hdef : Resume.Definitive v.length (Resume.consumeNumberResumable v 0 0) :=
      ⟨fun x => hc (Or.inl x), fun x => hc (Or.inr x)⟩
    rw [Resume.num_stable v e hdef]
    have hne : ¬ ((Resume.consumeNumberResumable v 0 0).2.2 = .eof ∨
        (Resume.consumeNumberResumable v 0 0).1 = (v ++ e).length) := by
      rintro (x | x)
      · exact hc (Or.inl x)
      · simp at x; omega
    rw [if_neg hne]; exact h

theorem num_fast (v e : Bytes) (h0 : Wire.consumeSimpleNumber v ≠ 0) (h1 : Wire.consumeSimpleNumber v < v.length) :
    valueNumber (v ++ e) = (Wire.consumeSimpleNumber v, .ok) := by
  have hl : Wire.lenLt v (Wire.consumeSimpleNumber v + 1) = false := by
    cases hh : Wire.lenLt v (Wire.consumeSimpleNumber v + 1)
    · rfl
    · have := (lenLt_iff v _).mp hh; omega
  have hv : valueNumber v = (Wire.consumeSimpleNumber v, .ok) := by simp [valueNumber, h0, hl]
  rw [valueNumber_eq v] at hv
  have hn : (numW v).1 = Wire.consumeSimpleNumber v := congrArg Prod.fst hv
  have he : (numW v).2 = .ok := toWire_ok _ (congrArg Prod.snd hv)
  have : numW v = (Wire.consumeSimpleNumber v, .ok) := Prod.ext hn he
  rw [valueNumber_eq (v ++ e), numW_stable v e _ this h1]; rfl

/-- the token scanned at `pos` of the unread buffer `u` is the token `r` of the whole input, nothing is lost -/
def LexOk (u : Bytes) (pos : Nat) (es : List Event) (r : TRes) : SRes → Prop
  | .fault u' es' => u' ++ avail es' = u ++ avail es ∧ es'.length < es.length ∧ u.length ≤ u'.length
  | .res r' start u' es' _ =>
    r' = r ∧ start = pos ∧ u' ++ avail es' = u ++ avail es ∧ es'.length ≤ es.length ∧ u.length ≤ u'.length ∧
      (∀ n st', r = .tok n st' → pos ≤ n ∧ n ≤ u'.length)

theorem feed_tok (st : TState) (pos n : Nat) (op : Machine → Except SMErr Machine) (m : Nat) (st' : TState)
    (h : feed st pos n op = .tok m st') : m = pos + n := by
  unfold feed at h
  split at h
  · simp at h
  · injection h with h1 _; exact h1.symm

theorem feedString_tok (o : VOpts) (st : TState) (pos : Nat) (q : Bytes) (fl : Wire.ValueFlags) (m : Nat) (st' : TState)
    (h : feedString o st pos q fl = .tok m st') : m = pos + q.length := by
  unfold feedString at h
  simp only at h
  repeat' split at h
  all_goals first
    | (injection h with h1 _; exact h1.symm)
    | (simp at h; done)

theorem take_pos_len (u : Bytes) (pos : Nat) (h : pos ≤ u.length) (v : Bytes) : (u.take pos ++ v).length = pos + v.length := by
  simp [List.length_take]; omega

theorem take_drop_rebuild (u : Bytes) (pos : Nat) (v v' e e' : Bytes) (hv : u.drop pos = v) (h : v' ++ e' = v ++ e) :
    (u.take pos ++ v') ++ e' = u ++ e := by
  rw [List.append_assoc, h, ← List.append_assoc, ← hv, List.take_append_drop]

/-- literals -/
theorem lex_lit (st : TState) (u : Bytes) (pos : Nat) (es : List Event) (f0 : Bool) (l v : Bytes) (hl : l ≠ [])
    (hv : u.drop pos = v) (hpos : pos ≤ u.length) :
    LexOk u pos es
      (if (valueLiteral l (v ++ avail es)).2 != .ok then .err (pos + (valueLiteral l (v ++ avail es)).1) (valueLiteral l (v ++ avail es)).2
       else feed st pos (valueLiteral l (v ++ avail es)).1 Machine.appendLiteral)
      (if Wire.consumeExact l v != 0 then .res (feed st pos (Wire.consumeExact l v) Machine.appendLiteral) pos u es f0
       else atPos u pos f0 (sLiteral l v es) fun b =>
        if toWire b.2 != .ok then .err (pos + b.1) (toWire b.2) else feed st pos b.1 Machine.appendLiteral) := by
  by_cases hf : Wire.consumeExact l v = 0
  · simp only [hf, bne_self_eq_false, Bool.false_eq_true, if_false]
    have hok := sLiteral_ok l v es
    cases hs : sLiteral l v es with
    | fault v' es' =>
      rw [hs] at hok
      obtain ⟨h1, h2, h3⟩ := hok
      refine ⟨take_drop_rebuild u pos v v' _ _ hv h1, h2, ?_⟩
      rw [take_pos_len u pos hpos]
      have : u.length = pos + v.length := by rw [← hv, List.length_drop]; omega
      omega
    | done b v' es' f1 =>
      rw [hs] at hok
      obtain ⟨h1, h1', h2, h3, h4⟩ := hok
      have hw := valueLiteral_eq l (v ++ avail es) hl
      have hw' := valueLiteral_eq l v' hl
      rw [← h1] at hw
      rw [← h1'] at hw'
      simp only [atPos]
      refine ⟨?_, rfl, take_drop_rebuild u pos v v' _ _ hv h2, h3, ?_, ?_⟩
      · rw [hw]
      · rw [take_pos_len u pos hpos]
        have : u.length = pos + v.length := by rw [← hv, List.length_drop]; omega
        omega
      · intro n st' hr
        rw [hw] at hr
        simp only at hr
        split at hr
        · simp at hr
        · rename_i hne
          have hn := feed_tok _ _ _ _ _ _ hr
          have hok : toWire b.2 = .ok := by simpa using hne
          have hb := (valueLiteral_sound l v' b.1 hl (by rw [hw', hok])).1
          rw [take_pos_len u pos hpos]; omega
  · have hf' : (Wire.consumeExact l v != 0) = true := by simpa using hf
    obtain ⟨h1, h2⟩ := lit_fast l v (avail es) hl hf
    simp only [hf', if_true, h1]
    refine ⟨by simp, rfl, rfl, Nat.le_refl _, Nat.le_refl _, ?_⟩
    intro n st' hr
    simp at hr
    have hn := feed_tok _ _ _ _ _ _ hr
    have : u.length = pos + v.length := by rw [← hv, List.length_drop]; omega
    omega

theorem len_of_drop (u : Bytes) (pos : Nat) (v : Bytes) (hv : u.drop pos = v) (hpos : pos ≤ u.length) :
    u.length = pos + v.length := by rw [← hv, List.length_drop]; omega

/-- numbers -/
theorem lex_num (st : TState) (u : Bytes) (pos : Nat) (es : List Event) (f0 : Bool) (v : Bytes)
    (hv : u.drop pos = v) (hpos : pos ≤ u.length) :
    LexOk u pos es
      (if (valueNumber (v ++ avail es)).2 != .ok then .err (pos + (valueNumber (v ++ avail es)).1) (valueNumber (v ++ avail es)).2
       else feed st pos (valueNumber (v ++ avail es)).1 Machine.appendNumber)
      (if Wire.consumeSimpleNumber v == 0 || Wire.lenLt v (Wire.consumeSimpleNumber v + 1) then
        atPos u pos f0 (sNumber v es) fun b =>
          if toWire b.2 != .ok then .err (pos + b.1) (toWire b.2) else feed st pos b.1 Machine.appendNumber
       else .res (feed st pos (Wire.consumeSimpleNumber v) Machine.appendNumber) pos u es f0) := by
  have hlen := len_of_drop u pos v hv hpos
  by_cases hf : (Wire.consumeSimpleNumber v == 0 || Wire.lenLt v (Wire.consumeSimpleNumber v + 1)) = true
  · simp only [hf, if_true]
    have hok := sNumber_ok v es
    cases hs : sNumber v es with
    | fault v' es' =>
      rw [hs] at hok
      obtain ⟨h1, h2, h3⟩ := hok
      refine ⟨take_drop_rebuild u pos v v' _ _ hv h1, h2, ?_⟩
      rw [take_pos_len u pos hpos]; omega
    | done b v' es' f1 =>
      rw [hs] at hok
      obtain ⟨h1, h1', h2, h3, h4⟩ := hok
      have hw := valueNumber_eq (v ++ avail es)
      have hw' := valueNumber_eq v'
      rw [← h1] at hw
      rw [← h1'] at hw'
      simp only [atPos]
      refine ⟨?_, rfl, take_drop_rebuild u pos v v' _ _ hv h2, h3, ?_, ?_⟩
      · rw [hw]
      · rw [take_pos_len u pos hpos]; omega
      · intro n st' hr
        rw [hw] at hr
        simp only at hr
        split at hr
        · simp at hr
        · rename_i hne
          have hn := feed_tok _ _ _ _ _ _ hr
          have hok : toWire b.2 = .ok := by simpa using hne
          have hb := (valueNumber_sound v' b.1 (by rw [hw', hok])).1
          rw [take_pos_len u pos hpos]; omega
  · simp only [hf, Bool.false_eq_true, if_false]
    simp at hf
    obtain ⟨h0, h1⟩ := hf
    have hlt : Wire.consumeSimpleNumber v < v.length := by
      cases hh : Wire.lenLt v (Wire.consumeSimpleNumber v + 1)
      · have : ¬ v.length < Wire.consumeSimpleNumber v + 1 := by
          intro hx; have := (lenLt_iff v _).mpr hx; rw [hh] at this; simp at this
        omega
      · rw [hh] at h1; simp at h1
    have hfast := num_fast v (avail es) h0 hlt
    simp only [hfast]
    refine ⟨by simp, rfl, rfl, Nat.le_refl _, Nat.le_refl _, ?_⟩
    intro n st' hr
    simp at hr
    have hn := feed_tok _ _ _ _ _ _ hr
    omega

/-- strings -/
theorem lex_str (o : VOpts) (st : TState) (u : Bytes) (pos : Nat) (es : List Event) (f0 : Bool) (v : Bytes)
    (hv : u.drop pos = v) (hpos : pos ≤ u.length) :
    LexOk u pos es
      (if (valueString o (v ++ avail es)).2.2 != .ok then .err (pos + (valueString o (v ++ avail es)).1) (valueString o (v ++ avail es)).2.2
       else feedString o st pos ((v ++ avail es).take (valueString o (v ++ avail es)).1) (valueString o (v ++ avail es)).2.1)
      (if Wire.consumeSimpleString v != 0 then
        .res (feedString o st pos (v.take (Wire.consumeSimpleString v)) {}) pos u es f0
       else
        match sString (!o.allowInvalidUTF8) v es with
        | .fault v' es' => .fault (u.take pos ++ v') es'
        | .done b v' es' f1 =>
          .res (if toWire b.2.2 != .ok then .err (pos + b.1) (toWire b.2.2)
                else feedString o st pos (v'.take b.1) (toWireFlags b.2.1)) pos (u.take pos ++ v') es' (f0 || f1)) := by
  have hlen := len_of_drop u pos v hv hpos
  by_cases hf : Wire.consumeSimpleString v = 0
  · simp only [hf, bne_self_eq_false, Bool.false_eq_true, if_false]
    have hok := sString_ok (!o.allowInvalidUTF8) v es
    cases hs : sString (!o.allowInvalidUTF8) v es with
    | fault v' es' =>
      rw [hs] at hok
      obtain ⟨h1, h2, h3⟩ := hok
      refine ⟨take_drop_rebuild u pos v v' _ _ hv h1, h2, ?_⟩
      rw [take_pos_len u pos hpos]; omega
    | done b v' es' f1 =>
      rw [hs] at hok
      obtain ⟨h1, h1', h2, h3, h4⟩ := hok
      have hw := valueString_eq o (v ++ avail es)
      have hw' := valueString_eq o v'
      rw [← h1] at hw
      rw [← h1'] at hw'
      simp only
      have hbound : toWire b.2.2 = .ok → b.1 ≤ v'.length := by
        intro hok
        exact (valueString_sound o v' b.1 (toWireFlags b.2.1) (by rw [hw', hok])).1
      refine ⟨?_, rfl, take_drop_rebuild u pos v v' _ _ hv h2, h3, ?_, ?_⟩
      · rw [hw]
        simp only
        by_cases hne : (toWire b.2.2 != .ok) = true
        · simp [hne]
        · simp only [hne, Bool.false_eq_true, if_false]
          have hok : toWire b.2.2 = .ok := by simpa using hne
          have hb := hbound hok
          rw [← h2, List.take_append_of_le_length hb]
      · rw [take_pos_len u pos hpos]; omega
      · intro n st' hr
        rw [hw] at hr
        simp only at hr
        split at hr
        · simp at hr
        · rename_i hne
          have hok : toWire b.2.2 = .ok := by simpa using hne
          have hb := hbound hok
          have hn := feedString_tok _ _ _ _ _ _ _ hr
          rw [← h2, List.take_append_of_le_length hb] at hn
          simp [List.length_take] at hn
          rw [take_pos_len u pos hpos]; omega
  · have hf' : (Wire.consumeSimpleString v != 0) = true := by simpa using hf
    obtain ⟨h1, h2⟩ := str_fast o v (avail es) hf
    simp only [hf', if_true, h1]
    refine ⟨?_, rfl, rfl, Nat.le_refl _, Nat.le_refl _, ?_⟩
    · simp [List.take_append_of_le_length h2]
    · intro n st' hr
      simp [List.take_append_of_le_length h2] at hr
      have hn := feedString_tok _ _ _ _ _ _ _ hr
      simp [List.length_take] at hn
      omega

theorem lexOk_here (u : Bytes) (pos : Nat) (es : List Event) (r : TRes) (f0 : Bool)
    (h : ∀ n st', r = .tok n st' → pos ≤ n ∧ n ≤ u.length) : LexOk u pos es r (.res r pos u es f0) :=
  ⟨rfl, rfl, rfl, Nat.le_refl _, Nat.le_refl _, h⟩

/-- the `switch next` of the streaming ReadToken at `pos` answers what the whole-input `lexToken` answers -/
theorem lexS_ok (o : VOpts) (st : TState) (u : Bytes) (pos : Nat) (es : List Event) (f0 : Bool) (c : UInt8) (vt : Bytes)
    (hv : u.drop pos = c :: vt) :
    LexOk u pos es (lexToken o st pos ((c :: vt) ++ avail es)) (lexS o st u pos es f0) := by
  have hpos : pos < u.length := by
    have := congrArg List.length hv; simp [List.length_drop] at this; omega
  have hlen := len_of_drop u pos _ hv (Nat.le_of_lt hpos)
  simp only [List.length_cons] at hlen
  unfold lexS lexToken
  simp only [hv, List.cons_append]
  by_cases h1 : (normKind c == 0x6E) = true
  · simp only [h1, if_true]
    exact lex_lit st u pos es f0 Wire.litNull (c :: vt) (by decide) hv (Nat.le_of_lt hpos)
  simp only [h1, Bool.false_eq_true, if_false]
  by_cases h2 : (normKind c == 0x66) = true
  · simp only [h2, if_true]
    exact lex_lit st u pos es f0 Wire.litFalse (c :: vt) (by decide) hv (Nat.le_of_lt hpos)
  simp only [h2, Bool.false_eq_true, if_false]
  by_cases h3 : (normKind c == 0x74) = true
  · simp only [h3, if_true]
    exact lex_lit st u pos es f0 Wire.litTrue (c :: vt) (by decide) hv (Nat.le_of_lt hpos)
  simp only [h3, Bool.false_eq_true, if_false]
  by_cases h4 : (normKind c == 0x22) = true
  · simp only [h4, if_true]
    exact lex_str o st u pos es f0 (c :: vt) hv (Nat.le_of_lt hpos)
  simp only [h4, Bool.false_eq_true, if_false]
  by_cases h5 : (normKind c == 0x30) = true
  · simp only [h5, if_true]
    exact lex_num st u pos es f0 (c :: vt) hv (Nat.le_of_lt hpos)
  simp only [h5, Bool.false_eq_true, if_false]
  by_cases h6 : (normKind c == 0x7B) = true
  · simp only [h6, if_true]
    cases st.m.pushObject maxNestingDepth with
    | error se => exact lexOk_here _ _ _ _ _ (by intro n st' h; simp at h)
    | ok m' =>
      apply lexOk_here
      intro n st' h; injection h with h _; omega
  simp only [h6, Bool.false_eq_true, if_false]
  by_cases h7 : (normKind c == 0x7D) = true
  · simp only [h7, if_true]
    cases st.m.popObject with
    | error se => exact lexOk_here _ _ _ _ _ (by intro n st' h; simp at h)
    | ok m' =>
      apply lexOk_here
      intro n st' h; injection h with h _; omega
  simp only [h7, Bool.false_eq_true, if_false]
  by_cases h8 : (normKind c == 0x5B) = true
  · simp only [h8, if_true]
    apply lexOk_here
    intro n st' h; have := feed_tok _ _ _ _ _ _ h; omega
  simp only [h8, Bool.false_eq_true, if_false]
  by_cases h9 : (normKind c == 0x5D) = true
  · simp only [h9, if_true]
    apply lexOk_here
    intro n st' h; have := feed_tok _ _ _ _ _ _ h; omega
  simp only [h9, Bool.false_eq_true, if_false]
  exact lexOk_here _ _ _ _ _ (by intro n st' h; simp at h)

/-- `checkDelimBeforeIOError` is sound: if the delimiter is wrong for a string it is wrong for every next token -/
theorem needDelim_of_string (m : Machine) (c k : UInt8) (hc : c = 0x3A ∨ c = 0x2C)
    (h : (m.needDelim 0x22 != c) = true) : (m.needDelim k != c) = true := by
  unfold Machine.needDelim Entry.needImplicitComma at *
  have e1 : ((0x22 : UInt8) != 0x7d) = true := by decide
  have e2 : ((0x22 : UInt8) != 0x5d) = true := by decide
  simp only [e1, e2, Bool.and_true] at h
  rcases hc with hc | hc <;> subst hc
  · by_cases a : m.last.needImplicitColon = true
    · simp [a] at h
    · simp only [a, Bool.false_eq_true, if_false] at h ⊢
      split <;> decide
  · by_cases a : m.last.needImplicitColon = true
    · simp only [a, if_true]; decide
    · simp only [a, Bool.false_eq_true, if_false] at h ⊢
      by_cases b : ((!m.last.needObjectValue && decide (m.last.length > 0)) && (m.stack.length != 0)) = true
      · simp [b] at h
      · have : ((!m.last.needObjectValue && decide (m.last.length > 0) && k != 0x7d && k != 0x5d) && (m.stack.length != 0)) = false := by
          cases h1 : (!m.last.needObjectValue && decide (m.last.length > 0)) <;> cases h2 : (m.stack.length != 0) <;> simp_all
        simp only [this, Bool.false_eq_true, if_false]; decide

/-- one streaming ReadToken on unread buffer `u` with reader `es` against ReadToken on the whole input -/
def ScanOk (st : TState) (lexW : Nat → Bytes → TRes) (u : Bytes) (es : List Event) : SRes → Prop
  | .fault u' es' => u' ++ avail es' = u ++ avail es ∧ es'.length < es.length ∧ u.length ≤ u'.length
  | .res r start u' es' _ =>
    r = wholeWith st lexW (u ++ avail es) ∧ u' ++ avail es' = u ++ avail es ∧ es'.length ≤ es.length ∧
      u.length ≤ u'.length ∧
      (∀ n st', r = .tok n st' → start = wholeStart (u ++ avail es) ∧ start ≤ n ∧ n ≤ u'.length ∧ start < u'.length)

theorem ws_facts (t : Bytes) (w : Nat) (found : Bool) (h : (w, found) = wsW t) :
    w = Wire.consumeWhitespace t ∧ (found = false → t.drop w = []) ∧ (found = true → w < t.length) := by
  rw [wsW_wire] at h
  injection h with h1 h2
  have hle : Wire.consumeWhitespace t ≤ t.length := by
    rw [← JsonV.Lemmas.GlueResume.ws_eq]; exact Resume.consumeWhitespace_le t
  refine ⟨h1, ?_, ?_⟩
  · intro hf; subst hf; subst h1
    have : Wire.consumeWhitespace t = t.length := by simpa using h2.symm
    rw [this]; simp
  · intro hf; subst hf; subst h1
    have : Wire.consumeWhitespace t ≠ t.length := by simpa using h2.symm
    omega

theorem drop_cons_of_lt (t : Bytes) (w : Nat) (h : w < t.length) : ∃ c vt, t.drop w = c :: vt := by
  cases hd : t.drop w with
  | nil => have := congrArg List.length hd; simp [List.length_drop] at this; omega
  | cons c vt => exact ⟨c, vt, rfl⟩

/-- a LexOk on a grown buffer is a ScanOk of the call -/
theorem scanOk_of_lexOk (st : TState) (lexW : Nat → Bytes → TRes) (u : Bytes) (es : List Event) (u1 : Bytes) (es1 : List Event) (pos : Nat)
    (S : SRes) (r : TRes) (hL : LexOk u1 pos es1 r S)
    (hT : u1 ++ avail es1 = u ++ avail es) (he : es1.length ≤ es.length) (hu : u.length ≤ u1.length)
    (hr : r = wholeWith st lexW (u ++ avail es)) (hs : pos = wholeStart (u ++ avail es))
    (hlt : pos < u1.length) : ScanOk st lexW u es S := by
  cases S with
  | fault u' es' =>
    obtain ⟨h1, h2, h3⟩ := hL
    exact ⟨h1.trans hT, by omega, by omega⟩
  | res r' start u' es' f =>
    obtain ⟨h1, h2, h3, h4, h5, h6⟩ := hL
    refine ⟨h1.trans hr, h3.trans hT, by omega, by omega, ?_⟩
    intro n st' hn
    rw [h1] at hn
    obtain ⟨a, b⟩ := h6 n st' hn
    exact ⟨h2.trans hs, by omega, b, by omega⟩

theorem wholeStart_plain (t : Bytes) (c : UInt8) (rest : Bytes) (h : t.drop (Wire.consumeWhitespace t) = c :: rest)
    (hc : (c == 0x3A || c == 0x2C) = false) : wholeStart t = Wire.consumeWhitespace t := by
  simp [wholeStart, h, hc]

theorem wholeStart_delim (t : Bytes) (c : UInt8) (rest : Bytes) (h : t.drop (Wire.consumeWhitespace t) = c :: rest)
    (hc : (c == 0x3A || c == 0x2C) = true) :
    wholeStart t = Wire.consumeWhitespace t + 1 + Wire.consumeWhitespace rest := by
  simp [wholeStart, h, hc]

theorem scanWith_ok (st : TState) (lex : Bytes → Nat → List Event → Bool → SRes) (lexW : Nat → Bytes → TRes)
    (hlex : ∀ (u : Bytes) (pos : Nat) (es : List Event) (f : Bool) (c : UInt8) (vt : Bytes), u.drop pos = c :: vt →
      LexOk u pos es (lexW pos ((c :: vt) ++ avail es)) (lex u pos es f))
    (u : Bytes) (es : List Event) :
    ScanOk st lexW u es (scanWith st lex u es) := by
  unfold scanWith
  have hok := sWhitespace_ok u 0 es (Nat.zero_le _)
  cases hs : sWhitespace u 0 es with
  | fault u1 es1 => rw [hs] at hok; exact hok
  | done b u1 es1 f1 =>
    rw [hs] at hok
    obtain ⟨w, found⟩ := b
    obtain ⟨h1, h1', h2, h3, h4⟩ := hok
    obtain ⟨hw, hnf, hf⟩ := ws_facts _ w found h1
    obtain ⟨hw', hnf', hf'⟩ := ws_facts _ w found h1'
    simp only
    cases found with
    | false =>
      simp only [Bool.not_false, if_true]
      refine ⟨?_, h2, h3, h4, by intro n st' h; simp at h⟩
      unfold wholeWith
      simp only [← hw, hnf rfl]
    | true =>
      simp only [Bool.not_true, Bool.false_eq_true, if_false]
      have hwlt := hf' rfl
      obtain ⟨c, vt, hd⟩ := drop_cons_of_lt u1 w hwlt
      have hTd : (u ++ avail es).drop w = c :: (vt ++ avail es1) := by
        rw [← h2, List.drop_append_of_le_length (Nat.le_of_lt hwlt), hd]; rfl
      have hTd' : (u ++ avail es).drop (Wire.consumeWhitespace (u ++ avail es)) = c :: (vt ++ avail es1) := by
        rw [← hw]; exact hTd
      simp only [hd]
      by_cases hdel : (c == 0x3A || c == 0x2C) = true
      · simp only [hdel, if_true]
        have hcc : c = 0x3A ∨ c = 0x2C := by simpa using hdel
        have hvt : u1.drop (w + 1) = vt := by
          rw [← List.drop_drop, hd]; rfl
        have htk : (u1.take (w + 1)).length = w + 1 := by simp [List.length_take]; omega
        rw [hvt]
        have hok2 := sWhitespace_ok vt 0 es1 (Nat.zero_le _)
        -- the whole-input ReadToken behind the delimiter
        have hRnil : (vt ++ avail es1).drop (Wire.consumeWhitespace (vt ++ avail es1)) = [] →
            wholeWith st lexW (u ++ avail es) =
              (if st.m.needDelim 0x22 != c then .err w .invalidChar
               else .err (w + 1 + Wire.consumeWhitespace (vt ++ avail es1)) .eof) := by
          intro h
          unfold wholeWith
          simp only [← hw, hTd, hdel, if_true, h]
        have hRcons : ∀ c1 rest1, (vt ++ avail es1).drop (Wire.consumeWhitespace (vt ++ avail es1)) = c1 :: rest1 →
            wholeWith st lexW (u ++ avail es) =
              (if st.m.needDelim (normKind c1) != c then .err w .invalidChar
               else lexW (w + 1 + Wire.consumeWhitespace (vt ++ avail es1)) (c1 :: rest1)) := by
          intro c1 rest1 h
          unfold wholeWith
          simp only [← hw, hTd, hdel, if_true, h]
        have hRbad : (st.m.needDelim 0x22 != c) = true → wholeWith st lexW (u ++ avail es) = .err w .invalidChar := by
          intro hb
          cases hx : (vt ++ avail es1).drop (Wire.consumeWhitespace (vt ++ avail es1)) with
          | nil => rw [hRnil hx]; simp [hb]
          | cons c1 rest1 => rw [hRcons c1 rest1 hx]; simp [needDelim_of_string st.m c (normKind c1) hcc hb]
        have hrebuild : ∀ (v2 : Bytes) (es2 : List Event), v2 ++ avail es2 = vt ++ avail es1 →
            (u1.take (w + 1) ++ v2) ++ avail es2 = u ++ avail es := by
          intro v2 es2 h
          rw [← h2]
          exact take_drop_rebuild u1 (w + 1) vt v2 _ _ hvt h
        have hlen1 : u1.length = w + 1 + vt.length := len_of_drop u1 (w + 1) vt hvt (by omega)
        cases hs2 : sWhitespace vt 0 es1 with
        | fault v2 es2 =>
          rw [hs2] at hok2
          obtain ⟨g1, g2, g3⟩ := hok2
          simp only
          by_cases hb : (st.m.needDelim 0x22 != c) = true
          · simp only [hb, if_true]
            refine ⟨(hRbad hb).symm, hrebuild v2 es2 g1, by omega, ?_, by intro n st' h; simp at h⟩
            simp [htk]; omega
          · simp only [hb, Bool.false_eq_true, if_false]
            refine ⟨hrebuild v2 es2 g1, by omega, ?_⟩
            simp [htk]; omega
        | done b2 v2 es2 f2 =>
          rw [hs2] at hok2
          obtain ⟨p, found2⟩ := b2
          obtain ⟨g1, g1', g2, g3, g4⟩ := hok2
          obtain ⟨hp, hpnf, hpf⟩ := ws_facts _ p found2 g1
          obtain ⟨hp', hpnf', hpf'⟩ := ws_facts _ p found2 g1'
          have hu2len : u.length ≤ (u1.take (w + 1) ++ v2).length := by simp [htk]; omega
          simp only
          cases found2 with
          | false =>
            simp only [Bool.not_false, if_true]
            have hnil := hpnf rfl
            by_cases hb : (st.m.needDelim 0x22 != c) = true
            · simp only [hb, if_true]
              exact ⟨(hRbad hb).symm, hrebuild v2 es2 g2, by omega, hu2len, by intro n st' h; simp at h⟩
            · simp only [hb, Bool.false_eq_true, if_false]
              refine ⟨?_, hrebuild v2 es2 g2, by omega, hu2len, by intro n st' h; simp at h⟩
              rw [hRnil (by rw [← hp]; exact hnil), ← hp]
              simp [hb]
          | true =>
            simp only [Bool.not_true, Bool.false_eq_true, if_false]
            have hplt := hpf' rfl
            obtain ⟨c1, vt2, hd2⟩ := drop_cons_of_lt v2 p hplt
            have hrest : (vt ++ avail es1).drop p = (c1 :: vt2) ++ avail es2 := by
              rw [← g2, List.drop_append_of_le_length (Nat.le_of_lt hplt), hd2]
            simp only [hd2]
            have hR2 : wholeWith st lexW (u ++ avail es) =
                (if st.m.needDelim (normKind c1) != c then .err w .invalidChar
                 else lexW (w + 1 + p) ((c1 :: vt2) ++ avail es2)) := by
              rw [hRcons c1 (vt2 ++ avail es2) (by rw [← hp]; exact hrest), ← hp]; rfl
            by_cases hb : (st.m.needDelim (normKind c1) != c) = true
            · simp only [hb, if_true]
              refine ⟨?_, hrebuild v2 es2 g2, by omega, hu2len, by intro n st' h; simp at h⟩
              rw [hR2]; simp [hb]
            · simp only [hb, Bool.false_eq_true, if_false]
              have hdrop : (u1.take (w + 1) ++ v2).drop (w + 1 + p) = c1 :: vt2 := by
                have h := List.drop_length_add_append (l₁ := u1.take (w + 1)) (l₂ := v2) p
                rw [htk] at h; rw [h, hd2]
              have hL := hlex (u1.take (w + 1) ++ v2) (w + 1 + p) es2 (f1 || f2) c1 vt2 hdrop
              refine scanOk_of_lexOk st lexW u es _ es2 (w + 1 + p) _ _ hL (hrebuild v2 es2 g2) (by omega) hu2len ?_ ?_ ?_
              · rw [hR2]; simp [hb]
              · rw [wholeStart_delim _ c _ hTd' hdel, ← hw, ← hp]
              · simp [htk]; omega
      · have hdel' : (c == 0x3A || c == 0x2C) = false := by simpa using hdel
        simp only [hdel', Bool.false_eq_true, if_false]
        have hR : wholeWith st lexW (u ++ avail es) =
            (if st.m.needDelim (normKind c) != 0 then .err w .invalidChar
             else lexW w ((c :: vt) ++ avail es1)) := by
          unfold wholeWith
          simp only [← hw, hTd, hdel', Bool.false_eq_true, if_false]; rfl
        by_cases hb : (st.m.needDelim (normKind c) != 0) = true
        · simp only [hb, if_true]
          refine ⟨?_, h2, h3, h4, by intro n st' h; simp at h⟩
          rw [hR]; simp [hb]
        · simp only [hb, Bool.false_eq_true, if_false]
          have hL := hlex u1 w es1 f1 c vt hd
          refine scanOk_of_lexOk st lexW u es u1 es1 w _ _ hL h2 h3 h4 ?_ ?_ ?_
          · rw [hR]; simp [hb]
          · rw [wholeStart_plain _ c _ hTd' hdel', ← hw]
          · exact hwlt


theorem readToken_eq (o : VOpts) (st : TState) (r : Bytes) :
    TokenLoop.readToken o st r = wholeWith st (lexToken o st) r := rfl

theorem scanToken_ok (o : VOpts) (st : TState) (u : Bytes) (es : List Event) :
    ScanOk st (lexToken o st) u es (scanToken o st u es) :=
  scanWith_ok st (lexS o st) (lexToken o st) (lexS_ok o st) u es

end JsonV.Model.Stream
