/-
Glue between the two models of the jsonwire scanners: slice C05's `JsonV.Model.Resume`
(absolute offsets, used for the resumability / chunk-independence theorems of Props/C05.lean) and
slice C01's `JsonV.Model.Wire` (relative offsets, used for the grammar theorems of Props/C01.lean).
The copies are proved EQUAL (modulo the isomorphism of the error enums), so theorems transfer.
-/
import JsonV.Model.Resume
import JsonV.Model.WireDecode
import JsonV.Lemmas.ResumeNum

namespace JsonV.Lemmas.GlueResume
open JsonV JsonV.Model

/-- the error enum of Model/Resume.lean inside the one of Model/WireDecode.lean -/
def eR : Resume.Err → Wire.Err
  | .ok => .ok | .eof => .eof | .invalidChar => .invalidChar
  | .invalidEscape => .invalidEscape | .invalidUTF8 => .invalidUTF8

theorem eR_inj (a b : Resume.Err) (h : eR a = eR b) : a = b := by cases a <;> cases b <;> simp_all [eR]

def mapNum (r : Resume.NumRes) : Nat × Nat × Wire.Err := (r.1, r.2.1, eR r.2.2)
def shiftNum (n : Nat) (r : Nat × Nat × Wire.Err) : Nat × Nat × Wire.Err := (n + r.1, r.2.1, r.2.2)

theorem ws_eq (b : Bytes) : Resume.consumeWhitespace b = Wire.consumeWhitespace b := by
  induction b with
  | nil => rfl
  | cons c r ih => simp [Resume.consumeWhitespace, Wire.consumeWhitespace, Resume.isWs, Wire.isWs, ih]

theorem lit_eq (b lit : Bytes) :
    ((Resume.consumeLiteral b lit).1, eR (Resume.consumeLiteral b lit).2) = Wire.consumeLiteral b lit := by
  induction lit generalizing b with
  | nil => cases b <;> simp [Resume.consumeLiteral, Wire.consumeLiteral, eR]
  | cons l lit ih =>
    cases b with
    | nil => simp [Resume.consumeLiteral, Wire.consumeLiteral, eR]
    | cons c b =>
      simp only [Resume.consumeLiteral, Wire.consumeLiteral]
      split
      · simp [eR]
      · rw [← ih b]

theorem digits_eq (r : Bytes) : Resume.countDigits r = Wire.digitRun r := by
  induction r with
  | nil => rfl
  | cons c r ih => simp [Resume.countDigits, Wire.digitRun, Resume.isDigit, Wire.isDigit, ih]

theorem isDigit_eq (c : UInt8) : Resume.isDigit c = Wire.isDigit c := rfl

theorem exponent_eq (r : Bytes) (n st : Nat) :
    mapNum (Resume.beforeExponent r n st) = shiftNum n (Wire.numExponent st r) := by
  cases r with
  | nil => simp [Resume.beforeExponent, Wire.numExponent, mapNum, shiftNum, eR]
  | cons c r1 =>
    by_cases hE : (c == 0x65 || c == 0x45) = true
    · cases r1 with
      | nil =>
        simp [Resume.beforeExponent, Wire.numExponent, hE, mapNum, shiftNum, eR, Wire.stBeforeExponentDigits]
      | cons s r2 =>
        by_cases hS : (s == 0x2D || s == 0x2B) = true
        · cases r2 with
          | nil =>
            simp [Resume.beforeExponent, Wire.numExponent, hE, hS, mapNum, shiftNum, eR, Wire.stBeforeExponentDigits]
          | cons d r3 =>
            by_cases hD : Wire.isDigit d = true
            · simp [Resume.beforeExponent, Wire.numExponent, hE, hS, isDigit_eq, hD, mapNum, shiftNum, eR,
                Wire.stWithinExponentDigits, digits_eq]
              all_goals omega
            · simp [Resume.beforeExponent, Wire.numExponent, hE, hS, isDigit_eq, hD, mapNum, shiftNum, eR]
              all_goals omega
        · by_cases hD : Wire.isDigit s = true
          · simp [Resume.beforeExponent, Wire.numExponent, hE, hS, isDigit_eq, hD, mapNum, shiftNum, eR,
              Wire.stWithinExponentDigits, digits_eq]
            all_goals omega
          · simp [Resume.beforeExponent, Wire.numExponent, hE, hS, isDigit_eq, hD, mapNum, shiftNum, eR]
    · simp [Resume.beforeExponent, Wire.numExponent, hE, mapNum, shiftNum, eR]

theorem shift_shift (a b : Nat) (r : Nat × Nat × Wire.Err) : shiftNum a (shiftNum b r) = shiftNum (a + b) r := by
  simp [shiftNum, Nat.add_assoc]

theorem fractional_eq (r : Bytes) (n st : Nat) :
    mapNum (Resume.beforeFractional r n st) = shiftNum n (Wire.numFractional st r) := by
  cases r with
  | nil =>
    simp only [Resume.beforeFractional, Wire.numFractional]
    exact exponent_eq [] n st
  | cons c r1 =>
    by_cases hdot : (c == 0x2E) = true
    · cases r1 with
      | nil => simp [Resume.beforeFractional, Wire.numFractional, hdot, mapNum, shiftNum, eR, Wire.stBeforeFractionalDigits]
      | cons d r2 =>
        by_cases hD : Wire.isDigit d = true
        · simp only [Resume.beforeFractional, Wire.numFractional, hdot, isDigit_eq, hD, if_true]
          rw [exponent_eq, digits_eq]
          rcases hx : Wire.numExponent Wire.stWithinFractionalDigits (r2.drop (Wire.digitRun r2)) with ⟨m, st', e⟩
          simp only [Wire.stWithinFractionalDigits] at hx
          simp [shiftNum, Wire.stWithinFractionalDigits, hx]
          all_goals omega
        · simp [Resume.beforeFractional, Wire.numFractional, hdot, isDigit_eq, hD, mapNum, shiftNum, eR]
    · simp only [Resume.beforeFractional, Wire.numFractional, hdot, Bool.false_eq_true, if_false]
      exact exponent_eq _ n st

theorem integerBody_eq (r : Bytes) (n n1 st : Nat) :
    mapNum (Resume.integerBody r n n1 st) =
      (match r with
       | [] => (n, Wire.stBeforeIntegerDigits, Wire.Err.eof)
       | c :: r1 =>
         if c == 0x30 then
           (n1 + 1 + (Wire.numFractional Wire.stBeforeFractionalDigits r1).1,
            (Wire.numFractional Wire.stBeforeFractionalDigits r1).2.1,
            (Wire.numFractional Wire.stBeforeFractionalDigits r1).2.2)
         else if Wire.isDigit19 c then
           (n1 + 1 + Wire.digitRun r1 + (Wire.numFractional Wire.stWithinIntegerDigits (r1.drop (Wire.digitRun r1))).1,
            (Wire.numFractional Wire.stWithinIntegerDigits (r1.drop (Wire.digitRun r1))).2.1,
            (Wire.numFractional Wire.stWithinIntegerDigits (r1.drop (Wire.digitRun r1))).2.2)
         else (n1, st, Wire.Err.invalidChar)) := by
  cases r with
  | nil => simp [Resume.integerBody, mapNum, eR, Wire.stBeforeIntegerDigits]
  | cons c r1 =>
    by_cases hz : (c == 0x30) = true
    · simp only [Resume.integerBody, hz, if_true]
      rw [fractional_eq]
      simp [shiftNum, Wire.stBeforeFractionalDigits]
    · by_cases h19 : Wire.isDigit19 c = true
      · have h19' : (0x31 ≤ c && c ≤ 0x39) = true := h19
        simp only [Resume.integerBody, hz, h19, h19', if_true, Bool.false_eq_true, if_false]
        rw [fractional_eq, digits_eq]
        simp [shiftNum, Wire.stWithinIntegerDigits, Nat.add_assoc]
      · have h19' : (0x31 ≤ c && c ≤ 0x39) = false := by simpa [Wire.isDigit19] using h19
        simp [Resume.integerBody, hz, h19, h19', mapNum, eR]

theorem integer_eq (b : Bytes) (n st : Nat) :
    mapNum (Resume.beforeInteger b n st) = Wire.numInteger st b n := by
  unfold Resume.beforeInteger Wire.numInteger
  cases b with
  | nil => simp [integerBody_eq]
  | cons c r =>
    by_cases hm : (c == 0x2D) = true
    · simp only [hm, if_true]; rw [integerBody_eq]; cases List.drop (n + 1) (c :: r) <;> rfl
    · simp only [hm, Bool.false_eq_true, if_false]; rw [integerBody_eq]; cases List.drop n (c :: r) <;> rfl

theorem dispatch_eq (b : Bytes) (n st : Nat) :
    mapNum (Resume.numDispatch b n st) =
      (if st == 1 then Wire.numInteger st b n
       else if st == 3 then
         (n + (Wire.numFractional st (b.drop n)).1, (Wire.numFractional st (b.drop n)).2.1, (Wire.numFractional st (b.drop n)).2.2)
       else if st == 5 then
         (n + (Wire.numExponent st (b.drop n)).1, (Wire.numExponent st (b.drop n)).2.1, (Wire.numExponent st (b.drop n)).2.2)
       else (n, st, Wire.Err.ok)) := by
  unfold Resume.numDispatch
  by_cases h1 : (st == 1) = true
  · simp only [h1, if_true]; exact integer_eq _ _ _
  by_cases h3 : (st == 3) = true
  · simp only [h1, h3, if_true, Bool.false_eq_true, if_false]; rw [fractional_eq]; rfl
  by_cases h5 : (st == 5) = true
  · simp only [h1, h3, h5, if_true, Bool.false_eq_true, if_false]; rw [exponent_eq]; rfl
  · simp [h1, h3, h5, mapNum, eR]

theorem lenLt_succ (b : Bytes) (n : Nat) : Wire.lenLt b (n + 1) = decide (b.length ≤ n) := by
  induction b generalizing n with
  | nil => simp [Wire.lenLt]
  | cons c r ih =>
    cases n with
    | zero => simp [Wire.lenLt]
    | succ n => simp [Wire.lenLt, ih]

/-- the two models of `ConsumeNumberResumable` are equal -/
theorem number_resumable_eq (b : Bytes) (off st : Nat) :
    mapNum (Resume.consumeNumberResumable b off st) = Wire.consumeNumberResumable b off st := by
  unfold Resume.consumeNumberResumable Wire.consumeNumberResumable
  simp only [Wire.stInit, gt_iff_lt]
  by_cases h0 : 0 < st
  · simp only [h0, if_true]
    by_cases hw : (st == 2 || st == 4 || st == 6) = true
    · have hw' : (st == Wire.stWithinIntegerDigits || st == Wire.stWithinFractionalDigits || st == Wire.stWithinExponentDigits) = true := hw
      simp only [hw, hw', if_true, digits_eq, lenLt_succ, Bool.true_and]
      by_cases hl : b.length ≤ off + Wire.digitRun (b.drop off)
      · simp [hl, mapNum, eR]
      · simp only [hl, decide_false, Bool.false_eq_true, if_false]
        rw [dispatch_eq]
        simp only [Wire.stBeforeIntegerDigits, Wire.stBeforeFractionalDigits, Wire.stBeforeExponentDigits]
        rfl
    · have hw' : (st == Wire.stWithinIntegerDigits || st == Wire.stWithinFractionalDigits || st == Wire.stWithinExponentDigits) = false := by
        simpa [Wire.stWithinIntegerDigits, Wire.stWithinFractionalDigits, Wire.stWithinExponentDigits] using hw
      simp only [hw, hw', Bool.false_eq_true, if_false, Bool.false_and]
      rw [dispatch_eq]
      simp only [Wire.stBeforeIntegerDigits, Wire.stBeforeFractionalDigits, Wire.stBeforeExponentDigits]
      rfl
  · simp only [h0, if_false]
    exact integer_eq _ _ _

end JsonV.Lemmas.GlueResume
