/-
Glue C12 ↔ C01, part 1: the lexemes of the tokens of a tree (slice C13's `JV`).  `punct` on the tokens of a tree
is the tree written with its delimiters: `lexT`.
-/
import JsonV.Lemmas.CanonNest
import JsonV.Lemmas.GlueFormatLayout

namespace JsonV.Fmt
open JsonV.Canon JsonV.Lemmas.CanonNest

def sepLex (first : Bool) : List Lex := if first then [] else [.delim .comma]

mutual
/-- the lexemes of a value: its tokens with `,` between elements/members and `:` after names -/
def lexT : JV → List Lex
  | .atom k => [.tok k]
  | .arr es => .tok .ba :: (lexL true es ++ [.tok .ea])
  | .obj ms => .tok .bo :: (lexM true ms ++ [.tok .eo])
def lexL (first : Bool) : List JV → List Lex
  | [] => []
  | e :: es => sepLex first ++ (lexT e ++ lexL false es)
def lexM (first : Bool) : List (Bytes × JV) → List Lex
  | [] => []
  | (n, v) :: ms => sepLex first ++ (.tok (.str n) :: .delim .colon :: (lexT v ++ lexM false ms))
end

theorem step_scalar (f : Fr) (s : Stack) (k : Tok) (hk : atomOK k = true) :
    step (f :: s) k = (match f.value k.isStr with
      | some (d, f') => some (d, f' :: s)
      | none => none) := by
  cases k with
  | bo => simp [atomOK] at hk
  | eo => simp [atomOK] at hk
  | ba => simp [atomOK] at hk
  | ea => simp [atomOK] at hk
  | str raw => simp only [step, Tok.isStr]; cases f.value true <;> rfl
  | num raw => simp only [step, Tok.isStr]; cases f.value false <;> rfl
  | null => simp only [step, Tok.isStr]; cases f.value false <;> rfl
  | tru => simp only [step, Tok.isStr]; cases f.value false <;> rfl
  | fls => simp only [step, Tok.isStr]; cases f.value false <;> rfl

theorem isStrT_atom (k : Tok) : isStrT (.atom k) = k.isStr := by cases k <;> rfl

theorem punct_cons_some (st st' : Stack) (k : Tok) (ks : List Tok) (d : Option Delim) (h : step st k = some (d, st')) :
    punct st (k :: ks) = delimLex d ++ .tok k :: punct st' ks := by
  simp [punct, h]

mutual
theorem punctV : ∀ (t : JV), AtomsOK t = true → ∀ (f f' : Fr) (dl : Option Delim) (s : Stack) (rest : List Tok),
    f.value (isStrT t) = some (dl, f') → depthOK t s.length = true →
    punct (f :: s) (t.toks ++ rest) = delimLex dl ++ (lexT t ++ punct (f' :: s) rest)
  | .atom k, h, f, f', dl, s, rest, hv, _ => by
    simp only [AtomsOK] at h
    rw [isStrT_atom] at hv
    have hs : step (f :: s) k = some (dl, f' :: s) := by rw [step_scalar f s k h, hv]
    simp only [JV.toks, List.singleton_append, lexT]
    rw [punct_cons_some _ _ _ _ _ hs]
  | .arr es, h, f, f', dl, s, rest, hv, hd => by
    simp only [AtomsOK] at h
    simp only [depthOK, Bool.and_eq_true, decide_eq_true_eq] at hd
    simp only [isStrT] at hv
    have hs : step (f :: s) .ba = some (dl, .arr0 :: f' :: s) := by simp [step, hv, hd.1]
    have e : (JV.arr es).toks ++ rest = Tok.ba :: (toksL es ++ Tok.ea :: rest) := by simp [JV.toks]
    have := punctL es h true (f' :: s) rest (by simpa using hd.2)
    simp only [if_true] at this
    rw [e, punct_cons_some _ _ _ _ _ hs, this]
    simp [lexT]
  | .obj ms, h, f, f', dl, s, rest, hv, hd => by
    simp only [AtomsOK] at h
    simp only [depthOK, Bool.and_eq_true, decide_eq_true_eq] at hd
    simp only [isStrT] at hv
    have hs : step (f :: s) .bo = some (dl, .obj0 :: f' :: s) := by simp [step, hv, hd.1]
    have e : (JV.obj ms).toks ++ rest = Tok.bo :: (toksM ms ++ Tok.eo :: rest) := by simp [JV.toks]
    have := punctM ms h true (f' :: s) rest (by simpa using hd.2)
    simp only [if_true] at this
    rw [e, punct_cons_some _ _ _ _ _ hs, this]
    simp [lexT]
theorem punctL : ∀ (es : List JV), AtomsOKL es = true → ∀ (first : Bool) (s : Stack) (rest : List Tok),
    depthOKL es s.length = true →
    punct ((if first then Fr.arr0 else Fr.arrN) :: s) (toksL es ++ Tok.ea :: rest) =
      lexL first es ++ (.tok .ea :: punct s rest)
  | [], _, first, s, rest, _ => by
    have hs : step ((if first then Fr.arr0 else Fr.arrN) :: s) .ea = some (none, s) := by
      cases first <;> simp [step]
    simp only [toksL, List.nil_append, lexL]
    rw [punct_cons_some _ _ _ _ _ hs]; rfl
  | e :: es, h, first, s, rest, hd => by
    simp only [AtomsOKL, Bool.and_eq_true] at h
    simp only [depthOKL, Bool.and_eq_true] at hd
    have hv : (if first then Fr.arr0 else Fr.arrN).value (isStrT e) = some (if first then none else some .comma, .arrN) := by
      cases first <;> simp [Fr.value]
    have e1 : toksL (e :: es) ++ Tok.ea :: rest = e.toks ++ (toksL es ++ Tok.ea :: rest) := by simp [toksL]
    rw [e1, punctV e h.1 _ _ _ s _ hv hd.1]
    have := punctL es h.2 false s rest hd.2
    simp only [Bool.false_eq_true, if_false] at this
    rw [this]
    cases first <;> simp [lexL, sepLex, delimLex]
theorem punctM : ∀ (ms : List (Bytes × JV)), AtomsOKM ms = true → ∀ (first : Bool) (s : Stack) (rest : List Tok),
    depthOKM ms s.length = true →
    punct ((if first then Fr.obj0 else Fr.objV) :: s) (toksM ms ++ Tok.eo :: rest) =
      lexM first ms ++ (.tok .eo :: punct s rest)
  | [], _, first, s, rest, _ => by
    have hs : step ((if first then Fr.obj0 else Fr.objV) :: s) .eo = some (none, s) := by
      cases first <;> simp [step]
    simp only [toksM, List.nil_append, lexM]
    rw [punct_cons_some _ _ _ _ _ hs]; rfl
  | (n, v) :: ms, h, first, s, rest, hd => by
    simp only [AtomsOKM, Bool.and_eq_true] at h
    simp only [depthOKM, Bool.and_eq_true] at hd
    have hs : step ((if first then Fr.obj0 else Fr.objV) :: s) (.str n) =
        some (if first then none else some .comma, .objK :: s) := by
      cases first <;> simp [step, Fr.value]
    have hv : Fr.objK.value (isStrT v) = some (some .colon, .objV) := by simp [Fr.value]
    have e1 : toksM ((n, v) :: ms) ++ Tok.eo :: rest = Tok.str n :: (v.toks ++ (toksM ms ++ Tok.eo :: rest)) := by
      simp [toksM]
    rw [e1, punct_cons_some _ _ _ _ _ hs, punctV v h.1 _ _ _ s _ hv hd.1]
    have := punctM ms h.2 false s rest hd.2
    simp only [Bool.false_eq_true, if_false] at this
    rw [this]
    cases first <;> simp [lexM, sepLex, delimLex]
end

end JsonV.Fmt
