/-
Helper lemmas for C14, part 1: association lists, induction principles for the nested
inductives `JTree` / `GoType`, and basic facts about `merge` and `dupFree`.
-/
import JsonV.Model.Unmarshal

namespace JsonV.Lemmas.Merge
open JsonV JsonV.Spec JsonV.Model

/-! ### Association lists -/

section Assoc
variable {α : Type}

theorem nodupB_iff (l : List Bytes) : nodupB l = true ↔ l.Nodup := by
  induction l with
  | nil => simp [nodupB]
  | cons a r ih => simp [nodupB, ih, List.nodup_cons]

theorem akeys_cons (p : Bytes × α) (r : List (Bytes × α)) : akeys (p :: r) = p.1 :: akeys r := rfl

theorem akeys_append (a b : List (Bytes × α)) : akeys (a ++ b) = akeys a ++ akeys b := by
  simp [akeys]

theorem alookup_none_iff (n : Bytes) (ms : List (Bytes × α)) : alookup n ms = none ↔ n ∉ akeys ms := by
  induction ms with
  | nil => simp [alookup, akeys]
  | cons p r ih =>
    obtain ⟨k, v⟩ := p
    by_cases h : k = n
    · simp [alookup, akeys, h]
    · simp only [alookup, h, if_false, ih, akeys, List.map_cons, List.mem_cons]
      constructor
      · intro h1 h2; cases h2 with
        | inl e => exact h e.symm
        | inr e => exact h1 e
      · intro h1 h2; exact h1 (Or.inr h2)

theorem ahas_iff (n : Bytes) (ms : List (Bytes × α)) : ahas n ms = true ↔ n ∈ akeys ms := by
  unfold ahas
  cases h : alookup n ms with
  | none => simp [(alookup_none_iff n ms).1 h]
  | some v =>
    simp only [Option.isSome_some, true_iff]
    apply Classical.byContradiction
    intro hc
    rw [(alookup_none_iff n ms).2 hc] at h
    cases h

theorem ahas_false_iff (n : Bytes) (ms : List (Bytes × α)) : ahas n ms = false ↔ n ∉ akeys ms := by
  rw [← ahas_iff]; cases ahas n ms <;> simp

theorem alookup_mem {n : Bytes} {v : α} {ms : List (Bytes × α)} (h : alookup n ms = some v) : (n, v) ∈ ms := by
  induction ms with
  | nil => simp [alookup] at h
  | cons p r ih =>
    obtain ⟨k, w⟩ := p
    by_cases hk : k = n
    · simp [alookup, hk] at h; subst h; subst hk; exact List.mem_cons_self
    · simp [alookup, hk] at h; exact List.mem_cons_of_mem _ (ih h)

theorem mem_akeys_of_mem {n : Bytes} {v : α} {ms : List (Bytes × α)} (h : (n, v) ∈ ms) : n ∈ akeys ms := by
  unfold akeys; exact List.mem_map.2 ⟨(n, v), h, rfl⟩

theorem alookup_of_mem {n : Bytes} {v : α} {ms : List (Bytes × α)} (hnd : (akeys ms).Nodup) (h : (n, v) ∈ ms) :
    alookup n ms = some v := by
  induction ms with
  | nil => cases h
  | cons p r ih =>
    obtain ⟨k, w⟩ := p
    rw [akeys_cons, List.nodup_cons] at hnd
    cases List.mem_cons.1 h with
    | inl e => cases e; simp [alookup]
    | inr e =>
      have : k ≠ n := by
        intro hk; subst hk; exact hnd.1 (mem_akeys_of_mem e)
      simp [alookup, this, ih hnd.2 e]

theorem alookup_aset_same (n : Bytes) (v : α) (m : List (Bytes × α)) : alookup n (aset n v m) = some v := by
  induction m with
  | nil => simp [aset, alookup]
  | cons p r ih =>
    obtain ⟨k, w⟩ := p
    by_cases hk : k = n
    · simp [aset, hk, alookup]
    · simp [aset, hk, alookup, ih]

theorem alookup_aset_ne {k n : Bytes} (h : k ≠ n) (v : α) (m : List (Bytes × α)) :
    alookup n (aset k v m) = alookup n m := by
  induction m with
  | nil => simp [aset, alookup, h]
  | cons p r ih =>
    obtain ⟨k', w⟩ := p
    by_cases hk : k' = k
    · subst hk; simp [aset, alookup, h]
    · by_cases hn : k' = n
      · subst hn; simp [aset, hk, alookup]
      · simp [aset, hk, alookup, hn, ih]

theorem akeys_aset (n : Bytes) (v : α) (m : List (Bytes × α)) :
    akeys (aset n v m) = if (akeys m).contains n then akeys m else akeys m ++ [n] := by
  induction m with
  | nil => simp [aset, akeys]
  | cons p r ih =>
    obtain ⟨k, w⟩ := p
    by_cases hk : k = n
    · subst hk; simp [aset, akeys]
    · have hk' : ¬ n = k := fun e => hk e.symm
      simp only [aset, hk, if_false, akeys_cons, ih, List.contains_cons]
      have : (n == k) = false := by simp [hk']
      rw [this, Bool.false_or]
      split <;> simp

theorem nodup_akeys_aset (n : Bytes) (v : α) (m : List (Bytes × α)) (h : (akeys m).Nodup) :
    (akeys (aset n v m)).Nodup := by
  rw [akeys_aset]
  split
  · exact h
  · rename_i hc
    simp only [List.contains_iff_mem] at hc
    rw [List.nodup_append]
    refine ⟨h, by simp, ?_⟩
    intro a ha b hb
    simp at hb; subst hb
    intro e; subst e; simp_all

/-- Extensionality for association lists with the same key sequence. -/
theorem aext {a b : List (Bytes × α)} (hk : akeys a = akeys b) (hnd : (akeys a).Nodup)
    (hl : ∀ n, alookup n a = alookup n b) : a = b := by
  induction a generalizing b with
  | nil =>
    cases b with
    | nil => rfl
    | cons q s => simp [akeys] at hk
  | cons p r ih =>
    cases b with
    | nil => simp [akeys] at hk
    | cons q s =>
      obtain ⟨k, v⟩ := p
      obtain ⟨k', v'⟩ := q
      simp only [akeys_cons, List.cons.injEq] at hk
      obtain ⟨hk1, hk2⟩ := hk
      subst hk1
      rw [akeys_cons, List.nodup_cons] at hnd
      have hv : v = v' := by
        have := hl k
        simpa [alookup] using this
      subst hv
      congr 1
      apply ih hk2 hnd.2
      intro n
      by_cases hn : k = n
      · subst hn
        rw [(alookup_none_iff k r).2 hnd.1, (alookup_none_iff k s).2 (hk2 ▸ hnd.1)]
      · have := hl n
        simpa [alookup, hn] using this

end Assoc

/-! ### Induction principles for the nested inductives -/

/-- Structural induction on trees with membership-style hypotheses. -/
theorem JTree.induct {P : JTree → Prop}
    (hnull : P .null) (hbool : ∀ b, P (.bool b)) (hnum : ∀ l, P (.num l)) (hstr : ∀ s, P (.str s))
    (harr : ∀ xs, (∀ x ∈ xs, P x) → P (.arr xs))
    (hobj : ∀ ms : List (Bytes × JTree), (∀ n x, (n, x) ∈ ms → P x) → P (.obj ms)) : ∀ j, P j := by
  intro j
  refine JTree.rec (motive_1 := P) (motive_2 := fun xs => ∀ x ∈ xs, P x)
    (motive_3 := fun ms => ∀ n x, (n, x) ∈ ms → P x) (motive_4 := fun p => P p.2)
    hnull hbool hnum hstr harr hobj ?_ ?_ ?_ ?_ ?_ j
  · intro x hx; cases hx
  · intro h t ih1 ih2 x hx
    cases List.mem_cons.1 hx with
    | inl e => exact e ▸ ih1
    | inr e => exact ih2 x e
  · intro n x hx; cases hx
  · intro h t ih1 ih2 n x hx
    cases List.mem_cons.1 hx with
    | inl e => subst e; exact ih1
    | inr e => exact ih2 n x e
  · intro _ _ ih; exact ih

/-- Structural induction on types with a membership-style hypothesis for struct fields. -/
theorem GoType.induct {P : GoType → Prop}
    (hbool : P .bool) (hint : ∀ b, P (.int b)) (huint : ∀ b, P (.uint b)) (hfloat : P .float64)
    (hstring : P .string) (hslice : ∀ t, P t → P (.slice t)) (harray : ∀ n t, P t → P (.array n t))
    (hmap : ∀ t, P t → P (.map t)) (hptr : ∀ t, P t → P (.ptr t))
    (hstruct : ∀ fs : List (Bytes × GoType), (∀ n t, (n, t) ∈ fs → P t) → P (.struct fs))
    (hany : P .any) : ∀ T, P T := by
  intro T
  refine GoType.rec (motive_1 := P) (motive_2 := fun fs => ∀ n t, (n, t) ∈ fs → P t)
    (motive_3 := fun p => P p.2)
    hbool hint huint hfloat hstring hslice harray hmap hptr hstruct hany ?_ ?_ ?_ T
  · intro n x hx; cases hx
  · intro h t ih1 ih2 n x hx
    cases List.mem_cons.1 hx with
    | inl e => subst e; exact ih1
    | inr e => exact ih2 n x e
  · intro _ _ ih; exact ih

end JsonV.Lemmas.Merge
