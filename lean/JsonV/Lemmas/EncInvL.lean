/-
Helper lemmas for C02: a successful scan is not disturbed by what follows it ("locality"),
provided — for numbers, which are scanned greedily — that what follows starts with a delimiter.
-/
import JsonV.Spec.ValidJson

namespace JsonV.Lemmas.EncInvL
open JsonV JsonV.Spec.ValidJson

/-- `r` is empty or starts with one of `,` `]` `}` `:` (what the encoder writes after a value). -/
def okFollow (r : Bytes) : Prop := ∀ c, r.head? = some c → (c = 0x2c ∨ c = 0x5d ∨ c = 0x7d ∨ c = 0x3a)

theorem okFollow_nil : okFollow [] := by intro c h; simp at h
theorem okFollow_comma (r : Bytes) : okFollow (0x2c :: r) := by intro c h; simp at h; simp [← h]
theorem okFollow_rbracket (r : Bytes) : okFollow (0x5d :: r) := by intro c h; simp at h; simp [← h]
theorem okFollow_rbrace (r : Bytes) : okFollow (0x7d :: r) := by intro c h; simp at h; simp [← h]

private theorem follow_cases {r : Bytes} (h : okFollow r) :
    r = [] ∨ ∃ c r', r = c :: r' ∧ (c = 0x2c ∨ c = 0x5d ∨ c = 0x7d ∨ c = 0x3a) := by
  cases r with
  | nil => exact .inl rfl
  | cons c r' => exact .inr ⟨c, r', rfl, h c rfl⟩

/-! ### numbers -/

theorem dropDigits_append {s t r : Bytes} (h : dropDigits s = t) (hr : t = [] → okFollow r) :
    dropDigits (s ++ r) = t ++ r := by
  induction s generalizing t with
  | nil =>
    simp [dropDigits] at h
    subst h
    rcases follow_cases (hr rfl) with rfl | ⟨c, r', rfl, hc⟩
    · simp [dropDigits]
    · rcases hc with rfl | rfl | rfl | rfl <;> simp [dropDigits, isDigit] <;> decide
  | cons c s ih =>
    simp only [dropDigits, List.cons_append] at h ⊢
    split at h
    · rename_i hd; simp only [hd, if_true]; exact ih h hr
    · rename_i hd; simp only [hd]; subst h; simp

theorem pExpDigits_append {s t r : Bytes} (h : pExpDigits s = some t) (hr : t = [] → okFollow r) :
    pExpDigits (s ++ r) = some (t ++ r) := by
  cases s with
  | nil => simp [pExpDigits] at h
  | cons c s =>
    simp only [pExpDigits, List.cons_append] at h ⊢
    split at h
    · rename_i hd; simp only [hd, if_true]; simp at h; rw [dropDigits_append h hr]
    · simp at h

private theorem head_not (r : Bytes) (hr : okFollow r) (x : UInt8)
    (hx : x ≠ 0x2c ∧ x ≠ 0x5d ∧ x ≠ 0x7d ∧ x ≠ 0x3a) : ∀ r', r ≠ x :: r' := by
  intro r' h
  have := hr x (by simp [h])
  rcases this with h | h | h | h <;> simp_all

theorem pExp_append {s t r : Bytes} (h : pExp s = some t) (hr : t = [] → okFollow r) :
    pExp (s ++ r) = some (t ++ r) := by
  cases s with
  | nil =>
    simp [pExp] at h; subst h
    rcases follow_cases (hr rfl) with rfl | ⟨c, r', rfl, hc⟩
    · simp [pExp]
    · rcases hc with rfl | rfl | rfl | rfl <;> simp [pExp]
  | cons c s =>
    simp only [pExp, List.cons_append] at h ⊢
    split at h
    · rename_i hc; simp only [hc, if_true]
      cases s with
      | nil => simp at h
      | cons c1 s1 =>
        simp only [List.cons_append] at h ⊢
        split at h
        · rename_i h1; simp only [h1, if_true]; exact pExpDigits_append h hr
        · rename_i h1; simp only [h1, if_false]
          have := pExpDigits_append (s := c1 :: s1) h hr
          simpa using this
    · rename_i hc; simp only [hc, if_false]; simp at h; subst h; simp

theorem pFrac_append {s t r : Bytes} (h : pFrac s = some t) (hr : t = [] → okFollow r) :
    pFrac (s ++ r) = some (t ++ r) := by
  cases s with
  | nil =>
    simp [pFrac] at h; subst h
    rcases follow_cases (hr rfl) with rfl | ⟨c, r', rfl, hc⟩
    · simp [pFrac]
    · rcases hc with rfl | rfl | rfl | rfl <;> simp [pFrac]
  | cons c s =>
    simp only [pFrac, List.cons_append] at h ⊢
    split at h
    · rename_i hc; simp only [hc, if_true]
      cases s with
      | nil => simp at h
      | cons c1 s1 =>
        simp only [List.cons_append] at h ⊢
        split at h
        · rename_i h1; simp only [h1, if_true]; simp at h; rw [dropDigits_append h hr]
        · simp at h
    · rename_i hc; simp only [hc, if_false]; simp at h; subst h; simp

theorem pInt_append {s t r : Bytes} (h : pInt s = some t) (hr : t = [] → okFollow r) :
    pInt (s ++ r) = some (t ++ r) := by
  cases s with
  | nil => simp [pInt] at h
  | cons c s =>
    simp only [pInt, List.cons_append] at h ⊢
    split at h
    · rename_i hc; simp only [hc, if_true]; simp at h; subst h; rfl
    · rename_i hc; simp only [hc, if_false]
      split at h
      · rename_i hd; simp only [hd, if_true]; simp at h; rw [dropDigits_append h hr]
      · simp at h

/-- A scan that stops before the end leaves a non-empty rest, which stays non-empty. -/
theorem pNumber_append {s t r : Bytes} (h : pNumber s = some t) (hr : t = [] → okFollow r) :
    pNumber (s ++ r) = some (t ++ r) := by
  unfold pNumber at h ⊢
  -- the sign
  have key : ∀ s1 : Bytes, ((pInt s1).bind fun s2 => (pFrac s2).bind pExp) = some t →
      ((pInt (s1 ++ r)).bind fun s2 => (pFrac s2).bind pExp) = some (t ++ r) := by
    intro s1 h1
    cases hi : pInt s1 with
    | none => simp [hi] at h1
    | some s2 =>
      simp only [hi, Option.bind_some] at h1
      cases hf : pFrac s2 with
      | none => simp [hf] at h1
      | some s3 =>
        simp only [hf, Option.bind_some] at h1
        -- h1 : pExp s3 = some t
        have e3 := pExp_append h1 hr
        have hr3 : s3 = [] → okFollow r := by
          intro h3; subst h3
          have : t = [] := by simpa [pExp, eq_comm] using h1
          exact hr this
        have e2 := pFrac_append hf hr3
        have hr2 : s2 = [] → okFollow r := by
          intro h2; subst h2
          have : s3 = [] := by simpa [pFrac, eq_comm] using hf
          exact hr3 this
        have e1 := pInt_append hi hr2
        simp [e1, e2, e3]
  cases s with
  | nil => simp [pInt] at h
  | cons c s' =>
    simp only [List.cons_append] at h ⊢
    by_cases hc : c = 0x2d
    · simp only [hc, if_true] at h ⊢; exact key s' h
    · simp only [hc, if_false] at h ⊢
      have := key (c :: s') h
      simpa using this

/-! ### literals -/

theorem lit_append {w s t r : Bytes} (h : lit w s = some t) : lit w (s ++ r) = some (t ++ r) := by
  unfold lit at h ⊢
  split at h
  · rename_i hp
    simp at h; subst h
    have hp' : w <+: s := List.isPrefixOf_iff_prefix.mp hp
    have : w.isPrefixOf (s ++ r) = true :=
      List.isPrefixOf_iff_prefix.mpr (hp'.trans (List.prefix_append s r))
    simp only [this, if_true]
    rw [List.drop_append_of_le_length hp'.length_le]
  · simp at h

/-! ### strings -/

theorem utf8Len_append (c : UInt8) (s x : Bytes) (n : Nat) (h : utf8Len c s = some n) :
    n ≤ s.length ∧ utf8Len c (s ++ x) = some n := by
  unfold utf8Len at h ⊢
  cases hl : Model.Utf8.leadInfo c.toNat with
  | none => simp [hl] at h
  | some p =>
    obtain ⟨sz, lo, hi⟩ := p
    simp only [hl] at h ⊢
    rcases s with _ | ⟨b1, r1⟩
    · simp at h
    · simp only [List.cons_append] at h ⊢
      split at h
      · simp at h
      · rename_i h1; simp only [h1]
        split at h
        · rename_i h2; simp at h; subst h; simp [h2]
        · rename_i h2; simp only [h2]
          rcases r1 with _ | ⟨b2, r2⟩
          · simp at h
          · simp only [List.cons_append] at h ⊢
            split at h
            · simp at h
            · rename_i h3; simp only [h3]
              split at h
              · rename_i h4; simp at h; subst h; simp [h4]
              · rename_i h4; simp only [h4]
                rcases r2 with _ | ⟨b3, r3⟩
                · simp at h
                · simp only [List.cons_append] at h ⊢
                  split at h
                  · simp at h
                  · rename_i h5; simp at h; subst h; simp [h5]

theorem strBody_append (st : Bool) (s : Bytes) (r : Bytes) :
    ∀ t, strBody st s = some t → strBody st (s ++ r) = some (t ++ r) := by
  fun_induction strBody st s <;> intro t h
  all_goals try (simp_all; done)
  all_goals
    simp only [List.cons_append]
    rw [strBody.eq_def]
    first
    | (simp_all; done)
    | (have hh := utf8Len_append _ _ r _ ‹utf8Len _ _ = some _›
       simp [*, hh.2, List.drop_append_of_le_length hh.1])
    | (cases st <;> simp_all)

/-! ### values -/

/-- Locality of the recogniser: a successful parse is not disturbed by a suffix, provided that a parse which
consumed everything (and may therefore have ended inside a number) is followed by a delimiter. -/
theorem parse_append (o : Opt) (m : Mode) (d : Nat) (s r : Bytes) :
    ∀ t, parse o m d s = some t → (t = [] → okFollow r) → parse o m d (s ++ r) = some (t ++ r) := by
  fun_induction parse o m d s <;> intro t h hr
  all_goals try (simp_all; done)
  case case2 => -- string
    simp only [List.cons_append]; unfold parse; simp [strBody_append _ _ r _ h]
  case case4 => -- []
    simp at h; subst h; simp only [List.cons_append]; rw [parse]; simp [*]
  case case5 ih => -- [ elems
    simp only [List.cons_append]; rw [parse]; simp [*]
    have := ih t h hr; simpa using this
  case case8 =>
    simp at h; subst h; simp only [List.cons_append]; rw [parse]; simp [*]
  case case9 ih =>
    simp only [List.cons_append]; rw [parse]; simp [*]
    have := ih t h hr; simpa using this
  case case11 => simp only [List.cons_append]; unfold parse; simp [lit_append h]
  case case12 => simp only [List.cons_append]; unfold parse; simp [lit_append h]
  case case13 => simp only [List.cons_append]; unfold parse; simp [lit_append h]
  case case14 =>
    simp only [List.cons_append]; unfold parse; simp [*]
    have := pNumber_append h hr; simpa using this
  case case15 d0 s0 r0 hlen hx ihv ihe =>
    rw [parse]
    have e := ihv _ hx (by simp)
    simp only [e, List.cons_append]
    have : (r0 ++ r).length < (s0 ++ r).length := by simp only [List.length_append]; omega
    simp [hlen, ihe t h hr]
  case case16 d0 s0 r0 hlen hx hne ihv =>
    simp at h; subst h
    rw [parse]
    have e := ihv _ hx (by simp)
    simp only [e, List.cons_append]
    have : (r0 ++ r).length < (s0 ++ r).length := by simp only [List.length_append]; omega
    simp [hlen]
  case case22 seen d0 r0 c r1 hx1 hc r2 hlen2 k hk hx2 ihv ihm =>
    have e1 := strBody_append o.strict r0 r _ hx1
    have e2 := ihv _ hx2 (by simp)
    have e3 := ihm t h hr
    have hk' : List.take (r0.length + r.length - (r1.length + r.length)) (34 :: (r0 ++ r))
        = List.take (r0.length - r1.length) (34 :: r0) := by
      have : r0.length + r.length - (r1.length + r.length) = r0.length - r1.length := by omega
      rw [this, ← List.cons_append, List.take_append_of_le_length (by simp; omega)]
    simp only [List.cons_append]; unfold parse
    simp [e1, e2, hc, hlen2]
    rw [hk']
    exact ⟨by simpa using hk, e3⟩
  case case23 seen d0 r0 c r1 hx1 hc r2 hlen2 k hk hx2 hne ihv =>
    simp at h; subst h
    have e1 := strBody_append o.strict r0 r _ hx1
    have e2 := ihv _ hx2 (by simp)
    have hk' : List.take (r0.length + r.length - (r1.length + r.length)) (34 :: (r0 ++ r))
        = List.take (r0.length - r1.length) (34 :: r0) := by
      have : r0.length + r.length - (r1.length + r.length) = r0.length - r1.length := by omega
      rw [this, ← List.cons_append, List.take_append_of_le_length (by simp; omega)]
    simp only [List.cons_append]; unfold parse
    simp [e1, e2, hc, hlen2]
    rw [hk']
    simpa using hk

end JsonV.Lemmas.EncInvL
