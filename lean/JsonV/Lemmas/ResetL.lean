/-
Lemmas for C18: the intern cache is transparent and keeps its invariant; the cycle tracker
is balanced on every exit path; a coder step refines the survivor-free step.
-/
import JsonV.Model.Reset

set_option linter.unusedSimpArgs false

namespace JsonV.Lemmas.ResetL
open JsonV JsonV.Model JsonV.Model.Reset JsonV.Model.Intern

/-! ### intern cache -/

theorem makeString_fst (c : Cache) (b : Bytes) : (makeString c b).1 = b := by
  unfold makeString
  split
  · rfl
  · simp only
    split
    · assumption
    · rfl

theorem runAll_fst (c : Cache) (bs : List Bytes) : (runAll c bs).1 = bs := by
  induction bs generalizing c with
  | nil => rfl
  | cons b bs ih => simp [runAll, makeString_fst, ih]

theorem inv_empty : Inv Cache.empty := by
  intro i
  left
  simp [Cache.empty]

theorem makeString_inv (c : Cache) (b : Bytes) (h : Inv c) : Inv (makeString c b).2 := by
  unfold makeString
  split
  · exact h
  · rename_i hc
    simp only
    split
    · exact h
    · intro j
      by_cases hj : (slot b : Nat) = j
      · right
        have : (c.set (slot b) b)[j] = b := by
          simp [hj]
        rw [this]
        refine ⟨by simpa using hc, ?_⟩
        exact Fin.ext hj
      · have : (c.set (slot b) b)[j] = c[j] := by
          simp [hj]
        rw [this]
        exact h j

theorem runAll_inv (c : Cache) (bs : List Bytes) (h : Inv c) : Inv (runAll c bs).2 := by
  induction bs generalizing c with
  | nil => exact h
  | cons b bs ih =>
    simp only [runAll]
    exact ih _ (makeString_inv c b h)

/-! ### cycle tracker -/

theorem filter_cons_self (p : Nat) (seen : List Nat) (h : p ∉ seen) :
    (p :: seen).filter (· != p) = seen := by
  simp only [List.filter_cons, bne_self_eq_false, Bool.false_eq_true, ↓reduceIte]
  rw [List.filter_eq_self]
  intro a ha
  simp only [bne_iff_ne, ne_eq]
  intro e
  exact h (e ▸ ha)

mutual
theorem marshal_seen (ca : Nat) : ∀ (v : GoVal) (depth : Nat) (seen : List Nat),
    (marshal ca depth seen v).2 = seen
  | .leaf e, d, s => by simp [marshal]
  | .node p kids, d, s => by
    unfold marshal
    split
    · split
      · rfl
      · rename_i hp
        simp only
        rw [marshalKids_seen ca kids]
        exact filter_cons_self p s hp
    · exact marshalKids_seen ca kids _ _
theorem marshalKids_seen (ca : Nat) : ∀ (ks : List GoVal) (depth : Nat) (seen : List Nat),
    (marshalKids ca depth seen ks).2 = seen
  | [], d, s => by simp [marshalKids]
  | k :: ks, d, s => by
    unfold marshalKids
    simp only
    split
    · rw [marshal_seen ca k]
      exact marshalKids_seen ca ks d s
    · exact marshal_seen ca k d s
end

/-! ### a coder step refines the survivor-free step -/

theorem core_growSurv (c : Coder) : (growSurv c).core = c.core := rfl
theorem seen_growSurv (c : Coder) : (growSurv c).surv.seen = c.surv.seen := rfl

/-- With an empty cycle set, one step of the coder yields the result of the survivor-free
step on its core, moves the core the same way, and leaves the cycle set empty. -/
theorem step_refines (P : Params) (c : Coder) (op : Op) (hs : c.surv.seen = []) :
    (step P c op).2 = (stepC P c.core op).2 ∧
    (step P c op).1.core = (stepC P c.core op).1 ∧
    (step P c op).1.surv.seen = [] := by
  obtain ⟨m, names, nss, off, fl, flo, sv⟩ := c
  simp only at hs
  cases op with
  | literal =>
    simp only [step, stepC, Coder.core]
    cases h : m.appendLiteral <;> simp [done, doneC, growSurv, Coder.core, hs]
  | number =>
    simp only [step, stepC, Coder.core]
    cases h : m.appendNumber <;> simp [done, doneC, growSurv, Coder.core, hs]
  | pushArray =>
    simp only [step, stepC, Coder.core]
    cases h : m.pushArray P.maxDepth <;> simp [done, doneC, growSurv, Coder.core, hs]
  | popArray =>
    simp only [step, stepC, Coder.core]
    by_cases hfl : blockedArr m flo = true
    · simp [hfl, Coder.core, hs]
    · simp only [hfl, Bool.false_eq_true, ↓reduceIte]
      cases h : m.popArray <;> simp [done, doneC, growSurv, Coder.core, hs]
  | enterUser => simp [step, stepC, Coder.core, hs]
  | leaveUser prev => simp [step, stepC, Coder.core, hs]
  | pushObject =>
    simp only [step, stepC, Coder.core]
    by_cases hf : fl.get allowDupBit = true <;>
      cases h : m.pushObject P.maxDepth <;> simp [done, doneC, growSurv, Coder.core, hs, Coder.allowDup, allowDupK, hf]
  | popObject =>
    simp only [step, stepC, Coder.core]
    by_cases hfl : blockedObj m flo = true
    · simp [hfl, Coder.core, hs]
    · simp only [hfl, Bool.false_eq_true, ↓reduceIte]
      by_cases hf : fl.get allowDupBit = true <;>
        cases h : m.popObject <;> simp [done, doneC, growSurv, Coder.core, hs, Coder.allowDup, allowDupK, hf]
  | string s =>
    simp only [step, stepC, Coder.core, Coder.allowDup, allowDupK, makeString_fst]
    by_cases hc : (m.last.needObjectName && !fl.get allowDupBit) = true
    · simp only [hc, ↓reduceIte]
      cases hn : nss.getLast? with
      | none => simp [Coder.core, hs]
      | some ns =>
        simp only
        by_cases hd : s ∈ ns
        · simp [hd, Coder.core, hs]
        · simp only [hd, ↓reduceIte]
          cases h : m.appendString <;> simp [done, doneC, growSurv, Coder.core, hs]
    · simp only [hc, Bool.false_eq_true, ↓reduceIte]
      cases h : m.appendString <;> simp [done, doneC, growSurv, Coder.core, hs]
  | value v =>
    simp only [step, stepC, Coder.core]
    cases h : m.appendLiteral with
    | error e => simp [Coder.core, hs]
    | ok m' =>
      simp only [hs, marshal_seen]
      by_cases hw : (marshal P.cycleAfter m.depth [] v).fst = MExit.ok <;>
        simp [hw, done, doneC, growSurv, Coder.core]

/-- `behaviour` of a coder with an empty cycle set is the survivor-free behaviour of its core. -/
theorem behaviour_refines (P : Params) (ops : List Op) : ∀ (c : Coder), c.surv.seen = [] →
    behaviour P c ops = behaviourC P c.core ops := by
  induction ops with
  | nil => intro c _; rfl
  | cons op ops ih =>
    intro c hs
    obtain ⟨h1, h2, h3⟩ := step_refines P c op hs
    simp only [behaviour, behaviourC]
    rw [h1, ih _ h3, h2]

theorem reachable_seen (P : Params) (c : Coder) (h : Reachable P c) : c.surv.seen = [] := by
  induction h with
  | fresh f => rfl
  | step op _ ih => exact (step_refines P _ op ih).2.2
  | reset f _ ih => exact ih

theorem core_reset (c : Coder) (f : Flags) : (reset c f).core = (fresh f).core := rfl

end JsonV.Lemmas.ResetL
