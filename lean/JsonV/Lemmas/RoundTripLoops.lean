/-
Helper lemmas for the L3 round trip (C04L3), part 2: the element loop (slices, arrays) and the
member loop of maps, generically in the element encoder/decoder.
-/
import JsonV.Lemmas.RoundTripBase

namespace JsonV.Lemmas.RoundTrip
open JsonV JsonV.Spec JsonV.Model JsonV.Lemmas.Merge

/-- Round trip of ONE value through an encoder/decoder pair: the decoder, started from its zero
value `z`, accepts what the encoder wrote, yields a value that is again of the type and encodes to
the same tree; if the original is `safe`, the decoded value is related to it by `veq`. -/
def RT1 (o : MOpts) (menc : Enc) (mdec : Dec) (z : GoVal) (ty : GoVal → Bool) (v : GoVal) : Prop :=
  ∀ j, ty v = true → menc v = .ok j →
    ∃ v', mdec j z = .ok v' ∧ (safe o v = true → veq v v') ∧ menc v' = .ok j ∧ ty v' = true

/-! ### Elements -/

theorem rt_list {o : MOpts} {menc : Enc} {mdec : Dec} {z : GoVal} {ty : GoVal → Bool} (vs : List GoVal)
    (H : ∀ v ∈ vs, RT1 o menc mdec z ty v) (hty : ∀ v ∈ vs, ty v = true)
    (js : List JTree) (hm : marList menc vs = .ok js) :
    ∃ ws, elemsFresh mdec z js = .ok ws ∧ ((∀ v ∈ vs, safe o v = true) → veqL vs ws) ∧ marList menc ws = .ok js ∧
      (∀ w ∈ ws, ty w = true) ∧ ws.length = vs.length ∧ js.length = vs.length := by
  induction vs generalizing js with
  | nil =>
    simp only [marList, Except.ok.injEq] at hm
    subst hm
    exact ⟨[], rfl, (by intro _; simp [veqL]), rfl, (by intro w hw; cases hw), rfl, rfl⟩
  | cons v r ih =>
    simp only [marList] at hm
    cases hv : menc v with
    | error e => simp [hv] at hm
    | ok j =>
      simp only [hv] at hm
      cases hr : marList menc r with
      | error e => simp [hr] at hm
      | ok jr =>
        simp only [hr, Except.ok.injEq] at hm
        subst hm
        obtain ⟨v', hd, hq, he, ht⟩ := H v List.mem_cons_self j (hty v List.mem_cons_self) hv
        obtain ⟨ws, h1, h2, h3, h4, h5, h6⟩ := ih (fun x hx => H x (List.mem_cons_of_mem _ hx))
          (fun x hx => hty x (List.mem_cons_of_mem _ hx)) jr hr
        refine ⟨v' :: ws, ?_, ?_, ?_, ?_, by simp [h5], by simp [h6]⟩
        · simp only [elemsFresh, hd, h1]
        · intro hs; simp only [veqL]
          exact ⟨hq (hs v List.mem_cons_self), h2 (fun x hx => hs x (List.mem_cons_of_mem _ hx))⟩
        · simp only [marList, he, h3]
        · intro w hw
          cases List.mem_cons.1 hw with
          | inl e => subst e; exact ht
          | inr e => exact h4 w e

theorem arrayElems_eq (f : Dec) (z : GoVal) (js : List JTree) : arrayElems f z js.length js = elemsFresh f z js := by
  induction js with
  | nil => rfl
  | cons j r ih => simp only [List.length_cons, arrayElems, elemsFresh, ih]

/-! ### Members of maps -/

theorem marMembers_spec {menc : Enc} {ms : List (Bytes × GoVal)} {mem : List (Bytes × JTree)}
    (h : marMembers menc ms = .ok mem) :
    akeys mem = akeys ms ∧
    (∀ k j, (k, j) ∈ mem → ∃ v, (k, v) ∈ ms ∧ menc v = .ok j) ∧
    (∀ k v, (k, v) ∈ ms → Utf8.valid k = true ∧ ∃ j, (k, j) ∈ mem ∧ menc v = .ok j) := by
  induction ms generalizing mem with
  | nil =>
    simp only [marMembers, Except.ok.injEq] at h
    subst h
    exact ⟨rfl, (by intro k j hm; cases hm), (by intro k v hm; cases hm)⟩
  | cons p r ih =>
    obtain ⟨k, v⟩ := p
    simp only [marMembers] at h
    split at h
    · rename_i hk
      cases hv : menc v with
      | error e => simp [hv] at h
      | ok j =>
        simp only [hv] at h
        cases hr : marMembers menc r with
        | error e => simp [hr] at h
        | ok mr =>
          simp only [hr, Except.ok.injEq] at h
          subst h
          obtain ⟨h1, h2, h3⟩ := ih hr
          refine ⟨by simp [akeys_cons, h1], ?_, ?_⟩
          · intro k' j' hm
            cases List.mem_cons.1 hm with
            | inl e => cases e; exact ⟨v, List.mem_cons_self, hv⟩
            | inr e => obtain ⟨v', hv', he⟩ := h2 k' j' e; exact ⟨v', List.mem_cons_of_mem _ hv', he⟩
          · intro k' v' hm
            cases List.mem_cons.1 hm with
            | inl e => cases e; exact ⟨hk, j, List.mem_cons_self, hv⟩
            | inr e =>
              obtain ⟨hk', j', hj', he⟩ := h3 k' v' e
              exact ⟨hk', j', List.mem_cons_of_mem _ hj', he⟩
    · cases h

/-- Conversely, `marMembers` succeeds when every key is valid and every value encodes. -/
theorem marMembers_total {menc : Enc} (ms : List (Bytes × GoVal))
    (h : ∀ k v, (k, v) ∈ ms → Utf8.valid k = true ∧ ∃ j, menc v = .ok j) : ∃ mem, marMembers menc ms = .ok mem := by
  induction ms with
  | nil => exact ⟨[], rfl⟩
  | cons p r ih =>
    obtain ⟨k, v⟩ := p
    obtain ⟨hk, j, hj⟩ := h k v List.mem_cons_self
    obtain ⟨mr, hr⟩ := ih (fun k' v' hm => h k' v' (List.mem_cons_of_mem _ hm))
    exact ⟨(k, j) :: mr, by simp [marMembers, hk, hj, hr]⟩

theorem aset_new {α : Type} (k : Bytes) (v : α) (m : List (Bytes × α)) (h : k ∉ akeys m) : aset k v m = m ++ [(k, v)] := by
  induction m with
  | nil => rfl
  | cons p r ih =>
    obtain ⟨k', w⟩ := p
    rw [akeys_cons, List.mem_cons, not_or] at h
    have : ¬ k' = k := fun e => h.1 e.symm
    simp [aset, this, ih h.2]

/-- Decoding a duplicate-free member list `L` into a FRESH map: every member is decoded into the zero
value and appended; the resulting association list is aligned with `L`. -/
theorem rt_members {menc : Enc} {mdec : Dec} {z : GoVal} {ty : GoVal → Bool} (L : List (Bytes × JTree))
    (hnd : (akeys L).Nodup)
    (H : ∀ k j, (k, j) ∈ L → Utf8.valid k = true ∧ ∃ w, mdec j z = .ok w ∧ menc w = .ok j ∧ ty w = true) :
    ∃ m', (∀ acc seen, (∀ k ∈ akeys L, k ∉ akeys acc) → (∀ k ∈ akeys L, k ∉ seen) →
            objFold (fun _ => some mdec) (fun _ => z) L seen acc = .ok (acc ++ m')) ∧
      akeys m' = akeys L ∧ marMembers menc m' = .ok L ∧
      (∀ k j, (k, j) ∈ L → ∃ w, (k, w) ∈ m' ∧ mdec j z = .ok w) ∧
      (∀ k w, (k, w) ∈ m' → Utf8.valid k = true ∧ ty w = true) := by
  induction L with
  | nil =>
    refine ⟨[], ?_, rfl, rfl, (by intro k j hm; cases hm), (by intro k w hm; cases hm)⟩
    intro acc seen _ _; simp [objFold]
  | cons p r ih =>
    obtain ⟨k, j⟩ := p
    rw [akeys_cons, List.nodup_cons] at hnd
    obtain ⟨hk, w, hw, he, ht⟩ := H k j List.mem_cons_self
    obtain ⟨mr, h1, h2, h3, h4, h5⟩ := ih hnd.2 (fun k' j' hm => H k' j' (List.mem_cons_of_mem _ hm))
    refine ⟨(k, w) :: mr, ?_, by simp [akeys_cons, h2], by simp [marMembers, hk, he, h3], ?_, ?_⟩
    · intro acc seen hacc hseen
      have hka : k ∉ akeys acc := hacc k (by rw [akeys_cons]; exact List.mem_cons_self)
      have hks : seen.contains k = false := by
        have := hseen k (by rw [akeys_cons]; exact List.mem_cons_self)
        simpa using this
      simp only [objFold, hks, Bool.false_eq_true, if_false, (alookup_none_iff k acc).2 hka, Option.getD_none, hw]
      rw [aset_new k w acc hka, h1]
      · simp
      · intro k' hk' hc
        rw [akeys_append, List.mem_append] at hc
        cases hc with
        | inl hc => exact hacc k' (by rw [akeys_cons]; exact List.mem_cons_of_mem _ hk') hc
        | inr hc =>
          simp [akeys] at hc
          subst hc; exact hnd.1 hk'
      · intro k' hk' hc
        cases List.mem_cons.1 hc with
        | inl e => subst e; exact hnd.1 hk'
        | inr e => exact hseen k' (by rw [akeys_cons]; exact List.mem_cons_of_mem _ hk') e
    · intro k' j' hm
      cases List.mem_cons.1 hm with
      | inl e => cases e; exact ⟨w, List.mem_cons_self, hw⟩
      | inr e => obtain ⟨w', hw', hd'⟩ := h4 k' j' e; exact ⟨w', List.mem_cons_of_mem _ hw', hd'⟩
    · intro k' w' hm
      cases List.mem_cons.1 hm with
      | inl e => cases e; exact ⟨hk, ht⟩
      | inr e => exact h5 k' w' e

/-- Round trip of a map value `mapOf ms`, generically in the entry encoder/decoder. -/
theorem rt_map {o : MOpts} {menc : Enc} {mdec : Dec} {z : GoVal} {ty : GoVal → Bool} (ms : List (Bytes × GoVal))
    (H : ∀ k v, (k, v) ∈ ms → RT1 o menc mdec z ty v) (hnd : (akeys ms).Nodup)
    (hty : ∀ k v, (k, v) ∈ ms → ty v = true)
    (mem : List (Bytes × JTree)) (hm : marMembers menc ms = .ok mem) :
    ∃ m', objFold (fun _ => some mdec) (fun _ => z) (sortMembers mem) [] [] = .ok m' ∧
      ((∀ k, ahas k m' = true → ahas k ms = true) ∧ ((∀ k v, (k, v) ∈ ms → safe o v = true) → veqM ms m')) ∧
      marMembers menc m' = .ok (sortMembers mem) ∧ (akeys m').Nodup ∧
      (∀ k w, (k, w) ∈ m' → Utf8.valid k = true ∧ ty w = true) := by
  obtain ⟨hk, hmem, hms⟩ := marMembers_spec hm
  have hndm : (akeys mem).Nodup := hk ▸ hnd
  have hndL : (akeys (sortMembers mem)).Nodup := nodup_sortMembers hndm
  obtain ⟨m', h1, h2, h3, h4, h5⟩ := rt_members (menc := menc) (mdec := mdec) (z := z) (ty := ty) (sortMembers mem) hndL (by
    intro k j hL
    obtain ⟨v, hv, hj⟩ := hmem k j (mem_sortMembers.1 hL)
    obtain ⟨v', hd, _, he, ht⟩ := H k v hv j (hty k v hv) hj
    exact ⟨(hms k v hv).1, v', hd, he, ht⟩)
  have hndm' : (akeys m').Nodup := h2 ▸ hndL
  refine ⟨m', ?_, ⟨?_, ?_⟩, h3, hndm', h5⟩
  · have := h1 [] [] (by intro k _ hc; cases hc) (by intro k _ hc; cases hc)
    simpa using this
  · intro k hk'
    rw [ahas_iff] at hk' ⊢
    rw [h2, mem_akeys_sortMembers, hk] at hk'
    exact hk'
  · intro hs
    rw [veqM_iff]
    intro k v hv
    obtain ⟨_, j, hj, he⟩ := hms k v hv
    obtain ⟨w, hw, hd⟩ := h4 k j (mem_sortMembers.2 hj)
    obtain ⟨v', hd', hq, _, _⟩ := H k v hv j (hty k v hv) he
    rw [hd] at hd'
    cases hd'
    exact ⟨w, alookup_of_mem hndm' hw, hq (hs k v hv)⟩

end JsonV.Lemmas.RoundTrip
