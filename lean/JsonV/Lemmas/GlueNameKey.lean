/-
GLUE (name keys) between slice C01/wire (`nameKey o q := unescapedName q (valueString o q).2.1`: what
objectNamespace.insertQuoted stores — the inner bytes of a literal the scanner found verbatim, AppendUnquote's result
otherwise) and slice C11: for every literal of the selected UTF-8 mode the name key IS the unquoted text
(a verbatim literal has no escape and no ill-formed byte, so its inner bytes are its unquote); on AppendQuote's output
it is the lossy Go string, for every flag set.  Closes C12's `NameKeyUnquote` and the name-key gap of C02.
-/
import JsonV.Lemmas.GlueQuote
import JsonV.Lemmas.WireValue
import JsonV.Lemmas.QuoteJString
import JsonV.Model.FormatStrict

namespace JsonV.Lemmas.GlueNameKey
open JsonV JsonV.Model JsonV.Model.Utf8 JsonV.Model.Quote JsonV.Lemmas.QuoteL JsonV.Lemmas.QuoteCanon
open JsonV.Model.Validate JsonV.Spec.Grammar

/-- the name scan of the decoder (`ConsumeSimpleString`, else `consumeString`) is `ConsumeString` -/
theorem valueString_eq (o : VOpts) (q : Bytes) : valueString o q = Wire.consumeString q (!o.allowInvalidUTF8) := by
  unfold valueString
  by_cases h : Wire.consumeSimpleString q = 0
  · simp [h, Wire.consumeString]
  · have := JsonV.Lemmas.WireString.simple_string_sound' q (!o.allowInvalidUTF8) h
    simp [h, this]

/-- every escape step sets stringNonVerbatim -/
theorem stringEscape_nv (v : Bool) (r : Bytes) (k : Nat) (f : Wire.ValueFlags) (h : Wire.stringEscape v r = .cont k f) :
    f.nonVerbatim = true := by
  match r with
  | [] => simp [Wire.stringEscape] at h
  | [_] => simp [Wire.stringEscape] at h
  | a :: e :: r2 =>
    simp only [Wire.stringEscape] at h
    generalize List.drop 6 (a :: e :: r2) = r6 at h
    generalize List.take 4 r2 = d4 at h
    split at h
    · cases h; rfl
    · split at h
      · cases h; rfl
      · split at h
        · split at h
          · split at h <;> cases h
          · split at h
            · cases h
            · rename_i v1 _
              generalize hf : Wire.ValueFlags.nv.join (Wire.escapeCanonFlags v1 d4) = f0 at h
              have hf0 : f0.nonVerbatim = true := by rw [← hf]; rfl
              split at h
              · split at h
                · split at h <;> cases h
                · split at h
                  · split at h
                    · cases h
                    · split at h
                      · cases h
                      · split at h
                        · cases h
                        · cases h; exact hf0
                  · cases h
              · cases h; exact hf0
        · cases h

/-- A scanner step that leaves the literal verbatim copies its bytes in AppendUnquote. -/
theorem verbatim_step (v : Bool) (r : Bytes) (k : Nat) (f : Wire.ValueFlags) (h : Wire.stringStep v r = .cont k f)
    (hv : f.nonVerbatim = false) : unqStep r = .cont (r.take k) k none ∧ 1 ≤ k := by
  match r with
  | [] => simp [Wire.stringStep] at h
  | c :: t =>
    simp only [Wire.stringStep, JsonV.Lemmas.GlueQuote.noEscape_eq] at h
    split at h
    · rename_i hne
      cases h
      exact ⟨by simpa using unqStep_plain c t hne, Nat.le_refl _⟩
    · rename_i hne
      split at h
      · cases h
      · rename_i hq
        have hq' : c ≠ 0x22 := by intro e; subst e; simp at hq
        split at h
        · rename_i h1
          cases h
          exact ⟨by simp [unqStep, hne, hq', h1], by omega⟩
        · split at h
          · have := stringEscape_nv v _ k f h
            rw [hv] at this; cases this
          · repeat' split at h
            all_goals first | (cases h; simp [Wire.ValueFlags.nvnc] at hv) | cases h

theorem join_nv (f g : Wire.ValueFlags) : (f.join g).nonVerbatim = (f.nonVerbatim || g.nonVerbatim) := rfl

/-- A whole literal body the scanner leaves verbatim is copied unchanged by AppendUnquote's loop. -/
theorem verbatim_loop (v : Bool) (fuel : Nat) (r : Bytes) (n : Nat) (f : Wire.ValueFlags)
    (h : Wire.stringLoop v fuel r = (n, f, .ok)) (hv : f.nonVerbatim = false) (hn : n = r.length) (e : Err) :
    1 ≤ n ∧ unqLoop r e = (r.take (n - 1), e) := by
  induction fuel generalizing r n f e with
  | zero => simp [Wire.stringLoop] at h
  | succ fuel ih =>
    simp only [Wire.stringLoop] at h
    cases hs : Wire.stringStep v r with
    | stop k f1 e1 =>
      rw [hs] at h
      simp only [Prod.mk.injEq] at h
      obtain ⟨hk, hf, he⟩ := h
      subst he
      obtain ⟨hk1, rest, hr⟩ := JsonV.Lemmas.WireString.step_stop_ok v r k f1 hs
      subst hr
      have : rest = [] := by
        have : (0x22 :: rest).length = 1 := by omega
        simpa using this
      subst this
      refine ⟨by omega, ?_⟩
      rw [← hk, hk1]; exact unqLoop_close e
    | cont k f1 =>
      rw [hs] at h
      obtain ⟨n', f', e', hw⟩ : ∃ n' f' e', Wire.stringLoop v fuel (List.drop k r) = (n', f', e') := ⟨_, _, _, rfl⟩
      simp only [hw, Prod.mk.injEq] at h
      obtain ⟨hk, hf, he⟩ := h
      subst he
      have hnv : f1.nonVerbatim = false ∧ f'.nonVerbatim = false := by
        rw [← hf, join_nv] at hv
        cases h1 : f1.nonVerbatim <;> cases h2 : f'.nonVerbatim <;> simp_all
      obtain ⟨hu, hk1⟩ := verbatim_step v r k f1 hs hnv.1
      have hlen : n' = (List.drop k r).length := by simp only [List.length_drop]; omega
      obtain ⟨hn1, ihu⟩ := ih (List.drop k r) n' f' hw hnv.2 hlen e
      refine ⟨by omega, ?_⟩
      rw [unqLoop_cont e hu]
      simp only [Option.getD_none, ihu]
      have : n - 1 = k + (n' - 1) := by omega
      rw [this, List.take_add]

/-- GLUE (name keys): what `objectNamespace.insertQuoted` stores for a name literal — the inner bytes when the scanner
found it verbatim, AppendUnquote's result otherwise — is the unquoted text, for every literal of the selected mode. -/
theorem unescapedName_valueString (o : VOpts) (q : Bytes) (h : JString (!o.allowInvalidUTF8) q) :
    unescapedName q (valueString o q).2.1 = (Wire.unquote q).1 := by
  obtain ⟨f, hf⟩ := JsonV.Lemmas.WireString.consumeString_complete q (!o.allowInvalidUTF8) q.length (Nat.le_refl _)
    (by rw [List.take_length]; exact h)
  rw [valueString_eq, hf]
  simp only [unescapedName, Wire.ValueFlags.isVerbatim]
  by_cases hv' : f.nonVerbatim = true
  · simp [hv']
  · have hv : f.nonVerbatim = false := by simpa using hv'
    simp only [hv, Bool.not_false, ↓reduceIte]
    rw [JsonV.Lemmas.GlueQuote.unquote_eq]
    match q with
    | [] => simp [Wire.consumeString, Wire.consumeStringResumable] at hf
    | c :: r =>
      simp only [Wire.consumeString, Wire.consumeStringResumable, Nat.lt_irrefl, ↓reduceIte] at hf
      split at hf
      · rename_i hc
        have hc' : c = 0x22 := by simpa using hc
        subst hc'
        obtain ⟨n, f', e', hw⟩ : ∃ n f' e', Wire.stringLoop (!o.allowInvalidUTF8) (r.length + 1) r = (n, f', e') := ⟨_, _, _, rfl⟩
        rw [hw] at hf
        simp only [Prod.mk.injEq, List.length_cons] at hf
        obtain ⟨h1, h2, h3⟩ := hf
        subst h2 h3
        obtain ⟨hn1, hu⟩ := verbatim_loop _ _ r n f' hw hv (by omega) Err.ok
        simp only [appendUnquote, ↓reduceIte, hu, List.drop_succ_cons, List.drop_zero]
        rw [List.dropLast_eq_take]
        congr 1; omega
      · simp at hf

/-- **`nameKey_unquote`** (slice wire's `nameKey`): the name key of a literal of the selected mode is its unquoted text. -/
theorem nameKey_unquote (o : VOpts) (q : Bytes) (h : JString (!o.allowInvalidUTF8) q) :
    JsonV.Lemmas.WireValue.nameKey o q = (appendUnquote q).1 := by
  unfold JsonV.Lemmas.WireValue.nameKey
  rw [unescapedName_valueString o q h, JsonV.Lemmas.GlueQuote.unquote_eq]

theorem nameKey_wire_unquote (o : VOpts) (q : Bytes) (h : JString (!o.allowInvalidUTF8) q) :
    JsonV.Lemmas.WireValue.nameKey o q = (Wire.unquote q).1 :=
  unescapedName_valueString o q h

/-- the same for slice C12's `Fmt.nameKey` — this is `JsonV.Fmt.NameKeyUnquote` (Lemmas/FormatRespell.lean) verbatim -/
theorem fmt_nameKey_unquote :
    ∀ (o : JsonV.Fmt.FOpts) (raw : Bytes), JString (!o.allowInvalidUTF8) raw → JsonV.Fmt.nameKey o raw = (Wire.unquote raw).1 := by
  intro o raw h
  exact unescapedName_valueString ⟨o.allowInvalidUTF8, o.allowDup⟩ raw h

/-- The name key of AppendQuote's output is the (lossy) Go string, for every flag set and both UTF-8 modes
(stated on `unescapedName`/`valueString`, to which every `nameKey` of the framework unfolds). -/
theorem unescapedName_appendQuote (o : VOpts) (f : QFlags) (s : Bytes) :
    unescapedName (appendQuote f s).1 (valueString o (appendQuote f s).1).2.1 = JsonV.Spec.StringSpec.lossy s := by
  rw [unescapedName_valueString o _ (JsonV.Lemmas.QuoteJString.appendQuote_is_jstring f _ s),
    JsonV.Lemmas.GlueQuote.unquote_eq]
  have := unqLoop_quoteLoop f.html f.js s Err.ok
  simp only [appendQuote, appendUnquote, ↓reduceIte, this]

theorem nameKey_appendQuote (o : VOpts) (f : QFlags) (s : Bytes) :
    JsonV.Lemmas.WireValue.nameKey o (appendQuote f s).1 = JsonV.Spec.StringSpec.lossy s :=
  unescapedName_appendQuote o f s

end JsonV.Lemmas.GlueNameKey
