/-
The token path (Model/TokenLoop.lean) against the value path (Model/Validate.lean): basic facts about
`readToken` / `tokenLoop`, and the state-machine operations seen through slice C06's refinement to PDA frames.
-/
import JsonV.Model.TokenLoop
import JsonV.Lemmas.WireComplete
import JsonV.Lemmas.StateRun

namespace JsonV.Lemmas.WireTokens
open JsonV JsonV.Model JsonV.Model.Wire JsonV.Model.Validate JsonV.Model.TokenLoop JsonV.Spec.Grammar
open JsonV.Spec JsonV.Spec.PDA
open JsonV.Lemmas.WireBasic JsonV.Lemmas.WireNumber JsonV.Lemmas.WireComplete
open JsonV.Lemmas.StateRefine JsonV.Lemmas.StateRun

/-! ### the loop -/

/-- the loop does not end with io.EOF, and completes no further top-level value -/
def Rej (cnt : Nat) (x : Nat × Nat × Err) : Prop := x.1 = cnt ∧ x.2.2 ≠ .ioEOF

theorem tokenLoop_err (o : VOpts) (F : Nat) (st : TState) (r : Bytes) (cnt base off : Nat) (e : Err)
    (h : readToken o st r = .err off e) : tokenLoop o (F + 1) st r cnt base = (cnt, base + off, e) := by
  simp [tokenLoop, h]

theorem tokenLoop_tok (o : VOpts) (F : Nat) (st st' : TState) (r : Bytes) (cnt base n : Nat)
    (h : readToken o st r = .tok n st') (hn : n ≠ 0) :
    tokenLoop o (F + 1) st r cnt base =
      tokenLoop o F st' (r.drop n) (if st'.m.depth == 1 then cnt + 1 else cnt) (base + n) := by
  simp [tokenLoop, h, hn]

theorem rej_of_err (o : VOpts) (st : TState) (r : Bytes) (cnt base off : Nat) (e : Err)
    (h : readToken o st r = .err off e) (he : e ≠ .ioEOF) : ∀ F, Rej cnt (tokenLoop o F st r cnt base) := by
  intro F
  cases F with
  | zero => simp [tokenLoop, Rej]
  | succ F => rw [tokenLoop_err o F st r cnt base off e h]; exact ⟨rfl, he⟩

/-- `T` tokens are read from `(st, r)` and lead to `(st', r')` -/
def Steps (o : VOpts) (T : Nat) (st : TState) (r : Bytes) (cnt base : Nat) (st' : TState) (r' : Bytes) (cnt' base' : Nat) : Prop :=
  (∀ F, T ≤ F → tokenLoop o F st r cnt base = tokenLoop o (F - T) st' r' cnt' base') ∧
  (∀ F, F < T → (tokenLoop o F st r cnt base).2.2 = .fuel ∧ (tokenLoop o F st r cnt base).1 = cnt)

theorem steps_refl (o : VOpts) (st : TState) (r : Bytes) (cnt base : Nat) : Steps o 0 st r cnt base st r cnt base :=
  ⟨by intro F _; simp, by intro F h; omega⟩

theorem steps_one (o : VOpts) (st st' : TState) (r : Bytes) (cnt base n : Nat)
    (h : readToken o st r = .tok n st') (hn : n ≠ 0) :
    Steps o 1 st r cnt base st' (r.drop n) (if st'.m.depth == 1 then cnt + 1 else cnt) (base + n) := by
  refine ⟨?_, ?_⟩
  · intro F hF
    cases F with
    | zero => omega
    | succ F => rw [tokenLoop_tok o F st st' r cnt base n h hn]; simp
  · intro F hF
    have : F = 0 := by omega
    subst this; simp [tokenLoop]

theorem steps_trans (o : VOpts) {T1 T2 : Nat} {s1 s2 s3 : TState} {r1 r2 r3 : Bytes} {c1 c2 c3 b1 b2 b3 : Nat}
    (h1 : Steps o T1 s1 r1 c1 b1 s2 r2 c2 b2) (h2 : Steps o T2 s2 r2 c2 b2 s3 r3 c3 b3) (hc : c2 = c1 := by rfl) :
    Steps o (T1 + T2) s1 r1 c1 b1 s3 r3 c3 b3 := by
  refine ⟨?_, ?_⟩
  · intro F hF
    rw [h1.1 F (by omega), h2.1 (F - T1) (by omega)]
    congr 1; omega
  · intro F hF
    by_cases h : F < T1
    · exact h1.2 F h
    · rw [h1.1 F (by omega), ← hc]; exact h2.2 (F - T1) (by omega)

theorem rej_of_steps (o : VOpts) {T : Nat} {s1 s2 : TState} {r1 r2 : Bytes} {c1 c2 b1 b2 : Nat}
    (h : Steps o T s1 r1 c1 b1 s2 r2 c2 b2) (hr : ∀ F, Rej c2 (tokenLoop o F s2 r2 c2 b2)) (hc : c2 = c1 := by rfl) :
    ∀ F, Rej c1 (tokenLoop o F s1 r1 c1 b1) := by
  intro F
  by_cases hF : F < T
  · unfold Rej; obtain ⟨h1, h2⟩ := h.2 F hF; rw [h1, h2]; simp
  · rw [h.1 F (by omega), ← hc]; exact hr _

/-! ### readToken on aligned input -/

theorem readToken_end (o : VOpts) (st : TState) (w : Bytes) (hw : JWs w) :
    readToken o st w = .err w.length (if st.m.depth == 1 then .ioEOF else .eof) := by
  have hws : consumeWhitespace w = w.length := by
    have := ws_exact w [] hw (by intro c t h; cases h); simpa using this
  unfold readToken
  simp [hws]

theorem readToken_nodelim (o : VOpts) (st : TState) (w : Bytes) (c : UInt8) (tl : Bytes) (hw : JWs w)
    (hc : isWs c = false) (hcd : (c == 0x3A || c == 0x2C) = false) :
    readToken o st (w ++ c :: tl) =
      if st.m.needDelim (normKind c) != 0 then .err w.length .invalidChar else lexToken o st w.length (c :: tl) := by
  have hws : consumeWhitespace (w ++ c :: tl) = w.length := by
    apply ws_exact _ _ hw; intro c' t' h; simp only [List.cons.injEq] at h; rw [← h.1]; exact hc
  unfold readToken
  simp [hws, hcd]

theorem readToken_delim (o : VOpts) (st : TState) (w w' : Bytes) (dl c : UInt8) (tl : Bytes)
    (hdl : (dl == 0x3A || dl == 0x2C) = true) (hw : JWs w) (hw' : JWs w') (hc : isWs c = false) :
    readToken o st (w ++ dl :: (w' ++ c :: tl)) =
      if st.m.needDelim (normKind c) != dl then .err w.length .invalidChar
      else lexToken o st (w.length + 1 + w'.length) (c :: tl) := by
  have hdlw : isWs dl = false := by
    simp only [Bool.or_eq_true, beq_iff_eq] at hdl
    rcases hdl with rfl | rfl <;> decide
  have hws : consumeWhitespace (w ++ dl :: (w' ++ c :: tl)) = w.length := by
    apply ws_exact _ _ hw; intro c' t' h; simp only [List.cons.injEq] at h; rw [← h.1]; exact hdlw
  have hws' : consumeWhitespace (w' ++ c :: tl) = w'.length := by
    apply ws_exact _ _ hw'; intro c' t' h; simp only [List.cons.injEq] at h; rw [← h.1]; exact hc
  unfold readToken
  simp [hws, hdl, hws']

/-- a delimiter followed by blanks only: an error either way, never io.EOF -/
theorem readToken_delim_end (o : VOpts) (st : TState) (w w' : Bytes) (dl : UInt8)
    (hdl : (dl == 0x3A || dl == 0x2C) = true) (hw : JWs w) (hw' : JWs w') :
    ∃ off e, readToken o st (w ++ dl :: w') = .err off e ∧ e ≠ .ioEOF := by
  have hdlw : isWs dl = false := by
    simp only [Bool.or_eq_true, beq_iff_eq] at hdl
    rcases hdl with rfl | rfl <;> decide
  have hws : consumeWhitespace (w ++ dl :: w') = w.length := by
    apply ws_exact _ _ hw; intro c' t' h; simp only [List.cons.injEq] at h; rw [← h.1]; exact hdlw
  have hws' : consumeWhitespace w' = w'.length := by
    have := ws_exact w' [] hw' (by intro c t h; cases h); simpa using this
  unfold readToken
  simp only [hws, List.drop_left', hdl, if_true, hws', List.drop_length]
  split
  · exact ⟨_, _, rfl, by simp⟩
  · exact ⟨_, _, rfl, by simp⟩

/-! ### the state machine through C06's refinement -/

structure TGood (b : Nat) (st : TState) (fs : Frames) : Prop where
  inv : Inv maxNestingDepth b st.m
  abs : StateRefine.abs st.m = fs
  bot : BottomArr fs

theorem sm_ok {b : Nat} {st : TState} {fs fs' : Frames} (h : TGood b st fs) (hb : b + 1 < 2^61) (k : Kind)
    (hs : PDA.step maxNestingDepth fs k = some fs') :
    ∃ m', smStep maxNestingDepth st.m k = .ok m' ∧ ∀ nss, TGood (b + 1) { m := m', nss := nss } fs' := by
  have := step_refines h.inv hb k
  unfold StepRel at this
  rw [h.abs] at this
  cases hsm : smStep maxNestingDepth st.m k with
  | ok m' =>
    rw [hsm] at this
    refine ⟨m', rfl, fun nss => ⟨this.2, ?_, step_bottomArr hs h.bot⟩⟩
    have := this.1; rw [hs] at this; simp at this; exact this.symm
  | error e => rw [hsm] at this; rw [hs] at this; cases this

theorem sm_err {b : Nat} {st : TState} {fs : Frames} (h : TGood b st fs) (hb : b + 1 < 2^61) (k : Kind)
    (hs : PDA.step maxNestingDepth fs k = none) : ∃ e, smStep maxNestingDepth st.m k = .error e := by
  have := step_refines h.inv hb k
  unfold StepRel at this
  rw [h.abs] at this
  cases hsm : smStep maxNestingDepth st.m k with
  | ok m' => rw [hsm] at this; rw [hs] at this; cases this.1
  | error e => exact ⟨e, rfl⟩

theorem good_depth {b : Nat} {st : TState} {fs : Frames} (h : TGood b st fs) : st.m.depth = fs.length := by
  rw [depth_abs, h.abs]

def isClosing (x : UInt8) : Bool := x == 0x7d || x == 0x5d

theorem needDelim_congr (m : Machine) (x y : UInt8) (h : isClosing x = isClosing y) : m.needDelim x = m.needDelim y := by
  have hx : (x != 0x7d && x != 0x5d) = !isClosing x := by
    cases h1 : (x == 0x7d) <;> cases h2 : (x == 0x5d) <;> simp [isClosing, bne, h1, h2]
  have hy : (y != 0x7d && y != 0x5d) = !isClosing y := by
    cases h1 : (y == 0x7d) <;> cases h2 : (y == 0x5d) <;> simp [isClosing, bne, h1, h2]
  simp only [Machine.needDelim, Entry.needImplicitComma, Bool.and_assoc, hx, hy, h]

theorem normKind_closing : ∀ c : UInt8, isClosing (normKind c) = isClosing c := by
  apply forall_u8; decide +kernel

theorem needDelim_good {b : Nat} {st : TState} {fs : Frames} (h : TGood b st fs) (x : UInt8) (k : Kind)
    (hx : isClosing x = k.closing) : st.m.needDelim x = delimByte (delim fs k) := by
  have h1 := needDelim_abs (m := st.m) (by rw [h.abs]; exact h.bot) k
  rw [h.abs] at h1
  rw [← h1]
  apply needDelim_congr
  rw [hx]
  have := byte_closing k
  simpa [isClosing] using this.symm

/-- the delimiter a non-closing token must be preceded by, as a byte (0 = none) -/
def ncDelim (fs : Frames) : UInt8 := delimByte (delim fs .str)

theorem needDelim_nc {b : Nat} {st : TState} {fs : Frames} (h : TGood b st fs) (x : UInt8) (hx : isClosing x = false) :
    st.m.needDelim x = ncDelim fs := needDelim_good h x .str (by rw [hx]; rfl)

/-- the bytes between the previous token and a non-closing token: blanks, the required delimiter if any, blanks -/
def PreOK (dl : UInt8) (pre : Bytes) : Prop :=
  (dl = 0 ∧ JWs pre) ∨ ((dl == 0x3A || dl == 0x2C) = true ∧ ∃ w w', JWs w ∧ JWs w' ∧ pre = w ++ dl :: w')

theorem readToken_pre (o : VOpts) {b : Nat} {st : TState} {fs : Frames} (h : TGood b st fs) (pre : Bytes) (c : UInt8) (tl : Bytes)
    (hpre : PreOK (ncDelim fs) pre) (hc : isWs c = false) (hcd : (c == 0x3A || c == 0x2C) = false)
    (hnc : isClosing c = false) : readToken o st (pre ++ c :: tl) = lexToken o st pre.length (c :: tl) := by
  have hnd := needDelim_nc h (normKind c) (by rw [normKind_closing]; exact hnc)
  rcases hpre with ⟨h0, hw⟩ | ⟨hdl, w, w', hw, hw', rfl⟩
  · rw [readToken_nodelim o st pre c tl hw hc hcd, hnd, h0]; simp
  · have : w ++ ncDelim fs :: w' ++ c :: tl = w ++ ncDelim fs :: (w' ++ c :: tl) := by simp
    rw [this, readToken_delim o st w w' (ncDelim fs) c tl hdl hw hw' hc, hnd]
    simp
    congr 1; omega

theorem feed_ok' (st : TState) (pos n : Nat) (op : Machine → Except SMErr Machine) (m' : Machine) (h : op st.m = .ok m') :
    feed st pos n op = .tok (pos + n) { st with m := m' } := by simp [feed, h]

theorem feed_err' (st : TState) (pos n : Nat) (op : Machine → Except SMErr Machine) (e : SMErr) (h : op st.m = .error e) :
    feed st pos n op = .err pos (smErr e) := by simp [feed, h]

theorem smErr_ne_ioeof (e : SMErr) : smErr e ≠ .ioEOF := by cases e <;> simp [smErr]

/-! ### rejections that do not depend on the value path -/

theorem delim_closing_of_nc0 (f : Frame) (frest : Frames) (k : Kind) (h : ncDelim (f :: frest) = 0) :
    delimByte (delim (f :: frest) k) = 0 := by
  unfold ncDelim at h
  cases frest with
  | nil => simp [delim, delimByte]
  | cons g gs =>
    simp only [delim] at h ⊢
    by_cases hv : f.needValue = true
    · simp [hv, delimByte] at h
    · simp only [hv, Bool.false_eq_true, if_false] at h ⊢
      by_cases hc : (decide (f.count > 0) && !Kind.str.closing) = true
      · simp [hc, delimByte] at h
      · have : (decide (f.count > 0) && !k.closing) = false := by
          simp only [Kind.closing, Bool.not_false, Bool.and_true, decide_eq_true_eq] at hc
          simp [hc]
        simp [this, delimByte]

/-- a `:` or `,` where a token is expected -/
theorem rej_delimbyte (o : VOpts) {b : Nat} {st : TState} {f : Frame} {frest : Frames} (h : TGood b st (f :: frest))
    (pre : Bytes) (c : UInt8) (tl : Bytes) (hpre : PreOK (ncDelim (f :: frest)) pre)
    (hcd : (c == 0x3A || c == 0x2C) = true) (cnt base : Nat) :
    ∀ F, Rej cnt (tokenLoop o F st (pre ++ c :: tl) cnt base) := by
  have hcw : isWs c = false := by
    simp only [Bool.or_eq_true, beq_iff_eq] at hcd; rcases hcd with rfl | rfl <;> decide
  have hck : normKind c = 0 := by
    simp only [Bool.or_eq_true, beq_iff_eq] at hcd; rcases hcd with rfl | rfl <;> decide
  rcases hpre with ⟨h0, hw⟩ | ⟨hdl, w, w', hw, hw', rfl⟩
  · -- the byte is taken for the delimiter
    have hne : c ≠ 0 := by
      simp only [Bool.or_eq_true, beq_iff_eq] at hcd; rcases hcd with rfl | rfl <;> decide
    have hnd : ∀ x, st.m.needDelim x ≠ c := by
      intro x
      have hx : ∃ k : Kind, isClosing x = k.closing := by
        cases hxc : isClosing x
        · exact ⟨.str, rfl⟩
        · exact ⟨.endArr, rfl⟩
      obtain ⟨k, hk⟩ := hx
      rw [needDelim_good h x k hk, delim_closing_of_nc0 f frest k h0]
      exact fun h' => hne h'.symm
    have hsplit : tl = tl.take (consumeWhitespace tl) ++ tl.drop (consumeWhitespace tl) := (List.take_append_drop _ _).symm
    cases hd : tl.drop (consumeWhitespace tl) with
    | nil =>
      rw [hd, List.append_nil] at hsplit
      have hwt : JWs tl := by rw [hsplit]; exact ws_take tl
      obtain ⟨off, e, he, hne'⟩ := readToken_delim_end o st pre tl c hcd hw hwt
      exact rej_of_err o st _ cnt base off e he hne'
    | cons c1 tl1 =>
      rw [hd] at hsplit
      have hc1 : isWs c1 = false := by
        have := ws_stop tl c1 tl1 hd
        rw [← isWs_iff] at this; simpa using this
      have hrt := readToken_delim o st pre (tl.take (consumeWhitespace tl)) c c1 tl1 hcd hw (ws_take tl) hc1
      rw [← hsplit] at hrt
      have : (st.m.needDelim (normKind c1) != c) = true := by simpa using hnd (normKind c1)
      rw [this] at hrt
      simp only [if_true] at hrt
      exact rej_of_err o st _ cnt base _ _ hrt (by simp)
  · -- the byte is taken for the start of a token
    have hnd := needDelim_nc h (normKind c) (by rw [hck]; decide)
    have happ : w ++ ncDelim (f :: frest) :: w' ++ c :: tl = w ++ ncDelim (f :: frest) :: (w' ++ c :: tl) := by simp
    rw [happ]
    have hrt := readToken_delim o st w w' (ncDelim (f :: frest)) c tl hdl hw hw' hcw
    rw [hnd] at hrt
    simp only [bne_self_eq_false, Bool.false_eq_true, if_false] at hrt
    have hlex : lexToken o st (w.length + 1 + w'.length) (c :: tl) = .err (w.length + 1 + w'.length) .invalidChar := by
      simp [lexToken, hck]
    rw [hlex] at hrt
    exact rej_of_err o st _ cnt base _ _ hrt (by simp)

theorem lexToken_endArr (o : VOpts) (st : TState) (pos : Nat) (tl : Bytes) :
    lexToken o st pos (0x5D :: tl) = feed st pos 1 Machine.popArray := by
  have hk : normKind 0x5D = 0x5D := by decide
  simp [lexToken, hk]

theorem lexToken_endObj (o : VOpts) (st : TState) (pos : Nat) (tl : Bytes) :
    lexToken o st pos (0x7D :: tl) =
      (match st.m.popObject with
       | .error se => .err pos (smErr se)
       | .ok m' => .tok (pos + 1) { m := m', nss := if o.allowDup then st.nss else st.nss.drop 1 }) := by
  have hk : normKind 0x7D = 0x7D := by decide
  simp [lexToken, hk]
  cases st.m.popObject <;> rfl

theorem lexToken_close_err (o : VOpts) {b : Nat} {st : TState} {fs : Frames} (h : TGood b st fs) (hb : b + 1 < 2^61)
    (c : UInt8) (k : Kind) (hck : (c = 0x5D ∧ k = .endArr) ∨ (c = 0x7D ∧ k = .endObj))
    (hs : PDA.step maxNestingDepth fs k = none) (pos : Nat) (tl : Bytes) :
    ∃ e, lexToken o st pos (c :: tl) = .err pos e ∧ e ≠ .ioEOF := by
  obtain ⟨se, hse⟩ := sm_err h hb k hs
  rcases hck with ⟨rfl, rfl⟩ | ⟨rfl, rfl⟩
  · rw [lexToken_endArr, feed_err' st pos 1 _ se hse]; exact ⟨_, rfl, smErr_ne_ioeof se⟩
  · rw [lexToken_endObj]
    have : st.m.popObject = .error se := hse
    simp only [this]; exact ⟨_, rfl, smErr_ne_ioeof se⟩

theorem nc0_nested (f g : Frame) (gs : Frames) (h : ncDelim (f :: g :: gs) = 0) : f.count = 0 ∧ f.needValue = false := by
  unfold ncDelim at h
  simp only [delim] at h
  by_cases hv : f.needValue = true
  · simp [hv, delimByte] at h
  · simp only [hv, Bool.false_eq_true, if_false] at h
    by_cases hc : f.count > 0
    · simp [hc, Kind.closing, delimByte] at h
    · exact ⟨by omega, by simpa using hv⟩

/-- a closing bracket where it does not close an empty container that was just opened -/
theorem rej_closing (o : VOpts) {b : Nat} {st : TState} {f : Frame} {frest : Frames} (h : TGood b st (f :: frest))
    (hb : b + 1 < 2^61) (pre : Bytes) (c : UInt8) (tl : Bytes) (hpre : PreOK (ncDelim (f :: frest)) pre)
    (hcl : c = 0x5D ∨ c = 0x7D) (hno1 : ¬ (f = .arr 0 ∧ c = 0x5D ∧ frest ≠ []))
    (hno2 : ¬ (f = .obj 0 ∧ c = 0x7D ∧ frest ≠ [])) (cnt base : Nat) :
    ∀ F, Rej cnt (tokenLoop o F st (pre ++ c :: tl) cnt base) := by
  obtain ⟨k, hck⟩ : ∃ k : Kind, (c = 0x5D ∧ k = .endArr) ∨ (c = 0x7D ∧ k = .endObj) := by
    rcases hcl with rfl | rfl
    · exact ⟨.endArr, Or.inl ⟨rfl, rfl⟩⟩
    · exact ⟨.endObj, Or.inr ⟨rfl, rfl⟩⟩
  have hkc : k.closing = true := by rcases hck with ⟨-, rfl⟩ | ⟨-, rfl⟩ <;> rfl
  have hcw : isWs c = false := by rcases hcl with rfl | rfl <;> decide
  have hcd : (c == 0x3A || c == 0x2C) = false := by rcases hcl with rfl | rfl <;> decide
  have hcc : isClosing (normKind c) = k.closing := by
    rw [hkc]; rcases hcl with rfl | rfl <;> decide
  have hnd := needDelim_good h (normKind c) k hcc
  rcases hpre with ⟨h0, hw⟩ | ⟨hdl, w, w', hw, hw', rfl⟩
  · have hrt := readToken_nodelim o st pre c tl hw hcw hcd
    rw [hnd, delim_closing_of_nc0 f frest k h0] at hrt
    simp only [bne_self_eq_false, Bool.false_eq_true, if_false] at hrt
    have hstep : PDA.step maxNestingDepth (f :: frest) k = none := by
      cases frest with
      | nil => rcases hck with ⟨-, rfl⟩ | ⟨-, rfl⟩ <;> cases f <;> simp [PDA.step]
      | cons g gs =>
        obtain ⟨hc0, hv0⟩ := nc0_nested f g gs h0
        rcases hck with ⟨rfl, rfl⟩ | ⟨rfl, rfl⟩
        · cases f with
          | arr n =>
            simp only [Frame.count] at hc0; subst hc0
            exact absurd ⟨rfl, rfl, by simp⟩ hno1
          | obj n => simp [PDA.step]
        · cases f with
          | arr n => simp [PDA.step]
          | obj n =>
            simp only [Frame.count] at hc0; subst hc0
            exact absurd ⟨rfl, rfl, by simp⟩ hno2
    obtain ⟨e, he, hne⟩ := lexToken_close_err o h hb c k hck hstep pre.length tl
    rw [he] at hrt
    exact rej_of_err o st _ cnt base _ _ hrt hne
  · have happ : w ++ ncDelim (f :: frest) :: w' ++ c :: tl = w ++ ncDelim (f :: frest) :: (w' ++ c :: tl) := by simp
    rw [happ]
    have hrt := readToken_delim o st w w' (ncDelim (f :: frest)) c tl hdl hw hw' hcw
    rw [hnd] at hrt
    by_cases heq : delimByte (delim (f :: frest) k) = ncDelim (f :: frest)
    · -- only a colon can be shared: the frame waits for a member value
      have hstep : PDA.step maxNestingDepth (f :: frest) k = none := by
        cases frest with
        | nil => rcases hck with ⟨-, rfl⟩ | ⟨-, rfl⟩ <;> cases f <;> simp [PDA.step]
        | cons g gs =>
          have hv : f.needValue = true := by
            unfold ncDelim at heq hdl
            simp only [delim, hkc] at heq hdl
            by_cases hv : f.needValue = true
            · exact hv
            · simp only [hv, Bool.false_eq_true, if_false, Bool.not_true, Bool.and_false] at heq hdl
              rw [← heq] at hdl; simp [delimByte] at hdl
          cases f with
          | arr n => simp [Frame.needValue] at hv
          | obj n =>
            simp only [Frame.needValue, decide_eq_true_eq] at hv
            rcases hck with ⟨-, rfl⟩ | ⟨-, rfl⟩
            · simp [PDA.step]
            · simp [PDA.step]; omega
      obtain ⟨e, he, hne⟩ := lexToken_close_err o h hb c k hck hstep (w.length + 1 + w'.length) tl
      rw [heq] at hrt
      simp only [bne_self_eq_false, Bool.false_eq_true, if_false] at hrt
      rw [he] at hrt
      exact rej_of_err o st _ cnt base _ _ hrt hne
    · have : (delimByte (delim (f :: frest) k) != ncDelim (f :: frest)) = true := by simpa using heq
      rw [this] at hrt
      simp only [if_true] at hrt
      exact rej_of_err o st _ cnt base _ _ hrt (by simp)

/-! ### frames arithmetic -/

theorem ncDelim_arr0 (g : Frame) (gs : Frames) : ncDelim (.arr 0 :: g :: gs) = 0 := by
  simp [ncDelim, delim, Frame.needValue, Frame.count, delimByte]
theorem ncDelim_arrS (k : Nat) (g : Frame) (gs : Frames) : ncDelim (.arr (k + 1) :: g :: gs) = 0x2C := by
  simp [ncDelim, delim, Frame.needValue, Frame.count, Kind.closing, delimByte]
theorem ncDelim_obj0 (g : Frame) (gs : Frames) : ncDelim (.obj 0 :: g :: gs) = 0 := by
  simp [ncDelim, delim, Frame.needValue, Frame.count, delimByte]
theorem ncDelim_objOdd (n : Nat) (hn : n % 2 = 1) (g : Frame) (gs : Frames) : ncDelim (.obj n :: g :: gs) = 0x3A := by
  simp [ncDelim, delim, Frame.needValue, hn, delimByte]
theorem ncDelim_objEven (n : Nat) (hn : n % 2 = 0) (h0 : 0 < n) (g : Frame) (gs : Frames) :
    ncDelim (.obj n :: g :: gs) = 0x2C := by
  have : ¬ (n % 2 = 1) := by omega
  simp [ncDelim, delim, Frame.needValue, this, Frame.count, h0, Kind.closing, delimByte]
theorem ncDelim_bottom (f : Frame) : ncDelim [f] = 0 := by simp [ncDelim, delim, delimByte]

theorem closeDelim_arr (k : Nat) (frest : Frames) (kk : Kind) (hk : kk.closing = true) :
    delimByte (delim (.arr k :: frest) kk) = 0 := by
  cases frest with
  | nil => simp [delim, delimByte]
  | cons g gs => simp [delim, Frame.needValue, hk, delimByte]
theorem closeDelim_objEven (n : Nat) (hn : n % 2 = 0) (frest : Frames) (kk : Kind) (hk : kk.closing = true) :
    delimByte (delim (.obj n :: frest) kk) = 0 := by
  have : ¬ (n % 2 = 1) := by omega
  cases frest with
  | nil => simp [delim, delimByte]
  | cons g gs => simp [delim, Frame.needValue, this, hk, delimByte]
theorem closeDelim_objOdd (n : Nat) (hn : n % 2 = 1) (g : Frame) (gs : Frames) (kk : Kind) :
    delimByte (delim (.obj n :: g :: gs) kk) = 0x3A := by
  simp [delim, Frame.needValue, hn, delimByte]

/-- after a value or a name: a byte that is neither the required delimiter nor an acceptable closing bracket -/
theorem rej_unexpected (o : VOpts) {b : Nat} {st : TState} {fs : Frames} (h : TGood b st fs) (hb : b + 1 < 2^61)
    (w : Bytes) (c : UInt8) (tl : Bytes) (hw : JWs w) (hcw : isWs c = false)
    (hnc : (ncDelim fs == 0x3A || ncDelim fs == 0x2C) = true) (hc1 : c ≠ ncDelim fs)
    (hcl : ∀ k : Kind, ((c = 0x5D ∧ k = .endArr) ∨ (c = 0x7D ∧ k = .endObj)) →
      delimByte (delim fs k) ≠ 0 ∨ PDA.step maxNestingDepth fs k = none)
    (hcolon : ∀ k : Kind, k.closing = true → delimByte (delim fs k) = 0x3A → ncDelim fs = 0x3A)
    (hcomma : ∀ k : Kind, k.closing = true → delimByte (delim fs k) ≠ 0x2C)
    (cnt base : Nat) : ∀ F, Rej cnt (tokenLoop o F st (w ++ c :: tl) cnt base) := by
  by_cases hcd : (c == 0x3A || c == 0x2C) = true
  · -- taken for a delimiter: whatever follows does not ask for it
    have hnd : ∀ x, st.m.needDelim x ≠ c := by
      intro x
      cases hxc : isClosing x with
      | false => rw [needDelim_nc h x hxc]; exact fun h' => hc1 h'.symm
      | true =>
        rw [needDelim_good h x .endArr (by rw [hxc]; rfl)]
        intro h'
        simp only [Bool.or_eq_true, beq_iff_eq] at hcd
        rcases hcd with rfl | rfl
        · exact hc1 (hcolon .endArr rfl h').symm
        · exact hcomma .endArr rfl h'
    cases hd : tl.drop (consumeWhitespace tl) with
    | nil =>
      have hwt : JWs tl := by
        have hsplit : tl = tl.take (consumeWhitespace tl) ++ tl.drop (consumeWhitespace tl) := (List.take_append_drop _ _).symm
        rw [hd, List.append_nil] at hsplit; rw [hsplit]; exact ws_take tl
      obtain ⟨off, e, he, hne'⟩ := readToken_delim_end o st w tl c hcd hw hwt
      exact rej_of_err o st _ cnt base off e he hne'
    | cons c1 tl1 =>
      have hsplit : tl = tl.take (consumeWhitespace tl) ++ c1 :: tl1 := by rw [← hd]; exact (List.take_append_drop _ _).symm
      have hc1w : isWs c1 = false := by
        have := ws_stop tl c1 tl1 hd
        rw [← isWs_iff] at this; simpa using this
      have hrt := readToken_delim o st w (tl.take (consumeWhitespace tl)) c c1 tl1 hcd hw (ws_take tl) hc1w
      rw [← hsplit] at hrt
      have : (st.m.needDelim (normKind c1) != c) = true := by simpa using hnd (normKind c1)
      rw [this] at hrt
      simp only [if_true] at hrt
      exact rej_of_err o st _ cnt base _ _ hrt (by simp)
  · have hcd' : (c == 0x3A || c == 0x2C) = false := by simpa using hcd
    have hrt := readToken_nodelim o st w c tl hw hcw hcd'
    cases hcc : isClosing c with
    | false =>
      rw [needDelim_nc h (normKind c) (by rw [normKind_closing]; exact hcc)] at hrt
      have : (ncDelim fs != 0) = true := by
        simp only [Bool.or_eq_true, beq_iff_eq] at hnc
        rcases hnc with h' | h' <;> rw [h'] <;> decide
      rw [this] at hrt
      simp only [if_true] at hrt
      exact rej_of_err o st _ cnt base _ _ hrt (by simp)
    | true =>
      obtain ⟨k, hck⟩ : ∃ k : Kind, (c = 0x5D ∧ k = .endArr) ∨ (c = 0x7D ∧ k = .endObj) := by
        simp only [isClosing, Bool.or_eq_true, beq_iff_eq] at hcc
        rcases hcc with rfl | rfl
        · exact ⟨.endObj, Or.inr ⟨rfl, rfl⟩⟩
        · exact ⟨.endArr, Or.inl ⟨rfl, rfl⟩⟩
      have hkc : k.closing = true := by rcases hck with ⟨-, rfl⟩ | ⟨-, rfl⟩ <;> rfl
      rw [needDelim_good h (normKind c) k (by rw [normKind_closing, hcc, hkc])] at hrt
      rcases hcl k hck with hne | hnone
      · have : (delimByte (delim fs k) != 0) = true := by simpa using hne
        rw [this] at hrt
        simp only [if_true] at hrt
        exact rej_of_err o st _ cnt base _ _ hrt (by simp)
      · by_cases hz : delimByte (delim fs k) = 0
        · rw [hz] at hrt
          simp only [bne_self_eq_false, Bool.false_eq_true, if_false] at hrt
          obtain ⟨e, he, hne⟩ := lexToken_close_err o h hb c k hck hnone w.length tl
          rw [he] at hrt
          exact rej_of_err o st _ cnt base _ _ hrt hne
        · have : (delimByte (delim fs k) != 0) = true := by simpa using hz
          rw [this] at hrt
          simp only [if_true] at hrt
          exact rej_of_err o st _ cnt base _ _ hrt (by simp)

/-- end of input (blanks only) inside a container, possibly after the delimiter -/
theorem rej_end (o : VOpts) {b : Nat} {st : TState} {fs : Frames} (h : TGood b st fs) (hd : 2 ≤ fs.length)
    (w : Bytes) (hw : JWs w) (cnt base : Nat) : ∀ F, Rej cnt (tokenLoop o F st w cnt base) := by
  have hrt := readToken_end o st w hw
  have : (st.m.depth == 1) = false := by rw [good_depth h]; simp; omega
  rw [this] at hrt
  exact rej_of_err o st _ cnt base _ _ hrt (by simp)

end JsonV.Lemmas.WireTokens
