/-
From the final search invariant to the enumeration lemma: under `NoDupEmbed`, every candidate of the all-paths
rule is enumerated by the search, or dominated by an enumerated candidate with the same options at a strictly
smaller depth (`dominated`); and every enumerated field is a candidate of the rule (`enumerated_sound`).
The hypothesis `NoDupEmbed` is used exactly once, in `occ`.
-/
import JsonV.Lemmas.FieldsInvRun
import JsonV.Lemmas.FieldsFuel

set_option linter.unusedSimpArgs false

namespace JsonV.Lemmas.Fields
open JsonV JsonV.Model JsonV.Model.Fields JsonV.Spec.FieldRule

/-- What the invariant says when the search is over (empty frontier, empty queue). -/
structure Final (g : Graph) (root : StructId) (P : List QE) (all : List RField) : Prop where
  rootP : ({ sid := root, index := [], visit := true } : QE) ∈ P
  kids : ∀ e ∈ P, e.visit = true → ∀ j t, Kid g e.sid j t → ∃ e' ∈ P, e'.sid = t ∧ e'.index = e.index ++ [j]
  firstW : ∀ e ∈ P, e.visit = false → ∃ e0 ∈ P, e0.sid = e.sid ∧ e0.visit = true ∧ e0.index.length ≤ e.index.length
  firstP : P.Pairwise (fun a b => b.visit = true → a.sid ≠ b.sid)
  reach : ∀ e ∈ P, Reach g root e.index e.sid
  memb : ∀ e ∈ P, ∀ j o, Member g e.sid j o → ∃ f ∈ all, f.index = e.index ++ [j] ∧ f.opts = o
  allS : ∀ f ∈ all, ∃ e ∈ P, ∃ j, Member g e.sid j f.opts ∧ f.index = e.index ++ [j]
  good : ∀ e ∈ P, ∀ j d, FieldAt g e.sid j d → GoodDecl d
  allND : (all.map (·.index)).Nodup
  allSorted : all.Pairwise (fun a b => a.depth ≤ b.depth)

/-- The same for the embedded fallbacks. -/
structure FinalFb (g : Graph) (P : List QE) (fbs : List RField) : Prop where
  fbS : ∀ f ∈ fbs, ∃ e ∈ P, ∃ j, Fb g e.sid j ∧ f.index = e.index ++ [j]
  fbC : ∀ e ∈ P, ∀ j, Fb g e.sid j → ∃ f ∈ fbs, f.index = e.index ++ [j]
  fbND : (fbs.map (·.index)).Nodup
  fbSorted : fbs.Pairwise (fun a b => a.depth ≤ b.depth)

theorem final_of_search {g : Graph} {root : StructId} (herr : (search g root).err = none) :
    ∃ P, Final g root P (search g root).all ∧ FinalFb g P (search g root).fbs := by
  obtain ⟨k, P, hroot, h3⟩ := Inv3.search (g := g) (root := root) herr
  have hq := search_queue_nil g root
  rw [hq] at h3
  have h := h3.a
  have hh : hist P [] { (search g root) with queue := [] } = P := by simp [hist]
  refine ⟨P, ⟨hroot, ?_, ?_, ?_, ?_, ?_, ?_, ?_, h3.b.allND, h3.b.allSorted⟩, ⟨?_, ?_, h3.b.fbND, h3.b.fbSorted⟩⟩
  · intro e he hv j t hk
    have := h.kids e j t (Or.inl he) hv hk
    rwa [hh] at this
  · intro e he hv
    have := h.firstW e (by rw [hh]; exact he) hv
    rwa [hh] at this
  · have := h.firstP; rwa [hh] at this
  · intro e he; exact h.reach e (by rw [hh]; exact he)
  · intro e he j o hm; exact h.memb e j o (Or.inl he) hm
  · intro f hf
    obtain ⟨e, j, hd, hm, hi⟩ := h.allS f hf
    rcases hd with hd | ⟨i, hc, _⟩
    · exact ⟨e, hd, j, hm, hi⟩
    · cases hc
  · intro e he j d hf
    exact h3.b.good e j d (Or.inl he) hf
  · intro f hf
    obtain ⟨e, j, hd, hfb, hi⟩ := h3.b.fbS f hf
    rcases hd with hd | ⟨i, hc, _⟩
    · exact ⟨e, hd, j, hfb, hi⟩
    · cases hc
  · intro e he j hfb
    exact h3.b.fbC e j (Or.inl he) hfb

theorem pairwise_mem {α} {R : α → α → Prop} : ∀ {l : List α}, l.Pairwise R → ∀ {a b}, a ∈ l → b ∈ l → a = b ∨ R a b ∨ R b a
  | [], _, _, _, ha, _ => by cases ha
  | x :: xs, hp, a, b, ha, hb => by
    obtain ⟨hx, hxs⟩ := List.pairwise_cons.mp hp
    rcases List.mem_cons.mp ha with rfl | ha' <;> rcases List.mem_cons.mp hb with rfl | hb'
    · exact Or.inl rfl
    · exact Or.inr (Or.inl (hx b hb'))
    · exact Or.inr (Or.inr (hx a ha'))
    · exact pairwise_mem hxs ha' hb'

variable {g : Graph} {root : StructId} {P : List QE} {all : List RField}

/-- At most one visiting entry per struct type. -/
theorem Final.visit_unique (h : Final g root P all) {e1 e2 : QE} (h1 : e1 ∈ P) (h2 : e2 ∈ P)
    (v1 : e1.visit = true) (v2 : e2.visit = true) (hs : e1.sid = e2.sid) : e1 = e2 := by
  rcases pairwise_mem h.firstP h1 h2 with he | hr | hr
  · exact he
  · exact absurd hs (hr v2)
  · exact absurd hs.symm (hr v1)

/-- The visiting entry of a struct type, no deeper than a given entry of that type. -/
theorem Final.visiting (h : Final g root P all) {e : QE} (he : e ∈ P) :
    ∃ e0 ∈ P, e0.sid = e.sid ∧ e0.visit = true ∧ e0.index.length ≤ e.index.length := by
  cases hv : e.visit with
  | true => exact ⟨e, he, rfl, hv, Nat.le_refl _⟩
  | false => exact h.firstW e he hv

theorem good_kid {s1 : StructId} {i : Nat} {d : FieldDecl} {t : StructId}
    (hgood : GoodDecl d) (hf : FieldAt g s1 i d) (hk : kindOf d = .embedStruct t) : Kid g s1 i t := by
  unfold GoodDecl at hgood
  rw [hk] at hgood
  cases ha : actOf d <;> simp [ha, Action.Matches] at hgood
  subst hgood
  exact ⟨d, hf, ha⟩

theorem good_member {s1 : StructId} {i : Nat} {d : FieldDecl} {o : FieldOpts}
    (hgood : GoodDecl d) (hf : FieldAt g s1 i d) (hk : kindOf d = .member o) : Member g s1 i o := by
  unfold GoodDecl at hgood
  rw [hk] at hgood
  cases ha : actOf d <;> simp [ha, Action.Matches] at hgood
  subst hgood
  exact ⟨d, hf, ha⟩

theorem member_kind {s1 : StructId} {i : Nat} {o : FieldOpts}
    (hgood : ∀ d, FieldAt g s1 i d → GoodDecl d) (hm : Member g s1 i o) : ∃ d, FieldAt g s1 i d ∧ kindOf d = .member o := by
  obtain ⟨d, hf, ha⟩ := hm
  have hgood := hgood d hf
  unfold GoodDecl at hgood
  rw [ha] at hgood
  cases hk : kindOf d <;> simp [hk, Action.Matches] at hgood
  subst hgood
  exact ⟨d, hf, hk⟩

theorem reach_inv {p : List Nat} {s : StructId} (h : Reach g root p s) :
    (p = [] ∧ s = root) ∨ ∃ q s1 i d, p = q ++ [i] ∧ Reach g root q s1 ∧ FieldAt g s1 i d ∧ kindOf d = .embedStruct s := by
  cases h with
  | root => exact Or.inl ⟨rfl, rfl⟩
  | step hr hf hk => exact Or.inr ⟨_, _, _, _, rfl, hr, hf, hk⟩

/-- Every reachable struct occurrence has a processed occurrence of the same type at the same path, or at a
strictly smaller depth.  This is where `NoDupEmbed` is needed (known finding `dup-embed-kept`). -/
theorem Final.occ (hnd : NoDupEmbed g root) (h : Final g root P all) :
    ∀ (n : Nat) (p : List Nat) (s0 : StructId), p.length = n → Reach g root p s0 →
      ∃ e ∈ P, e.sid = s0 ∧ (e.index = p ∨ e.index.length < p.length) := by
  intro n
  induction n using Nat.strongRecOn with
  | _ n ih =>
    intro p s0 hn hr
    rcases reach_inv hr with ⟨rfl, rfl⟩ | ⟨q, s1, i, d, rfl, hrq, hf, hk⟩
    · exact ⟨_, h.rootP, rfl, Or.inl rfl⟩
    · have hqn : q.length < n := by rw [← hn]; simp
      obtain ⟨e, heP, hes, hei⟩ := ih q.length hqn q s1 rfl hrq
      have hkid : Kid g s1 i s0 := good_kid (h.good e heP i d (hes ▸ hf)) hf hk
      -- a visiting entry at path `q'` queues the child at `q' ++ [i]`
      have child : ∀ e0 ∈ P, e0.sid = s1 → e0.visit = true → (e0.index = q ∨ e0.index.length < q.length) →
          ∃ e' ∈ P, e'.sid = s0 ∧ (e'.index = q ++ [i] ∨ e'.index.length < (q ++ [i]).length) := by
        intro e0 he0 hs0 hv0 hi0
        obtain ⟨e', he', h1, h2⟩ := h.kids e0 he0 hv0 i s0 (hs0 ▸ hkid)
        refine ⟨e', he', h1, ?_⟩
        rcases hi0 with hi0 | hi0
        · left; rw [h2, hi0]
        · right; rw [h2]; simp; omega
      cases hv : e.visit with
      | true => exact child e heP hes hv hei
      | false =>
        obtain ⟨e0, he0P, he0s, he0v, he0d⟩ := h.firstW e heP hv
        have he0s1 : e0.sid = s1 := he0s.trans hes
        rcases hei with hei | hei
        · -- e sits exactly at q
          by_cases hlt : e0.index.length < q.length
          · exact child e0 he0P he0s1 he0v (Or.inr hlt)
          · have hlen : e0.index.length = q.length := by rw [hei] at he0d; omega
            -- e0 is at the minimal depth of s1
            have hmin : ∀ r, Reach g root r s1 → e0.index.length ≤ r.length := by
              intro r hrr
              by_cases hrl : e0.index.length ≤ r.length
              · exact hrl
              · exfalso
                have hrn : r.length < n := by omega
                obtain ⟨e2, he2P, he2s, he2i⟩ := ih r.length hrn r s1 rfl hrr
                have he2d : e2.index.length ≤ r.length := by
                  rcases he2i with h' | h'
                  · rw [h']; exact Nat.le_refl _
                  · omega
                obtain ⟨e3, he3P, he3s, he3v, he3d⟩ := h.visiting he2P
                have : e3 = e0 := h.visit_unique he3P he0P he3v he0v ((he3s.trans he2s).trans he0s1.symm)
                rw [this] at he3d
                omega
            have heq : e0.index = q :=
              hnd e0.index q s1 (he0s1 ▸ h.reach e0 he0P) hrq hlen hmin ⟨i, d, s0, hf, hk⟩
            exact child e0 he0P he0s1 he0v (Or.inl heq)
        · -- e is strictly shallower than q, and so is e0
          exact child e0 he0P he0s1 he0v (Or.inr (by omega))

/-- Every candidate of the rule is enumerated, or dominated by an enumerated field with the same options
at a strictly smaller depth. -/
theorem Final.dominated (hnd : NoDupEmbed g root) (h : Final g root P all)
    (c : Cand) (hc : IsCand g root c) :
    ∃ f ∈ all, f.opts = c.opts ∧ (f.index = c.index ∨ f.index.length < c.index.length) := by
  obtain ⟨p, s1, i, d, hr, hf, hk, hci⟩ := hc
  obtain ⟨e, heP, hes, hei⟩ := h.occ hnd p.length p s1 rfl hr
  have hm : Member g s1 i c.opts := good_member (h.good e heP i d (hes ▸ hf)) hf hk
  obtain ⟨f, hfa, hfi, hfo⟩ := h.memb e heP i c.opts (hes ▸ hm)
  refine ⟨f, hfa, hfo, ?_⟩
  rcases hei with hei | hei
  · left; rw [hfi, hci, hei]
  · right; rw [hfi, hci]; simp; omega

/-- Every enumerated field is a candidate of the rule, with its index path. -/
theorem Final.enumerated_sound (h : Final g root P all) (f : RField) (hf : f ∈ all) :
    IsCand g root ⟨f.index, f.opts⟩ := by
  obtain ⟨e, heP, j, hm, hi⟩ := h.allS f hf
  obtain ⟨d, hfd, hk⟩ := member_kind (fun d hd => h.good e heP j d hd) hm
  exact ⟨e.index, e.sid, j, d, h.reach e heP, hfd, hk, hi⟩

theorem good_fb {s1 : StructId} {i : Nat} {d : FieldDecl}
    (hgood : GoodDecl d) (hf : FieldAt g s1 i d) (hk : kindOf d = .fallback) : Fb g s1 i := by
  unfold GoodDecl at hgood
  rw [hk] at hgood
  cases ha : actOf d <;> simp [ha, Action.Matches] at hgood
  exact ⟨d, hf, _, ha⟩

/-- Every enumerated fallback is a fallback candidate of the rule. -/
theorem Final.fb_sound (h : Final g root P all) {fbs : List RField} (hb : FinalFb g P fbs) (f : RField) (hf : f ∈ fbs) :
    IsFallback g root f.index := by
  obtain ⟨e, heP, j, ⟨d, hfd, o, ha⟩, hi⟩ := hb.fbS f hf
  have hgood := h.good e heP j d hfd
  unfold GoodDecl at hgood
  rw [ha] at hgood
  cases hk : kindOf d <;> simp [hk, Action.Matches] at hgood
  exact ⟨e.index, e.sid, j, d, h.reach e heP, hfd, hk, hi⟩

/-- Every fallback candidate of the rule is enumerated, or there is an enumerated one strictly shallower. -/
theorem Final.fb_dominated (hnd : NoDupEmbed g root) (h : Final g root P all) {fbs : List RField} (hb : FinalFb g P fbs)
    (jx : List Nat) (hj : IsFallback g root jx) : ∃ f ∈ fbs, f.index = jx ∨ f.index.length < jx.length := by
  obtain ⟨p, s1, i, d, hr, hf, hk, hji⟩ := hj
  obtain ⟨e, heP, hes, hei⟩ := h.occ hnd p.length p s1 rfl hr
  have hfb : Fb g s1 i := good_fb (h.good e heP i d (hes ▸ hf)) hf hk
  obtain ⟨f, hfm, hfi⟩ := hb.fbC e heP i (hes ▸ hfb)
  refine ⟨f, hfm, ?_⟩
  rcases hei with hei | hei
  · left; rw [hfi, hji, hei]
  · right; rw [hfi, hji]; simp; omega

end JsonV.Lemmas.Fields
