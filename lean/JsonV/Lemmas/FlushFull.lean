/-
C07 helper lemmas, part 8: two disciplined runs of the same calls under different flush decisions and writer
behaviours stay in simulation — including UnwriteEmptyObjectMember / UnwriteOnlyObjectMemberName calls.
-/
import JsonV.Lemmas.FlushInvB

namespace JsonV.Model.Flush
open JsonV

/-- Token calls carry sane texts; the unwrite calls have no arguments. -/
def SaneCall : Op → Prop
  | .tok t ws => SaneTok t ws
  | _ => True

/-- Same frames, same stream, same freshness, and both runs satisfy the shape invariant. -/
structure SimD (a b : Enc × Bool) : Prop where
  sim : Sim a.1 b.1
  fresh : a.2 = b.2
  inv₁ : InvS a.1 a.2
  inv₂ : InvS b.1 b.2

theorem simD_init (omitNL : Bool) : SimD ({ omitNL := omitNL }, false) ({ omitNL := omitNL }, false) :=
  ⟨Sim.refl _, rfl, invS_init _ _, invS_init _ _⟩

theorem stepD_sim {a b : Enc × Bool} (h : SimD a b) (op : Op) (hs : SaneCall op) (s₁ s₂ : Sched) :
    SimD (stepD a op s₁) (stepD b op s₂) := by
  obtain ⟨e₁, f₁⟩ := a
  obtain ⟨e₂, f₂⟩ := b
  obtain ⟨hsim, hf, h1, h2⟩ := h
  simp only at hsim hf h1 h2
  subst hf
  cases op with
  | tok t ws =>
    rcases write_sim hsim t ws with ⟨w1, w2⟩ | ⟨e₁', e₂', w1, w2, _⟩
    · simp only [stepD, w1, w2]; exact ⟨hsim, rfl, h1, h2⟩
    · simp only [stepD, w1, w2]
      exact ⟨(step_tok_sim hsim h1.bottom t ws s₁ s₂).1, rfl, invS_step_tok h1 hs w1 s₁, invS_step_tok h2 hs w2 s₂⟩
  | unwriteEmpty =>
    cases f₁ with
    | false => simp only [stepD]; exact ⟨hsim, rfl, h1, h2⟩
    | true =>
      simp only [stepD, step, if_true]
      exact ⟨unwriteEmpty_sim hsim h1 h2, rfl, invS_unwriteEmpty h1, invS_unwriteEmpty h2⟩
  | unwriteName =>
    simp only [stepD, step]
    exact ⟨unwriteName_sim hsim h1 h2, rfl, invS_unwriteName h1, invS_unwriteName h2⟩

theorem runD_sim : ∀ (l₁ l₂ : List (Op × Sched)) (a b : Enc × Bool), SimD a b →
    l₁.map Prod.fst = l₂.map Prod.fst → (∀ p ∈ l₁, SaneCall p.1) → SimD (runD a l₁) (runD b l₂)
  | [], [], _, _, h, _, _ => by simpa [runD] using h
  | [], _ :: _, _, _, _, hl, _ => by simp at hl
  | _ :: _, [], _, _, _, hl, _ => by simp at hl
  | (op₁, s₁) :: r₁, (op₂, s₂) :: r₂, a, b, h, hl, hs => by
    simp only [List.map_cons, List.cons.injEq] at hl
    obtain ⟨ho, hr⟩ := hl
    have ho : op₁ = op₂ := ho
    subst ho
    exact runD_sim r₁ r₂ _ _ (stepD_sim h op₁ (hs (op₁, s₁) (by simp)) s₁ s₂) hr
      (fun p hp => hs p (by simp [hp]))

/-- The shape invariant holds along every disciplined run. -/
theorem runD_inv : ∀ (l : List (Op × Sched)) (a : Enc × Bool), InvS a.1 a.2 → (∀ p ∈ l, SaneCall p.1) →
    InvS (runD a l).1 (runD a l).2
  | [], _, h, _ => by simpa [runD] using h
  | (op, s) :: r, a, h, hs => by
    have := stepD_sim (a := a) (b := a) ⟨Sim.refl _, rfl, h, h⟩ op (hs (op, s) (by simp)) s s
    exact runD_inv r _ this.inv₁ (fun p hp => hs p (by simp [hp]))

/-! ### without the discipline: UnwriteEmptyObjectMember at any moment -/

/-- Same frames, same stream, and both runs satisfy the shape invariant (which does not need freshness). -/
structure SimU (e₁ e₂ : Enc) : Prop where
  sim : Sim e₁ e₂
  inv₁ : InvS e₁ false
  inv₂ : InvS e₂ false

theorem step_simU {e₁ e₂ : Enc} (h : SimU e₁ e₂) (op : Op) (hs : SaneCall op) (s₁ s₂ : Sched) :
    SimU (step e₁ op s₁) (step e₂ op s₂) := by
  obtain ⟨hsim, h1, h2⟩ := h
  cases op with
  | tok t ws =>
    rcases write_sim hsim t ws with ⟨w1, w2⟩ | ⟨e₁', e₂', w1, w2, _⟩
    · simp only [step, w1, w2]; exact ⟨hsim, h1, h2⟩
    · exact ⟨(step_tok_sim hsim h1.bottom t ws s₁ s₂).1, (invS_step_tok h1 hs w1 s₁).weaken,
        (invS_step_tok h2 hs w2 s₂).weaken⟩
  | unwriteEmpty =>
    simp only [step]
    exact ⟨unwriteEmpty_sim hsim h1 h2, invS_unwriteEmpty h1, invS_unwriteEmpty h2⟩
  | unwriteName =>
    simp only [step]
    exact ⟨unwriteName_sim hsim h1 h2, invS_unwriteName h1, invS_unwriteName h2⟩

theorem run_simU : ∀ (l₁ l₂ : List (Op × Sched)) (e₁ e₂ : Enc), SimU e₁ e₂ →
    l₁.map Prod.fst = l₂.map Prod.fst → (∀ p ∈ l₁, SaneCall p.1) → SimU (run e₁ l₁) (run e₂ l₂)
  | [], [], _, _, h, _, _ => by simpa [run] using h
  | [], _ :: _, _, _, _, hl, _ => by simp at hl
  | _ :: _, [], _, _, _, hl, _ => by simp at hl
  | (op₁, s₁) :: r₁, (op₂, s₂) :: r₂, e₁, e₂, h, hl, hs => by
    simp only [List.map_cons, List.cons.injEq] at hl
    obtain ⟨ho, hr⟩ := hl
    have ho : op₁ = op₂ := ho
    subst ho
    exact run_simU r₁ r₂ _ _ (step_simU h op₁ (hs (op₁, s₁) (by simp)) s₁ s₂) hr
      (fun p hp => hs p (by simp [hp]))

/-- What the writer accepted only grows along a disciplined run. -/
theorem stepD_delivered_prefix (a : Enc × Bool) (op : Op) (s : Sched) : a.1.delivered <+: (stepD a op s).1.delivered := by
  cases op with
  | tok t ws =>
    simp only [stepD]
    cases hw : write a.1 t ws with
    | none => exact List.prefix_refl _
    | some e' => exact step_delivered_prefix _ _ _
  | unwriteEmpty =>
    simp only [stepD]
    split
    · exact step_delivered_prefix _ _ _
    · exact List.prefix_refl _
  | unwriteName => exact step_delivered_prefix _ _ _

theorem runD_delivered_prefix : ∀ (l : List (Op × Sched)) (a : Enc × Bool), a.1.delivered <+: (runD a l).1.delivered
  | [], _ => List.prefix_refl _
  | (op, s) :: r, a => List.IsPrefix.trans (stepD_delivered_prefix a op s) (runD_delivered_prefix r _)

end JsonV.Model.Flush
