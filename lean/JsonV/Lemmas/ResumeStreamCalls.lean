/-
ReadValue and SkipValue of the streaming decoder model simulate the whole-buffer decoder; scripts mixing
ReadToken / ReadValue / SkipValue (C05: `sim_full`, `value_span_full`, `fault_stutter_full`).
-/
import JsonV.Lemmas.ResumeStreamRun
import JsonV.Lemmas.ResumeStreamVal
import JsonV.Lemmas.ResumeStreamValCons

namespace JsonV.Model.Stream
open JsonV JsonV.Model JsonV.Model.Validate JsonV.Model.TokenLoop JsonV.Model.Window

theorem containerFeed_tok (st : TState) (pos n : Nat) (k : UInt8) (m : Nat) (st' : TState)
    (h : containerFeed st pos n k = .tok m st') : m = pos + n := by
  unfold containerFeed at h
  repeat' split at h
  all_goals first
    | (injection h with h1 _; exact h1.symm)
    | (simp at h; done)

theorem kindAt_cons (u : Bytes) (pos : Nat) (c : UInt8) (vt : Bytes) (h : u.drop pos = c :: vt) :
    kindAt u pos = normKind c := by simp [kindAt, h]

/-- the `switch next` of the streaming ReadValue answers what the whole-input one answers -/
theorem valS_ok (o : VOpts) (fuel : Nat) (st : TState) (u : Bytes) (pos : Nat) (es : List Event) (f0 : Bool) (c : UInt8)
    (vt : Bytes) (hv : u.drop pos = c :: vt) :
    LexOk u pos es (valW o fuel st pos ((c :: vt) ++ avail es)) (valS o fuel st u pos es f0) := by
  have hk : kindAt u pos = normKind c := kindAt_cons u pos c vt hv
  have hk' : kindAt ((c :: vt) ++ avail es) 0 = normKind c := by simp [kindAt]
  have hpos : pos < u.length := by
    have := congrArg List.length hv; simp [List.length_drop] at this; omega
  unfold valS valW
  rw [hk, hk']
  by_cases hs : isScalarKind (normKind c) = true
  · simp only [hs, if_true]
    exact lexS_ok o st u pos es f0 c vt hv
  · simp only [hs, Bool.false_eq_true, if_false]
    by_cases hc : (normKind c == 0x7B || normKind c == 0x5B) = true
    · simp only [hc, if_true]
      have hV := (value_sim_all o fuel).1 st.m.depth u pos es c vt hv
      cases hsv : sValue o fuel st.m.depth u pos es with
      | fault u' es' => rw [hsv] at hV; exact hV
      | done n e u' es' f1 =>
        rw [hsv] at hV
        obtain ⟨g0, gT, ge, gu, gb⟩ := hV
        simp only
        rw [← g0]
        refine ⟨rfl, rfl, gT, ge, gu, ?_⟩
        intro m st' hm
        simp only at hm
        split at hm
        · simp at hm
        · rename_i hne
          have hok : e = .ok := by simpa using hne
          have := containerFeed_tok _ _ _ _ _ _ hm
          have hb := gb hok
          omega
    · simp only [hc, Bool.false_eq_true, if_false]
      exact lexOk_here _ _ _ _ _ (by intro n st' h; simp at h)

theorem readValue_sim (o : VOpts) (s : SState) (ws : WState) (h : Sim s ws) :
    ((readValue o s).1 = .fault ∧ Sim (readValue o s).2 ws ∧ (readValue o s).2.events.length < s.events.length) ∨
    ((readValue o s).1 = (wholeReadValue o ws).1 ∧ Sim (readValue o s).2 (wholeReadValue o ws).2 ∧
      (readValue o s).2.events.length ≤ s.events.length) := by
  have hf : fuelFor (s.w.unread ++ avail s.events) = fuelFor ws.r := by rw [h.2.2.2.2.1]
  unfold readValue wholeReadValue
  rw [hf]
  exact readWith_sim (valS o (fuelFor ws.r)) (valW o (fuelFor ws.r)) _ (fun st => valS_ok o (fuelFor ws.r) st) s ws h

theorem readValue_consumed (o : VOpts) (s : SState) :
    Consumed s.events (readValue o s).2.events (decide ((readValue o s).1 = .fault)) :=
  readWith_consumed _ _ (fun st => valS_consumed o _ st) s

/-- a call that cannot fault: same result as on the whole input, decoders at the same point again -/
def StepNF (r : Out × SState) (rw : Out × WState) : Prop :=
  r.1 = rw.1 ∧ Sim r.2 rw.2 ∧ NoFault r.2.events

theorem readToken_nf (o : VOpts) (s : SState) (ws : WState) (h : Sim s ws) (hn : NoFault s.events) :
    StepNF (readToken o s) (wholeRead o ws) := by
  have hc := noFault_of_consumed (readToken_consumed o s) hn
  rcases readToken_sim o s ws h with ⟨hf, _, _⟩ | ⟨ho, hs', _⟩
  · have := hc.1; simp [hf] at this
  · exact ⟨ho, hs', hc.2⟩

theorem readValue_nf (o : VOpts) (s : SState) (ws : WState) (h : Sim s ws) (hn : NoFault s.events) :
    StepNF (readValue o s) (wholeReadValue o ws) := by
  have hc := noFault_of_consumed (readValue_consumed o s) hn
  rcases readValue_sim o s ws h with ⟨hf, _, _⟩ | ⟨ho, hs', _⟩
  · have := hc.1; simp [hf] at this
  · exact ⟨ho, hs', hc.2⟩

/-- the `lex` of PeekKind: report the position -/
theorem peekLex_ok (st : TState) (u : Bytes) (pos : Nat) (es : List Event) (f : Bool) (c : UInt8) (vt : Bytes)
    (hv : u.drop pos = c :: vt) :
    LexOk u pos es ((fun (p : Nat) (_ : Bytes) => TRes.tok p st) pos ((c :: vt) ++ avail es))
      ((fun u pos es f => SRes.res (.tok pos st) pos u es f) u pos es f) := by
  have hpos : pos < u.length := by
    have := congrArg List.length hv; simp [List.length_drop] at this; omega
  exact lexOk_here _ _ _ _ _ (by intro n st' h; injection h with h1 _; omega)

theorem peek_sim (s : SState) (ws : WState) (h : Sim s ws) :
    ((peek s).1 = none ∧ Sim (peek s).2 ws ∧ (peek s).2.events.length < s.events.length) ∨
    ((peek s).1 = some (wholePeek ws) ∧ Sim (peek s).2 ws ∧ (peek s).2.events.length ≤ s.events.length) := by
  obtain ⟨h1, h2, h3, h4, h5, h6⟩ := h
  obtain ⟨i1, i2, i3, i4, i5⟩ := invalidate_facts s.w h1 h2
  have hscan := scanWith_ok s.st (fun u pos es f => SRes.res (.tok pos s.st) pos u es f) (fun p _ => TRes.tok p s.st)
    (peekLex_ok s.st) (Window.invalidate s.w).unread s.events
  unfold peek
  simp only
  cases hs : scanWith s.st (fun u pos es f => SRes.res (.tok pos s.st) pos u es f) (Window.invalidate s.w).unread s.events with
  | fault u' es' =>
    rw [hs] at hscan
    obtain ⟨g1, g2, g3⟩ := hscan
    left
    have hT : u' ++ avail es' = (Window.invalidate s.w).unread ++ (Window.invalidate s.w).pending := by
      rw [i3, h3]; exact g1
    obtain ⟨c1, c2, c3, c4, c5⟩ := commit_facts (Window.invalidate s.w) true u' (avail es') i4 i5 hT g3
    refine ⟨rfl, ⟨c4, c5, c3, h4, ?_, ?_⟩, g2⟩
    · simp only; rw [c1, h5, ← i1]; exact g1.symm
    · simp only; rw [c2, i2]; exact h6
  | res r start u' es' f =>
    rw [hs] at hscan
    obtain ⟨g0, g1, g2, g3, g4⟩ := hscan
    right
    have hT : u' ++ avail es' = (Window.invalidate s.w).unread ++ (Window.invalidate s.w).pending := by
      rw [i3, h3]; exact g1
    obtain ⟨c1, c2, c3, c4, c5⟩ := commit_facts (Window.invalidate s.w) f u' (avail es') i4 i5 hT g3
    have hr : ws.r = (Window.invalidate s.w).unread ++ avail s.events := by rw [i1]; exact h5
    have hsim : Sim { s with w := commitFetch (Window.invalidate s.w) f (u'.length - (Window.invalidate s.w).unread.length), events := es' } ws := by
      refine ⟨c4, c5, c3, h4, ?_, ?_⟩
      · simp only; rw [c1, hr]; exact g1.symm
      · simp only; rw [c2, i2]; exact h6
    simp only
    cases r with
    | err off e =>
      simp only
      have hw : wholeWith ws.st (fun p _ => TRes.tok p ws.st) ws.r = .err off e := by rw [h4, hr]; exact g0.symm
      exact ⟨by simp [wholePeek, hw], hsim, g2⟩
    | tok n st' =>
      simp only
      obtain ⟨t1, t2, t3, t4⟩ := g4 n st' rfl
      have hw : wholeWith ws.st (fun p _ => TRes.tok p ws.st) ws.r = .tok n st' := by rw [h4, hr]; exact g0.symm
      have hTu : ws.r = u' ++ avail es' := by rw [hr]; exact g1.symm
      have hst : wholeStart ws.r = start := by rw [hr]; exact t1.symm
      refine ⟨?_, hsim, g2⟩
      simp only [wholePeek, hw]
      rw [hst, hTu, kindAt_append u' _ start t4]


theorem peek_events (s : SState) :
    (peek s).2.events = (scanWith s.st (fun u pos es f => SRes.res (.tok pos s.st) pos u es f) (Window.invalidate s.w).unread s.events).evs ∧
    ((peek s).1 = none ↔ (scanWith s.st (fun u pos es f => SRes.res (.tok pos s.st) pos u es f) (Window.invalidate s.w).unread s.events).isFault = true) := by
  unfold peek
  simp only
  split
  · rename_i hx; rw [hx]; simp [SRes.evs, SRes.isFault]
  · rename_i hx; rw [hx]
    split <;> simp [SRes.evs, SRes.isFault]

theorem peek_nf (s : SState) (ws : WState) (h : Sim s ws) (hn : NoFault s.events) :
    (peek s).1 = some (wholePeek ws) ∧ Sim (peek s).2 ws ∧ NoFault (peek s).2.events := by
  have hC := scanWith_consumed s.st (fun u pos es f => SRes.res (.tok pos s.st) pos u es f)
    (fun u pos es f => Consumed.refl es) (Window.invalidate s.w).unread s.events
  obtain ⟨e1, e2⟩ := peek_events s
  rw [← e1] at hC
  have hc := noFault_of_consumed hC hn
  rcases peek_sim s ws h with ⟨hf, _, _⟩ | ⟨ho, hs', _⟩
  · have := e2.mp hf; rw [hc.1] at this; simp at this
  · exact ⟨ho, hs', hc.2⟩

theorem skipLoop_nf (o : VOpts) (fuel depth : Nat) : ∀ (s : SState) (ws : WState), Sim s ws → NoFault s.events →
    StepNF (skipLoop o fuel depth s) (wholeSkipLoop o fuel depth ws) := by
  induction fuel with
  | zero => intro s ws h hn; exact ⟨rfl, h, hn⟩
  | succ f ih =>
    intro s ws h hn
    obtain ⟨ho, hs', hn'⟩ := readToken_nf o s ws h hn
    simp only [skipLoop, wholeSkipLoop]
    rcases hrt : readToken o s with ⟨out, s'⟩
    rcases hwt : wholeRead o ws with ⟨outw, ws'⟩
    rw [hrt, hwt] at ho hs'
    rw [hrt] at hn'
    simp only at ho hs' hn'
    subst ho
    have hst : ws'.st = s'.st := hs'.2.2.2.1
    cases out with
    | fault => exact ⟨rfl, hs', hn'⟩
    | err off e => exact ⟨rfl, hs', hn'⟩
    | skip b => exact ⟨rfl, hs', hn'⟩
    | tok k a b =>
      simp only [hst]
      split
      · exact ⟨rfl, hs', hn'⟩
      · exact ih s' ws' hs' hn'

theorem skipValue_nf (o : VOpts) (s : SState) (ws : WState) (h : Sim s ws) (hn : NoFault s.events) :
    StepNF (skipValue o s) (wholeSkipValue o ws) := by
  obtain ⟨hp, hs1, hn1⟩ := peek_nf s ws h hn
  unfold skipValue wholeSkipValue
  rcases hpk : peek s with ⟨k, s1⟩
  rw [hpk] at hp hs1 hn1
  simp only at hp hs1 hn1
  subst hp
  simp only
  have hst : ws.st = s1.st := hs1.2.2.2.1
  have hr : ws.r = s1.w.unread ++ avail s1.events := hs1.2.2.2.2.1
  by_cases hk : (wholePeek ws == 0x7B || wholePeek ws == 0x5B) = true
  · simp only [hk, if_true]
    rw [← hr, ← hst]
    exact skipLoop_nf o _ _ s1 ws hs1 hn1
  · simp only [hk, Bool.false_eq_true, if_false]
    obtain ⟨ho, hs2, hn2⟩ := readValue_nf o s1 ws hs1 hn1
    rcases hrv : readValue o s1 with ⟨out, s2⟩
    rcases hwv : wholeReadValue o ws with ⟨outw, ws2⟩
    rw [hrv, hwv] at ho hs2
    rw [hrv] at hn2
    simp only at ho hs2 hn2
    subst ho
    cases out <;> exact ⟨rfl, hs2, hn2⟩

theorem call_nf (o : VOpts) (c : Call) (s : SState) (ws : WState) (h : Sim s ws) (hn : NoFault s.events) :
    StepNF (call o c s) (wholeCall o c ws) := by
  cases c with
  | readToken => exact readToken_nf o s ws h hn
  | readValue => exact readValue_nf o s ws h hn
  | skipValue => exact skipValue_nf o s ws h hn

/-- `sim_full` for ReadToken / ReadValue / SkipValue scripts -/
theorem script_sim (o : VOpts) (cs : List Call) : ∀ (s : SState) (ws : WState), Sim s ws → NoFault s.events →
    runScript o cs s = wholeScript o cs ws := by
  induction cs with
  | nil => intros; rfl
  | cons c cs ih =>
    intro s ws h hn
    obtain ⟨ho, hs', hn'⟩ := call_nf o c s ws h hn
    simp only [runScript, wholeScript]
    rw [ho, ih _ _ hs' hn']


theorem readValue_span (o : VOpts) (s : SState) (ws : WState) (h : Sim s ws) (pre : Bytes) (hpre : pre.length = ws.off)
    (k : UInt8) (a b : Nat) (ht : (readValue o s).1 = .tok k a b) :
    ws.off ≤ a ∧ a ≤ b ∧ b ≤ (pre ++ ws.r).length ∧
    (readValue o s).2.w.baseOffset + (readValue o s).2.w.prevEnd = b ∧
    (readValue o s).2.w.baseOffset + (readValue o s).2.w.prevStart = a ∧
    (readValue o s).2.prevBytes = ((pre ++ ws.r).drop a).take (b - a) := by
  have hf : fuelFor (s.w.unread ++ avail s.events) = fuelFor ws.r := by rw [h.2.2.2.2.1]
  unfold readValue at ht ⊢
  rw [hf] at ht ⊢
  obtain ⟨g1, g2, g3, g4, g5⟩ := readWith_span (valS o (fuelFor ws.r)) (valW o (fuelFor ws.r)) (fun _ => true)
    (fun st => valS_ok o (fuelFor ws.r) st) s ws h pre hpre k a b ht
  exact ⟨g1, g2, g3, g4, (g5 rfl).1, (g5 rfl).2⟩

end JsonV.Model.Stream
