/-
ReadValue and SkipValue of the streaming decoder model simulate the whole-buffer decoder; scripts mixing
ReadToken / ReadValue / SkipValue (C05: `sim_full`, `value_span_full`, `fault_stutter_full`).
-/
import JsonV.Lemmas.ResumeStreamRun
import JsonV.Lemmas.ResumeStreamVal

namespace JsonV.Model.Stream
open JsonV JsonV.Model JsonV.Model.Validate JsonV.Model.TokenLoop JsonV.Model.Window

theorem containerFeed_tok (st : TState) (pos n : Nat) (k : UInt8) (m : Nat) (st' : TState)
    (h : containerFeed st pos n k = .tok m st') : m = pos + n := by
  unfold containerFeed at h
  repeat' split at h
  all_goals first
    | (injection h with h1 _; exact h1.symm)
    | (simp at h; done)

theorem kindAt_cons (u : Bytes) (pos : Nat) (c : UInt8) (vt : Bytes) (h : u.drop pos = c :: vt) :
    kindAt u pos = normKind c := by simp [kindAt, h]

/-- the `switch next` of the streaming ReadValue answers what the whole-input one answers -/
theorem valS_ok (o : VOpts) (fuel : Nat) (st : TState) (u : Bytes) (pos : Nat) (es : List Event) (f0 : Bool) (c : UInt8)
    (vt : Bytes) (hv : u.drop pos = c :: vt) :
    LexOk u pos es (valW o fuel st pos ((c :: vt) ++ avail es)) (valS o fuel st u pos es f0) := by
  have hk : kindAt u pos = normKind c := kindAt_cons u pos c vt hv
  have hk' : kindAt ((c :: vt) ++ avail es) 0 = normKind c := by simp [kindAt]
  have hpos : pos < u.length := by
    have := congrArg List.length hv; simp [List.length_drop] at this; omega
  unfold valS valW
  rw [hk, hk']
  by_cases hs : isScalarKind (normKind c) = true
  · simp only [hs, if_true]
    exact lexS_ok o st u pos es f0 c vt hv
  · simp only [hs, Bool.false_eq_true, if_false]
    by_cases hc : (normKind c == 0x7B || normKind c == 0x5B) = true
    · simp only [hc, if_true]
      have hV := (value_sim_all o fuel).1 st.m.depth u pos es c vt hv
      cases hsv : sValue o fuel st.m.depth u pos es with
      | fault u' es' => rw [hsv] at hV; exact hV
      | done n e u' es' f1 =>
        rw [hsv] at hV
        obtain ⟨g0, gT, ge, gu, gb⟩ := hV
        simp only
        rw [← g0]
        refine ⟨rfl, rfl, gT, ge, gu, ?_⟩
        intro m st' hm
        simp only at hm
        split at hm
        · simp at hm
        · rename_i hne
          have hok : e = .ok := by simpa using hne
          have := containerFeed_tok _ _ _ _ _ _ hm
          have hb := gb hok
          omega
    · simp only [hc, Bool.false_eq_true, if_false]
      exact lexOk_here _ _ _ _ _ (by intro n st' h; simp at h)

theorem readValue_sim (o : VOpts) (s : SState) (ws : WState) (h : Sim s ws) :
    ((readValue o s).1 = .fault ∧ Sim (readValue o s).2 ws ∧ (readValue o s).2.events.length < s.events.length) ∨
    ((readValue o s).1 = (wholeReadValue o ws).1 ∧ Sim (readValue o s).2 (wholeReadValue o ws).2 ∧
      (readValue o s).2.events.length ≤ s.events.length) := by
  have hf : fuelFor (s.w.unread ++ avail s.events) = fuelFor ws.r := by rw [h.2.2.2.2.1]
  unfold readValue wholeReadValue
  rw [hf]
  exact readWith_sim (valS o (fuelFor ws.r)) (valW o (fuelFor ws.r)) _ (fun st => valS_ok o (fuelFor ws.r) st) s ws h

end JsonV.Model.Stream
